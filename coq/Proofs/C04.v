(** C04 — zone-aware date-times: one instant, many wall clocks.  Lemmas and proofs. *)
From Coq Require Import ZArith List Bool Lia ZifyBool String.
From V Require Import Base.Int Base.IntLemmas Base.IO Base.Lift Gen.DateTimeConsts Gen.DateTables Spec.Gregorian.
From V Require Model.Date Model.Time.
From V Require Import Model.DateTime Model.C04.
Import ListNotations.
Open Scope Z_scope.
Ltac Zify.zify_post_hook ::= Z.to_euclidean_division_equations.

Ltac solve_in := unfold in_i32, in_u32, in_i64, in_u64, in_range, i32_min, i32_max, u32_max,
  i64_min, i64_max, u64_max; lia.
Ltac wr := repeat first
  [ rewrite as_i32_id in * by solve_in | rewrite as_u32_id in * by solve_in
  | rewrite as_i64_id in * by solve_in | rewrite as_u64_id in * by solve_in ].

(** * Offsets: FixedOffset::east_opt / west_opt *)
Definition off_ok (off : Z) : Prop := -86400 < off < 86400.

Lemma east_opt_spec s : in_i32 s = true ->
  east_opt s = if (-86400 <? s) && (s <? 86400) then Some s else None.
Proof. intros _. unfold east_opt, FO_EAST_LO, FO_EAST_HI. reflexivity. Qed.

Lemma east_opt_some_iff s off : east_opt s = Some off <-> (off = s /\ off_ok s).
Proof.
  unfold east_opt, FO_EAST_LO, FO_EAST_HI, off_ok.
  destruct ((-86400 <? s) && (s <? 86400)) eqn:E; split; intros H.
  - inversion H. subst. lia.
  - destruct H as [-> _]. reflexivity.
  - discriminate.
  - lia.
Qed.

Lemma west_opt_spec s : in_i32 s = true ->
  west_opt s = Val (if (-86400 <? s) && (s <? 86400) then Some (- s) else None).
Proof.
  intros Hs. unfold west_opt, FO_WEST_LO, FO_WEST_HI, neg_i32, chk, bind.
  destruct ((-86400 <? s) && (s <? 86400)) eqn:E; [|reflexivity].
  replace (in_i32 (- s)) with true by (symmetry; solve_in). reflexivity.
Qed.

(** * The time-of-day part of adding / subtracting an offset (src/naive/time/mod.rs) *)
Definition time_ok (t : Time.ntime) : Prop := 0 <= Time.tsecs t < 86400 /\ 0 <= Time.tfrac t < 2000000000.

Lemma overflowing_add_offset_spec t off : time_ok t -> off_ok off ->
  Time.overflowing_add_offset t off =
    Val (Time.mk_time ((Time.tsecs t + off) mod 86400) (Time.tfrac t), (Time.tsecs t + off) / 86400).
Proof.
  intros [Hs Hf] Ho. unfold off_ok in Ho. unfold Time.overflowing_add_offset.
  rewrite as_i32_id by solve_in.
  unfold add_i32, chk. replace (in_i32 (Time.tsecs t + off)) with true by (symmetry; solve_in).
  cbv [bind]. rewrite div_euclid_pos, rem_euclid_pos by lia. unfold chk.
  replace (in_i32 ((Time.tsecs t + off) / 86400)) with true by (symmetry; solve_in).
  rewrite as_u32_id by solve_in. reflexivity.
Qed.

Lemma overflowing_sub_offset_spec t off : time_ok t -> off_ok off ->
  Time.overflowing_sub_offset t off =
    Val (Time.mk_time ((Time.tsecs t - off) mod 86400) (Time.tfrac t), (Time.tsecs t - off) / 86400).
Proof.
  intros [Hs Hf] Ho. unfold off_ok in Ho. unfold Time.overflowing_sub_offset.
  rewrite as_i32_id by solve_in.
  unfold sub_i32, chk. replace (in_i32 (Time.tsecs t - off)) with true by (symmetry; solve_in).
  cbv [bind]. rewrite div_euclid_pos, rem_euclid_pos by lia. unfold chk.
  replace (in_i32 ((Time.tsecs t - off) / 86400)) with true by (symmetry; solve_in).
  rewrite as_u32_id by solve_in. reflexivity.
Qed.

Lemma offset_days_range s off : 0 <= s < 86400 -> off_ok off ->
  -1 <= (s + off) / 86400 <= 1 /\ -1 <= (s - off) / 86400 <= 1.
Proof. unfold off_ok. lia. Qed.

(** the wall-clock time of day: [DateTime::time] = (secs + off) mod 86400, fraction kept *)
Lemma dz_time_spec a : time_ok (nd_time (dz_utc a)) -> off_ok (dz_off a) ->
  dz_time a = Val (Time.mk_time ((Time.tsecs (nd_time (dz_utc a)) + dz_off a) mod 86400)
                                (Time.tfrac (nd_time (dz_utc a)))).
Proof.
  intros Ht Ho. unfold dz_time, Time.op_add_offset, rmap.
  rewrite overflowing_add_offset_spec by assumption. reflexivity.
Qed.

(** * UTC round trip, zone conversion *)
Lemma utc_roundtrip off u : naive_utc (from_utc_datetime off u) = u /\ dz_off (from_utc_datetime off u) = off.
Proof. split; reflexivity. Qed.

Lemma cmpZ_refl x : cmpZ x x = 0.
Proof. unfold cmpZ. rewrite Z.compare_refl. reflexivity. Qed.
Lemma cmpZ_0_iff x y : cmpZ x y = 0 <-> x = y.
Proof.
  unfold cmpZ. destruct (x ?= y) eqn:E; split; intros H; try discriminate.
  - apply Z.compare_eq. exact E.
  - reflexivity.
  - subst. rewrite Z.compare_refl in E. discriminate.
  - subst. rewrite Z.compare_refl in E. discriminate.
Qed.

Lemma cmpZ_eqb x y : (cmpZ x y =? 0) = (x =? y).
Proof.
  destruct (x =? y) eqn:E.
  - apply Z.eqb_eq in E. subst. rewrite cmpZ_refl. reflexivity.
  - apply Z.eqb_neq. intros H. apply (proj1 (cmpZ_0_iff x y)) in H. apply Z.eqb_neq in E. contradiction.
Qed.
Lemma cmpZ_vals x y : cmpZ x y = -1 \/ cmpZ x y = 0 \/ cmpZ x y = 1.
Proof. unfold cmpZ. destruct (x ?= y); auto. Qed.

Lemma ndt_cmp_0_iff a b : ndt_cmp a b = 0 <-> ndt_eqb a b = true.
Proof.
  unfold ndt_cmp, ndt_eqb, cmp_lex.
  rewrite <- (cmpZ_eqb (nd_date a)), <- (cmpZ_eqb (Time.tsecs (nd_time a))), <- (cmpZ_eqb (Time.tfrac (nd_time a))).
  set (c1 := cmpZ (nd_date a) (nd_date b)).
  set (c2 := cmpZ (Time.tsecs (nd_time a)) (Time.tsecs (nd_time b))).
  set (c3 := cmpZ (Time.tfrac (nd_time a)) (Time.tfrac (nd_time b))).
  clearbody c1 c2 c3.
  destruct (c1 =? 0) eqn:E1; destruct (c2 =? 0) eqn:E2; destruct (c3 =? 0) eqn:E3; cbn [andb]; lia.
Qed.

Lemma keys_eqb_ndt a b : keys_eqb (ndt_hash_key a) (ndt_hash_key b) = ndt_eqb a b.
Proof. unfold ndt_hash_key, ndt_eqb. cbn [keys_eqb]. rewrite andb_true_r, andb_assoc. reflexivity. Qed.

(** comparison, equality and the hash key are functions of the UTC reading only; the three agree *)
Lemma eq_ord_hash_utc_only a b a' b' : dz_utc a = dz_utc a' -> dz_utc b = dz_utc b' ->
  dz_eqb a b = dz_eqb a' b' /\ dz_cmp a b = dz_cmp a' b' /\ dz_hash_key a = dz_hash_key a'.
Proof. intros Ha Hb. unfold dz_eqb, dz_cmp, dz_hash_key. rewrite Ha, Hb. auto. Qed.
Lemma eq_ord_hash_agree a b :
  (dz_eqb a b = true <-> dz_cmp a b = 0) /\
  (dz_eqb a b = keys_eqb (dz_hash_key a) (dz_hash_key b)).
Proof.
  split.
  - unfold dz_eqb, dz_cmp. symmetry. apply ndt_cmp_0_iff.
  - unfold dz_eqb, dz_hash_key. symmetry. apply keys_eqb_ndt.
Qed.

Lemma with_timezone_utc a off : dz_utc (with_timezone a off) = dz_utc a /\ dz_off (with_timezone a off) = off.
Proof. split; reflexivity. Qed.
Lemma with_timezone_same_instant a off :
  dz_eqb (with_timezone a off) a = true /\ dz_cmp (with_timezone a off) a = 0 /\
  dz_hash_key (with_timezone a off) = dz_hash_key a.
Proof.
  assert (H : dz_cmp (with_timezone a off) a = 0).
  { unfold dz_cmp, with_timezone, from_utc_datetime, ndt_cmp, cmp_lex. cbn [dz_utc].
    rewrite !cmpZ_refl. reflexivity. }
  split; [|split; [exact H|reflexivity]].
  apply (proj1 (eq_ord_hash_agree _ _)). exact H.
Qed.
Lemma fixed_offset_id a : dz_fixed_offset a = a.
Proof. destruct a. reflexivity. Qed.
Lemma to_utc_spec a : dz_utc (dz_to_utc a) = dz_utc a /\ dz_off (dz_to_utc a) = 0.
Proof. split; reflexivity. Qed.

(** * Semantics: what a value denotes *)
(** day number of a date word (total: [d_year]/[d_ordinal] are shifts and masks) *)
Definition dn (d : Z) : Z := dn_of_yo (Date.d_year d) (Date.d_ordinal d).
(** date words of the supported dates: the results of the checked constructor *)
Definition nominal (d : Z) : Prop :=
  exists y o, in_i32 y = true /\ in_u32 o = true /\ Date.from_yo_opt y o = Val (Some d).
(** ... plus the two headroom dates *)
Definition dateok (d : Z) : Prop := nominal d \/ d = Date.D_BEFORE_MIN \/ d = Date.D_AFTER_MAX.

(** second count and sub-second field of a naive reading; wall clock of a date-time *)
Definition usecs (a : ndt) : Z := dn (nd_date a) * 86400 + Time.tsecs (nd_time a).
Definition frac (a : ndt) : Z := Time.tfrac (nd_time a).
Definition wall (a : dtz) : Z := usecs (dz_utc a) + dz_off a.

Definition TMIN := Eval compute in DN_MIN * 86400.
Definition TMAX := Eval compute in DN_MAX * 86400 + 86399.
Definition in_rng (t : Z) : bool := (TMIN <=? t) && (t <=? TMAX).

Definition ndt_ok (a : ndt) : Prop := nominal (nd_date a) /\ time_ok (nd_time a).
Definition ndt_wide (a : ndt) : Prop := dateok (nd_date a) /\ time_ok (nd_time a).
Definition dtz_ok (a : dtz) : Prop := ndt_ok (dz_utc a) /\ off_ok (dz_off a).

(** the range ends and the headroom dates, by computation *)
Lemma nominal_MIN : nominal Date.D_MIN.
Proof. exists (-262143), 1. vm_compute. repeat split; reflexivity. Qed.
Lemma nominal_MAX : nominal Date.D_MAX.
Proof. exists 262142, 365. vm_compute. repeat split; reflexivity. Qed.
Lemma dn_MIN : dn Date.D_MIN = DN_MIN. Proof. vm_compute. reflexivity. Qed.
Lemma dn_MAX : dn Date.D_MAX = DN_MAX. Proof. vm_compute. reflexivity. Qed.
Lemma dn_BEFORE_MIN : dn Date.D_BEFORE_MIN = DN_MIN - 1. Proof. vm_compute. reflexivity. Qed.
Lemma dn_AFTER_MAX : dn Date.D_AFTER_MAX = DN_MAX + 1. Proof. vm_compute. reflexivity. Qed.
Lemma succ_BEFORE_MIN : Date.succ_opt Date.D_BEFORE_MIN = Val (Some Date.D_MIN). Proof. vm_compute. reflexivity. Qed.
Lemma pred_AFTER_MAX : Date.pred_opt Date.D_AFTER_MAX = Val (Some Date.D_MAX). Proof. vm_compute. reflexivity. Qed.

(** The literal year flags written in BEFORE_MIN / AFTER_MAX (taken from the source by the translator)
    are the flags the YEAR_TO_FLAGS table gives for the years MIN_YEAR-1 / MAX_YEAR+1, and the dates
    are 31 December / 1 January of those years. *)
Lemma headroom_flags :
  Date.yf_from_year (MIN_YEAR - 1) = Val (Date.d_year_flags Date.D_BEFORE_MIN) /\
  Date.yf_from_year (MAX_YEAR + 1) = Val (Date.d_year_flags Date.D_AFTER_MAX) /\
  Date.d_year Date.D_BEFORE_MIN = MIN_YEAR - 1 /\ Date.d_ordinal Date.D_BEFORE_MIN = days_in_year (MIN_YEAR - 1) /\
  Date.d_year Date.D_AFTER_MAX = MAX_YEAR + 1 /\ Date.d_ordinal Date.D_AFTER_MAX = 1.
Proof. vm_compute. repeat split; reflexivity. Qed.

(** the accessors of a date word agree with the calendar reading of its day number *)
Definition fields_ok (d : Z) : Prop :=
  let n := dn d in
  let '(y, m, dd) := ymd_of_dn n in
  Date.d_year d = y /\ Date.d_month d = Val m /\ Date.d_day d = Val dd /\
  Date.d_ordinal d = ordinal_of_dn n /\ Date.d_weekday d = Val (weekday_of_dn n).
Definition iso_ok (d : Z) : Prop :=
  exists w, Date.d_iso_week d = Val w /\ (Date.iw_year w, Date.iw_week w) = iso_of_dn (dn d).
(** the same as computable checks *)
Definition rZ_is (r : R Z) (x : Z) : bool := match r with Val v => v =? x | _ => false end.
Definition fields_okb (d : Z) : bool :=
  let n := dn d in
  let '(y, m, dd) := ymd_of_dn n in
  (Date.d_year d =? y) && rZ_is (Date.d_month d) m && rZ_is (Date.d_day d) dd &&
  (Date.d_ordinal d =? ordinal_of_dn n) && rZ_is (Date.d_weekday d) (weekday_of_dn n).
Definition iso_okb (d : Z) : bool :=
  match Date.d_iso_week d with
  | Val w => (Date.iw_year w =? fst (iso_of_dn (dn d))) && (Date.iw_week w =? snd (iso_of_dn (dn d)))
  | _ => false
  end.
Lemma rZ_is_true r x : rZ_is r x = true -> r = Val x.
Proof. destruct r; cbn; try discriminate. intros H. apply Z.eqb_eq in H. subst. reflexivity. Qed.
Lemma fields_okb_ok d : fields_okb d = true -> fields_ok d.
Proof.
  unfold fields_okb, fields_ok. destruct (ymd_of_dn (dn d)) as [[y m] dd].
  intros H. repeat (apply andb_prop in H; destruct H as [H ?]).
  apply Z.eqb_eq in H. apply rZ_is_true in H3, H2, H0. apply Z.eqb_eq in H1.
  repeat split; assumption.
Qed.
Lemma iso_okb_ok d : iso_okb d = true -> iso_ok d.
Proof.
  unfold iso_okb, iso_ok. destruct (Date.d_iso_week d) as [w| |]; try discriminate.
  intros H. exists w. split; [reflexivity|]. apply andb_prop in H. destruct H as [Ha Hb].
  apply Z.eqb_eq in Ha, Hb. rewrite Ha, Hb. destruct (iso_of_dn (dn d)); reflexivity.
Qed.
Lemma fields_BEFORE_MIN : fields_ok Date.D_BEFORE_MIN.
Proof. apply fields_okb_ok. vm_compute. reflexivity. Qed.
Lemma fields_AFTER_MAX : fields_ok Date.D_AFTER_MAX.
Proof. apply fields_okb_ok. vm_compute. reflexivity. Qed.
Lemma iso_BEFORE_MIN : iso_ok Date.D_BEFORE_MIN.
Proof. apply iso_okb_ok. vm_compute. reflexivity. Qed.
Lemma iso_AFTER_MAX : iso_ok Date.D_AFTER_MAX.
Proof. apply iso_okb_ok. vm_compute. reflexivity. Qed.

Lemma ndt_eta a : mk_ndt (nd_date a) (nd_time a) = a. Proof. destruct a. reflexivity. Qed.
Lemma time_eta t : Time.mk_time (Time.tsecs t) (Time.tfrac t) = t. Proof. destruct t. reflexivity. Qed.

Lemma sub_is_add_neg t off : time_ok t -> off_ok off ->
  Time.overflowing_sub_offset t off = Time.overflowing_add_offset t (- off).
Proof.
  intros Ht Ho. rewrite overflowing_sub_offset_spec, overflowing_add_offset_spec; try assumption.
  - replace (Time.tsecs t + - off) with (Time.tsecs t - off) by lia. reflexivity.
  - unfold off_ok in *. lia.
Qed.

Ltac ulia := unfold DN_MIN, DN_MAX, TMIN, TMAX in *; lia.

Lemma succ_AFTER_MAX : exists x, Date.succ_opt Date.D_AFTER_MAX = Val (Some x) /\ Date.D_MAX < x.
Proof. eexists. split; [vm_compute; reflexivity|vm_compute; reflexivity]. Qed.
Lemma pred_BEFORE_MIN : exists x, Date.pred_opt Date.D_BEFORE_MIN = Val (Some x) /\ x < Date.D_MIN.
Proof. eexists. split; [vm_compute; reflexivity|vm_compute; reflexivity]. Qed.
Lemma MIN_MAX_words : Date.D_BEFORE_MIN < Date.D_MIN /\ Date.D_MAX < Date.D_AFTER_MAX.
Proof. vm_compute. split; reflexivity. Qed.


(** * General lemmas (no calendar-core facts needed) *)
Lemma cmpZ_spec x y : (x < y /\ cmpZ x y = -1) \/ (x = y /\ cmpZ x y = 0) \/ (x > y /\ cmpZ x y = 1).
Proof.
  unfold cmpZ. destruct (x ?= y) eqn:E.
  - apply Z.compare_eq in E. auto.
  - left. split; [apply Z.compare_lt_iff; exact E|reflexivity].
  - right. right. split; [apply Z.compare_gt_iff in E; lia|reflexivity].
Qed.

Definition md_boundsb (leap : bool) (o : Z) : bool :=
  let '(m, d) := md_of_ordinal leap o in (1 <=? m) && (m <=? 12) && (1 <=? d) && (d <=? 32).

Lemma md_bounds leap o : 1 <= o <= 366 ->
  let '(m, d) := md_of_ordinal leap o in 1 <= m <= 12 /\ 1 <= d <= 32.
Proof.
  intros Ho. assert (H : md_boundsb leap o = true).
  { destruct leap.
    - apply (forall_range_spec (md_boundsb true) 366 1); [vm_compute; reflexivity|lia].
    - apply (forall_range_spec (md_boundsb false) 366 1); [vm_compute; reflexivity|lia]. }
  unfold md_boundsb in H. destruct (md_of_ordinal leap o) as [m d]. lia.
Qed.

Lemma ordinal_bounds n : 1 <= ordinal_of_dn n <= 366.
Proof.
  unfold ordinal_of_dn, yo_of_dn. cbn [snd].
  set (r3 := ((n - 1) mod 146097 - Z.min ((n - 1) mod 146097 / 36524) 3 * 36524) mod 1461).
  assert (0 <= r3 < 1461) by (unfold r3; apply Z.mod_pos_bound; lia).
  clearbody r3. destruct (Z.min_spec (r3 / 365) 3) as [[? ->]|[? ->]]; lia.
Qed.

Lemma ymd_bounds n : let '(y, m, d) := ymd_of_dn n in 1 <= m <= 12 /\ 1 <= d <= 32.
Proof.
  unfold ymd_of_dn. pose proof (ordinal_bounds n) as Ho. unfold ordinal_of_dn in Ho.
  destruct (yo_of_dn n) as [y o]. cbn [snd] in Ho.
  pose proof (md_bounds (is_leap y) o Ho) as Hm. destruct (md_of_ordinal (is_leap y) o). exact Hm.
Qed.

Lemma hms_spec t : time_ok t ->
  Time.hour t = Time.tsecs t / 3600 /\ Time.minute t = Time.tsecs t / 60 mod 60 /\ Time.second t = Time.tsecs t mod 60.
Proof.
  intros [Hs _]. unfold Time.hour, Time.minute, Time.second, Time.hms, Time.udiv, Time.urem.
  rewrite !Z.quot_div_nonneg, !Z.rem_mod_nonneg by lia. repeat split; lia.
Qed.

Lemma ndt_le_spec a b :
  ndt_le a b = (nd_date a <? nd_date b) || ((nd_date a =? nd_date b) &&
     ((Time.tsecs (nd_time a) <? Time.tsecs (nd_time b)) || ((Time.tsecs (nd_time a) =? Time.tsecs (nd_time b)) &&
        (Time.tfrac (nd_time a) <=? Time.tfrac (nd_time b))))).
Proof.
  unfold ndt_le, ndt_cmp, cmp_lex.
  destruct (cmpZ_spec (nd_date a) (nd_date b)) as [[C1 ->]|[[C1 ->]|[C1 ->]]];
  destruct (cmpZ_spec (Time.tsecs (nd_time a)) (Time.tsecs (nd_time b))) as [[C2 ->]|[[C2 ->]|[C2 ->]]];
  destruct (cmpZ_spec (Time.tfrac (nd_time a)) (Time.tfrac (nd_time b))) as [[C3 ->]|[[C3 ->]|[C3 ->]]];
  cbn [Z.eqb]; lia.
Qed.

Lemma out_of_range_word x tm off : x < Date.D_MIN \/ Date.D_MAX < x ->
  in_utc_range (mk_dtz (mk_ndt x tm) off) = false.
Proof.
  intros H. unfold in_utc_range. cbn [dz_utc]. rewrite !ndt_le_spec.
  unfold NDT_MIN, NDT_MAX, T_MIN, T_MAX. cbn [nd_date nd_time Time.tsecs Time.tfrac]. lia.
Qed.

Definition new_time (field sod f x : Z) : option (Z * Z) :=
  if field =? 7 then if x <? 24 then Some (x * 3600 + sod mod 3600, f) else None
  else if field =? 8 then if x <? 60 then Some (sod / 3600 * 3600 + x * 60 + sod mod 60, f) else None
  else if field =? 9 then if x <? 60 then Some (sod / 60 * 60 + x, f) else None
  else if x <? 2000000000 then Some (sod, x) else None.

Lemma ndt_with_time_spec field l x : 7 <= field <= 10 -> time_ok (nd_time l) -> in_u32 x = true ->
  ndt_with field l x =
  Val (match new_time field (Time.tsecs (nd_time l)) (Time.tfrac (nd_time l)) x with
       | Some (s', f') => Some (mk_ndt (nd_date l) (Time.mk_time s' f'))
       | None => None end) /\
  match new_time field (Time.tsecs (nd_time l)) (Time.tfrac (nd_time l)) x with
  | Some (s', f') => time_ok (Time.mk_time s' f')
  | None => True end.
Proof.
  intros Hfld [Hs Hf] Hx. unfold ndt_with, new_time.
  set (s := Time.tsecs (nd_time l)) in *. set (f := Time.tfrac (nd_time l)) in *.
  replace (field =? 0) with false by lia. replace (field =? 1) with false by lia.
  replace (field =? 2) with false by lia. replace (field =? 3) with false by lia.
  replace (field =? 4) with false by lia. replace (field =? 5) with false by lia.
  replace (field =? 6) with false by lia.
  unfold in_u32, in_range, u32_max in Hx.
  destruct (field =? 7) eqn:E7.
  - unfold ndt_map_time, Time.with_hour, Time.urem. fold s f.
    replace (x >=? 24) with (negb (x <? 24)) by lia.
    destruct (x <? 24) eqn:Ex; cbn [negb]; unfold obind; cbv [bind]; [|split; [reflexivity|exact I]].
    unfold mul_u32, add_u32, chk. replace (in_u32 (x * 3600)) with true by (symmetry; solve_in). cbv [bind].
    rewrite Z.rem_mod_nonneg by lia.
    replace (in_u32 (x * 3600 + s mod 3600)) with true by (symmetry; solve_in).
    split; [reflexivity|]. unfold time_ok. cbn [Time.tsecs Time.tfrac]. lia.
  - destruct (field =? 8) eqn:E8.
    + unfold ndt_map_time, Time.with_minute, Time.urem, Time.udiv. fold s f.
      replace (x >=? 60) with (negb (x <? 60)) by lia.
      destruct (x <? 60) eqn:Ex; cbn [negb]; unfold obind; cbv [bind]; [|split; [reflexivity|exact I]].
      rewrite Z.rem_mod_nonneg, Z.quot_div_nonneg by lia.
      unfold mul_u32, add_u32, chk.
      replace (in_u32 (s / 3600 * 3600)) with true by (symmetry; solve_in). cbv [bind].
      replace (in_u32 (x * 60)) with true by (symmetry; solve_in). cbv [bind].
      replace (in_u32 (s / 3600 * 3600 + x * 60)) with true by (symmetry; solve_in). cbv [bind].
      replace (in_u32 (s / 3600 * 3600 + x * 60 + s mod 60)) with true by (symmetry; solve_in).
      split; [reflexivity|]. unfold time_ok. cbn [Time.tsecs Time.tfrac]. lia.
    + destruct (field =? 9) eqn:E9.
      * unfold ndt_map_time, Time.with_second, Time.udiv. fold s f.
        replace (x >=? 60) with (negb (x <? 60)) by lia.
        destruct (x <? 60) eqn:Ex; cbn [negb]; unfold obind; cbv [bind]; [|split; [reflexivity|exact I]].
        rewrite Z.quot_div_nonneg by lia.
        unfold mul_u32, add_u32, chk.
        replace (in_u32 (s / 60 * 60)) with true by (symmetry; solve_in). cbv [bind].
        replace (in_u32 (s / 60 * 60 + x)) with true by (symmetry; solve_in).
        split; [reflexivity|]. unfold time_ok. cbn [Time.tsecs Time.tfrac]. lia.
      * replace (field =? 10) with true by lia.
        unfold ndt_map_time, Time.with_nanosecond. fold s f.
        replace (x >=? 2000000000) with (negb (x <? 2000000000)) by lia.
        destruct (x <? 2000000000) eqn:Ex; cbn [negb]; unfold obind; cbv [bind]; [|split; [reflexivity|exact I]].
        split; [reflexivity|]. unfold time_ok. cbn [Time.tsecs Time.tfrac]. lia.
Qed.

Lemma mlt_and_then_refilter (r : mlt dtz) (g : dtz -> bool) :
  (r = MNone \/ exists x, r = MSingle x) ->
  mlt_and_then r (fun x => if g x then Some x else None) =
  match (match mlt_single r with Some x => if g x then Some x else None | None => None end) with
  | Some x => MSingle x | None => MNone end.
Proof. intros [->|[x ->]]; cbn; [reflexivity|]. destruct (g x); reflexivity. Qed.

Lemma in_rng_days n r : 0 <= r < 86400 ->
  in_rng (n * 86400 + r) = (DN_MIN <=? n) && (n <=? DN_MAX).
Proof. intros Hr. unfold in_rng, TMIN, TMAX, DN_MIN, DN_MAX. lia. Qed.

(** Facts about Model/Date.v that belong to C01 (to be proved there for the nominal dates): the day
    number is an order embedding of the date words into [DN_MIN, DN_MAX], successor / predecessor
    move the day number by one and fail exactly at the range ends, and the accessors read the
    calendar fields of the day number.  Every theorem of the section below is an implication from
    this one proposition. *)
Definition date_facts : Prop :=
  (forall d, nominal d -> DN_MIN <= dn d <= DN_MAX) /\
  (forall d1 d2, nominal d1 -> nominal d2 -> (d1 < d2 <-> dn d1 < dn d2)) /\
  (forall d, nominal d ->
     if dn d <? DN_MAX then exists d', Date.succ_opt d = Val (Some d') /\ nominal d' /\ dn d' = dn d + 1
     else Date.succ_opt d = Val None) /\
  (forall d, nominal d ->
     if DN_MIN <? dn d then exists d', Date.pred_opt d = Val (Some d') /\ nominal d' /\ dn d' = dn d - 1
     else Date.pred_opt d = Val None) /\
  (forall d, nominal d -> fields_ok d).

Section ModuloDateTime.
Hypothesis HD : date_facts.
Let H_range := proj1 HD.
Let H_order := proj1 (proj2 HD).
Let H_succ := proj1 (proj2 (proj2 HD)).
Let H_pred := proj1 (proj2 (proj2 (proj2 HD))).
Let H_acc := proj2 (proj2 (proj2 (proj2 HD))).

Lemma nominal_inj d1 d2 : nominal d1 -> nominal d2 -> dn d1 = dn d2 -> d1 = d2.
Proof.
  intros H1 H2 E. pose proof (H_order d1 d2 H1 H2). pose proof (H_order d2 d1 H2 H1). lia.
Qed.
Lemma nominal_le d1 d2 : nominal d1 -> nominal d2 -> (d1 <= d2 <-> dn d1 <= dn d2).
Proof.
  intros H1 H2. pose proof (H_order d1 d2 H1 H2). pose proof (H_order d2 d1 H2 H1). lia.
Qed.
Lemma nominal_bounds d : nominal d -> Date.D_MIN <= d <= Date.D_MAX.
Proof.
  intros H. pose proof (H_range d H).
  pose proof (nominal_le Date.D_MIN d nominal_MIN H). pose proof (nominal_le d Date.D_MAX H nominal_MAX).
  rewrite dn_MIN in *. rewrite dn_MAX in *. lia.
Qed.

Lemma dateok_fields d : dateok d -> fields_ok d.
Proof. intros [H|[->| ->]]; [apply H_acc; exact H|apply fields_BEFORE_MIN|apply fields_AFTER_MAX]. Qed.
Lemma dateok_range d : dateok d -> DN_MIN - 1 <= dn d <= DN_MAX + 1.
Proof.
  intros [H|[->| ->]]; [pose proof (H_range d H); lia| rewrite dn_BEFORE_MIN; ulia|rewrite dn_AFTER_MAX; ulia].
Qed.
Lemma dateok_nominal d : dateok d -> DN_MIN <= dn d <= DN_MAX -> nominal d.
Proof.
  intros [H|[->| ->]] Hr; [exact H| rewrite dn_BEFORE_MIN in Hr; ulia|rewrite dn_AFTER_MAX in Hr; ulia].
Qed.
Lemma dateok_inj d1 d2 : dateok d1 -> dateok d2 -> dn d1 = dn d2 -> d1 = d2.
Proof.
  intros H1 H2 E.
  destruct H1 as [H1|[->| ->]]; destruct H2 as [H2|[->| ->]]; try reflexivity;
    try (apply nominal_inj; assumption);
    try (pose proof (H_range _ H1)); try (pose proof (H_range _ H2));
    rewrite ?dn_BEFORE_MIN, ?dn_AFTER_MAX in *; unfold DN_MIN, DN_MAX in *; lia.
Qed.

(** ** shifting the date by the day carry of the offset *)
Lemma shift_checked_spec d k : nominal d -> -1 <= k <= 1 ->
  if (DN_MIN <=? dn d + k) && (dn d + k <=? DN_MAX)
  then exists d', shift_date_checked d k = Val (Some d') /\ nominal d' /\ dn d' = dn d + k
  else shift_date_checked d k = Val None.
Proof.
  intros Hd Hk. pose proof (H_range d Hd) as Hr. unfold shift_date_checked.
  destruct (k =? -1) eqn:E1.
  - assert (k = -1) by lia. subst k. pose proof (H_pred d Hd) as Hp.
    destruct (DN_MIN <? dn d) eqn:E.
    + replace ((DN_MIN <=? dn d + -1) && (dn d + -1 <=? DN_MAX)) with true by lia.
      destruct Hp as [d' [Hp1 [Hp2 Hp3]]]. exists d'. repeat split; [exact Hp1|exact Hp2|lia].
    + replace ((DN_MIN <=? dn d + -1) && (dn d + -1 <=? DN_MAX)) with false by lia. exact Hp.
  - destruct (k =? 1) eqn:E2.
    + assert (k = 1) by lia. subst k. pose proof (H_succ d Hd) as Hs.
      destruct (dn d <? DN_MAX) eqn:E.
      * replace ((DN_MIN <=? dn d + 1) && (dn d + 1 <=? DN_MAX)) with true by lia.
        destruct Hs as [d' [Hs1 [Hs2 Hs3]]]. exists d'. repeat split; [exact Hs1|exact Hs2|lia].
      * replace ((DN_MIN <=? dn d + 1) && (dn d + 1 <=? DN_MAX)) with false by lia. exact Hs.
    + assert (k = 0) by lia. subst k.
      replace ((DN_MIN <=? dn d + 0) && (dn d + 0 <=? DN_MAX)) with true by lia.
      exists d. repeat split; [exact Hd|lia].
Qed.

Lemma shift_overflowing_spec d k : nominal d -> -1 <= k <= 1 ->
  exists d', shift_date_overflowing d k = Val d' /\ dateok d' /\ dn d' = dn d + k.
Proof.
  intros Hd Hk. pose proof (H_range d Hd) as Hr. unfold shift_date_overflowing.
  destruct (k =? -1) eqn:E1.
  - assert (k = -1) by lia. subst k. pose proof (H_pred d Hd) as Hp.
    destruct (DN_MIN <? dn d) eqn:E.
    + destruct Hp as [d' [Hp1 [Hp2 Hp3]]]. rewrite Hp1. cbv [bind]. exists d'.
      repeat split; [left; exact Hp2|lia].
    + rewrite Hp. cbv [bind]. exists Date.D_BEFORE_MIN. repeat split; [right; left; reflexivity|].
      rewrite dn_BEFORE_MIN. lia.
  - destruct (k =? 1) eqn:E2.
    + assert (k = 1) by lia. subst k. pose proof (H_succ d Hd) as Hs.
      destruct (dn d <? DN_MAX) eqn:E.
      * destruct Hs as [d' [Hs1 [Hs2 Hs3]]]. rewrite Hs1. cbv [bind]. exists d'.
        repeat split; [left; exact Hs2|lia].
      * rewrite Hs. cbv [bind]. exists Date.D_AFTER_MAX. repeat split; [right; right; reflexivity|].
        rewrite dn_AFTER_MAX. lia.
    + assert (k = 0) by lia. subst k. exists d. repeat split; [left; exact Hd|lia].
Qed.

(** ** NaiveDateTime +/- FixedOffset *)
Lemma ndt_ok_range a : ndt_ok a -> in_rng (usecs a) = true.
Proof.
  intros [Hd [Hs Hf]]. pose proof (H_range _ Hd) as Hr. unfold in_rng, usecs, TMIN, TMAX.
  unfold DN_MIN, DN_MAX in Hr. lia.
Qed.


Lemma ndt_checked_add_offset_spec a off : ndt_ok a -> off_ok off ->
  if in_rng (usecs a + off)
  then exists l, ndt_checked_add_offset a off = Val (Some l) /\ ndt_ok l /\
                 usecs l = usecs a + off /\ frac l = frac a
  else ndt_checked_add_offset a off = Val None.
Proof.
  intros [Hd Ht] Ho. unfold ndt_checked_add_offset.
  rewrite overflowing_add_offset_spec by assumption. cbv [bind].
  set (s := Time.tsecs (nd_time a)) in *. destruct Ht as [Hs Hf]. fold s in Hs.
  pose proof (proj1 (offset_days_range s off Hs Ho)) as Hk.
  pose proof (shift_checked_spec (nd_date a) ((s + off) / 86400) Hd Hk) as Hsh.
  assert (Hw : usecs a + off = (dn (nd_date a) + (s + off) / 86400) * 86400 + (s + off) mod 86400).
  { unfold usecs. fold s. lia. }
  rewrite Hw, in_rng_days by lia.
  destruct ((DN_MIN <=? dn (nd_date a) + (s + off) / 86400) && (dn (nd_date a) + (s + off) / 86400 <=? DN_MAX)).
  - destruct Hsh as [d' [Hs1 [Hs2 Hs3]]]. unfold obind. rewrite Hs1. cbv [bind].
    eexists. split; [reflexivity|]. unfold ndt_ok, usecs, frac, time_ok. cbn [nd_date nd_time Time.tsecs Time.tfrac].
    repeat split; try assumption; try lia.
  - unfold obind. rewrite Hsh. reflexivity.
Qed.

Lemma ndt_checked_sub_offset_spec a off : ndt_ok a -> off_ok off ->
  if in_rng (usecs a - off)
  then exists l, ndt_checked_sub_offset a off = Val (Some l) /\ ndt_ok l /\
                 usecs l = usecs a - off /\ frac l = frac a
  else ndt_checked_sub_offset a off = Val None.
Proof.
  intros Ha Ho. assert (Ho' : off_ok (- off)) by (unfold off_ok in *; lia).
  pose proof (ndt_checked_add_offset_spec a (- off) Ha Ho') as H.
  replace (usecs a + - off) with (usecs a - off) in H by lia.
  unfold ndt_checked_sub_offset. unfold ndt_checked_add_offset in H.
  rewrite sub_is_add_neg by (try apply Ha; assumption). exact H.
Qed.

Lemma ndt_overflowing_add_offset_spec a off : ndt_ok a -> off_ok off ->
  exists l, ndt_overflowing_add_offset a off = Val l /\ ndt_wide l /\
            usecs l = usecs a + off /\ frac l = frac a.
Proof.
  intros [Hd Ht] Ho. unfold ndt_overflowing_add_offset.
  rewrite overflowing_add_offset_spec by assumption. cbv [bind].
  set (s := Time.tsecs (nd_time a)) in *. destruct Ht as [Hs Hf]. fold s in Hs.
  pose proof (proj1 (offset_days_range s off Hs Ho)) as Hk.
  destruct (shift_overflowing_spec (nd_date a) ((s + off) / 86400) Hd Hk) as [d' [Hs1 [Hs2 Hs3]]].
  rewrite Hs1. eexists. split; [reflexivity|].
  unfold ndt_wide, usecs, frac, time_ok. cbn [nd_date nd_time Time.tsecs Time.tfrac]. fold s.
  repeat split; try assumption; try lia.
Qed.

(** two readings with the same second count and fraction are the same value *)
Lemma ndt_wide_inj a b : ndt_wide a -> ndt_wide b -> usecs a = usecs b -> frac a = frac b -> a = b.
Proof.
  intros [Hda [Hsa Hfa]] [Hdb [Hsb Hfb]] Hu Hf. unfold usecs, frac in *.
  assert (dn (nd_date a) = dn (nd_date b) /\ Time.tsecs (nd_time a) = Time.tsecs (nd_time b)) as [E1 E2] by lia.
  apply dateok_inj in E1; try assumption.
  rewrite <- (ndt_eta a), <- (ndt_eta b), <- (time_eta (nd_time a)), <- (time_eta (nd_time b)).
  rewrite E1, E2, Hf. reflexivity.
Qed.
Lemma ndt_ok_wide a : ndt_ok a -> ndt_wide a.
Proof. intros [H1 H2]. split; [left; exact H1|exact H2]. Qed.

(** * Construction from the wall clock (from_local_datetime), and its failure condition *)
Theorem from_local_spec off l : ndt_ok l -> off_ok off ->
  if in_rng (usecs l - off)
  then exists z, from_local_datetime off l = Val (MSingle z) /\ dtz_ok z /\ dz_off z = off /\
                 usecs (dz_utc z) = usecs l - off /\ frac (dz_utc z) = frac l
  else from_local_datetime off l = Val MNone.
Proof.
  intros Hl Ho. unfold from_local_datetime.
  pose proof (ndt_checked_sub_offset_spec l off Hl Ho) as H.
  destruct (in_rng (usecs l - off)).
  - destruct H as [u [H1 [H2 [H3 H4]]]]. rewrite H1. cbv [bind].
    eexists. split; [reflexivity|]. unfold dtz_ok. cbn [dz_utc dz_off]. auto.
  - rewrite H. reflexivity.
Qed.

(** * Reading the wall clock: naive_local panics exactly outside the nominal range;
      overflowing_naive_local is always right (one-day headroom) *)
Theorem naive_local_spec a : dtz_ok a ->
  if in_rng (wall a)
  then exists l, naive_local a = Val l /\ ndt_ok l /\ usecs l = wall a /\ frac l = frac (dz_utc a)
  else naive_local a = Panic.
Proof.
  intros [Hu Ho]. unfold naive_local, wall, unwrap_r.
  pose proof (ndt_checked_add_offset_spec (dz_utc a) (dz_off a) Hu Ho) as H.
  destruct (in_rng (usecs (dz_utc a) + dz_off a)).
  - destruct H as [l [H1 H2]]. rewrite H1. cbv [bind unwrap]. exists l. auto.
  - rewrite H. reflexivity.
Qed.
Theorem overflowing_naive_local_spec a : dtz_ok a ->
  exists l, overflowing_naive_local a = Val l /\ ndt_wide l /\ usecs l = wall a /\ frac l = frac (dz_utc a).
Proof. intros [Hu Ho]. apply ndt_overflowing_add_offset_spec; assumption. Qed.

(** building from a wall clock and reading the wall clock back is the identity *)
Theorem local_roundtrip off l z : ndt_ok l -> off_ok off ->
  from_local_datetime off l = Val (MSingle z) -> naive_local z = Val l /\ overflowing_naive_local z = Val l.
Proof.
  intros Hl Ho H. pose proof (from_local_spec off l Hl Ho) as Hs.
  destruct (in_rng (usecs l - off)) eqn:E.
  2:{ rewrite Hs in H. discriminate. }
  destruct Hs as [z' [H1 [H2 [H3 [H4 H5]]]]]. rewrite H1 in H. inversion H. subst z'. clear H.
  assert (Hw : wall z = usecs l) by (unfold wall; rewrite H3, H4; lia).
  pose proof (naive_local_spec z H2) as Hn. rewrite Hw in Hn.
  rewrite (ndt_ok_range l Hl) in Hn. destruct Hn as [l2 [Hn1 [Hn2 [Hn3 Hn4]]]].
  assert (l2 = l).
  { apply ndt_wide_inj; try (apply ndt_ok_wide; assumption); [exact Hn3|]. rewrite Hn4, H5. reflexivity. }
  subst l2. split; [exact Hn1|].
  destruct (overflowing_naive_local_spec z H2) as [l3 [Ho1 [Ho2 [Ho3 Ho4]]]].
  assert (l3 = l).
  { apply ndt_wide_inj; try assumption; [apply ndt_ok_wide; assumption|lia|]. rewrite Ho4, H5. reflexivity. }
  subst l3. exact Ho1.
Qed.

(** building from UTC never fails, and the wall clock of the result is UTC + offset: so the
    construction from the wall clock fails only when the UTC reading would leave the range *)
Theorem from_utc_then_local off u : ndt_ok u -> off_ok off ->
  dtz_ok (from_utc_datetime off u) /\ wall (from_utc_datetime off u) = usecs u + off.
Proof. intros Hu Ho. split; [split; assumption|reflexivity]. Qed.

(** * Equality and ordering are those of the instants (second count, fraction) *)

Theorem cmp_is_instant_order a b : dtz_ok a -> dtz_ok b ->
  dz_cmp a b = cmp_lex [usecs (dz_utc a); frac (dz_utc a)] [usecs (dz_utc b); frac (dz_utc b)] /\
  (dz_eqb a b = true <-> usecs (dz_utc a) = usecs (dz_utc b) /\ frac (dz_utc a) = frac (dz_utc b)).
Proof.
  intros [[Hda [Hsa Hfa]] _] [[Hdb [Hsb Hfb]] _].
  assert (Hc : dz_cmp a b = cmp_lex [usecs (dz_utc a); frac (dz_utc a)] [usecs (dz_utc b); frac (dz_utc b)]).
  { unfold dz_cmp, ndt_cmp, cmp_lex, usecs, frac.
    set (ua := dz_utc a) in *. set (ub := dz_utc b) in *.
    pose proof (H_order _ _ Hda Hdb) as O1. pose proof (H_order _ _ Hdb Hda) as O2.
    destruct (cmpZ_spec (nd_date ua) (nd_date ub)) as [[C1 ->]|[[C1 ->]|[C1 ->]]];
    destruct (cmpZ_spec (Time.tsecs (nd_time ua)) (Time.tsecs (nd_time ub))) as [[C2 ->]|[[C2 ->]|[C2 ->]]];
    destruct (cmpZ_spec (dn (nd_date ua) * 86400 + Time.tsecs (nd_time ua))
                        (dn (nd_date ub) * 86400 + Time.tsecs (nd_time ub))) as [[C3 ->]|[[C3 ->]|[C3 ->]]];
    cbn [Z.eqb]; try reflexivity; try (exfalso; rewrite ?C1 in *; lia). }
  split; [exact Hc|].
  rewrite (proj1 (eq_ord_hash_agree a b)), Hc. unfold cmp_lex.
  destruct (cmpZ_spec (usecs (dz_utc a)) (usecs (dz_utc b))) as [[C1 ->]|[[C1 ->]|[C1 ->]]];
  destruct (cmpZ_spec (frac (dz_utc a)) (frac (dz_utc b))) as [[C2 ->]|[[C2 ->]|[C2 ->]]];
  cbn [Z.eqb]; lia.
Qed.

(** * Accessors read the wall clock (including the one-day headroom) *)


(** every accessor returns the field of the wall clock W = UTC + offset *)
Theorem accessors_wallclock a : dtz_ok a ->
  let w := wall a in let n := w / 86400 in let sod := w mod 86400 in
  let '(y, m, d) := ymd_of_dn n in
  dz_year a = Val y /\ dz_month a = Val m /\ dz_month0 a = Val (m - 1) /\
  dz_day a = Val d /\ dz_day0 a = Val (d - 1) /\
  dz_ordinal a = Val (ordinal_of_dn n) /\ dz_ordinal0 a = Val (ordinal_of_dn n - 1) /\
  dz_weekday a = Val (weekday_of_dn n) /\
  dz_hour a = Val (sod / 3600) /\ dz_minute a = Val (sod / 60 mod 60) /\ dz_second a = Val (sod mod 60) /\
  dz_nanosecond a = Val (frac (dz_utc a)).
Proof.
  intros Ha. destruct (overflowing_naive_local_spec a Ha) as [l [Hl [[Hd Ht] [Hu Hf]]]].
  pose proof (dateok_fields _ Hd) as Hacc. unfold fields_ok in Hacc.
  assert (Hn : dn (nd_date l) = wall a / 86400 /\ Time.tsecs (nd_time l) = wall a mod 86400).
  { unfold usecs in Hu. destruct Ht as [Hs _]. lia. }
  destruct Hn as [Hn Hsod]. rewrite Hn in Hacc.
  pose proof (ymd_bounds (wall a / 86400)) as Hb. pose proof (ordinal_bounds (wall a / 86400)) as Hob.
  cbv zeta. destruct (ymd_of_dn (wall a / 86400)) as [[y m] d].
  destruct Hacc as [A1 [A2 [A3 [A4 A5]]]].
  destruct (hms_spec _ Ht) as [T1 [T2 T3]].
  unfold dz_year, dz_month, dz_month0, dz_day, dz_day0, dz_ordinal, dz_ordinal0, dz_weekday,
    dz_hour, dz_minute, dz_second, dz_nanosecond, dz_get.
  rewrite Hl. cbv [bind].
  unfold ndt_year, ndt_month, ndt_month0, ndt_day, ndt_day0, ndt_ordinal, ndt_ordinal0, ndt_weekday,
    ndt_hour, ndt_minute, ndt_second, ndt_nanosecond, Time.nanosecond.
  rewrite A1, A2, A3, A4, A5, T1, T2, T3, Hsod. cbv [bind].
  unfold sub_u32, chk.
  replace (in_u32 (m - 1)) with true by (symmetry; solve_in).
  replace (in_u32 (d - 1)) with true by (symmetry; solve_in).
  replace (in_u32 (ordinal_of_dn (wall a / 86400) - 1)) with true by (symmetry; solve_in).
  unfold frac in Hf. rewrite Hf. repeat split; reflexivity.
Qed.

(** ISO week of the wall clock, given the ISO-week lemma of the calendar core for nominal dates
    (C01, not yet available); the two headroom dates are computed here *)
Theorem iso_week_wallclock a : (forall d, nominal d -> iso_ok d) -> dtz_ok a ->
  exists w, dz_iso_week a = Val w /\ (Date.iw_year w, Date.iw_week w) = iso_of_dn (wall a / 86400).
Proof.
  intros HI Ha. destruct (overflowing_naive_local_spec a Ha) as [l [Hl [[Hd Ht] [Hu Hf]]]].
  assert (Hn : dn (nd_date l) = wall a / 86400).
  { unfold usecs in Hu. destruct Ht as [Hs _]. lia. }
  assert (Hiso : iso_ok (nd_date l)).
  { destruct Hd as [H|[->| ->]]; [apply HI; exact H|apply iso_BEFORE_MIN|apply iso_AFTER_MAX]. }
  destruct Hiso as [w [W1 W2]]. exists w. rewrite <- Hn. split; [|exact W2].
  unfold dz_iso_week, dz_get. rewrite Hl. cbv [bind]. exact W1.
Qed.

(** * Re-resolution of a (possibly headroom) wall clock in the zone, range-filtered: the common tail
      of map_local (all field setters), with_time (as repaired) and day stepping *)

(** the one reading the filter refuses inside the second range: a leap fraction in the last second *)
Definition leap_at_max (t f : Z) : bool := (t =? TMAX) && (1000000000 <=? f).
Definition keep (t f : Z) : bool := in_rng t && negb (leap_at_max t f).

Lemma in_utc_range_nominal u off : ndt_ok u ->
  in_utc_range (mk_dtz u off) = negb (leap_at_max (usecs u) (frac u)).
Proof.
  intros [Hd [Hs Hf]]. unfold in_utc_range. cbn [dz_utc]. rewrite !ndt_le_spec.
  unfold NDT_MIN, NDT_MAX, T_MIN, T_MAX. cbn [nd_date nd_time Time.tsecs Time.tfrac].
  pose proof (nominal_bounds _ Hd) as Hb. pose proof (H_range _ Hd) as Hr.
  pose proof (H_order _ _ Hd nominal_MAX) as O1. pose proof (H_order _ _ nominal_MAX Hd) as O2.
  rewrite dn_MAX in O1, O2.
  unfold leap_at_max, usecs, frac, TMAX. unfold DN_MAX in *.
  set (d := nd_date u) in *. set (n := dn d) in *. clearbody n d.
  destruct (Z.eq_dec d Date.D_MAX) as [E|E].
  - assert (n = 95745399) by lia. lia.
  - assert (n <> 95745399) by lia. lia.
Qed.

Definition refiltered (off : Z) (l' : ndt) : R (option dtz) :=
  let* r := from_local_datetime off l' in
  Val (match mlt_single r with Some x => if in_utc_range x then Some x else None | None => None end).


(** classification of [from_local_datetime] on a wall clock whose date may be a headroom date:
    inside the second range it is the exact value; outside it is either refused or a value whose UTC
    date word lies outside [D_MIN, D_MAX] (which every range filter then removes) *)
Definition escaped (off : Z) (r : mlt dtz) (below : bool) : Prop :=
  r = MNone \/ exists x tm, r = MSingle (mk_dtz (mk_ndt x tm) off) /\
                            if below then x < Date.D_MIN else Date.D_MAX < x.
Lemma from_local_wide off l' : ndt_wide l' -> off_ok off ->
  exists r, from_local_datetime off l' = Val r /\
  ((in_rng (usecs l' - off) = true /\ exists z, r = MSingle z /\ dtz_ok z /\ dz_off z = off /\
        usecs (dz_utc z) = usecs l' - off /\ frac (dz_utc z) = frac l') \/
   (usecs l' - off < TMIN /\ escaped off r true) \/
   (TMAX < usecs l' - off /\ escaped off r false)).
Proof.
  intros [Hd Ht] Ho.
  destruct Hd as [Hd|Hd].
  - pose proof (from_local_spec off l' (conj Hd Ht) Ho) as H.
    destruct (in_rng (usecs l' - off)) eqn:E.
    + destruct H as [z [H1 H2]]. exists (MSingle z). split; [exact H1|]. left. split; [reflexivity|].
      exists z. split; [reflexivity|exact H2].
    + exists MNone. split; [exact H|]. unfold in_rng in E.
      destruct (Z_lt_dec (usecs l' - off) TMIN); [right; left|right; right]; (split; [lia|left; reflexivity]).
  - destruct Ht as [Hs Hf]. assert (Ht : time_ok (nd_time l')) by (split; assumption).
    unfold from_local_datetime, ndt_checked_sub_offset.
    rewrite overflowing_sub_offset_spec by assumption. cbv [bind].
    set (s := Time.tsecs (nd_time l')) in *.
    pose proof (proj2 (offset_days_range s off Hs Ho)) as Hk.
    assert (Hw : usecs l' - off = (dn (nd_date l') + (s - off) / 86400) * 86400 + (s - off) mod 86400).
    { unfold usecs. fold s. lia. }
    assert (Hm : 0 <= (s - off) mod 86400 < 86400) by (apply Z.mod_pos_bound; lia).
    unfold shift_date_checked.
    destruct Hd as [Hd|Hd]; rewrite Hd in *.
    + (* BEFORE_MIN *)
      rewrite dn_BEFORE_MIN in *.
      destruct ((s - off) / 86400 =? -1) eqn:E1.
      * destruct pred_BEFORE_MIN as [x [P1 P2]]. rewrite P1. unfold obind. cbv [bind].
        eexists. split; [reflexivity|]. right. left. split; [ulia|]. right. eexists. eexists. split; [reflexivity|exact P2].
      * destruct ((s - off) / 86400 =? 1) eqn:E2.
        -- rewrite succ_BEFORE_MIN. unfold obind. cbv [bind].
           eexists. split; [reflexivity|]. left. split; [unfold in_rng; ulia|].
           eexists. split; [reflexivity|]. rewrite Hw. unfold dtz_ok, ndt_ok, time_ok, usecs, frac.
           cbn [dz_utc dz_off nd_date nd_time Time.tsecs Time.tfrac]. rewrite dn_MIN.
           repeat split; try apply nominal_MIN; try apply Ho; try ulia.
        -- unfold obind. cbv [bind].
           eexists. split; [reflexivity|]. right. left. split; [ulia|]. right. eexists. eexists.
           split; [reflexivity|apply MIN_MAX_words].
    + (* AFTER_MAX *)
      rewrite dn_AFTER_MAX in *.
      destruct ((s - off) / 86400 =? -1) eqn:E1.
      * rewrite pred_AFTER_MAX. unfold obind. cbv [bind].
        eexists. split; [reflexivity|]. left. split; [unfold in_rng; ulia|].
        eexists. split; [reflexivity|]. rewrite Hw. unfold dtz_ok, ndt_ok, time_ok, usecs, frac.
        cbn [dz_utc dz_off nd_date nd_time Time.tsecs Time.tfrac]. rewrite dn_MAX.
        repeat split; try apply nominal_MAX; try apply Ho; try ulia.
      * destruct ((s - off) / 86400 =? 1) eqn:E2.
        -- destruct succ_AFTER_MAX as [x [P1 P2]]. rewrite P1. unfold obind. cbv [bind].
           eexists. split; [reflexivity|]. right. right. split; [ulia|]. right. eexists. eexists. split; [reflexivity|exact P2].
        -- unfold obind. cbv [bind].
           eexists. split; [reflexivity|]. right. right. split; [ulia|]. right. eexists. eexists.
           split; [reflexivity|apply MIN_MAX_words].
Qed.

Lemma refiltered_spec off l' : ndt_wide l' -> off_ok off ->
  if keep (usecs l' - off) (frac l')
  then exists z, refiltered off l' = Val (Some z) /\ dtz_ok z /\ dz_off z = off /\
                 usecs (dz_utc z) = usecs l' - off /\ frac (dz_utc z) = frac l'
  else refiltered off l' = Val None.
Proof.
  intros Hl Ho. unfold refiltered, keep.
  destruct (from_local_wide off l' Hl Ho) as [r [Hr [[E [z [-> [Z1 [Z2 [Z3 Z4]]]]]]|[[E Hesc]|[E Hesc]]]]];
    rewrite Hr; cbv [bind].
  - rewrite E. cbn [andb mlt_single]. destruct z as [u o]. cbn [dz_utc dz_off] in *.
    rewrite (in_utc_range_nominal u o (proj1 Z1)), Z3, Z4.
    destruct (leap_at_max (usecs l' - off) (frac l')); cbn [negb]; [reflexivity|].
    eexists. split; [reflexivity|]. cbn [dz_utc dz_off]. auto.
  - replace (in_rng (usecs l' - off)) with false by (unfold in_rng; lia). cbn [andb].
    destruct Hesc as [->|[x [tm [-> Hx]]]]; cbn [mlt_single]; [reflexivity|].
    rewrite out_of_range_word by (left; exact Hx). reflexivity.
  - replace (in_rng (usecs l' - off)) with false by (unfold in_rng; lia). cbn [andb].
    destruct Hesc as [->|[x [tm [-> Hx]]]]; cbn [mlt_single]; [reflexivity|].
    rewrite out_of_range_word by (right; exact Hx). reflexivity.
Qed.

(** ** map_local: every field setter *)
Theorem map_local_some a f l l' : dtz_ok a -> overflowing_naive_local a = Val l ->
  f l = Val (Some l') -> ndt_wide l' ->
  if keep (usecs l' - dz_off a) (frac l')
  then exists z, map_local a f = Val (Some z) /\ dtz_ok z /\ dz_off z = dz_off a /\
                 usecs (dz_utc z) = usecs l' - dz_off a /\ frac (dz_utc z) = frac l'
  else map_local a f = Val None.
Proof.
  intros Ha Hl Hf Hw. unfold map_local. rewrite Hl. cbv [bind]. unfold obind. rewrite Hf. cbv [bind].
  exact (refiltered_spec (dz_off a) l' Hw (proj2 Ha)).
Qed.
Theorem map_local_none a f l : overflowing_naive_local a = Val l -> f l = Val None -> map_local a f = Val None.
Proof. intros Hl Hf. unfold map_local. rewrite Hl. cbv [bind]. unfold obind. rewrite Hf. reflexivity. Qed.

(** UTC -> wall clock -> UTC: re-resolving the unchanged wall clock gives the value back *)
Lemma dtz_inj a b : dtz_ok a -> dtz_ok b -> dz_off a = dz_off b ->
  usecs (dz_utc a) = usecs (dz_utc b) -> frac (dz_utc a) = frac (dz_utc b) -> a = b.
Proof.
  intros [Ha _] [Hb _] Ho Hu Hf. destruct a as [ua oa], b as [ub ob]. cbn [dz_utc dz_off] in *.
  rewrite (ndt_wide_inj ua ub (ndt_ok_wide _ Ha) (ndt_ok_wide _ Hb) Hu Hf), Ho. reflexivity.
Qed.
Theorem utc_local_utc a l : dtz_ok a -> overflowing_naive_local a = Val l ->
  from_local_datetime (dz_off a) l = Val (MSingle a).
Proof.
  intros Ha Hl. destruct (overflowing_naive_local_spec a Ha) as [l2 [Hl2 [Hw [Hu Hf]]]].
  rewrite Hl in Hl2. inversion Hl2. subst l2. clear Hl2.
  assert (Hus : usecs l - dz_off a = usecs (dz_utc a)) by (unfold wall in Hu; lia).
  destruct (from_local_wide (dz_off a) l Hw (proj2 Ha)) as [r [Hr [[E [z [-> [Z1 [Z2 [Z3 Z4]]]]]]|[[E _]|[E _]]]]].
  - rewrite Hr. f_equal. f_equal. apply dtz_inj; try assumption; [lia|]. rewrite Z4, Hf. reflexivity.
  - pose proof (ndt_ok_range _ (proj1 Ha)) as Hin. unfold in_rng in Hin. lia.
  - pose proof (ndt_ok_range _ (proj1 Ha)) as Hin. unfold in_rng in Hin. lia.
Qed.

(** ** with_time (as repaired in 6a10a33: the same range filter as map_local) *)

Theorem with_time_spec a t : dtz_ok a -> time_ok t ->
  let w' := wall a / 86400 * 86400 + Time.tsecs t in
  if keep (w' - dz_off a) (Time.tfrac t)
  then exists z, dz_with_time a t = Val (MSingle z) /\ dtz_ok z /\ dz_off z = dz_off a /\
                 wall z = w' /\ frac (dz_utc z) = Time.tfrac t
  else dz_with_time a t = Val MNone.
Proof.
  intros Ha Ht w'. destruct (overflowing_naive_local_spec a Ha) as [l [Hl [[Hd Htl] [Hu Hf]]]].
  set (l' := mk_ndt (nd_date l) t).
  assert (Hw : ndt_wide l') by (split; assumption).
  assert (Hus : usecs l' = w').
  { unfold w', usecs, l'. cbn [nd_date nd_time]. unfold usecs in Hu. destruct Htl as [Hs _]. lia. }
  pose proof (refiltered_spec (dz_off a) l' Hw (proj2 Ha)) as H. rewrite Hus in H.
  replace (frac l') with (Time.tfrac t) in H by reflexivity.
  unfold dz_with_time. rewrite Hl. cbv [bind]. fold l'.
  unfold refiltered in H.
  destruct (from_local_wide (dz_off a) l' Hw (proj2 Ha)) as [r [Hr Hcl]].
  rewrite Hr in *. cbv [bind] in *.
  rewrite mlt_and_then_refilter.
  2:{ unfold escaped in Hcl.
      destruct Hcl as [[_ [z [-> _]]]|[[_ [->|[x [tm [-> _]]]]]|[_ [->|[x [tm [-> _]]]]]]];
        first [left; reflexivity | right; eexists; reflexivity]. }
  destruct (keep (w' - dz_off a) (Time.tfrac t)).
  - destruct H as [z [H1 [H2 [H3 [H4 H5]]]]]. inversion H1 as [H1'].
    exists z. split.
    { destruct (mlt_single r) as [x|]; [destruct (in_utc_range x)|]; inversion H1'; reflexivity. }
    repeat split; try assumption; try apply H2. unfold wall in *. rewrite H4, H3. lia.
  - inversion H as [H'].
    destruct (mlt_single r) as [x|]; [destruct (in_utc_range x)|]; try discriminate H'; reflexivity.
Qed.

(** ** replacing a time-of-day field of the wall clock (hour 7, minute 8, second 9, nanosecond 10) *)


Theorem with_timefield_spec field a x : dtz_ok a -> 7 <= field <= 10 -> in_u32 x = true ->
  match new_time field (wall a mod 86400) (frac (dz_utc a)) x with
  | None => dz_with field a x = Val None
  | Some (s', f') =>
      let w' := wall a / 86400 * 86400 + s' in
      if keep (w' - dz_off a) f'
      then exists z, dz_with field a x = Val (Some z) /\ dtz_ok z /\ dz_off z = dz_off a /\
                     wall z = w' /\ frac (dz_utc z) = f'
      else dz_with field a x = Val None
  end.
Proof.
  intros Ha Hfld Hx. destruct (overflowing_naive_local_spec a Ha) as [l [Hl [[Hd Htl] [Hu Hf]]]].
  assert (Hn : dn (nd_date l) = wall a / 86400 /\ Time.tsecs (nd_time l) = wall a mod 86400).
  { unfold usecs in Hu. destruct Htl as [Hs _]. lia. }
  destruct Hn as [Hn Hsod].
  destruct (ndt_with_time_spec field l x Hfld Htl Hx) as [Hw Hok].
  unfold frac in Hf. rewrite Hsod, Hf in Hw, Hok. fold (frac (dz_utc a)) in Hw, Hok.
  unfold dz_with. replace (field =? 0) with false by lia.
  destruct (new_time field (wall a mod 86400) (frac (dz_utc a)) x) as [[s' f']|].
  - cbv zeta.
    set (l' := mk_ndt (nd_date l) (Time.mk_time s' f')).
    assert (Hwd : ndt_wide l') by (split; assumption).
    pose proof (map_local_some a (fun l0 => ndt_with field l0 x) l l' Ha Hl Hw Hwd) as H.
    assert (Hus : usecs l' = wall a / 86400 * 86400 + s').
    { unfold usecs, l'. cbn [nd_date nd_time Time.tsecs]. lia. }
    rewrite Hus in H. replace (frac l') with f' in H by reflexivity.
    destruct (keep (wall a / 86400 * 86400 + s' - dz_off a) f').
    + destruct H as [z [H1 [H2 [H3 [H4 H5]]]]]. exists z. repeat split; try assumption; try apply H2.
      unfold wall in *. rewrite H4, H3. lia.
    + exact H.
  - apply (map_local_none a _ l Hl Hw).
Qed.

(** ** replacing a date field / stepping by days or months: the DateTime layer on top of the
      NaiveDate operation [g] (whose own correctness is C01/C08): the time of day is kept, the new
      wall clock is re-resolved and range-filtered *)
Theorem with_datefield_glue field a x l : dtz_ok a -> 1 <= field <= 6 ->
  overflowing_naive_local a = Val l ->
  match ndt_with field l x with
  | Val None => dz_with field a x = Val None
  | Val (Some l') =>
      ndt_wide l' ->
      if keep (usecs l' - dz_off a) (frac l')
      then exists z, dz_with field a x = Val (Some z) /\ dtz_ok z /\ dz_off z = dz_off a /\
                     wall z = usecs l' /\ frac (dz_utc z) = frac l'
      else dz_with field a x = Val None
  | _ => True
  end.
Proof.
  intros Ha Hfld Hl. unfold dz_with. replace (field =? 0) with false by lia.
  destruct (ndt_with field l x) as [[l'|]| |] eqn:E; try exact I.
  - intros Hw. pose proof (map_local_some a (fun l0 => ndt_with field l0 x) l l' Ha Hl E Hw) as H.
    destruct (keep (usecs l' - dz_off a) (frac l')).
    + destruct H as [z [H1 [H2 [H3 [H4 H5]]]]]. exists z. repeat split; try assumption; try apply H2.
      unfold wall in *. rewrite H4, H3. lia.
    + exact H.
  - apply (map_local_none a _ l Hl E).
Qed.

(** with_year: the unchanged year returns the value itself (also for a headroom wall clock) *)
Theorem with_year_same a l : dtz_ok a -> overflowing_naive_local a = Val l ->
  negb (leap_at_max (usecs (dz_utc a)) (frac (dz_utc a))) = true ->
  dz_with 0 a (Date.d_year (nd_date l)) = Val (Some a).
Proof.
  intros Ha Hl Hnl. destruct (overflowing_naive_local_spec a Ha) as [l2 [Hl2 [Hw [Hu Hf]]]].
  rewrite Hl in Hl2. inversion Hl2. subst l2. clear Hl2.
  unfold dz_with. replace (0 =? 0) with true by reflexivity.
  unfold map_local. rewrite Hl. cbv [bind]. unfold obind. rewrite Z.eqb_refl. cbv [bind].
  rewrite (utc_local_utc a l Ha Hl). cbv [bind mlt_single].
  destruct a as [u o]. cbn [dz_utc dz_off] in *.
  rewrite (in_utc_range_nominal u o (proj1 Ha)), Hnl. reflexivity.
Qed.

(** day stepping: [n = 0] is the identity; otherwise the NaiveDate result is re-resolved; the
    one-sided filters suffice because the step moves in one direction *)
Lemma ndt_le_MIN u : ndt_ok u -> ndt_le NDT_MIN u = true.
Proof.
  intros [Hd [Hs Hf]]. rewrite ndt_le_spec. unfold NDT_MIN, T_MIN. cbn [nd_date nd_time Time.tsecs Time.tfrac].
  pose proof (nominal_bounds _ Hd). lia.
Qed.
Lemma in_utc_range_split x : in_utc_range x = ndt_le NDT_MIN (dz_utc x) && ndt_le (dz_utc x) NDT_MAX.
Proof. reflexivity. Qed.

Theorem add_days_glue a n l d' : dtz_ok a -> n <> 0 -> overflowing_naive_local a = Val l ->
  Date.checked_add_days (nd_date l) n = Val (Some d') -> dateok d' -> dn (nd_date l) <= dn d' ->
  let w' := dn d' * 86400 + wall a mod 86400 in
  if keep (w' - dz_off a) (frac (dz_utc a))
  then exists z, dz_checked_add_days a n = Val (Some z) /\ dtz_ok z /\ dz_off z = dz_off a /\
                 wall z = w' /\ frac (dz_utc z) = frac (dz_utc a)
  else dz_checked_add_days a n = Val None.
Proof.
  intros Ha Hn Hl Hg Hd' Hmono w'.
  destruct (overflowing_naive_local_spec a Ha) as [l2 [Hl2 [[Hd Htl] [Hu Hf]]]].
  rewrite Hl in Hl2. inversion Hl2. subst l2. clear Hl2.
  assert (Hsod : Time.tsecs (nd_time l) = wall a mod 86400 /\ dn (nd_date l) = wall a / 86400).
  { unfold usecs in Hu. destruct Htl as [Hs _]. lia. }
  destruct Hsod as [Hsod Hdn].
  set (l' := mk_ndt d' (nd_time l)).
  assert (Hw : ndt_wide l') by (split; assumption).
  assert (Hus : usecs l' = w') by (unfold usecs, l', w'; cbn [nd_date nd_time]; lia).
  unfold dz_checked_add_days. replace (n =? 0) with false by lia.
  rewrite Hl. cbv [bind]. unfold ndt_checked_add_days, ndt_map_date, obind. rewrite Hg. cbv [bind]. fold l'.
  pose proof (ndt_ok_range _ (proj1 Ha)) as Hin. unfold in_rng in Hin.
  assert (Hlow : TMIN <= usecs l' - dz_off a).
  { rewrite Hus. unfold w'. unfold wall in *. unfold usecs in Hu. lia. }
  unfold keep. replace (frac l) with (frac l') in Hf by reflexivity.
  destruct (from_local_wide (dz_off a) l' Hw (proj2 Ha)) as [r [Hr [[E [z [-> [Z1 [Z2 [Z3 Z4]]]]]]|[[E Hesc]|[E Hesc]]]]];
    rewrite Hr; cbv [bind].
  - rewrite <- Hus, E. cbn [andb mlt_single].
    pose proof (in_utc_range_nominal (dz_utc z) (dz_off z) (proj1 Z1)) as Hir.
    rewrite in_utc_range_split in Hir. cbn [dz_utc] in Hir. rewrite (ndt_le_MIN _ (proj1 Z1)) in Hir. cbn [andb] in Hir.
    rewrite Hir, Z3, Z4, <- Hf.
    destruct (leap_at_max (usecs l' - dz_off a) (frac l')); cbn [negb]; [reflexivity|].
    exists z. repeat split; try assumption; try apply Z1. unfold wall in *. rewrite Z3, Z2. lia.
  - lia.
  - rewrite <- Hus. replace (in_rng (usecs l' - dz_off a)) with false by (unfold in_rng; lia). cbn [andb].
    destruct Hesc as [->|[x [tm [-> Hx]]]]; cbn [mlt_single]; [reflexivity|]. cbn [dz_utc].
    rewrite ndt_le_spec. unfold NDT_MAX. cbn [nd_date]. replace (x <? Date.D_MAX) with false by lia.
    replace (x =? Date.D_MAX) with false by lia. reflexivity.
Qed.
Theorem add_days_zero a : dz_checked_add_days a 0 = Val (Some a).
Proof. reflexivity. Qed.

Theorem sub_days_glue a n l d' : dtz_ok a -> overflowing_naive_local a = Val l ->
  Date.checked_sub_days (nd_date l) n = Val (Some d') -> dateok d' -> dn d' <= dn (nd_date l) ->
  let w' := dn d' * 86400 + wall a mod 86400 in
  if in_rng (w' - dz_off a)
  then exists z, dz_checked_sub_days a n = Val (Some z) /\ dtz_ok z /\ dz_off z = dz_off a /\
                 wall z = w' /\ frac (dz_utc z) = frac (dz_utc a)
  else dz_checked_sub_days a n = Val None.
Proof.
  intros Ha Hl Hg Hd' Hmono w'.
  destruct (overflowing_naive_local_spec a Ha) as [l2 [Hl2 [[Hd Htl] [Hu Hf]]]].
  rewrite Hl in Hl2. inversion Hl2. subst l2. clear Hl2.
  assert (Hsod : Time.tsecs (nd_time l) = wall a mod 86400 /\ dn (nd_date l) = wall a / 86400).
  { unfold usecs in Hu. destruct Htl as [Hs _]. lia. }
  destruct Hsod as [Hsod Hdn].
  set (l' := mk_ndt d' (nd_time l)).
  assert (Hw : ndt_wide l') by (split; assumption).
  assert (Hus : usecs l' = w') by (unfold usecs, l', w'; cbn [nd_date nd_time]; lia).
  unfold dz_checked_sub_days.
  rewrite Hl. cbv [bind]. unfold ndt_checked_sub_days, ndt_map_date, obind. rewrite Hg. cbv [bind]. fold l'.
  pose proof (ndt_ok_range _ (proj1 Ha)) as Hin. unfold in_rng in Hin.
  assert (Hhigh : usecs l' - dz_off a <= TMAX).
  { rewrite Hus. unfold w'. unfold wall in *. unfold usecs in Hu. lia. }
  replace (frac l) with (frac l') in Hf by reflexivity.
  destruct (from_local_wide (dz_off a) l' Hw (proj2 Ha)) as [r [Hr [[E [z [-> [Z1 [Z2 [Z3 Z4]]]]]]|[[E Hesc]|[E Hesc]]]]];
    rewrite Hr; cbv [bind].
  - rewrite <- Hus, E. cbn [mlt_single]. rewrite (ndt_le_MIN _ (proj1 Z1)).
    exists z. repeat split; try assumption; try apply Z1; [unfold wall in *; rewrite Z3, Z2; lia|]. rewrite Z4, <- Hf. reflexivity.
  - rewrite <- Hus. replace (in_rng (usecs l' - dz_off a)) with false by (unfold in_rng; lia).
    destruct Hesc as [->|[x [tm [-> Hx]]]]; cbn [mlt_single]; [reflexivity|]. cbn [dz_utc].
    rewrite ndt_le_spec. unfold NDT_MIN. cbn [nd_date]. replace (Date.D_MIN <? x) with false by lia.
    replace (Date.D_MIN =? x) with false by lia. reflexivity.
  - lia.
Qed.

(** month stepping has no filter of its own: it is safe because the NaiveDate operation returns
    either the unchanged date (zero months: the value itself comes back) or a nominal date (for which
    from_local_datetime is exact) — a headroom date can never be re-resolved unfiltered *)
Theorem months_glue (g : Z -> Z -> R (option Z)) a m l d' : dtz_ok a -> overflowing_naive_local a = Val l ->
  g (nd_date l) m = Val (Some d') -> nominal d' \/ d' = nd_date l ->
  let step := (let* l0 := overflowing_naive_local a in
               let? l1 := ndt_map_date l0 (g (nd_date l0) m) in
               let* r := from_local_datetime (dz_off a) l1 in Val (mlt_single r)) in
  let w' := dn d' * 86400 + wall a mod 86400 in
  if in_rng (w' - dz_off a)
  then exists z, step = Val (Some z) /\ dtz_ok z /\ dz_off z = dz_off a /\
                 wall z = w' /\ frac (dz_utc z) = frac (dz_utc a)
  else step = Val None.
Proof.
  intros Ha Hl Hg Hd' step w'.
  destruct (overflowing_naive_local_spec a Ha) as [l2 [Hl2 [[Hd Htl] [Hu Hf]]]].
  rewrite Hl in Hl2. inversion Hl2. subst l2. clear Hl2.
  assert (Hsod : Time.tsecs (nd_time l) = wall a mod 86400 /\ dn (nd_date l) = wall a / 86400).
  { unfold usecs in Hu. destruct Htl as [Hs _]. lia. }
  destruct Hsod as [Hsod Hdn].
  unfold step. rewrite Hl. cbv [bind]. unfold ndt_map_date, obind. rewrite Hg. cbv [bind].
  destruct Hd' as [Hd'|Hd'].
  - set (l' := mk_ndt d' (nd_time l)).
    assert (Hok : ndt_ok l') by (split; assumption).
    assert (Hus : usecs l' = w') by (unfold usecs, l', w'; cbn [nd_date nd_time]; lia).
    pose proof (from_local_spec (dz_off a) l' Hok (proj2 Ha)) as H. rewrite Hus in H.
    destruct (in_rng (w' - dz_off a)).
    + destruct H as [z [H1 [H2 [H3 [H4 H5]]]]]. rewrite H1. cbv [bind mlt_single].
      exists z. repeat split; try assumption; try apply H2; [unfold wall in *; rewrite H4, H3; lia|].
      rewrite H5. exact Hf.
    + rewrite H. reflexivity.
  - subst d'. rewrite ndt_eta. rewrite (utc_local_utc a l Ha Hl). cbv [bind mlt_single].
    assert (Hw' : w' = wall a) by (unfold w'; lia).
    assert (Hin : in_rng (w' - dz_off a) = true).
    { rewrite Hw'. unfold wall. replace (usecs (dz_utc a) + dz_off a - dz_off a) with (usecs (dz_utc a)) by lia.
      apply ndt_ok_range. apply Ha. }
    rewrite Hin. exists a. repeat split; try apply Ha; [symmetry; exact Hw'].
Qed.

Theorem add_months_glue a m l d' : dtz_ok a -> overflowing_naive_local a = Val l ->
  Date.checked_add_months (nd_date l) m = Val (Some d') -> nominal d' \/ d' = nd_date l ->
  let w' := dn d' * 86400 + wall a mod 86400 in
  if in_rng (w' - dz_off a)
  then exists z, dz_checked_add_months a m = Val (Some z) /\ dtz_ok z /\ dz_off z = dz_off a /\
                 wall z = w' /\ frac (dz_utc z) = frac (dz_utc a)
  else dz_checked_add_months a m = Val None.
Proof. exact (months_glue Date.checked_add_months a m l d'). Qed.
Theorem sub_months_glue a m l d' : dtz_ok a -> overflowing_naive_local a = Val l ->
  Date.checked_sub_months (nd_date l) m = Val (Some d') -> nominal d' \/ d' = nd_date l ->
  let w' := dn d' * 86400 + wall a mod 86400 in
  if in_rng (w' - dz_off a)
  then exists z, dz_checked_sub_months a m = Val (Some z) /\ dtz_ok z /\ dz_off z = dz_off a /\
                 wall z = w' /\ frac (dz_utc z) = frac (dz_utc a)
  else dz_checked_sub_months a m = Val None.
Proof. exact (months_glue Date.checked_sub_months a m l d'). Qed.
Theorem months_zero a : dtz_ok a ->
  dz_checked_add_months a 0 = Val (Some a) /\ dz_checked_sub_months a 0 = Val (Some a).
Proof.
  intros Ha. destruct (overflowing_naive_local_spec a Ha) as [l [Hl _]].
  unfold dz_checked_add_months, dz_checked_sub_months. rewrite Hl. cbv [bind].
  unfold ndt_checked_add_months, ndt_checked_sub_months, ndt_map_date, Date.checked_add_months, Date.checked_sub_months, obind.
  rewrite Z.eqb_refl. cbv [bind]. rewrite ndt_eta, (utc_local_utc a l Ha Hl). split; reflexivity.
Qed.

(** with_ymd_and_hms: the constructors' results (C01: date, C07: time) are re-resolved as a wall clock *)
Theorem ymdhms_glue off y m d h mi s dd t : off_ok off ->
  Date.from_ymd_opt y m d = Val (Some dd) -> nominal dd -> Time.from_hms_opt h mi s = Val (Some t) -> time_ok t ->
  let w := dn dd * 86400 + Time.tsecs t in
  if in_rng (w - off)
  then exists z, with_ymd_and_hms off y m d h mi s = Val (MSingle z) /\ dtz_ok z /\ dz_off z = off /\
                 wall z = w /\ frac (dz_utc z) = Time.tfrac t
  else with_ymd_and_hms off y m d h mi s = Val MNone.
Proof.
  intros Ho Hd Hn Ht Hok w. unfold with_ymd_and_hms. rewrite Hd. cbv [bind]. rewrite Ht. cbv [bind].
  pose proof (from_local_spec off (mk_ndt dd t) (conj Hn Hok) Ho) as H.
  replace (usecs (mk_ndt dd t)) with w in H by reflexivity.
  destruct (in_rng (w - off)).
  - destruct H as [z [H1 [H2 [H3 [H4 H5]]]]]. exists z. repeat split; try assumption; try apply H2.
    unfold wall. rewrite H4, H3. lia.
  - exact H.
Qed.
Theorem ymdhms_invalid off y m d h mi s :
  (Date.from_ymd_opt y m d = Val None \/
   exists dd, Date.from_ymd_opt y m d = Val (Some dd) /\ Time.from_hms_opt h mi s = Val None) ->
  with_ymd_and_hms off y m d h mi s = Val MNone.
Proof.
  intros [H|[dd [H1 H2]]]; unfold with_ymd_and_hms.
  - rewrite H. reflexivity.
  - rewrite H1. cbv [bind]. rewrite H2. reflexivity.
Qed.
End ModuloDateTime.
