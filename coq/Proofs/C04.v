(** C04 — zone-aware date-times: one instant, many wall clocks.  Lemmas and proofs. *)
From Coq Require Import ZArith List Bool Lia ZifyBool String.
From V Require Import Base.Int Base.IntLemmas Base.IO Gen.DateTimeConsts Gen.DateTables Spec.Gregorian.
From V Require Model.Date Model.Time.
From V Require Import Model.DateTime Model.C04.
Import ListNotations.
Open Scope Z_scope.
Ltac Zify.zify_post_hook ::= Z.to_euclidean_division_equations.

Ltac solve_in := unfold in_i32, in_u32, in_i64, in_u64, in_range, i32_min, i32_max, u32_max,
  i64_min, i64_max, u64_max; lia.
Ltac wr := repeat first
  [ rewrite as_i32_id in * by solve_in | rewrite as_u32_id in * by solve_in
  | rewrite as_i64_id in * by solve_in | rewrite as_u64_id in * by solve_in ].

(** * Offsets: FixedOffset::east_opt / west_opt *)
Definition off_ok (off : Z) : Prop := -86400 < off < 86400.

Lemma east_opt_spec s : in_i32 s = true ->
  east_opt s = if (-86400 <? s) && (s <? 86400) then Some s else None.
Proof. intros _. unfold east_opt, FO_EAST_LO, FO_EAST_HI. reflexivity. Qed.

Lemma east_opt_some_iff s off : east_opt s = Some off <-> (off = s /\ off_ok s).
Proof.
  unfold east_opt, FO_EAST_LO, FO_EAST_HI, off_ok.
  destruct ((-86400 <? s) && (s <? 86400)) eqn:E; split; intros H.
  - inversion H. subst. lia.
  - destruct H as [-> _]. reflexivity.
  - discriminate.
  - lia.
Qed.

Lemma west_opt_spec s : in_i32 s = true ->
  west_opt s = Val (if (-86400 <? s) && (s <? 86400) then Some (- s) else None).
Proof.
  intros Hs. unfold west_opt, FO_WEST_LO, FO_WEST_HI, neg_i32, chk, bind.
  destruct ((-86400 <? s) && (s <? 86400)) eqn:E; [|reflexivity].
  replace (in_i32 (- s)) with true by (symmetry; solve_in). reflexivity.
Qed.

(** * The time-of-day part of adding / subtracting an offset (src/naive/time/mod.rs) *)
Definition time_ok (t : Time.ntime) : Prop := 0 <= Time.tsecs t < 86400 /\ 0 <= Time.tfrac t < 2000000000.

Lemma overflowing_add_offset_spec t off : time_ok t -> off_ok off ->
  Time.overflowing_add_offset t off =
    Val (Time.mk_time ((Time.tsecs t + off) mod 86400) (Time.tfrac t), (Time.tsecs t + off) / 86400).
Proof.
  intros [Hs Hf] Ho. unfold off_ok in Ho. unfold Time.overflowing_add_offset.
  rewrite as_i32_id by solve_in.
  unfold add_i32, chk. replace (in_i32 (Time.tsecs t + off)) with true by (symmetry; solve_in).
  cbv [bind]. rewrite div_euclid_pos, rem_euclid_pos by lia. unfold chk.
  replace (in_i32 ((Time.tsecs t + off) / 86400)) with true by (symmetry; solve_in).
  rewrite as_u32_id by solve_in. reflexivity.
Qed.

Lemma overflowing_sub_offset_spec t off : time_ok t -> off_ok off ->
  Time.overflowing_sub_offset t off =
    Val (Time.mk_time ((Time.tsecs t - off) mod 86400) (Time.tfrac t), (Time.tsecs t - off) / 86400).
Proof.
  intros [Hs Hf] Ho. unfold off_ok in Ho. unfold Time.overflowing_sub_offset.
  rewrite as_i32_id by solve_in.
  unfold sub_i32, chk. replace (in_i32 (Time.tsecs t - off)) with true by (symmetry; solve_in).
  cbv [bind]. rewrite div_euclid_pos, rem_euclid_pos by lia. unfold chk.
  replace (in_i32 ((Time.tsecs t - off) / 86400)) with true by (symmetry; solve_in).
  rewrite as_u32_id by solve_in. reflexivity.
Qed.

Lemma offset_days_range s off : 0 <= s < 86400 -> off_ok off ->
  -1 <= (s + off) / 86400 <= 1 /\ -1 <= (s - off) / 86400 <= 1.
Proof. unfold off_ok. lia. Qed.

(** the wall-clock time of day: [DateTime::time] = (secs + off) mod 86400, fraction kept *)
Lemma dz_time_spec a : time_ok (nd_time (dz_utc a)) -> off_ok (dz_off a) ->
  dz_time a = Val (Time.mk_time ((Time.tsecs (nd_time (dz_utc a)) + dz_off a) mod 86400)
                                (Time.tfrac (nd_time (dz_utc a)))).
Proof.
  intros Ht Ho. unfold dz_time, Time.op_add_offset, rmap.
  rewrite overflowing_add_offset_spec by assumption. reflexivity.
Qed.

(** * UTC round trip, zone conversion *)
Lemma utc_roundtrip off u : naive_utc (from_utc_datetime off u) = u /\ dz_off (from_utc_datetime off u) = off.
Proof. split; reflexivity. Qed.

Lemma cmpZ_refl x : cmpZ x x = 0.
Proof. unfold cmpZ. rewrite Z.compare_refl. reflexivity. Qed.
Lemma cmpZ_0_iff x y : cmpZ x y = 0 <-> x = y.
Proof.
  unfold cmpZ. destruct (x ?= y) eqn:E; split; intros H; try discriminate.
  - apply Z.compare_eq. exact E.
  - reflexivity.
  - subst. rewrite Z.compare_refl in E. discriminate.
  - subst. rewrite Z.compare_refl in E. discriminate.
Qed.

Lemma cmpZ_eqb x y : (cmpZ x y =? 0) = (x =? y).
Proof.
  destruct (x =? y) eqn:E.
  - apply Z.eqb_eq in E. subst. rewrite cmpZ_refl. reflexivity.
  - apply Z.eqb_neq. intros H. apply (proj1 (cmpZ_0_iff x y)) in H. apply Z.eqb_neq in E. contradiction.
Qed.
Lemma cmpZ_vals x y : cmpZ x y = -1 \/ cmpZ x y = 0 \/ cmpZ x y = 1.
Proof. unfold cmpZ. destruct (x ?= y); auto. Qed.

Lemma ndt_cmp_0_iff a b : ndt_cmp a b = 0 <-> ndt_eqb a b = true.
Proof.
  unfold ndt_cmp, ndt_eqb, cmp_lex.
  rewrite <- (cmpZ_eqb (nd_date a)), <- (cmpZ_eqb (Time.tsecs (nd_time a))), <- (cmpZ_eqb (Time.tfrac (nd_time a))).
  set (c1 := cmpZ (nd_date a) (nd_date b)).
  set (c2 := cmpZ (Time.tsecs (nd_time a)) (Time.tsecs (nd_time b))).
  set (c3 := cmpZ (Time.tfrac (nd_time a)) (Time.tfrac (nd_time b))).
  clearbody c1 c2 c3.
  destruct (c1 =? 0) eqn:E1; destruct (c2 =? 0) eqn:E2; destruct (c3 =? 0) eqn:E3; cbn [andb]; lia.
Qed.

Lemma keys_eqb_ndt a b : keys_eqb (ndt_hash_key a) (ndt_hash_key b) = ndt_eqb a b.
Proof. unfold ndt_hash_key, ndt_eqb. cbn [keys_eqb]. rewrite andb_true_r, andb_assoc. reflexivity. Qed.

(** comparison, equality and the hash key are functions of the UTC reading only; the three agree *)
Lemma eq_ord_hash_utc_only a b a' b' : dz_utc a = dz_utc a' -> dz_utc b = dz_utc b' ->
  dz_eqb a b = dz_eqb a' b' /\ dz_cmp a b = dz_cmp a' b' /\ dz_hash_key a = dz_hash_key a'.
Proof. intros Ha Hb. unfold dz_eqb, dz_cmp, dz_hash_key. rewrite Ha, Hb. auto. Qed.
Lemma eq_ord_hash_agree a b :
  (dz_eqb a b = true <-> dz_cmp a b = 0) /\
  (dz_eqb a b = keys_eqb (dz_hash_key a) (dz_hash_key b)).
Proof.
  split.
  - unfold dz_eqb, dz_cmp. symmetry. apply ndt_cmp_0_iff.
  - unfold dz_eqb, dz_hash_key. symmetry. apply keys_eqb_ndt.
Qed.

Lemma with_timezone_utc a off : dz_utc (with_timezone a off) = dz_utc a /\ dz_off (with_timezone a off) = off.
Proof. split; reflexivity. Qed.
Lemma with_timezone_same_instant a off :
  dz_eqb (with_timezone a off) a = true /\ dz_cmp (with_timezone a off) a = 0 /\
  dz_hash_key (with_timezone a off) = dz_hash_key a.
Proof.
  assert (H : dz_cmp (with_timezone a off) a = 0).
  { unfold dz_cmp, with_timezone, from_utc_datetime, ndt_cmp, cmp_lex. cbn [dz_utc].
    rewrite !cmpZ_refl. reflexivity. }
  split; [|split; [exact H|reflexivity]].
  apply (proj1 (eq_ord_hash_agree _ _)). exact H.
Qed.
Lemma fixed_offset_id a : dz_fixed_offset a = a.
Proof. destruct a. reflexivity. Qed.
Lemma to_utc_spec a : dz_utc (dz_to_utc a) = dz_utc a /\ dz_off (dz_to_utc a) = 0.
Proof. split; reflexivity. Qed.
