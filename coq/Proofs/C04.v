(** C04 — zone-aware date-times: one instant, many wall clocks.  Lemmas and proofs. *)
From Coq Require Import ZArith List Bool Lia ZifyBool String.
From V Require Import Base.Int Base.IntLemmas Base.IO Gen.DateTimeConsts Gen.DateTables Spec.Gregorian.
From V Require Model.Date Model.Time.
From V Require Import Model.DateTime Model.C04.
Import ListNotations.
Open Scope Z_scope.
Ltac Zify.zify_post_hook ::= Z.to_euclidean_division_equations.

Ltac solve_in := unfold in_i32, in_u32, in_i64, in_u64, in_range, i32_min, i32_max, u32_max,
  i64_min, i64_max, u64_max; lia.
Ltac wr := repeat first
  [ rewrite as_i32_id in * by solve_in | rewrite as_u32_id in * by solve_in
  | rewrite as_i64_id in * by solve_in | rewrite as_u64_id in * by solve_in ].

(** * Offsets: FixedOffset::east_opt / west_opt *)
Definition off_ok (off : Z) : Prop := -86400 < off < 86400.

Lemma east_opt_spec s : in_i32 s = true ->
  east_opt s = if (-86400 <? s) && (s <? 86400) then Some s else None.
Proof. intros _. unfold east_opt, FO_EAST_LO, FO_EAST_HI. reflexivity. Qed.

Lemma east_opt_some_iff s off : east_opt s = Some off <-> (off = s /\ off_ok s).
Proof.
  unfold east_opt, FO_EAST_LO, FO_EAST_HI, off_ok.
  destruct ((-86400 <? s) && (s <? 86400)) eqn:E; split; intros H.
  - inversion H. subst. lia.
  - destruct H as [-> _]. reflexivity.
  - discriminate.
  - lia.
Qed.

Lemma west_opt_spec s : in_i32 s = true ->
  west_opt s = Val (if (-86400 <? s) && (s <? 86400) then Some (- s) else None).
Proof.
  intros Hs. unfold west_opt, FO_WEST_LO, FO_WEST_HI, neg_i32, chk, bind.
  destruct ((-86400 <? s) && (s <? 86400)) eqn:E; [|reflexivity].
  replace (in_i32 (- s)) with true by (symmetry; solve_in). reflexivity.
Qed.

(** * The time-of-day part of adding / subtracting an offset (src/naive/time/mod.rs) *)
Definition time_ok (t : Time.ntime) : Prop := 0 <= Time.tsecs t < 86400 /\ 0 <= Time.tfrac t < 2000000000.

Lemma overflowing_add_offset_spec t off : time_ok t -> off_ok off ->
  Time.overflowing_add_offset t off =
    Val (Time.mk_time ((Time.tsecs t + off) mod 86400) (Time.tfrac t), (Time.tsecs t + off) / 86400).
Proof.
  intros [Hs Hf] Ho. unfold off_ok in Ho. unfold Time.overflowing_add_offset.
  rewrite as_i32_id by solve_in.
  unfold add_i32, chk. replace (in_i32 (Time.tsecs t + off)) with true by (symmetry; solve_in).
  cbv [bind]. rewrite div_euclid_pos, rem_euclid_pos by lia. unfold chk.
  replace (in_i32 ((Time.tsecs t + off) / 86400)) with true by (symmetry; solve_in).
  rewrite as_u32_id by solve_in. reflexivity.
Qed.

Lemma overflowing_sub_offset_spec t off : time_ok t -> off_ok off ->
  Time.overflowing_sub_offset t off =
    Val (Time.mk_time ((Time.tsecs t - off) mod 86400) (Time.tfrac t), (Time.tsecs t - off) / 86400).
Proof.
  intros [Hs Hf] Ho. unfold off_ok in Ho. unfold Time.overflowing_sub_offset.
  rewrite as_i32_id by solve_in.
  unfold sub_i32, chk. replace (in_i32 (Time.tsecs t - off)) with true by (symmetry; solve_in).
  cbv [bind]. rewrite div_euclid_pos, rem_euclid_pos by lia. unfold chk.
  replace (in_i32 ((Time.tsecs t - off) / 86400)) with true by (symmetry; solve_in).
  rewrite as_u32_id by solve_in. reflexivity.
Qed.

Lemma offset_days_range s off : 0 <= s < 86400 -> off_ok off ->
  -1 <= (s + off) / 86400 <= 1 /\ -1 <= (s - off) / 86400 <= 1.
Proof. unfold off_ok. lia. Qed.

(** the wall-clock time of day: [DateTime::time] = (secs + off) mod 86400, fraction kept *)
Lemma dz_time_spec a : time_ok (nd_time (dz_utc a)) -> off_ok (dz_off a) ->
  dz_time a = Val (Time.mk_time ((Time.tsecs (nd_time (dz_utc a)) + dz_off a) mod 86400)
                                (Time.tfrac (nd_time (dz_utc a)))).
Proof.
  intros Ht Ho. unfold dz_time, Time.op_add_offset, rmap.
  rewrite overflowing_add_offset_spec by assumption. reflexivity.
Qed.

(** * UTC round trip, zone conversion *)
Lemma utc_roundtrip off u : naive_utc (from_utc_datetime off u) = u /\ dz_off (from_utc_datetime off u) = off.
Proof. split; reflexivity. Qed.

Lemma cmpZ_refl x : cmpZ x x = 0.
Proof. unfold cmpZ. rewrite Z.compare_refl. reflexivity. Qed.
Lemma cmpZ_0_iff x y : cmpZ x y = 0 <-> x = y.
Proof.
  unfold cmpZ. destruct (x ?= y) eqn:E; split; intros H; try discriminate.
  - apply Z.compare_eq. exact E.
  - reflexivity.
  - subst. rewrite Z.compare_refl in E. discriminate.
  - subst. rewrite Z.compare_refl in E. discriminate.
Qed.

Lemma cmpZ_eqb x y : (cmpZ x y =? 0) = (x =? y).
Proof.
  destruct (x =? y) eqn:E.
  - apply Z.eqb_eq in E. subst. rewrite cmpZ_refl. reflexivity.
  - apply Z.eqb_neq. intros H. apply (proj1 (cmpZ_0_iff x y)) in H. apply Z.eqb_neq in E. contradiction.
Qed.
Lemma cmpZ_vals x y : cmpZ x y = -1 \/ cmpZ x y = 0 \/ cmpZ x y = 1.
Proof. unfold cmpZ. destruct (x ?= y); auto. Qed.

Lemma ndt_cmp_0_iff a b : ndt_cmp a b = 0 <-> ndt_eqb a b = true.
Proof.
  unfold ndt_cmp, ndt_eqb, cmp_lex.
  rewrite <- (cmpZ_eqb (nd_date a)), <- (cmpZ_eqb (Time.tsecs (nd_time a))), <- (cmpZ_eqb (Time.tfrac (nd_time a))).
  set (c1 := cmpZ (nd_date a) (nd_date b)).
  set (c2 := cmpZ (Time.tsecs (nd_time a)) (Time.tsecs (nd_time b))).
  set (c3 := cmpZ (Time.tfrac (nd_time a)) (Time.tfrac (nd_time b))).
  clearbody c1 c2 c3.
  destruct (c1 =? 0) eqn:E1; destruct (c2 =? 0) eqn:E2; destruct (c3 =? 0) eqn:E3; cbn [andb]; lia.
Qed.

Lemma keys_eqb_ndt a b : keys_eqb (ndt_hash_key a) (ndt_hash_key b) = ndt_eqb a b.
Proof. unfold ndt_hash_key, ndt_eqb. cbn [keys_eqb]. rewrite andb_true_r, andb_assoc. reflexivity. Qed.

(** comparison, equality and the hash key are functions of the UTC reading only; the three agree *)
Lemma eq_ord_hash_utc_only a b a' b' : dz_utc a = dz_utc a' -> dz_utc b = dz_utc b' ->
  dz_eqb a b = dz_eqb a' b' /\ dz_cmp a b = dz_cmp a' b' /\ dz_hash_key a = dz_hash_key a'.
Proof. intros Ha Hb. unfold dz_eqb, dz_cmp, dz_hash_key. rewrite Ha, Hb. auto. Qed.
Lemma eq_ord_hash_agree a b :
  (dz_eqb a b = true <-> dz_cmp a b = 0) /\
  (dz_eqb a b = keys_eqb (dz_hash_key a) (dz_hash_key b)).
Proof.
  split.
  - unfold dz_eqb, dz_cmp. symmetry. apply ndt_cmp_0_iff.
  - unfold dz_eqb, dz_hash_key. symmetry. apply keys_eqb_ndt.
Qed.

Lemma with_timezone_utc a off : dz_utc (with_timezone a off) = dz_utc a /\ dz_off (with_timezone a off) = off.
Proof. split; reflexivity. Qed.
Lemma with_timezone_same_instant a off :
  dz_eqb (with_timezone a off) a = true /\ dz_cmp (with_timezone a off) a = 0 /\
  dz_hash_key (with_timezone a off) = dz_hash_key a.
Proof.
  assert (H : dz_cmp (with_timezone a off) a = 0).
  { unfold dz_cmp, with_timezone, from_utc_datetime, ndt_cmp, cmp_lex. cbn [dz_utc].
    rewrite !cmpZ_refl. reflexivity. }
  split; [|split; [exact H|reflexivity]].
  apply (proj1 (eq_ord_hash_agree _ _)). exact H.
Qed.
Lemma fixed_offset_id a : dz_fixed_offset a = a.
Proof. destruct a. reflexivity. Qed.
Lemma to_utc_spec a : dz_utc (dz_to_utc a) = dz_utc a /\ dz_off (dz_to_utc a) = 0.
Proof. split; reflexivity. Qed.

(** * Semantics: what a value denotes *)
(** day number of a date word (total: [d_year]/[d_ordinal] are shifts and masks) *)
Definition dn (d : Z) : Z := dn_of_yo (Date.d_year d) (Date.d_ordinal d).
(** date words of the supported dates: the results of the checked constructor *)
Definition nominal (d : Z) : Prop := exists y o, Date.from_yo_opt y o = Val (Some d).
(** ... plus the two headroom dates *)
Definition dateok (d : Z) : Prop := nominal d \/ d = Date.D_BEFORE_MIN \/ d = Date.D_AFTER_MAX.

(** second count and sub-second field of a naive reading; wall clock of a date-time *)
Definition usecs (a : ndt) : Z := dn (nd_date a) * 86400 + Time.tsecs (nd_time a).
Definition frac (a : ndt) : Z := Time.tfrac (nd_time a).
Definition wall (a : dtz) : Z := usecs (dz_utc a) + dz_off a.

Definition TMIN := Eval compute in DN_MIN * 86400.
Definition TMAX := Eval compute in DN_MAX * 86400 + 86399.
Definition in_rng (t : Z) : bool := (TMIN <=? t) && (t <=? TMAX).

Definition ndt_ok (a : ndt) : Prop := nominal (nd_date a) /\ time_ok (nd_time a).
Definition ndt_wide (a : ndt) : Prop := dateok (nd_date a) /\ time_ok (nd_time a).
Definition dtz_ok (a : dtz) : Prop := ndt_ok (dz_utc a) /\ off_ok (dz_off a).

(** the range ends and the headroom dates, by computation *)
Lemma nominal_MIN : nominal Date.D_MIN.
Proof. exists (-262143), 1. vm_compute. reflexivity. Qed.
Lemma nominal_MAX : nominal Date.D_MAX.
Proof. exists 262142, 365. vm_compute. reflexivity. Qed.
Lemma dn_MIN : dn Date.D_MIN = DN_MIN. Proof. vm_compute. reflexivity. Qed.
Lemma dn_MAX : dn Date.D_MAX = DN_MAX. Proof. vm_compute. reflexivity. Qed.
Lemma dn_BEFORE_MIN : dn Date.D_BEFORE_MIN = DN_MIN - 1. Proof. vm_compute. reflexivity. Qed.
Lemma dn_AFTER_MAX : dn Date.D_AFTER_MAX = DN_MAX + 1. Proof. vm_compute. reflexivity. Qed.
Lemma succ_BEFORE_MIN : Date.succ_opt Date.D_BEFORE_MIN = Val (Some Date.D_MIN). Proof. vm_compute. reflexivity. Qed.
Lemma pred_AFTER_MAX : Date.pred_opt Date.D_AFTER_MAX = Val (Some Date.D_MAX). Proof. vm_compute. reflexivity. Qed.

(** The literal year flags written in BEFORE_MIN / AFTER_MAX (taken from the source by the translator)
    are the flags the YEAR_TO_FLAGS table gives for the years MIN_YEAR-1 / MAX_YEAR+1, and the dates
    are 31 December / 1 January of those years. *)
Lemma headroom_flags :
  Date.yf_from_year (MIN_YEAR - 1) = Val (Date.d_year_flags Date.D_BEFORE_MIN) /\
  Date.yf_from_year (MAX_YEAR + 1) = Val (Date.d_year_flags Date.D_AFTER_MAX) /\
  Date.d_year Date.D_BEFORE_MIN = MIN_YEAR - 1 /\ Date.d_ordinal Date.D_BEFORE_MIN = days_in_year (MIN_YEAR - 1) /\
  Date.d_year Date.D_AFTER_MAX = MAX_YEAR + 1 /\ Date.d_ordinal Date.D_AFTER_MAX = 1.
Proof. vm_compute. repeat split; reflexivity. Qed.

(** all accessors on a date word agree with the calendar reading of its day number *)
Definition acc_ok (d : Z) : Prop :=
  let n := dn d in
  let '(y, m, dd) := ymd_of_dn n in
  Date.d_year d = y /\ Date.d_month d = Val m /\ Date.d_day d = Val dd /\
  Date.d_ordinal d = ordinal_of_dn n /\ Date.d_weekday d = Val (weekday_of_dn n) /\
  exists w, Date.d_iso_week d = Val w /\ (Date.iw_year w, Date.iw_week w) = iso_of_dn n.
(** the same as a computable check *)
Definition rZ_is (r : R Z) (x : Z) : bool := match r with Val v => v =? x | _ => false end.
Definition acc_okb (d : Z) : bool :=
  let n := dn d in
  let '(y, m, dd) := ymd_of_dn n in
  (Date.d_year d =? y) && rZ_is (Date.d_month d) m && rZ_is (Date.d_day d) dd &&
  (Date.d_ordinal d =? ordinal_of_dn n) && rZ_is (Date.d_weekday d) (weekday_of_dn n) &&
  match Date.d_iso_week d with
  | Val w => (Date.iw_year w =? fst (iso_of_dn n)) && (Date.iw_week w =? snd (iso_of_dn n))
  | _ => false
  end.
Lemma rZ_is_true r x : rZ_is r x = true -> r = Val x.
Proof. destruct r; cbn; try discriminate. intros H. apply Z.eqb_eq in H. subst. reflexivity. Qed.
Lemma acc_okb_ok d : acc_okb d = true -> acc_ok d.
Proof.
  unfold acc_okb, acc_ok. destruct (ymd_of_dn (dn d)) as [[y m] dd].
  intros H. repeat (apply andb_prop in H; destruct H as [H ?]).
  apply Z.eqb_eq in H. apply rZ_is_true in H4, H3, H1. apply Z.eqb_eq in H2.
  repeat split; try assumption.
  destruct (Date.d_iso_week d) as [w| |]; try discriminate.
  exists w. split; [reflexivity|]. apply andb_prop in H0. destruct H0 as [Ha Hb].
  apply Z.eqb_eq in Ha, Hb. rewrite Ha, Hb. destruct (iso_of_dn (dn d)); reflexivity.
Qed.
Lemma acc_BEFORE_MIN : acc_ok Date.D_BEFORE_MIN.
Proof. apply acc_okb_ok. vm_compute. reflexivity. Qed.
Lemma acc_AFTER_MAX : acc_ok Date.D_AFTER_MAX.
Proof. apply acc_okb_ok. vm_compute. reflexivity. Qed.

Lemma ndt_eta a : mk_ndt (nd_date a) (nd_time a) = a. Proof. destruct a. reflexivity. Qed.
Lemma time_eta t : Time.mk_time (Time.tsecs t) (Time.tfrac t) = t. Proof. destruct t. reflexivity. Qed.

Lemma sub_is_add_neg t off : time_ok t -> off_ok off ->
  Time.overflowing_sub_offset t off = Time.overflowing_add_offset t (- off).
Proof.
  intros Ht Ho. rewrite overflowing_sub_offset_spec, overflowing_add_offset_spec; try assumption.
  - replace (Time.tsecs t + - off) with (Time.tsecs t - off) by lia. reflexivity.
  - unfold off_ok in *. lia.
Qed.

Ltac ulia := unfold DN_MIN, DN_MAX, TMIN, TMAX in *; lia.

Section ModuloDateTime.
(** Facts about Model/Date.v that belong to C01 (proved there for the nominal dates): the day number
    is an order embedding of the date words into [DN_MIN, DN_MAX], successor / predecessor move the
    day number by one and fail exactly at the range ends, and the accessors read the calendar fields
    of the day number. *)
Hypothesis H_range : forall d, nominal d -> DN_MIN <= dn d <= DN_MAX.
Hypothesis H_order : forall d1 d2, nominal d1 -> nominal d2 -> (d1 < d2 <-> dn d1 < dn d2).
Hypothesis H_succ : forall d, nominal d ->
  if dn d <? DN_MAX then exists d', Date.succ_opt d = Val (Some d') /\ nominal d' /\ dn d' = dn d + 1
  else Date.succ_opt d = Val None.
Hypothesis H_pred : forall d, nominal d ->
  if DN_MIN <? dn d then exists d', Date.pred_opt d = Val (Some d') /\ nominal d' /\ dn d' = dn d - 1
  else Date.pred_opt d = Val None.
Hypothesis H_acc : forall d, nominal d -> acc_ok d.

Lemma nominal_inj d1 d2 : nominal d1 -> nominal d2 -> dn d1 = dn d2 -> d1 = d2.
Proof.
  intros H1 H2 E. pose proof (H_order d1 d2 H1 H2). pose proof (H_order d2 d1 H2 H1). lia.
Qed.
Lemma nominal_le d1 d2 : nominal d1 -> nominal d2 -> (d1 <= d2 <-> dn d1 <= dn d2).
Proof.
  intros H1 H2. pose proof (H_order d1 d2 H1 H2). pose proof (H_order d2 d1 H2 H1). lia.
Qed.
Lemma nominal_bounds d : nominal d -> Date.D_MIN <= d <= Date.D_MAX.
Proof.
  intros H. pose proof (H_range d H).
  pose proof (nominal_le Date.D_MIN d nominal_MIN H). pose proof (nominal_le d Date.D_MAX H nominal_MAX).
  rewrite dn_MIN in *. rewrite dn_MAX in *. lia.
Qed.

Lemma dateok_acc d : dateok d -> acc_ok d.
Proof. intros [H|[->| ->]]; [apply H_acc; exact H|apply acc_BEFORE_MIN|apply acc_AFTER_MAX]. Qed.
Lemma dateok_range d : dateok d -> DN_MIN - 1 <= dn d <= DN_MAX + 1.
Proof.
  intros [H|[->| ->]]; [pose proof (H_range d H); lia| rewrite dn_BEFORE_MIN; ulia|rewrite dn_AFTER_MAX; ulia].
Qed.
Lemma dateok_nominal d : dateok d -> DN_MIN <= dn d <= DN_MAX -> nominal d.
Proof.
  intros [H|[->| ->]] Hr; [exact H| rewrite dn_BEFORE_MIN in Hr; ulia|rewrite dn_AFTER_MAX in Hr; ulia].
Qed.
Lemma dateok_inj d1 d2 : dateok d1 -> dateok d2 -> dn d1 = dn d2 -> d1 = d2.
Proof.
  intros H1 H2 E.
  destruct H1 as [H1|[->| ->]]; destruct H2 as [H2|[->| ->]]; try reflexivity;
    try (apply nominal_inj; assumption);
    try (pose proof (H_range _ H1)); try (pose proof (H_range _ H2));
    rewrite ?dn_BEFORE_MIN, ?dn_AFTER_MAX in *; unfold DN_MIN, DN_MAX in *; lia.
Qed.

(** ** shifting the date by the day carry of the offset *)
Lemma shift_checked_spec d k : nominal d -> -1 <= k <= 1 ->
  if (DN_MIN <=? dn d + k) && (dn d + k <=? DN_MAX)
  then exists d', shift_date_checked d k = Val (Some d') /\ nominal d' /\ dn d' = dn d + k
  else shift_date_checked d k = Val None.
Proof.
  intros Hd Hk. pose proof (H_range d Hd) as Hr. unfold shift_date_checked.
  destruct (k =? -1) eqn:E1.
  - assert (k = -1) by lia. subst k. pose proof (H_pred d Hd) as Hp.
    destruct (DN_MIN <? dn d) eqn:E.
    + replace ((DN_MIN <=? dn d + -1) && (dn d + -1 <=? DN_MAX)) with true by lia.
      destruct Hp as [d' [Hp1 [Hp2 Hp3]]]. exists d'. repeat split; [exact Hp1|exact Hp2|lia].
    + replace ((DN_MIN <=? dn d + -1) && (dn d + -1 <=? DN_MAX)) with false by lia. exact Hp.
  - destruct (k =? 1) eqn:E2.
    + assert (k = 1) by lia. subst k. pose proof (H_succ d Hd) as Hs.
      destruct (dn d <? DN_MAX) eqn:E.
      * replace ((DN_MIN <=? dn d + 1) && (dn d + 1 <=? DN_MAX)) with true by lia.
        destruct Hs as [d' [Hs1 [Hs2 Hs3]]]. exists d'. repeat split; [exact Hs1|exact Hs2|lia].
      * replace ((DN_MIN <=? dn d + 1) && (dn d + 1 <=? DN_MAX)) with false by lia. exact Hs.
    + assert (k = 0) by lia. subst k.
      replace ((DN_MIN <=? dn d + 0) && (dn d + 0 <=? DN_MAX)) with true by lia.
      exists d. repeat split; [exact Hd|lia].
Qed.

Lemma shift_overflowing_spec d k : nominal d -> -1 <= k <= 1 ->
  exists d', shift_date_overflowing d k = Val d' /\ dateok d' /\ dn d' = dn d + k.
Proof.
  intros Hd Hk. pose proof (H_range d Hd) as Hr. unfold shift_date_overflowing.
  destruct (k =? -1) eqn:E1.
  - assert (k = -1) by lia. subst k. pose proof (H_pred d Hd) as Hp.
    destruct (DN_MIN <? dn d) eqn:E.
    + destruct Hp as [d' [Hp1 [Hp2 Hp3]]]. rewrite Hp1. cbv [bind]. exists d'.
      repeat split; [left; exact Hp2|lia].
    + rewrite Hp. cbv [bind]. exists Date.D_BEFORE_MIN. repeat split; [right; left; reflexivity|].
      rewrite dn_BEFORE_MIN. lia.
  - destruct (k =? 1) eqn:E2.
    + assert (k = 1) by lia. subst k. pose proof (H_succ d Hd) as Hs.
      destruct (dn d <? DN_MAX) eqn:E.
      * destruct Hs as [d' [Hs1 [Hs2 Hs3]]]. rewrite Hs1. cbv [bind]. exists d'.
        repeat split; [left; exact Hs2|lia].
      * rewrite Hs. cbv [bind]. exists Date.D_AFTER_MAX. repeat split; [right; right; reflexivity|].
        rewrite dn_AFTER_MAX. lia.
    + assert (k = 0) by lia. subst k. exists d. repeat split; [left; exact Hd|lia].
Qed.

(** ** NaiveDateTime +/- FixedOffset *)
Lemma ndt_ok_range a : ndt_ok a -> in_rng (usecs a) = true.
Proof.
  intros [Hd [Hs Hf]]. pose proof (H_range _ Hd) as Hr. unfold in_rng, usecs, TMIN, TMAX.
  unfold DN_MIN, DN_MAX in Hr. lia.
Qed.

Lemma in_rng_days n r : 0 <= r < 86400 ->
  in_rng (n * 86400 + r) = (DN_MIN <=? n) && (n <=? DN_MAX).
Proof. intros Hr. unfold in_rng, TMIN, TMAX, DN_MIN, DN_MAX. lia. Qed.

Lemma ndt_checked_add_offset_spec a off : ndt_ok a -> off_ok off ->
  if in_rng (usecs a + off)
  then exists l, ndt_checked_add_offset a off = Val (Some l) /\ ndt_ok l /\
                 usecs l = usecs a + off /\ frac l = frac a
  else ndt_checked_add_offset a off = Val None.
Proof.
  intros [Hd Ht] Ho. unfold ndt_checked_add_offset.
  rewrite overflowing_add_offset_spec by assumption. cbv [bind].
  set (s := Time.tsecs (nd_time a)) in *. destruct Ht as [Hs Hf]. fold s in Hs.
  pose proof (proj1 (offset_days_range s off Hs Ho)) as Hk.
  pose proof (shift_checked_spec (nd_date a) ((s + off) / 86400) Hd Hk) as Hsh.
  assert (Hw : usecs a + off = (dn (nd_date a) + (s + off) / 86400) * 86400 + (s + off) mod 86400).
  { unfold usecs. fold s. lia. }
  rewrite Hw, in_rng_days by lia.
  destruct ((DN_MIN <=? dn (nd_date a) + (s + off) / 86400) && (dn (nd_date a) + (s + off) / 86400 <=? DN_MAX)).
  - destruct Hsh as [d' [Hs1 [Hs2 Hs3]]]. unfold obind. rewrite Hs1. cbv [bind].
    eexists. split; [reflexivity|]. unfold ndt_ok, usecs, frac, time_ok. cbn [nd_date nd_time Time.tsecs Time.tfrac].
    repeat split; try assumption; try lia.
  - unfold obind. rewrite Hsh. reflexivity.
Qed.

Lemma ndt_checked_sub_offset_spec a off : ndt_ok a -> off_ok off ->
  if in_rng (usecs a - off)
  then exists l, ndt_checked_sub_offset a off = Val (Some l) /\ ndt_ok l /\
                 usecs l = usecs a - off /\ frac l = frac a
  else ndt_checked_sub_offset a off = Val None.
Proof.
  intros Ha Ho. assert (Ho' : off_ok (- off)) by (unfold off_ok in *; lia).
  pose proof (ndt_checked_add_offset_spec a (- off) Ha Ho') as H.
  replace (usecs a + - off) with (usecs a - off) in H by lia.
  unfold ndt_checked_sub_offset. unfold ndt_checked_add_offset in H.
  rewrite sub_is_add_neg by (try apply Ha; assumption). exact H.
Qed.

Lemma ndt_overflowing_add_offset_spec a off : ndt_ok a -> off_ok off ->
  exists l, ndt_overflowing_add_offset a off = Val l /\ ndt_wide l /\
            usecs l = usecs a + off /\ frac l = frac a.
Proof.
  intros [Hd Ht] Ho. unfold ndt_overflowing_add_offset.
  rewrite overflowing_add_offset_spec by assumption. cbv [bind].
  set (s := Time.tsecs (nd_time a)) in *. destruct Ht as [Hs Hf]. fold s in Hs.
  pose proof (proj1 (offset_days_range s off Hs Ho)) as Hk.
  destruct (shift_overflowing_spec (nd_date a) ((s + off) / 86400) Hd Hk) as [d' [Hs1 [Hs2 Hs3]]].
  rewrite Hs1. eexists. split; [reflexivity|].
  unfold ndt_wide, usecs, frac, time_ok. cbn [nd_date nd_time Time.tsecs Time.tfrac]. fold s.
  repeat split; try assumption; try lia.
Qed.

(** two readings with the same second count and fraction are the same value *)
Lemma ndt_wide_inj a b : ndt_wide a -> ndt_wide b -> usecs a = usecs b -> frac a = frac b -> a = b.
Proof.
  intros [Hda [Hsa Hfa]] [Hdb [Hsb Hfb]] Hu Hf. unfold usecs, frac in *.
  assert (dn (nd_date a) = dn (nd_date b) /\ Time.tsecs (nd_time a) = Time.tsecs (nd_time b)) as [E1 E2] by lia.
  apply dateok_inj in E1; try assumption.
  rewrite <- (ndt_eta a), <- (ndt_eta b), <- (time_eta (nd_time a)), <- (time_eta (nd_time b)).
  rewrite E1, E2, Hf. reflexivity.
Qed.
Lemma ndt_ok_wide a : ndt_ok a -> ndt_wide a.
Proof. intros [H1 H2]. split; [left; exact H1|exact H2]. Qed.

(** * Construction from the wall clock (from_local_datetime), and its failure condition *)
Theorem from_local_spec off l : ndt_ok l -> off_ok off ->
  if in_rng (usecs l - off)
  then exists z, from_local_datetime off l = Val (MSingle z) /\ dtz_ok z /\ dz_off z = off /\
                 usecs (dz_utc z) = usecs l - off /\ frac (dz_utc z) = frac l
  else from_local_datetime off l = Val MNone.
Proof.
  intros Hl Ho. unfold from_local_datetime.
  pose proof (ndt_checked_sub_offset_spec l off Hl Ho) as H.
  destruct (in_rng (usecs l - off)).
  - destruct H as [u [H1 [H2 [H3 H4]]]]. rewrite H1. cbv [bind].
    eexists. split; [reflexivity|]. unfold dtz_ok. cbn [dz_utc dz_off]. auto.
  - rewrite H. reflexivity.
Qed.

(** * Reading the wall clock: naive_local panics exactly outside the nominal range;
      overflowing_naive_local is always right (one-day headroom) *)
Theorem naive_local_spec a : dtz_ok a ->
  if in_rng (wall a)
  then exists l, naive_local a = Val l /\ ndt_ok l /\ usecs l = wall a /\ frac l = frac (dz_utc a)
  else naive_local a = Panic.
Proof.
  intros [Hu Ho]. unfold naive_local, wall, unwrap_r.
  pose proof (ndt_checked_add_offset_spec (dz_utc a) (dz_off a) Hu Ho) as H.
  destruct (in_rng (usecs (dz_utc a) + dz_off a)).
  - destruct H as [l [H1 H2]]. rewrite H1. cbv [bind unwrap]. exists l. auto.
  - rewrite H. reflexivity.
Qed.
Theorem overflowing_naive_local_spec a : dtz_ok a ->
  exists l, overflowing_naive_local a = Val l /\ ndt_wide l /\ usecs l = wall a /\ frac l = frac (dz_utc a).
Proof. intros [Hu Ho]. apply ndt_overflowing_add_offset_spec; assumption. Qed.

(** building from a wall clock and reading the wall clock back is the identity *)
Theorem local_roundtrip off l z : ndt_ok l -> off_ok off ->
  from_local_datetime off l = Val (MSingle z) -> naive_local z = Val l /\ overflowing_naive_local z = Val l.
Proof.
  intros Hl Ho H. pose proof (from_local_spec off l Hl Ho) as Hs.
  destruct (in_rng (usecs l - off)) eqn:E.
  2:{ rewrite Hs in H. discriminate. }
  destruct Hs as [z' [H1 [H2 [H3 [H4 H5]]]]]. rewrite H1 in H. inversion H. subst z'. clear H.
  assert (Hw : wall z = usecs l) by (unfold wall; rewrite H3, H4; lia).
  pose proof (naive_local_spec z H2) as Hn. rewrite Hw in Hn.
  rewrite (ndt_ok_range l Hl) in Hn. destruct Hn as [l2 [Hn1 [Hn2 [Hn3 Hn4]]]].
  assert (l2 = l).
  { apply ndt_wide_inj; try (apply ndt_ok_wide; assumption); [exact Hn3|]. rewrite Hn4, H5. reflexivity. }
  subst l2. split; [exact Hn1|].
  destruct (overflowing_naive_local_spec z H2) as [l3 [Ho1 [Ho2 [Ho3 Ho4]]]].
  assert (l3 = l).
  { apply ndt_wide_inj; try assumption; [apply ndt_ok_wide; assumption|lia|]. rewrite Ho4, H5. reflexivity. }
  subst l3. exact Ho1.
Qed.

(** building from UTC never fails, and the wall clock of the result is UTC + offset: so the
    construction from the wall clock fails only when the UTC reading would leave the range *)
Theorem from_utc_then_local off u : ndt_ok u -> off_ok off ->
  dtz_ok (from_utc_datetime off u) /\ wall (from_utc_datetime off u) = usecs u + off.
Proof. intros Hu Ho. split; [split; assumption|reflexivity]. Qed.
End ModuloDateTime.
