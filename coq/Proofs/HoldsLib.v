(** Small shared facts for the judge-acceptance theorems (Cxx_holds): the judge's equality test is
    reflexive, an op name that passes [op_is] is that name. *)
From Coq Require Import ZArith List Bool String.
From V Require Import Base.Int Base.IO.
Import ListNotations.
Open Scope Z_scope.

Lemma hl_bytes_eqb_refl b : bytes_eqb b b = true.
Proof. induction b as [|x b IH]; [reflexivity|]. cbn [bytes_eqb]. rewrite Z.eqb_refl, IH. reflexivity. Qed.
Lemma hl_bytes_eqb_eq a : forall b, bytes_eqb a b = true -> a = b.
Proof.
  induction a as [|x a IH]; intros [|y b] H; cbn [bytes_eqb] in H; try discriminate; [reflexivity|].
  apply andb_prop in H. destruct H as [H1 H2]. apply Z.eqb_eq in H1. subst y. f_equal. apply IH. exact H2.
Qed.
Lemma hl_val_eqb_refl : forall v, val_eqb v v = true.
Proof.
  fix IH 1. intros v. destruct v; cbn [val_eqb]; try reflexivity; try apply Z.eqb_refl; try apply hl_bytes_eqb_refl.
  - apply IH.
  - induction l as [|a l IHl]; [reflexivity|]. rewrite (IH a). exact IHl.
Qed.
Lemma hl_judge_eq_refl v : judge_eq v v = JOk.
Proof. unfold judge_eq. rewrite hl_val_eqb_refl. reflexivity. Qed.
Lemma hl_judge_eq_of e v : e = v -> judge_eq e v = JOk.
Proof. intros ->. apply hl_judge_eq_refl. Qed.
Lemma hl_op_is_eq op s : op_is op s = true -> op = bytes_of_string s.
Proof. apply hl_bytes_eqb_eq. Qed.
Definition not_bad (v : verdict) : Prop := match v with JBad _ => False | _ => True end.
Lemma hl_never_bad v : (v <> JSkip -> v = JOk) -> not_bad v.
Proof. destruct v; cbn; try exact (fun _ => I). intros H. assert (E : JBad why = JOk) by (apply H; discriminate). discriminate. Qed.
