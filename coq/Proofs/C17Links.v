(** C17 — the links to the neighbouring properties, discharged.

    Proofs/C17.v proves the rounding theorems for NaiveDateTime and DateTime<FixedOffset> from
    premises bundled as [ndt_links], [dz_links], [ndt_sub_links], [dz_sub_links].  Here the premises
    are instantiated with the theorems of their owners:
      (a) C02  [u_timestamp_nanos_opt_spec]  timestamp_nanos_opt reads the instant, None exactly outside i64;
      (b) C03  [ndt_add_exact_u], [ndt_sub_exact_u], [zone_add_exact], [zone_sub_exact]
               checked_add_signed / checked_sub_signed move the instant by exactly the duration,
               refused exactly outside [NS_MIN, NS_MAX];
      (c) C03  [oao_spec], [pred_holds], [succ_holds], [naive_local_spec]  (the same facts C04 states as
               C04_overflowing_naive_local, in C03's nanosecond vocabulary): overflowing_naive_local
               reads UTC + offset, landing on one of the two headroom date words exactly when the
               reading leaves NaiveDateTime's range; the timestamp of a headroom reading is computed
               on the two literal words.
    Vocabulary: the carrier predicates are C03's — [nvalid a] (date word produced by the checked
    constructor, time of day non-leap) and [inst a] (nanoseconds since 1970-01-01, read through the
    calendar specification Spec/Gregorian.v); for a zone-aware value [zgood z] = nvalid UTC part and
    offset strictly between -86400 and 86400, [zwall z] = inst (UTC) + offset * 10^9. *)
From Coq Require Import ZArith List Bool Lia ZifyBool.
From V Require Import Base.Int Base.IntLemmas Base.IO Spec.Gregorian Gen.DateTimeConsts Model.TimeDelta Model.DateTime Model.Round.
From V Require Model.Date Model.Time.
From V Require Proofs.C06 Proofs.C02 Proofs.C02Date Proofs.C03 Proofs.C17.
Import ListNotations.
Open Scope Z_scope.
Ltac Zify.zify_post_hook ::= Z.to_euclidean_division_equations.

Module P2 := V.Proofs.C02.
Module P3 := V.Proofs.C03.
Module P17 := V.Proofs.C17.
Notation valid := V.Proofs.C06.valid.
Notation ns := V.Proofs.C06.ns.
Notation nvalid := V.Proofs.C03.nvalid.
Notation inst := V.Proofs.C03.inst.
Notation tvalid := V.Proofs.C03.tvalid.
Notation vdate := V.Proofs.C03.vdate.
Notation dnum := V.Proofs.C03.dn.
Notation W_LO := V.Proofs.C17.W_LO.
Notation W_HI := V.Proofs.C17.W_HI.

Definition GN := 1000000000.

Ltac consts := unfold GN, P17.GG, P17.W_LO, P17.W_HI, NS_MIN, NS_MAX, DN_MIN, DN_MAX, EPOCH_DN, P3.DAYNS,
  V.Proofs.C06.G, P2.G in *.
Ltac in_solve := unfold in_i32, in_u32, in_i64, in_u64, in_range, i32_min, i32_max, u32_max, i64_min, i64_max, u64_max in *; lia.

(** * bridges between the owners' notions of validity / instant *)
(* C03's [vdate] is C02's [valid_date]; the two day-number readings are the same term *)
Lemma vdate_valid_date d : vdate d -> P2.valid_date d.
Proof.
  intros (Hy & Ho & E). exists (Date.d_year d), (Date.d_ordinal d).
  split; [exact (P3.year_in_range_i32 _ Hy)|]. split; [exact (P3.valid_yo_u32 _ _ Ho)|exact E].
Qed.
Lemma nvalid_valid_ndt a : nvalid a -> P2.valid_ndt a /\ P2.nonleap a /\ P2.instant a = inst a.
Proof.
  intros (Hd & Hs & Hf). unfold V.Proofs.C06.G in Hf. split; [|split].
  - split; [apply vdate_valid_date; exact Hd|]. unfold P2.dsecs, P2.dfrac, P2.G. lia.
  - unfold P2.nonleap, P2.dfrac, P2.G. lia.
  - reflexivity.
Qed.

(* window facts *)
Lemma window_in_range s : W_LO <= s <= W_HI -> NS_MIN <= s <= NS_MAX.
Proof. consts. lia. Qed.
Lemma out_of_range_not_i64 s : ~ (NS_MIN <= s <= NS_MAX) -> chko in_i64 s = None.
Proof. intros H. unfold chko. replace (in_i64 s) with false; [reflexivity|]. symmetry. consts. in_solve. Qed.

(** * (a) NaiveDateTime: timestamp_nanos_opt reads the instant *)
Lemma ts_exact a : nvalid a -> dt_timestamp_nanos_opt a = Val (chko in_i64 (inst a)).
Proof.
  intros Ha. destruct (nvalid_valid_ndt a Ha) as (Hv & Hn & E).
  rewrite (V.Proofs.C02Date.u_timestamp_nanos_opt_spec a Hv Hn), E. reflexivity.
Qed.

(** * (b) NaiveDateTime: + / - a duration are exact wherever the target instant is representable *)
Lemma add_exact_range a d : nvalid a -> valid d -> NS_MIN <= inst a + ns d <= NS_MAX ->
  exists r, ndt_checked_add_signed a d = Val (Some r) /\ nvalid r /\ inst r = inst a + ns d.
Proof.
  intros Ha Hd Hw. destruct (P3.ndt_add_exact_u a d Ha Hd) as (r & E & R).
  destruct r as [b|]; cbn in R; [|contradiction]. exists b. tauto.
Qed.
Lemma sub_exact_range a d : nvalid a -> valid d -> NS_MIN <= inst a - ns d <= NS_MAX ->
  exists r, ndt_checked_sub_signed a d = Val (Some r) /\ nvalid r /\ inst r = inst a - ns d.
Proof.
  intros Ha Hd Hw. destruct (P3.ndt_sub_exact_u a d Ha Hd) as (r & E & R).
  destruct r as [b|]; cbn in R; [|contradiction]. exists b. tauto.
Qed.

Theorem ndt_links_hold : P17.ndt_links inst nvalid.
Proof.
  split; [exact ts_exact|]. split.
  - intros a d Ha Hd Hw. apply add_exact_range; auto. apply window_in_range; exact Hw.
  - intros a d Ha Hd Hw. apply sub_exact_range; auto. apply window_in_range; exact Hw.
Qed.

Lemma inst_frac a : nvalid a -> Time.tfrac (nd_time a) = inst a mod P17.GG.
Proof.
  intros (_ & Hs & Hf). unfold P3.inst, unix_nanos. unfold V.Proofs.C06.G in Hf. unfold P17.GG.
  set (q := unix_secs (dnum (nd_date a)) (Time.tsecs (nd_time a))). clearbody q. lia.
Qed.
Theorem ndt_sub_links_hold : P17.ndt_sub_links inst nvalid NS_MIN NS_MAX.
Proof.
  split; [exact inst_frac|]. split.
  - intros a d Ha Hd Hw. apply add_exact_range; auto.
  - intros a d Ha Hd Hw. apply sub_exact_range; auto.
Qed.

(** * (c) DateTime<FixedOffset> *)
Definition off_ok (off : Z) : Prop := -86400 < off < 86400.
Definition zgood (z : dtz) : Prop := nvalid (dz_utc z) /\ off_ok (dz_off z).
Definition zwall (z : dtz) : Z := inst (dz_utc z) + dz_off z * GN.
(* the same with the offset fixed (rounding keeps the offset) *)
Definition zgood_at (off : Z) (z : dtz) : Prop := nvalid (dz_utc z) /\ dz_off z = off.

(** the wall-clock reading, over the whole range of instants and offsets: a valid reading with
    instant UTC + offset when that is representable, otherwise one of the two headroom date words
    with a non-leap time of day; the sub-second field is the UTC one in both cases *)
Lemma local_wide u off : nvalid u -> off_ok off ->
  exists l, ndt_overflowing_add_offset u off = Val l /\
    Time.tfrac (nd_time l) = Time.tfrac (nd_time u) /\
    ((NS_MIN <= inst u + off * GN <= NS_MAX /\ nvalid l /\ inst l = inst u + off * GN) \/
     (~ (NS_MIN <= inst u + off * GN <= NS_MAX) /\ tvalid (nd_time l) /\
      (nd_date l = Date.D_BEFORE_MIN \/ nd_date l = Date.D_AFTER_MAX))).
Proof.
  intros Hu Ho.
  destruct (Z_le_dec NS_MIN (inst u + off * GN)) as [H1|H1];
  [destruct (Z_le_dec (inst u + off * GN) NS_MAX) as [H2|H2]|].
  - (* representable: C03's naive_local_spec *)
    destruct (P3.naive_local_spec u off Hu Ho ltac:(unfold GN, V.Proofs.C06.G in *; lia)) as (l & El & Vl & Il).
    exists l. split; [exact El|]. split.
    + (* fraction kept *)
      revert El. unfold ndt_overflowing_add_offset. destruct Hu as [Hd Ht].
      destruct (P3.oao_spec _ off Ht Ho) as (t' & k & E & Vt & Ef & _). rewrite E. cbn [bind].
      destruct (shift_date_overflowing (nd_date u) k) as [d'| |]; cbn [bind]; intros X; try discriminate.
      injection X as <-. exact Ef.
    + left. unfold GN, V.Proofs.C06.G in *. auto.
  - (* above the range: the date is MAX and the carry +1 *)
    destruct Hu as [Hd Ht]. unfold ndt_overflowing_add_offset.
    destruct (P3.oao_spec _ off Ht Ho) as (t' & k & E & Vt & Ef & Es & Hk). rewrite E. cbn [bind].
    pose proof (P3.vdate_range _ Hd) as Rg. rewrite P3.inst_split in H2. unfold P3.tns in H2.
    destruct Ht as [Hs Hf]. pose proof Vt as [Vs Vf].
    assert (Hk1 : k = 1) by (consts; lia). subst k.
    unfold shift_date_overflowing. cbn [Z.eqb]. change (1 =? -1) with false. cbv iota.
    destruct (P3.succ_holds _ Hd) as (r & Er & R). rewrite Er. cbn [bind].
    destruct r as [d'|].
    + exfalso. destruct R as [R1 R2]. pose proof (P3.vdate_range _ R1). consts. lia.
    + eexists. split; [reflexivity|]. cbn [nd_time nd_date]. split; [exact Ef|]. right.
      split; [rewrite P3.inst_split; unfold P3.tns; consts; lia|]. split; [exact Vt|right; reflexivity].
  - (* below the range: the date is MIN and the carry -1 *)
    destruct Hu as [Hd Ht]. unfold ndt_overflowing_add_offset.
    destruct (P3.oao_spec _ off Ht Ho) as (t' & k & E & Vt & Ef & Es & Hk). rewrite E. cbn [bind].
    pose proof (P3.vdate_range _ Hd) as Rg. rewrite P3.inst_split in H1. unfold P3.tns in H1.
    destruct Ht as [Hs Hf]. pose proof Vt as [Vs Vf].
    assert (Hk1 : k = -1) by (consts; lia). subst k.
    unfold shift_date_overflowing. change (-1 =? -1) with true. cbv iota.
    destruct (P3.pred_holds _ Hd) as (r & Er & R). rewrite Er. cbn [bind].
    destruct r as [d'|].
    + exfalso. destruct R as [R1 R2]. pose proof (P3.vdate_range _ R1). consts. lia.
    + eexists. split; [reflexivity|]. cbn [nd_time nd_date]. split; [exact Ef|]. right.
      split; [rewrite P3.inst_split; unfold P3.tns; consts; lia|]. split; [exact Vt|left; reflexivity].
Qed.

(** the timestamp of a headroom reading does not fit i64: computed on the two literal words *)
Lemma ndays_BEFORE_MIN : Date.num_days_from_ce Date.D_BEFORE_MIN = Val (DN_MIN - 1).
Proof. vm_compute. reflexivity. Qed.
Lemma ndays_AFTER_MAX : Date.num_days_from_ce Date.D_AFTER_MAX = Val (DN_MAX + 1).
Proof. vm_compute. reflexivity. Qed.

Lemma headroom_ts_none d t : tvalid t -> d = Date.D_BEFORE_MIN \/ d = Date.D_AFTER_MAX ->
  dt_timestamp_nanos_opt (mk_ndt d t) = Val None.
Proof.
  intros [Hs Hf] Hd. unfold V.Proofs.C06.G in Hf.
  unfold dt_timestamp_nanos_opt, dt_timestamp, dt_subsec_nanos. cbn [nd_date nd_time].
  unfold Time.num_seconds_from_midnight, Time.nanosecond.
  destruct Hd as [-> | ->]; [rewrite ndays_BEFORE_MIN|rewrite ndays_AFTER_MAX]; cbn [bind];
    unfold UNIX_EPOCH_DAY, DN_MIN, DN_MAX, sub_i64, mul_i64, add_i64;
    rewrite chk_in by in_solve; cbn [bind]; rewrite chk_in by in_solve; cbn [bind];
    rewrite chk_in by in_solve; cbn [bind].
  - match goal with |- context [if ?c then _ else _] => replace c with true by lia end.
    rewrite chk_in by in_solve. cbn [bind]. rewrite chk_in by in_solve. cbn [bind].
    unfold checked_mul, chko.
    match goal with |- context [in_i64 ?x] => replace (in_i64 x) with false by (symmetry; in_solve) end.
    reflexivity.
  - match goal with |- context [if ?c then _ else _] => replace c with false by lia end.
    cbn [bind]. unfold checked_mul, chko.
    match goal with |- context [in_i64 ?x] => replace (in_i64 x) with false by (symmetry; in_solve) end.
    reflexivity.
Qed.

Lemma zlocal_ts z : zgood z ->
  exists l, overflowing_naive_local z = Val l /\ dt_timestamp_nanos_opt l = Val (chko in_i64 (zwall z)).
Proof.
  intros [Hu Ho]. destruct (local_wide _ _ Hu Ho) as (l & El & _ & [(Hr & Vl & Il)|(Hr & Vt & Hd)]);
    exists l; (split; [exact El|]); unfold zwall.
  - rewrite (ts_exact l Vl), Il. reflexivity.
  - rewrite (out_of_range_not_i64 _ Hr). destruct l as [d t]. cbn [nd_date nd_time] in *.
    apply headroom_ts_none; assumption.
Qed.

Lemma zadd_exact_range z d : zgood z -> valid d -> NS_MIN <= inst (dz_utc z) + ns d <= NS_MAX ->
  exists r, dz_checked_add_signed z d = Val (Some r) /\ zgood_at (dz_off z) r /\ zwall r = zwall z + ns d.
Proof.
  intros [Hu Ho] Hd Hw. destruct z as [u off]. cbn [dz_utc dz_off] in *.
  destruct (P3.zone_add_exact u off d Hu Hd) as (r & E & R).
  destruct r as [x|]; [|contradiction]. destruct R as (R1 & R2 & R3). exists x. split; [exact E|].
  split; [split; assumption|]. unfold zwall. cbn [dz_utc dz_off]. rewrite R1, R3. lia.
Qed.
Lemma zsub_exact_range z d : zgood z -> valid d -> NS_MIN <= inst (dz_utc z) - ns d <= NS_MAX ->
  exists r, dz_checked_sub_signed z d = Val (Some r) /\ zgood_at (dz_off z) r /\ zwall r = zwall z - ns d.
Proof.
  intros [Hu Ho] Hd Hw. destruct z as [u off]. cbn [dz_utc dz_off] in *.
  destruct (P3.zone_sub_exact u off d Hu Hd) as (r & E & R).
  destruct r as [x|]; [|contradiction]. destruct R as (R1 & R2 & R3). exists x. split; [exact E|].
  split; [split; assumption|]. unfold zwall. cbn [dz_utc dz_off]. rewrite R1, R3. lia.
Qed.
Lemma zgood_at_good off r : off_ok off -> zgood_at off r -> zgood r.
Proof. intros Ho [H1 H2]. split; [exact H1|rewrite H2; exact Ho]. Qed.

Theorem dz_links_hold : P17.dz_links zwall zgood.
Proof.
  split; [exact zlocal_ts|]. split.
  - intros z d Hz Hd Hw. pose proof Hz as [Hu Ho].
    destruct (zadd_exact_range z d Hz Hd) as (r & E & G1 & G2).
    { unfold zwall, off_ok in *. consts. lia. }
    exists r. split; [exact E|]. split; [exact (zgood_at_good _ _ Ho G1)|exact G2].
  - intros z d Hz Hd Hw. pose proof Hz as [Hu Ho].
    destruct (zsub_exact_range z d Hz Hd) as (r & E & G1 & G2).
    { unfold zwall, off_ok in *. consts. lia. }
    exists r. split; [exact E|]. split; [exact (zgood_at_good _ _ Ho G1)|exact G2].
Qed.

(** sub-second digits on a zone-aware value: the offset is fixed (the operations keep it), so the
    range on which + / - are exact is the whole range of UTC instants, shifted by the offset *)
Lemma znano off z : off_ok off -> zgood_at off z -> dz_nanosecond z = Val (zwall z mod P17.GG).
Proof.
  intros Ho [Hu Hoff]. unfold dz_nanosecond, overflowing_naive_local.
  destruct (local_wide (dz_utc z) (dz_off z) Hu ltac:(rewrite Hoff; exact Ho)) as (l & El & Ef & _).
  rewrite El. cbn [bind]. unfold Time.nanosecond. rewrite Ef, (inst_frac _ Hu). unfold zwall, GN, P17.GG.
  rewrite Z.mod_add by lia. reflexivity.
Qed.
Theorem dz_sub_links_hold off : off_ok off ->
  P17.dz_sub_links zwall (zgood_at off) (NS_MIN + off * GN) (NS_MAX + off * GN).
Proof.
  intros Ho. split; [intros z Hz; exact (znano off z Ho Hz)|]. split.
  - intros z d Hz Hd Hw. pose proof Hz as [Hu Hoff].
    destruct (zadd_exact_range z d (zgood_at_good _ _ Ho Hz) Hd) as (r & E & G1 & G2).
    { unfold zwall in Hw. rewrite Hoff in Hw. lia. }
    exists r. rewrite Hoff in G1. auto.
  - intros z d Hz Hd Hw. pose proof Hz as [Hu Hoff].
    destruct (zsub_exact_range z d (zgood_at_good _ _ Ho Hz) Hd) as (r & E & G1 & G2).
    { unfold zwall in Hw. rewrite Hoff in Hw. lia. }
    exists r. rewrite Hoff in G1. auto.
Qed.

(** * the unconditional theorems *)
Definition ndt_value_u := P17.ndt_value inst nvalid ndt_links_hold.
Definition ndt_error_u := P17.ndt_error inst nvalid ndt_links_hold.
Definition ndt_fixed_u := P17.ndt_fixed inst nvalid ndt_links_hold.
Definition ndt_idem_u := P17.ndt_idem inst nvalid ndt_links_hold.
Definition dz_value_u := P17.dz_value zwall zgood dz_links_hold.
Definition dz_error_u := P17.dz_error zwall zgood dz_links_hold.
Definition dz_fixed_u := P17.dz_fixed zwall zgood dz_links_hold.
Definition dz_idem_u := P17.dz_idem zwall zgood dz_links_hold.
Definition ndt_round_subsecs_u := P17.ndt_round_subsecs inst nvalid NS_MIN NS_MAX ndt_sub_links_hold.
Definition ndt_trunc_subsecs_u := P17.ndt_trunc_subsecs inst nvalid NS_MIN NS_MAX ndt_sub_links_hold.

(* zone-aware: stated with the offset of the argument; the range condition is on the UTC instant of
   the result *)
Theorem dz_round_subsecs_u z digits : zgood z -> 0 <= digits ->
  NS_MIN <= P17.m_round (zwall z) (P17.sub_span digits) - dz_off z * GN <= NS_MAX ->
  exists r, round_subsecs dz_ops z digits = Val r /\
            P17.subsec_post zwall (zgood_at (dz_off z)) P17.m_round z digits r.
Proof.
  intros [Hu Ho] Hd Hw.
  apply (P17.dz_round_subsecs zwall (zgood_at (dz_off z)) _ _ (dz_sub_links_hold (dz_off z) Ho) z digits);
    [split; [exact Hu|reflexivity]|exact Hd|lia].
Qed.
Theorem dz_trunc_subsecs_u z digits : zgood z -> 0 <= digits ->
  NS_MIN <= P17.m_trunc (zwall z) (P17.sub_span digits) - dz_off z * GN <= NS_MAX ->
  exists r, trunc_subsecs dz_ops z digits = Val r /\
            P17.subsec_post zwall (zgood_at (dz_off z)) P17.m_trunc z digits r.
Proof.
  intros [Hu Ho] Hd Hw.
  apply (P17.dz_trunc_subsecs zwall (zgood_at (dz_off z)) _ _ (dz_sub_links_hold (dz_off z) Ho) z digits);
    [split; [exact Hu|reflexivity]|exact Hd|lia].
Qed.

(** the premises are inhabited, at the interesting places: NaiveDateTime::MAX / MIN are [nvalid];
    MAX_UTC read at +00:00:01 (the witness of the unrepaired trap) is [zgood] with a wall clock
    outside i64, so the error clause applies to it *)
Lemma links_inhabited :
  nvalid NDT_MAX /\ nvalid NDT_MIN /\ inst NDT_MAX = NS_MAX /\
  zgood P17.z_witness /\ in_i64 (zwall P17.z_witness) = false /\ zwall P17.z_witness = NS_MAX + GN.
Proof.
  destruct P3.range_ends_reachable as (_ & _ & _ & _ & Imax & Imin & Vmax & Vmin & _).
  assert (Hz : zgood P17.z_witness) by (split; [exact Vmax|unfold off_ok; cbn; lia]).
  assert (Hw : zwall P17.z_witness = NS_MAX + GN) by (unfold zwall; cbn [P17.z_witness dz_utc dz_off]; rewrite Imax; lia).
  split; [exact Vmax|]. split; [exact Vmin|]. split; [exact Imax|]. split; [exact Hz|]. split; [|exact Hw].
  rewrite Hw. reflexivity.
Qed.
