(** Lemmas about Base/Utf8.v: slicing at a char boundary never traps on well-formed UTF-8;
    well-formedness is preserved when ASCII bytes (or a whole scalar value) are consumed. *)
From Coq Require Import ZArith List Bool Lia ZifyBool.
From V Require Import Base.Int Base.IO Base.Utf8.
Import ListNotations.
Open Scope Z_scope.

Lemma blen_nil : blen [] = 0. Proof. reflexivity. Qed.
Lemma blen_cons c s : blen (c :: s) = 1 + blen s.
Proof. unfold blen. cbn [List.length]. lia. Qed.
Lemma blen_nonneg s : 0 <= blen s.
Proof. unfold blen. lia. Qed.
Lemma blen_app a b : blen (a ++ b) = blen a + blen b.
Proof. unfold blen. rewrite app_length. lia. Qed.
Lemma blen_0 s : blen s = 0 -> s = [].
Proof. destruct s; [reflexivity|]. rewrite blen_cons. pose proof (blen_nonneg s). lia. Qed.

(** a byte that is not a UTF-8 continuation byte *)
Lemma boundary_byte c : (0 <= c <= 127 \/ 192 <= c <= 255) -> is_utf8_char_boundary c = true.
Proof.
  intros H. unfold is_utf8_char_boundary, as_i8, wrap_s.
  change (2 ^ 8) with 256. change (2 ^ (8 - 1)) with 128.
  rewrite Z.mod_small by lia. destruct (c <? 128) eqn:E; lia.
Qed.
Lemma continuation_byte c : 128 <= c <= 191 -> is_utf8_char_boundary c = false.
Proof.
  intros H. unfold is_utf8_char_boundary, as_i8, wrap_s.
  change (2 ^ 8) with 256. change (2 ^ (8 - 1)) with 128.
  rewrite Z.mod_small by lia. destruct (c <? 128) eqn:E; lia.
Qed.

(** the string starts at a char boundary of whatever it is a suffix of *)
Definition starts_ok (b : bytes) : bool :=
  match b with [] => true | c :: _ => is_utf8_char_boundary c end.

Lemma nth_z_aux_app {A} (a : list A) c b : nth_z_aux (a ++ c :: b) (List.length a) = Some c.
Proof. induction a as [|x a IH]; cbn; [reflexivity|exact IH]. Qed.
Lemma skipn_app_len {A} (a b : list A) : skipn (List.length a) (a ++ b) = b.
Proof. induction a as [|x a IH]; cbn; [reflexivity|exact IH]. Qed.

Lemma is_char_boundary_app a b : starts_ok b = true -> is_char_boundary (a ++ b) (blen a) = true.
Proof.
  intros Hb. unfold is_char_boundary.
  destruct (blen a =? 0) eqn:E0; [reflexivity|].
  rewrite blen_app. destruct b as [|c b].
  - rewrite blen_nil. replace (blen a + 0 <=? blen a) with true by lia. lia.
  - rewrite blen_cons. pose proof (blen_nonneg b).
    replace (blen a + (1 + blen b) <=? blen a) with false by lia.
    unfold blen. rewrite Nat2Z.id, nth_z_aux_app. exact Hb.
Qed.
Lemma str_from_app a b : starts_ok b = true -> str_from (a ++ b) (blen a) = Val b.
Proof.
  intros Hb. unfold str_from. rewrite is_char_boundary_app by exact Hb.
  pose proof (blen_nonneg a). replace (0 <=? blen a) with true by lia. cbn [andb].
  unfold blen. rewrite Nat2Z.id, skipn_app_len. reflexivity.
Qed.
Lemma str_from_0 s : str_from s 0 = Val s.
Proof. reflexivity. Qed.
Lemma str_from_1 c r : starts_ok r = true -> str_from (c :: r) 1 = Val r.
Proof. intros H. exact (str_from_app [c] r H). Qed.
Lemma str_from_2 a b r : starts_ok r = true -> str_from (a :: b :: r) 2 = Val r.
Proof. intros H. exact (str_from_app [a; b] r H). Qed.
Lemma str_from_3 a b c r : starts_ok r = true -> str_from (a :: b :: c :: r) 3 = Val r.
Proof. intros H. exact (str_from_app [a; b; c] r H). Qed.

(** well-formed UTF-8 *)
Lemma utf8_valid_starts_ok s : utf8_valid s = true -> starts_ok s = true.
Proof.
  destruct s as [|a r]; [reflexivity|]. cbn [utf8_valid starts_ok]. intros H.
  apply boundary_byte.
  destruct ((0 <=? a) && (a <=? 127)) eqn:E1; [lia|].
  destruct ((194 <=? a) && (a <=? 223)) eqn:E2; [lia|].
  destruct ((224 <=? a) && (a <=? 239)) eqn:E3; [lia|].
  destruct ((240 <=? a) && (a <=? 244)) eqn:E4; [lia|discriminate].
Qed.
Lemma utf8_valid_ascii c r : 0 <= c <= 127 -> utf8_valid (c :: r) = utf8_valid r.
Proof. intros H. cbn [utf8_valid]. replace ((0 <=? c) && (c <=? 127)) with true by lia. reflexivity. Qed.
Lemma utf8_valid_tail_ascii c r : 0 <= c <= 127 -> utf8_valid (c :: r) = true ->
  utf8_valid r = true /\ starts_ok r = true.
Proof.
  intros H Hv. rewrite utf8_valid_ascii in Hv by exact H. split; [exact Hv|].
  apply utf8_valid_starts_ok; exact Hv.
Qed.
Lemma utf8_valid_app_ascii a b : Forall (fun c => 0 <= c <= 127) a ->
  utf8_valid (a ++ b) = utf8_valid b.
Proof.
  induction 1 as [|c a Hc Ha IH]; [reflexivity|]. cbn [app]. rewrite utf8_valid_ascii by exact Hc. exact IH.
Qed.
(** U+2212 MINUS SIGN *)
Lemma utf8_valid_minus r : utf8_valid (226 :: 136 :: 146 :: r) = utf8_valid r.
Proof. reflexivity. Qed.

(** the first byte of a well-formed string determines how [next_code_point] continues; the cases
    the scanners distinguish *)
Lemma next_code_point_ascii c r : c <? 128 = true -> next_code_point (c :: r) = Some (c, r).
Proof. intros H. cbn [next_code_point]. rewrite H. reflexivity. Qed.
Lemma next_code_point_minus r : next_code_point (226 :: 136 :: 146 :: r) = Some (8722, r).
Proof. reflexivity. Qed.

(** * decoding the first scalar value of a well-formed string *)
Ltac Zify.zify_post_hook ::= Z.to_euclidean_division_equations.
Lemma land_31 x : Z.land x 31 = x mod 32.
Proof. change 31 with (Z.ones 5). rewrite Z.land_ones by lia. reflexivity. Qed.
Lemma land_63 x : Z.land x 63 = x mod 64.
Proof. change 63 with (Z.ones 6). rewrite Z.land_ones by lia. reflexivity. Qed.
Lemma land_7 x : Z.land x 7 = x mod 8.
Proof. change 7 with (Z.ones 3). rewrite Z.land_ones by lia. reflexivity. Qed.

(** ASCII first byte: the scalar value is the byte; otherwise the scalar value is >= 128, and it
    is U+2212 only for the bytes E2 88 92 *)
Lemma ncp_valid s : utf8_valid s = true ->
  match s with
  | [] => next_code_point s = None
  | x :: r =>
      (0 <= x <= 127 /\ next_code_point s = Some (x, r)) \/
      (128 <= x /\ exists cp r', next_code_point s = Some (cp, r') /\ 128 <= cp /\
                   (cp = 8722 -> s = 226 :: 136 :: 146 :: r'))
  end.
Proof.
  destruct s as [|a r]; [reflexivity|]. cbn [utf8_valid]. intros H.
  destruct ((0 <=? a) && (a <=? 127)) eqn:E1.
  { left. split; [lia|]. cbn [next_code_point]. replace (a <? 128) with true by lia. reflexivity. }
  right.
  destruct ((194 <=? a) && (a <=? 223)) eqn:E2.
  { destruct r as [|b r']; [discriminate|]. apply andb_prop in H. destruct H as [Hb _]. unfold cont in Hb.
    split; [lia|]. cbn [next_code_point]. replace (a <? 128) with false by lia. replace (a <? 224) with true by lia.
    eexists _, _. split; [reflexivity|]. rewrite land_31, land_63. split; lia. }
  destruct ((224 <=? a) && (a <=? 239)) eqn:E3.
  { destruct r as [|b [|c r']]; try discriminate.
    apply andb_prop in H. destruct H as [H _]. apply andb_prop in H. destruct H as [Hb Hc]. unfold cont in *.
    split; [lia|]. cbn [next_code_point]. replace (a <? 128) with false by lia. replace (a <? 224) with false by lia.
    replace (a <? 240) with true by lia.
    eexists _, _. split; [reflexivity|]. rewrite land_31, !land_63.
    destruct (a =? 224) eqn:Ea; [|destruct (a =? 237) eqn:Ea'].
    - split; [lia|]. intros Hcp. exfalso. lia.
    - split; [lia|]. intros Hcp. exfalso. lia.
    - split; [lia|]. intros Hcp.
      assert (a = 226 /\ b = 136 /\ c = 146) as (-> & -> & ->) by lia. reflexivity. }
  destruct ((240 <=? a) && (a <=? 244)) eqn:E4; [|discriminate].
  destruct r as [|b [|c [|d r']]]; try discriminate.
  apply andb_prop in H. destruct H as [H _]. apply andb_prop in H. destruct H as [H Hd].
  apply andb_prop in H. destruct H as [Hb Hc]. unfold cont in *.
  split; [lia|]. cbn [next_code_point]. replace (a <? 128) with false by lia. replace (a <? 224) with false by lia.
  replace (a <? 240) with false by lia.
  eexists _, _. split; [reflexivity|]. rewrite land_7, land_31, !land_63.
  destruct (a =? 240) eqn:Ea; [|destruct (a =? 244) eqn:Ea'].
  - split; [lia|]. intros Hcp. exfalso. lia.
  - split; [lia|]. intros Hcp. exfalso. lia.
  - split; [lia|]. intros Hcp. exfalso. lia.
Qed.
