(** C03 — judge acceptance of Days on a zone-aware value (ops ar.zdays, ar.opzdays), arbitrary
    argument lists.  The judge demands: zero days = the value itself; a target instant outside the
    range = refusal; a target whose local date is representable = the exact value; in the remaining
    headroom class either outcome.  The model's value-level statement is [C03Zone.zone_days_exact];
    the one case it leaves open (subtracting zero days from a value whose local reading is in the
    headroom) is closed here: [checked_sub_days] has no zero guard, the value itself is re-resolved. *)
From Coq Require Import String ZArith List Bool Lia ZifyBool.
From V Require Import Base.Int Base.IO Base.IntLemmas Spec.Gregorian Model.TimeDelta Model.DateTime Model.C03
  Gen.DateTimeConsts Proofs.C06 Proofs.C03 Proofs.C03Ops Proofs.C03Holds Proofs.C03HoldsAr.
From V Require Model.Date Model.Time Judge.C03 Proofs.C01Holds Proofs.C08Date Proofs.C03Zone Proofs.C04 Proofs.C04Date.
Import ListNotations.
Open Scope Z_scope.
Ltac Zify.zify_post_hook ::= Z.to_euclidean_division_equations.

Module J := Judge.C03.

Lemma nominal_vdate d : C04.nominal d -> vdate d.
Proof.
  intros (y & o & Hy & Ho & H). apply vdate_constructed. exists y, o.
  rewrite (C08Date.from_yo_opt_spec y o Hy Ho) in H. unfold C08Date.date_if in H.
  destruct (year_in_range y && valid_yo y o) eqn:E; [|discriminate].
  apply andb_prop in E. destruct E as [E1 E2]. split; [exact E1|]. split; [exact E2|].
  rewrite (C08Date.from_yo_opt_spec y o Hy Ho), E1, E2. exact H.
Qed.
Lemma vdate_nominal d : vdate d -> C04.nominal d.
Proof.
  intros (Hy & Ho & H). exists (Date.d_year d), (Date.d_ordinal d).
  split; [apply year_in_range_i32; exact Hy|]. split; [apply (valid_yo_u32 _ _ Ho)|exact H].
Qed.
Lemma nvalid_dtz_ok u off : nvalid u -> -86400 < off < 86400 -> C04.dtz_ok (mk_dtz u off).
Proof.
  intros [Hd [Hs Hf]] Ho. split; [|exact Ho]. split; [apply vdate_nominal; exact Hd|].
  unfold C04.time_ok, G in *. cbn [dz_utc]. lia.
Qed.

Lemma sub_days_zero_date d : C04.dateok d -> Date.checked_sub_days d 0 = Val (Some d).
Proof.
  intros [Hn|[->| ->]]; [|vm_compute; reflexivity|vm_compute; reflexivity].
  pose proof (nominal_vdate d Hn) as Vd. pose proof (vdate_range d Vd) as Rg.
  destruct (date_sub_days_exact_u d 0 Vd eq_refl) as (r & E & R). rewrite E.
  destruct r as [d'|]; cbn in R.
  - destruct R as [V' D']. do 2 f_equal. apply vdate_inj; [exact V'|exact Vd|lia].
  - unfold dn_in_range in R. lia.
Qed.

Lemma sub_days_zero u off : nvalid u -> -86400 < off < 86400 ->
  dz_checked_sub_days (mk_dtz u off) 0 = Val (Some (mk_dtz u off)).
Proof.
  intros Hu Ho. pose proof (nvalid_dtz_ok u off Hu Ho) as Hok.
  destruct (C04Date.overflowing_naive_local_u (mk_dtz u off) Hok) as (l & El & [Wd Wt] & _).
  unfold dz_checked_sub_days. rewrite El. cbn [bind].
  unfold ndt_checked_sub_days, ndt_map_date. rewrite (sub_days_zero_date _ Wd). unfold obind. cbn [bind].
  replace (mk_ndt (nd_date l) (nd_time l)) with l by (destruct l; reflexivity).
  pose proof (C04Date.utc_local_utc_u (mk_dtz u off) l Hok El) as Hl. cbn [dz_off] in Hl |- *. rewrite Hl. cbn [bind mlt_single dz_utc].
  rewrite (proj2 (ndt_le_max u Hu)). reflexivity.
Qed.

(** the model's result, for the judge: [out_dtz op_form r] with [r] as [zone_days_exact] describes it *)
Lemma zdays_accept op_form t off s n (r : option dtz) u :
  nvalid u -> inst u = t -> -86400 < off < 86400 -> 0 <= n -> (s = 1 \/ s = -1) ->
  zdays_res u off (t + s * n * 86400000000000) r ->
  (n = 0 -> r = Some (mk_dtz u off)) ->
  let t' := t + s * n * J.DAYNS in
  let l' := dn_of_nanos (t + off * J.G) + s * n in
  (if n =? 0 then judge_eq (J.wrap op_form (Some (J.enc_zinst t off))) (out_dtz op_form r)
   else if negb (J.in_ns t') then judge_eq (J.wrap op_form None) (out_dtz op_form r)
   else if dn_in_range l' then judge_eq (J.wrap op_form (Some (J.enc_zinst t' off))) (out_dtz op_form r)
   else if val_eqb (J.wrap op_form None) (out_dtz op_form r)
           || val_eqb (J.wrap op_form (Some (J.enc_zinst t' off))) (out_dtz op_form r)
        then JOk else JBad B"neither-refused-nor-exact") = JOk.
Proof.
  intros Vu Iu Ho Hn Hs R R0. cbv zeta. unfold J.DAYNS.
  destruct (n =? 0) eqn:E0.
  - rewrite (R0 ltac:(lia)). unfold out_dtz. rewrite <- Iu.
    destruct op_form; cbn [unwrap_r unwrap bind val_of_R vo_dtz val_of_option J.wrap];
      rewrite (enc_dtz_inst u off Vu); apply jrefl.
  - set (tt := t + s * n * 86400000000000) in *.
    assert (Hout : forall z, r = Some z -> out_dtz op_form r = J.wrap op_form (Some (J.enc_zinst tt off)) /\ J.in_ns tt = true).
    { intros z ->. cbn in R. destruct R as (Eo & Vz & Iz). destruct z as [b o]. cbn [dz_off dz_utc] in *. subst o.
      pose proof (nvalid_inst_range b Vz) as Rg. rewrite Iz in Rg. split.
      - unfold out_dtz. destruct op_form; cbn [unwrap_r unwrap bind val_of_R vo_dtz val_of_option J.wrap];
          change {| dz_utc := b; dz_off := off |} with (mk_dtz b off); rewrite (enc_dtz_inst b off Vz), Iz; reflexivity.
      - unfold J.in_ns. lia. }
    assert (Hnone : r = None -> out_dtz op_form r = J.wrap op_form None).
    { intros ->. unfold out_dtz. destruct op_form; reflexivity. }
    destruct (J.in_ns tt) eqn:En; cbn [negb].
    + destruct (dn_in_range (dn_of_nanos (t + off * J.G) + s * n)) eqn:Ed.
      * destruct r as [z|].
        -- rewrite (proj1 (Hout z eq_refl)). apply jrefl.
        -- exfalso. cbn in R. apply R. unfold J.in_ns in En. split; [lia|].
           unfold dn_in_range, dn_of_nanos, J.G, G, NS_MIN, NS_MAX, DN_MIN, DN_MAX, EPOCH_DN in *. subst tt. lia.
      * destruct r as [z|].
        -- rewrite (proj1 (Hout z eq_refl)). rewrite (C01Holds.val_eqb_refl (J.wrap op_form (Some (J.enc_zinst tt off)))).
           rewrite orb_true_r. reflexivity.
        -- rewrite (Hnone eq_refl). rewrite (C01Holds.val_eqb_refl (J.wrap op_form None)). reflexivity.
    + destruct r as [z|].
      * destruct (Hout z eq_refl) as [_ Hin]. congruence.
      * rewrite (Hnone eq_refl). apply jrefl.
Qed.

Lemma z_days_holds op_form (out : dtz -> bool -> Z -> val) args :
  (forall u off (sg : bool) n r,
     (if sg then dz_checked_add_days (mk_dtz u off) n else dz_checked_sub_days (mk_dtz u off) n) = Val r ->
     out (mk_dtz u off) sg n = out_dtz op_form r) ->
  J.j_z_days op_form args (a3 dec_dtz arg_sign arg_u64 args out) <> JSkip ->
  J.j_z_days op_form args (a3 dec_dtz arg_sign arg_u64 args out) = JOk.
Proof.
  intros Hout. unfold J.j_z_days, a3. destruct args as [|x [|y [|z [|? ?]]]]; skip_or.
  destruct (J.inst_of_dtz x) as [[| |t] off] eqn:Ex; skip_or.
  destruct (J.sign_of y) as [s|] eqn:Ey; skip_or.
  destruct (J.u64_of z) as [n|] eqn:Ez; skip_or. intros _.
  destruct (dtz_bridge x t off Ex) as (u & Du & Vu & Iu & Ho). destruct (sign_bridge y s Ey) as (b & Db & ->).
  destruct (u64_bridge z n Ez) as [Dn Hn]. rewrite Du, Db, Dn.
  assert (Hn0 : 0 <= n) by (unfold in_u64, in_range in Hn; lia).
  destruct (C03Zone.zone_days_exact u off n Vu Ho Hn) as [(ra & Ea & Ra) (rs & Es & Rs)].
  destruct b.
  - rewrite (Hout u off true n ra Ea). apply (zdays_accept op_form t off 1 n ra u Vu Iu Ho Hn0 (or_introl eq_refl)).
    + rewrite <- Iu. replace (inst u + 1 * n * 86400000000000) with (inst u + n * DAYNS) by (unfold DAYNS; lia). exact Ra.
    + intros ->. unfold dz_checked_add_days in Ea. change (0 =? 0) with true in Ea. cbv iota in Ea. congruence.
  - rewrite (Hout u off false n rs Es). apply (zdays_accept op_form t off (-1) n rs u Vu Iu Ho Hn0 (or_intror eq_refl)).
    + rewrite <- Iu. replace (inst u + -1 * n * 86400000000000) with (inst u - n * DAYNS) by (unfold DAYNS; lia). exact Rs.
    + intros ->. rewrite (sub_days_zero u off Vu Ho) in Es. congruence.
Qed.

Lemma h_zdays args : J.judge B"ar.zdays" args (run B"ar.zdays" args) <> JSkip -> J.judge B"ar.zdays" args (run B"ar.zdays" args) = JOk.
Proof.
  change (J.judge B"ar.zdays" args (run B"ar.zdays" args)) with
    (J.j_z_days false args (a3 dec_dtz arg_sign arg_u64 args (fun a sg n =>
       val_of_R vo_dtz (if sg then dz_checked_add_days a n else dz_checked_sub_days a n)))).
  apply z_days_holds. intros u off sg n r E. destruct sg; rewrite E; reflexivity.
Qed.
Lemma h_opzdays args : J.judge B"ar.opzdays" args (run B"ar.opzdays" args) <> JSkip -> J.judge B"ar.opzdays" args (run B"ar.opzdays" args) = JOk.
Proof.
  change (J.judge B"ar.opzdays" args (run B"ar.opzdays" args)) with
    (J.j_z_days true args (a3 dec_dtz arg_sign arg_u64 args (fun a sg n =>
       val_of_R enc_dtz (if sg then op_zadd_days a n else op_zsub_days a n)))).
  apply z_days_holds. intros u off sg n r E. unfold op_zadd_days, op_zsub_days. destruct sg; rewrite E; reflexivity.
Qed.

(** all 40 arithmetic ops *)
Definition all_arith_ops : list bytes := arith_ops ++ [B"ar.zdays"; B"ar.opzdays"].
Theorem holds_arith_all op args : In op all_arith_ops ->
  J.judge op args (run op args) <> JSkip -> J.judge op args (run op args) = JOk.
Proof.
  intros H. unfold all_arith_ops in H. apply in_app_or in H. destruct H as [H|H].
  - exact (holds_arith op args H).
  - cbn [In] in H. destruct H as [<-|[<-|[]]]; [exact (h_zdays args)|exact (h_opzdays args)].
Qed.

Lemma zdays_examples :
  dz_checked_sub_days (mk_dtz NDT_MAX 7200) 0 = Val (Some (mk_dtz NDT_MAX 7200)) /\
  J.judge B"ar.zdays" [VTup [VInt 262142; VInt 365; VInt 86399; VInt 999999999; VInt 7200]; VInt (-1); VInt 0]
    (run B"ar.zdays" [VTup [VInt 262142; VInt 365; VInt 86399; VInt 999999999; VInt 7200]; VInt (-1); VInt 0]) = JOk /\
  J.judge B"ar.opzdays" [VTup [VInt 262142; VInt 365; VInt 86399; VInt 999999999; VInt 7200]; VInt 1; VInt 1]
    (run B"ar.opzdays" [VTup [VInt 262142; VInt 365; VInt 86399; VInt 999999999; VInt 7200]; VInt 1; VInt 1]) = JOk.
Proof. vm_compute. repeat split; reflexivity. Qed.
