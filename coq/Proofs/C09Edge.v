(** C09 -- the printed form of a DateTime<Tz> at FULL strength: also where the wall-clock date leaves
    the range of NaiveDate (UTC reading on the last / first day of the range, offset pushing the
    wall clock over the end).  There [overflowing_naive_local] yields the sentinel dates
    NaiveDate::AFTER_MAX / BEFORE_MIN, whose printed forms are "+262143-01-01" / "-262144-12-31":
    still exactly the documented shape of the wall-clock reading the judge computes. *)
From Coq Require Import ZArith List Bool Lia ZifyBool String.
From V Require Import Base.Int Base.IntLemmas Base.IO Base.Utf8 Gen.TextForms Model.Rfc3339 Model.DateTime Model.Show Spec.Gregorian
  Proofs.Utf8 Proofs.Decimal Proofs.C09Parse Proofs.C09Show Proofs.C09Time Proofs.C09Date Proofs.C09DateTime Proofs.C09Zoned
  Proofs.C09Shape.
From V Require Model.Date Model.Time Judge.C09 Proofs.Date Proofs.C08 Proofs.C04.
Import ListNotations.
Open Scope Z_scope.
Ltac Zify.zify_post_hook ::= Z.to_euclidean_division_equations.
Import Proofs.Date.

(** the two sentinel dates: writer text and the judge's text of the day after / before the range *)
Lemma date_debug_after_max : date_debug [] Date.D_AFTER_MAX = wok (B"+262143-01-01").
Proof. vm_compute. reflexivity. Qed.
Lemma date_debug_before_min : date_debug [] Date.D_BEFORE_MIN = wok (B"-262144-12-31").
Proof. vm_compute. reflexivity. Qed.
Lemma yo_after_max : yo_of_dn (DN_MAX + 1) = (262143, 1).
Proof. vm_compute. reflexivity. Qed.
Lemma yo_before_min : yo_of_dn (DN_MIN - 1) = (-262144, 366).
Proof. vm_compute. reflexivity. Qed.
Lemma date_text_after_max : Judge.C09.date_text 262143 1 = B"+262143-01-01".
Proof. vm_compute. reflexivity. Qed.
Lemma date_text_before_min : Judge.C09.date_text (-262144) 366 = B"-262144-12-31".
Proof. vm_compute. reflexivity. Qed.
Lemma yo_max : yo_of_dn DN_MAX = (262142, 365).
Proof. vm_compute. reflexivity. Qed.
Lemma yo_min : yo_of_dn DN_MIN = (-262143, 1).
Proof. vm_compute. reflexivity. Qed.

(** the texts of a date-time whose local date word is [dl] with date text [dtxt] *)
Section Edge.
  Variables (du su fu off dl : Z) (dtxt : bytes).
  Hypothesis Htime : time_dom (Time.mk_time su fu).
  Hypothesis Hoff : -86400 < off < 86400.
  Hypothesis Hmin : off mod 60 = 0.
  Let sl := (su + off) mod 86400.
  Let a := mk_dtz (mk_ndt du (Time.mk_time su fu)) off.
  Hypothesis Hlocal : overflowing_naive_local a = Val (mk_ndt dl (Time.mk_time sl fu)).
  Hypothesis Hdate : date_debug [] dl = wok dtxt.

  Lemma edge_tvalid : tvalid (Time.mk_time sl fu).
  Proof. destruct Htime as [[H1 H2] _]. cbn [Time.tsecs Time.tfrac] in *. split; cbn [Time.tsecs Time.tfrac]; unfold sl; lia. Qed.

  Lemma edge_debug utc : to_text (dtz_debug utc [] a) =
    Val (dtxt ++ B"T" ++ Judge.C09.time_text sl fu ++ (if utc then B"Z" else Judge.C09.offset_text off)).
  Proof.
    pose proof edge_tvalid as Htv.
    unfold dtz_debug. rewrite Hlocal. cbn [bind]. unfold ndt_debug. cbn [nd_date nd_time].
    rewrite Hdate. unfold wseq, wok. cbn [bind]. unfold write_char. cbn [bind].
    rewrite (time_debug_text _ _ Htv). unfold wok. cbn [bind Time.tsecs Time.tfrac].
    rewrite time_shape by apply Htv.
    destruct utc.
    - unfold utc_debug, wok. cbn [to_text unwrap_r bind unwrap]. f_equal.
      change SH_NDT_DEBUG_SEP with 84. change SH_UTC_DEBUG with (B"Z").
      repeat (rewrite <- app_assoc; cbn [app]). reflexivity.
    - unfold a. cbn [dz_off]. rewrite fixed_debug_text by assumption. unfold wok. cbn [to_text unwrap_r bind unwrap]. f_equal.
      rewrite off_shape by exact Hoff. change SH_NDT_DEBUG_SEP with 84.
      repeat (rewrite <- app_assoc; cbn [app]). reflexivity.
  Qed.
  Lemma edge_display utc : to_text (dtz_display utc [] a) =
    Val (dtxt ++ B" " ++ Judge.C09.time_text sl fu ++ B" " ++ (if utc then B"UTC" else Judge.C09.offset_text off)).
  Proof.
    pose proof edge_tvalid as Htv.
    unfold dtz_display. rewrite Hlocal. cbn [bind]. unfold ndt_display, date_display, time_display. cbn [nd_date nd_time].
    rewrite Hdate. unfold wseq, wok. cbn [bind]. unfold write_char. cbn [bind].
    rewrite (time_debug_text _ _ Htv). unfold wok. cbn [bind Time.tsecs Time.tfrac].
    rewrite time_shape by apply Htv.
    destruct utc.
    - unfold utc_display, wok. cbn [to_text unwrap_r bind unwrap]. f_equal.
      change SH_NDT_DISPLAY_SEP with 32. change SH_DT_DISPLAY_SEP with 32. change SH_UTC_DISPLAY with (B"UTC").
      repeat (rewrite <- app_assoc; cbn [app]). reflexivity.
    - unfold a. cbn [dz_off]. unfold fixed_display. rewrite fixed_debug_text by assumption. unfold wok.
      cbn [to_text unwrap_r bind unwrap]. f_equal.
      rewrite off_shape by exact Hoff. change SH_NDT_DISPLAY_SEP with 32. change SH_DT_DISPLAY_SEP with 32.
      repeat (rewrite <- app_assoc; cbn [app]). reflexivity.
  Qed.
End Edge.

(** the local reading at the two ends of the range *)
Lemma local_after_max yu ou du su fu off : repr yu ou du -> tvalid (Time.mk_time su fu) -> -86400 < off < 86400 ->
  (su + off) / 86400 = 1 -> dn_in_range (dn_of_yo yu ou + 1) = false ->
  overflowing_naive_local (mk_dtz (mk_ndt du (Time.mk_time su fu)) off) =
    Val (mk_ndt Date.D_AFTER_MAX (Time.mk_time ((su + off) mod 86400) fu)).
Proof.
  intros Hr Ht Ho Hk Hw. unfold overflowing_naive_local, ndt_overflowing_add_offset. cbn [dz_utc dz_off nd_date nd_time].
  rewrite C04.overflowing_add_offset_spec; [|exact Ht|exact Ho].
  cbn [bind Time.tsecs Time.tfrac]. unfold shift_date_overflowing. rewrite Hk. cbn [Z.eqb Pos.eqb].
  rewrite (succ_opt_spec yu ou du Hr), Hw. reflexivity.
Qed.
Lemma local_before_min yu ou du su fu off : repr yu ou du -> tvalid (Time.mk_time su fu) -> -86400 < off < 86400 ->
  (su + off) / 86400 = -1 -> dn_in_range (dn_of_yo yu ou - 1) = false ->
  overflowing_naive_local (mk_dtz (mk_ndt du (Time.mk_time su fu)) off) =
    Val (mk_ndt Date.D_BEFORE_MIN (Time.mk_time ((su + off) mod 86400) fu)).
Proof.
  intros Hr Ht Ho Hk Hw. unfold overflowing_naive_local, ndt_overflowing_add_offset. cbn [dz_utc dz_off nd_date nd_time].
  rewrite C04.overflowing_add_offset_spec; [|exact Ht|exact Ho].
  cbn [bind Time.tsecs Time.tfrac]. unfold shift_date_overflowing. rewrite Hk. cbn [Z.eqb].
  rewrite (pred_opt_spec yu ou du Hr), Hw. reflexivity.
Qed.

(** which values are the edge: the wall-clock day is outside the range exactly on the last day with
    the wall clock past midnight and on the first day with the wall clock before midnight *)
Lemma wall_out_cases yu ou du su off : repr yu ou du -> 0 <= su < 86400 -> -86400 < off < 86400 ->
  dn_in_range (dn_of_yo yu ou + (su + off) / 86400) = false ->
  (yu = 262142 /\ ou = 365 /\ 86400 <= su + off /\ (su + off) / 86400 = 1 /\ dn_of_yo yu ou = DN_MAX) \/
  (yu = -262143 /\ ou = 1 /\ su + off < 0 /\ (su + off) / 86400 = -1 /\ dn_of_yo yu ou = DN_MIN).
Proof.
  intros Hr Hs Ho Hw. pose proof (repr_dn_in_range yu ou du Hr) as Hin.
  pose proof Hr as (_ & Hvo & _). pose proof (yo_of_dn_of_yo yu ou Hvo) as Hyo.
  unfold dn_in_range, DN_MIN, DN_MAX in *.
  assert (Hk : (su + off) / 86400 = -1 \/ (su + off) / 86400 = 0 \/ (su + off) / 86400 = 1) by lia.
  destruct Hk as [Hk|[Hk|Hk]]; rewrite Hk in Hw.
  - right. assert (E : dn_of_yo yu ou = -95746129) by lia. rewrite E in Hyo.
    change (yo_of_dn (-95746129)) with (yo_of_dn DN_MIN) in Hyo. rewrite yo_min in Hyo. injection Hyo as <- <-.
    repeat split; lia.
  - exfalso. lia.
  - left. assert (E : dn_of_yo yu ou = 95745399) by lia. rewrite E in Hyo.
    change (yo_of_dn 95745399) with (yo_of_dn DN_MAX) in Hyo. rewrite yo_max in Hyo. injection Hyo as <- <-.
    repeat split; lia.
Qed.

(** * the printed form of every DateTime<FixedOffset> / DateTime<Utc> with a whole-minute offset:
    no condition on the wall-clock date *)
Theorem shape_dtz_full yu ou du su fu off utc : repr yu ou du -> time_dom (Time.mk_time su fu) ->
  -86400 < off < 86400 -> off mod 60 = 0 ->
  let a := mk_dtz (mk_ndt du (Time.mk_time su fu)) off in
  let '(ly, lo, ls) := Judge.C09.wall yu ou su off in
  to_text (dtz_debug utc [] a) =
    Val (Judge.C09.date_text ly lo ++ B"T" ++ Judge.C09.time_text ls fu ++ (if utc then B"Z" else Judge.C09.offset_text off)) /\
  to_text (dtz_display utc [] a) =
    Val (Judge.C09.date_text ly lo ++ B" " ++ Judge.C09.time_text ls fu ++ B" " ++ (if utc then B"UTC" else Judge.C09.offset_text off)).
Proof.
  intros Hr Ht Ho Hm.
  destruct (dn_in_range (dn_of_yo yu ou + (su + off) / 86400)) eqn:Hw; [exact (shape_dtz yu ou du su fu off utc Hr Ht Ho Hm Hw)|].
  pose proof Ht as [[Hs Hf] _]. cbn [Time.tsecs Time.tfrac] in Hs, Hf.
  cbv zeta. unfold Judge.C09.wall.
  replace ((dn_of_yo yu ou * 86400 + su + off) / 86400) with (dn_of_yo yu ou + (su + off) / 86400) by lia.
  replace ((dn_of_yo yu ou * 86400 + su + off) mod 86400) with ((su + off) mod 86400) by lia.
  destruct (wall_out_cases yu ou du su off Hr Hs Ho Hw) as [(_ & _ & _ & Hk & Hdn)|(_ & _ & _ & Hk & Hdn)]; rewrite Hk, Hdn in *.
  - rewrite yo_after_max, date_text_after_max.
    assert (Hl := local_after_max yu ou du su fu off Hr (conj Hs Hf) Ho Hk ltac:(rewrite Hdn; exact Hw)).
    split; [apply (edge_debug du su fu off _ _ Ht Ho Hm Hl date_debug_after_max)
           |apply (edge_display du su fu off _ _ Ht Ho Hm Hl date_debug_after_max)].
  - change (DN_MIN + -1) with (DN_MIN - 1) in *. rewrite yo_before_min, date_text_before_min.
    assert (Hl := local_before_min yu ou du su fu off Hr (conj Hs Hf) Ho Hk ltac:(rewrite Hdn; exact Hw)).
    split; [apply (edge_debug du su fu off _ _ Ht Ho Hm Hl date_debug_before_min)
           |apply (edge_display du su fu off _ _ Ht Ho Hm Hl date_debug_before_min)].
Qed.
