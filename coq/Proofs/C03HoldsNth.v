(** C03 — judge acceptance of the provided adaptors nth / nth_back (ops it.dnth, it.wnth): the
    judge of Judge/C03.v accepts the model's output for every valid start date, both directions,
    every jump [n : u64] the op is defined for (n <= 3000, or any n within ten years of the end
    the jump runs to: there fewer than 4000 items remain, so the model's loop reaches the end of the
    sequence before its fuel is used up), every [cap] in 0..5000. *)
From Coq Require Import String ZArith List Bool Lia ZifyBool.
From V Require Import Base.Int Base.IO Base.IntLemmas Spec.Gregorian Model.TimeDelta Model.DateTime Model.C03
  Proofs.C06 Proofs.C03 Proofs.C03Adapt Proofs.C03Holds.
From V Require Model.Date Model.Time Judge.C03 Proofs.C01Holds.
Import ListNotations.
Open Scope Z_scope.
Ltac Zify.zify_post_hook ::= Z.to_euclidean_division_equations.

(** a jump at least as long as the rest of the sequence, when the fuel outlasts the sequence *)
Lemma nth_past step delta : delta <> 0 -> step_ok step delta ->
  forall (fuel : nat) n v, vdate v -> avail delta (dn v) < Z.of_nat fuel -> avail delta (dn v) <= n ->
  exists v', it_nth step fuel n v = Val (None, v') /\ vdate v' /\ avail delta (dn v') = 0.
Proof.
  intros Hd Hs. induction fuel as [|f IH]; intros n v Hv Hf Hn.
  - pose proof (avail_nonneg delta Hd v Hv). lia.
  - cbn [it_nth]. destruct (step_cases step delta Hd Hs v Hv) as [[P [v' [E [V [D A]]]]]|[Z0 E]]; rewrite E; cbn [bind].
    + replace (n <=? 0) with false by lia. apply IH; [exact V|lia|lia].
    + exists v. split; [destruct (n <=? 0); reflexivity|]. split; assumption.
Qed.

Lemma adapt_nth_any step stride fwd : date_iter step stride fwd -> forall n start, vdate start -> 0 <= n ->
  n < 4000 \/ seq_avail stride fwd start < 4000 ->
  let a := seq_avail stride fwd start in
  (n < a -> exists x v', it_nth step 4000 n start = Val (Some x, v') /\ vdate x /\ dn x = seq_dn stride fwd start n /\
              vdate v' /\ dn v' = seq_dn stride fwd start (n + 1) /\ seq_avail stride fwd v' = a - n - 1) /\
  (a <= n -> exists v', it_nth step 4000 n start = Val (None, v') /\ vdate v' /\ seq_avail stride fwd v' = 0).
Proof.
  intros H n start Hs Hn Hor a.
  destruct (Z_lt_dec n 4000) as [L|L].
  - apply (adapt_nth step stride fwd H 4000 n start Hs). rewrite nat4000. lia.
  - assert (Ha : a < 4000) by (unfold a; lia). split; [lia|]. intros _.
    destruct (date_iter_ok _ _ _ H) as [Hd [Ho [Hav _]]].
    destruct (nth_past step _ Hd Ho 4000 n start Hs) as [v' [E [V A]]].
    + rewrite Hav, nat4000. exact Ha.
    + rewrite Hav. unfold a in Ha. lia.
    + exists v'. split; [exact E|]. split; [exact V|]. rewrite <- Hav. exact A.
Qed.

(** the observation [nth n; then the next item and the number of items left] against the judge *)
Lemma nth_accept step stride fwd x n cap : date_iter step stride fwd -> vdate x -> 0 <= n -> 0 <= cap ->
  n < 4000 \/ seq_avail stride fwd x < 4000 ->
  let avl := J.it_avail stride (dn x) fwd in
  let k := if n <? avl then n + 1 else avl in
  let r := J.it_remaining stride (dn x) k fwd in
  val_of_R (fun '(first, (item, cnt)) => VTup [vo_date first; vo_date item; val_of_option VInt cnt])
           (it_observe_nth step x n cap) =
    VTup [J.it_item stride (dn x) n fwd; J.it_item stride (dn x) k fwd;
          if r <=? cap then VSome (VInt r) else VNone].
Proof.
  intros H Hx Hn Hc Hor. cbv zeta. rewrite !avail_bridge. set (a := seq_avail stride fwd x).
  destruct (adapt_nth_any step stride fwd H n x Hx Hn Hor) as [N1 N2]. fold a in N1, N2.
  unfold it_observe_nth. destruct (n <? a) eqn:En.
  - destruct (N1 ltac:(lia)) as (it & v' & E & Vi & Di & Vv & Dv & Av). rewrite E. cbn [bind].
    destruct (adapt_observe step stride fwd H v' 0 cap Vv ltac:(lia) Hc) as (w & Vw & Dw & O).
    cbv zeta in O, Dw. rewrite O. cbn [bind val_of_R]. rewrite Av.
    unfold J.it_item, J.it_remaining. rewrite !avail_bridge. fold a. rewrite En.
    f_equal. f_equal; [|f_equal].
    + cbn [vo_date val_of_option]. symmetry. apply (item_bridge stride fwd x n it Vi Di).
    + replace (0 <? a - n - 1) with (n + 1 <? a) by lia.
      destruct (n + 1 <? a) eqn:E1; [|reflexivity]. cbn [vo_date val_of_option]. symmetry.
      apply (item_bridge stride fwd x (n + 1) w Vw). rewrite Dw by lia. unfold seq_dn. rewrite Z.mul_0_r.
      rewrite Dv. unfold seq_dn. destruct fwd; lia.
    + f_equal. replace (Z.max 0 (a - n - 1 - 0)) with (Z.max 0 (a - (n + 1))) by lia.
      destruct (Z.max 0 (a - (n + 1)) <=? cap); reflexivity.
  - destruct (N2 ltac:(lia)) as (v' & E & Vv & Av). rewrite E. cbn [bind].
    destruct (adapt_observe step stride fwd H v' 0 cap Vv ltac:(lia) Hc) as (w & Vw & Dw & O).
    cbv zeta in O, Dw. rewrite O. cbn [bind val_of_R]. rewrite Av.
    unfold J.it_item, J.it_remaining. rewrite !avail_bridge. fold a. rewrite En.
    replace (a <? a) with false by lia.
    change (0 <? 0) with false.
    replace (Z.max 0 (0 - 0)) with 0 by lia. replace (Z.max 0 (a - a)) with 0 by lia.
    replace (0 <=? cap) with true by lia. reflexivity.
Qed.

Lemma near_end_is d fwd : near_end d fwd = near_end_y (Date.d_year d) fwd.
Proof. reflexivity. Qed.

Lemma run_nth_accept (f b : Z -> R (option Z * Z)) stride y o n fwd cap :
  date_iter f stride true -> date_iter b stride false -> 1 <= stride ->
  year_in_range y = true -> valid_yo y o = true -> in_u64 n = true ->
  n <= 3000 \/ near_end_y y fwd = true -> 0 <= cap <= 5000 ->
  J.j_nth stride [vd y o; VInt n; VInt (dirv fwd); VInt cap]
    (run_nth f b [vd y o; VInt n; VInt (dirv fwd); VInt cap]) = JOk.
Proof.
  intros Hf Hb Hst Hy Ho Hn Hor Hc. destruct (dec_date_ok y o Hy Ho) as [x [Ex [Vx [Dx Yx]]]].
  destruct (small_ok cap Hc) as [C1 C2]. destruct (dir_ok fwd) as [D1 D2].
  assert (Hn0 : 0 <= n <= 18446744073709551615) by (unfold in_u64, in_range, u64_max in Hn; lia).
  unfold run_nth, J.j_nth. rewrite Ex, C1, C2, D1, D2, (dn_of_date_ok y o Hy Ho), <- Dx, Hn.
  replace ((0 <=? n) && (n <=? 18446744073709551615)) with true by lia.
  rewrite near_end_is, Yx.
  replace ((n <=? 3000) || near_end_y y fwd) with true by (destruct Hor as [L|L]; [lia|rewrite L; lia]).
  cbn [andb].
  assert (Hfuel : n < 4000 \/ seq_avail stride fwd x < 4000).
  { destruct Hor as [L|L]; [left; lia|right; apply near_end_avail; [exact Vx|exact Hst|rewrite Yx; exact L]]. }
  rewrite (nth_accept _ stride fwd x n cap (date_iter_pick f b stride fwd Hf Hb) Vx ltac:(lia) ltac:(lia) Hfuel).
  apply Proofs.C01Holds.judge_eq_refl.
Qed.

Theorem holds_nth y o n fwd cap :
  year_in_range y = true -> valid_yo y o = true -> in_u64 n = true ->
  n <= 3000 \/ near_end_y y fwd = true -> 0 <= cap <= 5000 ->
  let args := [vd y o; VInt n; VInt (dirv fwd); VInt cap] in
  J.judge B"it.dnth" args (run B"it.dnth" args) = JOk /\
  J.judge B"it.wnth" args (run B"it.wnth" args) = JOk.
Proof.
  intros Hy Ho Hn Hor Hc args. split.
  - exact (run_nth_accept days_next days_next_back 1 y o n fwd cap DI_days_forward DI_days_backward ltac:(lia) Hy Ho Hn Hor Hc).
  - exact (run_nth_accept weeks_next weeks_next_back 7 y o n fwd cap DI_weeks_forward DI_weeks_backward ltac:(lia) Hy Ho Hn Hor Hc).
Qed.

Lemma nth_examples :
  year_in_range 262142 = true /\ valid_yo 262142 100 = true /\ in_u64 18446744073709551615 = true /\
  near_end_y 262142 true = true /\
  run B"it.dnth" [vd 262142 100; VInt 18446744073709551615; VInt 0; VInt 10] = VTup [VNone; VNone; VSome (VInt 0)] /\
  run B"it.wnth" [vd 2024 60; VInt 2; VInt 1; VInt 0] = VTup [VSome (vd 2024 46); VSome (vd 2024 39); VNone].
Proof. vm_compute. repeat split; reflexivity. Qed.
