(** C15 -- the text entry points at full strength: for EVERY format string and EVERY input (well-formed UTF-8 of
    a length a Rust string can have) `parse_from_str` / `parse_and_remainder` of NaiveDate, NaiveTime,
    NaiveDateTime and DateTime<FixedOffset>, format::parse / parse_and_remainder over EVERY item list, the six
    FromStr impls built on the item reader, DateTime::parse_from_rfc2822, Parsed::to_datetime /
    to_datetime_with_timezone return -- a value of the type or a ParseError -- and a returned value is valid.

    Assembly of: the strict format-string iterator never traps and ends (Proofs/C15Strftime.v, C12's termination),
    yields well-formed items (Proofs/C15SfItems.v); the lazily driven loop is the loop over the yielded list
    (C13_parse_sf_loop_is_parse_items); the reader is slice-safe on every item list (C13_parse_internal_safe,
    which contains C11's RFC 2822 reader) and keeps the field state typed (Proofs/C15Parse.v); every resolution
    method returns by value on a typed state (C14_to_naive_date_never_panics, C14_to_naive_time_spec,
    C14_to_naive_datetime_never_panics_wellformed, C14_to_datetime_never_panics,
    C14_to_datetime_with_timezone_never_panics). *)
From Coq Require Import ZArith List Bool Lia ZifyBool String.
From V Require Import Base.Int Base.IO.
From V Require Base.Utf8 Model.Scan Model.Items Model.Parse Model.Parsed Model.Strftime Gen.Strftime Model.FromStr Gen.TextForms
               Model.Rfc2822 Model.DateTime Model.Time Model.C15.
From V Require Proofs.C13Safe Proofs.C13Total Proofs.C13Time Proofs.C11Total Proofs.C14 Proofs.C14Zoned Proofs.C04 Proofs.Time.
From V Require Props.C13 Props.C14 Props.C11.
From V Require Import Proofs.C15 Proofs.C15Owners Proofs.C15Parse Proofs.C15SfItems Proofs.C15Utf8.
Import ListNotations.
Open Scope Z_scope.
Ltac Zify.zify_post_hook ::= Z.to_euclidean_division_equations.

Notation wfs := Proofs.C13Safe.wf.
Notation safe := Proofs.C13Safe.safe.
Notation POk := Model.Scan.POk.
Notation PErr := Model.Scan.PErr.

(** [safe r good] in the vocabulary of this property *)
Lemma safe_returns {A} (r : Model.Scan.PR A) (good : A -> Prop) : safe r good ->
  returns r /\ forall a, r = Val (POk a) -> good a.
Proof.
  destruct r as [[a|e]| |]; cbn [Proofs.C13Safe.safe]; intros H; try contradiction.
  - split; [split; discriminate|]. intros b [= <-]. exact H.
  - split; [split; discriminate|]. intros b E. discriminate.
Qed.
Lemma safe_pbind {X Y} (x : Model.Scan.PR X) (f : X -> Model.Scan.PR Y) gx gy :
  safe x gx -> (forall a, gx a -> safe (f a) gy) -> safe (Model.Scan.pbind x f) gy.
Proof. exact (Proofs.C13Safe.safe_pbind x f gx gy). Qed.
Lemma safe_and {A} (r : Model.Scan.PR A) (g1 g2 : A -> Prop) :
  safe r g1 -> (forall a, r = Val (POk a) -> g2 a) -> safe r (fun a => g1 a /\ g2 a).
Proof. destruct r as [[a|e]| |]; cbn; auto. Qed.

(** * format::parse / parse_and_remainder over EVERY item list (supersedes parse_items_total of C15Owners.v, which
      excludes the RFC 2822 item): never a trap; an accepted input leaves a typed field state and a well-formed
      remainder *)
Lemma parse_internal_ok items p s : Proofs.C14.typed p -> forallb Proofs.C13Total.item_wf items = true ->
  Base.Utf8.utf8_valid s = true -> Base.Utf8.blen s <= u64_max ->
  safe (Model.Parse.parse_internal p s items) (fun x => wfs (snd x) /\ Proofs.C14.typed (fst x)).
Proof.
  intros T Hi Hs Hl. apply safe_and.
  - exact (Proofs.C13Total.parse_internal_safe_all items p s Hi Hs Hl).
  - intros [q r] E. exact (parse_internal_typed items p s q r T E).
Qed.
Lemma parse_ok items p s : Proofs.C14.typed p -> forallb Proofs.C13Total.item_wf items = true ->
  Base.Utf8.utf8_valid s = true -> Base.Utf8.blen s <= u64_max ->
  safe (Model.Parse.parse p s items) Proofs.C14.typed.
Proof.
  intros T Hi Hs Hl. unfold Model.Parse.parse, Model.Parse.parse_end.
  eapply safe_pbind; [exact (parse_internal_ok items p s T Hi Hs Hl)|].
  intros [q r] [_ Tq]. destruct (Base.Utf8.is_empty r); [exact Tq|exact I].
Qed.
Lemma parse_items_full items p s : Proofs.C14.typed p -> forallb Proofs.C13Total.item_wf items = true ->
  Base.Utf8.utf8_valid s = true -> Base.Utf8.blen s <= u64_max ->
  (returns (Model.Parse.parse p s items) /\ forall q, Model.Parse.parse p s items = Val (POk q) -> Proofs.C14.typed q) /\
  (returns (Model.Parse.parse_and_remainder p s items) /\
   forall q r, Model.Parse.parse_and_remainder p s items = Val (POk (q, r)) -> Proofs.C14.typed q /\ Base.Utf8.utf8_valid r = true).
Proof.
  intros T Hi Hs Hl. split.
  - exact (safe_returns _ _ (parse_ok items p s T Hi Hs Hl)).
  - destruct (safe_returns _ _ (parse_internal_ok items p s T Hi Hs Hl)) as [R V]. split; [exact R|].
    intros q r E. destruct (V _ E) as [W Tq]. split; [exact Tq|exact W].
Qed.

(** * the resolution methods on a typed field state, as [PR] computations *)
Lemma pr_of_val {A} (x : R (Model.Parsed.res A)) r : x = Val r -> Model.Parse.pr_of x = Val (Model.Parse.pres_of r).
Proof. intros ->. reflexivity. Qed.
Lemma resolve_safe {A} (x : R (Model.Parsed.res A)) (good : A -> Prop) :
  (exists r, x = Val r /\ forall a, r = Model.Parsed.Ok a -> good a) -> safe (Model.Parse.pr_of x) good.
Proof.
  intros (r & E & H). rewrite (pr_of_val x r E). destruct r as [a|e]; cbn [Model.Parse.pres_of Proofs.C13Safe.safe]; [exact (H a eq_refl)|exact I].
Qed.
Lemma typed_u32v p f : Proofs.C14.typed p -> (forall v, Proofs.C14.ftype f v -> 0 <= v <= u32_max) -> Proofs.C14.u32v (Model.Parsed.pget f p).
Proof. intros T Hf. unfold Proofs.C14.u32v. destruct (Model.Parsed.pget f p) as [v|] eqn:E; [|exact I]. exact (Hf v (T f v E)). Qed.

Lemma to_naive_date_safe p : Proofs.C14.typed p -> safe (Model.Parse.pr_of (Model.Parsed.to_naive_date p)) date_valid.
Proof. intros T. apply resolve_safe. exact (Props.C14.C14_to_naive_date_never_panics p T). Qed.
Lemma to_naive_time_safe p : Proofs.C14.typed p -> safe (Model.Parse.pr_of (Model.Parsed.to_naive_time p)) time_valid.
Proof.
  intros T. apply resolve_safe.
  destruct (Props.C14.C14_to_naive_time_spec p
              (typed_u32v p Model.Parsed.F_hour_div_12 T (fun v H => H)) (typed_u32v p Model.Parsed.F_hour_mod_12 T (fun v H => H))
              (typed_u32v p Model.Parsed.F_minute T (fun v H => H)) (typed_u32v p Model.Parsed.F_second T (fun v H => H))
              (typed_u32v p Model.Parsed.F_nanosecond T (fun v H => H))) as (r & E & H).
  exists r. split; [exact E|]. intros t ->. destruct H as (hd & hm & mi & F & ->).
  destruct F as (_ & _ & _ & H1 & H2 & H3 & H4 & H5 & _). unfold time_valid, Proofs.Time.tvalid, Proofs.C14.time_of_fields.
  cbn [Model.Time.tsecs Model.Time.tfrac].
  destruct (Model.Parsed.unwrap_or (Model.Parsed.p_second p) 0 =? 60) eqn:E60; lia.
Qed.
Lemma to_naive_datetime_safe p off : Proofs.C14.typed p -> in_i32 off = true ->
  safe (Model.Parse.pr_of (Model.Parsed.to_naive_datetime_with_offset p off)) Proofs.C04.ndt_ok.
Proof. intros T Ho. apply resolve_safe. exact (Props.C14.C14_to_naive_datetime_never_panics_wellformed p off T Ho). Qed.
Lemma to_datetime_safe p : Proofs.C14.typed p -> safe (Model.Parse.pr_of (Model.Parsed.to_datetime p)) Proofs.C04.dtz_ok.
Proof. intros T. apply resolve_safe. exact (Props.C14.C14_to_datetime_never_panics p T). Qed.

(** Parsed::to_datetime / to_datetime_with_timezone (FixedOffset or Utc zone): every typed field state *)
Lemma to_datetime_total p : Proofs.C14.typed p ->
  returns (Model.Parsed.to_datetime p) /\ forall z, Model.Parsed.to_datetime p = Val (Model.Parsed.Ok z) -> Proofs.C04.dtz_ok z.
Proof.
  intros T. destruct (Props.C14.C14_to_datetime_never_panics p T) as (r & E & H). split; [exact (returns_val _ _ E)|].
  intros z Ez. rewrite E in Ez. injection Ez as ->. exact (H z eq_refl).
Qed.
Lemma to_datetime_with_timezone_total p tz : Proofs.C14.typed p -> Proofs.C04.off_ok tz ->
  returns (Model.Parsed.to_datetime_with_timezone p tz) /\
  forall z, Model.Parsed.to_datetime_with_timezone p tz = Val (Model.Parsed.Ok z) -> Proofs.C04.dtz_ok z /\ Model.DateTime.dz_off z = tz.
Proof.
  intros T Ho. destruct (Props.C14.C14_to_datetime_with_timezone_never_panics p tz T Ho) as (r & E & H). split; [exact (returns_val _ _ E)|].
  intros z Ez. rewrite E in Ez. injection Ez as ->. exact (H z eq_refl).
Qed.
(** the 21 getters are plain projections in the model (no trapping step): on every state the setters and the readers can
    produce, a returned value is a value of the getter's Rust type (i32 / u32 / i64; Weekday as 0..6) *)
Lemma parsed_getters_valid p f : Proofs.C14.typed p ->
  match Model.Parsed.pget f p with Some v => Proofs.C14.ftype f v | None => True end.
Proof. intros T. destruct (Model.Parsed.pget f p) as [v|] eqn:E; [exact (T f v E)|exact I]. Qed.

(** * the lazily driven reader of the entry points: [StrftimeItems::new(fmt)] consumed item by item *)
Definition str_ok (s : bytes) : Prop := Base.Utf8.utf8_valid s = true /\ Base.Utf8.blen s <= u64_max.
Lemma sf_items_of fmt : str_ok fmt -> Gen.Strftime.SF_ERROR_CONSUMES = true ->
  exists items, Proofs.C13Time.yields (Model.Strftime.sf_new fmt) items /\ (List.length items < S (Model.Strftime.sf_bound fmt))%nat /\
                forallb Proofs.C13Total.item_wf items = true.
Proof.
  intros [Hv Hl] Hc. rewrite <- utf8_valid_eq in Hv.
  destruct (strftime_items_total fmt false Hv Hl (or_introl Hc)) as (l & E & Hb).
  unfold Model.C15.sf_items in E. destruct (Proofs.C13Time.sf_take_yields _ _ [] l E) as (l' & El & Hy). cbn [rev app] in El. subst l'.
  exists l. split; [exact Hy|]. split; [unfold Model.Strftime.sf_bound; lia|].
  exact (yields_wf l _ (st_ok_new fmt Hv Hl) Hy).
Qed.
Lemma parse_internal_sf_ok s fmt : str_ok s -> str_ok fmt -> Gen.Strftime.SF_ERROR_CONSUMES = true ->
  safe (Model.Parse.parse_internal_sf Model.Parsed.parsed_new s fmt) (fun x => wfs (snd x) /\ Proofs.C14.typed (fst x)).
Proof.
  intros [Hs Hl] Hf Hc. destruct (sf_items_of fmt Hf Hc) as (items & Hy & Hlen & Hwf).
  unfold Model.Parse.parse_internal_sf. rewrite (Proofs.C13Time.parse_sf_loop_items items _ _ _ _ Hy Hlen).
  exact (parse_internal_ok items _ s Proofs.C14.typed_new Hwf Hs Hl).
Qed.
Lemma parse_sf_ok s fmt : str_ok s -> str_ok fmt -> Gen.Strftime.SF_ERROR_CONSUMES = true ->
  safe (Model.Parse.parse_sf s fmt) Proofs.C14.typed.
Proof.
  intros Hs Hf Hc. unfold Model.Parse.parse_sf, Model.Parse.parse_end.
  eapply safe_pbind; [exact (parse_internal_sf_ok s fmt Hs Hf Hc)|].
  intros [q r] [_ Tq]. destruct (Base.Utf8.is_empty r); [exact Tq|exact I].
Qed.

(** * T::parse_from_str(s, fmt) for the four types: EVERY format string, EVERY input *)
Lemma date_parse_from_str_total s fmt : str_ok s -> str_ok fmt -> Gen.Strftime.SF_ERROR_CONSUMES = true ->
  returns (Model.Parse.date_parse_from_str s fmt) /\ forall d, Model.Parse.date_parse_from_str s fmt = Val (POk d) -> date_valid d.
Proof.
  intros Hs Hf Hc. apply safe_returns. unfold Model.Parse.date_parse_from_str.
  eapply safe_pbind; [exact (parse_sf_ok s fmt Hs Hf Hc)|]. exact to_naive_date_safe.
Qed.
Lemma time_parse_from_str_total s fmt : str_ok s -> str_ok fmt -> Gen.Strftime.SF_ERROR_CONSUMES = true ->
  returns (Model.Parse.time_parse_from_str s fmt) /\ forall t, Model.Parse.time_parse_from_str s fmt = Val (POk t) -> time_valid t.
Proof.
  intros Hs Hf Hc. apply safe_returns. unfold Model.Parse.time_parse_from_str.
  eapply safe_pbind; [exact (parse_sf_ok s fmt Hs Hf Hc)|]. exact to_naive_time_safe.
Qed.
Lemma ndt_parse_from_str_total s fmt : str_ok s -> str_ok fmt -> Gen.Strftime.SF_ERROR_CONSUMES = true ->
  returns (Model.Parse.ndt_parse_from_str s fmt) /\ forall a, Model.Parse.ndt_parse_from_str s fmt = Val (POk a) -> Proofs.C04.ndt_ok a.
Proof.
  intros Hs Hf Hc. apply safe_returns. unfold Model.Parse.ndt_parse_from_str.
  eapply safe_pbind; [exact (parse_sf_ok s fmt Hs Hf Hc)|]. intros p T. exact (to_naive_datetime_safe p 0 T eq_refl).
Qed.
Lemma dt_parse_from_str_total s fmt : str_ok s -> str_ok fmt -> Gen.Strftime.SF_ERROR_CONSUMES = true ->
  returns (Model.Parse.dt_parse_from_str s fmt) /\ forall z, Model.Parse.dt_parse_from_str s fmt = Val (POk z) -> Proofs.C04.dtz_ok z.
Proof.
  intros Hs Hf Hc. apply safe_returns. unfold Model.Parse.dt_parse_from_str.
  eapply safe_pbind; [exact (parse_sf_ok s fmt Hs Hf Hc)|]. exact to_datetime_safe.
Qed.

(** * T::parse_and_remainder(s, fmt): the value is valid and the remainder is a string again *)
Lemma and_remainder_safe {A} (x : Model.Scan.PR (Model.Parsed.parsed * bytes)) (res : Model.Parsed.parsed -> Model.Scan.PR A) (good : A -> Prop) :
  safe x (fun x => wfs (snd x) /\ Proofs.C14.typed (fst x)) -> (forall p, Proofs.C14.typed p -> safe (res p) good) ->
  safe (Model.Scan.pbind x (fun pr => let '(p, r) := pr in Model.Scan.pbind (res p) (fun d => Model.Scan.pok (d, r))))
       (fun y => good (fst y) /\ Base.Utf8.utf8_valid (snd y) = true).
Proof.
  intros Hx Hr. eapply safe_pbind; [exact Hx|]. intros [p r] [W T]. cbn [fst snd] in W, T.
  eapply safe_pbind; [exact (Hr p T)|]. intros d Hd. split; [exact Hd|exact W].
Qed.
Lemma date_parse_and_remainder_total s fmt : str_ok s -> str_ok fmt -> Gen.Strftime.SF_ERROR_CONSUMES = true ->
  returns (Model.Parse.date_parse_and_remainder s fmt) /\
  forall d r, Model.Parse.date_parse_and_remainder s fmt = Val (POk (d, r)) -> date_valid d /\ Base.Utf8.utf8_valid r = true.
Proof.
  intros Hs Hf Hc. destruct (safe_returns _ _ (and_remainder_safe _ _ _ (parse_internal_sf_ok s fmt Hs Hf Hc) to_naive_date_safe)) as [R V].
  split; [exact R|]. intros d r E. exact (V (d, r) E).
Qed.
Lemma time_parse_and_remainder_total s fmt : str_ok s -> str_ok fmt -> Gen.Strftime.SF_ERROR_CONSUMES = true ->
  returns (Model.Parse.time_parse_and_remainder s fmt) /\
  forall t r, Model.Parse.time_parse_and_remainder s fmt = Val (POk (t, r)) -> time_valid t /\ Base.Utf8.utf8_valid r = true.
Proof.
  intros Hs Hf Hc. destruct (safe_returns _ _ (and_remainder_safe _ _ _ (parse_internal_sf_ok s fmt Hs Hf Hc) to_naive_time_safe)) as [R V].
  split; [exact R|]. intros d r E. exact (V (d, r) E).
Qed.
Lemma ndt_parse_and_remainder_total s fmt : str_ok s -> str_ok fmt -> Gen.Strftime.SF_ERROR_CONSUMES = true ->
  returns (Model.Parse.ndt_parse_and_remainder s fmt) /\
  forall a r, Model.Parse.ndt_parse_and_remainder s fmt = Val (POk (a, r)) -> Proofs.C04.ndt_ok a /\ Base.Utf8.utf8_valid r = true.
Proof.
  intros Hs Hf Hc.
  destruct (safe_returns _ _ (and_remainder_safe _ _ _ (parse_internal_sf_ok s fmt Hs Hf Hc) (fun p T => to_naive_datetime_safe p 0 T eq_refl))) as [R V].
  split; [exact R|]. intros d r E. exact (V (d, r) E).
Qed.
Lemma dt_parse_and_remainder_total s fmt : str_ok s -> str_ok fmt -> Gen.Strftime.SF_ERROR_CONSUMES = true ->
  returns (Model.Parse.dt_parse_and_remainder s fmt) /\
  forall z r, Model.Parse.dt_parse_and_remainder s fmt = Val (POk (z, r)) -> Proofs.C04.dtz_ok z /\ Base.Utf8.utf8_valid r = true.
Proof.
  intros Hs Hf Hc. destruct (safe_returns _ _ (and_remainder_safe _ _ _ (parse_internal_sf_ok s fmt Hs Hf Hc) to_datetime_safe)) as [R V].
  split; [exact R|]. intros d r E. exact (V (d, r) E).
Qed.

(** * the FromStr impls built on the item reader (fixed item lists of Gen/TextForms.v): EVERY input *)
Lemma fs_lists_wf :
  forallb Proofs.C13Total.item_wf Gen.TextForms.FS_NAIVE_DATE_ITEMS = true /\ forallb Proofs.C13Total.item_wf Gen.TextForms.FS_HOUR_AND_MINUTE = true /\
  forallb Proofs.C13Total.item_wf Gen.TextForms.FS_SECOND_AND_NANOS = true /\ forallb Proofs.C13Total.item_wf Gen.TextForms.FS_TRAILING_WHITESPACE = true /\
  forallb Proofs.C13Total.item_wf Gen.TextForms.FS_NAIVE_DATETIME_ITEMS = true /\ in_i32 Gen.TextForms.FS_NAIVE_DATETIME_OFFSET = true.
Proof. repeat split; reflexivity. Qed.
Lemma naive_date_from_str_total s : str_ok s ->
  returns (Model.FromStr.naive_date_from_str s) /\ forall d, Model.FromStr.naive_date_from_str s = Val (POk d) -> date_valid d.
Proof.
  intros [Hs Hl]. apply safe_returns. unfold Model.FromStr.naive_date_from_str.
  eapply safe_pbind; [exact (parse_ok _ _ s Proofs.C14.typed_new (proj1 fs_lists_wf) Hs Hl)|]. exact to_naive_date_safe.
Qed.
Lemma naive_datetime_from_str_total s : str_ok s ->
  returns (Model.FromStr.naive_datetime_from_str s) /\ forall a, Model.FromStr.naive_datetime_from_str s = Val (POk a) -> Proofs.C04.ndt_ok a.
Proof.
  intros [Hs Hl]. apply safe_returns. unfold Model.FromStr.naive_datetime_from_str.
  eapply safe_pbind; [exact (parse_ok _ _ s Proofs.C14.typed_new (proj1 (proj2 (proj2 (proj2 (proj2 fs_lists_wf))))) Hs Hl)|].
  intros p T. exact (to_naive_datetime_safe p _ T (proj2 (proj2 (proj2 (proj2 (proj2 fs_lists_wf)))))).
Qed.
(* a remainder handed on by the reader is not longer than its input *)
Lemma remainder_len items p s q r : forallb Proofs.C13Total.item_wf items = true -> Base.Utf8.utf8_valid s = true -> Base.Utf8.blen s <= u64_max ->
  Model.Parse.parse_internal p s items = Val (POk (q, r)) -> Base.Utf8.blen r <= Base.Utf8.blen s.
Proof.
  intros Hi Hs Hl E. pose proof (Proofs.C13Total.parse_items_safe_all items p s Hi Hs Hl) as H.
  unfold Model.Parse.parse_internal in E. rewrite E in H. cbn [Proofs.C13Safe.safe Proofs.C13Total.GL snd] in H. exact (proj2 H).
Qed.
Lemma naive_time_from_str_total s : str_ok s ->
  returns (Model.FromStr.naive_time_from_str s) /\ forall t, Model.FromStr.naive_time_from_str s = Val (POk t) -> time_valid t.
Proof.
  intros [Hs Hl]. apply safe_returns. unfold Model.FromStr.naive_time_from_str, Model.Parse.parse_and_remainder.
  destruct fs_lists_wf as (_ & W1 & W2 & W3 & _).
  pose proof (parse_internal_ok _ _ s Proofs.C14.typed_new W1 Hs Hl) as H1.
  destruct (Model.Parse.parse_internal Model.Parsed.parsed_new s Gen.TextForms.FS_HOUR_AND_MINUTE) as [[[p1 s1]|e]| |] eqn:E1;
    cbn [Proofs.C13Safe.safe] in H1; try contradiction; cbn [Model.Scan.pbind bind]; [|exact I].
  destruct H1 as [Hs1 T1]. cbn [fst snd] in Hs1, T1.
  assert (Hl1 : Base.Utf8.blen s1 <= u64_max) by (pose proof (remainder_len _ _ _ _ _ W1 Hs Hl E1); lia).
  pose proof (parse_internal_ok _ p1 s1 T1 W2 Hs1 Hl1) as H2.
  destruct (Model.Parse.parse_internal p1 s1 Gen.TextForms.FS_SECOND_AND_NANOS) as [[[p2 s2]|e]| |] eqn:E2;
    cbn [Proofs.C13Safe.safe] in H2; try contradiction; cbn [bind].
  - destruct H2 as [Hs2 T2]. cbn [fst snd] in Hs2, T2.
    assert (Hl2 : Base.Utf8.blen s2 <= u64_max) by (pose proof (remainder_len _ _ _ _ _ W2 Hs1 Hl1 E2); lia).
    eapply safe_pbind; [exact (parse_ok _ p2 s2 T2 W3 Hs2 Hl2)|]. exact to_naive_time_safe.
  - eapply safe_pbind; [exact (parse_ok _ p1 s1 T1 W3 Hs1 Hl1)|]. exact to_naive_time_safe.
Qed.

(* DateTime<FixedOffset> / DateTime<Utc>: the relaxed RFC 3339 reader, trailing white space, to_datetime *)
Lemma datetime_from_str_safe s : str_ok s -> safe (Model.Parse.datetime_from_str s) Proofs.C04.dtz_ok.
Proof.
  intros [Hs Hl]. unfold Model.Parse.datetime_from_str.
  eapply (safe_pbind _ _ (fun x => Proofs.C14.typed (fst x))).
  - pose proof (Proofs.C13Safe.parse_rfc3339_relaxed_safe Model.Parsed.parsed_new s Hs) as H.
    destruct (Model.Parse.parse_rfc3339_relaxed Model.Parsed.parsed_new s) as [[[p r]|e]| |] eqn:E; cbn [Proofs.C13Safe.safe] in H |- *; try contradiction; [|exact I].
    exact (parse_rfc3339_relaxed_typed _ _ _ _ Proofs.C14.typed_new E).
  - intros [p r] T. cbn [fst] in T. destruct (negb (Base.Utf8.is_empty (Base.Utf8.trim_start r))); [exact I|]. exact (to_datetime_safe p T).
Qed.
Lemma datetime_fixed_from_str_total s : str_ok s ->
  returns (Model.FromStr.datetime_fixed_from_str s) /\ forall z, Model.FromStr.datetime_fixed_from_str s = Val (POk z) -> Proofs.C04.dtz_ok z.
Proof. intros H. exact (safe_returns _ _ (datetime_from_str_safe s H)). Qed.
Lemma datetime_utc_from_str_total s : str_ok s ->
  returns (Model.FromStr.datetime_utc_from_str s) /\
  forall z, Model.FromStr.datetime_utc_from_str s = Val (POk z) -> Proofs.C04.dtz_ok z /\ Model.DateTime.dz_off z = 0.
Proof.
  intros H. apply safe_returns. unfold Model.FromStr.datetime_utc_from_str.
  eapply safe_pbind; [exact (datetime_from_str_safe s H)|]. intros z [Hu _].
  split; [split; [exact Hu|unfold Proofs.C04.off_ok; cbn; lia]|reflexivity].
Qed.
(* FixedOffset: the offset scanner, then east_opt (a plain function) *)
Lemma fixed_offset_from_str_total s : str_ok s ->
  returns (Model.FromStr.fixed_offset_from_str s) /\ forall off, Model.FromStr.fixed_offset_from_str s = Val (POk off) -> Proofs.C04.off_ok off.
Proof.
  intros [Hs Hl]. apply safe_returns. unfold Model.FromStr.fixed_offset_from_str.
  eapply safe_pbind; [exact (Proofs.C13Safe.timezone_offset_safe s Model.Scan.colon_or_space false false true Proofs.C13Safe.colon_or_space_safe Hs)|].
  intros [r off] _. destruct (Model.DateTime.east_opt off) as [o|] eqn:E; [|exact I].
  apply Proofs.C04.east_opt_some_iff in E. destruct E as [-> E]. exact E.
Qed.

(** * DateTime::parse_from_rfc2822: EVERY input; a returned value is well formed *)
Lemma parse_from_rfc2822_total s : str_ok s ->
  returns (Model.Rfc2822.parse_from_rfc2822 s) /\ forall z, Model.Rfc2822.parse_from_rfc2822 s = Val (POk z) -> Proofs.C04.dtz_ok z.
Proof.
  intros [Hs Hl]. apply safe_returns. unfold Model.Rfc2822.parse_from_rfc2822.
  eapply safe_pbind; [exact (Proofs.C11Total.parse_items_rfc2822_safe Model.Parsed.parsed_new s Proofs.C14.typed_new Hs Hl)|].
  intros p T. destruct (Props.C14.C14_to_datetime_never_panics p T) as (r & E & H). rewrite E. cbn [bind].
  destruct r as [z|e]; cbn; [exact (H z eq_refl)|exact I].
Qed.

(** * MappedLocalTime::single / earliest / latest and TimeZone::offset_from_local_* of FixedOffset / Utc: plain
      functions in the model (no trapping step); what they return *)
Lemma mlt_selectors A (m : Model.DateTime.mlt A) :
  (forall x, Model.DateTime.mlt_single m = Some x <-> m = Model.DateTime.MSingle x) /\
  (Model.DateTime.mlt_earliest m = None <-> m = Model.DateTime.MNone) /\
  (Model.DateTime.mlt_latest m = None <-> m = Model.DateTime.MNone) /\
  (forall x, Model.DateTime.mlt_single m = Some x -> Model.DateTime.mlt_earliest m = Some x /\ Model.DateTime.mlt_latest m = Some x) /\
  (forall x y, m = Model.DateTime.MAmbiguous x y -> Model.DateTime.mlt_earliest m = Some x /\ Model.DateTime.mlt_latest m = Some y).
Proof.
  destruct m as [|a|a b]; cbn; repeat split; intros; try discriminate; try congruence.
Qed.
Lemma offset_from_local_total off :
  Model.C15.offset_from_local off = VTup [VTup [VInt off]; VTup [VInt off]].
Proof. reflexivity. Qed.

(** * the hypotheses are inhabited *)
Definition ex_fmt : bytes := bytes_of_string "%a, %d %b %Y %T %z é"%string.
Definition ex_text : bytes := bytes_of_string "Tue, 01 Jul 2003 10:52:37 +0200 é"%string.
Lemma deep_hypotheses_inhabited :
  str_ok ex_fmt /\ str_ok ex_text /\ Gen.Strftime.SF_ERROR_CONSUMES = true /\
  (exists z, Model.Parse.dt_parse_from_str ex_text ex_fmt = Val (POk z)) /\
  Model.Parse.date_parse_from_str ex_text (bytes_of_string "%Q"%string) = Val (PErr Model.Scan.BadFormat) /\
  Model.Parse.date_parse_from_str ex_text ex_fmt = Val (POk (Proofs.C08Sweeps.mkdate 2003 182)) /\
  Model.FromStr.naive_time_from_str (bytes_of_string "23:59:60.5"%string) = Val (POk (Model.Time.mk_time 86399 1500000000)).
Proof.
  split; [split; [vm_compute; reflexivity|vm_compute; discriminate]|].
  split; [split; [vm_compute; reflexivity|vm_compute; discriminate]|].
  split; [reflexivity|]. split; [eexists; vm_compute; reflexivity|]. repeat split; vm_compute; reflexivity.
Qed.
