(** C20 -- the theorem over ALL ops: for every op name and every argument list, outside the three
    recorded findings ([finding_free]), whenever the judge (Judge/C20.v, the executable statement of
    the property applied to the implementation's outputs) does not skip the case, it accepts the
    model's output. *)
From Coq Require Import ZArith List Bool Lia ZifyBool String.
From V Require Import Base.Int Base.IO Model.Serde Model.C20 Proofs.HoldsLib.
From V Require Judge.C20 Proofs.C20Holds Proofs.C20HoldsTs Proofs.C20HoldsRt.
Import ListNotations.
Open Scope Z_scope.
Module J := Judge.C20.
Definition finding_free := C20HoldsRt.finding_free.
Definition clean_rt := C20HoldsRt.clean_rt.

Ltac skip_case := let H := fresh in intros H; exfalso; apply H; reflexivity.
Lemma args_iiv (X : Z -> Z -> val -> verdict) args :
  match args with [VInt a; VInt b; v] => X a b v | _ => JSkip end <> JSkip -> exists a b v, args = [VInt a; VInt b; v].
Proof.
  destruct args as [|[a| | | | | | | |] l]; try skip_case.
  destruct l as [|[b| | | | | | | |] l]; try skip_case.
  destruct l as [|v l]; try skip_case. destruct l; [|skip_case]. intros _. exists a, b, v. reflexivity.
Qed.
Lemma args_iii (X : Z -> Z -> Z -> verdict) args :
  match args with [VInt a; VInt b; VInt c] => X a b c | _ => JSkip end <> JSkip -> exists a b c, args = [VInt a; VInt b; VInt c].
Proof.
  destruct args as [|[a| | | | | | | |] l]; try skip_case.
  destruct l as [|[b| | | | | | | |] l]; try skip_case.
  destruct l as [|[c| | | | | | | |] l]; try skip_case. destruct l; [|skip_case]. intros _. exists a, b, c. reflexivity.
Qed.
Lemma args_iiii (X : Z -> Z -> Z -> Z -> verdict) args :
  match args with [VInt a; VInt b; VInt c; VInt d] => X a b c d | _ => JSkip end <> JSkip ->
  exists a b c d, args = [VInt a; VInt b; VInt c; VInt d].
Proof.
  destruct args as [|[a| | | | | | | |] l]; try skip_case.
  destruct l as [|[b| | | | | | | |] l]; try skip_case.
  destruct l as [|[c| | | | | | | |] l]; try skip_case.
  destruct l as [|[d| | | | | | | |] l]; try skip_case. destruct l; [|skip_case]. intros _. exists a, b, c, d. reflexivity.
Qed.

Lemma judge_rt_args args out : J.judge B"sd.rt" args out =
  if J.is_badargs out then JSkip else
  match args with [VInt fmt; VInt ty; v] => if (fmt =? 0) || (fmt =? 1) then J.j_rt ty v out else JSkip | _ => JSkip end.
Proof. reflexivity. Qed.
Lemma judge_ts_args args out : J.judge B"sd.ts" args out =
  if J.is_badargs out then JSkip else
  match args with [VInt m; VInt fmt; v] => if J.mod_ok m && ((fmt =? 0) || (fmt =? 1)) then J.j_ts m v out else JSkip | _ => JSkip end.
Proof. reflexivity. Qed.
Lemma judge_tsread_args args out : J.judge B"sd.tsread" args out =
  if J.is_badargs out then JSkip else
  match args with
  | [VInt m; VInt fmt; VInt kind; VInt n] => if J.mod_ok m && (0 <=? fmt) && (fmt <=? 2) then J.j_tsread m kind n out else JSkip
  | _ => JSkip end.
Proof. reflexivity. Qed.
Lemma judge_tsnone_args args out : J.judge B"sd.tsnone" args out =
  if J.is_badargs out then JSkip else
  match args with
  | [VInt m; VInt fmt; VInt kind] =>
      if J.mod_ok m && J.is_opt m && (0 <=? fmt) && (fmt <=? 2) && ((kind =? 0) || (kind =? 1)) then judge_eq VNone out else JSkip
  | _ => JSkip end.
Proof. reflexivity. Qed.
Lemma judge_tdread_args args out : J.judge B"sd.tdread" args out =
  if J.is_badargs out then JSkip else
  match args with
  | [VInt fmt; VInt secs; VInt nanos] => if (fmt =? 0) || (fmt =? 1) then J.j_tdread secs nanos out else JSkip
  | _ => JSkip end.
Proof. reflexivity. Qed.

Definition HOLDS (op : bytes) (args : list val) : Prop :=
  J.judge op args (run op args) <> JSkip -> J.judge op args (run op args) = JOk.

Lemma holds_op_rt args : finding_free B"sd.rt" args = true -> HOLDS B"sd.rt" args.
Proof.
  intros Hff Hns. pose proof Hns as Hs. rewrite judge_rt_args in Hs.
  destruct (J.is_badargs (run B"sd.rt" args)); [congruence|].
  destruct (args_iiv _ _ Hs) as (fmt & ty & v & ->). apply C20HoldsRt.holds_rt; [exact Hff|exact Hns].
Qed.
Lemma holds_op_ts args : HOLDS B"sd.ts" args.
Proof.
  intros Hns. pose proof Hns as Hs. rewrite judge_ts_args in Hs.
  destruct (J.is_badargs (run B"sd.ts" args)); [congruence|].
  destruct (args_iiv _ _ Hs) as (m & fmt & v & ->). apply C20HoldsTs.holds_ts. exact Hns.
Qed.
Lemma holds_op_tsnone args : HOLDS B"sd.tsnone" args.
Proof.
  intros Hns. pose proof Hns as Hs. rewrite judge_tsnone_args in Hs.
  destruct (J.is_badargs (run B"sd.tsnone" args)); [congruence|].
  destruct (args_iii _ _ Hs) as (m & fmt & kind & ->). apply C20HoldsTs.holds_tsnone. exact Hns.
Qed.
Lemma holds_op_tsread args : HOLDS B"sd.tsread" args.
Proof.
  intros Hns. pose proof Hns as Hs. rewrite judge_tsread_args in Hs.
  destruct (J.is_badargs (run B"sd.tsread" args)) eqn:Eb; [congruence|].
  destruct (args_iiii _ _ Hs) as (m & fmt & kind & n & ->).
  destruct (J.mod_ok m && (0 <=? fmt) && (fmt <=? 2)) eqn:Ed; [|congruence].
  assert (Hm : 0 <= m <= 15) by (unfold J.mod_ok in Ed; lia).
  assert (Hrun : run B"sd.tsread" [VInt m; VInt fmt; VInt kind; VInt n] = if mod_ok m then tsread m fmt kind n else VBad) by reflexivity.
  rewrite Hrun in Eb. replace (mod_ok m) with true in Eb by (unfold mod_ok; lia). unfold tsread in Eb.
  destruct (tsread_ok fmt kind n) eqn:Ok; [|discriminate Eb].
  apply C20Holds.holds_tsread; assumption.
Qed.
Lemma holds_op_tdread args : HOLDS B"sd.tdread" args.
Proof.
  intros Hns. pose proof Hns as Hs. rewrite judge_tdread_args in Hs.
  destruct (J.is_badargs (run B"sd.tdread" args)) eqn:Eb; [congruence|].
  destruct (args_iii _ _ Hs) as (fmt & s & n & ->).
  destruct ((fmt =? 0) || (fmt =? 1)) eqn:Ef; [|congruence].
  unfold J.j_tdread in Hs. destruct (in_i64 s && in_i32 n) eqn:Ei; [|congruence].
  apply andb_prop in Ei. destruct Ei as [Hi Hn]. apply C20Holds.holds_tdread; [lia|exact Hi|exact Hn].
Qed.

Theorem holds_all op args : finding_free op args = true ->
  J.judge op args (run op args) <> JSkip -> J.judge op args (run op args) = JOk.
Proof.
  intros Hff.
  destruct (op_is op "sd.rt") eqn:P1; [apply hl_op_is_eq in P1; subst op; apply holds_op_rt; exact Hff|].
  destruct (op_is op "sd.ts") eqn:P2; [apply hl_op_is_eq in P2; subst op; apply holds_op_ts|].
  destruct (op_is op "sd.tsread") eqn:P3; [apply hl_op_is_eq in P3; subst op; apply holds_op_tsread|].
  destruct (op_is op "sd.tsnone") eqn:P4; [apply hl_op_is_eq in P4; subst op; apply holds_op_tsnone|].
  destruct (op_is op "sd.tdread") eqn:P5; [apply hl_op_is_eq in P5; subst op; apply holds_op_tdread|].
  intros H. exfalso. apply H. unfold J.judge. rewrite P1, P2, P3, P4, P5.
  destruct (J.is_badargs (run op args)); reflexivity.
Qed.
Corollary never_bad op args : finding_free op args = true -> not_bad (J.judge op args (run op args)).
Proof. intros H. apply hl_never_bad. apply holds_all. exact H. Qed.

(* [finding_free] restricts sd.rt only, and there exactly to: naive leap-second fraction on second 59
   (type codes 1, 2); whole-minute offset and wall-clock date inside the range (3, 8, 9) *)
Lemma finding_free_other op args : op_is op "sd.rt" = false -> finding_free op args = true.
Proof. intros H. unfold finding_free, C20HoldsRt.finding_free. rewrite H. reflexivity. Qed.
Lemma finding_free_rt fmt ty v : finding_free B"sd.rt" [fmt; VInt ty; v] = clean_rt ty v.
Proof. reflexivity. Qed.
Lemma clean_rt_unrestricted ty v : ty <> 1 -> ty <> 2 -> ty <> 3 -> ty <> 8 -> ty <> 9 -> clean_rt ty v = true.
Proof.
  intros. unfold clean_rt, C20HoldsRt.clean_rt.
  replace (ty =? 1) with false by lia. replace (ty =? 2) with false by lia.
  replace ((ty =? 3) || (ty =? 8) || (ty =? 9)) with false by lia. reflexivity.
Qed.

(* the hypotheses are inhabited, on each op; the zone-aware leap second off second 59 included *)
Example holds_inhabited :
  let c1 := [VInt 0; VInt 3; VTup [VInt 2020; VInt 1; VInt 45270; VInt 1500000000; VInt 19800]] in
  let c2 := [VInt 14; VInt 0; VTup [VInt 2262; VInt 101; VInt 85636; VInt 854775807]] in
  let c3 := [VInt 15; VInt 1; VSome (VTup [VInt 2262; VInt 101; VInt 85636; VInt 854775808])] in
  let c4 := [VInt 1; VInt 5; VTup [VInt (-9223372036854776); VInt 193000000]] in
  finding_free B"sd.rt" c1 = true /\ J.judge B"sd.rt" c1 (run B"sd.rt" c1) = JOk /\
  J.judge B"sd.ts" c2 (run B"sd.ts" c2) = JOk /\ J.judge B"sd.ts" c3 (run B"sd.ts" c3) = JOk /\
  finding_free B"sd.rt" c4 = true /\ J.judge B"sd.rt" c4 (run B"sd.rt" c4) = JOk.
Proof. vm_compute. repeat split. Qed.
