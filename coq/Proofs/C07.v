(** C07 — property-specific checks on top of Proofs/Time.v: the documented examples of
    src/naive/time/mod.rs ("Date And Time Arithmetic" rule list and the operator doc tests) evaluated
    by the kernel on the specification (the judge's timeline) and on the model, and inhabitation
    examples for the hypotheses of the theorems. *)
From Coq Require Import ZArith List Bool Lia ZifyBool String.
From V Require Import Base.Int Base.IO Model.TimeDelta Model.Time Spec.TimeOfDay Proofs.C06 Proofs.Time.
Import ListNotations.
Open Scope Z_scope.

(* hh:mm:ss.mmm ; a leap second hh:mm:60.mmm is T h m 59 (1000 + mmm) *)
Definition T (h m s ms : Z) : Z * Z := (h * 3600 + m * 60 + s, ms * 1000000).
Definition ms_ns (ms : Z) : Z := ms * 1000000.
Definition td_of_ms (ms : Z) : td := mk_td (ms_ns ms / 1000000000) (ms_ns ms mod 1000000000).

(* (t, duration in ms, documented t + duration) *)
Definition doc_add : list ((Z * Z) * Z * (Z * Z)) :=
  [ (T 3 0 0 0, 1000, T 3 0 1 0); (T 3 0 59 0, 60000, T 3 1 59 0); (T 3 0 59 0, 61000, T 3 2 0 0);
    (T 3 0 59 0, 1000, T 3 1 0 0); (T 3 0 59 1000, 1000, T 3 1 0 0); (T 3 0 59 1000, 60000, T 3 1 59 0);
    (T 3 0 59 1000, 61000, T 3 2 0 0); (T 3 0 59 1100, 800, T 3 0 59 1900);
    (* Time - TimeDelta, as addition of the negated duration *)
    (T 3 0 0 0, -1000, T 2 59 59 0); (T 3 1 0 0, -1000, T 3 0 59 0); (T 3 1 0 0, -60000, T 3 0 0 0);
    (T 3 0 59 1000, -60000, T 3 0 0 0); (T 3 0 59 1700, -400, T 3 0 59 1300); (T 3 0 59 1700, -900, T 3 0 59 800);
    (* impl Add<TimeDelta> / Sub<TimeDelta> doc tests on the leap second 03:05:59 + 1.3 s *)
    (T 3 5 59 1300, 0, T 3 5 59 1300); (T 3 5 59 1300, -500, T 3 5 59 800); (T 3 5 59 1300, 500, T 3 5 59 1800);
    (T 3 5 59 1300, 800, T 3 6 0 100); (T 3 5 59 1300, 10000, T 3 6 9 300); (T 3 5 59 1300, -10000, T 3 5 50 300);
    (T 3 5 59 1300, 86400000, T 3 5 59 300); (T 3 5 59 1300, -200, T 3 5 59 1100);
    (T 3 5 59 1300, -60000, T 3 5 0 300); (T 3 5 59 1300, -86400000, T 3 6 0 300);
    (T 3 5 7 0, 22 * 3600000, T 1 5 7 0); (T 3 5 7 0, -8 * 3600000, T 19 5 7 0); (T 3 5 7 0, 800 * 86400000, T 3 5 7 0);
    (T 3 5 7 950, 280, T 3 5 8 230); (T 3 5 7 950, -980, T 3 5 6 970) ].
(* (t1, t2, documented t1 - t2 in ms) *)
Definition doc_diff : list ((Z * Z) * (Z * Z) * Z) :=
  [ (T 4 0 0 0, T 3 0 0 0, 3600000); (T 3 1 0 0, T 3 0 0 0, 60000); (T 3 0 59 1000, T 3 0 0 0, 60000);
    (T 3 0 59 1600, T 3 0 59 400, 1200); (T 3 1 0 0, T 3 0 59 800, 200); (T 3 1 0 0, T 3 0 59 1500, 500);
    (T 4 0 59 1900, T 3 0 59 1100, 3601800);
    (T 3 0 59 1000, T 3 0 59 0, 1000); (T 3 0 59 1500, T 3 0 59 0, 1500); (T 3 0 0 0, T 2 59 59 1000, 1000);
    (T 3 0 59 1000, T 2 59 59 1000, 61000); (T 3 5 7 900, T 4 5 7 900, -3600000); (T 3 5 7 900, T 2 4 6 800, 3661100) ].

Definition TD_MAX_secs_lit : Z := 9223372036854775.
Definition pair_eqb (a b : Z * Z) : bool := (fst a =? fst b) && (snd a =? snd b).
Definition check_add_spec (e : (Z * Z) * Z * (Z * Z)) : bool :=
  let '(t, ms, r) := e in pair_eqb (fst (tl_add (fst t) (snd t) (ms_ns ms))) r.
Definition check_add_model (e : (Z * Z) * Z * (Z * Z)) : bool :=
  let '(t, ms, r) := e in
  match op_add_td (mk_time (fst t) (snd t)) (td_of_ms ms) with
  | Val t' => pair_eqb (tsecs t', tfrac t') r | _ => false end.
Definition check_diff_spec (e : (Z * Z) * (Z * Z) * Z) : bool :=
  let '(a, b, ms) := e in
  (tl_diff (fst a) (snd a) (fst b) (snd b) =? ms_ns ms) && (tl_diff (fst b) (snd b) (fst a) (snd a) =? - ms_ns ms).
Definition check_diff_model (e : (Z * Z) * (Z * Z) * Z) : bool :=
  let '(a, b, ms) := e in
  match signed_duration_since (mk_time (fst a) (snd a)) (mk_time (fst b) (snd b)) with
  | Val d => secs d * 1000000000 + nanos d =? ms_ns ms | _ => false end.

Theorem doc_examples_spec :
  forallb check_add_spec doc_add = true /\ forallb check_diff_spec doc_diff = true.
Proof. split; vm_compute; reflexivity. Qed.
Theorem doc_examples_model :
  forallb check_add_model doc_add = true /\ forallb check_diff_model doc_diff = true.
Proof. split; vm_compute; reflexivity. Qed.

(* the hypotheses of the arithmetic theorems are inhabited by non-trivial values: a leap second on
   a second that is not 59, the extreme durations *)
Example inhabited_states :
  tvalid (mk_time 12345 1999999999) /\ tvalid (mk_time 86399 1000000000) /\ tvalid (mk_time 0 0) /\
  valid (mk_td TD_MAX_secs_lit 807000000) /\ valid (mk_td (-9223372036854776) 193000000) /\ valid (mk_td (-1) 1).
Proof. unfold tvalid, valid, ns, in_rng, Proofs.C06.G, RMIN, RMAX, TD_MAX_secs_lit. cbn [tsecs tfrac secs nanos]. lia. Qed.
