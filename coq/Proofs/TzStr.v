(** The TZ-string reader [from_tz_string] accepts exactly the grammar of Proofs/TzStrSpec.v and
    returns the rule the grammar denotes, for every byte string (of a length a slice can have).
    Method: the cursor with the invariant read_count + remaining length = N, a simulation
    relation [sim] between a reader step (trapping monad over Result) and a grammar step
    (option), composed step by step; where the reader tests a range after it has read further
    ([parse_offset], month_weekday) the grammar's bounds are first widened ([g_hms_narrow],
    [g_mwd3_narrow]). *)
From Coq Require Import ZArith List Bool Lia ZifyBool String.
From V Require Import Base.Int Base.IO Base.IntLemmas Gen.TzInfo.
From V Require Import Model.TzParser Model.TzRule.
From V Require Import Proofs.TzCommon Proofs.TzRoundtrip Proofs.TzAccept Proofs.TzStrSpec.
Import ListNotations.
Open Scope Z_scope.
Ltac Zify.zify_post_hook ::= Z.to_euclidean_division_equations.

(** ** simulation *)
Definition sim {X Y} (rel : X -> Y -> Prop) (x : R (res X)) (o : option Y) : Prop :=
  match o with
  | Some y => exists v, x = ok v /\ rel v y
  | None => exists e, x = fail e
  end.
Lemma sim_ok {X Y} (rel : X -> Y -> Prop) v y : rel v y -> sim rel (ok v) (Some y).
Proof. intros H. exists v. auto. Qed.
Lemma sim_fail {X Y} (rel : X -> Y -> Prop) e : sim rel (fail e) None.
Proof. exists e. reflexivity. Qed.
Lemma sim_bind {X Y X' Y'} (rel : X -> Y -> Prop) (rel' : X' -> Y' -> Prop) x o f g :
  sim rel x o -> (forall v y, o = Some y -> rel v y -> sim rel' (f v) (g y)) ->
  sim rel' (rbind x f) (obind o g).
Proof.
  destruct o as [y|]; cbn [sim obind].
  - intros (v & -> & Hr) H. rewrite rbind_ok. apply H; [reflexivity|exact Hr].
  - intros (e & ->) _. exists e. reflexivity.
Qed.
Lemma sim_map {X Y X'} (rel : X -> Y -> Prop) (rel' : X' -> Y -> Prop) x o (fv : X -> X') :
  sim rel x o -> (forall v y, rel v y -> rel' (fv v) y) -> sim rel' (rbind x (fun v => ok (fv v))) o.
Proof.
  destruct o as [y|]; cbn [sim].
  - intros (v & -> & Hr) H. rewrite rbind_ok. exists (fv v). split; [reflexivity|apply H; exact Hr].
  - intros (e & ->) _. exists e. reflexivity.
Qed.
Lemma obind_assoc {A1 A2 A3} (o : option A1) (f : A1 -> option A2) (g : A2 -> option A3) :
  obind (obind o f) g = obind o (fun a => obind (f a) g).
Proof. destruct o; reflexivity. Qed.

(** ** the cursor with its invariant *)
Definition cur (N : Z) (s : bytes) : cursor := mk_cur s (N - zlen s).
Definition inv (N : Z) (s : bytes) : Prop := zlen s <= N /\ N <= u64_max.
Definition relC {A} (N : Z) (p : A * cursor) (q : A * bytes) : Prop :=
  fst p = fst q /\ snd p = cur N (snd q) /\ inv N (snd q).
Definition relT (N : Z) (c : cursor) (r : bytes) : Prop := c = cur N r /\ inv N r.

Lemma inv_tail N x r : inv N (x :: r) -> inv N r.
Proof. unfold inv. rewrite zlen_cons. pose proof (zlen_nonneg r). intros [H1 H2]. split; [lia|exact H2]. Qed.
Lemma inv_app N a r : inv N (a ++ r) -> inv N r.
Proof. unfold inv. rewrite zlen_app. pose proof (zlen_nonneg a). intros [H1 H2]. split; [lia|exact H2]. Qed.

Lemma read_exact_cur N a rest : inv N (a ++ rest) ->
  read_exact (cur N (a ++ rest)) (zlen a) = ok (a, cur N rest).
Proof.
  intros [H1 H2]. unfold cur. rewrite zlen_app in *. pose proof (zlen_nonneg a). pose proof (zlen_nonneg rest).
  rewrite read_exact_app by (unfold fits; rewrite zlen_app; lia).
  rc_eq.
Qed.
Lemma read1 N x r : inv N (x :: r) -> read_exact (cur N (x :: r)) 1 = ok ([x], cur N r).
Proof. intros H. exact (read_exact_cur N [x] r H). Qed.

Lemma span_app f s : fst (span f s) ++ snd (span f s) = s.
Proof. induction s as [|x r IH]; cbn [span]; [reflexivity|]. destruct (f x); cbn [fst snd app]; [rewrite IH|]; reflexivity. Qed.
Lemma span_prefix_len f s : prefix_len f s = zlen (fst (span f s)).
Proof.
  induction s as [|x r IH]; cbn [span prefix_len]; [reflexivity|].
  destruct (f x); cbn [fst]; [rewrite zlen_cons, IH|]; reflexivity.
Qed.
Lemma span_all f s : Forall (fun x => f x = true) (fst (span f s)).
Proof.
  induction s as [|x r IH]; cbn [span]; [constructor|].
  destruct (f x) eqn:E; cbn [fst]; constructor; assumption.
Qed.
Lemma span_stop f s y r : snd (span f s) = y :: r -> f y = false.
Proof.
  induction s as [|x s' IH]; cbn [span]; [discriminate|].
  destruct (f x) eqn:E; cbn [snd]; [exact IH|]. intros H. injection H as -> _. exact E.
Qed.
Lemma inv_span N f s : inv N s -> inv N (snd (span f s)).
Proof. intros H. rewrite <- (span_app f s) in H. exact (inv_app _ _ _ H). Qed.

Lemma read_while_cur N s f : inv N s ->
  read_while (cur N s) f = ok (fst (span f s), cur N (snd (span f s))).
Proof.
  intros H. unfold read_while. change (remaining (cur N s)) with s. rewrite span_prefix_len.
  pose proof (span_app f s) as E. revert E. generalize (fst (span f s)) (snd (span f s)).
  intros a b E. subst s. apply read_exact_cur. exact H.
Qed.

Lemma eat_inv N t s r : eat t s = Some r -> inv N s -> inv N r.
Proof.
  destruct s as [|x s']; cbn [eat]; [discriminate|]. destruct (x =? t); [|discriminate].
  intros H. injection H as <-. apply inv_tail.
Qed.
Lemma read_tag_cur N t s : inv N s -> sim (relT N) (read_tag (cur N s) [t]) (eat t s).
Proof.
  intros H. destruct s as [|x r]; [eexists; reflexivity|].
  unfold read_tag. change (zlen [t]) with 1. rewrite (read1 N x r H). rewrite rbind_ok. cbv beta iota.
  cbn [bytes_eqb eat]. rewrite andb_true_r. destruct (x =? t).
  - apply sim_ok. split; [reflexivity|exact (inv_tail _ _ _ H)].
  - apply sim_fail.
Qed.
Lemma starts_with_nil r : starts_with r [] = true.
Proof. destruct r; reflexivity. Qed.
Lemma read_optional_tag_cur N t s : inv N s ->
  read_optional_tag (cur N s) [t] =
  match eat t s with Some r => ok (true, cur N r) | None => ok (false, cur N s) end.
Proof.
  intros H. destruct s as [|x r]; [reflexivity|].
  unfold read_optional_tag. change (remaining (cur N (x :: r))) with (x :: r).
  cbn [starts_with eat]. rewrite starts_with_nil, andb_true_r. destruct (x =? t); [|reflexivity].
  change (zlen [t]) with 1. rewrite (read1 N x r H). reflexivity.
Qed.

Lemma read_int_cur N s tmax : inv N s -> sim (relC N) (read_int (cur N s) tmax) (g_num tmax s).
Proof.
  intros H. unfold read_int, g_num, g_nat. rewrite read_while_cur by exact H. rewrite rbind_ok. cbv beta iota.
  pose proof (inv_span N is_ascii_digit s H) as Hi.
  destruct (fst (span is_ascii_digit s)) as [|d ds]; cbn [obind]; [apply sim_fail|]. cbv beta iota.
  change (digits_value (d :: ds)) with (dec_value (d :: ds)).
  destruct (dec_value (d :: ds) <=? tmax); [|apply sim_fail].
  apply sim_ok. split; [reflexivity|]. split; [reflexivity|exact Hi].
Qed.
Lemma g_num_range hi s v r : g_num hi s = Some (v, r) -> 0 <= v <= hi.
Proof.
  unfold g_num, g_nat. pose proof (span_all is_ascii_digit s) as Ha.
  destruct (fst (span is_ascii_digit s)) as [|d ds]; cbn [obind]; [discriminate|]. cbv beta iota.
  destruct (dec_value (d :: ds) <=? hi) eqn:E; [|discriminate]. intros Hq. injection Hq as <- _.
  split; [|lia]. unfold dec_value. apply digits_value_nonneg_acc; [lia|exact Ha].
Qed.

(** ** names *)
Lemma match_60 (X : Type) (a b0 : X) (x : Z) : match x with 60 => a | _ => b0 end = if x =? 60 then a else b0.
Proof.
  destruct (x =? 60) eqn:E; [apply Z.eqb_eq in E; subst; reflexivity|]. apply Z.eqb_neq in E.
  destruct x as [|p|p]; try reflexivity.
  repeat (destruct p as [p|p|]; try reflexivity); lia.
Qed.
Lemma match_44 (X : Type) (a b0 : X) (x : Z) : match x with 44 => a | _ => b0 end = if x =? 44 then a else b0.
Proof.
  destruct (x =? 44) eqn:E; [apply Z.eqb_eq in E; subst; reflexivity|]. apply Z.eqb_neq in E.
  destruct x as [|p|p]; try reflexivity.
  repeat (destruct p as [p|p|]; try reflexivity); lia.
Qed.
Lemma match_77_74 (X : Type) (a b0 c0 : X) (x : Z) :
  match x with 77 => a | 74 => b0 | _ => c0 end = if x =? 77 then a else if x =? 74 then b0 else c0.
Proof.
  destruct (x =? 77) eqn:E; [apply Z.eqb_eq in E; subst; reflexivity|]. apply Z.eqb_neq in E.
  destruct (x =? 74) eqn:E'; [apply Z.eqb_eq in E'; subst; reflexivity|]. apply Z.eqb_neq in E'.
  destruct x as [|p|p]; try reflexivity.
  repeat (destruct p as [p|p|]; try reflexivity); lia.
Qed.

Lemma parse_name_cur N s : inv N s -> sim (relC N) (parse_name (cur N s)) (g_name s).
Proof.
  intros H. unfold parse_name, g_name. destruct s as [|x r].
  - change (peek (cur N [])) with (@None Z). cbv beta iota. rewrite read_while_cur by exact H.
    apply sim_ok. split; [reflexivity|]. split; [reflexivity|exact H].
  - change (peek (cur N (x :: r))) with (Some x). cbv beta iota. rewrite match_60.
    destruct (x =? 60).
    + rewrite (read1 N x r H). rewrite rbind_ok. cbv beta iota.
      change (read_until (cur N r) (fun x0 => x0 =? 62)) with (read_while (cur N r) (fun b => negb (b =? 62))).
      pose proof (inv_tail _ _ _ H) as Hr.
      rewrite read_while_cur by exact Hr. rewrite rbind_ok. cbv beta iota.
      pose proof (inv_span N (fun b => negb (b =? 62)) r Hr) as Hs.
      destruct (snd (span (fun b => negb (b =? 62)) r)) as [|y r'] eqn:E; [eexists; reflexivity|].
      rewrite (read1 N y r' Hs). rewrite rbind_ok. cbv beta iota.
      apply span_stop in E. cbn [eat]. replace (y =? 62) with true by lia. cbn [obind].
      apply sim_ok. split; [reflexivity|]. split; [reflexivity|exact (inv_tail _ _ _ Hs)].
    + rewrite read_while_cur by exact H.
      apply sim_ok. split; [destruct (span is_ascii_alphabetic (x :: r)); reflexivity|].
      split; [destruct (span is_ascii_alphabetic (x :: r)); reflexivity|]. apply inv_span. exact H.
Qed.

(** ** hh[:mm[:ss]] *)
Lemma parse_hhmmss_cur N s : inv N s ->
  sim (relC N) (parse_hhmmss (cur N s)) (g_hms i32_max i32_max i32_max s).
Proof.
  intros H. unfold parse_hhmmss, g_hms.
  eapply sim_bind; [apply read_int_cur; exact H|].
  intros [h c] [h' s1] _ (E1 & E2 & E3). cbn [fst snd] in *. subst. cbv beta iota.
  rewrite read_optional_tag_cur by exact E3.
  destruct (eat 58 s1) as [s2|] eqn:Ee; rewrite rbind_ok; cbv beta iota.
  2:{ apply sim_ok. split; [reflexivity|]. split; [reflexivity|exact E3]. }
  pose proof (eat_inv N _ _ _ Ee E3) as H2.
  eapply sim_bind; [apply read_int_cur; exact H2|].
  intros [m c] [m' s3] _ (F1 & F2 & F3). cbn [fst snd] in *. subst. cbv beta iota.
  rewrite read_optional_tag_cur by exact F3.
  destruct (eat 58 s3) as [s4|] eqn:Ee2; rewrite rbind_ok; cbv beta iota.
  2:{ apply sim_ok. split; [reflexivity|]. split; [reflexivity|exact F3]. }
  pose proof (eat_inv N _ _ _ Ee2 F3) as H4.
  eapply sim_bind; [apply read_int_cur; exact H4|].
  intros [sec c] [sec' s5] _ (G1 & G2 & G3). cbn [fst snd] in *. subst. cbv beta iota.
  apply sim_ok. split; [reflexivity|]. split; [reflexivity|exact G3].
Qed.

Lemma g_hms_range bh bm bs s h m sec r : 0 <= bm -> 0 <= bs -> g_hms bh bm bs s = Some (h, m, sec, r) ->
  0 <= h <= bh /\ 0 <= m <= bm /\ 0 <= sec <= bs.
Proof.
  intros Hbm Hbs. unfold g_hms.
  destruct (g_num bh s) as [[h' s1]|] eqn:E1; cbn [obind]; [|discriminate]. cbv beta iota.
  apply g_num_range in E1.
  destruct (eat 58 s1) as [s2|]; [|intros Hq; injection Hq as <- <- <- _; lia].
  destruct (g_num bm s2) as [[m' s3]|] eqn:E2; cbn [obind]; [|discriminate]. cbv beta iota.
  apply g_num_range in E2.
  destruct (eat 58 s3) as [s4|]; [|intros Hq; injection Hq as <- <- <- _; lia].
  destruct (g_num bs s4) as [[sec' s5]|] eqn:E3; cbn [obind]; [|discriminate]. cbv beta iota.
  apply g_num_range in E3. intros Hq; injection Hq as <- <- <- _; lia.
Qed.

(* reading with wide bounds and testing afterwards = reading with the narrow bounds *)
Lemma g_num_narrow W b s : b <= W ->
  g_num b s = let? '(v, r) := g_num W s in if v <=? b then Some (v, r) else None.
Proof.
  intros Hb. unfold g_num. destruct (g_nat s) as [[v r]|]; cbn [obind]; [|reflexivity]. cbv beta iota.
  destruct (v <=? W) eqn:E1; cbn [obind]; cbv beta iota; [reflexivity|].
  replace (v <=? b) with false by lia. reflexivity.
Qed.
Lemma g_hms_narrow {T} W bh bm bs s (k : Z * Z * Z * bytes -> option T) :
  bh <= W -> 0 <= bm <= W -> 0 <= bs <= W ->
  obind (g_hms bh bm bs s) k =
  obind (g_hms W W W s)
        (fun '(h, m, sec, r) => if (h <=? bh) && (m <=? bm) && (sec <=? bs) then k (h, m, sec, r) else None).
Proof.
  intros Hh Hm Hs. unfold g_hms, g_num.
  repeat (first [ reflexivity
                | progress (cbn [obind andb]; cbv beta iota)
                | match goal with
                  | |- context [?a <=? ?b] => destruct (a <=? b) eqn:?
                  | |- context [g_nat ?s] => destruct (g_nat s) as [[? ?]|]
                  | |- context [eat 58 ?s] => destruct (eat 58 s)
                  end ]); lia.
Qed.

(** ** signed hh[:mm[:ss]], offsets and rule times *)
Definition relS (N : Z) (sg0 : Z) (p : Z * Z * Z * Z * cursor) (q : Z * Z * Z * bytes) : Prop :=
  let '(sg, h, m, sec, c) := p in let '(h', m', sec', r) := q in
  sg = sg0 /\ h = h' /\ m = m' /\ sec = sec' /\ c = cur N r /\ inv N r.
Lemma g_sign_pm s : fst (g_sign s) = 1 \/ fst (g_sign s) = -1.
Proof. destruct s as [|x r]; cbn [g_sign fst]; [auto|]. destruct (x =? 43); [auto|]. destruct (x =? 45); auto. Qed.
Lemma parse_signed_cur N s : inv N s ->
  sim (relS N (fst (g_sign s))) (parse_signed_hhmmss (cur N s)) (g_hms i32_max i32_max i32_max (snd (g_sign s))).
Proof.
  intros H. unfold parse_signed_hhmmss.
  assert (Hk : forall sg s', inv N s' ->
    sim (relS N sg) (let+ '(hour, minute, second, c) := parse_hhmmss (cur N s') in ok (sg, hour, minute, second, c))
        (g_hms i32_max i32_max i32_max s')).
  { intros sg s' Hs'. pose proof (parse_hhmmss_cur N s' Hs') as Hp. unfold sim in *.
    destruct (g_hms i32_max i32_max i32_max s') as [[[[h' m'] sec'] r]|].
    - destruct Hp as (v & -> & Hv). destruct v as [[[h m] sec] c]. destruct Hv as (E1 & E2 & E3). cbn [fst snd] in *. subst c.
      injection E1 as -> -> ->. rewrite rbind_ok. cbv beta iota. eexists. split; [reflexivity|].
      unfold relS. auto 10.
    - destruct Hp as (e & ->). exists e. reflexivity. }
  destruct s as [|x r].
  - change (peek (cur N [])) with (@None Z). cbv beta iota. rewrite rbind_ok. cbv beta iota.
    apply Hk. exact H.
  - change (peek (cur N (x :: r))) with (Some x). cbv beta iota. cbn [g_sign].
    destruct (x =? 43) eqn:E43; cbn [orb fst snd].
    + rewrite (read1 N x r H). rewrite !rbind_ok. cbv beta iota. replace (x =? 45) with false by lia.
      apply Hk. exact (inv_tail _ _ _ H).
    + destruct (x =? 45) eqn:E45; cbn [fst snd].
      * rewrite (read1 N x r H). rewrite !rbind_ok. cbv beta iota. apply Hk. exact (inv_tail _ _ _ H).
      * rewrite rbind_ok. cbv beta iota. apply Hk. exact H.
Qed.

Lemma check_tail N sg h m sec r lo bh v : (sg = 1 \/ sg = -1) -> lo <= 0 -> bh <= 167 ->
  0 <= h -> 0 <= m -> 0 <= sec -> inv N r -> v = sg * (h * 3600 + m * 60 + sec) ->
  sim (relC N)
    (if negb ((lo <=? h) && (h <=? bh)) then fail EInvalidTzString else
     if negb ((0 <=? m) && (m <=? 59)) then fail EInvalidTzString else
     if negb ((0 <=? sec) && (sec <=? 59)) then fail EInvalidTzString else
     let* v := hms_secs sg h m sec in ok (v, cur N r))
    (if (h <=? bh) && (m <=? 59) && (sec <=? 59) then Some (v, r) else None).
Proof.
  intros Hsg Hlo Hbh Hh Hm Hs Hi ->.
  replace (lo <=? h) with true by lia. replace (0 <=? m) with true by lia. replace (0 <=? sec) with true by lia.
  destruct (h <=? bh) eqn:E1; cbn [andb negb]; [|apply sim_fail].
  destruct (m <=? 59) eqn:E2; cbn [andb negb]; [|apply sim_fail].
  destruct (sec <=? 59) eqn:E3; cbn [andb negb]; [|apply sim_fail].
  rewrite hms_secs_val by lia. cbv [bind]. apply sim_ok. split; [reflexivity|]. split; [reflexivity|exact Hi].
Qed.

Lemma parse_offset_cur N s : inv N s -> sim (relC N) (parse_offset (cur N s)) (g_offset s).
Proof.
  intros H. unfold parse_offset, g_offset, g_signed_hms.
  rewrite (g_hms_narrow i32_max 24 59 59) by (unfold i32_max; lia).
  eapply sim_bind; [apply parse_signed_cur; exact H|].
  intros [[[[sg h] m] sec] c] [[[h' m'] sec'] r] Ho Hr. unfold relS in Hr.
  destruct Hr as (-> & -> & -> & -> & -> & Hi). cbv beta iota.
  apply g_hms_range in Ho; [|unfold i32_max; lia..].
  apply (check_tail N _ h' m' sec' r 0 24); try lia; auto using g_sign_pm.
Qed.
Lemma parse_rule_time_ext_cur N s : inv N s -> sim (relC N) (parse_rule_time_extended (cur N s)) (g_time true s).
Proof.
  intros H. unfold parse_rule_time_extended, g_time, g_signed_hms.
  rewrite (g_hms_narrow i32_max 167 59 59) by (unfold i32_max; lia).
  eapply sim_bind; [apply parse_signed_cur; exact H|].
  intros [[[[sg h] m] sec] c] [[[h' m'] sec'] r] Ho Hr. unfold relS in Hr.
  destruct Hr as (-> & -> & -> & -> & -> & Hi). cbv beta iota.
  apply g_hms_range in Ho; [|unfold i32_max; lia..].
  apply (check_tail N _ h' m' sec' r (-167) 167); try lia; auto using g_sign_pm.
Qed.
Lemma parse_rule_time_cur N s : inv N s -> sim (relC N) (parse_rule_time (cur N s)) (g_time false s).
Proof.
  intros H. unfold parse_rule_time, g_time.
  rewrite (g_hms_narrow i32_max 24 59 59) by (unfold i32_max; lia).
  eapply sim_bind; [apply parse_hhmmss_cur; exact H|].
  intros [[[h m] sec] c] [[[h' m'] sec'] r] Ho (E1 & E2 & E3). cbn [fst snd] in *. subst c.
  injection E1 as -> -> ->. cbv beta iota.
  apply g_hms_range in Ho; [|unfold i32_max; lia..].
  apply (check_tail N 1 h' m' sec' r 0 24); try lia; auto.
Qed.

Lemma g_signed_range bh s v r : 0 <= bh -> g_signed_hms bh s = Some (v, r) ->
  - (bh * 3600 + 3599) <= v <= bh * 3600 + 3599.
Proof.
  intros Hb. unfold g_signed_hms.
  destruct (g_hms bh 59 59 (snd (g_sign s))) as [[[[h m] sec] r']|] eqn:E; cbn [obind]; [|discriminate].
  cbv beta iota. apply g_hms_range in E; [|lia..]. intros Hq. injection Hq as <- _.
  destruct (g_sign_pm s) as [-> | ->]; lia.
Qed.
Lemma g_offset_range s v r : g_offset s = Some (v, r) -> -89999 <= v <= 89999.
Proof. intros H. apply g_signed_range in H; lia. Qed.
Lemma g_time_range ext s v r : g_time ext s = Some (v, r) -> -604799 <= v <= 604799.
Proof.
  unfold g_time. destruct ext.
  - intros H. apply g_signed_range in H; lia.
  - destruct (g_hms 24 59 59 s) as [[[[h m] sec] r']|] eqn:E; cbn [obind]; [|discriminate].
    cbv beta iota. apply g_hms_range in E; [|lia..]. intros Hq. injection Hq as <- _. lia.
Qed.

(** ** days *)
Lemma g_mwd_narrow {T} W bm bw bd s (k : Z * Z * Z * bytes -> option T) :
  bm <= W -> bw <= W -> bd <= W ->
  obind (g_mwd bm bw bd s) k =
  obind (g_mwd W W W s)
        (fun '(m, w, d, r) => if (m <=? bm) && (w <=? bw) && (d <=? bd) then k (m, w, d, r) else None).
Proof.
  intros Hm Hw Hd. unfold g_mwd, g_num.
  repeat (first [ reflexivity
                | progress (cbn [obind andb]; cbv beta iota)
                | match goal with
                  | |- context [?a <=? ?b] => destruct (a <=? b) eqn:?
                  | |- context [g_nat ?s] => destruct (g_nat s) as [[? ?]|]
                  | |- context [eat 46 ?s] => destruct (eat 46 s)
                  end ]); lia.
Qed.

Definition day_reader (c : cursor) : R (res (rule_day * cursor)) :=
  match peek c with
  | Some 77 =>
      let+ '(_, c) := read_exact c 1 in
      let+ '(month, c) := read_int c u8_max in
      let+ c := read_tag c [46] in
      let+ '(week, c) := read_int c u8_max in
      let+ c := read_tag c [46] in
      let+ '(week_day, c) := read_int c u8_max in
      let+ d := Val (month_weekday month week week_day) in ok (d, c)
  | Some 74 =>
      let+ '(_, c) := read_exact c 1 in
      let+ '(n, c) := read_int c u16_max in
      let+ d := Val (julian_1 n) in ok (d, c)
  | _ =>
      let+ '(n, c) := read_int c u16_max in
      let+ d := Val (julian_0 n) in ok (d, c)
  end.
Lemma rule_day_parse_unfold c ext : rule_day_parse c ext =
  let+ '(date, c) := day_reader c in
  let+ '(slash, c) := read_optional_tag c [47] in
  if negb slash then ok (date, TZR_DEFAULT_RULE_TIME, c)
  else if ext then let+ '(t, c) := parse_rule_time_extended c in ok (date, t, c)
  else let+ '(t, c) := parse_rule_time c in ok (date, t, c).
Proof. reflexivity. Qed.

Ltac sim_step lem :=
  rewrite ?obind_assoc; eapply sim_bind; [apply lem; eassumption|].

Lemma day_reader_cur N s : inv N s -> sim (relC N) (day_reader (cur N s)) (g_day s).
Proof.
  intros H. unfold day_reader, g_day. destruct s as [|x r].
  - change (peek (cur N [])) with (@None Z). cbv beta iota.
    pose proof (read_int_cur N [] u16_max H) as Hp. change (g_num u16_max []) with (@None (Z * bytes)) in Hp.
    destruct Hp as (e & ->). exists e. reflexivity.
  - change (peek (cur N (x :: r))) with (Some x). cbv beta iota. rewrite match_77_74.
    pose proof (inv_tail _ _ _ H) as Hr.
    destruct (x =? 77); [|destruct (x =? 74)].
    + rewrite (read1 N x r H). rewrite rbind_ok. cbv beta iota.
      rewrite (g_mwd_narrow u8_max 12 5 6) by (unfold u8_max; lia). unfold g_mwd.
      sim_step read_int_cur. intros [m c] [m' s1] Hm (E1 & E2 & E3). cbn [fst snd] in *. subst. cbv beta iota.
      sim_step read_tag_cur. intros c s2 _ (-> & E4). cbv beta iota.
      sim_step read_int_cur. intros [w c] [w' s3] Hw (F1 & F2 & F3). cbn [fst snd] in *. subst. cbv beta iota.
      sim_step read_tag_cur. intros c s4 _ (-> & F4). cbv beta iota.
      sim_step read_int_cur. intros [d c] [d' s5] Hd (G1 & G2 & G3). cbn [fst snd] in *. subst. cbv beta iota.
      cbn [obind]. cbv beta iota.
      apply g_num_range in Hm. apply g_num_range in Hw. apply g_num_range in Hd.
      unfold month_weekday.
      destruct (m' <=? 12) eqn:?, (w' <=? 5) eqn:?, (d' <=? 6) eqn:?, (1 <=? m') eqn:?, (1 <=? w') eqn:?, (d' >? 6) eqn:?;
        cbn [andb negb]; try lia;
        first [ (eexists; reflexivity)
              | (eexists; split; [reflexivity|]; split; [reflexivity|]; split; [reflexivity|assumption]) ].
    + rewrite (read1 N x r H). rewrite rbind_ok. cbv beta iota.
      rewrite (g_num_narrow u16_max 365) by (unfold u16_max; lia).
      sim_step read_int_cur. intros [n c] [n' s1] Hn (E1 & E2 & E3). cbn [fst snd] in *. subst. cbv beta iota.
      apply g_num_range in Hn. unfold julian_1, TZR_JULIAN1_MIN, TZR_JULIAN1_MAX.
      destruct (n' <=? 365) eqn:?; cbn [obind]; cbv beta iota; destruct (1 <=? n') eqn:?; cbn [andb negb]; try lia;
        first [ (eexists; reflexivity)
              | (eexists; split; [reflexivity|]; split; [reflexivity|]; split; [reflexivity|assumption]) ].
    + rewrite (g_num_narrow u16_max 365) by (unfold u16_max; lia).
      sim_step read_int_cur. intros [n c] [n' s1] Hn (E1 & E2 & E3). cbn [fst snd] in *. subst. cbv beta iota.
      apply g_num_range in Hn. unfold julian_0, TZR_JULIAN0_MAX.
      destruct (n' <=? 365) eqn:?; cbn [obind]; cbv beta iota; destruct (n' >? 365) eqn:?; try lia;
        first [ (eexists; reflexivity)
              | (eexists; split; [reflexivity|]; split; [reflexivity|]; split; [reflexivity|assumption]) ].
Qed.

Lemma rule_day_parse_cur N s ext : inv N s ->
  sim (relC N) (rule_day_parse (cur N s) ext) (g_day_time ext s).
Proof.
  intros H. rewrite rule_day_parse_unfold. unfold g_day_time.
  eapply sim_bind; [apply day_reader_cur; exact H|].
  intros [d c] [d' s1] _ (E1 & E2 & E3). cbn [fst snd] in *. subst. cbv beta iota.
  rewrite read_optional_tag_cur by exact E3.
  destruct (eat 47 s1) as [s2|] eqn:Ee; rewrite rbind_ok; cbv beta iota; cbn [negb].
  2:{ apply sim_ok. split; [reflexivity|]. split; [reflexivity|exact E3]. }
  pose proof (eat_inv N _ _ _ Ee E3) as H2.
  destruct ext.
  - eapply sim_bind; [apply parse_rule_time_ext_cur; exact H2|].
    intros [t c] [t' s3] _ (F1 & F2 & F3). cbn [fst snd] in *. subst. cbv beta iota.
    apply sim_ok. split; [reflexivity|]. split; [reflexivity|exact F3].
  - eapply sim_bind; [apply parse_rule_time_cur; exact H2|].
    intros [t c] [t' s3] _ (F1 & F2 & F3). cbn [fst snd] in *. subst. cbv beta iota.
    apply sim_ok. split; [reflexivity|]. split; [reflexivity|exact F3].
Qed.
Lemma g_day_time_range ext s d t r : g_day_time ext s = Some (d, t, r) -> -604799 <= t <= 604799.
Proof.
  unfold g_day_time. destruct (g_day s) as [[d' s1]|]; cbn [obind]; [|discriminate]. cbv beta iota.
  destruct (eat 47 s1) as [s2|]; [|intros Hq; injection Hq as _ <- _; lia].
  destruct (g_time ext s2) as [[t' s3]|] eqn:E; cbn [obind]; [|discriminate]. cbv beta iota.
  apply g_time_range in E. intros Hq; injection Hq as _ <- _; lia.
Qed.

(** ** the whole string *)
Lemma ltt_new_val off dst n : off <> i32_min ->
  ltt_new off dst (Some n) = if name_valid n then ok (mk_ltt off dst (Some n)) else fail ELocalTimeType.
Proof.
  intros Ho. unfold ltt_new, tz_name_new, name_valid, TZ_NAME_MIN, TZ_NAME_MAX.
  replace (off =? i32_min) with false by lia.
  destruct ((3 <=? zlen n) && (zlen n <=? 7)) eqn:E; cbn [negb andb]; [|reflexivity].
  rewrite name_loop_val by lia. destruct (forallb is_name_char n); reflexivity.
Qed.

Lemma g_dst_offset_range so s v r : -89999 <= so <= 89999 -> g_dst_offset so s = Some (v, r) ->
  -93599 <= v <= 89999.
Proof.
  intros Hso. unfold g_dst_offset. destruct s as [|x s']; [discriminate|].
  destruct (x =? 44); [intros Hq; injection Hq as <- _; lia|].
  intros Hq. apply g_offset_range in Hq. lia.
Qed.

Definition dst_offset_reader (std_offset : Z) (c : cursor) : R (res (Z * cursor)) :=
  match peek c with
  | Some 44 => let* v := sub_i32 std_offset TZR_DEFAULT_DST_SHIFT in ok (v, c)
  | Some _ => parse_offset c
  | None => fail EUnsupportedTzString
  end.
Lemma dst_offset_cur N so s : inv N s -> -89999 <= so <= 89999 ->
  sim (relC N) (dst_offset_reader so (cur N s)) (g_dst_offset so s).
Proof.
  intros H Hso. unfold dst_offset_reader, g_dst_offset. destruct s as [|x r].
  - apply sim_fail.
  - change (peek (cur N (x :: r))) with (Some x). cbv beta iota. rewrite match_44.
    destruct (x =? 44).
    + unfold sub_i32, TZR_DEFAULT_DST_SHIFT. rewrite chk_in by range_solver. cbv [bind].
      apply sim_ok. split; [reflexivity|]. split; [reflexivity|exact H].
    + apply parse_offset_cur. exact H.
Qed.

Lemma cur_new_cur s : cur_new s = cur (zlen s) s.
Proof. unfold cur_new, cur. f_equal. lia. Qed.

Theorem from_tz_string_sim s ext : zlen s <= u64_max ->
  sim eq (from_tz_string s ext) (tzstr_parse ext s).
Proof.
  intros Hlen. set (N := zlen s).
  assert (H : inv N s) by (unfold inv, N; lia).
  change (from_tz_string s ext) with
    (let+ '(std_name, c) := parse_name (cur_new s) in
     let+ '(std_offset, c) := parse_offset c in
     if cur_is_empty c then
       let* off := neg_i32 std_offset in
       let+ l := ltt_new off false (Some std_name) in ok (Fixed l)
     else
     let+ '(dst_name, c) := parse_name c in
     let+ '(dst_offset, c) := dst_offset_reader std_offset c in
     if cur_is_empty c then fail EUnsupportedTzString else
     let+ c := read_tag c [44] in
     let+ '(dst_start, dst_start_time, c) := rule_day_parse c ext in
     let+ c := read_tag c [44] in
     let+ '(dst_end, dst_end_time, c) := rule_day_parse c ext in
     if negb (cur_is_empty c) then fail EInvalidTzString else
     let* so := neg_i32 std_offset in
     let+ std := ltt_new so false (Some std_name) in
     let* dofs := neg_i32 dst_offset in
     let+ dst := ltt_new dofs true (Some dst_name) in
     let+ a := Val (alt_new std dst dst_start dst_start_time dst_end dst_end_time) in
     ok (Alternate a)).
  rewrite cur_new_cur. fold N. unfold tzstr_parse.
  eapply sim_bind; [apply parse_name_cur; exact H|].
  intros [sn c] [sn' s1] _ (E1 & E2 & E3). cbn [fst snd] in *. subst. cbv beta iota.
  eapply sim_bind; [apply parse_offset_cur; exact E3|].
  intros [so c] [so' s2] Hso (F1 & F2 & F3). cbn [fst snd] in *. subst. cbv beta iota.
  apply g_offset_range in Hso.
  destruct s2 as [|y s2'].
  - change (cur_is_empty (cur N [])) with true. cbv beta iota.
    unfold neg_i32. rewrite chk_in by range_solver. cbv [bind].
    rewrite ltt_new_val by (unfold i32_min; lia).
    destruct (name_valid sn'); [apply sim_ok; reflexivity|apply sim_fail].
  - change (cur_is_empty (cur N (y :: s2'))) with false. cbv beta iota.
    eapply sim_bind; [apply parse_name_cur; exact F3|].
    intros [dn c] [dn' s3] _ (G1 & G2 & G3). cbn [fst snd] in *. subst. cbv beta iota.
    eapply sim_bind; [apply dst_offset_cur; [exact G3|exact Hso]|].
    intros [dof c] [dof' s4] Hdo (I1 & I2 & I3). cbn [fst snd] in *. subst. cbv beta iota.
    apply g_dst_offset_range in Hdo; [|exact Hso].
    destruct s4 as [|z s4'].
    { change (cur_is_empty (cur N [])) with true. cbv beta iota. apply sim_fail. }
    change (cur_is_empty (cur N (z :: s4'))) with false. cbv beta iota.
    eapply sim_bind; [apply read_tag_cur; exact I3|].
    intros c s5 _ (-> & J1). cbv beta iota.
    eapply sim_bind; [apply rule_day_parse_cur; exact J1|].
    intros [[d1 t1] c] [[d1' t1'] s6] Ht1 (K1 & K2 & K3). cbn [fst snd] in *. subst c.
    injection K1 as -> ->. cbv beta iota. apply g_day_time_range in Ht1.
    eapply sim_bind; [apply read_tag_cur; exact K3|].
    intros c s7 _ (-> & L1). cbv beta iota.
    eapply sim_bind; [apply rule_day_parse_cur; exact L1|].
    intros [[d2 t2] c] [[d2' t2'] s8] Ht2 (M1 & M2 & M3). cbn [fst snd] in *. subst c.
    injection M1 as -> ->. cbv beta iota. apply g_day_time_range in Ht2.
    destruct s8 as [|w s8'].
    2:{ change (cur_is_empty (cur N (w :: s8'))) with false. cbn [negb]. apply sim_fail. }
    change (cur_is_empty (cur N [])) with true. cbn [negb]. cbv beta iota.
    unfold neg_i32. rewrite chk_in by range_solver. cbv [bind].
    rewrite ltt_new_val by (unfold i32_min; lia).
    destruct (name_valid sn'); cbn [andb]; [|apply sim_fail]. rewrite rbind_ok.
    rewrite chk_in by range_solver.
    rewrite ltt_new_val by (unfold i32_min; lia).
    destruct (name_valid dn'); [|apply sim_fail]. rewrite rbind_ok.
    unfold alt_new, TZ_SECONDS_PER_WEEK. cbn [ut_offset].
    replace (negb ((Z.abs t1' <? 604800) && (Z.abs t2' <? 604800))) with false by lia.
    cbv beta iota. apply sim_ok. reflexivity.
Qed.

(** for every byte string: accepted by the reader exactly when the grammar accepts it, with the
    rule the grammar denotes; the reader never traps *)
Theorem from_tz_string_iff s ext r : zlen s <= u64_max ->
  from_tz_string s ext = Val (Ok r) <-> tzstr_accepts ext s = true /\ r = tzstr_value ext s.
Proof.
  intros Hlen. pose proof (from_tz_string_sim s ext Hlen) as Hs.
  unfold tzstr_accepts, tzstr_value, sim in *. destruct (tzstr_parse ext s) as [r'|].
  - destruct Hs as (v & -> & ->). unfold ok. split.
    + intros Hq. injection Hq as <-. auto.
    + intros [_ ->]. reflexivity.
  - destruct Hs as (e & ->). unfold fail. split; [discriminate|]. intros [Hq _]. discriminate.
Qed.
Theorem from_tz_string_rejects s ext : zlen s <= u64_max ->
  tzstr_accepts ext s = false -> exists e, from_tz_string s ext = Val (Err e).
Proof.
  intros Hlen. pose proof (from_tz_string_sim s ext Hlen) as Hs.
  unfold tzstr_accepts, sim in *. destruct (tzstr_parse ext s) as [r'|]; [discriminate|]. intros _. exact Hs.
Qed.

(** ** examples: the grammar is inhabited on both sides, and denotes the expected rules *)
Lemma tzstr_examples :
  tzstr_parse false (B"HST10") = Some (Fixed (mk_ltt (-36000) false (Some (B"HST")))) /\
  tzstr_parse false (B"EST5EDT,M3.2.0,M11.1.0") =
    Some (Alternate (mk_alt (mk_ltt (-18000) false (Some (B"EST"))) (mk_ltt (-14400) true (Some (B"EDT")))
                            (MonthWeekday 3 2 0) 7200 (MonthWeekday 11 1 0) 7200)) /\
  tzstr_parse false (B"<-03>3<-02>,M3.5.0/-2,M10.5.0/-1") = None /\
  tzstr_parse true (B"<-03>3<-02>,M3.5.0/-2,M10.5.0/-1") =
    Some (Alternate (mk_alt (mk_ltt (-10800) false (Some (B"-03"))) (mk_ltt (-7200) true (Some (B"-02")))
                            (MonthWeekday 3 5 0) (-7200) (MonthWeekday 10 5 0) (-3600))) /\
  tzstr_parse true (B"IST-2IDT,M3.4.4/26,M10.5.0") =
    Some (Alternate (mk_alt (mk_ltt 7200 false (Some (B"IST"))) (mk_ltt 10800 true (Some (B"IDT")))
                            (MonthWeekday 3 4 4) 93600 (MonthWeekday 10 5 0) 7200)) /\
  tzstr_parse false (B"IST-2IDT,M3.4.4/26,M10.5.0") = None /\
  tzstr_parse true (B"AAA0BBB,J1/167:59:59,365/-167:59:59") =
    Some (Alternate (mk_alt (mk_ltt 0 false (Some (B"AAA"))) (mk_ltt 3600 true (Some (B"BBB")))
                            (Julian1WithoutLeap 1) 604799 (Julian0WithLeap 365) (-604799))) /\
  tzstr_accepts true (B"AAA0BBB,J0,365") = false /\
  tzstr_accepts true (B"AAA0BBB,J1/168,365") = false /\
  tzstr_accepts true (B"AB0") = false /\
  tzstr_accepts true (B"EST25") = false /\
  tzstr_accepts true (B"EST5EDT") = false /\
  tzstr_accepts true (B"EST5EDT,M13.1.0,M11.1.0") = false /\
  tzstr_accepts true (B"EST5EDT,M3.2.0,M11.1.0 ") = false /\
  tzstr_accepts true (B"EST0000000000000000000005") = true /\
  tzstr_accepts true (B"<EST5") = false /\
  tzstr_accepts true [] = false.
Proof. vm_compute. repeat split; reflexivity. Qed.
