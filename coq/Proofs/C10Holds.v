(** C10, top level: the property as the independent judge states it (Judge/C10.v) holds of the model's
    dispatcher ([Model.C10.run]) on EVERY case line of all four ops. *)
From Coq Require Import ZArith List Bool Lia ZifyBool String.
From V Require Import Base.Int Base.IntLemmas Base.IO Base.Utf8 Model.Scan Model.DateTime Model.C10
  Spec.Gregorian Spec.Rfc3339 Proofs.Utf8 Proofs.Scan Proofs.Date Proofs.C10 Proofs.C10Writer Proofs.C10Date
  Proofs.C10Main Proofs.HoldsLib.
From V Require Model.Date Model.Time Judge.C10.
Import ListNotations.
Open Scope Z_scope.
Ltac Zify.zify_post_hook ::= Z.to_euclidean_division_equations.
Module J := Judge.C10.

(** the canonical encoding of a date-time is the judge's encoding of its five numbers *)
Lemma enc_dtz_tuple a : enc_dtz a = J.enc5 (tuple_of a).
Proof. reflexivity. Qed.

(** an error name of the reader is never one of the two protocol markers *)
Lemma perr_name_not_marker e :
  bytes_eqb (perr_name e) (B"BADARGS") || bytes_eqb (perr_name e) (B"NOOP") = false.
Proof. destruct e; vm_compute; reflexivity. Qed.

(** the judge's decoding agrees with the harness decoding of the model *)
Lemma dec5_dec_dtz z v : J.dec5 z = Some v ->
  let '(y, o, s, f, off) := v in z = value y o s f off /\ exists a, dec_dtz z = Some a.
Proof.
  unfold J.dec5. destruct z as [ | | | |l| | | |]; try discriminate.
  destruct l as [|[y| | | | | | | |] l]; try discriminate.
  destruct l as [|[o| | | | | | | |] l]; try discriminate.
  destruct l as [|[s| | | | | | | |] l]; try discriminate.
  destruct l as [|[f| | | | | | | |] l]; try discriminate.
  destruct l as [|[off| | | | | | | |] l]; try discriminate.
  destruct l; try discriminate.
  match goal with |- (if ?c then _ else _) = _ -> _ => destruct c eqn:E end; [|discriminate].
  intros H. injection H as <-. split; [reflexivity|].
  do 7 (apply andb_prop in E; destruct E as [E ?]).
  pose proof (year_range_bounds y E) as Hyb.
  assert (Ho : 1 <= o <= 366).
  { match goal with h : valid_yo y o = true |- _ => rewrite valid_yo_iff in h; destruct (is_leap y); lia end. }
  unfold dec_dtz, dec_ndt, dec_date, Time.dec_time.
  replace (in_i32 y) with true by (unfold in_i32, in_range, i32_min, i32_max; lia).
  replace (in_u32 o) with true by (unfold in_u32, in_range, u32_max; lia). cbn [andb].
  rewrite from_yo_opt_spec by (unfold in_i32, in_u32, in_range, i32_min, i32_max, u32_max; lia).
  rewrite E. match goal with h : valid_yo y o = true |- _ => rewrite h end. cbn [andb date_if].
  replace ((0 <=? s) && (s <? 86400) && (0 <=? f) && (f <? 2000000000)) with true by lia.
  unfold east_opt. change Gen.DateTimeConsts.FO_EAST_LO with (-86400). change Gen.DateTimeConsts.FO_EAST_HI with 86400.
  replace ((-86400 <? off) && (off <? 86400)) with true by lia.
  eexists. reflexivity.
Qed.

(** the judge's writer domain is the theorems' writer domain *)
Lemma writer_domain_of y o s f off sf :
  J.in_writer_domain (y, o, s, f, off) = true -> (0 <=? sf) && (sf <=? 4) = true ->
  writer_domain y o s f off sf.
Proof.
  unfold J.in_writer_domain, writer_domain, year_of_dn. destruct (yo_of_dn (wall_dn y o s off)) as [ly lo]. cbn [fst].
  intros H Hsf. repeat split; lia.
Qed.

Lemma list_eqb_refl l : J.list_eqb l l = true.
Proof. induction l as [|x l IH]; [reflexivity|]. cbn [J.list_eqb]. rewrite Z.eqb_refl, IH. reflexivity. Qed.

(** the judge of a written text accepts the text the writer theorem describes *)
Lemma judge_text_render y o s f off sf uz a :
  dec_dtz (value y o s f off) = Some a -> writer_domain y o s f off sf ->
  J.judge_text (y, o, s, f, off) sf uz (render (fields_of y o s f off sf uz)) = JOk.
Proof.
  intros Hdec Hdom.
  destruct (writer_in_grammar y o s f off sf uz a Hdec Hdom) as (_ & [Hwf _] & Hval & Hst & Hz & Hzo & Hden).
  set (g := fields_of y o s f off sf uz) in *.
  unfold J.judge_text. rewrite (recognise_render g Hwf), Hval, Hst. cbn [negb]. fold g.
  rewrite !Z.eqb_refl, list_eqb_refl. cbn [andb negb].
  assert (Hzb : (match f_zone g with Zulu _ => uz && (off =? 0) | Numeric _ _ _ => negb (uz && (off =? 0)) end) = true).
  { destruct (f_zone g).
    - destruct Hz as [-> ->]. reflexivity.
    - destruct uz; [|reflexivity]. destruct (off =? 0) eqn:E; [|reflexivity]. exfalso. apply Hz. split; [reflexivity|lia]. }
  rewrite Hzb. cbn [negb]. rewrite Hzo, Z.eqb_refl. cbn [negb].
  rewrite Hden. unfold J.truncated. apply hl_judge_eq_refl.
Qed.

Definition HOLDS (op : string) (args : list val) : Prop :=
  J.judge (bytes_of_string op) args (run (bytes_of_string op) args) <> JSkip ->
  J.judge (bytes_of_string op) args (run (bytes_of_string op) args) = JOk.

(** what each op name selects in the judge and in the dispatcher *)
Lemma jd_parse args out : J.judge (B"r3.parse") args out = match args with [VStr s] => J.judge_parse s out | _ => JSkip end.
Proof. reflexivity. Qed.
Lemma rn_parse args : run (B"r3.parse") args =
  match args with [VStr s] => if utf8_valid s then r3_parse s else VBad | _ => VBad end.
Proof. reflexivity. Qed.
Lemma jd_write args out : J.judge (B"r3.write") args out =
  match args with [z; VInt sf; VInt uz] => J.judge_write args (Some sf) (Some uz) out | _ => JSkip end.
Proof. reflexivity. Qed.
Lemma rn_write args : run (B"r3.write") args =
  match args with
  | [z; VInt sf; VInt uz] =>
      match dec_dtz z with
      | Some a => if (0 <=? sf) && (sf <=? 4) && ((uz =? 0) || (uz =? 1))
                  then val_of_R VStr (to_rfc3339_opts a sf (uz =? 1)) else VBad
      | None => VBad end
  | _ => VBad end.
Proof. reflexivity. Qed.
Lemma jd_show args out : J.judge (B"r3.show") args out =
  match args with [z] => J.judge_write args (Some 4) (Some 0) out | _ => JSkip end.
Proof. reflexivity. Qed.
Lemma rn_show args : run (B"r3.show") args =
  match args with [z] => match dec_dtz z with Some a => val_of_R VStr (to_rfc3339 a) | None => VBad end | _ => VBad end.
Proof. reflexivity. Qed.
Lemma jd_rt args out : J.judge (B"r3.rt") args out =
  match args with
  | [z; VInt sf; VInt uz] =>
      match J.dec5 z with
      | Some v =>
          if negb ((0 <=? sf) && (sf <=? 4) && ((uz =? 0) || (uz =? 1))) then JSkip else
          if negb (J.in_writer_domain v) then JSkip else
          judge_eq (J.enc5 (J.truncated v sf)) out
      | None => JSkip end
  | _ => JSkip end.
Proof. reflexivity. Qed.
Lemma rn_rt args : run (B"r3.rt") args =
  match args with
  | [z; VInt sf; VInt uz] =>
      match dec_dtz z with
      | Some a => if (0 <=? sf) && (sf <=? 4) && ((uz =? 0) || (uz =? 1))
                  then r3_rt a sf (uz =? 1) else VBad
      | None => VBad end
  | _ => VBad end.
Proof. reflexivity. Qed.

(** * r3.parse: every byte string *)
Lemma holds_parse args : HOLDS "r3.parse" args.
Proof.
  unfold HOLDS.
  rewrite (jd_parse args), (rn_parse args).
  destruct args as [|[z|s| |v|l|e| | |] [|? ?]]; try congruence.
  unfold J.judge_parse. destruct (utf8_valid s) eqn:U; cbn [negb]; [|congruence]. intros _.
  destruct (accept_exact s U) as (r & Hr & Hacc). unfold r3_parse. rewrite Hr. cbn [val_of_R].
  destruct (accepts s) as [v|].
  - destruct Hacc as (a & -> & <-). cbn [val_of_presult]. rewrite enc_dtz_tuple. apply hl_judge_eq_refl.
  - destruct Hacc as (e & ->). cbn [val_of_presult]. rewrite perr_name_not_marker. reflexivity.
Qed.

(** * r3.write / r3.show *)
Lemma write_out z sf uz v : J.dec5 z = Some v -> (0 <=? sf) && (sf <=? 4) = true -> J.in_writer_domain v = true ->
  exists a, dec_dtz z = Some a /\
    exists t, to_rfc3339_opts a sf uz = Val t /\ J.judge_text v sf uz t = JOk.
Proof.
  intros Hd Hsf Hw. pose proof (dec5_dec_dtz z v Hd) as Hz. destruct v as [[[[y o] s] f] off].
  destruct Hz as (-> & a & Ha). exists a. split; [exact Ha|].
  pose proof (writer_domain_of y o s f off sf Hw Hsf) as Hdom.
  destruct (writer_in_grammar y o s f off sf uz a Ha Hdom) as (Hw1 & _).
  eexists. split; [exact Hw1|]. apply (judge_text_render y o s f off sf uz a Ha Hdom).
Qed.

Lemma holds_write args : HOLDS "r3.write" args.
Proof.
  unfold HOLDS.
  rewrite (jd_write args), (rn_write args).
  destruct args as [|z [|[sf| | | | | | | |] [|[uz| | | | | | | |] [|? ?]]]]; try congruence.
  unfold J.judge_write. destruct (J.dec5 z) as [v|] eqn:Hd; [|congruence].
  destruct ((0 <=? sf) && (sf <=? 4) && ((uz =? 0) || (uz =? 1))) eqn:Ea; cbn [negb]; [|congruence].
  destruct (J.in_writer_domain v) eqn:Hw; cbn [negb]; [|congruence]. intros _.
  apply andb_prop in Ea. destruct Ea as [Hsf _].
  destruct (write_out z sf (uz =? 1) v Hd Hsf Hw) as (a & -> & t & -> & Hj). cbn [val_of_R]. exact Hj.
Qed.

Lemma holds_show args : HOLDS "r3.show" args.
Proof.
  unfold HOLDS.
  rewrite (jd_show args), (rn_show args).
  destruct args as [|z [|? ?]]; try congruence.
  unfold J.judge_write. destruct (J.dec5 z) as [v|] eqn:Hd; [|congruence].
  cbn [Z.leb Z.eqb Z.compare Pos.compare Pos.compare_cont andb orb negb].
  destruct (J.in_writer_domain v) eqn:Hw; cbn [negb]; [|congruence]. intros _.
  destruct (write_out z 4 false v Hd eq_refl Hw) as (a & -> & t & Ht & Hj).
  change (to_rfc3339 a) with (to_rfc3339_opts a 4 false). rewrite Ht. cbn [val_of_R]. exact Hj.
Qed.

(** * r3.rt *)
Lemma holds_rt args : HOLDS "r3.rt" args.
Proof.
  unfold HOLDS.
  rewrite (jd_rt args), (rn_rt args).
  destruct args as [|z [|[sf| | | | | | | |] [|[uz| | | | | | | |] [|? ?]]]]; try congruence.
  destruct (J.dec5 z) as [v|] eqn:Hd; [|congruence].
  destruct ((0 <=? sf) && (sf <=? 4) && ((uz =? 0) || (uz =? 1))) eqn:Ea; cbn [negb]; [|congruence].
  destruct (J.in_writer_domain v) eqn:Hw; cbn [negb]; [|congruence]. intros _.
  apply andb_prop in Ea. destruct Ea as [Hsf _].
  pose proof (dec5_dec_dtz z v Hd) as Hz. destruct v as [[[[y o] s] f] off].
  destruct Hz as (-> & a & Ha). rewrite Ha.
  pose proof (writer_domain_of y o s f off sf Hw Hsf) as Hdom.
  destruct (roundtrip y o s f off sf (uz =? 1) a Ha Hdom) as (t & a' & Hw1 & Hp & Ht).
  unfold r3_rt. rewrite Hw1. cbn [bind val_of_R]. unfold r3_parse. rewrite Hp. cbn [val_of_R val_of_presult].
  rewrite enc_dtz_tuple, Ht. unfold J.truncated. apply hl_judge_eq_refl.
Qed.

(** * every op *)
Theorem C10_holds op args : J.judge op args (run op args) <> JSkip -> J.judge op args (run op args) = JOk.
Proof.
  destruct (op_is op "r3.parse") eqn:P1; [apply hl_op_is_eq in P1; subst; apply holds_parse|].
  destruct (op_is op "r3.write") eqn:P2; [apply hl_op_is_eq in P2; subst; apply holds_write|].
  destruct (op_is op "r3.show") eqn:P3; [apply hl_op_is_eq in P3; subst; apply holds_show|].
  destruct (op_is op "r3.rt") eqn:P4; [apply hl_op_is_eq in P4; subst; apply holds_rt|].
  intros H. exfalso. apply H. unfold J.judge. rewrite P1, P2, P3, P4. reflexivity.
Qed.
Corollary C10_never_bad op args : not_bad (J.judge op args (run op args)).
Proof. apply hl_never_bad. apply C10_holds. Qed.

(** the judge has an opinion on each op: the theorem is not vacuous *)
Example holds_examples :
  J.judge (B"r3.parse") [VStr (B"1990-12-31T23:59:60Z")] (run (B"r3.parse") [VStr (B"1990-12-31T23:59:60Z")]) = JOk /\
  J.judge (B"r3.parse") [VStr (B"2015-02-18T23:16:09+24:00")] (run (B"r3.parse") [VStr (B"2015-02-18T23:16:09+24:00")]) = JOk /\
  (let z := value 1996 354 2397 500000000 (-28800) in
   J.judge (B"r3.write") [z; VInt 4; VInt 1] (run (B"r3.write") [z; VInt 4; VInt 1]) = JOk /\
   J.judge (B"r3.show") [z] (run (B"r3.show") [z]) = JOk /\
   J.judge (B"r3.rt") [z; VInt 1; VInt 0] (run (B"r3.rt") [z; VInt 1; VInt 0]) = JOk).
Proof. vm_compute. repeat split. Qed.

(** * the dispatcher, op by op *)
Lemma dispatch args :
  run (B"r3.parse") args =
    match args with [VStr s] => if utf8_valid s then r3_parse s else VBad | _ => VBad end /\
  run (B"r3.write") args =
    match args with
    | [z; VInt sf; VInt uz] =>
        match dec_dtz z with
        | Some a => if (0 <=? sf) && (sf <=? 4) && ((uz =? 0) || (uz =? 1))
                    then val_of_R VStr (to_rfc3339_opts a sf (uz =? 1)) else VBad
        | None => VBad end
    | _ => VBad end /\
  run (B"r3.show") args =
    match args with [z] => match dec_dtz z with Some a => val_of_R VStr (to_rfc3339 a) | None => VBad end | _ => VBad end /\
  run (B"r3.rt") args =
    match args with
    | [z; VInt sf; VInt uz] =>
        match dec_dtz z with
        | Some a => if (0 <=? sf) && (sf <=? 4) && ((uz =? 0) || (uz =? 1))
                    then r3_rt a sf (uz =? 1) else VBad
        | None => VBad end
    | _ => VBad end.
Proof. repeat split. Qed.

Lemma to_rfc3339_is_opts a : to_rfc3339 a = to_rfc3339_opts a 4 false.
Proof. reflexivity. Qed.
Lemma show_is_write z : run (B"r3.show") [z] = run (B"r3.write") [z; VInt 4; VInt 0].
Proof. rewrite rn_show, rn_write. destruct (dec_dtz z); reflexivity. Qed.

Lemma val_of_R_str_inv (r : R bytes) t : val_of_R VStr r = VStr t -> r = Val t.
Proof. destruct r; cbn [val_of_R]; try discriminate. intros H. injection H as ->. reflexivity. Qed.
Lemma rt_is_parse_of_write z sf uz t :
  run (B"r3.write") [z; VInt sf; VInt uz] = VStr t -> utf8_valid t = true ->
  run (B"r3.rt") [z; VInt sf; VInt uz] = run (B"r3.parse") [VStr t].
Proof.
  rewrite rn_write, rn_rt, rn_parse. destruct (dec_dtz z) as [a|]; [|discriminate].
  destruct ((0 <=? sf) && (sf <=? 4) && ((uz =? 0) || (uz =? 1))); [|discriminate].
  intros H U. apply val_of_R_str_inv in H. unfold r3_rt. rewrite H, U. cbn [bind val_of_R].
  unfold r3_parse. destruct (parse_from_rfc3339 t); reflexivity.
Qed.

Lemma parse_utc_target a y o s f off : tuple_of a = (y, o, s, f, off) -> tuple_of (with_timezone a 0) = (y, o, s, f, 0).
Proof. unfold tuple_of, with_timezone, from_utc_datetime. cbn [dz_utc dz_off]. intros H. injection H as <- <- <- <- _. reflexivity. Qed.
