(** Round trip of the TZif reader against the specification writer of Spec/TzWriter.v:
    [parse (write_tzif_v1 z) = Val (Ok z)] and [parse (write_tzif_v2 z) = Val (Ok z)] for every
    zone these layouts can carry (no leap records, no footer rule). *)
From Coq Require Import ZArith List Bool Lia ZifyBool.
From V Require Import Base.Int Base.IO Base.IntLemmas Gen.TzInfo.
From V Require Import Model.TzParser Model.TzRule Spec.TzWriter.
From V Require Import Proofs.TzCommon Proofs.TzRoundtrip.
Import ListNotations.
Open Scope Z_scope.
Ltac Zify.zify_post_hook ::= Z.to_euclidean_division_equations.

Lemma bind_val {A T} (a : A) (f : A -> R T) : bind (Val a) f = f a.
Proof. reflexivity. Qed.

(** ** Big-endian words *)
Lemma zlen_be32 v : zlen (be32 v) = 4.
Proof. reflexivity. Qed.
Lemma zlen_be64 v : zlen (be64 v) = 8.
Proof. reflexivity. Qed.
Lemma be_uint_be32 v : be_uint (be32 v) = v mod 4294967296.
Proof. unfold be32, be_uint. cbn [fold_left]. lia. Qed.
Lemma be_uint_app4 a b : zlen b = 4 -> be_uint (a ++ b) = be_uint a * 4294967296 + be_uint b.
Proof.
  intros H. destruct (len4_inv b H) as (b0 & b1 & b2 & b3 & ->).
  unfold be_uint. rewrite fold_left_app. cbn [fold_left]. lia.
Qed.
Lemma be_uint_be64 v : be_uint (be64 v) = v mod 18446744073709551616.
Proof.
  unfold be64. rewrite be_uint_app4 by reflexivity. rewrite !be_uint_be32. lia.
Qed.
Lemma as_i32_be32 v : in_i32 v = true -> as_i32 (be_uint (be32 v)) = v.
Proof.
  intros H. rewrite be_uint_be32. unfold as_i32, wrap_s.
  change (2 ^ 32) with 4294967296. change (2 ^ (32 - 1)) with 2147483648.
  unfold in_i32, in_range, i32_min, i32_max in H.
  destruct (v mod 4294967296 mod 4294967296 <? 2147483648) eqn:E; lia.
Qed.
Lemma as_i64_be64 v : in_i64 v = true -> as_i64 (be_uint (be64 v)) = v.
Proof.
  intros H. rewrite be_uint_be64. unfold as_i64, wrap_s.
  change (2 ^ 64) with 18446744073709551616. change (2 ^ (64 - 1)) with 9223372036854775808.
  unfold in_i64, in_range, i64_min, i64_max in H.
  destruct (v mod 18446744073709551616 mod 18446744073709551616 <? 9223372036854775808) eqn:E; lia.
Qed.
Lemma be_uint_be32_count v : 0 <= v <= u32_max -> be_uint (be32 v) = v.
Proof. intros H. rewrite be_uint_be32. unfold u32_max in H. lia. Qed.

Lemma read_exact_app' a rest rc n : zlen a = n -> fits rc (a ++ rest) ->
  read_exact (mk_cur (a ++ rest) rc) n = ok (a, mk_cur rest (rc + n)).
Proof. intros <- H. apply read_exact_app. exact H. Qed.

Lemma read_be_u32_exact v rest rc : 0 <= v <= u32_max -> fits rc (be32 v ++ rest) ->
  read_be_u32 (mk_cur (be32 v ++ rest) rc) = ok (v, mk_cur rest (rc + 4)).
Proof.
  intros Hv Hfit. unfold read_be_u32. rewrite (read_exact_app' (be32 v) rest rc 4) by (try reflexivity; exact Hfit).
  rewrite rbind_ok. cbv beta iota. unfold copy_from_slice. rewrite zlen_be32. cbn [Z.eqb Pos.eqb]. cbv [bind].
  rewrite be_uint_be32_count by exact Hv. reflexivity.
Qed.

Lemma as_usize_id' z : 0 <= z <= u32_max -> as_usize z = z.
Proof. intros H. change (as_usize z) with (as_u64 z). apply as_u64_id. range_solver. Qed.

(** ** Header *)
Definition ver_of (ver : Z) : version := if ver =? 0 then V1 else if ver =? 50 then V2 else V3.
Lemma header_new_exact ver lc tc yc cc rest rc :
  (ver = 0 \/ ver = 50 \/ ver = 51) ->
  0 <= lc <= u32_max -> 0 <= tc <= u32_max -> 1 <= yc <= u32_max -> 1 <= cc <= u32_max ->
  fits rc (tzif_header ver lc tc yc cc ++ rest) ->
  header_new (mk_cur (tzif_header ver lc tc yc cc ++ rest) rc)
  = ok (mk_hdr (ver_of ver) 0 0 lc tc yc cc, mk_cur rest (rc + 44)).
Proof.
  intros Hver Hlc Htc Hyc Hcc Hfit. unfold header_new, tzif_header in *.
  rewrite <- ?app_assoc in *.
  change ([84; 90; 105; 102; ver] ++ ?x) with ([84; 90; 105; 102] ++ [ver] ++ x) in *.
  rewrite (read_exact_app' [84; 90; 105; 102] _ rc 4) by (try reflexivity; exact Hfit).
  rewrite rbind_ok. cbv beta iota. apply fits_app in Hfit. change (zlen [84; 90; 105; 102]) with 4 in Hfit.
  change (bytes_eqb [84; 90; 105; 102] _) with true. cbn [negb].
  rewrite (read_exact_app' [ver] _ (rc + 4) 1) by (try reflexivity; exact Hfit).
  rewrite rbind_ok. cbv beta iota. apply fits_app in Hfit. change (zlen [ver]) with 1 in Hfit.
  assert (Hv : match [ver] with [0] => ok V1 | [50] => ok V2 | [51] => ok V3 | _ => fail EUnsupportedTzFile end = ok (ver_of ver)).
  { destruct Hver as [-> | [-> | ->]]; reflexivity. }
  rewrite Hv, rbind_ok.
  rewrite (read_exact_app' (repeat 0 15%nat) _ (rc + 4 + 1) 15) by (try reflexivity; exact Hfit).
  rewrite rbind_ok. cbv beta iota. apply fits_app in Hfit. change (zlen (repeat 0 15%nat)) with 15 in Hfit.
  rewrite read_be_u32_exact by (try exact Hfit; unfold u32_max; lia). rewrite rbind_ok. cbv beta iota.
  apply fits_app in Hfit. rewrite zlen_be32 in Hfit.
  rewrite read_be_u32_exact by (try exact Hfit; unfold u32_max; lia). rewrite rbind_ok. cbv beta iota.
  apply fits_app in Hfit. rewrite zlen_be32 in Hfit.
  rewrite read_be_u32_exact by (try exact Hfit; lia). rewrite rbind_ok. cbv beta iota.
  apply fits_app in Hfit. rewrite zlen_be32 in Hfit.
  rewrite read_be_u32_exact by (try exact Hfit; lia). rewrite rbind_ok. cbv beta iota.
  apply fits_app in Hfit. rewrite zlen_be32 in Hfit.
  rewrite read_be_u32_exact by (try exact Hfit; lia). rewrite rbind_ok. cbv beta iota.
  apply fits_app in Hfit. rewrite zlen_be32 in Hfit.
  rewrite read_be_u32_exact by (try exact Hfit; lia). rewrite rbind_ok. cbv beta iota.
  replace (negb (negb (yc =? 0) && negb (cc =? 0) && ((0 =? 0) || (0 =? yc)) && ((0 =? 0) || (0 =? yc)))) with false by lia.
  change (as_usize 0) with 0.
  rewrite !as_usize_id' by (unfold u32_max in *; lia).
  replace (rc + 4 + 1 + 15 + 4 + 4 + 4 + 4 + 4 + 4) with (rc + 44) by lia. reflexivity.
Qed.

(** ** Data block *)
Lemma zlen_flat_map {A} (f : A -> bytes) k (l : list A) : (forall x, zlen (f x) = k) -> zlen (flat_map f l) = k * zlen l.
Proof.
  intros H. induction l as [|x r IH]; cbn [flat_map]; [change (zlen (@nil Z)) with 0; change (zlen (@nil A)) with 0; lia|].
  rewrite zlen_app, zlen_cons, H, IH. lia.
Qed.
Lemma zlen_map {A T} (f : A -> T) (l : list A) : zlen (map f l) = zlen l.
Proof. unfold zlen. rewrite map_length. reflexivity. Qed.
Lemma desig_indices_len types : forall pos, List.length (desig_indices types pos) = List.length types.
Proof. induction types as [|l r IH]; intros pos; cbn [desig_indices List.length]; [reflexivity|]. rewrite IH. reflexivity. Qed.
Lemma zlen_combine_idx types pos : zlen (combine types (desig_indices types pos)) = zlen types.
Proof. unfold zlen. rewrite combine_length, desig_indices_len, Nat.min_id. reflexivity. Qed.
Lemma zlen_enc_type p : zlen (enc_type p) = 6.
Proof. destruct p as [l i]. reflexivity. Qed.
Lemma zlen_be_time ts v : (ts = 4 \/ ts = 8) -> zlen (be_time ts v) = ts.
Proof. intros [-> | ->]; reflexivity. Qed.
Lemma types_le_table types : zlen types <= zlen (desig_table types).
Proof.
  induction types as [|l r IH]; [change (zlen (@nil ltt)) with 0; change (zlen (desig_table [])) with 0; lia|].
  unfold desig_table in *. cbn [flat_map]. rewrite zlen_cons, !zlen_app, zlen_cons.
  pose proof (zlen_nonneg (name_of l)). change (zlen (@nil Z)) with 0. lia.
Qed.

Definition block_hdr (ver : Z) (z : timezone) : header :=
  mk_hdr (ver_of ver) 0 0 0 (zlen (transitions z)) (zlen (local_time_types z)) (zlen (desig_table (local_time_types z))).
Definition block_state (ver ts : Z) (z : timezone) : state :=
  mk_state (block_hdr ver z) ts
    (flat_map (fun t => be_time ts (tr_time t)) (transitions z))
    (map tr_idx (transitions z))
    (flat_map enc_type (combine (local_time_types z) (desig_indices (local_time_types z) 0)))
    (desig_table (local_time_types z)) [] [] [].

Lemma state_new_exact ver (first : bool) z rest rc :
  (ver = 0 \/ ver = 50 \/ ver = 51) ->
  local_time_types z <> [] -> zlen (desig_table (local_time_types z)) <= 256 ->
  zlen (transitions z) <= 100000 -> leap_seconds z = [] ->
  fits rc (tzif_block ver (if first then 4 else 8) z ++ rest) ->
  state_new (mk_cur (tzif_block ver (if first then 4 else 8) z ++ rest) rc) first
  = ok (block_state ver (if first then 4 else 8) z,
        mk_cur rest (rc + zlen (tzif_block ver (if first then 4 else 8) z))).
Proof.
  intros Hver Hne Hcc Htc Hlp Hfit. set (ts := if first then 4 else 8) in *.
  assert (Hts : ts = 4 \/ ts = 8) by (subst ts; destruct first; auto).
  pose proof (types_le_table (local_time_types z)) as Hyc.
  assert (Hy1 : 1 <= zlen (local_time_types z)).
  { destruct (local_time_types z) as [|l0 r0]; [congruence|]. rewrite zlen_cons. pose proof (zlen_nonneg r0). lia. }
  pose proof (zlen_nonneg (transitions z)) as Ht0.
  unfold state_new, tzif_block in *. rewrite Hlp in *. cbn [flat_map] in *. rewrite app_nil_r in *.
  change (zlen (@nil leap)) with 0 in *.
  set (T := flat_map (fun t => be_time ts (tr_time t)) (transitions z)) in *.
  set (I := map tr_idx (transitions z)) in *.
  set (Y := flat_map enc_type (combine (local_time_types z) (desig_indices (local_time_types z) 0))) in *.
  set (N := desig_table (local_time_types z)) in *.
  assert (HT : zlen T = zlen (transitions z) * ts).
  { subst T. rewrite (zlen_flat_map _ ts); [lia|]. intros x. apply zlen_be_time. exact Hts. }
  assert (HI : zlen I = zlen (transitions z)) by (subst I; apply zlen_map).
  assert (HY : zlen Y = zlen (local_time_types z) * 6).
  { subst Y. rewrite (zlen_flat_map _ 6) by apply zlen_enc_type. rewrite zlen_combine_idx. lia. }
  rewrite <- ?app_assoc in *.
  rewrite header_new_exact; [|exact Hver|unfold u32_max; lia|unfold u32_max; lia|unfold u32_max; lia|unfold u32_max; lia|exact Hfit].
  rewrite rbind_ok. cbv beta iota. cbn [transition_count type_count char_count leap_count std_wall_count ut_local_count].
  apply fits_app in Hfit. change (zlen (tzif_header _ _ _ _ _)) with 44 in Hfit.
  unfold mul_usize, add_usize.
  replace (if first then 4 else 8) with ts by reflexivity.
  rewrite chk_in by (destruct Hts as [-> | ->]; range_solver). cbv [bind].
  rewrite (read_exact_app' T _ _ (zlen (transitions z) * ts)) by (try exact HT; exact Hfit).
  rewrite rbind_ok. cbv beta iota. apply fits_app in Hfit. rewrite HT in Hfit.
  rewrite (read_exact_app' I _ _ (zlen (transitions z))) by (try exact HI; exact Hfit).
  rewrite rbind_ok. cbv beta iota. apply fits_app in Hfit. rewrite HI in Hfit.
  rewrite chk_in by range_solver. cbv beta iota.
  rewrite (read_exact_app' Y _ _ (zlen (local_time_types z) * 6)) by (try exact HY; exact Hfit).
  rewrite rbind_ok. cbv beta iota. apply fits_app in Hfit. rewrite HY in Hfit.
  rewrite (read_exact_app' N _ _ (zlen N)) by (try reflexivity; exact Hfit).
  rewrite rbind_ok. cbv beta iota. apply fits_app in Hfit.
  rewrite chk_in by (destruct Hts as [-> | ->]; range_solver). cbv beta iota.
  rewrite chk_in by (destruct Hts as [-> | ->]; range_solver). cbv beta iota.
  change rest with ([] ++ rest) in Hfit at 1.
  rewrite (read_exact_app' [] rest _ (0 * (ts + 4))) by (try (change (zlen (@nil Z)) with 0; lia); exact Hfit).
  rewrite rbind_ok. cbv beta iota. apply fits_app in Hfit. change (zlen (@nil Z)) with 0 in Hfit.
  replace (0 * (ts + 4)) with 0 by lia.
  change rest with ([] ++ rest) in Hfit at 1.
  rewrite (read_exact_app' [] rest _ 0) by (try reflexivity; exact Hfit).
  rewrite rbind_ok. cbv beta iota. apply fits_app in Hfit. change (zlen (@nil Z)) with 0 in Hfit.
  change rest with ([] ++ rest) in Hfit at 1.
  rewrite (read_exact_app' [] rest _ 0) by (try reflexivity; exact Hfit).
  rewrite rbind_ok. cbv beta iota.
  unfold block_state, block_hdr. fold T I Y N.
  rewrite !zlen_app. change (zlen (tzif_header _ _ _ _ _)) with 44. change (zlen (@nil Z)) with 0.
  match goal with |- ok (_, mk_cur _ ?x) = ok (_, mk_cur _ ?y) => replace y with x by lia end.
  reflexivity.
Qed.

(** ** Decoding the records *)
Lemma chunks_aux_app n : forall a k acc rest, List.length a = S k ->
  chunks_aux n k acc (a ++ rest) = (rev acc ++ a) :: chunks_aux n (pred n) [] rest.
Proof.
  induction a as [|x a IH]; intros k acc rest Hl; [cbn in Hl; lia|].
  cbn [app chunks_aux]. destruct k as [|k'].
  - destruct a; [|cbn in Hl; lia]. cbn [app rev]. reflexivity.
  - rewrite IH by (cbn in Hl; lia). cbn [rev]. rewrite <- app_assoc. reflexivity.
Qed.
Lemma chunks_flat_map {A} (f : A -> bytes) (n : nat) (l : list A) : (1 <= n)%nat ->
  (forall x, List.length (f x) = n) -> chunks_aux n (pred n) [] (flat_map f l) = map f l.
Proof.
  intros Hn Hf. induction l as [|x r IH]; [reflexivity|].
  cbn [flat_map map]. rewrite chunks_aux_app by (rewrite Hf; lia). rewrite IH. reflexivity.
Qed.
Lemma chunks_exact_flat_map {A} (f : A -> bytes) n (l : list A) : 1 <= n ->
  (forall x, zlen (f x) = n) -> chunks_exact n (flat_map f l) = Val (map f l).
Proof.
  intros Hn Hf. unfold chunks_exact. replace (n <=? 0) with false by lia.
  rewrite chunks_flat_map; [reflexivity|lia|]. intros x. specialize (Hf x). unfold zlen in Hf. lia.
Qed.

Lemma map_res_exact {A T} (g : A -> R (res T)) (h : A -> T) (l : list A) :
  (forall x, In x l -> g x = ok (h x)) -> map_res g l = ok (map h l).
Proof.
  induction l as [|x r IH]; intros H; [reflexivity|].
  cbn [map_res map]. rewrite H by (left; reflexivity). rewrite rbind_ok.
  rewrite IH by (intros y Hy; apply H; right; exact Hy). rewrite rbind_ok. reflexivity.
Qed.
Lemma zip_map {A} (f : A -> bytes) (g : A -> Z) (l : list A) :
  zip (map f l) (map g l) = map (fun x => (f x, g x)) l.
Proof. induction l as [|x r IH]; [reflexivity|]. cbn [map zip]. rewrite IH. reflexivity. Qed.

Lemma slice_full (s : bytes) n : zlen s = n -> slice s 0 n = Val s.
Proof.
  intros H. unfold slice. pose proof (zlen_nonneg s).
  replace ((0 <=? 0) && (0 <=? n) && (n <=? zlen s)) with true by lia.
  cbn [Z.to_nat skipn]. replace (n - 0) with (zlen s) by lia.
  rewrite <- (app_nil_r s) at 2. rewrite firstn_zlen_app. reflexivity.
Qed.

Lemma parse_time_be ts ver v :
  ((ts = 4 /\ ver = V1 /\ in_i32 v = true) \/ (ts = 8 /\ ver <> V1 /\ in_i64 v = true)) ->
  parse_time (be_time ts v) ver = ok v.
Proof.
  intros [(-> & -> & Hv) | (-> & Hver & Hv)]; unfold parse_time, be_time; cbn [Z.eqb Pos.eqb].
  - unfold slice_to. rewrite slice_full by reflexivity. cbv [bind].
    unfold read_be_i32, copy_from_slice. rewrite zlen_be32. cbn [Z.eqb Pos.eqb negb]. cbv [bind].
    rewrite as_i32_be32 by exact Hv. reflexivity.
  - assert (E : read_be_i64 (be64 v) = ok v).
    { unfold read_be_i64, copy_from_slice. rewrite zlen_be64. cbn [Z.eqb Pos.eqb negb]. cbv [bind].
      rewrite as_i64_be64 by exact Hv. reflexivity. }
    destruct ver; [congruence|exact E|exact E].
Qed.

Lemma decode_transitions ts ver trs :
  (ts = 4 \/ ts = 8) ->
  Forall (fun t => ((ts = 4 /\ ver = V1 /\ in_i32 (tr_time t) = true) \/ (ts = 8 /\ ver <> V1 /\ in_i64 (tr_time t) = true))
                   /\ 0 <= tr_idx t <= u32_max) trs ->
  map_res (fun '(arr_time, ty) =>
             let* a := slice arr_time 0 ts in
             let+ t := parse_time a ver in
             ok (mk_tr t (as_usize ty)))
          (zip (map (fun t => be_time ts (tr_time t)) trs) (map tr_idx trs))
  = ok trs.
Proof.
  intros Hts HF. rewrite zip_map. induction HF as [|t r [Ht Hi] HF IH]; [reflexivity|].
  cbn [map map_res]. rewrite slice_full by (apply zlen_be_time; exact Hts). rewrite bind_val.
  rewrite parse_time_be by exact Ht. rewrite rbind_ok. rewrite rbind_ok.
  rewrite IH. rewrite rbind_ok. rewrite as_usize_id' by exact Hi. destruct t; reflexivity.
Qed.

Lemma slice_mid (pre mid post : bytes) :
  slice (pre ++ mid ++ post) (zlen pre) (zlen pre + zlen mid) = Val mid.
Proof.
  unfold slice. pose proof (zlen_nonneg pre). pose proof (zlen_nonneg mid). pose proof (zlen_nonneg post).
  rewrite !zlen_app.
  replace ((0 <=? zlen pre) && (zlen pre <=? zlen pre + zlen mid) && (zlen pre + zlen mid <=? zlen pre + (zlen mid + zlen post))) with true by lia.
  rewrite skipn_zlen_app. replace (zlen pre + zlen mid - zlen pre) with (zlen mid) by lia.
  rewrite firstn_zlen_app. reflexivity.
Qed.

Lemma table_locate : forall types pre,
  Forall (fun p => exists pre' post, pre ++ desig_table types = pre' ++ name_of (fst p) ++ 0 :: post /\ zlen pre' = snd p)
         (combine types (desig_indices types (zlen pre))).
Proof.
  induction types as [|l r IH]; intros pre; cbn [desig_indices combine]; [constructor|].
  constructor.
  - exists pre, (desig_table r). cbn [fst snd]. split; [|reflexivity].
    unfold desig_table. cbn [flat_map]. rewrite <- !app_assoc. reflexivity.
  - specialize (IH (pre ++ name_of l ++ [0])).
    rewrite !zlen_app in IH. change (zlen [0]) with 1 in IH.
    replace (zlen pre + (zlen (name_of l) + 1)) with (zlen pre + zlen (name_of l) + 1) in IH by lia.
    eapply Forall_impl; [|exact IH]. intros p (pre' & post & Heq & Hl). exists pre', post. split; [|exact Hl].
    rewrite <- Heq. unfold desig_table. cbn [flat_map]. rewrite <- !app_assoc. reflexivity.
Qed.

Lemma name_chars_nonzero n : Forall (fun b => is_name_char b = true) n -> Forall (fun x => negb (x =? 0) = true) n.
Proof. intros H. eapply Forall_impl; [|exact H]. intros b Hb. unfold is_name_char in Hb. lia. Qed.

Lemma parse_ltt_exact N cc l idx pre post : type_writable l ->
  N = pre ++ name_of l ++ 0 :: post -> zlen pre = idx -> zlen N = cc -> cc <= 256 ->
  parse_ltt N cc (enc_type (l, idx)) = ok l.
Proof.
  intros [Hoff Hname] HN Hidx Hcc Hc256. unfold parse_ltt, enc_type.
  pose proof (zlen_nonneg pre) as Hp0. pose proof (zlen_nonneg post) as Hq0. pose proof (zlen_nonneg (name_of l)) as Hn0.
  assert (HNl : zlen N = zlen pre + zlen (name_of l) + 1 + zlen post) by (rewrite HN, !zlen_app, zlen_cons; lia).
  (* the six bytes of the record *)
  unfold slice_to.
  assert (Hs4 : slice (be32 (ut_offset l) ++ [if is_dst l then 1 else 0; idx]) 0 4 = Val (be32 (ut_offset l))).
  { pose proof (slice_mid [] (be32 (ut_offset l)) [if is_dst l then 1 else 0; idx]) as H. cbn [app] in H.
    change (zlen (@nil Z)) with 0 in H. rewrite zlen_be32 in H. exact H. }
  rewrite Hs4, bind_val.
  unfold read_be_i32, copy_from_slice. rewrite zlen_be32. cbn [Z.eqb Pos.eqb negb]. rewrite bind_val.
  rewrite as_i32_be32 by range_solver. rewrite rbind_ok.
  assert (Hi4 : index (be32 (ut_offset l) ++ [if is_dst l then 1 else 0; idx]) 4 = Val (if is_dst l then 1 else 0)) by reflexivity.
  assert (Hi5 : index (be32 (ut_offset l) ++ [if is_dst l then 1 else 0; idx]) 5 = Val idx) by reflexivity.
  rewrite Hi4, bind_val.
  assert (Hdst : (match (if is_dst l then 1 else 0) with 0 => ok false | 1 => ok true | _ => fail EInvalidTzFile end) = ok (is_dst l))
    by (destruct (is_dst l); reflexivity).
  rewrite Hdst, rbind_ok. rewrite Hi5, bind_val. cbv zeta.
  replace (idx >=? cc) with false by lia.
  (* the designation *)
  unfold slice_from.
  assert (Htail : slice N idx (zlen N) = Val (name_of l ++ 0 :: post)).
  { rewrite HN at 1. pose proof (slice_mid pre (name_of l ++ 0 :: post) []) as H. rewrite app_nil_r in H.
    rewrite Hidx in H. rewrite HNl. rewrite zlen_app, zlen_cons in H. rewrite Hidx.
    replace (idx + zlen (name_of l) + 1 + zlen post) with (idx + (zlen (name_of l) + (1 + zlen post))) by lia. exact H. }
  rewrite Htail, bind_val.
  assert (Hnz : Forall (fun x => negb (x =? 0) = true) (name_of l)).
  { unfold name_of. destruct (name l) as [n|]; [apply name_chars_nonzero; apply Hname|constructor]. }
  rewrite (prefix_len_app (fun x => negb (x =? 0)) (name_of l) (0 :: post) Hnz) by reflexivity.
  rewrite zlen_app, zlen_cons. replace (zlen (name_of l) >=? zlen (name_of l) + (1 + zlen post)) with false by lia.
  unfold add_usize. rewrite chk_in by range_solver. rewrite bind_val.
  assert (Hnm : slice N idx (idx + zlen (name_of l)) = Val (name_of l)).
  { rewrite HN, <- Hidx. change (0 :: post) with ([0] ++ post). apply slice_mid. }
  rewrite Hnm, bind_val.
  assert (Hopt : match name_of l with [] => None | _ :: _ => Some (name_of l) end = name l).
  { unfold name_of. destruct (name l) as [n|]; [|reflexivity]. destruct n; [|reflexivity].
    destruct Hname as [Hl _]. change (zlen (@nil Z)) with 0 in Hl. lia. }
  rewrite Hopt.
  unfold ltt_new. replace (ut_offset l =? i32_min) with false by (unfold i32_min; lia).
  destruct l as [off d nm]. cbn [ut_offset is_dst name] in *.
  destruct nm as [n|]; [|reflexivity].
  destruct Hname as [Hl Hc]. unfold tz_name_new, TZ_NAME_MIN, TZ_NAME_MAX.
  replace (negb ((3 <=? zlen n) && (zlen n <=? 7))) with false by lia.
  rewrite name_loop_exact by (try lia; assumption). rewrite !rbind_ok. reflexivity.
Qed.

Lemma decode_types_gen N cc : zlen N = cc -> cc <= 256 -> forall types pos,
  Forall type_writable types ->
  Forall (fun p => exists pre' post, N = pre' ++ name_of (fst p) ++ 0 :: post /\ zlen pre' = snd p)
         (combine types (desig_indices types pos)) ->
  map_res (parse_ltt N cc) (map enc_type (combine types (desig_indices types pos))) = ok types.
Proof.
  intros Hcc Hc. induction types as [|l r IH]; intros pos Hw Hloc; [reflexivity|].
  cbn [desig_indices combine map map_res] in *.
  inversion Hw as [|? ? Hl Hw']. inversion Hloc as [|? ? (pre' & post & Heq & Hlen) Hloc'].
  cbn [fst snd] in *.
  rewrite (parse_ltt_exact N cc l pos pre' post) by assumption.
  rewrite rbind_ok. rewrite IH by assumption. rewrite rbind_ok. reflexivity.
Qed.
Lemma decode_types N cc types : Forall type_writable types -> N = desig_table types -> zlen N = cc -> cc <= 256 ->
  map_res (parse_ltt N cc) (map enc_type (combine types (desig_indices types 0))) = ok types.
Proof.
  intros Hw HN Hcc Hc. apply decode_types_gen; try assumption.
  pose proof (table_locate types []) as Hloc. cbn [app] in Hloc. change (zlen (@nil Z)) with 0 in Hloc.
  rewrite <- HN in Hloc. exact Hloc.
Qed.

(** ** Construction and the whole reader *)
Lemma indicators_bad_nil n : indicators_bad n [] [] = false.
Proof. induction n as [|n IH]; [reflexivity|]. cbn [indicators_bad]. rewrite IH. reflexivity. Qed.

Lemma validate_transitions_ok n : forall trs,
  Forall (fun t => tr_idx t < n) trs -> strictly_increasing (map tr_time trs) ->
  validate_transitions n trs = Ok tt.
Proof.
  induction trs as [|t r IH]; intros HF Hinc; [reflexivity|].
  inversion HF as [|? ? Ht HF']; subst. cbn [validate_transitions].
  replace (tr_idx t >=? n) with false by lia.
  destruct r as [|t2 r']; [reflexivity|].
  cbn [map strictly_increasing] in Hinc. destruct Hinc as [H1 H2].
  replace (tr_time t >=? tr_time t2) with false by lia. apply IH; assumption.
Qed.

Lemma tz_new_exact trs types : types <> [] ->
  Forall (fun t => tr_idx t < zlen types) trs -> strictly_increasing (map tr_time trs) ->
  tz_new trs types [] None = ok (mk_tz trs types [] None).
Proof.
  intros Hne HF Hinc. unfold tz_new, validate. cbn [local_time_types transitions leap_seconds extra_rule].
  assert (Hn : (zlen types =? 0) = false).
  { destruct types as [|l r]; [congruence|]. rewrite zlen_cons. pose proof (zlen_nonneg r). lia. }
  rewrite Hn. rewrite validate_transitions_ok by assumption.
  change (Val (Ok tt)) with (ok tt). rewrite !rbind_ok. cbn [validate_leaps].
  change (Val (Ok tt)) with (ok tt). rewrite !rbind_ok. reflexivity.
Qed.

(* everything after the data blocks have been cut out *)
Ltac finish_tail z Hw :=
  let Hne := fresh "Hne" in let Hty := fresh "Hty" in let Hcc := fresh "Hcc" in let Htr := fresh "Htr" in
  let Hinc := fresh "Hinc" in let Htc := fresh "Htc" in let Hlp := fresh "Hlp" in let Hrule := fresh "Hrule" in
  destruct Hw as (Hne & Hty & Hcc & Htr & Hinc & Htc & Hlp & Hrule);
  cbv zeta; unfold block_state, block_hdr;
  cbn [st_header time_size st_transition_times st_transition_types st_local_time_types st_names
       st_leap_seconds st_std_walls st_ut_locals h_version transition_count type_count char_count].

Theorem writer_roundtrip_v1 z : zone_writable 4 z -> parse (write_tzif_v1 z) = Val (Ok z).
Proof.
  intros Hw. unfold parse, write_tzif_v1, cur_new.
  pose proof Hw as (Hne & Hty & Hcc & Htr & Hinc & Htc & Hlp & Hrule).
  pose proof (types_le_table (local_time_types z)) as Hyc.
  assert (Hfit : fits 0 (tzif_block 0 4 z ++ [])).
  { unfold fits, u64_max. split; [lia|]. rewrite app_nil_r. unfold tzif_block. rewrite Hlp. cbn [flat_map].
    rewrite !zlen_app. change (zlen (tzif_header _ _ _ _ _)) with 44. change (zlen (@nil Z)) with 0.
    rewrite (zlen_flat_map _ 4) by (intros; reflexivity). rewrite zlen_map.
    rewrite (zlen_flat_map _ 6) by apply zlen_enc_type. rewrite zlen_combine_idx.
    pose proof (zlen_nonneg (transitions z)). lia. }
  pose proof (state_new_exact 0 true z [] 0 ltac:(auto) Hne Hcc Htc Hlp Hfit) as Hs.
  rewrite app_nil_r in Hs. rewrite Hs, rbind_ok. cbv beta iota.
  unfold block_state at 1, block_hdr at 1. cbn [st_header h_version]. change (ver_of 0) with V1. cbv iota.
  cbn [cur_is_empty remaining]. rewrite rbind_ok. cbv beta iota.
  finish_tail z Hw. change (ver_of 0) with V1.
  rewrite chunks_exact_flat_map by (try lia; intros; reflexivity). rewrite bind_val.
  rewrite decode_transitions; [|auto|].
  2:{ eapply Forall_impl; [|exact Htr]. intros t [Ht Hi]. cbn [Z.eqb Pos.eqb] in Ht. split; [left; auto|unfold u32_max; lia]. }
  rewrite rbind_ok.
  rewrite chunks_exact_flat_map by (try lia; apply zlen_enc_type). rewrite bind_val.
  rewrite decode_types by (try assumption; reflexivity). rewrite rbind_ok.
  unfold add_usize. rewrite chk_in by range_solver. rewrite bind_val.
  change (chunks_exact (4 + 4) []) with (Val (@nil bytes)). rewrite bind_val.
  cbn [map_res]. rewrite rbind_ok. rewrite indicators_bad_nil. rewrite rbind_ok.
  rewrite tz_new_exact; [| exact Hne | | exact Hinc].
  2:{ eapply Forall_impl; [|exact Htr]. intros t [_ Hi]. lia. }
  destruct z as [trs tys lps rl]. cbn [transitions local_time_types leap_seconds extra_rule] in *. subst. reflexivity.
Qed.

Ltac fold_ver := change (ver_of 50) with V2 in *; change (ver_of 51) with V3 in *.
Theorem writer_roundtrip_v23 ver z : (ver = 50 \/ ver = 51) -> zone_writable 8 z -> parse (write_tzif_v23 ver z) = Val (Ok z).
Proof.
  intros Hver Hw. unfold parse, write_tzif_v23, cur_new.
  pose proof Hw as (Hne & Hty & Hcc & Htr & Hinc & Htc & Hlp & Hrule).
  pose proof (types_le_table (local_time_types z)) as Hyc.
  assert (Hlen2 : zlen (tzif_block ver 8 z) <= 44 + 100000 * 8 + 100000 + 256 * 6 + 256).
  { unfold tzif_block. rewrite Hlp. cbn [flat_map].
    rewrite !zlen_app. change (zlen (tzif_header _ _ _ _ _)) with 44. change (zlen (@nil Z)) with 0.
    rewrite (zlen_flat_map _ 8) by (intros; reflexivity). rewrite zlen_map.
    rewrite (zlen_flat_map _ 6) by apply zlen_enc_type. rewrite zlen_combine_idx.
    pose proof (zlen_nonneg (transitions z)). lia. }
  assert (Hfit : fits 0 (tzif_block ver 4 slim_zone ++ (tzif_block ver 8 z ++ [10; 10]))).
  { unfold fits, u64_max. split; [lia|]. rewrite !zlen_app. replace (zlen (tzif_block ver 4 slim_zone)) with 51 by (destruct Hver as [-> | ->]; reflexivity).
    change (zlen [10; 10]) with 2. lia. }
  pose proof (state_new_exact ver true slim_zone (tzif_block ver 8 z ++ [10; 10]) 0 ltac:(tauto)
                ltac:(discriminate) ltac:(vm_compute; discriminate) ltac:(vm_compute; discriminate) eq_refl Hfit) as Hs1.
  rewrite Hs1, rbind_ok. cbv beta iota.
  unfold block_state at 1, block_hdr at 1. cbn [st_header h_version].
  assert (Hv1 : forall (X : Type) (a b c : X), match ver_of ver with V1 => a | V2 => b | V3 => c end = (if ver =? 50 then b else c)) by (intros; destruct Hver as [-> | ->]; reflexivity).
  assert (Hb : forall (X : Type) (b : X), (if ver =? 50 then b else b) = b) by (intros; destruct (ver =? 50); reflexivity).
  rewrite Hv1, Hb.
  apply fits_app in Hfit.
  pose proof (state_new_exact ver false z [10; 10] _ ltac:(tauto) Hne Hcc Htc Hlp Hfit) as Hs2.
  rewrite Hs2, rbind_ok. cbv beta iota.
  unfold block_state at 1, block_hdr at 1. cbn [st_header h_version]. rewrite Hv1, Hb.
  cbn [remaining]. rewrite rbind_ok. cbv beta iota.
  finish_tail z Hw.
  rewrite chunks_exact_flat_map by (try lia; intros; reflexivity). rewrite bind_val.
  rewrite decode_transitions; [|auto|].
  2:{ eapply Forall_impl; [|exact Htr]. intros t [Ht Hi]. cbn [Z.eqb Pos.eqb] in Ht.
      split; [right; repeat split; [destruct Hver as [-> | ->]; discriminate|exact Ht]|unfold u32_max; lia]. }
  rewrite rbind_ok.
  rewrite chunks_exact_flat_map by (try lia; apply zlen_enc_type). rewrite bind_val.
  rewrite decode_types by (try assumption; reflexivity). rewrite rbind_ok.
  unfold add_usize. rewrite chk_in by range_solver. rewrite bind_val.
  change (chunks_exact (8 + 4) []) with (Val (@nil bytes)). rewrite bind_val.
  cbn [map_res]. rewrite rbind_ok. rewrite indicators_bad_nil.
  change (utf8_valid [10; 10]) with true. cbn [negb].
  change (last_byte [10; 10]) with (Some 10). cbn [andb negb].
  change (trim_ascii_ws [10; 10]) with (@nil Z). cbv zeta. cbn [existsb orb].
  rewrite rbind_ok.
  rewrite tz_new_exact; [| exact Hne | | exact Hinc].
  2:{ eapply Forall_impl; [|exact Htr]. intros t [_ Hi]. lia. }
  destruct z as [trs tys lps rl]. cbn [transitions local_time_types leap_seconds extra_rule] in *. subst. reflexivity.
Qed.

Corollary writer_roundtrip_v2 z : zone_writable 8 z -> parse (write_tzif_v2 z) = Val (Ok z).
Proof. apply writer_roundtrip_v23. left; reflexivity. Qed.
Corollary writer_roundtrip_v3 z : zone_writable 8 z -> parse (write_tzif_v3 z) = Val (Ok z).
Proof. apply writer_roundtrip_v23. right; reflexivity. Qed.

(* the hypotheses are inhabited: a version-1 zone with 32-bit times, and a zone with transitions
   at both ends of the i64 range for the version-2 layout *)
Definition example_zone_v1 : timezone :=
  mk_tz [mk_tr (-1230749160) 1; mk_tr 5 0; mk_tr 2147483647 2]
        [mk_ltt (-18840) false (Some [81; 77; 84]); mk_ltt (-18000) true (Some [69; 67; 84]); mk_ltt 0 false None] [] None.
Definition example_zone_v2 : timezone :=
  mk_tz [mk_tr (-9223372036854775808) 1; mk_tr 5 0; mk_tr 9223372036854775807 2]
        [mk_ltt (-18840) false (Some [81; 77; 84]); mk_ltt (-18000) true (Some [69; 67; 84]); mk_ltt 0 false None] [] None.
Lemma example_zones_writable : zone_writable 4 example_zone_v1 /\ zone_writable 8 example_zone_v2.
Proof.
  split; unfold zone_writable, example_zone_v1, example_zone_v2; cbn [local_time_types transitions leap_seconds extra_rule];
    (split; [discriminate|]); (split; [repeat constructor; cbn; try lia; try (unfold zlen; cbn [List.length]; lia)|]);
    (split; [vm_compute; discriminate|]); (split; [repeat constructor; vm_compute; congruence|]);
    (split; [cbn; lia|]); (split; [vm_compute; discriminate|]); split; reflexivity.
Qed.
