(** C20 -- the judge accepts the model's output on EVERY case of sd.rt (serialize, carry through
    serde_json / bincode, deserialize) of its domain, for all ten type codes, outside the three
    recorded findings ([clean_rt]: naive leap-second fraction off second 59; zone-aware offsets with
    seconds; wall clock outside the date range).  This includes the case the earlier theorems left to
    the differential run: a zone-aware value whose leap-second fraction is NOT on second 59 comes
    back as the same instant (the text written is the text of the next second). *)
From Coq Require Import ZArith List Bool Lia ZifyBool String.
From V Require Import Base.Int Base.IntLemmas Base.IO Base.Utf8 Base.Lift Gen.ScanTables Gen.SerdeConsts
  Model.Scan Model.Rfc3339 Model.Parse Model.FromStr Model.Show Model.DateTime Model.TimeDelta Model.Serde Model.C20 Spec.Gregorian
  Proofs.Decimal Proofs.C09Show Proofs.C09Time Proofs.C09Date Proofs.C09DateTime Proofs.C09Zoned Proofs.C09
  Proofs.HoldsLib Proofs.C20Delta Proofs.C20Text.
From V Require Model.Date Model.Time Model.C19 Proofs.Date Proofs.C08 Proofs.C04 Proofs.C06 Proofs.C09Holds Judge.C20 Judge.C09.
Import ListNotations.
Open Scope Z_scope.
Ltac Zify.zify_post_hook ::= Z.to_euclidean_division_equations.
Import Proofs.Date.
Module J := Judge.C20.

(** * the inputs outside the recorded findings *)
Definition clean_rt (ty : Z) (v : val) : bool :=
  if ty =? 1 then match v with VTup [VInt s; VInt f] => J.plain_leap s f | _ => true end
  else if ty =? 2 then match v with VTup [_; _; VInt s; VInt f] => J.plain_leap s f | _ => true end
  else if (ty =? 3) || (ty =? 8) || (ty =? 9) then
    match v with
    | VTup [VInt y; VInt o; VInt s; VInt f; VInt off] => (off mod 60 =? 0) && C09Holds.wall_ok y o s off
    | _ => true end
  else true.
Definition finding_free (op : bytes) (args : list val) : bool :=
  if op_is op "sd.rt" then match args with [_; VInt ty; v] => clean_rt ty v | _ => true end else true.

(** * generic pieces *)
Lemma j_same_pair v p : J.j_same v (VTup [p; v]) = JOk.
Proof. unfold J.j_same. cbn [J.result_of]. apply hl_judge_eq_refl. Qed.
Lemma judge_rt_eq fmt ty v out : J.judge B"sd.rt" [VInt fmt; VInt ty; v] out =
  if J.is_badargs out then JSkip else if (fmt =? 0) || (fmt =? 1) then J.j_rt ty v out else JSkip.
Proof. reflexivity. Qed.
Lemma run_rt_eq fmt ty v : run B"sd.rt" [VInt fmt; VInt ty; v] = if fmt_ok fmt then rt fmt ty v else VBad.
Proof. reflexivity. Qed.
Lemma round_trip_ok {A} fmt (ser : SR sval) (de : sval -> SR A) (enc : A -> val) p x :
  ser = Val (SOk p) -> de (carry fmt p) = Val (SOk x) ->
  round_trip fmt ser de enc = VTup [enc_payload p; enc x].
Proof. intros -> H. unfold round_trip. rewrite H. reflexivity. Qed.

Lemma jtime9 s f : J.valid_time s f = true -> Judge.C09.valid_time s f = true.
Proof. unfold J.valid_time, Judge.C09.valid_time, J.G. lia. Qed.
Lemma jplain9 s f : J.plain_leap s f = true -> Judge.C09.time_in_domain s f = true.
Proof. unfold J.plain_leap, Judge.C09.time_in_domain, J.G. lia. Qed.
Lemma joff9 off : J.valid_offset off = true -> Judge.C09.valid_offset off = true.
Proof. intros H. exact H. Qed.

(** * NaiveDate, NaiveTime, NaiveDateTime, TimeDelta *)
Lemma rt_date fmt y o : J.valid_date y o = true ->
  exists p, rt fmt 0 (VTup [VInt y; VInt o]) = VTup [p; VTup [VInt y; VInt o]].
Proof.
  intros Hd. destruct (C09Holds.dec_date_valid y o Hd) as (Hdec & Hr & He).
  destruct (serde_roundtrip_date fmt y o _ Hr) as (s & Hs & Hde).
  exists (enc_payload (SStr s)). unfold rt. cbn [Z.eqb]. rewrite Hdec.
  rewrite (round_trip_ok fmt _ _ _ _ _ Hs Hde), He. reflexivity.
Qed.
Lemma rt_time fmt s f : J.valid_time s f = true -> J.plain_leap s f = true ->
  exists p, rt fmt 1 (VTup [VInt s; VInt f]) = VTup [p; VTup [VInt s; VInt f]].
Proof.
  intros Ht Hp. destruct (C09Holds.dec_time_valid s f (jtime9 _ _ Ht)) as (Hdec & _).
  pose proof (C09Holds.time_dom_of s f (jtime9 _ _ Ht) (jplain9 _ _ Hp)) as Hdom.
  destruct (serde_roundtrip_time fmt _ Hdom) as (p & Hs & Hde).
  exists (enc_payload (SStr p)). unfold rt. cbn [Z.eqb Pos.eqb]. rewrite Hdec.
  rewrite (round_trip_ok fmt _ _ _ _ _ Hs Hde). reflexivity.
Qed.
Lemma enc_ndt_mk y o s f : J.valid_date y o = true ->
  enc_ndt (mk_ndt (mkdate y o) (Time.mk_time s f)) = VTup [VInt y; VInt o; VInt s; VInt f].
Proof.
  intros Hd. destruct (C09Holds.dec_date_valid y o Hd) as (_ & Hr & _).
  unfold enc_ndt. cbn [nd_date nd_time Time.tsecs Time.tfrac].
  destruct (C08.repr_md y o _ Hr) as (E4 & E5 & _). rewrite E4, E5. reflexivity.
Qed.
Lemma rt_ndt fmt y o s f : J.valid_date y o = true -> J.valid_time s f = true -> J.plain_leap s f = true ->
  exists p, rt fmt 2 (VTup [VInt y; VInt o; VInt s; VInt f]) = VTup [p; VTup [VInt y; VInt o; VInt s; VInt f]].
Proof.
  intros Hd Ht Hp. destruct (C09Holds.dec_date_valid y o Hd) as (_ & Hr & _).
  pose proof (C09Holds.dec_ndt_valid y o s f Hd (jtime9 _ _ Ht)) as Hdec.
  pose proof (C09Holds.time_dom_of s f (jtime9 _ _ Ht) (jplain9 _ _ Hp)) as Hdom.
  assert (Hnd : ndt_dom (mk_ndt (mkdate y o) (Time.mk_time s f))) by (split; [exists y, o; exact Hr|exact Hdom]).
  destruct (serde_roundtrip_ndt fmt _ Hnd) as (p & Hs & Hde).
  exists (enc_payload (SStr p)). unfold rt. cbn [Z.eqb Pos.eqb]. rewrite Hdec.
  rewrite (round_trip_ok fmt _ _ _ _ _ Hs Hde), enc_ndt_mk by exact Hd. reflexivity.
Qed.
Lemma rt_td fmt s n :
  (0 <=? n) && (n <? J.G) && (- J.TD_LIMIT <=? s * J.G + n) && (s * J.G + n <=? J.TD_LIMIT) = true ->
  exists p, rt fmt 5 (VTup [VInt s; VInt n]) = VTup [p; VTup [VInt s; VInt n]].
Proof.
  intros H. unfold J.G, J.TD_LIMIT in H. cbn [Z.opp] in H.
  assert (Hs : in_i64 s = true) by (unfold in_i64, in_range, i64_min, i64_max; lia).
  assert (Hn : in_u32 n = true) by (unfold in_u32, in_range, u32_max; lia).
  pose proof (C06.td_new_spec s n Hs Hn) as Hnew.
  destruct (td_new s n) as [d|] eqn:En.
  - destruct Hnew as (H1 & H2 & Hv). destruct (delta_roundtrip fmt d Hv) as (p & Hp & Hde).
    exists (enc_payload p). unfold rt. cbn [Z.eqb Pos.eqb]. unfold dec_td. rewrite Hs, Hn. cbn [andb]. rewrite En.
    rewrite (round_trip_ok fmt _ _ _ _ _ Hp Hde). unfold enc_td. rewrite H1, H2. reflexivity.
  - exfalso. apply Hnew. unfold C06.in_rng, C06.G, C06.RMIN, C06.RMAX. lia.
Qed.

(** * Weekday, Month: finite, by complete enumeration of the dispatcher and the judge *)
Definition small_ok (fmt ty z : Z) : bool :=
  match J.judge B"sd.rt" [VInt fmt; VInt ty; VInt z] (run B"sd.rt" [VInt fmt; VInt ty; VInt z]) with JOk => true | _ => false end.
Lemma wd_sweep : forall_range (fun w => small_ok 0 6 w && small_ok 1 6 w) 0 7 = true.
Proof. vm_compute. reflexivity. Qed.
Lemma mo_sweep : forall_range (fun m => small_ok 0 7 m && small_ok 1 7 m) 1 12 = true.
Proof. vm_compute. reflexivity. Qed.

(** * zone-aware values *)
(* a leap-second fraction that is not on second 59 is written as the next second *)
Definition norm_s (s f : Z) : Z := if J.plain_leap s f then s else s + 1.
Definition norm_f (s f : Z) : Z := if J.plain_leap s f then f else f - 1000000000.

Lemma time_txt_next s f : 0 <= s < 86400 -> 1000000000 <= f < 2000000000 -> s mod 60 <> 59 ->
  time_txt s f = time_txt (s + 1) (f - 1000000000).
Proof.
  intros Hs Hf H59. unfold time_txt.
  replace (1000000000 <=? f) with true by lia. replace (1000000000 <=? f - 1000000000) with false by lia. cbv zeta iota.
  replace ((s + 1) / 3600) with (s / 3600) by lia.
  replace ((s + 1) / 60 mod 60) with (s / 60 mod 60) by lia.
  replace ((s + 1) mod 60 + 0) with (s mod 60 + 1) by lia. reflexivity.
Qed.

Lemma local_of_tvalid yu ou du su fu off : repr yu ou du -> 0 <= su < 86400 -> 0 <= fu < 2000000000 ->
  -86400 < off < 86400 -> dn_in_range (dn_of_yo yu ou + (su + off) / 86400) = true ->
  overflowing_naive_local (mk_dtz (mk_ndt du (Time.mk_time su fu)) off) =
  Val (mk_ndt (date_of_dn (dn_of_yo yu ou + (su + off) / 86400)) (Time.mk_time ((su + off) mod 86400) fu)).
Proof.
  intros Hrepr Hs Hf Hoff Hwall.
  unfold overflowing_naive_local, ndt_overflowing_add_offset. cbn [dz_utc dz_off nd_date nd_time].
  rewrite C04.overflowing_add_offset_spec; [|split; cbn [Time.tsecs Time.tfrac]; assumption|exact Hoff].
  cbn [bind Time.tsecs Time.tfrac]. unfold shift_date_overflowing.
  assert (Hk : (su + off) / 86400 = -1 \/ (su + off) / 86400 = 0 \/ (su + off) / 86400 = 1) by lia.
  destruct Hk as [Hk|[Hk|Hk]]; rewrite Hk in *.
  - cbn [Z.eqb]. rewrite (pred_opt_spec yu ou du Hrepr).
    replace (dn_of_yo yu ou + -1) with (dn_of_yo yu ou - 1) in * by lia. unfold date_if. rewrite Hwall. reflexivity.
  - cbn [Z.eqb]. rewrite Z.add_0_r. rewrite (date_of_dn_of_repr yu ou du Hrepr). reflexivity.
  - cbn [Z.eqb Pos.eqb]. rewrite (succ_opt_spec yu ou du Hrepr). unfold date_if. rewrite Hwall. reflexivity.
Qed.

(* the text of a zone-aware value with a leap-second fraction off second 59 is the text of the
   value one second later without it *)
Lemma ser_dtz_next yu ou du su fu off : repr yu ou du -> 0 <= su < 86400 -> 1000000000 <= fu < 2000000000 ->
  su mod 60 <> 59 -> -86400 < off < 86400 -> off mod 60 = 0 ->
  dn_in_range (dn_of_yo yu ou + (su + off) / 86400) = true ->
  ser_dtz (mk_dtz (mk_ndt du (Time.mk_time su fu)) off) =
  ser_dtz (mk_dtz (mk_ndt du (Time.mk_time (su + 1) (fu - 1000000000))) off).
Proof.
  intros Hrepr Hs Hf H59 Hoff Hmin Hwall.
  assert (Hk : (su + 1 + off) / 86400 = (su + off) / 86400) by lia.
  assert (Hm : (su + 1 + off) mod 86400 = (su + off) mod 86400 + 1) by lia.
  destruct serde_dt_shape as (F1 & F2). unfold ser_dtz. rewrite F1, F2. cbn [Z.eqb Pos.eqb].
  rewrite (local_of_tvalid yu ou du su fu off) by (try assumption; lia).
  rewrite (local_of_tvalid yu ou du (su + 1) (fu - 1000000000) off) by (try assumption; try lia; rewrite Hk; exact Hwall).
  rewrite Hk, Hm. cbn [bind dz_off].
  pose proof (date_of_dn_repr _ Hwall) as Hl.
  rewrite (write_rfc3339_text [] _ _ _ (Time.mk_time ((su + off) mod 86400) fu) off _ Hl)
    by (split; cbn [Time.tsecs Time.tfrac]; lia).
  rewrite (write_rfc3339_text [] _ _ _ (Time.mk_time ((su + off) mod 86400 + 1) (fu - 1000000000)) off _ Hl)
    by (split; cbn [Time.tsecs Time.tfrac]; lia).
  cbn [Time.tsecs Time.tfrac]. unfold ndt_txt.
  rewrite (time_txt_next ((su + off) mod 86400) fu) by lia. reflexivity.
Qed.

Lemma jtime_bounds s f : J.valid_time s f = true -> 0 <= s < 86400 /\ 0 <= f < 2000000000.
Proof. unfold J.valid_time, J.G. lia. Qed.
Lemma joff_bounds off : J.valid_offset off = true -> -86400 < off < 86400.
Proof. unfold J.valid_offset. lia. Qed.
Lemma jleap_off s f : J.plain_leap s f = false -> 1000000000 <= f /\ s mod 60 <> 59.
Proof. unfold J.plain_leap, J.G. lia. Qed.

Lemma zoned_back_plain fmt y o s f off : J.valid_date y o = true -> J.valid_time s f = true -> -86400 < off < 86400 ->
  off mod 60 = 0 -> dn_in_range (dn_of_yo y o + (s + off) / 86400) = true -> J.plain_leap s f = true ->
  exists p, ser_dtz (mk_dtz (mk_ndt (mkdate y o) (Time.mk_time s f)) off) = Val (SOk (SStr p)) /\
            de_dt_fixed (carry fmt (SStr p)) = Val (SOk (mk_dtz (mk_ndt (mkdate y o) (Time.mk_time s f)) off)).
Proof.
  intros Hd Ht Hob Hmin Hw Ep. destruct (C09Holds.dec_date_valid y o Hd) as (_ & Hr & _).
  pose proof (C09Holds.time_dom_of s f (jtime9 _ _ Ht) (jplain9 _ _ Ep)) as Htd.
  apply serde_roundtrip_dt_fixed. exists y, o. cbn [dz_utc dz_off nd_date nd_time Time.tsecs].
  split; [exact Hr|split; [exact Htd|split; [exact Hob|split; [exact Hmin|exact Hw]]]].
Qed.
Lemma zoned_back_leap fmt y o s f off : J.valid_date y o = true -> 0 <= s < 86400 -> 1000000000 <= f < 2000000000 ->
  s mod 60 <> 59 -> -86400 < off < 86400 -> off mod 60 = 0 -> dn_in_range (dn_of_yo y o + (s + off) / 86400) = true ->
  exists p, ser_dtz (mk_dtz (mk_ndt (mkdate y o) (Time.mk_time s f)) off) = Val (SOk (SStr p)) /\
            de_dt_fixed (carry fmt (SStr p)) =
              Val (SOk (mk_dtz (mk_ndt (mkdate y o) (Time.mk_time (s + 1) (f - 1000000000))) off)).
Proof.
  intros Hd Hs Hf H59 Hob Hmin Hw. destruct (C09Holds.dec_date_valid y o Hd) as (_ & Hr & _).
  rewrite (ser_dtz_next y o _ s f off Hr) by (try assumption; lia).
  apply serde_roundtrip_dt_fixed. exists y, o. cbn [dz_utc dz_off nd_date nd_time Time.tsecs].
  split; [exact Hr|]. split.
  { split; [split; cbn [Time.tsecs Time.tfrac]; lia|left; cbn [Time.tfrac]; lia]. }
  split; [exact Hob|]. split; [exact Hmin|].
  replace ((s + 1 + off) / 86400) with ((s + off) / 86400) by lia. exact Hw.
Qed.

Lemma zoned_back fmt y o s f off : J.valid_date y o = true -> J.valid_time s f = true -> J.valid_offset off = true ->
  off mod 60 = 0 -> C09Holds.wall_ok y o s off = true ->
  exists p, ser_dtz (mk_dtz (mk_ndt (mkdate y o) (Time.mk_time s f)) off) = Val (SOk (SStr p)) /\
            de_dt_fixed (carry fmt (SStr p)) =
              Val (SOk (mk_dtz (mk_ndt (mkdate y o) (Time.mk_time (norm_s s f) (norm_f s f))) off)).
Proof.
  intros Hd Ht Ho Hmin Hw. pose proof (joff_bounds off Ho) as Hob. pose proof (jtime_bounds s f Ht) as [Hs Hf].
  unfold norm_s, norm_f. destruct (J.plain_leap s f) eqn:Ep.
  - apply zoned_back_plain; assumption.
  - destruct (jleap_off s f Ep) as [Hl H59]. apply zoned_back_leap; try assumption. lia.
Qed.

Lemma enc_dtz_mk y o s f off : J.valid_date y o = true ->
  enc_dtz (mk_dtz (mk_ndt (mkdate y o) (Time.mk_time s f)) off) = VTup [VInt y; VInt o; VInt s; VInt f; VInt off].
Proof.
  intros Hd. destruct (C09Holds.dec_date_valid y o Hd) as (_ & Hr & _).
  unfold enc_dtz. cbn [dz_utc dz_off nd_date nd_time Time.tsecs Time.tfrac].
  destruct (C08.repr_md y o _ Hr) as (E4 & E5 & _). rewrite E4, E5. reflexivity.
Qed.

(* what sd.rt answers for the four zone-aware type codes *)
Lemma rt_zoned fmt ty y o s f off : J.valid_date y o = true -> J.valid_time s f = true -> J.valid_offset off = true ->
  off mod 60 = 0 -> C09Holds.wall_ok y o s off = true ->
  (ty = 3 \/ (ty = 4 /\ off = 0) \/ ty = 8 \/ ty = 9) ->
  exists p, rt fmt ty (VTup [VInt y; VInt o; VInt s; VInt f; VInt off]) =
    VTup [p; VTup [VInt y; VInt o; VInt (norm_s s f); VInt (norm_f s f); VInt (if ty =? 3 then off else 0)]].
Proof.
  intros Hd Ht Ho Hmin Hw Hty.
  pose proof (C09Holds.dec_dtz_valid y o s f off Hd (jtime9 _ _ Ht) Ho) as Hdec.
  destruct (zoned_back fmt y o s f off Hd Ht Ho Hmin Hw) as (p & Hs & Hde).
  exists (enc_payload (SStr p)).
  assert (Hu : de_dt_utc (carry fmt (SStr p)) =
               Val (SOk (mk_dtz (mk_ndt (mkdate y o) (Time.mk_time (norm_s s f) (norm_f s f))) 0))).
  { unfold de_dt_utc. rewrite Hde. reflexivity. }
  destruct Hty as [-> |[[-> ->]|[-> | ->]]]; unfold rt; cbn [Z.eqb Pos.eqb]; rewrite Hdec; cbn [dz_off Z.eqb].
  - rewrite (round_trip_ok fmt _ _ _ _ _ Hs Hde), enc_dtz_mk by exact Hd. reflexivity.
  - rewrite (round_trip_ok fmt _ _ _ _ _ Hs Hu), enc_dtz_mk by exact Hd. reflexivity.
  - rewrite (round_trip_ok fmt _ _ _ _ _ Hs Hu), enc_dtz_mk by exact Hd. reflexivity.
  - change de_dt_local with de_dt_utc. rewrite (round_trip_ok fmt _ _ _ _ _ Hs Hu), enc_dtz_mk by exact Hd. reflexivity.
Qed.

Lemma norm_facts dn s f : J.valid_time s f = true ->
  J.valid_time (norm_s s f) (norm_f s f) = true /\
  unix_nanos dn (norm_s s f) (norm_f s f) = unix_nanos dn s f /\
  (J.plain_leap s f = true -> norm_s s f = s /\ norm_f s f = f).
Proof.
  unfold norm_s, norm_f, J.plain_leap, J.valid_time, J.G, unix_nanos, unix_secs. intros Ht.
  destruct ((f <? 1000000000) || (s mod 60 =? 59)) eqn:Ep; [auto|].
  split; [lia|]. split; [lia|discriminate].
Qed.

(* what the judge asks of a zone-aware answer *)
Lemma j_zoned_ok keep utc y o s f off off' p :
  J.valid_date y o = true -> J.valid_time s f = true -> J.valid_offset off = true -> J.valid_offset off' = true ->
  (keep = true -> off' = off) -> (utc = true -> off' = 0) ->
  J.j_zoned keep utc (VTup [VInt y; VInt o; VInt s; VInt f; VInt off])
    (VTup [p; VTup [VInt y; VInt o; VInt (norm_s s f); VInt (norm_f s f); VInt off']]) = JOk.
Proof.
  intros Hd Ht Ho Ho' Hk Hu. unfold J.j_zoned, J.dec_dt. rewrite Hd, Ht, Ho. cbn [andb J.result_of].
  pose proof (norm_facts (dn_of_yo y o) s f Ht) as Hn.
  destruct Hn as (Hvt & Hinst & Hsame). rewrite ?Hd, Hvt, Ho'. cbn [andb]. rewrite Hinst, Z.eqb_refl. cbn [negb].
  replace (keep && (off mod 60 =? 0) && negb (off' =? off)) with false
    by (destruct keep; [rewrite (Hk eq_refl), Z.eqb_refl, andb_false_r; reflexivity|reflexivity]).
  replace (utc && negb (off' =? 0)) with false by (destruct utc; [rewrite (Hu eq_refl); reflexivity|reflexivity]).
  destruct (J.plain_leap s f && (off mod 60 =? 0)) eqn:Ep; [|reflexivity].
  apply andb_prop in Ep. destruct Ep as [Ep _]. destruct (Hsame Ep) as [-> ->].
  rewrite hl_val_eqb_refl. reflexivity.
Qed.

(** * sd.rt, all type codes *)
Lemma fmt01 fmt : (fmt =? 0) || (fmt =? 1) = true -> fmt = 0 \/ fmt = 1.
Proof. lia. Qed.

Lemma j_zoned_dom keep utc v out : J.j_zoned keep utc v out <> JSkip ->
  exists y o s f off, v = VTup [VInt y; VInt o; VInt s; VInt f; VInt off] /\
    J.valid_date y o = true /\ J.valid_time s f = true /\ J.valid_offset off = true.
Proof.
  unfold J.j_zoned.
  destruct (J.dec_dt v) as [[[t off] plain]|] eqn:E; [|intros H; exfalso; apply H; reflexivity].
  intros _. unfold J.dec_dt in E.
  destruct v as [z|b| |v'|l|e| | |]; try discriminate E.
  destruct l as [|[y| | | | | | | |] l]; try discriminate E.
  destruct l as [|[o| | | | | | | |] l]; try discriminate E.
  destruct l as [|[s| | | | | | | |] l]; try discriminate E.
  destruct l as [|[f| | | | | | | |] l]; try discriminate E.
  destruct l as [|[off0| | | | | | | |] l]; try discriminate E.
  destruct l; [|discriminate E].
  destruct (J.valid_date y o && J.valid_time s f && J.valid_offset off0) eqn:Ev; [|discriminate E].
  apply andb_prop in Ev. destruct Ev as [Ev Ho]. apply andb_prop in Ev. destruct Ev as [Hd Ht].
  exists y, o, s, f, off0. auto.
Qed.

Ltac skip_case := let H := fresh in intros H; exfalso; apply H; reflexivity.
Lemma shape2 (X : Z -> Z -> verdict) v :
  match v with VTup [VInt a; VInt b] => X a b | _ => JSkip end <> JSkip -> exists a b, v = VTup [VInt a; VInt b].
Proof.
  destruct v as [z|b| |v'|l|e| | |]; try skip_case.
  destruct l as [|[y| | | | | | | |] l]; try skip_case.
  destruct l as [|[o| | | | | | | |] l]; try skip_case.
  destruct l; [|skip_case]. intros _. exists y, o. reflexivity.
Qed.
Lemma shape5 (X : Z -> verdict) v :
  match v with VTup [_; _; _; _; VInt off] => X off | _ => JSkip end <> JSkip ->
  exists a b c d off, v = VTup [a; b; c; d; VInt off].
Proof.
  destruct v as [z|b| |v'|l|e| | |]; try skip_case.
  destruct l as [|a l]; try skip_case. destruct l as [|b l]; try skip_case.
  destruct l as [|c l]; try skip_case. destruct l as [|d l]; try skip_case.
  destruct l as [|[off| | | | | | | |] l]; try skip_case.
  destruct l; [|skip_case]. intros _. exists a, b, c, d, off. reflexivity.
Qed.
Lemma dec_ndt_shape v r : J.dec_ndt v = Some r ->
  exists y o s f, v = VTup [VInt y; VInt o; VInt s; VInt f] /\ J.valid_date y o = true /\ J.valid_time s f = true.
Proof.
  intros E. unfold J.dec_ndt in E.
  destruct v as [z|b| |v'|l|e| | |]; try discriminate E.
  destruct l as [|[y| | | | | | | |] l]; try discriminate E.
  destruct l as [|[o| | | | | | | |] l]; try discriminate E.
  destruct l as [|[s| | | | | | | |] l]; try discriminate E.
  destruct l as [|[f| | | | | | | |] l]; try discriminate E.
  destruct l; [|discriminate E].
  destruct (J.valid_date y o && J.valid_time s f) eqn:Ev; [|discriminate E].
  apply andb_prop in Ev. exists y, o, s, f. tauto.
Qed.

Theorem holds_rt fmt ty v : clean_rt ty v = true ->
  J.judge B"sd.rt" [VInt fmt; VInt ty; v] (run B"sd.rt" [VInt fmt; VInt ty; v]) <> JSkip ->
  J.judge B"sd.rt" [VInt fmt; VInt ty; v] (run B"sd.rt" [VInt fmt; VInt ty; v]) = JOk.
Proof.
  intros Hc. rewrite judge_rt_eq, run_rt_eq.
  destruct (J.is_badargs (if fmt_ok fmt then rt fmt ty v else VBad)) eqn:Eb; [congruence|].
  destruct ((fmt =? 0) || (fmt =? 1)) eqn:Ef; [|congruence].
  change (fmt_ok fmt) with ((fmt =? 0) || (fmt =? 1)) in *. rewrite Ef in *. clear Eb.
  unfold J.j_rt. unfold clean_rt in Hc.
  destruct (ty =? 0) eqn:T0.
  { assert (ty = 0) by lia. subst ty.
    intros Hns. destruct (shape2 _ _ Hns) as (y & o & ->).
    destruct (J.valid_date y o) eqn:Hd; [|exfalso; apply Hns; reflexivity]. clear Hns.
    destruct (rt_date fmt y o Hd) as [p ->]. apply j_same_pair. }
  destruct (ty =? 1) eqn:T1.
  { assert (ty = 1) by lia. subst ty.
    intros Hns. destruct (shape2 _ _ Hns) as (s & f & ->).
    destruct (J.valid_time s f) eqn:Ht; [|exfalso; apply Hns; reflexivity]. clear Hns.
    destruct (rt_time fmt s f Ht Hc) as [p ->]. apply j_same_pair. }
  destruct (ty =? 2) eqn:T2.
  { assert (ty = 2) by lia. subst ty.
    destruct (J.dec_ndt v) as [r|] eqn:En; [|intros H; exfalso; apply H; reflexivity]. intros _.
    destruct (dec_ndt_shape v r En) as (y & o & s & f & -> & Hd & Ht).
    destruct (rt_ndt fmt y o s f Hd Ht Hc) as [p ->]. apply j_same_pair. }
  destruct (ty =? 3) eqn:T3.
  { assert (ty = 3) by lia. subst ty. cbn [orb] in Hc. intros Hns.
    destruct (j_zoned_dom _ _ _ _ Hns) as (y & o & s & f & off & -> & Hd & Ht & Ho).
    apply andb_prop in Hc. destruct Hc as [Hm Hw].
    destruct (rt_zoned fmt 3 y o s f off Hd Ht Ho ltac:(lia) Hw ltac:(tauto)) as [p ->]. cbn [Z.eqb Pos.eqb].
    apply j_zoned_ok; try assumption; auto. discriminate. }
  destruct (ty =? 4) eqn:T4.
  { assert (ty = 4) by lia. subst ty.
    intros Hns. destruct (shape5 _ _ Hns) as (y0 & o0 & s0 & f0 & off & ->).
    destruct (off =? 0) eqn:E0; [|exfalso; apply Hns; reflexivity]. assert (off = 0) by lia. subst off.
    destruct (j_zoned_dom _ _ _ _ Hns) as (y & o & s & f & off & Hv & Hd & Ht & Ho).
    injection Hv as -> -> -> -> <-.
    assert (Hw : C09Holds.wall_ok y o s 0 = true).
    { unfold C09Holds.wall_ok. destruct (C09Holds.dec_date_valid y o Hd) as (_ & Hr & _).
      assert (0 <= s < 86400) by (unfold J.valid_time in Ht; lia).
      rewrite Z.add_0_r. replace (s / 86400) with 0 by lia. rewrite Z.add_0_r. apply (repr_dn_in_range y o _ Hr). }
    destruct (rt_zoned fmt 4 y o s f 0 Hd Ht Ho eq_refl Hw ltac:(tauto)) as [p ->]. cbn [Z.eqb Pos.eqb].
    apply j_zoned_ok; try assumption; auto. }
  destruct (ty =? 5) eqn:T5.
  { assert (ty = 5) by lia. subst ty.
    intros Hns. destruct (shape2 _ _ Hns) as (s & n & ->).
    destruct ((0 <=? n) && (n <? J.G) && (- J.TD_LIMIT <=? s * J.G + n) && (s * J.G + n <=? J.TD_LIMIT)) eqn:Ev;
      [|exfalso; apply Hns; reflexivity]. clear Hns. destruct (rt_td fmt s n Ev) as [p ->]. apply j_same_pair. }
  destruct (ty =? 6) eqn:T6.
  { assert (ty = 6) by lia. subst ty.
    destruct v as [w|?|?|?|?|?|?|?|?]; try congruence.
    destruct ((0 <=? w) && (w <=? 6)) eqn:Ev; [|congruence]. intros _.
    pose proof (forall_range_spec _ _ _ wd_sweep w ltac:(lia)) as H. cbv beta in H.
    apply andb_prop in H. destruct H as [H0 H1]. unfold small_ok in H0, H1.
    rewrite judge_rt_eq, run_rt_eq in H0, H1. cbn [Z.eqb Pos.eqb orb fmt_ok] in H0, H1.
    unfold J.j_rt in H0, H1. cbn [Z.eqb Pos.eqb] in H0, H1. rewrite Ev in H0, H1.
    destruct (fmt01 fmt Ef) as [-> | ->].
    - destruct (J.is_badargs (rt 0 6 (VInt w))); [discriminate|]. destruct (J.j_same (VInt w) (rt 0 6 (VInt w))); try discriminate. reflexivity.
    - destruct (J.is_badargs (rt 1 6 (VInt w))); [discriminate|]. destruct (J.j_same (VInt w) (rt 1 6 (VInt w))); try discriminate. reflexivity. }
  destruct (ty =? 7) eqn:T7.
  { assert (ty = 7) by lia. subst ty.
    destruct v as [w|?|?|?|?|?|?|?|?]; try congruence.
    destruct ((1 <=? w) && (w <=? 12)) eqn:Ev; [|congruence]. intros _.
    pose proof (forall_range_spec _ _ _ mo_sweep w ltac:(lia)) as H. cbv beta in H.
    apply andb_prop in H. destruct H as [H0 H1]. unfold small_ok in H0, H1.
    rewrite judge_rt_eq, run_rt_eq in H0, H1. cbn [Z.eqb Pos.eqb orb fmt_ok] in H0, H1.
    unfold J.j_rt in H0, H1. cbn [Z.eqb Pos.eqb] in H0, H1. rewrite Ev in H0, H1.
    destruct (fmt01 fmt Ef) as [-> | ->].
    - destruct (J.is_badargs (rt 0 7 (VInt w))); [discriminate|]. destruct (J.j_same (VInt w) (rt 0 7 (VInt w))); try discriminate. reflexivity.
    - destruct (J.is_badargs (rt 1 7 (VInt w))); [discriminate|]. destruct (J.j_same (VInt w) (rt 1 7 (VInt w))); try discriminate. reflexivity. }
  destruct (ty =? 8) eqn:T8.
  { assert (ty = 8) by lia. subst ty. cbn [orb] in Hc. intros Hns.
    destruct (j_zoned_dom _ _ _ _ Hns) as (y & o & s & f & off & -> & Hd & Ht & Ho).
    apply andb_prop in Hc. destruct Hc as [Hm Hw].
    destruct (rt_zoned fmt 8 y o s f off Hd Ht Ho ltac:(lia) Hw ltac:(tauto)) as [p ->]. cbn [Z.eqb Pos.eqb].
    apply j_zoned_ok; try assumption; auto. discriminate. }
  destruct (ty =? 9) eqn:T9.
  { assert (ty = 9) by lia. subst ty. cbn [orb] in Hc. intros Hns.
    destruct (j_zoned_dom _ _ _ _ Hns) as (y & o & s & f & off & -> & Hd & Ht & Ho).
    apply andb_prop in Hc. destruct Hc as [Hm Hw].
    destruct (rt_zoned fmt 9 y o s f off Hd Ht Ho ltac:(lia) Hw ltac:(tauto)) as [p ->]. cbn [Z.eqb Pos.eqb].
    apply j_zoned_ok; try assumption; auto; discriminate. }
  congruence.
Qed.

(** * the model-level statement of the case the judge reads as "same instant": a zone-aware value
      with a leap-second fraction NOT on second 59 (whole-minute offset, wall-clock date in range)
      comes back, through either format, as the value one second later without the leap fraction --
      the same instant *)
Theorem serde_roundtrip_dt_leap_off fmt yu ou du su fu off : repr yu ou du -> 0 <= su < 86400 ->
  1000000000 <= fu < 2000000000 -> su mod 60 <> 59 -> -86400 < off < 86400 -> off mod 60 = 0 ->
  dn_in_range (dn_of_yo yu ou + (su + off) / 86400) = true ->
  exists p, ser_dtz (mk_dtz (mk_ndt du (Time.mk_time su fu)) off) = Val (SOk (SStr p)) /\
            de_dt_fixed (carry fmt (SStr p)) = Val (SOk (mk_dtz (mk_ndt du (Time.mk_time (su + 1) (fu - 1000000000))) off)) /\
            de_dt_utc (carry fmt (SStr p)) = Val (SOk (mk_dtz (mk_ndt du (Time.mk_time (su + 1) (fu - 1000000000))) 0)) /\
            unix_nanos (dn_of_yo yu ou) (su + 1) (fu - 1000000000) = unix_nanos (dn_of_yo yu ou) su fu.
Proof.
  intros Hr Hs Hf H59 Hob Hmin Hw.
  assert (Hd : exists p, ser_dtz (mk_dtz (mk_ndt du (Time.mk_time su fu)) off) = Val (SOk (SStr p)) /\
            de_dt_fixed (carry fmt (SStr p)) = Val (SOk (mk_dtz (mk_ndt du (Time.mk_time (su + 1) (fu - 1000000000))) off))).
  { rewrite (ser_dtz_next yu ou du su fu off Hr) by (try assumption; lia).
    apply serde_roundtrip_dt_fixed. exists yu, ou. cbn [dz_utc dz_off nd_date nd_time Time.tsecs].
    split; [exact Hr|]. split.
    { split; [split; cbn [Time.tsecs Time.tfrac]; lia|left; cbn [Time.tfrac]; lia]. }
    split; [exact Hob|]. split; [exact Hmin|].
    replace ((su + 1 + off) / 86400) with ((su + off) / 86400) by lia. exact Hw. }
  destruct Hd as (p & Hp & Hde). exists p. split; [exact Hp|]. split; [exact Hde|]. split.
  - unfold de_dt_utc. rewrite Hde. reflexivity.
  - unfold unix_nanos, unix_secs. lia.
Qed.
Example leap_off_inhabited : exists du, repr 2020 1 du /\ 45270 mod 60 <> 59 /\
  dn_in_range (dn_of_yo 2020 1 + (45270 + 19800) / 86400) = true.
Proof. exists (mkdate 2020 1). split; [repeat split|split; [vm_compute; discriminate|reflexivity]]. Qed.
