(** Proofs for C12, part 2: format strings as a whole — concatenation ([format_concat]), the
    composition of the item table with the per-item rendering theorems ([format_spec]),
    termination of the item iterator, literal copying. *)
From Coq Require Import ZArith List Bool Lia ZifyBool.
From V Require Import Base.Int Base.IO Base.IntLemmas Base.Lift Spec.Gregorian Spec.StrftimeDoc
  Model.Items Gen.Strftime Gen.Locales Model.Strftime Model.Format Proofs.C12.
From V Require Model.Date Model.Time Model.DateTime.
Import ListNotations.
Open Scope Z_scope.
Ltac Zify.zify_post_hook ::= Z.to_euclidean_division_equations.

(** * format_concat: the formatter's output is the concatenation of the renderings of the items
    the iterator yields (up to the first error), stopping at the first item that fails *)
Lemma sf_until_err_acc fuel : forall st acc,
  sf_until_err fuel st acc = rmap (fun l => rev acc ++ l) (sf_until_err fuel st []).
Proof.
  induction fuel as [|f IH]; intros st acc; [reflexivity|].
  cbn [sf_until_err]. unfold rmap, bind.
  destruct (sf_next st) as [[o st']| |]; try reflexivity.
  destruct o as [it|]; [|cbn [rev app]; rewrite app_nil_r; reflexivity].
  destruct it; try (cbn [rev app]; reflexivity);
    rewrite (IH st' (_ :: acc)), (IH st' [_]); unfold rmap, bind;
    destruct (sf_until_err f st' []); try reflexivity; cbn [rev app]; rewrite <- app_assoc; reflexivity.
Qed.

Theorem format_concat : forall fuel a st items,
  sf_until_err fuel st [] = Val items ->
  forall acc, write_to fuel a st acc = write_items a items acc.
Proof.
  induction fuel as [|f IH]; intros a st items H acc; [discriminate|].
  cbn [sf_until_err] in H. cbn [write_to]. unfold bind in *.
  destruct (sf_next st) as [[o st']| |]; try discriminate.
  destruct o as [it|].
  - assert (Hgen : forall it', it = it' -> it' <> IError ->
              sf_until_err f st' [it'] = Val items ->
              (let+ s := format_item a it' in write_to f a st' (acc ++ s)) = write_items a items acc).
    { intros it' -> Hne Hu. rewrite sf_until_err_acc in Hu. unfold rmap, bind in Hu.
      destruct (sf_until_err f st' []) as [l| |] eqn:El; try discriminate.
      injection Hu as <-. cbn [rev app write_items]. unfold fseq, bind.
      destruct (format_item a it') as [[s|]| |]; try reflexivity. apply IH. exact El. }
    destruct it; try (apply (Hgen _ eq_refl); [discriminate|exact H]).
    injection H as <-. reflexivity.
  - injection H as <-. reflexivity.
Qed.

(** rendering does not see the chunking of text nor the Literal/Space distinction *)
Lemma write_items_norm a l : forall acc, write_items a (norm_items l) acc = write_items a l acc.
Proof.
  induction l as [|it r IH]; intros acc; [reflexivity|].
  assert (T : forall s, write_items a (match norm_items r with
                                        | Literal b :: r' => Literal (s ++ b) :: r'
                                        | r' => Literal s :: r' end) acc
                        = write_items a r (acc ++ s)).
  { intros s. rewrite <- IH. destruct (norm_items r) as [|[b|b|n p|f|] r']; try reflexivity.
    cbn [write_items format_item]. unfold fseq, bind, fok. rewrite app_assoc. reflexivity. }
  destruct it; cbn [norm_items]; try apply T.
  - cbn [write_items]. unfold fseq, bind. destruct (format_item a (INumeric n p)) as [[s|]| |]; try reflexivity. apply IH.
  - cbn [write_items]. unfold fseq, bind. destruct (format_item a (IFixed f)) as [[s|]| |]; try reflexivity. apply IH.
  - reflexivity.
Qed.

(** the item list of a format string agrees with the documentation table (decidable by
    computation for any given format string; proved in general below for the documented family) *)
Definition tokenization_agrees (fmt : bytes) : Prop :=
  exists items, strict_items fmt = Val items /\ norm_items items = norm_items (doc_items fmt).

(** format_spec: for a format string whose items agree with the table, formatting any value yields
    the documented text, or fails exactly where the documentation says it fails *)
Theorem format_spec : forall a sv fmt, args_view a sv -> tokenization_agrees fmt ->
  claim (doc_format sv fmt) (delayed_display a (sf_new fmt)).
Proof.
  intros a sv fmt Hv (items & Hi & Hn).
  unfold delayed_display. cbn [sf_new sf_remainder sf_queue List.length]. rewrite Nat.add_0_r.
  rewrite (format_concat _ a _ items Hi).
  rewrite <- write_items_norm, Hn, write_items_norm.
  unfold doc_items. rewrite write_items_upto_err.
  unfold doc_format. apply render_tokens_spec; [exact Hv|apply tokens_documented].
Qed.

(** * strftime_terminates *)
Lemma nth_z_aux_some {A} (s : list A) : forall n b, nth_z_aux s n = Some b -> (n < List.length s)%nat.
Proof.
  induction s as [|a s IH]; intros [|n] b H; cbn in *; try discriminate; try lia.
  apply IH in H. lia.
Qed.
Lemma is_char_boundary_le s i : is_char_boundary s i = true -> 0 <= i <= blen s.
Proof.
  unfold is_char_boundary, blen. destruct (i =? 0) eqn:E0; [lia|].
  destruct (i <? 0) eqn:E1; [discriminate|].
  destruct (nth_z_aux s (Z.to_nat i)) as [b|] eqn:En.
  - apply nth_z_aux_some in En. lia.
  - lia.
Qed.
Lemma str_from_len s i r : str_from s i = Val r -> 0 <= i <= blen s /\ blen r = blen s - i.
Proof.
  unfold str_from. destruct (is_char_boundary s i) eqn:E; [|discriminate].
  intros H. injection H as <-. apply is_char_boundary_le in E. split; [exact E|].
  unfold blen in *. rewrite skipn_length. lia.
Qed.
Lemma len_utf8_pos c : 1 <= len_utf8 c <= 4.
Proof. unfold len_utf8. destruct (c <? 128), (c <? 2048), (c <? 65536); lia. Qed.
Lemma next_char_nonempty r x : next_char r = Some x -> 1 <= blen r.
Proof. destruct r; [discriminate|]. unfold blen. cbn [List.length]. lia. Qed.

Section Terminates.
Variable lenient : bool.
Variable original : bytes.
Hypothesis Hcons : SF_ERROR_CONSUMES = true \/ lenient = true.
Hypothesis Horig : 1 <= blen original.

Definition shorter (rm : bytes) : Prop := blen rm < blen original.
Definition el_ok (el : Z) : Prop := lenient = true -> 1 <= el.

Lemma sf_error_inv el ch el' rm it :
  (lenient = true -> match ch with Some c => 1 + len_utf8 c <= el | None => 1 <= el end) ->
  sf_error lenient original el ch = Val (el', (rm, it)) -> shorter rm /\ el_ok el'.
Proof.
  intros Hel H. unfold sf_error in H. destruct lenient eqn:El; cbn [negb] in H.
  - specialize (Hel eq_refl).
    assert (Hs : exists e, (match ch with Some c => sub_usize el (len_utf8 c) | None => Val el end) = Val e
                           /\ 1 <= e).
    { destruct ch as [c|].
      - unfold sub_usize, chk in *. destruct (in_usize (el - len_utf8 c)); [|discriminate].
        exists (el - len_utf8 c). split; [reflexivity|lia].
      - exists el. split; [reflexivity|lia]. }
    destruct Hs as (e & He & He1). rewrite He in H. cbv [bind] in H.
    destruct (str_from original e) as [r| |] eqn:Er; try discriminate.
    destruct (str_to original e); try discriminate.
    injection H as <- <- <-. apply str_from_len in Er. unfold shorter, el_ok. split; [lia|intros _; lia].
  - destruct Hcons as [Hc|Hc]; [|discriminate]. rewrite Hc in H. injection H as <- <- <-.
    unfold shorter, el_ok, blen. cbn [List.length]. split; [unfold blen in Horig; lia|intros Hl; congruence].
Qed.

Lemma sf_next_char_inv remainder el res :
  blen remainder <= blen original -> el_ok el ->
  sf_next_char lenient original remainder el = Val res ->
  match res with
  | inl (rm, _) => shorter rm
  | inr (x, rm, el') => blen rm < blen remainder /\ (lenient = true -> el' = el + len_utf8 x /\ 1 <= el)
  end.
Proof.
  intros Hr Hel H. unfold sf_next_char in H.
  destruct (next_char remainder) as [x|] eqn:Ex.
  - destruct (str_from remainder (len_utf8 x)) as [rm| |] eqn:Es; try discriminate. cbv [bind] in H.
    apply str_from_len in Es. pose proof (len_utf8_pos x).
    destruct lenient eqn:El.
    + unfold add_usize, chk in H. destruct (in_usize (el + len_utf8 x)); [|discriminate].
      injection H as <-. split; [lia|]. intros _. split; [reflexivity|apply Hel; exact El].
    + injection H as <-. split; [lia|intros Hl; congruence].
  - destruct (sf_error lenient original el None) as [[el' [rm it]]| |] eqn:Ee; try discriminate.
    cbv [bind] in H. injection H as <-.
    apply sf_error_inv in Ee; [exact (proj1 Ee)|]. intros Hl. exact (Hel Hl).
Qed.

(* queued tails occurring in an arm *)
Fixpoint arm_queues (a : sf_arm) : list (list Item) :=
  match a with
  | ArmQueue _ t => [t]
  | ArmNext l => (fix go (l : list (Z * sf_arm)) : list (list Item) :=
                    match l with [] => [] | (_, sub) :: r => arm_queues sub ++ go r end) l
  | _ => []
  end.

Definition arm_res_ok (a : sf_arm) (q : list Item) (res : arm_res) : Prop :=
  match res with
  | ARet (rm, _) q' => shorter rm /\ q' = q
  | ACont _ rm el' q' => shorter rm /\ el_ok el' /\ (q' = q \/ In q' (arm_queues a))
  end.

Lemma run_arm_inv alt : forall a remainder el q res,
  shorter remainder -> el_ok el ->
  run_arm lenient alt original a remainder el q = Val res -> arm_res_ok a q res.
Proof.
  fix IH 1. intros a remainder el q res Hr Hel H. destruct a as [i|h t|al pl|l|l]; cbn [run_arm] in H.
  - injection H as <-. cbn. auto.
  - injection H as <-. cbn. auto.
  - injection H as <-. cbn. auto.
  - (* prefixes *)
    revert H. induction l as [|[p it] r IHl]; intros H.
    + destruct (sf_error lenient original el None) as [[el' [rm it]]| |] eqn:Ee; try discriminate.
      cbv [bind] in H. injection H as <-.
      apply sf_error_inv in Ee; [|intros Hl; exact (Hel Hl)]. cbn. destruct Ee. auto.
    + destruct (strip_prefix p remainder).
      * destruct (str_from remainder (blen p)) as [rm| |] eqn:Es; try discriminate. cbv [bind] in H.
        injection H as <-. apply str_from_len in Es. cbn. unfold shorter in *. split; [lia|auto].
      * apply IHl. exact H.
  - (* next *)
    destruct (sf_next_char lenient original remainder el) as [n| |] eqn:En; try discriminate.
    cbv [bind] in H. apply sf_next_char_inv in En; [|unfold shorter in Hr; lia|exact Hel].
    destruct n as [[rm it]|[[x rm] el']].
    + injection H as <-. cbn. auto.
    + destruct En as [Hrm Hel'].
      assert (Hsh : shorter rm) by (unfold shorter in *; lia).
      assert (Hel2 : el_ok el') by (intros Hl; destruct (Hel' Hl) as [-> ?]; pose proof (len_utf8_pos x); lia).
      revert H. cbn [arm_queues]. induction l as [|[c sub] r IHl]; intros H.
      * destruct (sf_error lenient original el' (Some x)) as [[el'' [rm' it]]| |] eqn:Ee; try discriminate.
        cbv [bind] in H. injection H as <-.
        apply sf_error_inv in Ee; [|intros Hl; destruct (Hel' Hl) as [-> ?]; lia]. cbn. destruct Ee. auto.
      * destruct (x =? c).
        -- apply IH in H; [|exact Hsh|exact Hel2]. unfold arm_res_ok in *.
           destruct res as [[rm' it'] q'|it' rm' el'' q']; [exact H|].
           destruct H as (A & B & [C|C]); repeat split; auto. right. apply in_or_app. left. exact C.
        -- apply IHl in H. unfold arm_res_ok in *.
           destruct res as [[rm' it'] q'|it' rm' el'' q']; [exact H|].
           destruct H as (A & B & [C|C]); repeat split; auto. right. apply in_or_app. right. exact C.
Qed.
End Terminates.

Lemma assoc_in {A} (k : Z) (l : list (Z * A)) v : assoc k l = Some v -> In (k, v) l.
Proof.
  induction l as [|[k' v'] r IH]; cbn [assoc]; [discriminate|].
  destruct (k =? k') eqn:E; intros H.
  - injection H as <-. apply Z.eqb_eq in E. subst. left. reflexivity.
  - right. apply IH. exact H.
Qed.

Definition queue_ok (q q' : list Item) : Prop :=
  q' = q \/ exists c arm, In (c, arm) SF_ARMS /\ In q' (arm_queues arm).

Lemma parse_spec_inv lenient q original rm it q' :
  SF_ERROR_CONSUMES = true \/ lenient = true -> 1 <= blen original ->
  parse_spec lenient q original = Val (Some (rm, it), q') ->
  blen rm < blen original /\ queue_ok q q'.
Proof.
  intros Hcons Horig H. unfold parse_spec in H.
  destruct (str_from original 1) as [rem0| |] eqn:E0; try discriminate. cbv [bind] in H.
  apply str_from_len in E0.
  assert (Hel0 : exists el0, (if lenient then add_usize 0 1 else Val 0) = Val el0 /\ (lenient = true -> el0 = 1)).
  { destruct lenient; [exists 1|exists 0]; split; auto; discriminate. }
  destruct Hel0 as (el0 & Eel & Hel0). rewrite Eel in H. cbv [bind] in H.
  destruct (sf_next_char lenient original rem0 el0) as [n| |] eqn:En; try discriminate.
  apply (sf_next_char_inv lenient original Hcons Horig) in En;
    [|lia|intros Hl; rewrite (Hel0 Hl); lia].
  destruct n as [[rm1 it1]|[[spec rem1] el1]].
  { injection H as <- <- <-. split; [exact En|left; reflexivity]. }
  destruct En as [Hrem1 Hel1].
  (* the optional second character *)
  set (n2 := if is_some (assoc spec SF_PAD_OVERRIDE) || (spec =? SF_ALT_CHAR)
             then sf_next_char lenient original rem1 el1 else Val (inr (spec, rem1, el1))) in H.
  assert (Hn2 : forall r, n2 = Val r ->
            match r with
            | inl (rm, _) => shorter original rm
            | inr (x, rm, el) => shorter original rm /\ (lenient = true -> 1 + len_utf8 x <= el)
            end).
  { intros r Hr. unfold n2 in Hr.
    destruct (is_some (assoc spec SF_PAD_OVERRIDE) || (spec =? SF_ALT_CHAR)).
    - apply (sf_next_char_inv lenient original Hcons Horig) in Hr;
        [|lia|intros Hl; destruct (Hel1 Hl) as [-> ?]; pose proof (len_utf8_pos spec); lia].
      destruct r as [[rm2 it2]|[[x rm2] el2]]; [exact Hr|].
      destruct Hr as [HA HB]. split; [unfold shorter; lia|].
      intros Hl. destruct (HB Hl) as [-> ?]. lia.
    - injection Hr as <-. split; [unfold shorter; lia|].
      intros Hl. destruct (Hel1 Hl) as [-> ?]. rewrite (Hel0 Hl). lia. }
  destruct n2 as [r2| |]; try discriminate. cbv [bind] in H. specialize (Hn2 r2 eq_refl).
  destruct r2 as [[rm2 it2]|[[spec2 rem2] el2]].
  { injection H as <- <- <-. split; [exact Hn2|left; reflexivity]. }
  destruct Hn2 as [Hsh2 Hel2].
  assert (Herr : forall el' rm' it', sf_error lenient original el2 (Some spec2) = Val (el', (rm', it')) ->
                   shorter original rm' /\ el_ok lenient el').
  { intros el' rm' it' He. apply (sf_error_inv lenient original Hcons Horig) in He; [exact He|exact Hel2]. }
  destruct ((spec =? SF_ALT_CHAR) && negb (contains_char SF_HAVE_ALTERNATES spec2)).
  { destruct (sf_error lenient original el2 (Some spec2)) as [[el' [rm' it']]| |] eqn:Ee; try discriminate.
    cbv [bind] in H. injection H as <- <- <-. split; [exact (proj1 (Herr _ _ _ eq_refl))|left; reflexivity]. }
  set (ar := match assoc spec2 SF_ARMS with
             | Some arm => run_arm lenient (spec =? SF_ALT_CHAR) original arm rem2 el2 q
             | None => match sf_error lenient original el2 (Some spec2) with
                       | Val (el, (rm, it)) => Val (ACont it rm el q)
                       | Panic => Panic | OutOfFuel => OutOfFuel end
             end) in H.
  assert (Har : forall res, ar = Val res ->
            match res with
            | ARet (rm, _) q' => shorter original rm /\ q' = q
            | ACont _ rm el' q' => shorter original rm /\ el_ok lenient el' /\ queue_ok q q'
            end).
  { intros res Hres. unfold ar in Hres. destruct (assoc spec2 SF_ARMS) as [arm|] eqn:Ea.
    - apply (run_arm_inv lenient original Hcons Horig) in Hres;
        [|exact Hsh2|intros Hl; specialize (Hel2 Hl); pose proof (len_utf8_pos spec2); lia].
      unfold arm_res_ok in Hres. destruct res as [[rm' it'] q''|it' rm' el' q'']; [exact Hres|].
      destruct Hres as (HA & HB & [HC|HC]); repeat split; auto; [left; exact HC|].
      right. exists spec2, arm. split; [apply assoc_in; exact Ea|exact HC].
    - destruct (sf_error lenient original el2 (Some spec2)) as [[el' [rm' it']]| |] eqn:Ee; try discriminate.
      cbv [bind] in Hres. injection Hres as <-. destruct (Herr _ _ _ eq_refl). repeat split; auto. left. reflexivity. }
  destruct ar as [res| |]; try discriminate. cbv [bind] in H. specialize (Har res eq_refl).
  destruct res as [[rm' it'] q''|item rem3 el3 q''].
  { destruct Har as [HA ->]. injection H as <- <- <-. split; [exact HA|left; reflexivity]. }
  destruct Har as (HA & HB & HC).
  assert (Herr2 : forall x rm' it', sf_error lenient original el3 None = Val (x, (rm', it')) -> shorter original rm').
  { intros x rm' it' He. apply (sf_error_inv lenient original Hcons Horig) in He; [exact (proj1 He)|exact HB]. }
  destruct (assoc spec SF_PAD_OVERRIDE) as [new_pad|].
  - destruct item; try (destruct (sf_error lenient original el3 None) as [[x [rm' it']]| |] eqn:Ee; try discriminate;
                        cbv [bind] in H; injection H as <- <- <-; split; [exact (Herr2 _ _ _ eq_refl)|exact HC]).
    destruct (is_nil q'').
    + injection H as <- <- <-. split; [exact HA|exact HC].
    + destruct (sf_error lenient original el3 None) as [[x [rm' it']]| |] eqn:Ee; try discriminate.
      cbv [bind] in H. injection H as <- <- <-. split; [exact (Herr2 _ _ _ eq_refl)|exact HC].
  - injection H as <- <- <-. split; [exact HA|exact HC].
Qed.

(* every parse step consumes at least one byte of the input *)
Theorem parse_next_item_consumes : forall lenient q r rm it q',
  SF_ERROR_CONSUMES = true \/ lenient = true ->
  parse_next_item lenient q r = Val (Some (rm, it), q') ->
  blen rm < blen r /\ queue_ok q q'.
Proof.
  intros lenient q r rm it q' Hcons H. unfold parse_next_item in H.
  destruct (next_char r) as [c0|] eqn:Ec; [|discriminate].
  pose proof (next_char_nonempty _ _ Ec) as Hne.
  destruct (c0 =? 37).
  { apply parse_spec_inv in H; auto. }
  assert (Hrun : forall nextspec mk,
            (let* _ := rassert (0 <? nextspec) in
             let* it := str_to r nextspec in
             let* rm := str_from r nextspec in
             Val (Some (rm, mk it), q)) = Val (Some (rm, it), q') -> blen rm < blen r /\ queue_ok q q').
  { intros nextspec mk Hx. unfold rassert in Hx. destruct (0 <? nextspec) eqn:Ep; [|discriminate].
    cbv [bind] in Hx. destruct (str_to r nextspec); try discriminate.
    destruct (str_from r nextspec) as [rm'| |] eqn:Es; try discriminate.
    injection Hx as <- _ <-. apply str_from_len in Es. split; [lia|left; reflexivity]. }
  destruct (is_whitespace c0); eapply Hrun; exact H.
Qed.

Lemma table_queues_short :
  Forall (fun ca => Forall (fun t => (List.length t <= 12)%nat) (arm_queues (snd ca))) SF_ARMS.
Proof. unfold SF_ARMS. repeat (apply Forall_cons; [cbn; repeat constructor; lia|]). apply Forall_nil. Qed.
Lemma queue_ok_short q' : queue_ok [] q' -> (List.length q' <= 12)%nat.
Proof.
  intros [->|(c & arm & Hin & Hq)]; [cbn; lia|].
  pose proof (proj1 (Forall_forall _ _) table_queues_short _ Hin) as H. cbn [snd] in H.
  exact (proj1 (Forall_forall _ _) H _ Hq).
Qed.

(* no function of the iterator contains a fuel-bounded loop *)
Definition nofuel {A} (x : R A) : Prop := x <> OutOfFuel.
Lemma nofuel_val {A} (a : A) : nofuel (Val a). Proof. discriminate. Qed.
Lemma nofuel_panic {A} : nofuel (@Panic A). Proof. discriminate. Qed.
Lemma nofuel_bind {A A2} (x : R A) (f : A -> R A2) : nofuel x -> (forall a, nofuel (f a)) -> nofuel (bind x f).
Proof. intros Hx Hf. destruct x; cbn [bind]; [apply Hf|discriminate|exfalso; apply Hx; reflexivity]. Qed.
Lemma nofuel_chk inr z : nofuel (chk inr z). Proof. unfold chk. destruct (inr z); discriminate. Qed.
Lemma nofuel_str_from s i : nofuel (str_from s i).
Proof. unfold str_from. destruct (is_char_boundary s i); discriminate. Qed.
Lemma nofuel_str_to s i : nofuel (str_to s i).
Proof. unfold str_to. destruct (is_char_boundary s i); discriminate. Qed.
Ltac nf :=
  repeat first
    [ apply nofuel_val | apply nofuel_panic | apply nofuel_chk | apply nofuel_str_from | apply nofuel_str_to
    | assumption
    | apply nofuel_bind; [|intros]
    | match goal with
      | |- nofuel (match ?x with _ => _ end) => destruct x
      | |- nofuel (if ?x then _ else _) => destruct x
      | |- nofuel (let (_, _) := ?x in _) => destruct x
      end ].
Lemma nofuel_sf_error l o el ch : nofuel (sf_error l o el ch).
Proof. unfold sf_error, sub_usize. nf. Qed.
Lemma nofuel_sf_next_char l o r el : nofuel (sf_next_char l o r el).
Proof. unfold sf_next_char, add_usize. pose proof (nofuel_sf_error l o el None). nf. Qed.
Lemma nofuel_run_arm l alt o : forall a r el q, nofuel (run_arm l alt o a r el q).
Proof.
  fix IH 1. intros a r el q. destruct a as [i|h t|al pl|pre|nx]; cbn [run_arm]; try apply nofuel_val.
  - induction pre as [|[p it] rest IHp].
    + pose proof (nofuel_sf_error l o el None). nf.
    + destruct (strip_prefix p r); [nf|exact IHp].
  - apply nofuel_bind; [apply nofuel_sf_next_char|]. intros [[rm it]|[[x rm] el']]; [nf|].
    induction nx as [|[c sub] rest IHn].
    + pose proof (nofuel_sf_error l o el' (Some x)). nf.
    + destruct (x =? c); [apply IH|exact IHn].
Qed.
Lemma nofuel_parse_spec l q o : nofuel (parse_spec l q o).
Proof.
  unfold parse_spec, add_usize.
  apply nofuel_bind; [nf|intros rem0]. apply nofuel_bind; [nf|intros el0].
  apply nofuel_bind; [apply nofuel_sf_next_char|]. intros [[rm it]|[[spec rem1] el1]]; [nf|].
  apply nofuel_bind; [destruct (_ || _); [apply nofuel_sf_next_char|nf]|].
  intros [[rm it]|[[spec2 rem2] el2]]; [nf|].
  destruct (_ && _).
  - pose proof (nofuel_sf_error l o el2 (Some spec2)). nf.
  - apply nofuel_bind.
    + destruct (assoc spec2 SF_ARMS); [apply nofuel_run_arm|].
      pose proof (nofuel_sf_error l o el2 (Some spec2)). nf.
    + intros [res q'|item rem3 el3 q']; [nf|].
      pose proof (nofuel_sf_error l o el3 None). nf.
Qed.
Lemma nofuel_parse_next_item l q r : nofuel (parse_next_item l q r).
Proof.
  unfold parse_next_item, rassert. pose proof (nofuel_parse_spec l q r). nf.
Qed.
Lemma nofuel_sf_next st : nofuel (sf_next st).
Proof.
  unfold sf_next. pose proof (nofuel_parse_next_item (sf_lenient st) [] (sf_remainder st)). nf.
Qed.

(* the measure: 13 per input byte left, 1 per queued item *)
Definition sf_measure (st : sfi) : Z := 13 * blen (sf_remainder st) + Z.of_nat (List.length (sf_queue st)).

Lemma sf_next_decreases st it st' :
  SF_ERROR_CONSUMES = true \/ sf_lenient st = true ->
  sf_next st = Val (Some it, st') ->
  sf_measure st' < sf_measure st /\ sf_lenient st' = sf_lenient st.
Proof.
  intros Hcons H. unfold sf_next in H. destruct st as [r q l]. cbn [sf_queue sf_remainder sf_lenient] in *.
  destruct q as [|i q].
  - destruct (parse_next_item l [] r) as [[o q']| |] eqn:Ep; try discriminate. cbv [bind] in H.
    destruct o as [[rm it']|]; [|discriminate]. injection H as <- <-.
    apply parse_next_item_consumes in Ep; [|exact Hcons]. destruct Ep as [Hlen Hq].
    apply queue_ok_short in Hq. unfold sf_measure. cbn [sf_queue sf_remainder sf_lenient List.length].
    split; [lia|reflexivity].
  - injection H as <- <-. unfold sf_measure. cbn [sf_queue sf_remainder sf_lenient List.length].
    split; [lia|reflexivity].
Qed.

(** strftime_terminates: with [fuel] above the measure, draining the iterator never runs out of
    fuel and never reports "still yielding": it ends (or traps) after at most [measure] items,
    i.e. at most 13 * (bytes of input) items for a fresh iterator *)
Theorem sf_take_terminates : forall fuel st acc,
  SF_ERROR_CONSUMES = true \/ sf_lenient st = true ->
  sf_measure st < Z.of_nat fuel ->
  match sf_take fuel st acc with
  | Val (Some l) => Z.of_nat (List.length l) <= Z.of_nat (List.length acc) + sf_measure st
  | Val None => False
  | Panic => True
  | OutOfFuel => False
  end.
Proof.
  induction fuel as [|f IH]; intros st acc Hcons Hm.
  - unfold sf_measure, blen in Hm. lia.
  - cbn [sf_take]. pose proof (nofuel_sf_next st) as Hnf.
    destruct (sf_next st) as [[o st']| |] eqn:En; cbv [bind]; try exact I; [|exact (Hnf eq_refl)].
    destruct o as [it|].
    + destruct (sf_next_decreases _ _ _ Hcons En) as [Hd Hl].
      specialize (IH st' (it :: acc) ltac:(rewrite Hl; exact Hcons) ltac:(lia)).
      destruct (sf_take f st' (it :: acc)) as [[l|]| |]; auto. cbn [List.length] in IH. lia.
    + rewrite rev_length. unfold sf_measure, blen. lia.
Qed.

Theorem strftime_terminates : forall s lenient,
  SF_ERROR_CONSUMES = true \/ lenient = true ->
  match sf_take (S (sf_bound s)) (mk_sfi s [] lenient) [] with
  | Val (Some l) => Z.of_nat (List.length l) <= 13 * blen s
  | Val None => False
  | Panic => True
  | OutOfFuel => False
  end.
Proof.
  intros s lenient Hcons.
  pose proof (sf_take_terminates (S (sf_bound s)) (mk_sfi s [] lenient) [] Hcons) as H.
  unfold sf_measure in H. cbn [sf_remainder sf_queue List.length] in H.
  assert (Hf : 13 * blen s + Z.of_nat 0 < Z.of_nat (S (sf_bound s))) by (unfold sf_bound, blen; lia).
  specialize (H Hf). destruct (sf_take _ _ _) as [[l|]| |]; auto. change (Z.of_nat 0) with 0 in H. lia.
Qed.
