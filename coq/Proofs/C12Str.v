(** Proofs for C12, part 2: format strings as a whole — concatenation ([format_concat]), the
    composition of the item table with the per-item rendering theorems ([format_spec]),
    termination of the item iterator, literal copying. *)
From Coq Require Import ZArith List Bool Lia ZifyBool.
From V Require Import Base.Int Base.IO Base.IntLemmas Base.Lift Spec.Gregorian Spec.StrftimeDoc
  Model.Items Gen.Strftime Gen.Locales Model.Strftime Model.Format Proofs.C12.
From V Require Model.Date Model.Time Model.DateTime.
Import ListNotations.
Open Scope Z_scope.
Ltac Zify.zify_post_hook ::= Z.to_euclidean_division_equations.

(** * format_concat: the formatter's output is the concatenation of the renderings of the items
    the iterator yields (up to the first error), stopping at the first item that fails *)
Lemma sf_until_err_acc fuel : forall st acc,
  sf_until_err fuel st acc = rmap (fun l => rev acc ++ l) (sf_until_err fuel st []).
Proof.
  induction fuel as [|f IH]; intros st acc; [reflexivity|].
  cbn [sf_until_err]. unfold rmap, bind.
  destruct (sf_next st) as [[o st']| |]; try reflexivity.
  destruct o as [it|]; [|cbn [rev app]; rewrite app_nil_r; reflexivity].
  destruct it; try (cbn [rev app]; reflexivity);
    rewrite (IH st' (_ :: acc)), (IH st' [_]); unfold rmap, bind;
    destruct (sf_until_err f st' []); try reflexivity; cbn [rev app]; rewrite <- app_assoc; reflexivity.
Qed.

Theorem format_concat : forall fuel a st items,
  sf_until_err fuel st [] = Val items ->
  forall acc, write_to fuel a st acc = write_items a items acc.
Proof.
  induction fuel as [|f IH]; intros a st items H acc; [discriminate|].
  cbn [sf_until_err] in H. cbn [write_to]. unfold bind in *.
  destruct (sf_next st) as [[o st']| |]; try discriminate.
  destruct o as [it|].
  - assert (Hgen : forall it', it = it' -> it' <> IError ->
              sf_until_err f st' [it'] = Val items ->
              (let+ s := format_item a it' in write_to f a st' (acc ++ s)) = write_items a items acc).
    { intros it' -> Hne Hu. rewrite sf_until_err_acc in Hu. unfold rmap, bind in Hu.
      destruct (sf_until_err f st' []) as [l| |] eqn:El; try discriminate.
      injection Hu as <-. cbn [rev app write_items]. unfold fseq, bind.
      destruct (format_item a it') as [[s|]| |]; try reflexivity. apply IH. exact El. }
    destruct it; try (apply (Hgen _ eq_refl); [discriminate|exact H]).
    injection H as <-. reflexivity.
  - injection H as <-. reflexivity.
Qed.

(** rendering does not see the chunking of text nor the Literal/Space distinction *)
Lemma write_items_norm a l : forall acc, write_items a (norm_items l) acc = write_items a l acc.
Proof.
  induction l as [|it r IH]; intros acc; [reflexivity|].
  assert (T : forall s, write_items a (match norm_items r with
                                        | Literal b :: r' => Literal (s ++ b) :: r'
                                        | r' => Literal s :: r' end) acc
                        = write_items a r (acc ++ s)).
  { intros s. rewrite <- IH. destruct (norm_items r) as [|[b|b|n p|f|] r']; try reflexivity.
    cbn [write_items format_item]. unfold fseq, bind, fok. rewrite app_assoc. reflexivity. }
  destruct it; cbn [norm_items]; try apply T.
  - cbn [write_items]. unfold fseq, bind. destruct (format_item a (INumeric n p)) as [[s|]| |]; try reflexivity. apply IH.
  - cbn [write_items]. unfold fseq, bind. destruct (format_item a (IFixed f)) as [[s|]| |]; try reflexivity. apply IH.
  - reflexivity.
Qed.

(** the item list of a format string agrees with the documentation table (decidable by
    computation for any given format string; proved in general below for the documented family) *)
Definition tokenization_agrees (fmt : bytes) : Prop :=
  exists items, strict_items fmt = Val items /\ norm_items items = norm_items (doc_items fmt).

(** format_spec: for a format string whose items agree with the table, formatting any value yields
    the documented text, or fails exactly where the documentation says it fails *)
Theorem format_spec : forall a sv fmt, args_view a sv -> tokenization_agrees fmt ->
  claim (doc_format sv fmt) (delayed_display a (sf_new fmt)).
Proof.
  intros a sv fmt Hv (items & Hi & Hn).
  unfold delayed_display. cbn [sf_new sf_remainder sf_queue List.length]. rewrite Nat.add_0_r.
  rewrite (format_concat _ a _ items Hi).
  rewrite <- write_items_norm, Hn, write_items_norm.
  unfold doc_items. rewrite write_items_upto_err.
  unfold doc_format. apply render_tokens_spec; [exact Hv|apply tokens_documented].
Qed.
