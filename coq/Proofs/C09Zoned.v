(** C09 -- DateTime<FixedOffset> / DateTime<Utc>: both printed forms parse back, for every
    represented UTC date x every time in the domain x every whole-minute offset, provided the
    wall-clock date is itself a represented date (the recorded finding covers the rest). *)
From Coq Require Import ZArith List Bool Lia ZifyBool String.
From V Require Import Base.Int Base.IntLemmas Base.IO Base.Utf8 Base.Lift Gen.DateTables Gen.TextForms Gen.ParseTable
  Model.Scan Model.Items Model.Rfc3339 Model.Parse Model.FromStr Model.Show Model.DateTime Spec.Gregorian
  Proofs.Utf8 Proofs.Scan Proofs.Decimal Proofs.C09Parse Proofs.C09Show Proofs.C09Time Proofs.C09Date Proofs.C09DateTime.
From V Require Model.Parsed Model.Date Model.Time Proofs.C14 Proofs.Date Proofs.C08 Proofs.C04.
Import ListNotations.
Open Scope Z_scope.
Ltac Zify.zify_post_hook ::= Z.to_euclidean_division_equations.

Import Model.Parsed.
Import Proofs.Date.

(** * FixedOffset text *)
Definition off_txt (off : Z) : bytes :=
  let a := Z.abs off in
  (if off <? 0 then 45 else 43) :: low_digits 2 (a / 3600) ++ 58 :: low_digits 2 (a / 60 mod 60).

Lemma fixed_debug_text w off : -86400 < off < 86400 -> off mod 60 = 0 ->
  fixed_debug w off = wok (w ++ off_txt off).
Proof.
  intros Hr Hm. unfold fixed_debug, off_txt.
  assert (Hgen : forall sign a, 0 <= a < 86400 -> a mod 60 = 0 ->
    (let* sec := rem_euclid in_i32 a 60 in
     let* mins := div_euclid in_i32 a 60 in
     let* min := rem_euclid in_i32 mins 60 in
     let* hour := div_euclid in_i32 mins 60 in
     if sec =? 0 then wok (w ++ [sign] ++ fmt_i32_02 hour ++ [58] ++ fmt_i32_02 min)
     else wok (w ++ [sign] ++ fmt_i32_02 hour ++ [58] ++ fmt_i32_02 min ++ [58] ++ fmt_i32_02 sec)) =
    wok (w ++ sign :: low_digits 2 (a / 3600) ++ 58 :: low_digits 2 (a / 60 mod 60))).
  { intros sign a Ha Ham.
    rewrite !rem_euclid_pos, !div_euclid_pos by lia.
    replace (in_i32 (a / 60)) with true by (symmetry; apply in_i32_iff; lia). cbn [bind].
    rewrite chk_in by (apply in_i32_iff; lia). cbn [bind].
    rewrite rem_euclid_pos, div_euclid_pos by lia.
    replace (in_i32 (a / 60 / 60)) with true by (symmetry; apply in_i32_iff; lia). cbn [bind].
    rewrite chk_in by (apply in_i32_iff; lia). cbn [bind].
    replace (a mod 60 =? 0) with true by lia.
    unfold fmt_i32_02. replace (a / 60 / 60 <? 0) with false by lia. replace ((a / 60) mod 60 <? 0) with false by lia.
    rewrite !fmt_zero_pad_low by (change (10 ^ 2) with 100; lia).
    replace (a / 60 / 60) with (a / 3600) by lia. reflexivity. }
  destruct (off <? 0) eqn:E.
  - unfold neg_i32. rewrite chk_in by (apply in_i32_iff; lia). cbn [bind].
    replace (Z.abs off) with (- off) by lia. apply Hgen; lia.
  - cbn [bind]. replace (Z.abs off) with off by lia. apply Hgen; lia.
Qed.
Lemma ascii_off off : ascii (off_txt off).
Proof. unfold off_txt. destruct (off <? 0); ascii_tac. Qed.
Lemma off_txt_nows off : nows_start (off_txt off).
Proof. unfold off_txt. cbn. destruct (off <? 0); split; try lia; reflexivity. Qed.
Lemma off_txt_stop off : frac_stop (off_txt off).
Proof. split; [apply ascii_off|]. unfold off_txt. destruct (off <? 0); split; reflexivity. Qed.

(** * the tail of parse_rfc3339_relaxed: trim, "UTC" or an offset *)
Definition tail_scan (s : bytes) : PR (bytes * Z) :=
  let s := trim_start s in
  let n := blen P_RELAXED_UTC in
  let* utc := (if blen s >=? n then let* pre := slice_to s n in Val (eq_ignore_ascii_case P_RELAXED_UTC pre)
               else Val false) in
  (if (utc : bool) then let* r := str_from s n in pok (r, 0)
   else let '(z, mm, ms) := P_RELAXED_TZ_FLAGS in timezone_offset s colon_or_space z mm ms).
Definition inner_items := parse_items (fun _ _ => @OutOfFuel (presult (parsed * bytes))).
Lemma parse_rfc3339_relaxed_unfold p s :
  parse_rfc3339_relaxed p s =
  (let+ '(p, s) := inner_items p s P_RELAXED_DATE_ITEMS in
   let+ s :=
     match s with
     | c :: _ => if existsb (Z.eqb c) P_RELAXED_SEPARATORS then plift (str_from s 1) else perr_ Scan.Invalid
     | [] => perr_ Scan.TooShort
     end in
   let+ '(p, s) := inner_items p s P_RELAXED_TIME_ITEMS in
   let+ '(s, offset) := tail_scan s in
   let+ p := setq (set_offset p offset) in
   pok (p, s)).
Proof.
  unfold parse_rfc3339_relaxed, tail_scan, inner_items.
  destruct (parse_items _ p s P_RELAXED_DATE_ITEMS) as [[[p1 s1]|e]| |]; try reflexivity. cbn [pbind bind].
  match goal with |- pbind ?x _ = pbind ?x _ => destruct x as [[s2|e]| |] end; try reflexivity. cbn [pbind bind].
  destruct (parse_items _ p1 s2 P_RELAXED_TIME_ITEMS) as [[[p3 s3]|e]| |]; try reflexivity. cbn [pbind bind]. cbv zeta.
  match goal with |- bind ?x _ = _ => destruct x as [utc| |] end; reflexivity.
Qed.

Definition PRtail_is (r : PR (bytes * Z)) (v : Z) : bool :=
  match r with Val (POk ([], x)) => x =? v | _ => false end.
Lemma tail_off_sweep : forall_range (fun m => PRtail_is (tail_scan (off_txt (60 * m))) (60 * m)) (-1439) 2879 = true.
Proof. vm_compute. reflexivity. Qed.
Lemma tail_scan_off off : -86400 < off < 86400 -> off mod 60 = 0 -> tail_scan (off_txt off) = Val (POk ([], off)).
Proof.
  intros Hr Hm. assert (E : off = 60 * (off / 60)) by lia.
  pose proof (forall_range_spec _ _ _ tail_off_sweep (off / 60) ltac:(lia)) as H. cbv beta in H.
  rewrite <- E in H. unfold PRtail_is in H.
  destruct (tail_scan (off_txt off)) as [[[[|c r] x]|e]| |]; try discriminate.
  apply Z.eqb_eq in H. subst. reflexivity.
Qed.
Lemma tail_scan_z : tail_scan SH_UTC_DEBUG = Val (POk ([], 0)).
Proof. vm_compute. reflexivity. Qed.
Lemma tail_scan_utc : tail_scan SH_UTC_DISPLAY = Val (POk ([], 0)).
Proof. vm_compute. reflexivity. Qed.

(** * the wall clock of a date-time, and back *)
Section Zoned.
  Variables (yu ou du su fu off : Z).
  Hypothesis Hrepr : repr yu ou du.
  Hypothesis Htime : time_dom (Time.mk_time su fu).
  Hypothesis Hoff : -86400 < off < 86400.
  Hypothesis Hmin : off mod 60 = 0.
  Let n := dn_of_yo yu ou + (su + off) / 86400.
  Hypothesis Hwall : dn_in_range n = true.
  Let yl := fst (yo_of_dn n).
  Let ol := snd (yo_of_dn n).
  Let dl := date_of_dn n.
  Let sl := (su + off) mod 86400.
  Let a := mk_dtz (mk_ndt du (Time.mk_time su fu)) off.

  Lemma Hsu : 0 <= su < 86400.
  Proof. destruct Htime as [[H _] _]. exact H. Qed.
  Lemma Hfu : 0 <= fu < 2000000000.
  Proof. destruct Htime as [[_ H] _]. exact H. Qed.
  Lemma local_repr : repr yl ol dl.
  Proof. apply date_of_dn_repr. exact Hwall. Qed.
  Lemma local_dn : dn_of_yo yl ol = n.
  Proof. apply yo_of_dn_valid. Qed.
  Lemma local_time_dom : time_dom (Time.mk_time sl fu).
  Proof.
    pose proof Hsu. pose proof Hfu. destruct Htime as [_ Hl]. cbn [Time.tsecs Time.tfrac] in Hl.
    split; [split; cbn [Time.tsecs Time.tfrac]; unfold sl; lia|]. cbn [Time.tsecs Time.tfrac].
    destruct Hl as [Hl|Hl]; [left; exact Hl|right]. unfold sl. lia.
  Qed.

  Lemma local_of : overflowing_naive_local a = Val (mk_ndt dl (Time.mk_time sl fu)).
  Proof.
    pose proof Hsu as Hs. pose proof Hfu as Hf.
    unfold overflowing_naive_local, ndt_overflowing_add_offset, a. cbn [dz_utc dz_off nd_date nd_time].
    rewrite C04.overflowing_add_offset_spec; [|split; cbn [Time.tsecs Time.tfrac]; assumption|exact Hoff].
    cbn [bind Time.tsecs Time.tfrac]. unfold shift_date_overflowing.
    assert (Hk : (su + off) / 86400 = -1 \/ (su + off) / 86400 = 0 \/ (su + off) / 86400 = 1) by lia.
    unfold dl, n in *. destruct Hk as [Hk|[Hk|Hk]]; rewrite Hk in *.
    - cbn [Z.eqb]. rewrite (pred_opt_spec yu ou du Hrepr).
      replace (dn_of_yo yu ou + -1) with (dn_of_yo yu ou - 1) in * by lia. rewrite Hwall. reflexivity.
    - cbn [Z.eqb]. rewrite Z.add_0_r. rewrite (date_of_dn_of_repr yu ou du Hrepr). reflexivity.
    - cbn [Z.eqb Pos.eqb]. rewrite (succ_opt_spec yu ou du Hrepr). rewrite Hwall. reflexivity.
  Qed.

  Lemma back : from_local_datetime off (mk_ndt dl (Time.mk_time sl fu)) = Val (MSingle a).
  Proof.
    pose proof Hsu as Hs. pose proof Hfu as Hf.
    unfold from_local_datetime, ndt_checked_sub_offset. cbn [nd_date nd_time].
    rewrite C04.overflowing_sub_offset_spec; [|split; cbn [Time.tsecs Time.tfrac]; unfold sl; lia|exact Hoff].
    cbn [bind Time.tsecs Time.tfrac]. unfold shift_date_checked.
    replace ((sl - off) mod 86400) with su by (unfold sl; lia).
    assert (Hk : (su + off) / 86400 = -1 \/ (su + off) / 86400 = 0 \/ (su + off) / 86400 = 1) by lia.
    pose proof local_repr as Hl. pose proof local_dn as Hn.
    pose proof (repr_dn_in_range yu ou du Hrepr) as Hur. pose proof (date_of_dn_of_repr yu ou du Hrepr) as Hud.
    destruct Hk as [Hk|[Hk|Hk]].
    - replace ((sl - off) / 86400) with 1 by (unfold sl; lia). cbn [Z.eqb Pos.eqb].
      rewrite (succ_opt_spec yl ol dl Hl). rewrite Hn. unfold n. rewrite Hk.
      replace (dn_of_yo yu ou + -1 + 1) with (dn_of_yo yu ou) by lia. rewrite Hur, Hud. reflexivity.
    - replace ((sl - off) / 86400) with 0 by (unfold sl; lia). cbn [Z.eqb].
      unfold obind. cbn [bind]. unfold dl, n. rewrite Hk, Z.add_0_r, Hud. reflexivity.
    - replace ((sl - off) / 86400) with (-1) by (unfold sl; lia). cbn [Z.eqb].
      rewrite (pred_opt_spec yl ol dl Hl). rewrite Hn. unfold n. rewrite Hk.
      replace (dn_of_yo yu ou + 1 - 1) with (dn_of_yo yu ou) by lia. rewrite Hur, Hud. reflexivity.
  Qed.

  (* the text: local date, separator, local time, [gap] offset *)
  Definition zoned_txt (sep : Z) (zone : bytes) : bytes :=
    ndt_txt sep yl (C08.month_of yl ol) (C08.day_of yl ol) sl fu ++ zone.

  Lemma dtz_debug_text utc : dtz_debug utc [] a = wok (zoned_txt 84 (if utc then SH_UTC_DEBUG else off_txt off)).
  Proof.
    unfold dtz_debug. rewrite local_of. cbn [bind]. unfold wseq.
    rewrite (ndt_debug_text [] yl ol dl _ local_repr (proj1 local_time_dom)). unfold wok. cbn [bind app Time.tsecs Time.tfrac].
    unfold zoned_txt. destruct utc.
    - reflexivity.
    - unfold a. cbn [dz_off]. rewrite fixed_debug_text by assumption. reflexivity.
  Qed.
  Lemma dtz_display_text utc :
    dtz_display utc [] a = wok (zoned_txt 32 (32 :: (if utc then SH_UTC_DISPLAY else off_txt off))).
  Proof.
    unfold dtz_display. rewrite local_of. cbn [bind]. unfold wseq.
    rewrite (ndt_display_text [] yl ol dl _ local_repr (proj1 local_time_dom)). unfold wok. cbn [bind app Time.tsecs Time.tfrac].
    unfold write_char. cbn [bind]. change SH_DT_DISPLAY_SEP with 32.
    unfold zoned_txt. destruct utc.
    - unfold utc_display, wok. rewrite <- app_assoc. reflexivity.
    - unfold a. cbn [dz_off]. unfold fixed_display. rewrite fixed_debug_text by assumption. unfold wok. rewrite <- app_assoc. reflexivity.
  Qed.

  (* reading: [zone] is what follows the time; after the final Space of TIME_ITEMS it is [zone'] *)
  Lemma read_zoned sep zone zone' o' :
    (sep = 84 \/ sep = 32) -> frac_stop zone ->
    (forall rel p x, parse_item rel p zone (Space x) = pok (p, zone')) ->
    tail_scan zone' = Val (POk ([], o')) -> o' = off ->
    datetime_from_str (zoned_txt sep zone) = Val (POk a).
  Proof.
    intros Hsep Hstop Hsp Htail Ho'. subst o'.
    pose proof local_repr as Hl. pose proof local_time_dom as Hlt.
    destruct (repr_ymd yl ol dl Hl) as (Hm & Hd & Hv & Hmk & Hy).
    unfold datetime_from_str. rewrite parse_rfc3339_relaxed_unfold.
    unfold zoned_txt, ndt_txt, inner_items, P_RELAXED_DATE_ITEMS, P_RELAXED_TIME_ITEMS.
    destruct fresh_new as [Fd Ft].
    repeat (rewrite <- app_assoc; cbn [app]).
    rewrite run_date; try lia; [|exact Fd|].
    2:{ destruct Hstop as (Ha & _). ascii_tac; unfold time_txt; ascii_tac; exact Ha. }
    rewrite parse_items_nil. cbn [pbind bind pok].
    replace (existsb (Z.eqb sep) P_RELAXED_SEPARATORS) with true by (destruct Hsep as [-> | ->]; reflexivity).
    rewrite str_from_1.
    2:{ apply utf8_valid_starts_ok, utf8_ascii. destruct Hstop as (Ha & _). unfold time_txt. ascii_tac. exact Ha. }
    cbn [plift pbind bind pok].
    rewrite run_time; [|apply time_fresh_ymd; exact Ft|exact Hlt|exact Hstop].
    cbn [parse_items]. rewrite Hsp. cbn [pbind bind pok].
    rewrite Htail. cbn [pbind bind pok].
    set (p1 := with_time (with_ymd parsed_new yl (C08.month_of yl ol) (C08.day_of yl ol)) sl fu).
    destruct (with_time_date (with_ymd parsed_new yl (C08.month_of yl ol) (C08.day_of yl ol)) sl fu)
      as (_ & _ & _ & _ & _ & _ & _ & _ & _ & _ & _ & _ & _ & _ & E15 & E16). fold p1 in E15, E16.
    unfold set_offset. rewrite set_checked_fresh; [|exact E16|unfold i32_min, i32_max; lia].
    cbn [setq pbind bind pok]. change (trim_start []) with (@nil Z). cbn [is_empty negb].
    unfold pr_of, to_datetime.
    set (p2 := pput F_offset (Some off) p1).
    assert (Eoff : p_offset p2 = Some off) by reflexivity. rewrite Eoff. cbn [ebind bind].
    unfold to_naive_datetime_with_offset.
    assert (Edate : to_naive_date p2 = Val (Ok dl)).
    { pose proof (to_naive_date_dt yl ol dl sl fu Hl) as Hd0. fold p1 in Hd0. exact Hd0. }
    rewrite Edate. cbn [bind].
    assert (Etime : to_naive_time p2 = Val (Ok (Time.mk_time sl fu))).
    { pose proof (to_naive_time_with_time (with_ymd parsed_new yl (C08.month_of yl ol) (C08.day_of yl ol)) sl fu Hlt eq_refl) as Ht0.
      fold p1 in Ht0. exact Ht0. }
    rewrite Etime. cbn [bind].
    destruct (dt_timestamp_ok yl ol dl (Time.mk_time sl fu) off Hl (proj1 (proj1 Hlt)) Hoff) as (ts & Ets & Esub).
    rewrite Ets. cbn [bind]. rewrite Esub. cbn [bind].
    assert (Ets2 : p_timestamp p2 = None) by (exact E15). rewrite Ets2. cbn [ebind bind].
    assert (Ee : east_opt off = Some off) by (apply C04.east_opt_some_iff; split; [reflexivity|exact Hoff]).
    rewrite Ee. cbn [ok_or ebind bind].
    rewrite back. reflexivity.
  Qed.
End Zoned.

(** * the theorems *)
Definition dtz_dom (a : dtz) : Prop :=
  exists yu ou, repr yu ou (nd_date (dz_utc a)) /\ time_dom (nd_time (dz_utc a)) /\
    -86400 < dz_off a < 86400 /\ dz_off a mod 60 = 0 /\
    (* the wall-clock date is a represented date *)
    dn_in_range (dn_of_yo yu ou + (Time.tsecs (nd_time (dz_utc a)) + dz_off a) / 86400) = true.

Lemma sp_stop zone : frac_stop zone -> frac_stop (32 :: zone).
Proof. intros (Ha & _). split; [apply ascii_cons; [lia|exact Ha]|]. split; reflexivity. Qed.
Lemma utc_dbg_stop : frac_stop SH_UTC_DEBUG.
Proof. split; [unfold SH_UTC_DEBUG; ascii_tac|split; reflexivity]. Qed.
Lemma utc_disp_stop : frac_stop SH_UTC_DISPLAY.
Proof. split; [unfold SH_UTC_DISPLAY; ascii_tac|split; reflexivity]. Qed.
Lemma utc_dbg_nows : nows_start SH_UTC_DEBUG. Proof. cbn. split; [lia|reflexivity]. Qed.
Lemma utc_disp_nows : nows_start SH_UTC_DISPLAY. Proof. cbn. split; [lia|reflexivity]. Qed.

Theorem dtz_fixed_roundtrip a : dtz_dom a ->
  (exists s, to_text (dtz_debug false [] a) = Val s /\ datetime_fixed_from_str s = Val (POk a)) /\
  (exists s, to_text (dtz_display false [] a) = Val s /\ datetime_fixed_from_str s = Val (POk a)).
Proof.
  intros (yu & ou & Hr & Ht & Ho & Hm & Hw). destruct a as [[du [su fu]] off]. cbn [dz_utc dz_off nd_date nd_time Time.tsecs] in *.
  unfold datetime_fixed_from_str. split.
  - eexists. rewrite (dtz_debug_text yu ou du su fu off Hr Ht Ho Hm Hw false). split; [reflexivity|].
    apply (read_zoned yu ou du su fu off Hr Ht Ho Hm Hw 84 (off_txt off) (off_txt off) off); auto.
    + apply off_txt_stop.
    + intros. apply parse_item_space. apply off_txt_nows.
    + apply tail_scan_off; assumption.
  - eexists. rewrite (dtz_display_text yu ou du su fu off Hr Ht Ho Hm Hw false). split; [reflexivity|].
    apply (read_zoned yu ou du su fu off Hr Ht Ho Hm Hw 32 (32 :: off_txt off) (off_txt off) off); auto.
    + apply sp_stop, off_txt_stop.
    + intros. apply parse_item_space_sp. apply off_txt_nows.
    + apply tail_scan_off; assumption.
Qed.

Theorem dtz_utc_roundtrip a : dtz_dom a -> dz_off a = 0 ->
  (exists s, to_text (dtz_debug true [] a) = Val s /\ datetime_utc_from_str s = Val (POk a)) /\
  (exists s, to_text (dtz_display true [] a) = Val s /\ datetime_utc_from_str s = Val (POk a)).
Proof.
  intros (yu & ou & Hr & Ht & Ho & Hm & Hw) H0. destruct a as [[du [su fu]] off]. cbn [dz_utc dz_off nd_date nd_time Time.tsecs] in *.
  subst off. unfold datetime_utc_from_str. split.
  - eexists. rewrite (dtz_debug_text yu ou du su fu 0 Hr Ht Ho Hm Hw true). split; [reflexivity|].
    rewrite (read_zoned yu ou du su fu 0 Hr Ht Ho Hm Hw 84 SH_UTC_DEBUG SH_UTC_DEBUG 0);
      [reflexivity|left; reflexivity|apply utc_dbg_stop| |apply tail_scan_z|reflexivity].
    intros. apply parse_item_space. apply utc_dbg_nows.
  - eexists. rewrite (dtz_display_text yu ou du su fu 0 Hr Ht Ho Hm Hw true). split; [reflexivity|].
    rewrite (read_zoned yu ou du su fu 0 Hr Ht Ho Hm Hw 32 (32 :: SH_UTC_DISPLAY) SH_UTC_DISPLAY 0);
      [reflexivity|right; reflexivity|apply sp_stop, utc_disp_stop| |apply tail_scan_utc|reflexivity].
    intros. apply parse_item_space_sp. apply utc_disp_nows.
Qed.

(** the wall-clock condition always holds for UTC and away from the two ends of the range *)
Lemma dtz_dom_utc y o d t : repr y o d -> time_dom t -> dtz_dom (mk_dtz (mk_ndt d t) 0).
Proof.
  intros H Ht. exists y, o. cbn [dz_utc dz_off nd_date nd_time].
  split; [exact H|]. split; [exact Ht|]. split; [lia|]. split; [reflexivity|].
  destruct Ht as [[Hs _] _]. rewrite Z.add_0_r. replace (Time.tsecs t / 86400) with 0 by lia.
  rewrite Z.add_0_r. apply (repr_dn_in_range y o d H).
Qed.

(** * the recorded finding: the wall clock of a representable date-time can leave the date range *)
Definition dtz_edge : dtz := Eval vm_compute in
  mk_dtz (mk_ndt (match Date.from_ymd_opt 262142 12 31 with Val (Some d) => d | _ => 0 end) (Time.mk_time 86399 0)) 60.
Definition dtz_edge_text : bytes := Eval vm_compute in B"+262143-01-01T00:00:59+00:01".
Theorem dtz_wall_clock_refuted :
  dec_dtz (enc_dtz dtz_edge) = Some dtz_edge /\
  to_text (dtz_debug false [] dtz_edge) = Val dtz_edge_text /\
  datetime_fixed_from_str dtz_edge_text = Val (PErr Scan.OutOfRange).
Proof. vm_compute. repeat split. Qed.
