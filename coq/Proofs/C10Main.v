(** C10: the main theorems, unconditional (calendar facts discharged in Proofs/C10Date.v). *)
From Coq Require Import ZArith List Bool Lia ZifyBool String.
From V Require Import Base.Int Base.IntLemmas Base.IO Base.Utf8 Model.Scan Model.DateTime Model.C10
  Spec.Gregorian Spec.Rfc3339 Proofs.Utf8 Proofs.Scan Proofs.Date Proofs.C10 Proofs.C10Writer Proofs.C10Date.
From V Require Model.Date Model.Time.
Import ListNotations.
Open Scope Z_scope.

(** a date-time value of the case protocol, decoded as the harness does *)
Definition value (y o secs frac off : Z) : val := VTup [VInt y; VInt o; VInt secs; VInt frac; VInt off].
Lemma dec_dtz_inv y o secs frac off a : dec_dtz (value y o secs frac off) = Some a ->
  exists dt, a = mk_dtz (mk_ndt dt (Time.mk_time secs frac)) off /\ repr y o dt /\
             0 <= secs < 86400 /\ 0 <= frac < 2000000000 /\ -86400 < off < 86400.
Proof.
  unfold value, dec_dtz, dec_ndt, dec_date, Time.dec_time.
  destruct (in_i32 y && in_u32 o) eqn:Ei; [|discriminate].
  apply andb_prop in Ei. destruct Ei as [Hy Ho].
  rewrite (from_yo_opt_spec y o Hy Ho).
  destruct (year_in_range y && valid_yo y o) eqn:Er; cbn [date_if]; [|discriminate].
  apply andb_prop in Er. destruct Er as [Hyr Hvo].
  destruct ((0 <=? secs) && (secs <? 86400) && (0 <=? frac) && (frac <? 2000000000)) eqn:Et; [|discriminate].
  unfold east_opt. change Gen.DateTimeConsts.FO_EAST_LO with (-86400). change Gen.DateTimeConsts.FO_EAST_HI with 86400.
  destruct ((-86400 <? off) && (off <? 86400)) eqn:Eo; [|discriminate].
  intros H. injection H as <-. exists (mkdate y o). split; [reflexivity|]. split; [apply repr_mk; assumption|]. lia.
Qed.

(** the property's writer domain *)
Definition writer_domain (y o secs frac off sf : Z) : Prop :=
  off mod 60 = 0 /\ 0 <= sf <= 4 /\ (1000000000 <= frac -> secs mod 60 = 59) /\
  0 <= year_of_dn (wall_dn y o secs off) <= 9999.

(** * exact acceptance and no trap, for every well-formed UTF-8 string *)
Theorem accept_exact s : utf8_valid s = true ->
  exists r, parse_from_rfc3339 s = Val r /\
    match accepts s with
    | Some v => exists a, r = POk a /\ tuple_of a = v
    | None => exists e, r = PErr e
    end.
Proof. exact (parse_exact good good_facts s). Qed.

Corollary parse_never_traps s : utf8_valid s = true -> exists r, parse_from_rfc3339 s = Val r.
Proof. intros H. destruct (accept_exact s H) as (r & Hr & _). exists r. exact Hr. Qed.

(** * the writer output is in the (strict) grammar and shows the fields of the value *)
Theorem writer_in_grammar y o secs frac off sf uz a :
  dec_dtz (value y o secs frac off) = Some a -> writer_domain y o secs frac off sf ->
  let f := fields_of y o secs frac off sf uz in
  to_rfc3339_opts a sf uz = Val (render f) /\ G3339 f (render f) /\ valid f = true /\ strict f = true /\
  (match f_zone f with Zulu _ => uz = true /\ off = 0 | Numeric _ _ _ => ~ (uz = true /\ off = 0) end) /\
  zone_offset (f_zone f) = off /\
  denote f = (y, o, secs, truncated_frac sf frac, off).
Proof.
  intros Hdec (Hm & Hsf & Hl & Hy).
  destruct (dec_dtz_inv _ _ _ _ _ _ Hdec) as (dt & -> & Hr & Hs & Hf & Ho).
  pose proof Hr as (_ & Hvo & _).
  assert (Hg : good dt (dn_of_yo y o)) by (exists y, o; split; [exact Hr|reflexivity]).
  pose proof (to_rfc3339_opts_ok good good_facts y o dt secs frac off sf uz Hvo Hg Hs Hf Hl Ho Hm Hsf Hy) as Hw.
  pose proof (fields_of_props y o secs frac off sf uz Hvo Hs Hf Hl Ho Hm Hsf Hy) as (Hwf & Hval & Hst & Hden).
  cbv zeta. split; [exact Hw|]. split; [split; [exact Hwf|reflexivity]|]. split; [exact Hval|]. split; [exact Hst|].
  split; [|split; [|exact Hden]].
  - rewrite fields_of_wall. unfold fields_wall. destruct (yo_of_dn _) as [ly lo]. destruct (md_of_ordinal _ _) as [lm ld].
    cbn [f_zone]. destruct (uz && (off =? 0)) eqn:E.
    + apply andb_prop in E. split; [tauto|lia].
    + intros [-> ->]. discriminate.
  - rewrite fields_of_wall. unfold fields_wall. destruct (yo_of_dn _) as [ly lo]. destruct (md_of_ordinal _ _) as [lm ld].
    cbn [f_zone]. destruct (uz && (off =? 0)) eqn:E; cbn [zone_offset].
    + apply andb_prop in E. lia.
    + destruct (off <? 0) eqn:En; cbn [Z.eqb]; lia.
Qed.

(** every byte of a strict string of the grammar is ASCII, so it is well-formed UTF-8 *)
Lemma ascii_valid l : Forall (fun c => 0 <= c <= 127) l -> utf8_valid l = true.
Proof. intros H. rewrite <- (app_nil_r l). rewrite utf8_valid_app_ascii by exact H. reflexivity. Qed.
Lemma Forall_app_intro {A} (P : A -> Prop) a b : Forall P a -> Forall P b -> Forall P (a ++ b).
Proof. intros Ha Hb. apply Forall_app. split; assumption. Qed.
Lemma two_ascii n : 0 <= n <= 99 -> Forall (fun c => 0 <= c <= 127) (two n).
Proof. intros H. unfold two, dig. repeat constructor; lia. Qed.
Lemma render_strict_valid f : wf f = true -> strict f = true -> utf8_valid (render f) = true.
Proof.
  intros Hw Hs. apply ascii_valid. unfold wf, is2 in Hw. repeat (apply andb_prop in Hw; destruct Hw as [Hw ?]).
  unfold strict in Hs. apply andb_prop in Hs. destruct Hs as [Hsep Hz].
  assert (Hfd : forallb is_dig (f_frac f) = true) by assumption.
  unfold render. repeat apply Forall_app_intro; try (apply two_ascii; lia); try (repeat constructor; lia).
  - unfold four, dig. repeat constructor; lia.
  - unfold render_frac. destruct (f_frac f) as [|d ds]; [constructor|]. constructor; [lia|].
    revert Hfd. generalize (d :: ds). intros l. induction l as [|x l IH]; intros Hd; [constructor|].
    cbn [forallb] in Hd. apply andb_prop in Hd. destruct Hd as [Hx Hl]. cbn [map]. constructor; [unfold dig, is_dig in *; lia|exact (IH Hl)].
  - destruct (f_zone f) as [c|sg hh mm]; cbn [render_zone].
    + match goal with h : wf_zone _ = true |- _ => cbn [wf_zone] in h end. repeat constructor; lia.
    + match goal with h : wf_zone _ = true |- _ => cbn [wf_zone] in h; unfold is2 in h end.
      repeat apply Forall_app_intro; try (apply two_ascii; lia); try (repeat constructor; lia).
      unfold render_sign. destruct (sg =? 0); [repeat constructor; lia|]. destruct (sg =? 1); [repeat constructor; lia|lia].
Qed.

(** * round trip: the reader returns the written value, truncated to the printed precision *)
Theorem roundtrip y o secs frac off sf uz a :
  dec_dtz (value y o secs frac off) = Some a -> writer_domain y o secs frac off sf ->
  exists t a', to_rfc3339_opts a sf uz = Val t /\ parse_from_rfc3339 t = Val (POk a') /\
               tuple_of a' = (y, o, secs, truncated_frac sf frac, off).
Proof.
  intros Hdec Hdom.
  destruct (writer_in_grammar y o secs frac off sf uz a Hdec Hdom) as (Hw & [Hwf _] & Hval & Hst & _ & _ & Hden).
  set (f := fields_of y o secs frac off sf uz) in *.
  destruct (accept_exact (render f) (render_strict_valid f Hwf Hst)) as (r & Hr & Hacc).
  unfold accepts in Hacc. rewrite (recognise_render f Hwf), Hval in Hacc.
  destruct Hacc as (a' & -> & Ht). exists (render f), a'. split; [exact Hw|]. split; [exact Hr|].
  rewrite Ht. exact Hden.
Qed.

(** * exact acceptance, relational form (DESIGN section 5 C10): for a well-formed UTF-8 string [s],
    [parse_from_rfc3339 s = Ok v] iff there are fields with [G3339 fields s], valid, denoting [v];
    otherwise the result is an [Err] *)
Theorem accept_exact_rel s : utf8_valid s = true ->
  (forall a, parse_from_rfc3339 s = Val (POk a) ->
     exists f, G3339 f s /\ valid f = true /\ tuple_of a = denote f) /\
  (forall f, G3339 f s -> valid f = true ->
     exists a, parse_from_rfc3339 s = Val (POk a) /\ tuple_of a = denote f) /\
  ((forall f, G3339 f s -> valid f = false) -> exists e, parse_from_rfc3339 s = Val (PErr e)).
Proof.
  intros Hv. destruct (accept_exact s Hv) as (r & Hr & Hacc). unfold accepts in Hacc.
  split; [|split].
  - intros a Ha. rewrite Hr in Ha. injection Ha as ->.
    destruct (recognise s) as [f|] eqn:Er.
    + destruct (valid f) eqn:Evf.
      * destruct Hacc as (a' & Heq & Ht). injection Heq as <-. exists f. split; [apply recognise_sound; exact Er|]. split; [exact Evf|exact Ht].
      * destruct Hacc as (e & He). discriminate.
    + destruct Hacc as (e & He). discriminate.
  - intros f Hg Hvf. apply recognise_iff in Hg. rewrite Hg, Hvf in Hacc.
    destruct Hacc as (a & -> & Ht). exists a. split; [exact Hr|exact Ht].
  - intros Hall. destruct (recognise s) as [f|] eqn:Er.
    + rewrite (Hall f (recognise_sound s f Er)) in Hacc. destruct Hacc as (e & ->). exists e. exact Hr.
    + destruct Hacc as (e & ->). exists e. exact Hr.
Qed.

(** * scan::timezone_offset (RFC 3339 call) is the inverse of OffsetFormat::format *)
Lemma rec_zone_render_app z rest : wf_zone z = true -> rec_zone (render_zone z ++ rest) = Some (z, rest).
Proof.
  destruct z as [c|sg hh mm]; cbn [render_zone wf_zone]; intros H.
  - unfold rec_zone. cbn [app]. rewrite H. reflexivity.
  - unfold is2 in H. assert (Hsg : sg = 0 \/ sg = 1 \/ sg = 2) by lia.
    assert (Hn : rec_numeric sg ((two hh ++ [58] ++ two mm) ++ rest) = Some (Numeric sg hh mm, rest)).
    { unfold rec_numeric. rewrite <- !app_assoc. rewrite take2_render by lia. cbn [obind app expect]. rewrite Z.eqb_refl. cbn [obind].
      rewrite take2_render by lia. reflexivity. }
    destruct Hsg as [->|[->| ->]]; unfold rec_zone, render_sign; cbn [Z.eqb app orb andb Pos.eqb];
      rewrite <- app_assoc in Hn; exact Hn.
Qed.
Theorem timezone_offset_inverts_format w off use_z rest :
  -86400 < off < 86400 -> off mod 60 = 0 -> utf8_valid rest = true ->
  exists t, offset_format_format (mk_of 1 1 use_z 1) w off = Val (Some (w ++ t)) /\
            timezone_offset (t ++ rest) (fun s => char s 58) true false true = Val (POk (rest, off)).
Proof.
  intros Ho Hm Hr. exists (render_zone (zone_of off use_z)). split; [apply offset_format_rfc3339; assumption|].
  set (z := zone_of off use_z).
  assert (Hz : wf_zone z = true /\ zone_min_ok z = true /\ zone_offset z = off /\
               match z with Zulu _ => True | Numeric sg _ _ => sg = 0 \/ sg = 1 end).
  { subst z. unfold zone_of. destruct (use_z && (off =? 0)) eqn:E; [cbn; repeat split; lia|].
    cbn [wf_zone zone_min_ok zone_offset]. unfold is2. destruct (off <? 0) eqn:En; cbn [Z.eqb]; repeat split; lia. }
  destruct Hz as (Hz1 & Hz2 & Hz3 & Hz4). clearbody z.
  assert (Hv : utf8_valid (render_zone z ++ rest) = true).
  { rewrite utf8_valid_app_ascii; [exact Hr|].
    destruct z as [c|sg hh mm]; cbn [render_zone wf_zone] in *.
    - repeat constructor; lia.
    - unfold is2 in Hz1. repeat apply Forall_app_intro; try (apply two_ascii; lia); try (repeat constructor; lia).
      unfold render_sign. destruct (sg =? 0) eqn:E0; [repeat constructor; lia|]. destruct (sg =? 1) eqn:E1; [repeat constructor; lia|lia]. }
  rewrite timezone_offset_colon_ok by exact Hv.
  destruct (tz_rel (render_zone z ++ rest)) as [e He]. rewrite He, rec_zone_render_app by exact Hz1.
  rewrite Hz2, Hz3. reflexivity.
Qed.

(** * the hypotheses are inhabited: a worked value *)
Example roundtrip_example :
  exists a, dec_dtz (value 1996 354 2397 500000000 (-28800)) = Some a /\ writer_domain 1996 354 2397 500000000 (-28800) 4 /\
  render (fields_of 1996 354 2397 500000000 (-28800) 4 true) = B"1996-12-18T16:39:57.500-08:00".
Proof.
  eexists. split; [vm_compute; reflexivity|]. split; [|vm_compute; reflexivity].
  unfold writer_domain. repeat split; try (vm_compute; intros; congruence); try lia.
Qed.
Example accept_example : accepts B"1990-12-31T23:59:60Z" = Some (1990, 365, 86399, 1000000000, 0)
  /\ accepts B"2015-02-18T23:16:09+24:00" = None /\ utf8_valid B"1990-12-31T23:59:60Z" = true.
Proof. vm_compute. repeat split. Qed.

Theorem to_rfc3339_main y o secs frac off a :
  dec_dtz (value y o secs frac off) = Some a -> writer_domain y o secs frac off 4 ->
  to_rfc3339 a = Val (render (fields_of y o secs frac off 4 false)).
Proof.
  intros Hdec (Hm & Hsf & Hl & Hy).
  destruct (dec_dtz_inv _ _ _ _ _ _ Hdec) as (dt & -> & Hr & Hs & Hf & Ho).
  pose proof Hr as (_ & Hvo & _).
  assert (Hg : good dt (dn_of_yo y o)) by (exists y, o; split; [exact Hr|reflexivity]).
  exact (to_rfc3339_ok good good_facts y o dt secs frac off Hvo Hg Hs Hf Hl Ho Hm Hy).
Qed.
