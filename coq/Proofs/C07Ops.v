(** C07 — the operations the first rounds left without a theorem: the deprecated panicking
    constructors, the operator forms (+, -, +=, -= with TimeDelta / FixedOffset, time - time), the
    operator forms of NaiveDateTime +- TimeDelta, and Timelike called directly on a NaiveDateTime
    (accessors and with_*: the time part's function, the date untouched); plus the table of which
    model function answers which op of the dispatcher. *)
From Coq Require Import ZArith List Bool Lia ZifyBool String.
From V Require Import Base.Int Base.IntLemmas Base.IO Model.TimeDelta Model.C07 Spec.TimeOfDay Spec.Gregorian
  Proofs.C06 Proofs.Time.
From V Require Model.DateTime Proofs.C03 Proofs.C07Ndt.
Import ListNotations.
Open Scope Z_scope.
Ltac Zify.zify_post_hook ::= Z.to_euclidean_division_equations.

(** * the panicking constructors: expect(..) of the _opt form *)
Theorem phms_spec h m s : in_u32 h = true -> in_u32 m = true -> in_u32 s = true ->
  unwrap_r (from_hms_opt h m s) = if hms_ok h m s then Val (mk_time (secs_of_hms h m s) 0) else Panic.
Proof. intros. rewrite from_hms_opt_spec by assumption. destruct (hms_ok h m s); reflexivity. Qed.
Theorem phms_nano_spec h m s n : in_u32 h = true -> in_u32 m = true -> in_u32 s = true -> in_u32 n = true ->
  unwrap_r (from_hms_nano_opt h m s n) =
    if accept_hms_nano h m s n then Val (mk_time (secs_of_hms h m s) n) else Panic.
Proof. intros. rewrite from_hms_nano_opt_spec by assumption. destruct (accept_hms_nano h m s n); reflexivity. Qed.
Theorem phms_milli_spec h m s x : in_u32 h = true -> in_u32 m = true -> in_u32 s = true -> in_u32 x = true ->
  unwrap_r (from_hms_milli_opt h m s x) =
    if accept_hms_nano h m s (x * 1000000) then Val (mk_time (secs_of_hms h m s) (x * 1000000)) else Panic.
Proof. intros. rewrite from_hms_milli_opt_spec by assumption. destruct (accept_hms_nano h m s (x * 1000000)); reflexivity. Qed.
Theorem phms_micro_spec h m s x : in_u32 h = true -> in_u32 m = true -> in_u32 s = true -> in_u32 x = true ->
  unwrap_r (from_hms_micro_opt h m s x) =
    if accept_hms_nano h m s (x * 1000) then Val (mk_time (secs_of_hms h m s) (x * 1000)) else Panic.
Proof. intros. rewrite from_hms_micro_opt_spec by assumption. destruct (accept_hms_nano h m s (x * 1000)); reflexivity. Qed.
Theorem pnsfm_spec secs n : in_u32 secs = true -> in_u32 n = true ->
  unwrap (from_num_seconds_from_midnight_opt secs n) =
    if accept_secs_nano secs n then Val (mk_time secs n) else Panic.
Proof. intros. rewrite from_nsfm_opt_spec by assumption. destruct (accept_secs_nano secs n); reflexivity. Qed.

(** * operator forms *)
Theorem op_add_td_spec t d : tvalid t -> valid d ->
  op_add_td t d = Val (fst (add_result (tsecs t) (tfrac t) (ns d))) /\
  op_add_td t d = rmap fst (overflowing_add_signed t d).
Proof. intros Ht Hd. split; [|reflexivity]. unfold op_add_td. rewrite add_spec by assumption. reflexivity. Qed.
Theorem op_sub_td_spec t d : tvalid t -> valid d ->
  op_sub_td t d = Val (fst (add_result (tsecs t) (tfrac t) (- ns d))) /\
  op_sub_td t d = rmap fst (overflowing_sub_signed t d).
Proof. intros Ht Hd. split; [|reflexivity]. unfold op_sub_td. rewrite sub_spec by assumption. reflexivity. Qed.
Theorem op_sub_time_spec a b : tvalid a -> tvalid b ->
  op_sub_time a b = signed_duration_since a b /\
  exists d, op_sub_time a b = Val d /\ valid d /\ ns d = tl_diff (tsecs a) (tfrac a) (tsecs b) (tfrac b).
Proof. intros Ha Hb. split; [reflexivity|]. apply diff_spec; assumption. Qed.
Theorem op_offset_spec t off : tvalid t -> -86400 < off < 86400 ->
  op_add_offset t off = Val (let '((s, f), _) := tl_shift (tsecs t) (tfrac t) off in mk_time s f) /\
  op_sub_offset t off = Val (let '((s, f), _) := tl_shift (tsecs t) (tfrac t) (- off) in mk_time s f).
Proof.
  intros Ht Ho. unfold op_add_offset, op_sub_offset.
  destruct (offset_shift_spec t off Ht Ho) as [-> ->]. unfold tl_shift. split; reflexivity.
Qed.

(* NaiveDateTime + / - TimeDelta: the checked form's value, the documented panic exactly when it is None *)
Theorem ndt_op_forms a d :
  Proofs.C03.vdate (DateTime.nd_date a) -> tvalid (DateTime.nd_time a) -> valid d ->
  (exists r, DateTime.ndt_checked_add_signed a d = Val r /\
     unwrap_r (DateTime.ndt_checked_add_signed a d) = match r with Some b => Val b | None => Panic end) /\
  (exists r, DateTime.ndt_checked_sub_signed a d = Val r /\
     unwrap_r (DateTime.ndt_checked_sub_signed a d) = match r with Some b => Val b | None => Panic end).
Proof.
  intros Hd Ht Hv. split.
  - destruct (Proofs.C07Ndt.ndt_leap_add_u a d Hd Ht Hv) as (r & E & _). exists r. split; [exact E|].
    unfold unwrap_r. rewrite E. destruct r; reflexivity.
  - destruct (Proofs.C07Ndt.ndt_leap_sub_u a d Hd Ht Hv) as (r & E & _). exists r. split; [exact E|].
    unfold unwrap_r. rewrite E. destruct r; reflexivity.
Qed.

(** * Timelike on a NaiveDateTime *)
(* accessors: exactly those of the time part (the provided num_seconds_from_midnight recomputes
   hour*3600 + minute*60 + second in u32 without a trap) *)
Theorem ndt_tacc_spec a : tvalid (DateTime.nd_time a) -> ndt_tacc a = Val (t_acc (DateTime.nd_time a)).
Proof.
  intros [Hs Hf]. unfold ndt_tacc, t_acc. set (t := DateTime.nd_time a) in *.
  destruct (accessors_spec t ltac:(lia)) as (Eh & Em & Es & _ & En). rewrite Eh, Em, Es, En.
  destruct (fields_range (tsecs t) Hs) as (Bh & Bm & Bs & Er). unfold secs_of_hms in Er.
  destruct (hour12 t) as [pm h12].
  unfold mul_u32, add_u32.
  rewrite (chk_in in_u32 (hour_of (tsecs t) * 3600)) by (unfold in_u32, in_range, u32_max; lia). cbn [bind].
  rewrite (chk_in in_u32 (minute_of (tsecs t) * 60)) by (unfold in_u32, in_range, u32_max; lia). cbn [bind].
  rewrite (chk_in in_u32 (hour_of (tsecs t) * 3600 + minute_of (tsecs t) * 60)) by (unfold in_u32, in_range, u32_max; lia). cbn [bind].
  rewrite chk_in by (unfold in_u32, in_range, u32_max; lia). cbn [bind]. rewrite Er. reflexivity.
Qed.
(* with_hour .. with_nanosecond: the time part's function, the date untouched *)
Definition on_time (a : DateTime.ndt) (r : R (option ntime)) : R (option DateTime.ndt) :=
  match r with
  | Val (Some t) => Val (Some (DateTime.mk_ndt (DateTime.nd_date a) t))
  | Val None => Val None
  | Panic => Panic
  | OutOfFuel => OutOfFuel
  end.
Theorem ndt_twith_spec a v :
  DateTime.ndt_with 7 a v = on_time a (with_hour (DateTime.nd_time a) v) /\
  DateTime.ndt_with 8 a v = on_time a (with_minute (DateTime.nd_time a) v) /\
  DateTime.ndt_with 9 a v = on_time a (with_second (DateTime.nd_time a) v) /\
  DateTime.ndt_with 10 a v = on_time a (Val (with_nanosecond (DateTime.nd_time a) v)).
Proof.
  unfold DateTime.ndt_with, DateTime.ndt_map_time, on_time, obind, bind. cbn [Z.eqb Pos.eqb].
  repeat match goal with |- _ /\ _ => split end.
  - destruct (with_hour (DateTime.nd_time a) v) as [[t|]| |]; reflexivity.
  - destruct (with_minute (DateTime.nd_time a) v) as [[t|]| |]; reflexivity.
  - destruct (with_second (DateTime.nd_time a) v) as [[t|]| |]; reflexivity.
  - destruct (with_nanosecond (DateTime.nd_time a) v) as [t|]; reflexivity.
Qed.
(* spelled out with the C07_replace_exact_* theorems: all u32 arguments, every state of the time part *)
Theorem ndt_twith_values a v : tvalid (DateTime.nd_time a) -> in_u32 v = true ->
  let t := DateTime.nd_time a in let d := DateTime.nd_date a in
  DateTime.ndt_with 7 a v = Val (if v <? 24 then Some (DateTime.mk_ndt d
     (mk_time (secs_of_hms v (minute_of (tsecs t)) (second_of (tsecs t))) (tfrac t))) else None) /\
  DateTime.ndt_with 8 a v = Val (if v <? 60 then Some (DateTime.mk_ndt d
     (mk_time (secs_of_hms (hour_of (tsecs t)) v (second_of (tsecs t))) (tfrac t))) else None) /\
  DateTime.ndt_with 9 a v = Val (if v <? 60 then Some (DateTime.mk_ndt d
     (mk_time (secs_of_hms (hour_of (tsecs t)) (minute_of (tsecs t)) v) (tfrac t))) else None) /\
  DateTime.ndt_with 10 a v = Val (if v <? 2000000000 then Some (DateTime.mk_ndt d (mk_time (tsecs t) v)) else None).
Proof.
  intros Ht Hv. cbv zeta. destruct (ndt_twith_spec a v) as (-> & -> & -> & ->).
  rewrite with_hour_spec, with_minute_spec, with_second_spec, with_nanosecond_spec by assumption.
  unfold on_time. repeat match goal with |- _ /\ _ => split end.
  - destruct (v <? 24); reflexivity.
  - destruct (v <? 60); reflexivity.
  - destruct (v <? 60); reflexivity.
  - destruct (v <? 2000000000); reflexivity.
Qed.

(** * which model function answers which op *)
Definition sh_u3 (f : Z -> Z -> Z -> val) (args : list val) : val :=
  match args with
  | [a; b; c] => match arg_u32 a, arg_u32 b, arg_u32 c with Some x, Some y, Some z => f x y z | _, _, _ => VBad end
  | _ => VBad end.
Definition sh_u4 (f : Z -> Z -> Z -> Z -> val) (args : list val) : val :=
  match args with
  | [a; b; c; d] => match arg_u32 a, arg_u32 b, arg_u32 c, arg_u32 d with
                    | Some x, Some y, Some z, Some w => f x y z w | _, _, _, _ => VBad end
  | _ => VBad end.
Definition sh_u2 (f : Z -> Z -> val) (args : list val) : val :=
  match args with
  | [a; b] => match arg_u32 a, arg_u32 b with Some s, Some n => f s n | _, _ => VBad end
  | _ => VBad end.
Definition sh_t1 (f : ntime -> val) (args : list val) : val :=
  match args with [a] => match dec_time a with Some t => f t | None => VBad end | _ => VBad end.
Definition sh_tu (f : ntime -> Z -> val) (args : list val) : val :=
  match args with
  | [a; b] => match dec_time a, arg_u32 b with Some t, Some k => f t k | _, _ => VBad end | _ => VBad end.
Definition sh_td (f : ntime -> td -> val) (args : list val) : val :=
  match args with
  | [a; b] => match dec_time a, dec_td b with Some t, Some d => f t d | _, _ => VBad end | _ => VBad end.
Definition sh_tt (f : ntime -> ntime -> val) (args : list val) : val :=
  match args with
  | [a; b] => match dec_time a, dec_time b with Some t, Some u => f t u | _, _ => VBad end | _ => VBad end.
Definition sh_to (f : ntime -> Z -> val) (args : list val) : val :=
  match args with
  | [a; b] => match dec_time a, arg_off b with Some t, Some k => f t k | _, _ => VBad end | _ => VBad end.
Definition sh_ts (f : ntime -> Z -> Z -> val) (args : list val) : val :=
  match args with
  | [a; b; c] => match dec_time a, arg_u64 b, arg_u32 c with
                 | Some t, Some s, Some n => if n <? 1000000000 then f t s n else VBad
                 | _, _, _ => VBad end
  | _ => VBad end.
Definition sh_nd (f : DateTime.ndt -> td -> val) (args : list val) : val :=
  match args with
  | [a; b] => match DateTime.dec_ndt a, dec_td b with Some x, Some d => f x d | _, _ => VBad end | _ => VBad end.
Definition sh_tacc (args : list val) : val :=
  match args with
  | [a] => match DateTime.dec_ndt a with Some x => val_of_R (fun v => v) (ndt_tacc x) | None => VBad end
  | _ => VBad end.
Definition sh_twith (args : list val) : val :=
  match args with
  | [VInt which; a; b] =>
      match DateTime.dec_ndt a, arg_u32 b with
      | Some x, Some v =>
          if (0 <=? which) && (which <=? 3)
          then val_of_R (val_of_option DateTime.enc_ndt) (DateTime.ndt_with (7 + which) x v) else VBad
      | _, _ => VBad end
  | _ => VBad end.

Theorem dispatch args :
  run (B"t.hms") args = sh_u3 (fun h m s => val_of_R vo_time (from_hms_opt h m s)) args /\
  run (B"t.hms_milli") args = sh_u4 (fun h m s x => val_of_R vo_time (from_hms_milli_opt h m s x)) args /\
  run (B"t.hms_micro") args = sh_u4 (fun h m s x => val_of_R vo_time (from_hms_micro_opt h m s x)) args /\
  run (B"t.hms_nano") args = sh_u4 (fun h m s x => val_of_R vo_time (from_hms_nano_opt h m s x)) args /\
  run (B"t.nsfm") args = sh_u2 (fun s n => vo_time (from_num_seconds_from_midnight_opt s n)) args /\
  run (B"t.acc") args = sh_t1 t_acc args /\
  run (B"t.with_hour") args = sh_tu (fun t k => val_of_R vo_time (with_hour t k)) args /\
  run (B"t.with_minute") args = sh_tu (fun t k => val_of_R vo_time (with_minute t k)) args /\
  run (B"t.with_second") args = sh_tu (fun t k => val_of_R vo_time (with_second t k)) args /\
  run (B"t.with_nano") args = sh_tu (fun t k => vo_time (with_nanosecond t k)) args /\
  run (B"t.add") args = sh_td (fun t d => val_of_R enc_pair (overflowing_add_signed t d)) args /\
  run (B"t.sub") args = sh_td (fun t d => val_of_R enc_pair (overflowing_sub_signed t d)) args /\
  run (B"t.opadd") args = sh_td (fun t d => val_of_R enc_time (op_add_td t d)) args /\
  run (B"t.opsub") args = sh_td (fun t d => val_of_R enc_time (op_sub_td t d)) args /\
  run (B"t.opadd_assign") args = sh_td (fun t d => val_of_R enc_time (op_add_td t d)) args /\
  run (B"t.opsub_assign") args = sh_td (fun t d => val_of_R enc_time (op_sub_td t d)) args /\
  run (B"t.diff") args = sh_tt (fun t u => val_of_R enc_td (signed_duration_since t u)) args /\
  run (B"t.opdiff") args = sh_tt (fun t u => val_of_R enc_td (op_sub_time t u)) args /\
  run (B"t.addstd") args = sh_ts (fun t s n => val_of_R enc_time (op_add_std t s n)) args /\
  run (B"t.substd") args = sh_ts (fun t s n => val_of_R enc_time (op_sub_std t s n)) args /\
  run (B"t.addstd_assign") args = sh_ts (fun t s n => val_of_R enc_time (op_add_std t s n)) args /\
  run (B"t.substd_assign") args = sh_ts (fun t s n => val_of_R enc_time (op_sub_std t s n)) args /\
  run (B"t.addoff") args = sh_to (fun t k => val_of_R enc_time (op_add_offset t k)) args /\
  run (B"t.suboff") args = sh_to (fun t k => val_of_R enc_time (op_sub_offset t k)) args /\
  run (B"t.addoffd") args = sh_to (fun t k => val_of_R enc_pair (overflowing_add_offset t k)) args /\
  run (B"t.suboffd") args = sh_to (fun t k => val_of_R enc_pair (overflowing_sub_offset t k)) args /\
  run (B"ndt.add") args = sh_nd (fun a d => val_of_R (val_of_option DateTime.enc_ndt) (DateTime.ndt_checked_add_signed a d)) args /\
  run (B"ndt.sub") args = sh_nd (fun a d => val_of_R (val_of_option DateTime.enc_ndt) (DateTime.ndt_checked_sub_signed a d)) args /\
  run (B"ndt.opadd") args = sh_nd (fun a d => val_of_R DateTime.enc_ndt (unwrap_r (DateTime.ndt_checked_add_signed a d))) args /\
  run (B"ndt.opsub") args = sh_nd (fun a d => val_of_R DateTime.enc_ndt (unwrap_r (DateTime.ndt_checked_sub_signed a d))) args /\
  run (B"ndt.tacc") args = sh_tacc args /\
  run (B"ndt.twith") args = sh_twith args /\
  run (B"t.phms") args = sh_u3 (fun h m s => val_of_R enc_time (unwrap_r (from_hms_opt h m s))) args /\
  run (B"t.phms_milli") args = sh_u4 (fun h m s x => val_of_R enc_time (unwrap_r (from_hms_milli_opt h m s x))) args /\
  run (B"t.phms_micro") args = sh_u4 (fun h m s x => val_of_R enc_time (unwrap_r (from_hms_micro_opt h m s x))) args /\
  run (B"t.phms_nano") args = sh_u4 (fun h m s x => val_of_R enc_time (unwrap_r (from_hms_nano_opt h m s x))) args /\
  run (B"t.pnsfm") args = sh_u2 (fun s n => val_of_R enc_time (unwrap (from_num_seconds_from_midnight_opt s n))) args.
Proof. repeat match goal with |- _ /\ _ => split end; reflexivity. Qed.

(** * NaiveDate::and_hms* : the checked forms and their deprecated panicking twins.  The date is kept as it
      is, the time is the constructor's reading; the panicking form panics exactly where the checked form
      answers None *)
Definition sh_d3 (f : Z -> Z -> Z -> Z -> val) (args : list val) : val :=
  match args with
  | [dv; a; b; c] => match DateTime.dec_date dv, arg_u32 a, arg_u32 b, arg_u32 c with
                     | Some d, Some x, Some y, Some z => f d x y z | _, _, _, _ => VBad end
  | _ => VBad end.
Definition sh_d4 (f : Z -> Z -> Z -> Z -> Z -> val) (args : list val) : val :=
  match args with
  | [dv; a; b; c; e] => match DateTime.dec_date dv, arg_u32 a, arg_u32 b, arg_u32 c, arg_u32 e with
                        | Some d, Some x, Some y, Some z, Some w => f d x y z w | _, _, _, _, _ => VBad end
  | _ => VBad end.
Theorem dispatch_and_hms args :
  run (B"ndt.phms") args = sh_d3 (fun d h m s => val_of_R DateTime.enc_ndt (nd_and_hms d h m s)) args /\
  run (B"ndt.phms_milli") args = sh_d4 (fun d h m s x => val_of_R DateTime.enc_ndt (nd_and_hms_milli d h m s x)) args /\
  run (B"ndt.phms_micro") args = sh_d4 (fun d h m s x => val_of_R DateTime.enc_ndt (nd_and_hms_micro d h m s x)) args /\
  run (B"ndt.phms_nano") args = sh_d4 (fun d h m s x => val_of_R DateTime.enc_ndt (nd_and_hms_nano d h m s x)) args.
Proof. repeat match goal with |- _ /\ _ => split end; reflexivity. Qed.

Definition and_res (d : Z) (c : bool) (s n : Z) : R DateTime.ndt :=
  if c then Val (DateTime.mk_ndt d (mk_time s n)) else Panic.
Definition and_res_opt (d : Z) (c : bool) (s n : Z) : R (option DateTime.ndt) :=
  Val (if c then Some (DateTime.mk_ndt d (mk_time s n)) else None).
Theorem nd_and_hms_spec d h m s : in_u32 h = true -> in_u32 m = true -> in_u32 s = true ->
  nd_and_hms_opt d h m s = and_res_opt d (hms_ok h m s) (secs_of_hms h m s) 0 /\
  nd_and_hms d h m s = and_res d (hms_ok h m s) (secs_of_hms h m s) 0.
Proof.
  intros. unfold nd_and_hms, nd_and_hms_opt, nd_and_time_opt, and_res, and_res_opt.
  rewrite from_hms_opt_spec by assumption. destruct (hms_ok h m s); split; reflexivity.
Qed.
Theorem nd_and_hms_milli_spec d h m s x : in_u32 h = true -> in_u32 m = true -> in_u32 s = true -> in_u32 x = true ->
  nd_and_hms_milli_opt d h m s x = and_res_opt d (accept_hms_nano h m s (x * 1000000)) (secs_of_hms h m s) (x * 1000000) /\
  nd_and_hms_milli d h m s x = and_res d (accept_hms_nano h m s (x * 1000000)) (secs_of_hms h m s) (x * 1000000).
Proof.
  intros. unfold nd_and_hms_milli, nd_and_hms_milli_opt, nd_and_time_opt, and_res, and_res_opt.
  rewrite from_hms_milli_opt_spec by assumption. destruct (accept_hms_nano h m s (x * 1000000)); split; reflexivity.
Qed.
Theorem nd_and_hms_micro_spec d h m s x : in_u32 h = true -> in_u32 m = true -> in_u32 s = true -> in_u32 x = true ->
  nd_and_hms_micro_opt d h m s x = and_res_opt d (accept_hms_nano h m s (x * 1000)) (secs_of_hms h m s) (x * 1000) /\
  nd_and_hms_micro d h m s x = and_res d (accept_hms_nano h m s (x * 1000)) (secs_of_hms h m s) (x * 1000).
Proof.
  intros. unfold nd_and_hms_micro, nd_and_hms_micro_opt, nd_and_time_opt, and_res, and_res_opt.
  rewrite from_hms_micro_opt_spec by assumption. destruct (accept_hms_nano h m s (x * 1000)); split; reflexivity.
Qed.
Theorem nd_and_hms_nano_spec d h m s x : in_u32 h = true -> in_u32 m = true -> in_u32 s = true -> in_u32 x = true ->
  nd_and_hms_nano_opt d h m s x = and_res_opt d (accept_hms_nano h m s x) (secs_of_hms h m s) x /\
  nd_and_hms_nano d h m s x = and_res d (accept_hms_nano h m s x) (secs_of_hms h m s) x.
Proof.
  intros. unfold nd_and_hms_nano, nd_and_hms_nano_opt, nd_and_time_opt, and_res, and_res_opt.
  rewrite from_hms_nano_opt_spec by assumption. destruct (accept_hms_nano h m s x); split; reflexivity.
Qed.
Lemma and_hms_inhabited :
  nd_and_hms Proofs.C07Ndt.leap_date 23 59 59 = Val (DateTime.mk_ndt Proofs.C07Ndt.leap_date (mk_time 86399 0)) /\
  nd_and_hms Proofs.C07Ndt.leap_date 24 0 0 = Panic /\
  nd_and_hms_milli Proofs.C07Ndt.leap_date 23 59 59 1999 =
    Val (DateTime.mk_ndt Proofs.C07Ndt.leap_date (mk_time 86399 1999000000)) /\
  nd_and_hms_milli Proofs.C07Ndt.leap_date 23 59 58 1000 = Panic.
Proof. repeat split; reflexivity. Qed.

Lemma ops_inhabited :
  tvalid (DateTime.nd_time (DateTime.mk_ndt Proofs.C07Ndt.leap_date (mk_time 86399 1500000000))) /\
  unwrap_r (from_hms_opt 24 0 0) = Panic /\ unwrap_r (from_hms_opt 23 59 59) = Val (mk_time 86399 0) /\
  unwrap (from_num_seconds_from_midnight_opt 86399 1999999999) = Val (mk_time 86399 1999999999).
Proof. unfold tvalid. cbn [DateTime.nd_time tsecs tfrac]. repeat split; try lia; reflexivity. Qed.
