(** C04 — judge acceptance for the older ops of the z dispatcher whose expected output is a
    function of the instant and the wall clock alone (no open class in the judge): z.east z.west
    z.fromlocal z.fromutc z.nutc z.nlocal z.datenaive z.time z.acc z.withtz z.fixed z.toutc z.eq z.cmp
    z.hasheq.  Same conventions as Proofs/C04Holds.v (canonical encodings of well-formed values). *)
From Coq Require Import ZArith List Bool Lia ZifyBool String.
From V Require Import Base.Int Base.IntLemmas Base.IO Gen.DateTimeConsts Spec.Gregorian Model.TimeDelta.
From V Require Model.Date Model.Time Judge.C04 Proofs.C01Holds Proofs.C02Date.
From V Require Import Model.DateTime Model.C04 Proofs.C04 Proofs.C04Date Proofs.C04Wide Proofs.C04Ops Proofs.C04Holds.
Import ListNotations.
Open Scope Z_scope.
Ltac Zify.zify_post_hook ::= Z.to_euclidean_division_equations.

Module J := V.Judge.C04.

Lemma enc_ndt_j u : ndt_ok u -> enc_ndt u = J.enc_naive (usecs u) (frac u).
Proof.
  intros [Hd [Hs Hf]]. destruct (nominal_fields _ Hd) as [Hy [Hv _]].
  unfold enc_ndt, J.enc_naive, J.DAY, usecs, frac.
  replace ((dn (nd_date u) * 86400 + Time.tsecs (nd_time u)) / 86400) with (dn (nd_date u)) by lia.
  replace ((dn (nd_date u) * 86400 + Time.tsecs (nd_time u)) mod 86400) with (Time.tsecs (nd_time u)) by lia.
  unfold dn. rewrite (C08Days.yo_of_dn_of_yo _ _ Hv). reflexivity.
Qed.

Ltac run_z1 opname a f :=
  change (run opname [enc_dtz a]) with
    (match dec_dtz (enc_dtz a) with Some x => f x | None => VBad end).
Ltac judge_z1 opname a g :=
  match goal with |- J.judge _ _ ?out = _ =>
    change (J.judge opname [enc_dtz a] out) with
      (match J.z_of_arg (enc_dtz a) with Some (u, fr, off) => judge_eq (g u fr off) out | None => JSkip end) end.

(** * offsets *)
Theorem holds_east s : in_i32 s = true -> J.judge B"z.east" [VInt s] (run B"z.east" [VInt s]) = JOk.
Proof.
  intros H.
  change (run B"z.east" [VInt s]) with
    (match arg_i32 (VInt s) with Some s => val_of_option VInt (east_opt s) | None => VBad end).
  rewrite (arg_i32_int s H), (east_opt_spec s H).
  match goal with |- J.judge _ _ ?out = _ =>
    change (J.judge B"z.east" [VInt s] out) with
      (if in_i32 s then judge_eq (if J.off_ok s then VSome (VInt s) else VNone) out else JSkip) end.
  rewrite H. unfold J.off_ok. destruct ((-86400 <? s) && (s <? 86400)); apply jrefl.
Qed.
Theorem holds_west s : in_i32 s = true -> J.judge B"z.west" [VInt s] (run B"z.west" [VInt s]) = JOk.
Proof.
  intros H.
  change (run B"z.west" [VInt s]) with
    (match arg_i32 (VInt s) with Some s => val_of_R (val_of_option VInt) (west_opt s) | None => VBad end).
  rewrite (arg_i32_int s H), (west_opt_spec s H).
  match goal with |- J.judge _ _ ?out = _ =>
    change (J.judge B"z.west" [VInt s] out) with
      (if in_i32 s then judge_eq (if J.off_ok s then VSome (VInt (- s)) else VNone) out else JSkip) end.
  rewrite H. unfold J.off_ok. destruct ((-86400 <? s) && (s <? 86400)); apply jrefl.
Qed.

(** * construction *)
Theorem holds_fromutc off u : ndt_ok u -> off_ok off ->
  J.judge B"z.fromutc" [VInt off; enc_ndt u] (run B"z.fromutc" [VInt off; enc_ndt u]) = JOk.
Proof.
  intros Hu Ho.
  change (run B"z.fromutc" [VInt off; enc_ndt u]) with
    (match arg_off (VInt off), dec_ndt (enc_ndt u) with
     | Some off, Some u => enc_dtz (from_utc_datetime off u) | _, _ => VBad end).
  rewrite (m_off off Ho), (dec_ndt_enc u Hu).
  assert (Hz : dtz_ok (from_utc_datetime off u)) by (split; assumption).
  rewrite (enc_dtz_j _ Hz). cbn [from_utc_datetime dz_utc dz_off].
  match goal with |- J.judge _ _ ?out = _ =>
    change (J.judge B"z.fromutc" [VInt off; enc_ndt u] out) with
      (match J.off_of_arg (VInt off), J.naive_of_arg (enc_ndt u) with
       | Some off, Some (u, f) => judge_eq (J.enc_z u f off) out | _, _ => JSkip end) end.
  rewrite (j_off off Ho), (j_naive u Hu). apply jrefl.
Qed.
Theorem holds_fromlocal off l : ndt_ok l -> off_ok off ->
  J.judge B"z.fromlocal" [VInt off; enc_ndt l] (run B"z.fromlocal" [VInt off; enc_ndt l]) = JOk.
Proof.
  intros Hl Ho.
  change (run B"z.fromlocal" [VInt off; enc_ndt l]) with
    (match arg_off (VInt off), dec_ndt (enc_ndt l) with
     | Some off, Some l => val_of_R v_mlt (from_local_datetime off l) | _, _ => VBad end).
  rewrite (m_off off Ho), (dec_ndt_enc l Hl).
  match goal with |- J.judge _ _ ?out = _ =>
    change (J.judge B"z.fromlocal" [VInt off; enc_ndt l] out) with
      (match J.off_of_arg (VInt off), J.naive_of_arg (enc_ndt l) with
       | Some off, Some (l, f) => judge_eq (J.exp_mlt_z (l - off) f off) out | _, _ => JSkip end) end.
  rewrite (j_off off Ho), (j_naive l Hl). unfold J.exp_mlt_z.
  pose proof (from_local_fails_iff off l Hl Ho) as P.
  change (J.in_rng (usecs l - off)) with (in_rng (usecs l - off)).
  destruct (in_rng (usecs l - off)).
  - destruct P as (z & E & Hz & Eo & Eu & Ef). rewrite E. cbn [val_of_R v_mlt enc_mlt].
    rewrite (enc_dtz_j z Hz), Eo, Eu, Ef. apply jrefl.
  - rewrite P. apply jrefl.
Qed.

(** * readings *)
Theorem holds_nutc a : dtz_ok a -> J.judge B"z.nutc" [enc_dtz a] (run B"z.nutc" [enc_dtz a]) = JOk.
Proof.
  intros Ha. run_z1 B"z.nutc" a (fun x => enc_ndt (naive_utc x)). rewrite (dec_dtz_enc a Ha).
  judge_z1 B"z.nutc" a (fun (u f _ : Z) => J.enc_naive u f). rewrite (j_z a Ha).
  unfold naive_utc. rewrite (enc_ndt_j _ (proj1 Ha)). apply jrefl.
Qed.
Theorem holds_nlocal a : dtz_ok a -> J.judge B"z.nlocal" [enc_dtz a] (run B"z.nlocal" [enc_dtz a]) = JOk.
Proof.
  intros Ha. run_z1 B"z.nlocal" a (fun x => val_of_R enc_ndt (naive_local x)). rewrite (dec_dtz_enc a Ha).
  judge_z1 B"z.nlocal" a (fun (u f off : Z) => if J.in_rng (u + off) then J.enc_naive (u + off) f else VPanic).
  rewrite (j_z a Ha). pose proof (naive_local_panics_iff a Ha) as P.
  change (J.in_rng (usecs (dz_utc a) + dz_off a)) with (in_rng (wall a)).
  destruct (in_rng (wall a)).
  - destruct P as (l & E & Hl & Eu & Ef). rewrite E. cbn [val_of_R]. rewrite (enc_ndt_j l Hl), Eu, Ef. apply jrefl.
  - rewrite P. apply jrefl.
Qed.
Theorem holds_datenaive a : dtz_ok a -> J.judge B"z.datenaive" [enc_dtz a] (run B"z.datenaive" [enc_dtz a]) = JOk.
Proof.
  intros Ha. run_z1 B"z.datenaive" a (fun x => val_of_R enc_date (dz_date_naive x)). rewrite (dec_dtz_enc a Ha).
  judge_z1 B"z.datenaive" a (fun (u f off : Z) => if J.in_rng (u + off)
      then let '(y, o) := yo_of_dn ((u + off) / J.DAY) in VTup [VInt y; VInt o] else VPanic).
  rewrite (j_z a Ha). pose proof (date_naive_spec a Ha) as P.
  change (J.in_rng (usecs (dz_utc a) + dz_off a)) with (in_rng (wall a)).
  change (usecs (dz_utc a) + dz_off a) with (wall a).
  destruct (in_rng (wall a)).
  - destruct P as (d & E & Hd & Ed). rewrite E. cbn [val_of_R]. destruct (nominal_fields _ Hd) as [_ [Hv _]].
    unfold J.DAY. rewrite <- Ed. unfold dn. rewrite (C08Days.yo_of_dn_of_yo _ _ Hv). apply jrefl.
  - rewrite P. apply jrefl.
Qed.
Theorem holds_time a : dtz_ok a -> J.judge B"z.time" [enc_dtz a] (run B"z.time" [enc_dtz a]) = JOk.
Proof.
  intros Ha. run_z1 B"z.time" a (fun x => val_of_R Time.enc_time (dz_time x)). rewrite (dec_dtz_enc a Ha).
  judge_z1 B"z.time" a (fun (u f off : Z) => VTup [VInt ((u + off) mod J.DAY); VInt f]).
  rewrite (j_z a Ha). destruct Ha as [[Hd Ht] Ho]. rewrite (dz_time_spec a Ht Ho). cbn [val_of_R].
  unfold Time.enc_time. cbn [Time.tsecs Time.tfrac]. unfold usecs, frac, J.DAY.
  replace ((dn (nd_date (dz_utc a)) * 86400 + Time.tsecs (nd_time (dz_utc a)) + dz_off a) mod 86400)
    with ((Time.tsecs (nd_time (dz_utc a)) + dz_off a) mod 86400) by lia.
  apply jrefl.
Qed.
Theorem holds_acc a : dtz_ok a -> J.judge B"z.acc" [enc_dtz a] (run B"z.acc" [enc_dtz a]) = JOk.
Proof.
  intros Ha. run_z1 B"z.acc" a (fun x => val_of_R (fun v : val => v) (dz_acc x)). rewrite (dec_dtz_enc a Ha).
  judge_z1 B"z.acc" a (fun (u f off : Z) => J.exp_acc (u + off) f).
  rewrite (j_z a Ha). pose proof (acc_tuple a Ha) as P. cbv zeta in P.
  unfold J.exp_acc, J.DAY. change (usecs (dz_utc a) + dz_off a) with (wall a).
  destruct (ymd_of_dn (wall a / 86400)) as [[y m] d]. rewrite P. cbn [val_of_R].
  destruct (iso_of_dn (wall a / 86400)) as [iy iw]. apply jrefl.
Qed.

(** * zone conversions *)
Theorem holds_withtz a off : dtz_ok a -> off_ok off ->
  J.judge B"z.withtz" [enc_dtz a; VInt off] (run B"z.withtz" [enc_dtz a; VInt off]) = JOk.
Proof.
  intros Ha Ho.
  change (run B"z.withtz" [enc_dtz a; VInt off]) with
    (match dec_dtz (enc_dtz a), arg_off (VInt off) with
     | Some x, Some off => enc_dtz (with_timezone x off) | _, _ => VBad end).
  rewrite (dec_dtz_enc a Ha), (m_off off Ho).
  destruct (with_timezone_utc a off) as [Eu Eo].
  assert (Hz : dtz_ok (with_timezone a off)) by (split; [rewrite Eu; exact (proj1 Ha)|rewrite Eo; exact Ho]).
  rewrite (enc_dtz_j _ Hz), Eu, Eo.
  match goal with |- J.judge _ _ ?out = _ =>
    change (J.judge B"z.withtz" [enc_dtz a; VInt off] out) with
      (match J.z_of_arg (enc_dtz a), J.off_of_arg (VInt off) with
       | Some (u, f, _), Some off2 => judge_eq (J.enc_z u f off2) out | _, _ => JSkip end) end.
  rewrite (j_z a Ha), (j_off off Ho). apply jrefl.
Qed.
Theorem holds_fixed a : dtz_ok a -> J.judge B"z.fixed" [enc_dtz a] (run B"z.fixed" [enc_dtz a]) = JOk.
Proof.
  intros Ha. run_z1 B"z.fixed" a (fun x => enc_dtz (dz_fixed_offset x)). rewrite (dec_dtz_enc a Ha).
  judge_z1 B"z.fixed" a J.enc_z. rewrite (j_z a Ha), fixed_offset_id, (enc_dtz_j a Ha). apply jrefl.
Qed.
Theorem holds_toutc a : dtz_ok a -> J.judge B"z.toutc" [enc_dtz a] (run B"z.toutc" [enc_dtz a]) = JOk.
Proof.
  intros Ha. run_z1 B"z.toutc" a (fun x => enc_dtz (dz_to_utc x)). rewrite (dec_dtz_enc a Ha).
  judge_z1 B"z.toutc" a (fun (u f _ : Z) => J.enc_z u f 0). rewrite (j_z a Ha).
  assert (Hz : dtz_ok (dz_to_utc a)) by (split; [exact (proj1 Ha)|unfold off_ok; cbn; lia]).
  rewrite (enc_dtz_j _ Hz). apply jrefl.
Qed.

(** * equality, order, hash *)
Ltac run_z2 opname a b f :=
  change (run opname [enc_dtz a; enc_dtz b]) with
    (match dec_dtz (enc_dtz a), dec_dtz (enc_dtz b) with Some x, Some y => f x y | _, _ => VBad end).
Ltac judge_z2 opname a b g :=
  match goal with |- J.judge _ _ ?out = _ =>
    change (J.judge opname [enc_dtz a; enc_dtz b] out) with
      (match J.z_of_arg (enc_dtz a), J.z_of_arg (enc_dtz b) with
       | Some (u, f1, _), Some (v, f2, _) => g (u, f1) (v, f2) out | _, _ => JSkip end) end.

Lemma eqb_is_inst a b : dtz_ok a -> dtz_ok b ->
  dz_eqb a b = J.inst_eqb (usecs (dz_utc a), frac (dz_utc a)) (usecs (dz_utc b), frac (dz_utc b)).
Proof.
  intros Ha Hb. destruct (eq_ord_instant a b Ha Hb) as [_ He]. unfold J.inst_eqb. cbn [fst snd].
  destruct (dz_eqb a b).
  - destruct (proj1 He eq_refl) as [E1 E2]. rewrite E1, E2, !Z.eqb_refl. reflexivity.
  - destruct ((usecs (dz_utc a) =? usecs (dz_utc b)) && (frac (dz_utc a) =? frac (dz_utc b))) eqn:E; [|reflexivity].
    assert (H : false = true) by (apply He; lia). discriminate.
Qed.
Theorem holds_eq a b : dtz_ok a -> dtz_ok b ->
  J.judge B"z.eq" [enc_dtz a; enc_dtz b] (run B"z.eq" [enc_dtz a; enc_dtz b]) = JOk.
Proof.
  intros Ha Hb. run_z2 B"z.eq" a b (fun x y => val_of_bool (dz_eqb x y)).
  rewrite (dec_dtz_enc a Ha), (dec_dtz_enc b Hb).
  judge_z2 B"z.eq" a b (fun (p q : Z * Z) (o : val) => judge_eq (val_of_bool (J.inst_eqb p q)) o).
  rewrite (j_z a Ha), (j_z b Hb), (eqb_is_inst a b Ha Hb). apply jrefl.
Qed.
Theorem holds_cmp a b : dtz_ok a -> dtz_ok b ->
  J.judge B"z.cmp" [enc_dtz a; enc_dtz b] (run B"z.cmp" [enc_dtz a; enc_dtz b]) = JOk.
Proof.
  intros Ha Hb. run_z2 B"z.cmp" a b (fun x y => VInt (dz_cmp x y)).
  rewrite (dec_dtz_enc a Ha), (dec_dtz_enc b Hb).
  judge_z2 B"z.cmp" a b (fun (p q : Z * Z) (o : val) => judge_eq (VInt (J.inst_cmp p q)) o).
  rewrite (j_z a Ha), (j_z b Hb). rewrite (proj1 (eq_ord_instant a b Ha Hb)). apply jrefl.
Qed.
Theorem holds_hasheq a b : dtz_ok a -> dtz_ok b ->
  J.judge B"z.hasheq" [enc_dtz a; enc_dtz b] (run B"z.hasheq" [enc_dtz a; enc_dtz b]) = JOk.
Proof.
  intros Ha Hb. run_z2 B"z.hasheq" a b (fun x y => val_of_bool (keys_eqb (dz_hash_key x) (dz_hash_key y))).
  rewrite (dec_dtz_enc a Ha), (dec_dtz_enc b Hb).
  judge_z2 B"z.hasheq" a b (fun (p q : Z * Z) (o : val) =>
    if J.inst_eqb p q then judge_eq (VInt 1) o else J.judge_either (VInt 0) (VInt 1) o).
  rewrite (j_z a Ha), (j_z b Hb). rewrite <- (proj2 (eq_ord_hash_agree a b)), <- (eqb_is_inst a b Ha Hb).
  destruct (dz_eqb a b); reflexivity.
Qed.
