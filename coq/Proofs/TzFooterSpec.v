(** Footer consistency stated against the oracles instead of the reader's code.
    [footer_consistent] (Proofs/TzWriterFull.v) is the check [TimeZoneRef::validate] performs with
    the reader's own leap-second conversion and rule evaluation.  Here the same demand is derived
    from [footer_agrees]: the last transition leads to the local time type that the rule has, by
    the calendar oracle of Spec/Zone.v ([rule_is_dst], proved equal to
    AlternateTime::find_local_time_type in Proofs/C05Rule.v under the premise of property C05), at
    the last transition time less the leap-second correction in force just before it. *)
From Coq Require Import ZArith List Bool Lia ZifyBool.
From V Require Import Base.Int Base.IO Base.IntLemmas Gen.TzInfo.
From V Require Import Spec.Gregorian Spec.Zone.
From V Require Import Model.TzParser Model.TzRule Spec.TzWriter.
From V Require Import Proofs.TzCommon Proofs.TzRoundtrip Proofs.TzWriterRoundtrip Proofs.TzWriterFull.
From V Require Import Proofs.C05Spec Proofs.C05Rule.
Import ListNotations.
Open Scope Z_scope.
Ltac Zify.zify_post_hook ::= Z.to_euclidean_division_equations.

(** the correction of the last leap-second record whose occurrence lies before leap-time [t]
    ([c] when there is none) *)
Fixpoint corr_before (l : list leap) (t : Z) (c : Z) : Z :=
  match l with
  | a :: r => if lp_time a <? t then corr_before r t (lp_corr a) else c
  | [] => c
  end.
(* how many records lie before [t] (the table is sorted) *)
Fixpoint lead (l : list leap) (t : Z) : Z :=
  match l with
  | a :: r => if lp_time a <? t then 1 + lead r t else 0
  | [] => 0
  end.

Lemma lead_bounds l t : 0 <= lead l t <= zlen l.
Proof.
  induction l as [|a r IH]; cbn [lead]; [change (zlen (@nil leap)) with 0; lia|].
  rewrite zlen_cons. destruct (lp_time a <? t); lia.
Qed.
Lemma lead_zero_corr l t c : lead l t = 0 -> corr_before l t c = c.
Proof.
  destruct l as [|a r]; [reflexivity|]. cbn [lead corr_before]. pose proof (lead_bounds r t).
  destruct (lp_time a <? t); [lia|reflexivity].
Qed.
Lemma count_below_bounds s k : 0 <= count_below s k <= zlen s.
Proof.
  induction s as [|x r IH]; cbn [count_below]; [change (zlen (@nil Z)) with 0; lia|].
  rewrite zlen_cons. destruct (x <? k); lia.
Qed.
Lemma nth_z_aux_S {A} (x : A) r i : 0 <= i -> nth_z_aux (x :: r) (Z.to_nat (1 + i)) = nth_z_aux r (Z.to_nat i).
Proof. intros H. replace (Z.to_nat (1 + i)) with (S (Z.to_nat i)) by lia. reflexivity. Qed.

(* the binary search of unix_leap_time_to_unix_time on a sorted table *)
Lemma search_next_lead : forall l t, strictly_increasing (map lp_time l) -> zlen l <= 4294967295 ->
  search_next (map lp_time l) (t - 1) = Val (lead l t).
Proof.
  induction l as [|a r IH]; intros t Hinc Hlen; [reflexivity|].
  rewrite zlen_cons in Hlen. pose proof (zlen_nonneg r) as Hr0.
  assert (Hinc' : strictly_increasing (map lp_time r)) by (destruct r; [exact I|apply Hinc]).
  specialize (IH t Hinc' ltac:(lia)).
  unfold search_next, binary_search in *. cbn [map count_below lead].
  pose proof (count_below_bounds (map lp_time r) (t - 1)) as Hcb. rewrite zlen_map in Hcb.
  pose proof (lead_bounds r t) as Hld.
  destruct (lp_time a <? t - 1) eqn:E1.
  - replace (lp_time a <? t) with true by lia.
    rewrite nth_z_aux_S by lia.
    destruct (nth_z_aux (map lp_time r) (Z.to_nat (count_below (map lp_time r) (t - 1)))) as [x|].
    + destruct (x =? t - 1).
      * unfold add_usize in *. rewrite chk_in in IH by range_solver. rewrite chk_in by range_solver.
        injection IH as IH. f_equal. lia.
      * injection IH as IH. f_equal. lia.
    + injection IH as IH. f_equal. lia.
  - cbn [Z.to_nat nth_z_aux]. destruct (lp_time a =? t - 1) eqn:E2.
    + replace (lp_time a <? t) with true by lia. unfold add_usize. rewrite chk_in by range_solver.
      f_equal. destruct r as [|b r']; [reflexivity|].
      cbn [map strictly_increasing] in Hinc. cbn [lead]. replace (lp_time b <? t) with false by lia. reflexivity.
    + replace (lp_time a <? t) with false by lia. reflexivity.
Qed.

Lemma index_S {A} (x : A) r i : 0 <= i -> index (x :: r) (1 + i) = index r i.
Proof.
  intros H. unfold index. replace (1 + i <? 0) with false by lia. replace (i <? 0) with false by lia.
  rewrite nth_z_aux_S by lia. reflexivity.
Qed.
Lemma corr_lookup : forall l t c, zlen l <= 4294967295 ->
  (if lead l t >? 0 then let* i := sub_usize (lead l t) 1 in let* a := index l i in Val (lp_corr a) else Val c)
  = Val (corr_before l t c).
Proof.
  induction l as [|a r IH]; intros t c Hlen; [reflexivity|].
  rewrite zlen_cons in Hlen. pose proof (zlen_nonneg r) as Hr0. pose proof (lead_bounds r t) as Hld.
  cbn [lead corr_before]. destruct (lp_time a <? t); [|reflexivity].
  replace (1 + lead r t >? 0) with true by lia.
  unfold sub_usize. rewrite chk_in by range_solver. rewrite bind_val.
  replace (1 + lead r t - 1) with (lead r t) by lia.
  specialize (IH t (lp_corr a) ltac:(lia)).
  destruct (lead r t >? 0) eqn:E.
  - unfold sub_usize in IH. rewrite chk_in in IH by range_solver. rewrite bind_val in IH.
    replace (lead r t) with (1 + (lead r t - 1)) at 1 by lia. rewrite index_S by lia. exact IH.
  - assert (H0 : lead r t = 0) by lia. rewrite H0. cbn [index Z.ltb Z.compare Z.to_nat nth_z_aux unwrap].
    rewrite bind_val. rewrite lead_zero_corr by exact H0. reflexivity.
Qed.

Lemma unix_leap_exact leaps t : strictly_increasing (map lp_time leaps) -> zlen leaps <= 4294967295 ->
  -9223372036854775808 < t <= 9223372036854775807 -> in_i64 (t - corr_before leaps t 0) = true ->
  unix_leap_time_to_unix_time leaps t = ok (t - corr_before leaps t 0).
Proof.
  intros Hinc Hlen Ht Hu. unfold unix_leap_time_to_unix_time.
  replace (t =? i64_min) with false by (unfold i64_min; lia).
  unfold sub_i64. rewrite chk_in by range_solver. rewrite bind_val.
  rewrite search_next_lead by assumption. rewrite bind_val.
  rewrite (corr_lookup leaps t 0 Hlen). rewrite bind_val.
  unfold checked_sub. rewrite chko_in by exact Hu. reflexivity.
Qed.

Lemma leaps_spaced_increasing : forall l, leaps_spaced l -> strictly_increasing (map lp_time l).
Proof.
  induction l as [|a r IH]; intros H; [exact I|]. destruct r as [|b r']; [exact I|].
  cbn [leaps_spaced] in H. destruct H as (Ht & _ & Hr). cbn [map strictly_increasing]. split; [lia|].
  apply IH. exact Hr.
Qed.

(** a printable rule satisfies the range conditions of the evaluation theorems *)
Lemma printable_ltt_ok dst l : ltt_printable dst l -> ltt_ok l.
Proof.
  intros (_ & Ho & Hn). unfold ltt_ok. split; [range_solver|]. split; [unfold i32_min; lia|].
  unfold name_printable in Hn. unfold name_ok. destruct (name l); [exact Hn|exact I].
Qed.
Lemma printable_alt_ok a ext : rule_printable (Alternate a) ext -> alt_ok a.
Proof.
  intros (Hs & Hd & Hds & Hde & Hts & Hte). unfold alt_ok.
  split; [exact (printable_ltt_ok _ _ Hs)|]. split; [exact (printable_ltt_ok _ _ Hd)|].
  split; [destruct (dst_start a); exact Hds|]. split; [destruct (dst_end a); exact Hde|].
  unfold time_printable in *. destruct ext; lia.
Qed.

(** the demand of the reader, in terms of the oracles *)
Definition footer_agrees (z : timezone) : Prop :=
  match extra_rule z, last_of (transitions z) with
  | Some rule, Some last =>
      let u := tr_time last - corr_before (leap_seconds z) (tr_time last) 0 in
      -9223372036854775808 < tr_time last <= 9223372036854775807 /\ in_i64 u = true /\
      match rule with
      | Fixed l => index (local_time_types z) (tr_idx last) = Val l
      | Alternate a =>
          rule_hyps a u /\
          index (local_time_types z) (tr_idx last) = Val (if rule_is_dst (conv_rule a) u then a_dst a else a_std a)
      end
  | _, _ => True
  end.

Lemma ltt_check_refl l :
  (ut_offset l =? ut_offset l) && Bool.eqb (is_dst l) (is_dst l) && opt_bytes_eqb (name l) (name l) = true.
Proof.
  replace (ut_offset l =? ut_offset l) with true by lia. rewrite eqb_reflx.
  destruct (name l) as [n|]; [|reflexivity]. cbn [opt_bytes_eqb andb]. apply bytes_eqb_refl.
Qed.

Theorem footer_agrees_consistent z : leaps_spaced (leap_seconds z) -> zlen (leap_seconds z) <= 4294967295 ->
  footer_agrees z -> footer_consistent z = true.
Proof.
  intros Hsp Hlen H. unfold footer_agrees in H. unfold footer_consistent.
  destruct (extra_rule z) as [rule|]; [|reflexivity].
  destruct (last_of (transitions z)) as [last|]; [|reflexivity].
  cbv zeta in H. destruct H as (Ht & Hu & Hr).
  rewrite unix_leap_exact; [|apply leaps_spaced_increasing; exact Hsp|exact Hlen|exact Ht|exact Hu].
  unfold ok. destruct rule as [l|a].
  - rewrite Hr. cbn [rule_find_local_time_type]. unfold ok. apply ltt_check_refl.
  - destruct Hr as [(Ha & Htr & Hs & Hd & P2 & P1 & P0 & Pn & Hreg) Hi]. rewrite Hi.
    cbn [rule_find_local_time_type].
    pose proof (rule_offset_spec a _ Ha Htr) as Hspec. cbv zeta in Hspec.
    rewrite (Hspec Hs Hd P2 P1 P0 Pn Hreg). apply ltt_check_refl.
Qed.

(** the round trip with the footer hypothesis stated against the oracles *)
Theorem writer_roundtrip_v23_spec ver z32 std32 ut32 z std ut :
  (ver = 50 \/ ver = 51) -> block_layout 4 z32 std32 ut32 -> zone_writable_full 8 z std ut ->
  match extra_rule z with Some r => rule_printable r (footer_ext ver) | None => True end ->
  footer_agrees z ->
  parse (write_tzif_v23_full ver z32 std32 ut32 z std ut) = Val (Ok z).
Proof.
  intros Hver Hlay Hw Hpr Hag. apply writer_roundtrip_v23_full; try assumption.
  unfold footer_writable. destruct (extra_rule z) as [r|] eqn:Er; [|exact I]. split; [exact Hpr|].
  destruct Hw as (_ & _ & _ & _ & _ & _ & (_ & _ & Hsp) & Hlc & _).
  apply footer_agrees_consistent; assumption.
Qed.

(* the Berlin-like example (leap records and footer) agrees in this sense *)
Lemma example_berlin_agrees : footer_agrees example_berlin.
Proof.
  unfold footer_agrees. cbn [extra_rule example_berlin transitions last_of rev app leap_seconds local_time_types].
  cbv zeta. cbn [tr_time tr_idx corr_before lp_time lp_corr].
  split; [lia|]. split; [vm_compute; reflexivity|].
  unfold example_berlin_rule. split; [|vm_compute; reflexivity].
  unfold rule_hyps. cbv zeta. split.
  { apply (printable_alt_ok _ false).
    unfold rule_printable. cbn [a_std a_dst dst_start dst_end dst_start_time dst_end_time].
    repeat split; cbn; try lia; try (unfold zlen; cbn [List.length]; lia); repeat constructor. }
  split; [vm_compute; split; discriminate|].
  split; [vm_compute; split; reflexivity|]. split; [vm_compute; split; reflexivity|].
  repeat split; vm_compute; reflexivity.
Qed.
