(** C05, the glue at the level of VALUES: [Local.from_local_datetime] (Model/C05.v: Cache::offset ->
    impl TimeZone for Local -> the provided method of src/offset/mod.rs) returns date-times, not
    just offsets.  The lookup's candidates are turned into values by C04's owners' theorems
    (from_local_datetime of a fixed offset: Single with instant = wall clock - offset exactly when
    that instant is supported; reading the wall clock back is the identity), the timestamp the
    lookup is given is C02's ([dt_timestamp] = the second count), and the year is the calendar
    year of that second count.  Vocabulary:
      [wsecs a]    seconds since the Unix epoch of a naive reading (C04's [usecs] moved to 1970),
      [dz_unix v]  the instant of a date-time value, [supported t] = C04's [in_rng] at that instant,
      [mlt_list]   the values of a MappedLocalTime in order (earliest first). *)
From Coq Require Import ZArith List Bool Lia ZifyBool.
From V Require Import Base.Int Base.IO Spec.Gregorian Spec.Zone.
From V Require Import Model.TzParser Model.TzRule Model.TzLookup Model.C05.
From V Require Model.Date Model.Time Model.DateTime.
From V Require Import Proofs.TzCommon Proofs.C05 Proofs.C05Composite.
From V Require Proofs.C02 Proofs.C02Date Proofs.C04 Proofs.C04Date Proofs.C08Date Proofs.C08Days Proofs.C08Sweeps.
Import ListNotations.
Open Scope Z_scope.

Module P2 := V.Proofs.C02.
Module P2D := V.Proofs.C02Date.
Module P4 := V.Proofs.C04.
Module P4D := V.Proofs.C04Date.

Definition wsecs (a : DateTime.ndt) : Z := P4.usecs a - EPOCH_DN * 86400.
Definition dz_unix (v : DateTime.dtz) : Z := wsecs (DateTime.dz_utc v).
Definition supported (t : Z) : bool := P4.in_rng (t + EPOCH_DN * 86400).
Definition mlt_list {A} (m : mlt A) : list A :=
  match m with MNone => [] | MSingle a => [a] | MAmbiguous a b => [a; b] end.

(* the value built for the wall clock [local] and the offset [off] *)
Definition value_at (local : DateTime.ndt) (off : Z) (v : DateTime.dtz) : Prop :=
  P4.dtz_ok v /\ DateTime.dz_off v = off /\ dz_unix v = wsecs local - off /\
  P4.frac (DateTime.dz_utc v) = P4.frac local /\ DateTime.naive_local v = Val local.

(** * What the lookup is given: the second count and the calendar year of the wall clock *)
Lemma ts_wall local : P4.ndt_ok local -> DateTime.dt_timestamp local = Val (wsecs local).
Proof.
  intros [Hd [Hs Hf]]. rewrite (P2D.u_timestamp_spec local).
  - f_equal. unfold P2.secs_of, unix_secs, wsecs, P4.usecs, P4.dn, P2.date_dn, P2.dsecs. lia.
  - split; [exact Hd|]. unfold P2.dsecs, P2.dfrac, P2.G. lia.
Qed.
Lemma year_wall local : P4.ndt_ok local ->
  Date.d_year (DateTime.nd_date local) = utc_year (wsecs local).
Proof.
  intros [Hd [Hs _]]. destruct (P4D.repr_of_nominal _ Hd) as (y & o & Hr).
  pose proof (V.Proofs.C08Date.repr_acc y o _ Hr) as A.
  destruct (md_of_ordinal (is_leap y) o). destruct A as (E1 & _).
  unfold utc_year, wsecs, P4.usecs. rewrite (P4D.dn_of_repr y o _ Hr).
  replace ((dn_of_yo y o * 86400 + Time.tsecs (DateTime.nd_time local) - EPOCH_DN * 86400) / 86400 + EPOCH_DN)
    with (dn_of_yo y o) by (unfold EPOCH_DN; lia).
  unfold year_of_dn. rewrite (V.Proofs.C08Days.yo_of_dn_of_yo y o (proj1 (proj2 Hr))). cbn [fst]. exact E1.
Qed.

(** * One candidate offset -> one value (or none), by C04 *)
Definition closure (local : DateTime.ndt) (off : Z) : R (option DateTime.dtz) :=
  let* o := DateTime.ndt_checked_sub_offset local off in
  Val (match o with Some dt => Some (DateTime.mk_dtz dt off) | None => None end).

Lemma supported_wall local off : supported (wsecs local - off) = P4.in_rng (P4.usecs local - off).
Proof. unfold supported, wsecs. f_equal. lia. Qed.

Lemma closure_spec local off : P4.ndt_ok local -> off_ok off ->
  if supported (wsecs local - off)
  then exists v, closure local off = Val (Some v) /\ value_at local off v
  else closure local off = Val None.
Proof.
  intros Hl Ho. rewrite supported_wall.
  pose proof (P4D.from_local_fails_iff off local Hl Ho) as H.
  pose proof (P4D.local_roundtrip_u off local) as Hrt.
  unfold DateTime.from_local_datetime in H, Hrt. unfold closure.
  destruct (DateTime.ndt_checked_sub_offset local off) as [[u|]| |]; cbn [bind] in *;
    destruct (P4.in_rng (P4.usecs local - off)).
  - destruct H as (v & Hv & Hok & Hoff & Hu & Hf). injection Hv as <-.
    exists (DateTime.mk_dtz u off). split; [reflexivity|].
    split; [exact Hok|]. split; [reflexivity|]. split; [unfold dz_unix, wsecs; lia|].
    split; [exact Hf|]. exact (proj1 (Hrt _ Hl Ho eq_refl)).
  - discriminate.
  - destruct H as (v & Hv & _). discriminate.
  - reflexivity.
  - destruct H as (v & Hv & _). discriminate.
  - discriminate.
  - destruct H as (v & Hv & _). discriminate.
  - discriminate.
Qed.

(** * Local.from_local_datetime, from the lookup's answer *)
(* the lookup's answer is turned into values candidate by candidate; an answer with a candidate
   offset that is no FixedOffset, or with a candidate whose instant is unsupported, is None as a
   whole (MappedLocalTime::and_then) *)
Theorem from_local_values zone local m :
  P4.ndt_ok local ->
  find_local_time_type_from_local zone (utc_year (wsecs local)) (wsecs local) = Val (Ok m) ->
  (forall o, contains m o -> off_ok o) ->
  let l := wsecs local in
  exists r, from_local_datetime zone local = Val r /\
  if forallb supported (cand_instants l m)
  then map dz_unix (mlt_list r) = cand_instants l m /\
       Forall (fun v => value_at local (DateTime.dz_off v) v) (mlt_list r) /\
       map DateTime.dz_off (mlt_list r) = mlt_list (mlt_map m ut_offset)
  else r = MNone.
Proof.
  intros Hl Hm Hoff l. unfold from_local_datetime.
  rewrite (glue_local zone local (wsecs local) (ts_wall local Hl)), (year_wall local Hl), Hm.
  rewrite (and_then_all_ok m Hoff). cbn [bind].
  destruct m as [|x|x y]; cbn [mlt_map mlt_and_then_r cand_instants forallb].
  - exists MNone. split; [reflexivity|]. cbn. auto.
  - fold (closure local (ut_offset x)).
    pose proof (closure_spec local (ut_offset x) Hl (Hoff _ eq_refl)) as Hx. fold l in Hx.
    rewrite andb_true_r. destruct (supported (l - ut_offset x)).
    + destruct Hx as (v & -> & Hv). cbn [bind]. exists (MSingle v). split; [reflexivity|].
      cbn [mlt_list map]. destruct Hv as (H1 & H2 & H3 & H4 & H5).
      split; [rewrite H3; reflexivity|]. split; [|rewrite H2; reflexivity].
      constructor; [|constructor]. rewrite H2. unfold value_at. auto.
    + rewrite Hx. cbn [bind]. exists MNone. split; reflexivity.
  - fold (closure local (ut_offset x)). fold (closure local (ut_offset y)).
    pose proof (closure_spec local (ut_offset x) Hl (Hoff _ (or_introl eq_refl))) as Hx.
    pose proof (closure_spec local (ut_offset y) Hl (Hoff _ (or_intror eq_refl))) as Hy. fold l in Hx, Hy.
    rewrite andb_true_r. destruct (supported (l - ut_offset x)), (supported (l - ut_offset y)); cbn [andb].
    + destruct Hx as (v & -> & Hv). destruct Hy as (w & -> & Hw). cbn [bind].
      exists (MAmbiguous v w). split; [reflexivity|]. cbn [mlt_list map].
      destruct Hv as (H1 & H2 & H3 & H4 & H5). destruct Hw as (K1 & K2 & K3 & K4 & K5).
      split; [rewrite H3, K3; reflexivity|]. split; [|rewrite H2, K2; reflexivity].
      constructor; [|constructor; [|constructor]].
      * rewrite H2. unfold value_at. auto.
      * rewrite K2. unfold value_at. auto.
    + destruct Hx as (v & -> & Hv). rewrite Hy. cbn [bind]. exists MNone. split; reflexivity.
    + rewrite Hx. cbn [bind]. destruct (closure local (ut_offset y)) as [[w|]| |] eqn:E.
      * cbn [bind]. exists MNone. split; reflexivity.
      * cbn [bind]. exists MNone. split; reflexivity.
      * destruct Hy as (w & Hw & _). discriminate.
      * destruct Hy as (w & Hw & _). discriminate.
    + rewrite Hx, Hy. cbn [bind]. exists MNone. split; reflexivity.
Qed.

(* a candidate offset that is no FixedOffset: None as a whole; a failed lookup: the [expect] panics *)
Theorem from_local_values_bad zone local :
  P4.ndt_ok local ->
  match find_local_time_type_from_local zone (utc_year (wsecs local)) (wsecs local) with
  | Val (Ok m) => (exists o, contains m o /\ ~ off_ok o) -> from_local_datetime zone local = Val MNone
  | Val (Err _) => from_local_datetime zone local = Panic
  | Panic => from_local_datetime zone local = Panic
  | OutOfFuel => from_local_datetime zone local = OutOfFuel
  end.
Proof.
  intros Hl. unfold from_local_datetime.
  rewrite (glue_local zone local (wsecs local) (ts_wall local Hl)), (year_wall local Hl).
  destruct (find_local_time_type_from_local zone (utc_year (wsecs local)) (wsecs local)) as [[m|e]| |];
    try reflexivity.
  intros (o & Hc & Hb). rewrite (and_then_some_bad m o Hc Hb). reflexivity.
Qed.

(** * ... and against the oracle: whenever the lookup's answer classifies S(l) = instants_of_wall
    (C05_classification_table, C05_rule_zone_classification, C05_composite_classification), the
    date-times returned have exactly the instants S(l), earliest first, each reading [local] on its
    own wall clock; None as a whole when an instant of S(l) is unsupported *)
Theorem from_local_values_instants zone z local m :
  P4.ndt_ok local -> let l := wsecs local in
  find_local_time_type_from_local zone (utc_year l) l = Val (Ok m) ->
  classified z l m ->
  (forall o, In o (zone_offsets z) -> off_ok o) ->
  let S := instants_of_wall z l in
  exists r, from_local_datetime zone local = Val r /\
  if forallb supported S
  then map dz_unix (mlt_list r) = S /\
       Forall (fun v => value_at local (DateTime.dz_off v) v) (mlt_list r)
  else r = MNone.
Proof.
  intros Hl l Hm Hc Hoffs S.
  pose proof (classified_list z l m Hc) as HS. fold S in HS.
  assert (Hoff : forall o, contains m o -> off_ok o).
  { intros o Ho. apply Hoffs.
    assert (Hin : In (l - o) S).
    { rewrite HS. destruct m as [|x|x y]; cbn [contains cand_instants] in *; [contradiction| |].
      - left. congruence.
      - destruct Ho as [<-|<-]; [left|right; left]; reflexivity. }
    apply instants_of_wall_spec in Hin. replace (l - (l - o)) with o in Hin by lia. apply Hin. }
  destruct (from_local_values zone local m Hl Hm Hoff) as (r & Hr & H). fold l in H.
  exists r. split; [exact Hr|]. rewrite HS. destruct (forallb supported (cand_instants l m)); [|exact H].
  destruct H as (H1 & H2 & _). auto.
Qed.

(** end to end for a composite zone *)
Theorem from_local_values_composite zone ps first a local :
  let l := wsecs local in let r := conv_rule a in
  let cz := mk_szone (ut_offset first) (offs ps) (Some (inr r)) in
  P4.ndt_ok local ->
  table_zone zone ps first -> extra_rule zone = Some (Alternate a) -> alt_ok a -> r_std r <> r_dst r ->
  increasing (offs ps) = true -> spacing_table (offs ps) (ut_offset first) = true ->
  footer_continues cz = true -> rule_year_hyps r (footer_year cz) ->
  (footer_hi cz < l -> rule_reading_hyps a l) ->
  excepted_wall cz l = false ->
  (forall o, In o (zone_offsets cz) -> off_ok o) ->
  let S := instants_of_wall cz l in
  exists v, from_local_datetime zone local = Val v /\
  if forallb supported S
  then map dz_unix (mlt_list v) = S /\
       Forall (fun x => value_at local (DateTime.dz_off x) x) (mlt_list v)
  else v = MNone.
Proof.
  intros l r cz Hl Hz Hr Ha Hne Hinc Hsp Hfc Hfy Hrl Hex Hoffs.
  destruct (composite_classification zone ps first a l Hz Hr Ha Hne Hinc Hsp Hfc Hfy Hrl Hex) as (m & Hm & Hc).
  exact (from_local_values_instants zone cz local m Hl Hm Hc Hoffs).
Qed.

(** * Local.from_utc_datetime at value level, and the round trip instant -> wall clock -> instant *)
Theorem from_utc_values zone utc lt :
  P4.ndt_ok utc -> find_local_time_type zone (wsecs utc) = Val (Ok lt) ->
  (off_ok (ut_offset lt) ->
   from_utc_datetime zone utc = Val (DateTime.mk_dtz utc (ut_offset lt)) /\
   P4.dtz_ok (DateTime.mk_dtz utc (ut_offset lt))) /\
  (~ off_ok (ut_offset lt) -> from_utc_datetime zone utc = Panic).
Proof.
  intros Hu Hl. rewrite (glue_utc zone utc (wsecs utc) (ts_wall utc Hu)), Hl. unfold off_ok.
  split; intros Ho.
  - replace ((-86400 <? ut_offset lt) && (ut_offset lt <? 86400)) with true by lia.
    split; [reflexivity|]. split; [exact Hu|exact Ho].
  - replace ((-86400 <? ut_offset lt) && (ut_offset lt <? 86400)) with false by lia. reflexivity.
Qed.

(* instant -> date-time -> its wall clock -> date-times: the original value is among them *)
Theorem roundtrip_values zone utc lt m :
  P4.ndt_ok utc -> let t := wsecs utc in let o := ut_offset lt in let l := t + o in
  find_local_time_type zone t = Val (Ok lt) -> off_ok o -> supported l = true ->
  find_local_time_type_from_local zone (utc_year l) l = Val (Ok m) -> contains m o ->
  (forall o', contains m o' -> off_ok o') ->
  forallb supported (cand_instants l m) = true ->
  exists v w r, from_utc_datetime zone utc = Val v /\ DateTime.dz_utc v = utc /\ DateTime.dz_off v = o /\
                DateTime.naive_local v = Val w /\ P4.ndt_ok w /\ wsecs w = l /\
                from_local_datetime zone w = Val r /\ In v (mlt_list r).
Proof.
  intros Hu t o l Hl Ho Hsup Hm Hc Hoffs Hall.
  destruct (proj1 (from_utc_values zone utc lt Hu Hl) Ho) as [Hv Hvok]. fold o in Hv, Hvok.
  set (v := DateTime.mk_dtz utc o) in *.
  pose proof (P4D.naive_local_panics_iff v Hvok) as Hn.
  assert (Hw : P4.wall v = l + EPOCH_DN * 86400).
  { unfold P4.wall, v, l, t, wsecs. cbn [DateTime.dz_utc DateTime.dz_off]. lia. }
  unfold supported in Hsup. rewrite Hw, Hsup in Hn. destruct Hn as (w & Hnl & Hwok & Hwu & Hwf).
  assert (Hwl : wsecs w = l) by (unfold wsecs; lia).
  rewrite <- Hwl in Hm, Hall.
  destruct (from_local_values zone w m Hwok Hm Hoffs) as (r & Hr & H). rewrite Hall in H.
  destruct H as (H1 & H2 & H3).
  exists v, w, r. repeat (split; [assumption || reflexivity|]).
  (* the candidate with offset o is v itself *)
  assert (Hsame : forall v', value_at w o v' -> v' = v).
  { intros v' (K1 & K2 & K3 & K4 & _). destruct v' as [u' o']. cbn [DateTime.dz_utc DateTime.dz_off] in *.
    subst o'. unfold v. f_equal. destruct K1 as [K1 _]. cbn [DateTime.dz_utc] in K1.
    apply (P4.ndt_wide_inj P4D.HD); [apply P4.ndt_ok_wide; exact K1|apply P4.ndt_ok_wide; exact Hu| |].
    - unfold dz_unix, wsecs in K3. cbn [DateTime.dz_utc] in K3. unfold l, t, wsecs in Hwl. unfold wsecs in Hwl. lia.
    - rewrite K4. exact Hwf. }
  destruct m as [|x|x y]; cbn [contains mlt_map mlt_list] in Hc, H3.
  - contradiction.
  - destruct r as [|a|a b]; cbn [mlt_list map] in H3, H2 |- *; try discriminate.
    injection H3 as H3. inversion H2 as [|? ? Ha _]; subst. left.
    apply Hsame. rewrite H3, Hc in Ha. exact Ha.
  - destruct r as [|a|a b]; cbn [mlt_list map] in H3, H2 |- *; try discriminate.
    injection H3 as H3a H3b. inversion H2 as [|? ? Ha H2']; subst. inversion H2' as [|? ? Hb _]; subst.
    destruct Hc as [Hc|Hc].
    + left. apply Hsame. rewrite H3a, Hc in Ha. exact Ha.
    + right. left. apply Hsame. rewrite H3b, Hc in Hb. exact Hb.
Qed.

(* end to end on a composite zone, for every supported instant whose wall reading is supported and
   not an excepted second *)
Theorem roundtrip_values_composite zone ps first a tl pv ol utc :
  let r := conv_rule a in
  let cz := mk_szone (ut_offset first) (offs ps) (Some (inr r)) in
  let t := wsecs utc in
  P4.ndt_ok utc ->
  table_zone zone ps first -> leap_seconds zone = [] -> extra_rule zone = Some (Alternate a) ->
  alt_ok a -> r_std r <> r_dst r ->
  increasing (offs ps) = true -> spacing_table (offs ps) (ut_offset first) = true ->
  zlen (transitions zone) < 4611686018427387904 ->
  last_window (offs ps) (ut_offset first) = Some (tl, pv, ol) ->
  footer_continues cz = true -> rule_year_hyps r (footer_year cz) ->
  (tl <= t -> rule_hyps a t) ->
  (forall o, In o (zone_offsets cz) -> off_ok o) ->
  forall o, zone_off cz t = Some o -> let l := t + o in
  (footer_hi cz < l -> rule_reading_hyps a l) ->
  excepted_wall cz l = false ->
  supported l = true -> forallb supported (instants_of_wall cz l) = true ->
  exists v w res, from_utc_datetime zone utc = Val v /\ DateTime.dz_utc v = utc /\ DateTime.dz_off v = o /\
                  DateTime.naive_local v = Val w /\ P4.ndt_ok w /\ wsecs w = l /\
                  from_local_datetime zone w = Val res /\ In v (mlt_list res) /\
                  map dz_unix (mlt_list res) = instants_of_wall cz l.
Proof.
  intros r cz t Hu Hz Hleap Hr Ha Hne Hinc Hsp Hlen Hlw Hfc Hfy Hrule Hoffs o Ho l Hrl Hex Hsup Hall.
  assert (Hfy' : rule_year_hyps r (utc_year (tl + ol))).
  { unfold footer_year, cz in Hfy. cbn [z_trans z_first] in Hfy. rewrite Hlw in Hfy. exact Hfy. }
  destruct (footer_facts _ _ _ _ _ _ Hlw Hfc Hfy') as (Hc1 & _).
  destruct (offset_at_composite zone ps first a tl pv ol t Hz Hleap Hr Hinc Hlen Hlw Hc1 Hrule) as (lt & Hlt & Hzo).
  fold r cz in Hzo. rewrite Ho in Hzo. injection Hzo as Hzo.
  destruct (composite_classification zone ps first a l Hz Hr Ha Hne Hinc Hsp Hfc Hfy Hrl Hex) as (m & Hm & Hcl).
  change (classified cz l m) in Hcl.
  pose proof (classified_list cz l m Hcl) as HS.
  assert (Hin : In t (instants_of_wall cz l)).
  { apply instants_of_wall_spec. unfold l. replace (t + o - t) with o by lia. split; [exact Ho|].
    unfold cz in Ho. rewrite (zone_off_composite _ _ _ _ _ _ t Hinc Hlw Hc1) in Ho. injection Ho as <-.
    destruct (t <? tl); [apply table_off_in_composite|apply roff_in_offsets]. }
  assert (Hcont : contains m o).
  { rewrite HS in Hin. destruct m as [|x|x y]; cbn [cand_instants contains] in *.
    - contradiction.
    - destruct Hin as [Hin|[]]. unfold l in Hin. lia.
    - destruct Hin as [Hin|[Hin|[]]]; unfold l in Hin; [left|right]; lia. }
  assert (Hoff : forall o', contains m o' -> off_ok o').
  { intros o' Ho'. apply Hoffs.
    assert (Hin' : In (l - o') (instants_of_wall cz l)).
    { rewrite HS. destruct m as [|x|x y]; cbn [contains cand_instants] in *; [contradiction| |].
      - left. congruence.
      - destruct Ho' as [<-|<-]; [left|right; left]; reflexivity. }
    apply instants_of_wall_spec in Hin'. replace (l - (l - o')) with o' in Hin' by lia. apply Hin'. }
  rewrite HS in Hall. subst o.
  destruct (roundtrip_values zone utc lt m Hu Hlt (Hoff _ Hcont) Hsup Hm Hcont Hoff Hall)
    as (v & w & res & H1 & H2 & H3 & H4 & H5 & H6 & H7 & H8).
  exists v, w, res. repeat (split; [assumption|]).
  (* the instants of the result *)
  fold t l in H6. rewrite <- H6 in Hm, Hall.
  destruct (from_local_values zone w m H5 Hm Hoff) as (res' & Hres & Hlist). rewrite Hall in Hlist.
  rewrite H7 in Hres. injection Hres as <-. rewrite HS, <- H6. apply Hlist.
Qed.

(** the hypotheses are inhabited: 2024-10-27T02:30:00 in the Berlin-like composite zone of
    Proofs/C05Composite.v *)
Definition exg_local : DateTime.ndt :=
  match DateTime.dt_from_timestamp 1729996200 0 with Val (Some n) => n | _ => DateTime.mk_ndt 0 (Time.mk_time 0 0) end.
Lemma exg_ok : P4.ndt_ok exg_local.
Proof.
  split.
  - exists 2024, 301. vm_compute. repeat split; reflexivity.
  - vm_compute. repeat split; discriminate.
Qed.
Lemma exg_facts :
  P4.ndt_ok exg_local /\ wsecs exg_local = 1729996200 /\
  (forall o, In o (zone_offsets exc_cz) -> off_ok o) /\
  forallb supported (instants_of_wall exc_cz 1729996200) = true /\
  match from_local_datetime exc_zone exg_local with
  | Val (MAmbiguous v w) => dz_unix v = 1729989000 /\ dz_unix w = 1729992600 /\
                            DateTime.dz_off v = 7200 /\ DateTime.dz_off w = 3600
  | _ => False
  end.
Proof.
  split; [exact exg_ok|]. split; [vm_compute; reflexivity|]. split.
  - intros o Ho. vm_compute in Ho. unfold off_ok. intuition lia.
  - split; [vm_compute; reflexivity|]. vm_compute. repeat split; reflexivity.
Qed.

(* the round trip's hypotheses are inhabited: 2024-10-27T00:30:00Z in the same zone is 02:30:00+02:00,
   the first of the two date-times that read 02:30:00 *)
Definition exg_utc : DateTime.ndt :=
  match DateTime.dt_from_timestamp 1729989000 0 with Val (Some n) => n | _ => DateTime.mk_ndt 0 (Time.mk_time 0 0) end.
Lemma exg_roundtrip :
  P4.ndt_ok exg_utc /\ wsecs exg_utc = 1729989000 /\ leap_seconds exc_zone = [] /\
  zlen (transitions exc_zone) < 4611686018427387904 /\
  last_window (offs ex_ps) (ut_offset ex_cet) = Some (1698541200, 7200, 3600) /\
  rule_hyps exc_rule 1729989000 /\
  zone_off exc_cz 1729989000 = Some 7200 /\ supported (1729989000 + 7200) = true /\
  match from_utc_datetime exc_zone exg_utc with
  | Val v => DateTime.naive_local v = Val exg_local /\
             match from_local_datetime exc_zone exg_local with
             | Val (MAmbiguous x y) => x = v /\ dz_unix y = 1729992600
             | _ => False
             end
  | _ => False
  end.
Proof.
  split.
  - split; [exists 2024, 301; vm_compute; repeat split; reflexivity|vm_compute; repeat split; discriminate].
  - split; [vm_compute; reflexivity|]. split; [reflexivity|]. split; [vm_compute; reflexivity|].
    split; [vm_compute; reflexivity|]. split.
    + split; [exact exc_alt_ok|]. vm_compute.
      repeat match goal with |- _ /\ _ => split end; try reflexivity; discriminate.
    + vm_compute. repeat match goal with |- _ /\ _ => split end; reflexivity.
Qed.
