(** The provided adaptors [Iterator::nth] / [DoubleEndedIterator::nth_back], as modelled by
    [it_nth], are repeated [next] / [next_back]: jumping over [k] available items and taking the
    next one is the step function applied to the state after [k] successful steps; a jump that runs
    into the end of the sequence returns [None] and leaves the iterator exhausted. *)
From Coq Require Import ZArith List Bool Lia ZifyBool.
From V Require Import Base.Int Base.IO Model.C03.
Open Scope Z_scope.

(** the state after [k] steps that all yielded an item *)
Fixpoint drive_some (step : Z -> R (option Z * Z)) (k : nat) (v : Z) : option Z :=
  match k with
  | O => Some v
  | S k' => match step v with
            | Val (Some _, v') => drive_some step k' v'
            | _ => None
            end
  end.

Lemma it_nth_jump step : forall k fuel v vk,
  drive_some step k v = Some vk -> (k < fuel)%nat ->
  it_nth step fuel (Z.of_nat k) v = step vk.
Proof.
  induction k as [|k IH]; intros fuel v vk Hd Hf.
  - cbn [drive_some] in Hd. inversion Hd; subst. destruct fuel as [|f]; [lia|].
    cbn [it_nth]. destruct (step vk) as [[item v']| |]; cbn [bind]; reflexivity.
  - cbn [drive_some] in Hd. destruct fuel as [|f]; [lia|]. cbn [it_nth].
    destruct (step v) as [[item v']| |] eqn:E; try discriminate.
    destruct item as [x|]; try discriminate. cbn [bind].
    replace (Z.of_nat (S k) <=? 0) with false by lia.
    replace (Z.of_nat (S k) - 1) with (Z.of_nat k) by lia.
    apply IH; [exact Hd | lia].
Qed.

(** running into the end: after [j <= k] successful steps the next step yields nothing *)
Lemma it_nth_past_end step : forall j k fuel v vj v',
  drive_some step j v = Some vj -> step vj = Val (None, v') -> (j <= k)%nat -> (j < fuel)%nat ->
  it_nth step fuel (Z.of_nat k) v = Val (None, v').
Proof.
  induction j as [|j IH]; intros k fuel v vj v' Hd Hs Hk Hf.
  - cbn [drive_some] in Hd. inversion Hd; subst. destruct fuel as [|f]; [lia|].
    cbn [it_nth]. rewrite Hs. cbn [bind]. destruct (Z.of_nat k <=? 0); reflexivity.
  - cbn [drive_some] in Hd. destruct fuel as [|f]; [lia|]. cbn [it_nth].
    destruct (step v) as [[item w]| |] eqn:E; try discriminate.
    destruct item as [x|]; try discriminate. cbn [bind].
    destruct k as [|k]; [lia|].
    replace (Z.of_nat (S k) <=? 0) with false by lia.
    replace (Z.of_nat (S k) - 1) with (Z.of_nat k) by lia.
    eapply IH; eauto; lia.
Qed.
