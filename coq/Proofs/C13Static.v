(** C13 — the general composition with hypotheses on the ITEM LIST ONLY: a decidable class of item
    lists ([static_ok2]: every numeric item either fills the reader's width or is followed by
    something that cannot start with a digit, white-space items are not followed by white space,
    fraction items are followed by neither a digit nor -- for %.f -- a dot, literals are any
    well-formed UTF-8 -- a literal that starts with a Unicode white-space character counts as white
    space for the item in front of it) whose
    documented renderings the reader takes back for EVERY value; with a sufficient field
    combination, again read off the items, parsing the formatted text of every value returns the
    value truncated to the printed fields. *)
From Coq Require Import ZArith List Bool Lia ZifyBool.
From V Require Import Base.Int Base.IntLemmas Base.IO Base.Utf8 Model.Scan Model.Items Gen.ParseTable Gen.Strftime
  Proofs.Utf8 Proofs.Scan Model.Parse Proofs.C13 Proofs.C13Reads Proofs.C13Fmt Proofs.C13Digits Proofs.C13Time
  Proofs.C13Date Proofs.C13View Proofs.C13Utf8Lit Proofs.C13DateTime Proofs.C13DateForms Proofs.C13TimeForms Proofs.C13Zoned Proofs.C13General Spec.StrftimeDoc Spec.Gregorian.
From V Require Model.Parsed Model.Format Model.Date Model.Time Model.DateTime Model.Strftime Proofs.C12 Proofs.C12View
  Proofs.C14 Proofs.C14Date Proofs.C14Iso Proofs.C08Sweeps Proofs.C08 Proofs.C08Days Proofs.DateIso.
Import ListNotations.
Open Scope Z_scope.
Ltac Zify.zify_post_hook ::= Z.to_euclidean_division_equations.
Import Model.Parsed.

(** * 1. what the rendering of an item can start with *)
(* the three paddings have the shape  spaces ++ sign ++ digits  *)
Lemma pad_num_shape p w (force : bool) x :
  exists sp ZD, pad_num p w force x = rep 32 sp ++ (if x <? 0 then [45] else if force then [43] else []) ++ ZD /\
    forallb is_ascii_digit ZD = true /\ 1 <= blen ZD /\ (p <> DSpace -> sp = 0).
Proof.
  destruct (dec_nonneg_digits (Z.abs x) (Z.abs_nonneg x)) as (Hd & Hl & _).
  set (D := dec_nonneg (Z.abs x)) in *.
  unfold pad_num. change (digits (Z.abs x)) with (dec_nonneg (Z.abs x)). fold D.
  set (sign := if x <? 0 then [45] else if force then [43] else []). destruct p.
  - exists 0, D. split; [reflexivity|]. repeat split; assumption.
  - eexists 0, (rep 48 _ ++ D). split; [reflexivity|].
    rewrite forallb_app_digits, zeros_digits, Hd, blen_app. split; [reflexivity|]. split; [|reflexivity].
    pose proof (blen_nonneg (rep 48 (if force then w - dlen D else w - dlen D - dlen sign))). lia.
  - eexists _, D. split; [reflexivity|]. split; [exact Hd|]. split; [exact Hl|]. intros Hc. contradiction.
Qed.

(* the first byte of an ASCII text (every item except a literal renders ASCII): a digit / white space /
   dot only when the flags allow it *)
Definition head_ok_ascii (e d w dot : bool) (t : bytes) : Prop :=
  match t with
  | [] => e = true
  | c :: _ => 0 <= c <= 127 /\ (is_ascii_digit c = true -> d = true) /\ (is_whitespace c = true -> w = true) /\
              (c = 46 -> dot = true)
  end.

(* the start of any text: the first byte is a digit / a dot, the first CODE POINT white space, only when
   the flags allow it *)
Definition head_ok (e d w dot : bool) (t : bytes) : Prop :=
  match t with
  | [] => e = true
  | c :: _ => (is_ascii_digit c = true -> d = true) /\ (starts_ws t = true -> w = true) /\ (c = 46 -> dot = true)
  end.
Lemma head_ok_of_ascii e d w dot t : head_ok_ascii e d w dot t -> head_ok e d w dot t.
Proof.
  destruct t as [|c r]; [intros H; exact H|]. intros (Hc & Hd & Hw & Hdt). cbn [head_ok].
  split; [exact Hd|]. split; [|exact Hdt]. rewrite starts_ws_byte by exact Hc. exact Hw.
Qed.

Lemma rep_head c k : 0 < k -> exists r, rep c k = c :: r.
Proof. intros H. replace k with (Z.succ (k - 1)) by lia. rewrite rep_succ by lia. eexists. reflexivity. Qed.

Lemma pad_num_head p w force x : head_ok_ascii false true (match p with DSpace => true | _ => false end) false (pad_num p w force x).
Proof.
  destruct (pad_num_shape p w force x) as (sp & ZD & -> & HZ & HlZ & Hsp).
  assert (Hbody : forall r, head_ok_ascii false true (match p with DSpace => true | _ => false end) false
                     ((if x <? 0 then [45] else if force then [43] else []) ++ ZD ++ r)).
  { intros r. destruct (x <? 0); [|destruct force].
    - cbn. repeat split; try lia; intros Hc; try discriminate Hc; reflexivity.
    - cbn. repeat split; try lia; intros Hc; try discriminate Hc; reflexivity.
    - cbn [app]. destruct ZD as [|c zr]; [rewrite blen_nil in HlZ; lia|]. cbn [app forallb] in *.
      apply andb_prop in HZ. destruct HZ as [Hc _]. pose proof (digit_range c Hc). unfold head_ok_ascii.
      split; [lia|]. split; [reflexivity|]. split; [unfold is_whitespace; lia|lia]. }
  destruct (Z_le_gt_dec sp 0) as [H0|H0].
  - rewrite rep_nonpos by lia. cbn [app]. specialize (Hbody []). rewrite app_nil_r in Hbody. exact Hbody.
  - destruct (rep_head 32 sp ltac:(lia)) as (r & ->). cbn [app]. unfold head_ok_ascii.
    assert (p = DSpace) by (destruct p; try reflexivity; specialize (Hsp ltac:(discriminate)); lia). subst p.
    split; [lia|]. split; [reflexivity|]. split; [reflexivity|]. intros Hc. discriminate Hc.
Qed.

(** * 2. acceptance of the documented rendering of a numeric item *)
(* the item fills the reader's width whatever the value *)
Definition num_full (f : nfield) (p : dpad) : bool :=
  match f with
  | NQuarter | NWdaySun0 | NWdayMon1 => true
  | NYear | NIsoYear | NCentury | NTimestamp => false
  | _ => match p with DZero => true | _ => false end
  end.
Definition num_static (f : nfield) : bool :=
  match f with NCentury | NTimestamp => false | _ => true end.

Lemma blen_le_width v width : 0 <= v < 10 ^ width -> 1 <= width -> blen (dec_nonneg v) <= width.
Proof.
  intros Hv Hw. destruct (dec_nonneg_digits v ltac:(lia)) as (_ & Hl & _ & Hub & Hlb).
  destruct Hlb as [H1|Hlb]; [lia|].
  destruct (Z_le_gt_dec (blen (dec_nonneg v)) width) as [H|H]; [exact H|exfalso].
  assert (10 ^ width <= 10 ^ (blen (dec_nonneg v) - 1)) by (apply Z.pow_le_mono_r; lia). lia.
Qed.

(* an unsigned field below 10^width *)
Lemma accept_unsigned spec width (signed : bool) code p w v rest :
  numeric_entry spec = Some (width, signed, code) -> 0 <= v < 10 ^ width -> 1 <= w <= width -> width <= 18 ->
  utf8_valid rest = true ->
  (not_digit_start rest = true \/ (p = DZero /\ w = width) \/ width = 1) ->
  reads_numeric spec (pad_num p w false v) rest = Some (W_code code v).
Proof.
  intros He Hv Hw Hw18 Hr Hf. pose proof (blen_le_width v width Hv ltac:(lia)) as Hb.
  destruct (dec_nonneg_digits v ltac:(lia)) as (_ & Hl & _).
  apply (pad_num_unsigned_reads spec width signed code p w v rest He); try lia; try assumption.
  - assert (10 ^ width <= 10 ^ 18) by (apply Z.pow_le_mono_r; lia). change (10 ^ 18) with 1000000000000000000 in *.
    unfold i64_max. lia.
  - destruct Hf as [Hf|[[-> ->]| ->]]; [left; exact Hf|right; lia|right; destruct p; lia].
Qed.

Lemma num_accept sv f p t rest : sv_bounds sv -> num_static f = true ->
  render_num sv f p = ROk t -> utf8_valid rest = true ->
  (num_full f p = true \/ not_digit_start rest = true) ->
  exists wr, reads_numeric (Proofs.C12.numeric_of f) t rest = Some wr.
Proof.
  intros [Bd Bt Bn Bo] Hst Hr Hv Hf. unfold render_num in Hr.
  destruct (negb (width_documented f p)); [discriminate Hr|].
  destruct (num_value sv f) as [x| |] eqn:Hnv; try discriminate Hr. apply ROk_inj in Hr. subst t.
  pose proof (numeric_table (Proofs.C12.numeric_of f)) as He.
  assert (Hyear : forall spec code y, numeric_entry spec = Some (4, true, code) -> in_i32 y = true ->
            not_digit_start rest = true ->
            exists wr, reads_numeric spec (pad_num p 4 ((y <? 0) || (9999 <? y)) y) rest = Some wr).
  { intros spec code y Hes Hy Hnd. unfold in_i32, in_range, i32_min, i32_max in Hy. eexists.
    destruct ((y <? 0) || (9999 <? y)) eqn:E.
    - apply (pad_num_signed_reads spec 4 code p 4 y rest); try assumption; [lia|unfold i64_max; lia].
    - apply (pad_num_unsigned_reads spec 4 true code p 4 y rest); try assumption; try lia.
      + unfold i64_max. lia.
      + left. exact Hnd. }
  assert (Hnd : num_full f p = false -> not_digit_start rest = true).
  { intros E. destruct Hf as [Hc|Hc]; [congruence|exact Hc]. }
  destruct f; try discriminate Hst; cbn [Proofs.C12.numeric_of numeric_table_expected num_width] in *.
  - (* Year *) date_field Hnv dn Ed. apply FV_inj in Hnv. subst x. destruct (Bd dn eq_refl) as (B1 & _).
    exact (Hyear _ _ _ He B1 (Hnd eq_refl)).
  - (* YearMod100 *) date_field Hnv dn Ed. cbv zeta in Hnv. destruct (year_of_dn dn <? 0) eqn:Hy; [discriminate Hnv|].
    apply FV_inj in Hnv. subst x.
    eexists. apply (accept_unsigned _ 2 false _ p 2 _ rest He); try (change (10 ^ 2) with 100); try lia; try assumption.
    destruct p; cbn [num_full] in *; [left; apply Hnd; reflexivity|right; left; auto|left; apply Hnd; reflexivity].
  - (* IsoYear *) date_field Hnv dn Ed. apply FV_inj in Hnv. subst x. destruct (Bd dn eq_refl) as (_ & B2 & _).
    exact (Hyear _ _ _ He B2 (Hnd eq_refl)).
  - (* IsoYearMod100 *) date_field Hnv dn Ed. cbv zeta in Hnv. destruct (fst (iso_of_dn dn) <? 0) eqn:Hy; [discriminate Hnv|].
    apply FV_inj in Hnv. subst x.
    eexists. apply (accept_unsigned _ 2 false _ p 2 _ rest He); try (change (10 ^ 2) with 100); try lia; try assumption.
    destruct p; cbn [num_full] in *; [left; apply Hnd; reflexivity|right; left; auto|left; apply Hnd; reflexivity].
  - (* Quarter *) date_field Hnv dn Ed. destruct (Bd dn eq_refl) as (_ & _ & B3 & _). unfold dn_month in B3.
    destruct (ymd_of_dn dn) as [[yy m] dd] eqn:Eymd. cbn [fst snd] in B3. apply FV_inj in Hnv. subst x.
    eexists. apply (accept_unsigned _ 1 false _ p 1 _ rest He); try lia; try assumption.
  - (* Month *) date_field Hnv dn Ed. destruct (Bd dn eq_refl) as (_ & _ & B3 & _). unfold dn_month in B3.
    destruct (ymd_of_dn dn) as [[yy m] dd] eqn:Eymd. cbn [fst snd] in B3. apply FV_inj in Hnv. subst x.
    eexists. apply (accept_unsigned _ 2 false _ p 2 _ rest He); try (change (10 ^ 2) with 100); try lia; try assumption.
    destruct p; cbn [num_full] in *; [left; apply Hnd; reflexivity|right; left; auto|left; apply Hnd; reflexivity].
  - (* Day *) date_field Hnv dn Ed. destruct (Bd dn eq_refl) as (_ & _ & _ & B4 & _). unfold dn_day in B4.
    destruct (ymd_of_dn dn) as [[yy m] dd] eqn:Eymd. cbn [fst snd] in B4. apply FV_inj in Hnv. subst x.
    eexists. apply (accept_unsigned _ 2 false _ p 2 _ rest He); try (change (10 ^ 2) with 100); try lia; try assumption.
    destruct p; cbn [num_full] in *; [left; apply Hnd; reflexivity|right; left; auto|left; apply Hnd; reflexivity].
  - (* WeekSun *) date_field Hnv dn Ed. apply FV_inj in Hnv. subst x. destruct (Bd dn eq_refl) as (_ & _ & _ & _ & B5 & _).
    pose proof (weekday_of_dn_bounds dn) as Bw.
    pose proof (weeks_bounds (ordinal_of_dn dn) ((weekday_of_dn dn + 1) mod 7) B5 ltac:(lia)) as Bs.
    eexists. apply (accept_unsigned _ 2 false _ p 2 _ rest He); try (change (10 ^ 2) with 100); try lia; try assumption.
    destruct p; cbn [num_full] in *; [left; apply Hnd; reflexivity|right; left; auto|left; apply Hnd; reflexivity].
  - (* WeekMon *) date_field Hnv dn Ed. apply FV_inj in Hnv. subst x. destruct (Bd dn eq_refl) as (_ & _ & _ & _ & B5 & _).
    pose proof (weekday_of_dn_bounds dn) as Bw.
    pose proof (weeks_bounds (ordinal_of_dn dn) (weekday_of_dn dn) B5 Bw) as Bs.
    eexists. apply (accept_unsigned _ 2 false _ p 2 _ rest He); try (change (10 ^ 2) with 100); try lia; try assumption.
    destruct p; cbn [num_full] in *; [left; apply Hnd; reflexivity|right; left; auto|left; apply Hnd; reflexivity].
  - (* IsoWeek *) date_field Hnv dn Ed. apply FV_inj in Hnv. subst x. destruct (Bd dn eq_refl) as (_ & _ & _ & _ & _ & B6).
    eexists. apply (accept_unsigned _ 2 false _ p 2 _ rest He); try (change (10 ^ 2) with 100); try lia; try assumption.
    destruct p; cbn [num_full] in *; [left; apply Hnd; reflexivity|right; left; auto|left; apply Hnd; reflexivity].
  - (* WdaySun0 *) date_field Hnv dn Ed. apply FV_inj in Hnv. subst x. pose proof (weekday_of_dn_bounds dn) as Bw.
    eexists. apply (accept_unsigned _ 1 false _ p 1 _ rest He); try lia; try assumption.
  - (* WdayMon1 *) date_field Hnv dn Ed. apply FV_inj in Hnv. subst x. pose proof (weekday_of_dn_bounds dn) as Bw.
    eexists. apply (accept_unsigned _ 1 false _ p 1 _ rest He); try lia; try assumption.
  - (* Ordinal *) date_field Hnv dn Ed. apply FV_inj in Hnv. subst x. destruct (Bd dn eq_refl) as (_ & _ & _ & _ & B5 & _).
    eexists. apply (accept_unsigned _ 3 false _ p 3 _ rest He); try (change (10 ^ 3) with 1000); try lia; try assumption.
    destruct p; cbn [num_full] in *; [left; apply Hnd; reflexivity|right; left; auto|left; apply Hnd; reflexivity].
  - (* Hour *) time_field Hnv s Es. apply FV_inj in Hnv. subst x. pose proof (Bt s eq_refl) as B7.
    eexists. apply (accept_unsigned _ 2 false _ p 2 _ rest He); try (change (10 ^ 2) with 100); try lia; try assumption.
    destruct p; cbn [num_full] in *; [left; apply Hnd; reflexivity|right; left; auto|left; apply Hnd; reflexivity].
  - (* Hour12 *) time_field Hnv s Es. cbv zeta in Hnv. apply FV_inj in Hnv. subst x. pose proof (Bt s eq_refl) as B7.
    eexists. apply (accept_unsigned _ 2 false _ p 2 _ rest He); try (change (10 ^ 2) with 100); try assumption;
      try (destruct (s / 3600 mod 12 =? 0) eqn:E; lia); try lia.
    destruct p; cbn [num_full] in *; [left; apply Hnd; reflexivity|right; left; auto|left; apply Hnd; reflexivity].
  - (* Minute *) time_field Hnv s Es. apply FV_inj in Hnv. subst x. pose proof (Bt s eq_refl) as B7.
    eexists. apply (accept_unsigned _ 2 false _ p 2 _ rest He); try (change (10 ^ 2) with 100); try lia; try assumption.
    destruct p; cbn [num_full] in *; [left; apply Hnd; reflexivity|right; left; auto|left; apply Hnd; reflexivity].
  - (* Second *) time_field Hnv s Es. apply FV_inj in Hnv. subst x. pose proof (Bt s eq_refl) as B7.
    eexists. apply (accept_unsigned _ 2 false _ p 2 _ rest He); try (change (10 ^ 2) with 100); try assumption;
      try (destruct (sv_leap sv); lia); try lia.
    destruct p; cbn [num_full] in *; [left; apply Hnd; reflexivity|right; left; auto|left; apply Hnd; reflexivity].
  - (* Nanos *) time_field Hnv s Es. apply FV_inj in Hnv. subst x.
    eexists. apply (accept_unsigned _ 9 false _ p 9 _ rest He); try (change (10 ^ 9) with 1000000000); try lia; try assumption.
    destruct p; cbn [num_full] in *; [left; apply Hnd; reflexivity|right; left; auto|left; apply Hnd; reflexivity].
Qed.

(** * 3. fixed items: shape of the rendering and acceptance *)
Definition fix_empty (f : tfield) : bool := match f with TFracAuto => true | _ => false end.
Definition fix_digit (f : tfield) : bool := match f with TFrac _ false => true | _ => false end.
Definition fix_dot (f : tfield) : bool := match f with TFracAuto | TFrac _ true => true | _ => false end.
(* what the item needs from the text that follows *)
Definition fix_need_nondigit (f : tfield) : bool := match f with TFracAuto | TFrac _ true => true | _ => false end.
Definition fix_need_nodot (f : tfield) : bool := match f with TFracAuto => true | _ => false end.

Ltac norm_goal_text :=
  match goal with |- context [reads_fixed ?sp ?t ?rest] => let t' := eval vm_compute in t in change t with t' end.

Lemma pad0_head k x : 1 <= k -> 0 <= x < 10 ^ k -> exists c r, pad_num DZero k false x = c :: r /\ is_ascii_digit c = true.
Proof.
  intros Hk Hx. destruct (pad0_digits k x Hk Hx) as (Hd & Hl & _).
  destruct (pad_num DZero k false x) as [|c r]; [rewrite blen_nil in Hl; lia|].
  exists c, r. split; [reflexivity|]. cbn [forallb] in Hd. apply andb_prop in Hd. exact (proj1 Hd).
Qed.

Lemma fix_facts sv f t : sv_bounds sv -> tfield_supported f = true -> render_fix sv f = ROk t ->
  ascii_b t /\ head_ok_ascii (fix_empty f) (fix_digit f) false (fix_dot f) t.
Proof.
  intros [Bd Bt Bn Bo] Hsup Hr. unfold render_fix in Hr.
  destruct f; try discriminate Hsup.
  - destruct (sv_dn sv) as [dn|] eqn:Ed; [|discriminate Hr]. destruct (Bd dn eq_refl) as (_ & _ & B3 & _). unfold dn_month in B3.
    destruct (ymd_of_dn dn) as [[yy m] dd] eqn:Eymd. cbn [fst snd] in B3. apply ROk_inj in Hr. subst t.
    assert (Hc : m = 1 \/ m = 2 \/ m = 3 \/ m = 4 \/ m = 5 \/ m = 6 \/ m = 7 \/ m = 8 \/ m = 9 \/ m = 10 \/ m = 11 \/ m = 12) by lia.
    destruct Hc as [->|[->|[->|[->|[->|[->|[->|[->|[->|[->|[->| ->]]]]]]]]]]]; vm_compute;
      (split; [repeat constructor; discriminate|repeat split; try discriminate; intros Hc; discriminate Hc]).
  - destruct (sv_dn sv) as [dn|] eqn:Ed; [|discriminate Hr]. destruct (Bd dn eq_refl) as (_ & _ & B3 & _). unfold dn_month in B3.
    destruct (ymd_of_dn dn) as [[yy m] dd] eqn:Eymd. cbn [fst snd] in B3. apply ROk_inj in Hr. subst t.
    assert (Hc : m = 1 \/ m = 2 \/ m = 3 \/ m = 4 \/ m = 5 \/ m = 6 \/ m = 7 \/ m = 8 \/ m = 9 \/ m = 10 \/ m = 11 \/ m = 12) by lia.
    destruct Hc as [->|[->|[->|[->|[->|[->|[->|[->|[->|[->|[->| ->]]]]]]]]]]]; vm_compute;
      (split; [repeat constructor; discriminate|repeat split; try discriminate; intros Hc; discriminate Hc]).
  - destruct (sv_dn sv) as [dn|] eqn:Ed; [|discriminate Hr]. pose proof (weekday_of_dn_bounds dn) as Bw.
    apply ROk_inj in Hr. subst t. set (wd := weekday_of_dn dn) in *.
    assert (Hc : wd = 0 \/ wd = 1 \/ wd = 2 \/ wd = 3 \/ wd = 4 \/ wd = 5 \/ wd = 6) by lia. clearbody wd.
    destruct Hc as [->|[->|[->|[->|[->|[->| ->]]]]]]; vm_compute;
      (split; [repeat constructor; discriminate|repeat split; try discriminate; intros Hc; discriminate Hc]).
  - destruct (sv_dn sv) as [dn|] eqn:Ed; [|discriminate Hr]. pose proof (weekday_of_dn_bounds dn) as Bw.
    apply ROk_inj in Hr. subst t. set (wd := weekday_of_dn dn) in *.
    assert (Hc : wd = 0 \/ wd = 1 \/ wd = 2 \/ wd = 3 \/ wd = 4 \/ wd = 5 \/ wd = 6) by lia. clearbody wd.
    destruct Hc as [->|[->|[->|[->|[->|[->| ->]]]]]]; vm_compute;
      (split; [repeat constructor; discriminate|repeat split; try discriminate; intros Hc; discriminate Hc]).
  - destruct (sv_sod sv) as [s|] eqn:Es; [|discriminate Hr]. apply ROk_inj in Hr. subst t.
    destruct (s <? 43200); vm_compute;
      (split; [repeat constructor; discriminate|repeat split; try discriminate; intros Hc; discriminate Hc]).
  - destruct (sv_sod sv) as [s|] eqn:Es; [|discriminate Hr]. apply ROk_inj in Hr. subst t.
    destruct (s <? 43200); vm_compute;
      (split; [repeat constructor; discriminate|repeat split; try discriminate; intros Hc; discriminate Hc]).
  - (* FracAuto *)
    destruct (sv_sod sv) as [s|] eqn:Es; [|discriminate Hr]. apply ROk_inj in Hr. subst t. set (n := sv_nano sv) in *.
    assert (Hdot : forall k, ascii_b (46 :: frac_digits n k) /\ head_ok_ascii true false false true (46 :: frac_digits n k)).
    { intros k. split.
      - constructor; [lia|]. rewrite frac_digits_pad. apply pad_num_ascii.
      - cbn. repeat split; try lia; intros Hc; try discriminate Hc; reflexivity. }
    destruct (n =? 0); [split; [constructor|reflexivity]|].
    destruct (n mod 1000000 =? 0); [apply Hdot|]. destruct (n mod 1000 =? 0); apply Hdot.
  - (* Frac k dot *)
    destruct (sv_sod sv) as [s|] eqn:Es; [|discriminate Hr]. apply ROk_inj in Hr. subst t. set (n := sv_nano sv) in *.
    cbn [tfield_supported] in Hsup. assert (Hk : digits = 3 \/ digits = 6 \/ digits = 9) by lia.
    destruct dot; cbn [app fix_empty fix_digit fix_dot].
    + split.
      * constructor; [lia|]. rewrite frac_digits_pad. apply pad_num_ascii.
      * cbn. repeat split; try lia; intros Hc; try discriminate Hc; reflexivity.
    + rewrite frac_digits_pad. split; [apply pad_num_ascii|].
      destruct (pad0_head digits (n / 10 ^ (9 - digits)) ltac:(lia) (frac_x_bounds n digits Bn ltac:(lia))) as (c & r & -> & Hc).
      pose proof (digit_range c Hc). cbn. split; [lia|]. split; [reflexivity|]. split; [unfold is_whitespace; lia|lia].
  - (* Off *)
    destruct (sv_off sv) as [o|] eqn:Eo; [|discriminate Hr]. apply ROk_inj in Hr. subst t.
    rewrite Proofs.C12.offset_text_unfold. cbv zeta. cbn [Z.eqb app]. unfold Proofs.C12.off_sign. split.
    + constructor; [destruct (o <? 0); lia|]. apply ascii_app; apply pad_num_ascii.
    + cbn [head_ok_ascii]. destruct (o <? 0); (split; [lia|]); repeat split; intros Hc; try discriminate Hc.
  - (* OffColon *)
    destruct (sv_off sv) as [o|] eqn:Eo; [|discriminate Hr]. apply ROk_inj in Hr. subst t.
    rewrite Proofs.C12.offset_text_unfold. cbv zeta. cbn [Z.eqb app]. unfold Proofs.C12.off_sign. split.
    + constructor; [destruct (o <? 0); lia|]. apply ascii_app; [apply pad_num_ascii|]. constructor; [lia|apply pad_num_ascii].
    + cbn [head_ok_ascii]. destruct (o <? 0); (split; [lia|]); repeat split; intros Hc; try discriminate Hc.
Qed.

Lemma fix_accept sv f t rest : sv_bounds sv -> (forall o, sv_off sv = Some o -> o mod 60 = 0) ->
  tfield_supported f = true -> render_fix sv f = ROk t ->
  utf8_valid rest = true ->
  (fix_need_nondigit f = true -> not_digit_start rest = true) ->
  (fix_need_nodot f = true -> starts_with_byte rest 46 = false) ->
  exists wr, reads_fixed (Proofs.C12.fixed_of f) t rest = Some wr.
Proof.
  intros [Bd Bt Bn Bo] Hmin Hsup Hr Hv Hnd Hdot. pose proof (utf8_valid_starts_ok rest Hv) as Hso. unfold render_fix in Hr.
  destruct f; try discriminate Hsup; cbn [Proofs.C12.fixed_of].
  - destruct (sv_dn sv) as [dn|] eqn:Ed; [|discriminate Hr]. destruct (Bd dn eq_refl) as (_ & _ & B3 & _). unfold dn_month in B3.
    destruct (ymd_of_dn dn) as [[yy m] dd] eqn:Eymd. cbn [fst snd] in B3. apply ROk_inj in Hr. subst t.
    assert (Hc : m = 1 \/ m = 2 \/ m = 3 \/ m = 4 \/ m = 5 \/ m = 6 \/ m = 7 \/ m = 8 \/ m = 9 \/ m = 10 \/ m = 11 \/ m = 12) by lia.
    destruct Hc as [->|[->|[->|[->|[->|[->|[->|[->|[->|[->|[->| ->]]]]]]]]]]]; eexists; norm_goal_text; cbn; rewrite Hso; reflexivity.
  - destruct (sv_dn sv) as [dn|] eqn:Ed; [|discriminate Hr]. destruct (Bd dn eq_refl) as (_ & _ & B3 & _). unfold dn_month in B3.
    destruct (ymd_of_dn dn) as [[yy m] dd] eqn:Eymd. cbn [fst snd] in B3. apply ROk_inj in Hr. subst t.
    assert (Hc : m = 1 \/ m = 2 \/ m = 3 \/ m = 4 \/ m = 5 \/ m = 6 \/ m = 7 \/ m = 8 \/ m = 9 \/ m = 10 \/ m = 11 \/ m = 12) by lia.
    destruct Hc as [->|[->|[->|[->|[->|[->|[->|[->|[->|[->|[->| ->]]]]]]]]]]]; eexists; norm_goal_text; cbn; rewrite ?Hso; reflexivity.
  - destruct (sv_dn sv) as [dn|] eqn:Ed; [|discriminate Hr]. pose proof (weekday_of_dn_bounds dn) as Bw.
    apply ROk_inj in Hr. subst t. set (wd := weekday_of_dn dn) in *.
    assert (Hc : wd = 0 \/ wd = 1 \/ wd = 2 \/ wd = 3 \/ wd = 4 \/ wd = 5 \/ wd = 6) by lia. clearbody wd.
    destruct Hc as [->|[->|[->|[->|[->|[->| ->]]]]]]; eexists; norm_goal_text; cbn; rewrite Hso; reflexivity.
  - destruct (sv_dn sv) as [dn|] eqn:Ed; [|discriminate Hr]. pose proof (weekday_of_dn_bounds dn) as Bw.
    apply ROk_inj in Hr. subst t. set (wd := weekday_of_dn dn) in *.
    assert (Hc : wd = 0 \/ wd = 1 \/ wd = 2 \/ wd = 3 \/ wd = 4 \/ wd = 5 \/ wd = 6) by lia. clearbody wd.
    destruct Hc as [->|[->|[->|[->|[->|[->| ->]]]]]]; eexists; norm_goal_text; cbn; rewrite ?Hso; reflexivity.
  - destruct (sv_sod sv) as [s|] eqn:Es; [|discriminate Hr]. apply ROk_inj in Hr. subst t.
    destruct (s <? 43200); eexists; cbn; rewrite Hso; reflexivity.
  - destruct (sv_sod sv) as [s|] eqn:Es; [|discriminate Hr]. apply ROk_inj in Hr. subst t.
    destruct (s <? 43200); eexists; cbn; rewrite Hso; reflexivity.
  - (* FracAuto *)
    destruct (sv_sod sv) as [s|] eqn:Es; [|discriminate Hr]. apply ROk_inj in Hr. subst t. set (n := sv_nano sv) in *.
    specialize (Hnd eq_refl). specialize (Hdot eq_refl).
    assert (Hgo : forall k, 1 <= k <= 9 -> exists wr, reads_fixed F_Nanosecond (46 :: frac_digits n k) rest = Some wr).
    { intros k Hk. rewrite frac_digits_pad.
      destruct (pad0_digits k _ ltac:(lia) (frac_x_bounds n k Bn ltac:(lia))) as (Hd & Hl & _).
      eexists. cbn [reads_fixed]. unfold all_dig. rewrite Hd, Hl, Hnd, Hv. replace (1 <=? k) with true by lia. reflexivity. }
    destruct (n =? 0); [eexists; cbn [reads_fixed]; rewrite Hdot; reflexivity|].
    destruct (n mod 1000000 =? 0); [apply Hgo; lia|]. destruct (n mod 1000 =? 0); apply Hgo; lia.
  - (* Frac k dot *)
    destruct (sv_sod sv) as [s|] eqn:Es; [|discriminate Hr]. apply ROk_inj in Hr. subst t. set (n := sv_nano sv) in *.
    cbn [tfield_supported] in Hsup. assert (Hk : digits = 3 \/ digits = 6 \/ digits = 9) by lia.
    pose proof (frac_x_bounds n digits Bn ltac:(lia)) as Hx.
    destruct (pad0_digits digits _ ltac:(lia) Hx) as (Hd & Hl & Hval).
    destruct dot; cbn [app]; rewrite frac_digits_pad.
    + specialize (Hnd eq_refl).
      destruct Hk as [->|[->| ->]]; eexists; cbn [Z.eqb Pos.eqb reads_fixed]; unfold all_dig; rewrite Hd, Hl, Hnd, Hv; reflexivity.
    + destruct Hk as [->|[->| ->]]; eexists; cbn [Z.eqb Pos.eqb reads_fixed fixed_idx internal_idx zassoc P_NODOT];
        unfold all_dig; rewrite Hd, Hl, Hv; reflexivity.
  - destruct (sv_off sv) as [o|] eqn:Eo; [|discriminate Hr]. apply ROk_inj in Hr. subst t.
    change F_TimezoneOffset with (off_item false). rewrite (offset_reads_eq false o rest (Bo o eq_refl) (Hmin o eq_refl)), Hv.
    eexists. reflexivity.
  - destruct (sv_off sv) as [o|] eqn:Eo; [|discriminate Hr]. apply ROk_inj in Hr. subst t.
    change F_TimezoneOffsetColon with (off_item true). rewrite (offset_reads_eq true o rest (Bo o eq_refl) (Hmin o eq_refl)), Hv.
    eexists. reflexivity.
Qed.

(** * 4. the static class of item lists and acceptance for every value *)
Definition ascii_bb (l : bytes) : bool := forallb (fun c => (0 <=? c) && (c <=? 127)) l.
Lemma ascii_bb_sound l : ascii_bb l = true -> ascii_b l.
Proof.
  induction l as [|c r IH]; intros H; constructor; cbn [ascii_bb forallb] in H; apply andb_prop in H; destruct H as [Hc Hr].
  - lia.
  - exact (IH Hr).
Qed.

Definition it_empty (it : Item) : bool :=
  match it with
  | Literal [] | Space [] => true
  | IFixed spec => match tfield_of spec with Some f => fix_empty f | None => false end
  | _ => false
  end.
Definition it_digit (it : Item) : bool :=
  match it with
  | Literal (c :: _) => is_ascii_digit c
  | INumeric _ _ => true
  | IFixed spec => match tfield_of spec with Some f => fix_digit f | None => false end
  | _ => false
  end.
Definition it_ws (it : Item) : bool :=
  match it with
  | Literal l => starts_ws l          (* the first code point; = is_whitespace c for an ASCII first byte c *)
  | Space (_ :: _) => true
  | INumeric _ PadSpace => true
  | _ => false
  end.
Definition it_dot (it : Item) : bool :=
  match it with
  | Literal (c :: _) => c =? 46
  | IFixed spec => match tfield_of spec with Some f => fix_dot f | None => false end
  | _ => false
  end.
(* can the text of these items (for some value) start with a byte of the class? *)
Fixpoint may (flag : Item -> bool) (items : list Item) : bool :=
  match items with
  | [] => false
  | it :: r => flag it || (it_empty it && may flag r)
  end.

(* a white-space item takes the space padding of a number that follows it ([absorb]); two white-space
   items in a row are outside the class *)
Definition next_padspace (r : list Item) : bool := match r with INumeric _ PadSpace :: _ => true | _ => false end.
Definition next_not_space (r : list Item) : bool := match r with Space _ :: _ => false | _ => true end.
Definition it_static (it : Item) (r : list Item) : bool :=
  match it with
  | Literal l => utf8_valid l
  | Space s => forallb ws_byte s && next_not_space r && (negb (may it_ws r) || next_padspace r)
  | INumeric spec pad =>
      match nfield_of spec with
      | Some f => num_static f && (num_full f (dpad_of pad) || negb (may it_digit r))
      | None => false
      end
  | IFixed spec =>
      match tfield_of spec with
      | Some f => (negb (fix_need_nondigit f) || negb (may it_digit r)) && (negb (fix_need_nodot f) || negb (may it_dot r))
      | None => false
      end
  | IError => false
  end.
Fixpoint static_ok2 (items : list Item) : bool :=
  match items with
  | [] => true
  | it :: r => it_static it r && static_ok2 r
  end.
(* the two-digit years %y %g are printed for years >= 0 only and are sufficient alone only in the pivot
   window: [static_ok] is the class without them, [static_ok2] the class with them *)
Definition uses_y2 (it : Item) : bool := match it with INumeric N_YearMod100 _ => true | _ => false end.
Definition uses_g2 (it : Item) : bool := match it with INumeric N_IsoYearMod100 _ => true | _ => false end.
Definition static_ok (items : list Item) : bool :=
  static_ok2 items && negb (existsb uses_y2 items) && negb (existsb uses_g2 items).

Lemma tfield_of_supported spec f : tfield_of spec = Some f -> tfield_supported f = true /\ Proofs.C12.fixed_of f = spec.
Proof.
  intros Ef. destruct spec as [ | | | | | | | | | | | | | | | | | | | i]; try discriminate Ef;
    try (apply Some_inj in Ef; subst f; split; reflexivity).
  destruct i; try discriminate Ef; apply Some_inj in Ef; subst f; split; reflexivity.
Qed.
Lemma nfield_of_numeric spec f : nfield_of spec = Some f -> Proofs.C12.numeric_of f = spec.
Proof. intros Ef. destruct spec; try discriminate Ef; apply Some_inj in Ef; subst f; reflexivity. Qed.

Lemma ws_byte_facts c : ws_byte c = true -> 0 <= c <= 127 /\ is_whitespace c = true /\ is_ascii_digit c = false /\ c <> 46.
Proof.
  unfold ws_byte. intros H. apply andb_prop in H. destruct H as [H Hw]. apply andb_prop in H. destruct H as [H1 H2].
  split; [lia|]. split; [exact Hw|]. unfold is_whitespace, is_ascii_digit in *. lia.
Qed.

Lemma ascii_valid0 l : ascii_b l -> utf8_valid l = true.
Proof. intros H. rewrite <- (app_nil_r l). rewrite utf8_valid_app_ascii by exact H. reflexivity. Qed.

(* the start of the documented rendering of an item of the class *)
Lemma item_head sv it r t : sv_bounds sv -> it_static it r = true -> doc_render sv it = Some t ->
  utf8_valid t = true /\ head_ok (it_empty it) (it_digit it) (it_ws it) (it_dot it) t.
Proof.
  intros Bsv Hs Hd. destruct it as [l|l|spec pad|spec|]; cbn [it_static doc_render] in *.
  - apply Some_inj in Hd. subst t. split; [exact Hs|].
    destruct l as [|c l']; [reflexivity|].
    cbn [head_ok it_digit it_ws it_dot]. split; [auto|]. split; [auto|]. intros ->. reflexivity.
  - apply Some_inj in Hd. subst t. apply andb_prop in Hs. destruct Hs as [Hs _]. apply andb_prop in Hs. destruct Hs as [Hw _].
    split.
    + apply ascii_valid0. pose proof (forallb_ws_byte l Hw) as H. unfold ascii_ws in H. clear - H.
      induction H as [|c r [Hc _] _ IH]; constructor; assumption.
    + apply head_ok_of_ascii.
      destruct l as [|c l']; [reflexivity|]. cbn [forallb] in Hw. apply andb_prop in Hw. destruct Hw as [Hc _].
      destruct (ws_byte_facts c Hc) as (A1 & A2 & A3 & A4). cbn [head_ok_ascii it_digit it_ws it_dot].
      split; [exact A1|]. split; [intros Hx; congruence|]. split; [auto|]. intros Hx. contradiction.
  - destruct (nfield_of spec) as [f|] eqn:Ef; [|discriminate Hd].
    destruct (render_num sv f (dpad_of pad)) as [s| |] eqn:Er; try discriminate Hd. apply Some_inj in Hd. subst s.
    unfold render_num in Er. destruct (negb (width_documented f (dpad_of pad))); [discriminate Er|].
    destruct (num_value sv f) as [x| |]; try discriminate Er. apply ROk_inj in Er. subst t.
    split; [apply ascii_valid0; apply pad_num_ascii|]. apply head_ok_of_ascii.
    pose proof (pad_num_head (dpad_of pad) (num_width f)
                 (match f with NYear | NIsoYear => (x <? 0) || (9999 <? x) | _ => false end) x) as H.
    cbn [it_empty it_digit it_dot]. destruct pad; exact H.
  - destruct (tfield_of spec) as [f|] eqn:Ef; [|discriminate Hd].
    destruct (render_fix sv f) as [s| |] eqn:Er; try discriminate Hd. apply Some_inj in Hd. subst s.
    destruct (tfield_of_supported spec f Ef) as [Hsup _].
    destruct (fix_facts sv f t Bsv Hsup Er) as [Ha Hh]. split; [exact (ascii_valid0 t Ha)|]. apply head_ok_of_ascii.
    cbn [it_empty it_digit it_ws it_dot]. rewrite Ef. exact Hh.
  - discriminate Hd.
Qed.

Lemma starts_ws_ascii c r : 0 <= c <= 127 -> starts_ws (c :: r) = is_whitespace c.
Proof. intros H. unfold starts_ws. rewrite next_code_point_ascii by lia. reflexivity. Qed.

(** the class with ASCII literals only (its definition before literals were generalised: the white-space
    flag of a literal read off its first BYTE) is contained in the class: the generalisation only adds
    members *)
Definition it_ws_ascii (it : Item) : bool :=
  match it with
  | Literal (c :: _) => is_whitespace c
  | Space (_ :: _) => true
  | INumeric _ PadSpace => true
  | _ => false
  end.
Definition it_static_ascii (it : Item) (r : list Item) : bool :=
  match it with
  | Literal l => ascii_bb l
  | Space s => forallb ws_byte s && next_not_space r && (negb (may it_ws_ascii r) || next_padspace r)
  | _ => it_static it r
  end.
Fixpoint static_ok2_ascii (items : list Item) : bool :=
  match items with
  | [] => true
  | it :: r => it_static_ascii it r && static_ok2_ascii r
  end.
Lemma may_ws_ascii items : static_ok2_ascii items = true -> may it_ws items = may it_ws_ascii items.
Proof.
  induction items as [|it r IH]; [reflexivity|]. cbn [static_ok2_ascii may]. intros H.
  apply andb_prop in H. destruct H as [Hit Hr]. rewrite (IH Hr). f_equal.
  destruct it as [l| | | |]; try reflexivity. cbn [it_static_ascii] in Hit. destruct l as [|c l']; [reflexivity|].
  cbn [it_ws it_ws_ascii]. cbn [ascii_bb forallb] in Hit. apply andb_prop in Hit. destruct Hit as [Hc _].
  apply starts_ws_ascii. lia.
Qed.
Theorem static_class_grows items : static_ok2_ascii items = true -> static_ok2 items = true.
Proof.
  induction items as [|it r IH]; [reflexivity|]. cbn [static_ok2_ascii static_ok2]. intros H.
  apply andb_prop in H. destruct H as [Hit Hr]. rewrite (IH Hr), andb_true_r.
  destruct it as [l|s| | |]; cbn [it_static_ascii it_static] in *; try exact Hit.
  - exact (ascii_valid0 l (ascii_bb_sound l Hit)).
  - rewrite (may_ws_ascii r Hr). exact Hit.
Qed.

(* what the text of a list of the class can start with *)
Lemma may_sound sv on : sv_bounds sv -> forall items texts, static_ok2 items = true ->
  Forall2 (doc_item sv on) items texts ->
  utf8_valid (concat texts) = true /\
  (may it_digit items = false -> not_digit_start (concat texts) = true) /\
  (may it_ws items = false -> starts_ws (concat texts) = false) /\
  (may it_dot items = false -> starts_with_byte (concat texts) 46 = false).
Proof.
  intros Bsv. induction items as [|it r IH]; intros texts Hs HF; inversion HF as [|? t ? ts [Hd _] Hr]; subst.
  - cbn. repeat split; constructor.
  - cbn [static_ok2] in Hs. apply andb_prop in Hs. destruct Hs as [Hit Hsr].
    destruct (IH ts Hsr Hr) as (A0 & A1 & A2 & A3).
    destruct (item_head sv it r t Bsv Hit Hd) as [Ha Hh].
    cbn [concat may]. split; [apply utf8_valid_app2; assumption|].
    destruct t as [|c t'].
    + cbn [head_ok] in Hh. rewrite Hh. cbn [app andb].
      repeat split; intros Hm; apply orb_false_elim in Hm; destruct Hm as [_ Hm]; auto.
    + cbn [head_ok] in Hh. destruct Hh as (Hdg & Hw & Hdt).
      repeat split; intros Hm; apply orb_false_elim in Hm; destruct Hm as [Hm _].
      * cbn [app not_digit_start]. destruct (is_ascii_digit c) eqn:E; [specialize (Hdg eq_refl); congruence|reflexivity].
      * rewrite starts_ws_app by (try exact Ha; discriminate).
        destruct (starts_ws (c :: t')) eqn:E; [specialize (Hw eq_refl); congruence|reflexivity].
      * cbn [app starts_with_byte]. destruct (Z.eqb_spec c 46) as [E|E]; [specialize (Hdt E); congruence|reflexivity].
Qed.

Lemma ascii_valid l : ascii_b l -> utf8_valid l = true.
Proof. exact (ascii_valid0 l). Qed.
Lemma bytes_eqb_refl l : bytes_eqb l l = true.
Proof. induction l as [|c r IH]; [reflexivity|]. cbn [bytes_eqb]. rewrite Z.eqb_refl, IH. reflexivity. Qed.

(** * 5. which fields the recognised writes set: read off the items *)
Definition wfields (w : write) : list field :=
  match w with
  | W_none => []
  | W_code c _ =>
      match simple_code c with
      | Some (f, _, _) => [f]
      | None =>
          if c =? 16 then [F_hour_div_12; F_hour_mod_12]
          else if c =? 15 then [F_hour_mod_12]
          else if c =? 20 then [F_timestamp]
          else if c =? 101 then [F_weekday]
          else if c =? 100 then [F_weekday]
          else []
      end
  | W_weekday _ => [F_weekday]
  | W_ampm _ => [F_hour_div_12]
  end.
Definition field_eqb (f g : field) : bool := field_index f =? field_index g.
Definition fmem (f : field) (l : list field) : bool := existsb (field_eqb f) l.

Lemma field_eqb_refl f : field_eqb f f = true.
Proof. unfold field_eqb. apply Z.eqb_refl. Qed.
Lemma field_eqb_neq f g : f <> g -> field_eqb f g = false.
Proof. intros H. destruct f, g; try reflexivity; congruence. Qed.

Lemma presence_pput f g v p : some_b (pget f (pput g (Some v) p)) = field_eqb f g || some_b (pget f p).
Proof.
  destruct (Proofs.C14.field_eq_dec g f) as [->|Hne].
  - rewrite Proofs.C14.pget_pput_same, field_eqb_refl. reflexivity.
  - rewrite Proofs.C14.pget_pput_other by exact Hne. rewrite field_eqb_neq by congruence. reflexivity.
Qed.
Lemma presence_w f w p : some_b (pget f (apply_w w p)) = fmem f (wfields w) || some_b (pget f p).
Proof.
  destruct w as [|c v|wd|v]; cbn [apply_w wfields].
  - reflexivity.
  - destruct (simple_code c) as [[[g lo] hi]|].
    + rewrite presence_pput. cbn [fmem existsb]. rewrite orb_false_r. reflexivity.
    + destruct (c =? 16); [rewrite !presence_pput; cbn [fmem existsb]; rewrite orb_false_r;
                            destruct (field_eqb f F_hour_div_12), (field_eqb f F_hour_mod_12); reflexivity|].
      destruct (c =? 15); [rewrite presence_pput; cbn [fmem existsb]; rewrite orb_false_r; reflexivity|].
      destruct (c =? 20); [rewrite presence_pput; cbn [fmem existsb]; rewrite orb_false_r; reflexivity|].
      destruct (c =? 101); [rewrite presence_pput; cbn [fmem existsb]; rewrite orb_false_r; reflexivity|].
      destruct (c =? 100); [rewrite presence_pput; cbn [fmem existsb]; rewrite orb_false_r; reflexivity|].
      reflexivity.
  - rewrite presence_pput. cbn [fmem existsb]. rewrite orb_false_r. reflexivity.
  - rewrite presence_pput. cbn [fmem existsb]. rewrite orb_false_r. reflexivity.
Qed.
Lemma fmem_app f a b : fmem f (a ++ b) = fmem f a || fmem f b.
Proof. unfold fmem. apply existsb_app. Qed.
Lemma presence_ws f : forall ws p, some_b (pget f (apply_ws ws p)) = fmem f (concat (map wfields ws)) || some_b (pget f p).
Proof.
  induction ws as [|w r IH]; intros p; [reflexivity|].
  change (apply_ws (w :: r) p) with (apply_ws r (apply_w w p)). rewrite IH, presence_w.
  cbn [map concat]. rewrite fmem_app. destruct (fmem f (wfields w)), (fmem f (concat (map wfields r))), (some_b (pget f p)); reflexivity.
Qed.

(* the fields an item writes, from the reader's tables *)
Definition fixed_fields (spec : Fixed) : list field :=
  match spec with
  | F_ShortMonthName | F_LongMonthName => [F_month]
  | F_ShortWeekdayName | F_LongWeekdayName => [F_weekday]
  | F_LowerAmPm | F_UpperAmPm => [F_hour_div_12]
  | F_Nanosecond | F_Nanosecond3 | F_Nanosecond6 | F_Nanosecond9 => [F_nanosecond]
  | F_Internal I_Nanosecond3NoDot | F_Internal I_Nanosecond6NoDot | F_Internal I_Nanosecond9NoDot => [F_nanosecond]
  | F_TimezoneOffsetColon | F_TimezoneOffsetDoubleColon | F_TimezoneOffsetTripleColon
  | F_TimezoneOffset | F_TimezoneOffsetColonZ | F_TimezoneOffsetZ
  | F_Internal I_TimezoneOffsetPermissive => [F_offset]
  | _ => []
  end.
Definition ifields (it : Item) : list field :=
  match it with
  | INumeric spec _ => match numeric_entry spec with Some (_, _, code) => wfields (W_code code 0) | None => [] end
  | IFixed spec => fixed_fields spec
  | _ => []
  end.
(* the write sets exactly the item's fields, or -- a fraction item on an empty text -- none *)
Definition shape_rel (it : Item) (w : write) : Prop :=
  wfields w = ifields it \/ (wfields w = [] /\ ifields it = [F_nanosecond]).

(* ... and none only on an empty text *)
Lemma reads_shape it t rest w : reads_b it t rest = Some w ->
  wfields w = ifields it \/ (t = [] /\ wfields w = [] /\ ifields it = [F_nanosecond]).
Proof.
  intros H. destruct it as [l|l|spec pad|spec|]; cbn [reads_b ifields] in *.
  - revert H. destruct (_ && _); intros H; [|discriminate H]. apply Some_inj in H. subst w. left. reflexivity.
  - revert H. destruct (_ && _); intros H; [|discriminate H]. apply Some_inj in H. subst w. left. reflexivity.
  - cbn [ifields]. unfold reads_numeric in H. destruct (split_ws t) as [pd body].
    destruct (numeric_entry spec) as [[[width signed] code]|]; [|discriminate H].
    destruct body as [|c ds]; [discriminate H|].
    destruct (c =? 45); [|destruct (c =? 43)].
    + destruct signed; [|discriminate H]. unfold reads_sign in H. revert H.
      destruct (_ && _ && _ && _ && _ && _); intros H; [|discriminate H]. apply Some_inj in H. subst w. left. reflexivity.
    + destruct signed; [|discriminate H]. unfold reads_sign in H. revert H.
      destruct (_ && _ && _ && _ && _ && _); intros H; [|discriminate H]. apply Some_inj in H. subst w. left. reflexivity.
    + unfold reads_nosign in H. revert H.
      destruct (_ && _ && _ && _ && _ && _); intros H; [|discriminate H]. apply Some_inj in H. subst w. left. reflexivity.
  - assert (Hname : forall arms bit sfxs (mk : Z -> write) fs, (forall v, wfields (mk v) = fs) ->
              reads_name arms bit sfxs mk t rest = Some w -> wfields w = fs).
    { intros arms bit sfxs mk fs Hmk Hn. unfold reads_name in Hn.
      destruct t as [|a [|b [|c sfx]]]; try discriminate Hn.
      destruct (assoc_bytes _ arms) as [v|]; [|discriminate Hn].
      destruct (starts_ok rest); [|discriminate Hn].
      destruct sfxs as [lst|].
      - destruct (index lst (as_usize v)) as [suffix| |]; try discriminate Hn.
        revert Hn. destruct (_ && _ && _); intros Hn; [|discriminate Hn]. apply Some_inj in Hn. subst w. apply Hmk.
      - destruct sfx; [|discriminate Hn]. apply Some_inj in Hn. subst w. apply Hmk. }
    assert (Hampm : match t with
                    | [a; b] => match assoc_bytes (key_of [a; b] P_AMPM_BIT) P_AMPM_ARMS with
                                | Some v => if starts_ok rest then Some (W_ampm v) else None | None => None end
                    | _ => None end = Some w -> wfields w = [F_hour_div_12]).
    { intros Hn. destruct t as [|a [|b [|c t']]]; try discriminate Hn.
      destruct (assoc_bytes _ P_AMPM_ARMS) as [v|]; [|discriminate Hn].
      destruct (starts_ok rest); [|discriminate Hn]. apply Some_inj in Hn. subst w. reflexivity. }
    assert (Hdot : match t with
                   | [] => if starts_with_byte rest 46 then None else Some W_none
                   | c :: ds => if (c =? 46) && all_dig ds && (1 <=? blen ds) && not_digit_start rest && utf8_valid rest
                                then Some (W_code 19 (nano_value ds)) else None
                   end = Some w -> wfields w = [F_nanosecond] \/ (t = [] /\ wfields w = [])).
    { intros Hn. destruct t as [|c ds].
      - destruct (starts_with_byte rest 46); [discriminate Hn|]. apply Some_inj in Hn. subst w. right. split; reflexivity.
      - revert Hn. destruct (_ && _ && _ && _ && _); intros Hn; [|discriminate Hn]. apply Some_inj in Hn. subst w. left. reflexivity. }
    assert (Hnodot : forall idx, match zassoc idx P_NODOT with
                     | Some (minlen, d) =>
                         if (blen t =? d) && (minlen <=? d) && (1 <=? d) && (d <=? 9) && all_dig t && utf8_valid rest then
                           match index ScanTables.SCALE_FIXED d with Val sc => Some (W_code 19 (digits_value t 0 * sc)) | _ => None end
                         else None
                     | None => None end = Some w -> wfields w = [F_nanosecond]).
    { intros idx Hn. destruct (zassoc idx P_NODOT) as [[minlen d]|]; [|discriminate Hn].
      revert Hn. destruct (_ && _ && _ && _ && _ && _); intros Hn; [|discriminate Hn].
      destruct (index _ d) as [sc| |]; try discriminate Hn. apply Some_inj in Hn. subst w. reflexivity. }
    assert (Hoff : forall idx, match zassoc idx P_TZ_FLAGS with Some flags => reads_offset flags t rest | None => None end = Some w ->
                     wfields w = [F_offset]).
    { intros idx Hn. destruct (zassoc idx P_TZ_FLAGS) as [flags|]; [|discriminate Hn]. unfold reads_offset in Hn.
      destruct t as [|sg [|h1 [|h2 [|x1 [|x2 [|x3 [|x4 t']]]]]]]; try discriminate Hn.
      - revert Hn. destruct (_ && _ && _ && _ && _ && _ && _); intros Hn; [|discriminate Hn]. apply Some_inj in Hn. subst w. reflexivity.
      - destruct (x1 =? 58); [|discriminate Hn].
        revert Hn. destruct (_ && _ && _ && _ && _ && _ && _); intros Hn; [|discriminate Hn]. apply Some_inj in Hn. subst w. reflexivity. }
    destruct spec as [ | | | | | | | | | | | | | | | | | | | i]; cbn [reads_fixed ifields fixed_fields] in *; try discriminate H;
      try (left; eapply Hname; [|exact H]; intros; reflexivity);
      try (left; exact (Hampm H); fail);
      try (destruct (Hdot H) as [E|[E0 E]]; [left; exact E|right; split; [exact E0|split; [exact E|reflexivity]]]; fail);
      try (match type of H with match zassoc ?i _ with _ => _ end = _ => left; exact (Hoff i H) end).
    destruct i; cbn [reads_fixed ifields fixed_fields] in *;
      try (match type of H with match zassoc ?i P_TZ_FLAGS with _ => _ end = _ => left; exact (Hoff i H) end);
      match type of H with match zassoc ?i _ with _ => _ end = _ => left; exact (Hnodot i H) end.
  - discriminate H.
Qed.

Definition sfields (items : list Item) : list field := concat (map ifields items).

Lemma ws_shape : forall l tail ws, unambiguous_b l tail = Some ws ->
  forall f, (f <> F_nanosecond -> fmem f (concat (map wfields ws)) = fmem f (sfields (map fst l))) /\
            (fmem f (concat (map wfields ws)) = true -> fmem f (sfields (map fst l)) = true).
Proof.
  induction l as [|[it t] r IH]; intros tail ws H f.
  - cbn in H. apply Some_inj in H. subst ws. split; [reflexivity|intros Hm; exact Hm].
  - cbn [unambiguous_b] in H. destruct (reads_b it t (text_of r ++ tail)) as [w|] eqn:Ew; [|discriminate H].
    destruct (unambiguous_b r tail) as [ws'|] eqn:Er; [|discriminate H]. apply Some_inj in H. subst ws.
    destruct (IH tail ws' Er f) as [I1 I2]. unfold sfields in *. cbn [map fst concat]. rewrite !fmem_app.
    destruct (reads_shape it t _ w Ew) as [E|(_ & E1 & E2)].
    + rewrite E. split.
      * intros Hf. rewrite (I1 Hf). reflexivity.
      * intros Hm. apply orb_prop in Hm. destruct Hm as [Hm|Hm]; [rewrite Hm; reflexivity|rewrite (I2 Hm); apply orb_true_r].
    + rewrite E1, E2. cbn [fmem existsb orb]. split.
      * intros Hf. rewrite (I1 Hf), field_eqb_neq by exact Hf. reflexivity.
      * intros Hm. rewrite (I2 Hm). apply orb_true_r.
Qed.

(* a field record with exactly the given fields *)
Definition shape_parsed (fs : list field) : parsed := fold_right (fun f p => pput f (Some 0) p) parsed_new fs.
Lemma shape_present f : forall fs, some_b (pget f (shape_parsed fs)) = fmem f fs.
Proof.
  induction fs as [|g r IH]; [destruct f; reflexivity|].
  cbn [shape_parsed fold_right]. fold (shape_parsed r). rewrite presence_pput, IH. reflexivity.
Qed.

(** * 5b. acceptance for every value *)
(* a fraction item prints nothing only when it is %.f and the value has no fraction *)
Lemma doc_render_empty sv it r : sv_bounds sv -> it_static it r = true -> doc_render sv it = Some [] ->
  ifields it = [F_nanosecond] -> sv_nano sv = 0.
Proof.
  intros Bsv Hs Hd Hi. destruct (item_head sv it r [] Bsv Hs Hd) as [_ Hh]. cbn [head_ok] in Hh.
  destruct it as [l|l|spec pad|spec|]; cbn [ifields it_empty doc_render] in *; try discriminate Hi; try discriminate Hh.
  destruct (tfield_of spec) as [f|] eqn:Ef; [|discriminate Hd].
  destruct (render_fix sv f) as [x| |] eqn:Er; try discriminate Hd. apply Some_inj in Hd. subst x.
  destruct f; try discriminate Hh. unfold render_fix in Er.
  destruct (sv_sod sv) as [s0|]; [|discriminate Er]. apply ROk_inj in Er.
  destruct (sv_nano sv =? 0) eqn:E0; [lia|].
  destruct (sv_nano sv mod 1000000 =? 0); [discriminate Er|]. destruct (sv_nano sv mod 1000 =? 0); discriminate Er.
Qed.
Lemma classic_space it : (exists s, it = Space s) \/ (forall s, it <> Space s).
Proof. destruct it; try (right; intros s0 Hc; discriminate Hc). left. eexists. reflexivity. Qed.

(* one item of the class other than white space, in front of a well-formed rest that starts as
   the look-ahead of the remaining items allows *)
Lemma item_accept sv it r t rest : sv_bounds sv -> (forall o, sv_off sv = Some o -> o mod 60 = 0) ->
  (forall s, it <> Space s) -> it_static it r = true -> doc_render sv it = Some t -> utf8_valid rest = true ->
  (may it_digit r = false -> not_digit_start rest = true) ->
  (may it_dot r = false -> starts_with_byte rest 46 = false) ->
  exists w, reads_b it t rest = Some w.
Proof.
  intros Bsv Hmin Hns Hit Hd Hv A1 A3.
  destruct it as [l|l|spec pad|spec|]; cbn [it_static doc_render reads_b] in *.
  - apply Some_inj in Hd. subst t. rewrite bytes_eqb_refl, (utf8_valid_starts_ok rest Hv). eexists. reflexivity.
  - exfalso. exact (Hns l eq_refl).
  - destruct (nfield_of spec) as [f|] eqn:Ef; [|discriminate Hd].
    destruct (render_num sv f (dpad_of pad)) as [s| |] eqn:Er; try discriminate Hd. apply Some_inj in Hd. subst s.
    apply andb_prop in Hit. destruct Hit as [Hst Hfull].
    rewrite <- (nfield_of_numeric spec f Ef).
    apply (num_accept sv f (dpad_of pad) t rest Bsv Hst Er Hv).
    apply orb_prop in Hfull. destruct Hfull as [Hfull|Hfull]; [left; exact Hfull|right].
    apply A1. destruct (may it_digit r); [discriminate Hfull|reflexivity].
  - destruct (tfield_of spec) as [f|] eqn:Ef; [|discriminate Hd].
    destruct (render_fix sv f) as [s| |] eqn:Er; try discriminate Hd. apply Some_inj in Hd. subst s.
    destruct (tfield_of_supported spec f Ef) as [Hsup Hspec]. rewrite <- Hspec.
    apply andb_prop in Hit. destruct Hit as [H1 H2].
    apply (fix_accept sv f t rest Bsv Hmin Hsup Er Hv).
    + intros Hn. rewrite Hn in H1. cbn [negb orb] in H1. apply A1. destruct (may it_digit r); [discriminate H1|reflexivity].
    + intros Hn. rewrite Hn in H2. cbn [negb orb] in H2. apply A3. destruct (may it_dot r); [discriminate H2|reflexivity].
  - discriminate Hd.
Qed.

Lemma absorb_nonspace it t l : (forall s, it <> Space s) -> absorb ((it, t) :: l) = (it, t) :: absorb l.
Proof. intros H. cbn [absorb]. destruct it; try reflexivity. exfalso. exact (H _ eq_refl). Qed.

(* a pair whose text is empty although the item writes the fraction: the value has no fraction *)
Definition empty_frac_pair (sv : sval) (x : Item * bytes) : Prop :=
  snd x = [] -> ifields (fst x) = [F_nanosecond] -> sv_nano sv = 0.

(** for EVERY value: the documented renderings of a list of the class are taken back by the reader,
    white space of the format absorbing the space padding of the number that follows it *)
Theorem static_accept sv on : sv_bounds sv -> (forall o, sv_off sv = Some o -> o mod 60 = 0) ->
  forall items texts, static_ok2 items = true ->
  Forall2 (doc_item sv on) items texts ->
  exists ws, unambiguous_b (absorb (combine items texts)) [] = Some ws /\
             Forall (empty_frac_pair sv) (absorb (combine items texts)).
Proof.
  intros Bsv Hmin. induction items as [|it r IH]; intros texts Hs HF; inversion HF as [|? t ? ts [Hd Hfr] Hr]; subst.
  - exists []. split; [reflexivity|constructor].
  - cbn [static_ok2] in Hs. apply andb_prop in Hs. destruct Hs as [Hit Hsr].
    destruct (IH ts Hsr Hr) as (ws & Hws & HE).
    destruct (may_sound sv on Bsv r ts Hsr Hr) as (A0 & A1 & A2 & A3).
    pose proof (text_of_absorb (combine r ts)) as Eta. rewrite text_of_combine in Eta by (exact (F2_length _ _ _ Hr)).
    pose proof A0 as Hv.
    assert (Hemp : empty_frac_pair sv (it, t)).
    { intros E1 E2. cbn [fst snd] in E1, E2. subst t. exact (doc_render_empty sv it r Bsv Hit Hd E2). }
    cbn [combine].
    destruct (classic_space it) as [[s ->]|Hns].
    + (* a white-space item *)
      cbn [doc_render] in Hd. apply Some_inj in Hd. subst t.
      cbn [it_static] in Hit. apply andb_prop in Hit. destruct Hit as [Hit Hallow]. apply andb_prop in Hit. destruct Hit as [Hw Hnsp].
      cbn [absorb]. destruct (absorb (combine r ts)) as [|[it2 t2] r'] eqn:Ea.
      * exists [W_none]. split; [|constructor; [exact Hemp|constructor]].
        cbn [unambiguous_b text_of app reads_b]. rewrite Hw. reflexivity.
      * (* the next item is not white space: its pair is at the head of the absorbed rest, unchanged *)
        destruct r as [|it2' r2]; [inversion Hr; subst; discriminate Ea|].
        inversion Hr as [|? t2' ? ts2 [Hd2 _] Hr2]; subst.
        assert (Hns2 : forall s0, it2' <> Space s0).
        { intros s0 ->. discriminate Hnsp. }
        cbn [combine] in Ea. rewrite (absorb_nonspace it2' t2' _ Hns2) in Ea. injection Ea as <- <- <-.
        cbn [unambiguous_b] in Hws.
        destruct (reads_b it2' t2' (text_of (absorb (combine r2 ts2)) ++ [])) as [w2|] eqn:Ew2; [|discriminate Hws].
        destruct (unambiguous_b (absorb (combine r2 ts2)) []) as [ws'|] eqn:Er'; [|discriminate Hws].
        cbn [text_of] in Eta. cbn [concat] in Eta, A0, A2, Hv.
        inversion HE as [|? ? HE2 HEr]; subst.
        destruct (split_ws_spec t2') as [Ht2 Hpre]. destruct (split_ws t2') as [pre body] eqn:Esp. cbn [fst snd] in Ht2, Hpre.
        assert (Hcase : (pre = [] /\ body = t2' /\ starts_ws (t2' ++ text_of (absorb (combine r2 ts2)) ++ []) = false) \/
                        (exists spec, it2' = INumeric spec PadSpace /\ body <> [] /\
                           starts_ws (body ++ text_of (absorb (combine r2 ts2)) ++ []) = false)).
        { apply orb_prop in Hallow. destruct Hallow as [Hm|Hm].
          - left. assert (Hm' : may it_ws (it2' :: r2) = false) by (destruct (may it_ws (it2' :: r2)); [discriminate Hm|reflexivity]).
            pose proof (A2 Hm') as Hsw. rewrite <- Eta in Hsw.
            assert (Hsp : split_ws t2' = ([], t2')).
            { apply split_ws_nows. destruct t2' as [|c t2r]; [exact I|].
              (* a first byte >= 128 is never taken by the padding scan; an ASCII one is its own code point *)
              destruct (Z_le_gt_dec 0 c) as [Hc0|Hc0]; [destruct (Z_le_gt_dec c 127) as [Hc1|Hc1]|].
              - cbn [app] in Hsw. rewrite starts_ws_ascii in Hsw by lia. unfold ws_byte. rewrite Hsw. apply andb_false_r.
              - apply ws_byte_nonascii. lia.
              - apply ws_byte_nonascii. lia. }
            rewrite Hsp in Esp. injection Esp as <- <-. rewrite app_nil_r. auto.
          - right. destruct it2' as [ | |spec pad| |]; try discriminate Hm. destruct pad; try discriminate Hm.
            exists spec. split; [reflexivity|].
            cbn [doc_render] in Hd2. destruct (nfield_of spec) as [f|]; [|discriminate Hd2].
            destruct (render_num sv f (dpad_of PadSpace)) as [x| |] eqn:Er; try discriminate Hd2. apply Some_inj in Hd2. subst x.
            unfold render_num in Er. destruct (negb (width_documented f (dpad_of PadSpace))); [discriminate Er|].
            destruct (num_value sv f) as [x| |]; try discriminate Er. apply ROk_inj in Er.
            set (force := match f with NYear | NIsoYear => (x <? 0) || (9999 <? x) | _ => false end) in *. clearbody force.
            destruct (pad_num_shape DSpace (num_width f) force x) as (sp & ZD & Esh & HZ & HlZ & _).
            cbn [dpad_of] in Er. rewrite Esh in Er. rewrite <- Er in Esp.
            set (sign := if x <? 0 then [45] else if force then [43] else []) in *.
            assert (Hb : exists c b', sign ++ ZD = c :: b' /\ 0 <= c <= 127 /\ is_whitespace c = false).
            { unfold sign. destruct (x <? 0); [eexists; eexists; split; [reflexivity|split; [lia|reflexivity]]|].
              destruct force;
                [eexists; eexists; split; [reflexivity|split; [lia|reflexivity]]|].
              cbn [app]. destruct ZD as [|c zr]; [rewrite blen_nil in HlZ; lia|]. cbn [forallb] in HZ. apply andb_prop in HZ.
              destruct HZ as [Hc _]. pose proof (digit_range c Hc). exists c, zr. split; [reflexivity|]. split; [lia|unfold is_whitespace; lia]. }
            destruct Hb as (c & b' & Eb & Hc & Hwc).
            rewrite split_ws_spaces in Esp by (rewrite Eb; unfold ws_byte; rewrite Hwc; apply andb_false_r).
            injection Esp as <- <-. rewrite Eb. split; [discriminate|]. cbn [app]. rewrite starts_ws_ascii by exact Hc. exact Hwc. }
        assert (Hws_pre : forallb ws_byte (s ++ pre) = true).
        { rewrite forallb_app, Hw. cbn [andb]. clear - Hpre. unfold ascii_ws in Hpre.
          induction Hpre as [|c r0 [Hc Hwc] _ IHp]; [reflexivity|]. cbn [forallb]. rewrite IHp.
          unfold ws_byte. rewrite Hwc. replace ((0 <=? c) && (c <=? 127)) with true by lia. reflexivity. }
        assert (Hread2 : reads_b it2' body (text_of (absorb (combine r2 ts2)) ++ []) = Some w2).
        { destruct Hcase as [(E1 & E2 & _)|(spec & -> & _ & _)].
          - rewrite E2. exact Ew2.
          - cbn [reads_b] in *. rewrite Ht2 in Ew2. rewrite reads_numeric_strip in Ew2 by exact Hpre. exact Ew2. }
        exists (W_none :: w2 :: ws'). split.
        -- cbn [unambiguous_b text_of reads_b]. rewrite Hws_pre.
           assert (Hsw : starts_ws ((body ++ text_of (absorb (combine r2 ts2))) ++ []) = false).
           { destruct Hcase as [(E1 & E2 & Hsw)|(spec & _ & _ & Hsw)]; [rewrite E2|]; rewrite <- app_assoc; exact Hsw. }
           rewrite Hsw. cbn [negb andb]. rewrite Hread2, Er'. reflexivity.
        -- constructor; [intros _ E2; discriminate E2|]. constructor; [|exact HEr].
           intros E1 E2. cbn [fst snd] in E1, E2. subst body.
           destruct Hcase as [(_ & E2' & _)|(spec & _ & Hne & _)]; [|contradiction].
           apply HE2; [symmetry; exact E2'|exact E2].
    + (* any other item: its pair is unchanged *)
      rewrite (absorb_nonspace it t _ Hns).
      destruct (item_accept sv it r t (concat ts) Bsv Hmin Hns Hit Hd Hv A1 A3) as (w & Hw).
      exists (w :: ws). split.
      * cbn [unambiguous_b]. rewrite Eta, app_nil_r, Hw, Hws. reflexivity.
      * constructor; [exact Hemp|exact HE].
Qed.

Corollary static_accept_ws sv on : sv_bounds sv -> (forall o, sv_off sv = Some o -> o mod 60 = 0) ->
  forall items texts, static_ok2 items = true -> Forall2 (doc_item sv on) items texts ->
  exists ws, unambiguous_ws_b (combine items texts) [] = Some ws.
Proof.
  intros Bsv Hmin items texts Hs HF.
  destruct (static_accept sv on Bsv Hmin items texts Hs HF) as (ws & H & _). exists ws. exact H.
Qed.

(** * 6. sufficient combinations read off the items *)
Definition static_date_ok (items : list Item) : bool := date_comb_b 0 0 (shape_parsed (sfields items)).
Definition static_time_ok (items : list Item) : bool := time_comb_b (shape_parsed (sfields items)).

Lemma date_comb_ext Y IY p q : (forall f, f <> F_nanosecond -> some_b (pget f p) = some_b (pget f q)) ->
  date_comb_b Y IY p = date_comb_b Y IY q.
Proof.
  intros H.
  pose proof (H F_year ltac:(discriminate)) as E1. pose proof (H F_year_div_100 ltac:(discriminate)) as E2.
  pose proof (H F_year_mod_100 ltac:(discriminate)) as E3. pose proof (H F_isoyear ltac:(discriminate)) as E4.
  pose proof (H F_isoyear_div_100 ltac:(discriminate)) as E5. pose proof (H F_isoyear_mod_100 ltac:(discriminate)) as E6.
  pose proof (H F_month ltac:(discriminate)) as E7. pose proof (H F_day ltac:(discriminate)) as E8.
  pose proof (H F_ordinal ltac:(discriminate)) as E9. pose proof (H F_week_from_sun ltac:(discriminate)) as E10.
  pose proof (H F_week_from_mon ltac:(discriminate)) as E11. pose proof (H F_isoweek ltac:(discriminate)) as E12.
  pose proof (H F_weekday ltac:(discriminate)) as E13. cbn [pget] in *.
  unfold date_comb_b, grp_b, det_b. cbv zeta.
  rewrite E1, E2, E3, E4, E5, E6, E7, E8, E9, E10, E11, E12, E13. reflexivity.
Qed.
Lemma det_b_mono Y y q r : det_b 0 y q r = true -> det_b Y y q r = true.
Proof.
  unfold det_b. change (1970 <=? 0) with false. rewrite andb_false_r, andb_false_l, orb_false_r.
  intros H. rewrite H. reflexivity.
Qed.
Lemma grp_b_mono Y y q r : grp_b 0 y q r = true -> grp_b Y y q r = true.
Proof.
  unfold grp_b. intros H. apply orb_prop in H. destruct H as [H|H]; [rewrite H; reflexivity|].
  rewrite (det_b_mono Y y q r H). apply orb_true_r.
Qed.
Lemma comb_bool (dy dy' di di' a b c d e f g : bool) : (dy = true -> dy' = true) -> (di = true -> di' = true) ->
  (dy && a && b) || (dy && c) || (dy && d && e) || (dy && f && e) || (di && g && e) = true ->
  (dy' && a && b) || (dy' && c) || (dy' && d && e) || (dy' && f && e) || (di' && g && e) = true.
Proof.
  intros H1 H2 H.
  destruct dy; [rewrite (H1 eq_refl)|]; (destruct di; [rewrite (H2 eq_refl)|]); clear H1 H2;
    destruct a, b, c, d, e, f, g; cbn [andb orb] in *; try reflexivity; try discriminate H;
    try (destruct dy'; reflexivity); try (destruct di'; reflexivity); try (destruct dy', di'; reflexivity).
Qed.
Lemma date_comb_mono Y IY p : date_comb_b 0 0 p = true -> date_comb_b Y IY p = true.
Proof.
  unfold date_comb_b. cbv zeta. intros H. apply andb_prop in H. destruct H as [H HC]. apply andb_prop in H. destruct H as [G1 G2].
  rewrite (grp_b_mono Y _ _ _ G1), (grp_b_mono IY _ _ _ G2). cbn [andb].
  exact (comb_bool _ _ _ _ _ _ _ _ _ _ _ (det_b_mono Y _ _ _) (det_b_mono IY _ _ _) HC).
Qed.
Lemma time_comb_transfer p q : time_comb_b q = true ->
  (forall f, f <> F_nanosecond -> some_b (pget f p) = some_b (pget f q)) ->
  (some_b (p_nanosecond p) = true -> some_b (p_nanosecond q) = true) -> time_comb_b p = true.
Proof.
  intros HC H Hn.
  pose proof (H F_hour_div_12 ltac:(discriminate)) as E1. pose proof (H F_hour_mod_12 ltac:(discriminate)) as E2.
  pose proof (H F_minute ltac:(discriminate)) as E3. pose proof (H F_second ltac:(discriminate)) as E4. cbn [pget] in *.
  unfold time_comb_b in *. rewrite E1, E2, E3, E4.
  apply andb_prop in HC. destruct HC as [HC H4]. rewrite HC. cbn [andb].
  destruct (some_b (p_nanosecond p)); [|reflexivity]. rewrite (Hn eq_refl) in H4. exact H4.
Qed.

(* presence in the record the reader builds *)
Lemma real_presence items l ws : map fst l = items ->
  unambiguous_b l [] = Some ws ->
  (forall f, f <> F_nanosecond -> some_b (pget f (apply_ws ws parsed_new)) = some_b (pget f (shape_parsed (sfields items)))) /\
  (some_b (p_nanosecond (apply_ws ws parsed_new)) = true -> some_b (p_nanosecond (shape_parsed (sfields items))) = true).
Proof.
  intros Hl HU. pose proof (ws_shape _ _ _ HU) as HS. rewrite Hl in HS.
  assert (Hnew : forall f, some_b (pget f parsed_new) = false) by (intros f; destruct f; reflexivity).
  split.
  - intros f Hf. rewrite presence_ws, Hnew, orb_false_r, shape_present. exact (proj1 (HS f) Hf).
  - change (p_nanosecond (apply_ws ws parsed_new)) with (pget F_nanosecond (apply_ws ws parsed_new)).
    change (p_nanosecond (shape_parsed (sfields items))) with (pget F_nanosecond (shape_parsed (sfields items))).
    rewrite presence_ws, Hnew, orb_false_r, shape_present. exact (proj2 (HS F_nanosecond)).
Qed.

(** * 7. every item has a documented rendering for every value of the kind *)
Definition nfield_is_time (f : nfield) : bool :=
  match f with NHour | NHour12 | NMinute | NSecond | NNanos => true | _ => false end.
Definition it_kind_ok (hd ht ho : bool) (it : Item) : bool :=
  match it with
  | Literal _ | Space _ => true
  | INumeric spec _ => match nfield_of spec with Some f => if nfield_is_time f then ht else hd | None => false end
  | IFixed spec =>
      match tfield_of spec with
      | Some TMonthAbbr | Some TMonthFull | Some TWdayAbbr | Some TWdayFull => hd
      | Some TOff | Some TOffColon => ho
      | Some _ => ht
      | None => false
      end
  | IError => false
  end.
(* the precision class of the fraction the item writes *)
Definition fclass (it : Item) : option Z :=
  match it with
  | INumeric N_Nanosecond _ => Some 9
  | IFixed spec => match tfield_of spec with Some TFracAuto => Some 9 | Some (TFrac k _) => Some k | _ => None end
  | _ => None
  end.
Definition frac_class_ok (k : Z) (items : list Item) : bool :=
  forallb (fun it => match fclass it with None => true | Some k' => k' =? k end) items.
Definition on_of (sv : sval) (k : Z) : option Z := Some (sv_nano sv / 10 ^ (9 - k) * 10 ^ (9 - k)).

Lemma frac_class_item sv k it : (match fclass it with None => true | Some k' => k' =? k end) = true ->
  item_frac sv it = None \/ item_frac sv it = on_of sv k.
Proof.
  intros H. destruct it as [l|l|spec pad|spec|]; cbn [fclass item_frac] in *; try (left; reflexivity).
  - destruct spec; try (left; reflexivity). assert (k = 9) by lia. subst k. right. unfold on_of.
    change (10 ^ (9 - 9)) with 1. rewrite Z.div_1_r, Z.mul_1_r. reflexivity.
  - destruct (tfield_of spec) as [f|]; [|left; reflexivity].
    destruct f; try (left; reflexivity); cbn [frac_of].
    + assert (k = 9) by lia. subst k. destruct (sv_nano sv =? 0); [left; reflexivity|right]. unfold on_of.
      change (10 ^ (9 - 9)) with 1. rewrite Z.div_1_r, Z.mul_1_r. reflexivity.
    + assert (digits = k) by lia. subst k. right. reflexivity.
Qed.
Lemma kind_no_time_item sv hd ho it : it_kind_ok hd false ho it = true -> item_frac sv it = None.
Proof.
  intros H. destruct it as [l|l|spec pad|spec|]; cbn [it_kind_ok item_frac] in *; try reflexivity.
  - destruct spec; try reflexivity. cbn in H. discriminate H.
  - destruct (tfield_of spec) as [f|]; [|reflexivity]. destruct f; try reflexivity; discriminate H.
Qed.

Lemma static_render sv on (hd ht ho : bool) : (hd = true -> sv_dn sv <> None) -> (ht = true -> sv_sod sv <> None) ->
  (ho = true -> sv_off sv <> None) ->
  forall items, static_ok2 items = true -> forallb (it_kind_ok hd ht ho) items = true ->
  Forall (fun it => item_frac sv it = None \/ item_frac sv it = on) items ->
  (forall dn, sv_dn sv = Some dn -> (existsb uses_y2 items = true -> 0 <= year_of_dn dn) /\
                                      (existsb uses_g2 items = true -> 0 <= fst (iso_of_dn dn))) ->
  exists texts, Forall2 (doc_item sv on) items texts.
Proof.
  intros Hhd Hht Hho. induction items as [|it r IH]; intros Hs Hk Hf H2; [exists []; constructor|].
  cbn [static_ok2 forallb] in Hs, Hk. apply andb_prop in Hs. destruct Hs as [Hit Hsr]. apply andb_prop in Hk. destruct Hk as [Hki Hkr].
  inversion Hf as [|? ? Hfi Hfr]; subst.
  assert (H2r : forall dn, sv_dn sv = Some dn -> (existsb uses_y2 r = true -> 0 <= year_of_dn dn) /\
                                                   (existsb uses_g2 r = true -> 0 <= fst (iso_of_dn dn))).
  { intros dn E. destruct (H2 dn E) as [Ay Ag]. cbn [existsb] in Ay, Ag. split; intros Hx; [apply Ay|apply Ag]; rewrite Hx; apply orb_true_r. }
  destruct (IH Hsr Hkr Hfr H2r) as (ts & HF).
  assert (Hex : exists t, doc_render sv it = Some t).
  { destruct it as [l|l|spec pad|spec|]; cbn [doc_render it_static it_kind_ok] in *; try (eexists; reflexivity).
    - destruct (nfield_of spec) as [f|] eqn:Ef0; [|discriminate Hit]. apply andb_prop in Hit. destruct Hit as [Hst _].
      unfold render_num.
      assert (Hwd : width_documented f (dpad_of pad) = true) by (destruct f; try reflexivity; discriminate Hst).
      rewrite Hwd. cbn [negb].
      assert (Hnv : exists x, num_value sv f = FV x).
      { destruct f; try discriminate Hst; cbn [nfield_is_time] in Hki; unfold num_value;
          try (destruct (sv_dn sv) as [dn|] eqn:Edn; [|exfalso; apply (Hhd Hki); reflexivity]);
          cbv zeta;
          try (match goal with |- context [year_of_dn ?d <? 0] =>
                 destruct spec; try discriminate Ef0;
                 replace (year_of_dn d <? 0) with false by (pose proof (proj1 (H2 d eq_refl) eq_refl); lia) end);
          try (match goal with |- context [fst (iso_of_dn ?d) <? 0] =>
                 destruct spec; try discriminate Ef0;
                 replace (fst (iso_of_dn d) <? 0) with false by (pose proof (proj2 (H2 d eq_refl) eq_refl); lia) end);
          try (destruct (sv_sod sv) as [s|]; [|exfalso; apply (Hht Hki); reflexivity]);
          try (destruct (ymd_of_dn dn) as [[yy m] dd]); eexists; reflexivity. }
      destruct Hnv as (x & ->). eexists. reflexivity.
    - destruct (tfield_of spec) as [f|] eqn:Ef; [|discriminate Hit].
      destruct (tfield_of_supported spec f Ef) as [Hsup _]. unfold render_fix.
      destruct f; try discriminate Hsup;
        try (destruct (sv_dn sv) as [dn|]; [|exfalso; apply (Hhd Hki); reflexivity]);
        try (destruct (sv_sod sv) as [s|]; [|exfalso; apply (Hht Hki); reflexivity]);
        try (destruct (sv_off sv) as [o|]; [|exfalso; apply (Hho Hki); reflexivity]);
        try (destruct (ymd_of_dn dn) as [[yy m] dd]); eexists; reflexivity.
    - discriminate Hit. }
  destruct Hex as (t & Ht). exists (t :: ts). constructor; [split; assumption|exact HF].
Qed.

(** * 8. the round trips with hypotheses on the item list only *)
Lemma on_of_range sv k : 0 <= sv_nano sv < 1000000000 -> k = 3 \/ k = 6 \/ k = 9 ->
  forall n, on_of sv k = Some n -> 0 <= n <= 999999999.
Proof.
  intros Hn Hk n H. unfold on_of in H. apply Some_inj in H. subst n.
  assert (Hpos : 0 < 10 ^ (9 - k)) by (apply Z.pow_pos_nonneg; lia).
  split; [apply Z.mul_nonneg_nonneg; [apply Z.div_pos|]; lia|].
  pose proof (Z.mul_div_le (sv_nano sv) (10 ^ (9 - k)) Hpos). lia.
Qed.

Lemma nano_absent_zero sv : forall l tail ws, Forall (empty_frac_pair sv) l -> unambiguous_b l tail = Some ws ->
  fmem F_nanosecond (sfields (map fst l)) = true -> fmem F_nanosecond (concat (map wfields ws)) = false -> sv_nano sv = 0.
Proof.
  induction l as [|[it t] r IH]; intros tail ws HE HU Hm Ha; inversion HE as [|? ? Hx Hr]; subst.
  - discriminate Hm.
  - cbn [unambiguous_b] in HU.
    destruct (reads_b it t (text_of r ++ tail)) as [w|] eqn:Ew; [|discriminate HU].
    destruct (unambiguous_b r tail) as [ws'|] eqn:Er; [|discriminate HU]. apply Some_inj in HU. subst ws.
    unfold sfields in Hm. cbn [map fst concat] in Hm, Ha. rewrite fmem_app in Hm, Ha.
    apply orb_false_elim in Ha. destruct Ha as [Ha1 Ha2].
    destruct (reads_shape it t _ w Ew) as [E|(E0 & E1 & E2)].
    + rewrite <- E, Ha1 in Hm. cbn [orb] in Hm. exact (IH tail ws' Hr Er Hm Ha2).
    + exact (Hx E0 E2).
Qed.

(* the time of day the printed fields denote, read off the item list: [k] the fraction precision *)
Definition static_time_value (items : list Item) (k : Z) (t : Model.Time.ntime) : Model.Time.ntime :=
  if fmem F_second (sfields items)
  then Model.Time.mk_time (Model.Time.tsecs t)
         (leap_part t + (if fmem F_nanosecond (sfields items) then nano9 t / 10 ^ (9 - k) * 10 ^ (9 - k) else 0))
  else Model.Time.mk_time (Model.Time.tsecs t / 60 * 60) 0.

Lemma time_value_static sv k items l ws t :
  sv_nano sv = nano9 t -> valid_time t -> static_time_ok items = true ->
  map fst l = items -> Forall (empty_frac_pair sv) l -> unambiguous_b l [] = Some ws ->
  (forall v, p_second (apply_ws ws parsed_new) = Some v -> v = ss t) ->
  (forall n, p_nanosecond (apply_ws ws parsed_new) = Some n -> on_of sv k = Some n) ->
  time_kept (apply_ws ws parsed_new) t = static_time_value items k t.
Proof.
  intros En Hvt Hct Hl HE HU V4 V5. set (p := apply_ws ws parsed_new) in *.
  destruct (real_presence items l ws Hl HU) as [HP HN]. fold p in HP, HN.
  assert (Hnew : forall f, some_b (pget f parsed_new) = false) by (intros f; destruct f; reflexivity).
  pose proof (HP F_second ltac:(discriminate)) as Esec. rewrite shape_present in Esec. cbn [pget] in Esec.
  assert (Enano : some_b (p_nanosecond p) = fmem F_nanosecond (concat (map wfields ws))).
  { change (p_nanosecond p) with (pget F_nanosecond p). unfold p. rewrite presence_ws, Hnew, orb_false_r. reflexivity. }
  pose proof HN as HN'. change (p_nanosecond (shape_parsed (sfields items))) with (pget F_nanosecond (shape_parsed (sfields items))) in HN'.
  rewrite shape_present in HN'.
  (* no seconds: no fraction either *)
  assert (Hns : fmem F_second (sfields items) = false -> fmem F_nanosecond (sfields items) = false).
  { intros E. unfold static_time_ok, time_comb_b in Hct. apply andb_prop in Hct. destruct Hct as [_ H4].
    change (p_nanosecond (shape_parsed (sfields items))) with (pget F_nanosecond (shape_parsed (sfields items))) in H4.
    change (p_second (shape_parsed (sfields items))) with (pget F_second (shape_parsed (sfields items))) in H4.
    rewrite !shape_present, E in H4. destruct (fmem F_nanosecond (sfields items)); [discriminate H4|reflexivity]. }
  unfold static_time_value. destruct (fmem F_second (sfields items)) eqn:Es.
  - destruct (p_second p) as [v|] eqn:Ev; [|discriminate Esec]. pose proof (V4 v eq_refl) as ->.
    rewrite (time_kept_seconds p t Hvt Ev). f_equal. f_equal.
    destruct (fmem F_nanosecond (sfields items)) eqn:Enf.
    + destruct (p_nanosecond p) as [n|] eqn:Epn; cbn [unwrap_or].
      * pose proof (V5 n eq_refl) as E. unfold on_of in E. apply Some_inj in E. rewrite En in E. symmetry. exact E.
      * cbn [some_b] in Enano. symmetry in Enano.
        pose proof (nano_absent_zero sv l [] ws HE HU ltac:(rewrite Hl; exact Enf) Enano) as Ez.
        rewrite <- En, Ez. rewrite Zdiv_0_l, Z.mul_0_l. reflexivity.
    + destruct (p_nanosecond p) as [n|] eqn:Epn; [|reflexivity]. specialize (HN' eq_refl). congruence.
  - destruct (p_second p) as [v|] eqn:Ev; [discriminate Esec|].
    assert (Epn : p_nanosecond p = None).
    { destruct (p_nanosecond p) as [n|]; [|reflexivity]. specialize (HN' eq_refl). rewrite (Hns eq_refl) in HN'. discriminate HN'. }
    unfold time_kept. rewrite Ev, Epn. cbn [unwrap_or]. unfold Proofs.C14.time_of_fields. cbn [Z.eqb].
    destruct Hvt as [Hsec _]. unfold hh, mm. f_equal; lia.
Qed.

(* the value-side conditions of the two-digit years: printed for (ISO) years >= 0 only *)
Definition two_digit_ok (items : list Item) (y iy : Z) : Prop :=
  (existsb uses_y2 items = true -> 0 <= y) /\ (existsb uses_g2 items = true -> 0 <= iy).
Lemma static_ok_split items : static_ok items = true ->
  static_ok2 items = true /\ existsb uses_y2 items = false /\ existsb uses_g2 items = false.
Proof.
  unfold static_ok. intros H. apply andb_prop in H. destruct H as [H H3]. apply andb_prop in H. destruct H as [H1 H2].
  split; [exact H1|]. split; [destruct (existsb uses_y2 items)|destruct (existsb uses_g2 items)]; try reflexivity; discriminate.
Qed.
Lemma two_digit_none items y iy : existsb uses_y2 items = false -> existsb uses_g2 items = false -> two_digit_ok items y iy.
Proof. intros H1 H2. split; intros Hc; congruence. Qed.
Lemma year_of_dn_yo y o : valid_yo y o = true -> year_of_dn (dn_of_yo y o) = y.
Proof. intros H. unfold year_of_dn. rewrite (Proofs.C08Days.yo_of_dn_of_yo y o H). reflexivity. Qed.

(** NaiveDate.  The class with the two-digit years: the value-side premises are [two_digit_ok] and the
    sufficiency of the fields FOR THIS YEAR (the two-digit year alone: 1970..=2069) *)
Theorem static2_date_roundtrip items :
  static_ok2 items = true -> forallb (it_kind_ok true false false) items = true ->
  forall y o d, Proofs.C08Sweeps.repr y o d ->
  two_digit_ok items y (fst (iso_of_dn (dn_of_yo y o))) ->
  date_comb_b y (fst (iso_of_dn (dn_of_yo y o))) (shape_parsed (sfields items)) = true ->
  exists text,
    Model.Format.write_items (Model.Format.fa_of_date d) items [] = Model.Format.fok text /\
    (let+ p := parse parsed_new text items in pr_of (to_naive_date p)) = pok d.
Proof.
  intros Hs Hk y o d H H2 Hc. set (sv := sv_of_date (dn_of_yo y o)).
  pose proof (args_bounds _ sv (args_view_date y o d H) ltac:(cbn; lia)) as Bsv.
  destruct (static_render sv None true false false ltac:(intros _; discriminate) ltac:(intros Hx; discriminate Hx) ltac:(intros Hx; discriminate Hx) items Hs Hk) as (texts & HF).
  { rewrite Forall_forall. intros it Hin. left. rewrite forallb_forall in Hk. exact (kind_no_time_item sv true false it (Hk it Hin)). }
  { intros dn E. pose proof (Some_inj (dn_of_yo y o) dn E) as E'. subst dn.
    rewrite (year_of_dn_yo y o (proj1 (proj2 H))). exact H2. }
  destruct (static_accept sv None Bsv ltac:(let Hq := fresh in intros ? Hq; discriminate Hq) items texts Hs HF) as (ws & HU & HE).
  pose proof (eq_trans (map_fst_absorb (combine items texts)) (map_fst_combine items texts (F2_length _ _ _ HF))) as Hl.
  destruct (real_presence items _ ws Hl HU) as [HP _].
  exists (concat texts).
  apply (general_date_roundtrip y o d items texts ws H HF (or_intror HU)).
  rewrite (date_comb_ext _ _ _ _ HP). exact Hc.
Qed.
Theorem static_date_roundtrip items :
  static_ok items = true -> forallb (it_kind_ok true false false) items = true -> static_date_ok items = true ->
  forall y o d, Proofs.C08Sweeps.repr y o d ->
  exists text,
    Model.Format.write_items (Model.Format.fa_of_date d) items [] = Model.Format.fok text /\
    (let+ p := parse parsed_new text items in pr_of (to_naive_date p)) = pok d.
Proof.
  intros Hs Hk Hc y o d H. destruct (static_ok_split items Hs) as (Hs2 & N1 & N2).
  exact (static2_date_roundtrip items Hs2 Hk y o d H (two_digit_none items _ _ N1 N2) (date_comb_mono _ _ _ Hc)).
Qed.

(** NaiveTime: [k] is the precision class of the fraction items of the list (3, 6 or 9; any of them
    when there is none) *)
Theorem static_time_roundtrip items k :
  static_ok items = true -> forallb (it_kind_ok false true false) items = true -> static_time_ok items = true ->
  frac_class_ok k items = true -> k = 3 \/ k = 6 \/ k = 9 ->
  forall t, valid_time t ->
  exists text,
    Model.Format.write_items (Model.Format.fa_of_time t) items [] = Model.Format.fok text /\
    (let+ q := parse parsed_new text items in pr_of (to_naive_time q)) = pok (static_time_value items k t).
Proof.
  intros Hs0 Hk Hc Hfc Hk3 t Hvt. destruct (static_ok_split items Hs0) as (Hs & _ & _).
  set (sv := sv_of_time t). set (on := on_of sv k).
  pose proof (args_bounds _ sv (args_view_time t Hvt) ltac:(cbn; lia)) as Bsv.
  assert (Hon : forall n, on = Some n -> 0 <= n <= 999999999) by (apply on_of_range; [cbn; lia|exact Hk3]).
  destruct (static_render sv on false true false ltac:(intros Hx; discriminate Hx) ltac:(intros _; discriminate) ltac:(intros Hx; discriminate Hx) items Hs Hk) as (texts & HF).
  { rewrite Forall_forall. intros it Hin. unfold frac_class_ok in Hfc. rewrite forallb_forall in Hfc.
    exact (frac_class_item sv k it (Hfc it Hin)). }
  { intros dn E. discriminate E. }
  destruct (static_accept sv on Bsv ltac:(let Hq := fresh in intros ? Hq; discriminate Hq) items texts Hs HF) as (ws & HU & HE).
  pose proof (eq_trans (map_fst_absorb (combine items texts)) (map_fst_combine items texts (F2_length _ _ _ HF))) as Hl.
  destruct (real_presence items _ ws Hl HU) as [HP HN].
  destruct (general_time_roundtrip t on items texts ws Hvt Hon HF (or_intror HU)
              (time_comb_transfer _ _ Hc HP HN)) as (Hw & Hp & V4 & V5).
  exists (concat texts). split; [exact Hw|]. rewrite Hp.
  rewrite (time_value_static sv k items _ ws t eq_refl Hvt Hc Hl HE HU V4 V5). reflexivity.
Qed.

(** NaiveDateTime *)
Theorem static2_ndt_roundtrip items k :
  static_ok2 items = true -> forallb (it_kind_ok true true false) items = true -> static_time_ok items = true ->
  frac_class_ok k items = true -> k = 3 \/ k = 6 \/ k = 9 ->
  forall y o d t, Proofs.C08Sweeps.repr y o d -> valid_time t ->
  two_digit_ok items y (fst (iso_of_dn (dn_of_yo y o))) ->
  date_comb_b y (fst (iso_of_dn (dn_of_yo y o))) (shape_parsed (sfields items)) = true ->
  exists text,
    Model.Format.write_items (Model.Format.fa_of_ndt (Model.DateTime.mk_ndt d t)) items [] = Model.Format.fok text /\
    (let+ q := parse parsed_new text items in pr_of (to_naive_datetime_with_offset q 0)) =
      pok (Model.DateTime.mk_ndt d (static_time_value items k t)).
Proof.
  intros Hs Hk Hct Hfc Hk3 y o d t H Hvt H2 Hcd. set (sv := sv_of_ndt (dn_of_yo y o) t). set (on := on_of sv k).
  pose proof (args_bounds _ sv (args_view_ndt y o d t H Hvt) ltac:(cbn; lia)) as Bsv.
  assert (Hon : forall n, on = Some n -> 0 <= n <= 999999999) by (apply on_of_range; [cbn; lia|exact Hk3]).
  destruct (static_render sv on true true false ltac:(intros _; discriminate) ltac:(intros _; discriminate) ltac:(intros Hx; discriminate Hx) items Hs Hk) as (texts & HF).
  { rewrite Forall_forall. intros it Hin. unfold frac_class_ok in Hfc. rewrite forallb_forall in Hfc.
    exact (frac_class_item sv k it (Hfc it Hin)). }
  { intros dn E. pose proof (Some_inj (dn_of_yo y o) dn E) as E'. subst dn.
    rewrite (year_of_dn_yo y o (proj1 (proj2 H))). exact H2. }
  destruct (static_accept sv on Bsv ltac:(let Hq := fresh in intros ? Hq; discriminate Hq) items texts Hs HF) as (ws & HU & HE).
  pose proof (eq_trans (map_fst_absorb (combine items texts)) (map_fst_combine items texts (F2_length _ _ _ HF))) as Hl.
  destruct (real_presence items _ ws Hl HU) as [HP HN].
  assert (HCd : date_comb_b y (fst (iso_of_dn (dn_of_yo y o))) (apply_ws ws parsed_new) = true).
  { rewrite (date_comb_ext _ _ _ _ HP). exact Hcd. }
  destruct (general_ndt_roundtrip y o d t on items texts ws H Hvt Hon HF (or_intror HU) HCd
              (time_comb_transfer _ _ Hct HP HN)) as (Hw & Hp & V4 & V5).
  exists (concat texts). split; [exact Hw|]. rewrite Hp.
  rewrite (time_value_static sv k items _ ws t eq_refl Hvt Hct Hl HE HU V4 V5). reflexivity.
Qed.
Theorem static_ndt_roundtrip items k :
  static_ok items = true -> forallb (it_kind_ok true true false) items = true ->
  static_date_ok items = true -> static_time_ok items = true ->
  frac_class_ok k items = true -> k = 3 \/ k = 6 \/ k = 9 ->
  forall y o d t, Proofs.C08Sweeps.repr y o d -> valid_time t ->
  exists text,
    Model.Format.write_items (Model.Format.fa_of_ndt (Model.DateTime.mk_ndt d t)) items [] = Model.Format.fok text /\
    (let+ q := parse parsed_new text items in pr_of (to_naive_datetime_with_offset q 0)) =
      pok (Model.DateTime.mk_ndt d (static_time_value items k t)).
Proof.
  intros Hs Hk Hcd Hct Hfc Hk3 y o d t H Hvt. destruct (static_ok_split items Hs) as (Hs2 & N1 & N2).
  exact (static2_ndt_roundtrip items k Hs2 Hk Hct Hfc Hk3 y o d t H Hvt (two_digit_none items _ _ N1 N2) (date_comb_mono _ _ _ Hcd)).
Qed.

(** * 9. the class is inhabited: the families of the other files and many more are members, by
    computation on the item list alone *)
Definition ndt_static (k : Z) (items : list Item) : bool :=
  static_ok items && forallb (it_kind_ok true true false) items && static_date_ok items && static_time_ok items && frac_class_ok k items.
Example static_members :
  ndt_static 9 NDT_T_FMT = true /\ ndt_static 9 NDT_SP_FMT = true /\
  (* %A, %d %B %Y %I:%M:%S%.3f %p *)
  ndt_static 3 ex_general_items = true /\
  (* %Y%m%dT%H%M%S : the year is followed by a digit *)
  ndt_static 9 [num0 N_Year; num0 N_Month; num0 N_Day; Literal [84]; num0 N_Hour; num0 N_Minute; num0 N_Second] = false /\
  (* %d/%m/%Y %H:%M : seconds not printed *)
  ndt_static 9 [num0 N_Day; Literal [47]; num0 N_Month; Literal [47]; num0 N_Year; Space [32]; num0 N_Hour; Literal [58]; num0 N_Minute] = true /\
  (* %j of %Y, %k:%M:%S%.f : space-padded hour after a literal, automatic fraction last *)
  ndt_static 9 [num0 N_Ordinal; Literal [32; 111; 102; 32]; num0 N_Year; Literal [44]; nums N_Hour; Literal [58]; num0 N_Minute;
                Literal [58]; num0 N_Second; IFixed F_Nanosecond] = true /\
  (* %G-W%V-%a %H:%M : ISO week date with the weekday name *)
  ndt_static 9 [num0 N_IsoYear; Literal [45; 87]; num0 N_IsoWeek; Literal [45]; IFixed F_ShortWeekdayName; Space [32];
                num0 N_Hour; Literal [58]; num0 N_Minute] = true /\
  (* %H:%M%.3f : a fraction without the seconds is not sufficient *)
  ndt_static 3 (YMD_FMT ++ [Space [32]; num0 N_Hour; Literal [58]; num0 N_Minute; IFixed F_Nanosecond3]) = false /\
  (* NaiveDate / NaiveTime members *)
  (static_ok YMD_FMT && forallb (it_kind_ok true false false) YMD_FMT && static_date_ok YMD_FMT) = true /\
  (static_ok YJ_FMT && forallb (it_kind_ok true false false) YJ_FMT && static_date_ok YJ_FMT) = true /\
  (static_ok ISOW_FMT && forallb (it_kind_ok true false false) ISOW_FMT && static_date_ok ISOW_FMT) = true /\
  (static_ok IMSP_FMT && forallb (it_kind_ok false true false) IMSP_FMT && static_time_ok IMSP_FMT) = true /\
  (static_ok (HMSF F_Nanosecond) && forallb (it_kind_ok false true false) (HMSF F_Nanosecond) && static_time_ok (HMSF F_Nanosecond)
   && frac_class_ok 9 (HMSF F_Nanosecond)) = true.
Proof. vm_compute. repeat split. Qed.

(** * 10. over format STRINGS: whenever StrftimeItems yields an item list of the class *)
Lemma sf_take_length : forall fuel st acc items,
  Model.Strftime.sf_take fuel st acc = Val (Some items) -> (List.length items < fuel + List.length acc)%nat.
Proof.
  induction fuel as [|f IH]; intros st acc items H; cbn [Model.Strftime.sf_take] in H; [discriminate H|].
  destruct (Model.Strftime.sf_next st) as [[o st']| |]; cbn [bind] in H; try discriminate H.
  destruct o as [it|].
  - pose proof (IH st' (it :: acc) items H) as Hl. cbn [List.length] in Hl. lia.
  - injection H as <-. rewrite rev_length. lia.
Qed.
Definition items_of (fmt : bytes) : R (option (list Item)) :=
  Model.Strftime.sf_take (S (Model.Strftime.sf_bound fmt)) (Model.Strftime.sf_new fmt) [].

Theorem class_date_parse_from_str fmt items :
  items_of fmt = Val (Some items) ->
  static_ok items = true -> forallb (it_kind_ok true false false) items = true -> static_date_ok items = true ->
  forall y o d, Proofs.C08Sweeps.repr y o d ->
  exists text,
    Model.Format.delayed_display (Model.Format.fa_of_date d) (Model.Strftime.sf_new fmt) = Model.Format.fok text /\
    date_parse_from_str text fmt = pok d.
Proof.
  intros Hi Hs Hk Hc y o d H. destruct (static_date_roundtrip items Hs Hk Hc y o d H) as (text & Hw & Hp).
  pose proof (sf_take_length _ _ _ _ Hi) as Hl. cbn [List.length] in Hl. rewrite Nat.add_0_r in Hl.
  destruct (sf_lift fmt items _ text Hi Hl Hw) as [Hd Hps].
  exists text. split; [exact Hd|]. unfold date_parse_from_str. rewrite Hps. exact Hp.
Qed.
Theorem class_time_parse_from_str fmt items k :
  items_of fmt = Val (Some items) ->
  static_ok items = true -> forallb (it_kind_ok false true false) items = true -> static_time_ok items = true ->
  frac_class_ok k items = true -> k = 3 \/ k = 6 \/ k = 9 ->
  forall t, valid_time t ->
  exists text,
    Model.Format.delayed_display (Model.Format.fa_of_time t) (Model.Strftime.sf_new fmt) = Model.Format.fok text /\
    time_parse_from_str text fmt = pok (static_time_value items k t).
Proof.
  intros Hi Hs Hk Hc Hfc Hk3 t Hvt. destruct (static_time_roundtrip items k Hs Hk Hc Hfc Hk3 t Hvt) as (text & Hw & Hp).
  pose proof (sf_take_length _ _ _ _ Hi) as Hl. cbn [List.length] in Hl. rewrite Nat.add_0_r in Hl.
  destruct (sf_lift fmt items _ text Hi Hl Hw) as [Hd Hps].
  exists text. split; [exact Hd|]. unfold time_parse_from_str. rewrite Hps. exact Hp.
Qed.
Theorem class_ndt_parse_from_str fmt items k :
  items_of fmt = Val (Some items) ->
  static_ok items = true -> forallb (it_kind_ok true true false) items = true ->
  static_date_ok items = true -> static_time_ok items = true ->
  frac_class_ok k items = true -> k = 3 \/ k = 6 \/ k = 9 ->
  forall y o d t, Proofs.C08Sweeps.repr y o d -> valid_time t ->
  exists text,
    Model.Format.delayed_display (Model.Format.fa_of_ndt (Model.DateTime.mk_ndt d t)) (Model.Strftime.sf_new fmt) = Model.Format.fok text /\
    ndt_parse_from_str text fmt = pok (Model.DateTime.mk_ndt d (static_time_value items k t)).
Proof.
  intros Hi Hs Hk Hcd Hct Hfc Hk3 y o d t H Hvt.
  destruct (static_ndt_roundtrip items k Hs Hk Hcd Hct Hfc Hk3 y o d t H Hvt) as (text & Hw & Hp).
  pose proof (sf_take_length _ _ _ _ Hi) as Hl. cbn [List.length] in Hl. rewrite Nat.add_0_r in Hl.
  destruct (sf_lift fmt items _ text Hi Hl Hw) as [Hd Hps].
  exists text. split; [exact Hd|]. unfold ndt_parse_from_str. rewrite Hps. exact Hp.
Qed.

(* format strings decided by computation: "%A, %d %B %Y %I:%M:%S%.3f %p", "%d/%m/%Y %H:%M", "%D %R" is
   outside (two-digit year) *)
Definition fmt_ndt_class (k : Z) (fmt : bytes) : bool :=
  match items_of fmt with Val (Some items) => ndt_static k items | _ => false end.
Example class_format_strings :
  fmt_ndt_class 3 [37;65;44;32;37;100;32;37;66;32;37;89;32;37;73;58;37;77;58;37;83;37;46;51;102;32;37;112] = true /\
  fmt_ndt_class 9 [37;100;47;37;109;47;37;89;32;37;72;58;37;77] = true /\
  fmt_ndt_class 9 [37;70;84;37;84;37;46;102] = true /\
  fmt_ndt_class 9 [37;68;32;37;82] = false /\
  (* %c = "%a %b %e %H:%M:%S %Y": the white space in front of %e takes the space padding of the day *)
  fmt_ndt_class 9 [37;99] = true /\
  (* "%e %B %Y, %l:%M %p" and "%v %T" *)
  fmt_ndt_class 9 [37;101;32;37;66;32;37;89;44;32;37;108;58;37;77;32;37;112] = true /\
  fmt_ndt_class 9 [37;118;32;37;84] = true.
Proof. vm_compute. repeat split. Qed.

(** the class with the two-digit years, over format strings: %D = %x = "%m/%d/%y", "%y%m%d", ... for the
    years of the pivot window *)
Theorem class2_date_parse_from_str fmt items :
  items_of fmt = Val (Some items) ->
  static_ok2 items = true -> forallb (it_kind_ok true false false) items = true ->
  forall y o d, Proofs.C08Sweeps.repr y o d ->
  two_digit_ok items y (fst (iso_of_dn (dn_of_yo y o))) ->
  date_comb_b y (fst (iso_of_dn (dn_of_yo y o))) (shape_parsed (sfields items)) = true ->
  exists text,
    Model.Format.delayed_display (Model.Format.fa_of_date d) (Model.Strftime.sf_new fmt) = Model.Format.fok text /\
    date_parse_from_str text fmt = pok d.
Proof.
  intros Hi Hs Hk y o d H H2 Hc. destruct (static2_date_roundtrip items Hs Hk y o d H H2 Hc) as (text & Hw & Hp).
  pose proof (sf_take_length _ _ _ _ Hi) as Hl. cbn [List.length] in Hl. rewrite Nat.add_0_r in Hl.
  destruct (sf_lift fmt items _ text Hi Hl Hw) as [Hd Hps].
  exists text. split; [exact Hd|]. unfold date_parse_from_str. rewrite Hps. exact Hp.
Qed.
Theorem class2_ndt_parse_from_str fmt items k :
  items_of fmt = Val (Some items) ->
  static_ok2 items = true -> forallb (it_kind_ok true true false) items = true -> static_time_ok items = true ->
  frac_class_ok k items = true -> k = 3 \/ k = 6 \/ k = 9 ->
  forall y o d t, Proofs.C08Sweeps.repr y o d -> valid_time t ->
  two_digit_ok items y (fst (iso_of_dn (dn_of_yo y o))) ->
  date_comb_b y (fst (iso_of_dn (dn_of_yo y o))) (shape_parsed (sfields items)) = true ->
  exists text,
    Model.Format.delayed_display (Model.Format.fa_of_ndt (Model.DateTime.mk_ndt d t)) (Model.Strftime.sf_new fmt) = Model.Format.fok text /\
    ndt_parse_from_str text fmt = pok (Model.DateTime.mk_ndt d (static_time_value items k t)).
Proof.
  intros Hi Hs Hk Hct Hfc Hk3 y o d t H Hvt H2 Hcd.
  destruct (static2_ndt_roundtrip items k Hs Hk Hct Hfc Hk3 y o d t H Hvt H2 Hcd) as (text & Hw & Hp).
  pose proof (sf_take_length _ _ _ _ Hi) as Hl. cbn [List.length] in Hl. rewrite Nat.add_0_r in Hl.
  destruct (sf_lift fmt items _ text Hi Hl Hw) as [Hd Hps].
  exists text. split; [exact Hd|]. unfold ndt_parse_from_str. rewrite Hps. exact Hp.
Qed.

(* %D and %x (both "%m/%d/%y"): in the class with the two-digit years; the fields are sufficient exactly
   for the years of the pivot window *)
Definition D_ITEMS : list Item := [num0 N_Month; Literal [47]; num0 N_Day; Literal [47]; num0 N_YearMod100].
Example two_digit_members :
  items_of [37; 68] = Val (Some D_ITEMS) /\ items_of [37; 120] = Val (Some D_ITEMS) /\
  static_ok2 D_ITEMS = true /\ static_ok D_ITEMS = false /\ forallb (it_kind_ok true false false) D_ITEMS = true /\
  date_comb_b 1970 1970 (shape_parsed (sfields D_ITEMS)) = true /\ date_comb_b 2069 2069 (shape_parsed (sfields D_ITEMS)) = true /\
  date_comb_b 1969 1969 (shape_parsed (sfields D_ITEMS)) = false /\ date_comb_b 2070 2070 (shape_parsed (sfields D_ITEMS)) = false.
Proof. vm_compute. repeat split. Qed.
(* hence: every date of 1970..=2069 round-trips through %D / %x *)
Corollary date_D_roundtrip y o d fmt : Proofs.C08Sweeps.repr y o d -> 1970 <= y <= 2069 -> fmt = [37; 68] \/ fmt = [37; 120] ->
  exists text,
    Model.Format.delayed_display (Model.Format.fa_of_date d) (Model.Strftime.sf_new fmt) = Model.Format.fok text /\
    date_parse_from_str text fmt = pok d.
Proof.
  intros H Hy Hf.
  assert (Hi : items_of fmt = Val (Some D_ITEMS)) by (destruct Hf as [-> | ->]; vm_compute; reflexivity).
  apply (class2_date_parse_from_str fmt D_ITEMS Hi ltac:(vm_compute; reflexivity) ltac:(vm_compute; reflexivity) y o d H).
  - split; [intros _; lia|intros Hc; vm_compute in Hc; discriminate Hc].
  - assert (E : forall IY, date_comb_b y IY (shape_parsed (sfields D_ITEMS)) = ((1970 <=? y) && (y <=? 2069))).
    { intros IY. unfold date_comb_b, grp_b, det_b. cbv zeta.
      change (p_year (shape_parsed (sfields D_ITEMS))) with (@None Z).
      change (p_year_div_100 (shape_parsed (sfields D_ITEMS))) with (@None Z).
      change (p_year_mod_100 (shape_parsed (sfields D_ITEMS))) with (Some 0).
      change (p_isoyear (shape_parsed (sfields D_ITEMS))) with (@None Z).
      change (p_isoyear_div_100 (shape_parsed (sfields D_ITEMS))) with (@None Z).
      change (p_isoyear_mod_100 (shape_parsed (sfields D_ITEMS))) with (@None Z).
      change (p_month (shape_parsed (sfields D_ITEMS))) with (Some 0).
      change (p_day (shape_parsed (sfields D_ITEMS))) with (Some 0).
      cbn [some_b negb andb orb]. destruct ((1970 <=? y) && (y <=? 2069)); reflexivity. }
    rewrite E. lia.
Qed.
