(** C14 on a zone that is not a fixed offset: [to_datetime_with_timezone] for a zone with one
    transition (Model/C14.v, [to_datetime_with_stepzone]; the harness's StepZone).  Soundness: a
    successful result is one of the zone's candidates for the resolved wall clock, it agrees with every
    supplied date / time field, with the offset field, and - since the repair /repo 56dedf6 - with the
    timestamp field: its offset is the one the zone has at the timestamp's instant, so the result IS
    that instant.  Before the repair the last part failed ([stepzone_unrepaired_refuted]). *)
From Coq Require Import ZArith List Bool Lia ZifyBool.
From V Require Import Base.Int Base.IntLemmas Base.IO Model.TimeDelta.
From V Require Model.Date Model.Time.
From V Require Import Model.DateTime Model.Parsed Model.C14.
From V Require Import Proofs.C14 Proofs.C14Date Proofs.C14Iso.
Import ListNotations.
Open Scope Z_scope.

(** the candidates of [sz_from_local]: each is the wall clock minus one of the two offsets *)
Lemma sz_cand_inv local off (x : option dtz) :
  (let* o := ndt_checked_sub_offset local off in
   Val (match o with Some u => Some (mk_dtz u off) | None => None end)) = Val x ->
  forall z, x = Some z -> dz_off z = off /\ ndt_checked_sub_offset local off = Val (Some (dz_utc z)).
Proof.
  intros H z Hz. apply bind_val in H. destruct H as ([u|] & Hu & H); inversion H; subst; [|discriminate].
  inversion H1; subst. cbn [dz_off dz_utc]. auto.
Qed.

Definition is_cand (t a b : Z) (local : ndt) (z : dtz) : Prop :=
  (dz_off z = a \/ dz_off z = b) /\ ndt_checked_sub_offset local (dz_off z) = Val (Some (dz_utc z)).

Lemma sz_from_local_cands t a b local m : sz_from_local t a b local = Val m ->
  match m with
  | MNone => True
  | MSingle z => is_cand t a b local z
  | MAmbiguous x y => is_cand t a b local x /\ is_cand t a b local y /\ dz_off x = a /\ dz_off y = b
  end.
Proof.
  unfold sz_from_local. intros H. apply bind_val in H. destruct H as (w & _ & H).
  destruct ((w - a <? t) && (t <=? w - b)).
  - apply bind_val in H. destruct H as (x & Hx & H). apply bind_val in H. destruct H as (y & Hy & H).
    destruct x as [x|], y as [y|]; inversion H; subst; try exact I.
    destruct (sz_cand_inv _ _ _ Hx x eq_refl) as [Ha Ua]. destruct (sz_cand_inv _ _ _ Hy y eq_refl) as [Hb Ub].
    unfold is_cand. rewrite Ha, Hb. auto 6.
  - destruct (w - a <? t).
    + apply bind_val in H. destruct H as (x & Hx & H). destruct x as [x|]; inversion H; subst; [|exact I].
      destruct (sz_cand_inv _ _ _ Hx x eq_refl) as [Ha Ua]. unfold is_cand. rewrite Ha. auto.
    + destruct (t <=? w - b).
      * apply bind_val in H. destruct H as (y & Hy & H). destruct y as [y|]; inversion H; subst; [|exact I].
        destruct (sz_cand_inv _ _ _ Hy y eq_refl) as [Hb Ub]. unfold is_cand. rewrite Hb. auto.
      * inversion H. exact I.
Qed.

(** the offset the zone has at the timestamp's instant, when a timestamp is supplied *)
Definition guessed_of (p : parsed) (t a b : Z) (g : Z) : Prop :=
  match p_timestamp p with
  | Some ts => exists dt, dt_from_timestamp ts (unwrap_or (p_nanosecond p) 0) = Val (Some dt) /\
                          sz_offset_utc t a b dt = Val g
  | None => g = 0
  end.

(** the repaired candidate test *)
Definition chk (p : parsed) (g : Z) (dt : dtz) : bool :=
  if (match p_timestamp p with Some _ => true | None => false end) && negb (dz_off dt =? g) then false
  else match p_offset p with Some offset => dz_off dt =? offset | None => true end.
Lemma chk_true p g x : chk p g x = true ->
  (forall o, p_offset p = Some o -> dz_off x = o) /\ (p_timestamp p <> None -> dz_off x = g).
Proof.
  intros Hx. unfold chk in Hx.
  destruct (p_timestamp p) as [ts|]; cbn [andb] in Hx.
  - destruct (dz_off x =? g) eqn:E; cbn [negb] in Hx; [|discriminate]. split; [|intros _; lia].
    intros o Ho. rewrite Ho in Hx. lia.
  - split; [|intros X; congruence]. intros o Ho. rewrite Ho in Hx. lia.
Qed.

Theorem stepzone_sound p t a b z :
  typed p -> -86400 < a < 86400 -> -86400 < b < 86400 ->
  to_datetime_with_stepzone p t a b = Val (Ok z) ->
  exists g local,
    guessed_of p t a b g /\
    to_naive_datetime_with_offset p g = Val (Ok local) /\
    (* the result is a date-time of the zone whose wall clock is the resolved one *)
    is_cand t a b local z /\
    (* every supplied date / time field, and the timestamp read with the guessed offset *)
    date_sound p (nd_date local) /\ time_sound p (nd_time local) /\ ts_sound p local g /\
    (* the offset field *)
    (forall o, p_offset p = Some o -> dz_off z = o) /\
    (* the timestamp field decides between the candidates *)
    (p_timestamp p <> None -> dz_off z = g).
Proof.
  intros T Ha Hb H. unfold to_datetime_with_stepzone in H.
  apply ebind_ok in H. destruct H as (g & Hg & H).
  apply ebind_ok in H. destruct H as (local & Hlocal & H).
  apply bind_val in H. destruct H as (m & Hm & H).
  assert (HG : guessed_of p t a b g /\ (g = a \/ g = b \/ g = 0)).
  { unfold guessed_of. destruct (p_timestamp p) as [ts|].
    - apply ebind_ok in Hg. destruct Hg as (dt & Hdt & Hg). apply ok_or_r_ok in Hdt.
      apply bind_val in Hg. destruct Hg as (o & Ho & Hg). inversion Hg; subst o.
      split; [exists dt; auto|].
      unfold sz_offset_utc in Ho. apply bind_val in Ho. destruct Ho as (x & _ & Ho).
      destruct (x <? t); inversion Ho; auto.
    - inversion Hg. auto. }
  destruct HG as [HG Hgr].
  assert (Hi : in_i32 g = true) by (unfold in_i32, in_range, i32_min, i32_max; lia).
  destruct (to_naive_datetime_sound p g local T Hi Hlocal) as (DS & TS & SS).
  pose proof (sz_from_local_cands _ _ _ _ _ Hm) as Hc.
  exists g, local. split; [exact HG|]. split; [exact Hlocal|].
  destruct m as [|x|x y].
  - discriminate.
  - match type of H with (if ?e then _ else _) = _ => destruct e eqn:E end; inversion H; subst.
    destruct (chk_true p g z E) as [H1 H2]. auto 10.
  - destruct Hc as (Cx & Cy & _ & _).
    match type of H with (match ?e1 with true => _ | false => _ end) = _ => destruct e1 eqn:Ex end;
    match type of H with (match ?e2 with true => _ | false => _ end) = _ => destruct e2 eqn:Ey end;
    inversion H; subst.
    + destruct (chk_true p g z Ex) as [H1 H2]. auto 10.
    + destruct (chk_true p g z Ey) as [H1 H2]. auto 10.
Qed.

(** with a timestamp the result IS the supplied instant: its UTC reading is the resolved wall clock
    minus the offset the zone has at the timestamp *)
Corollary stepzone_timestamp_instant p t a b z :
  typed p -> -86400 < a < 86400 -> -86400 < b < 86400 -> p_timestamp p <> None ->
  to_datetime_with_stepzone p t a b = Val (Ok z) ->
  exists g local, guessed_of p t a b g /\ to_naive_datetime_with_offset p g = Val (Ok local) /\
                  ts_sound p local g /\ dz_off z = g /\
                  ndt_checked_sub_offset local g = Val (Some (dz_utc z)).
Proof.
  intros T Ha Hb Hts H. destruct (stepzone_sound p t a b z T Ha Hb H) as (g & local & HG & HL & (_ & HU) & _ & _ & SS & _ & HO).
  specialize (HO Hts). exists g, local. rewrite HO in HU. auto 6.
Qed.

(** the hypotheses are met, both arms of the disambiguation are taken, and the inconsistent state
    (timestamp of the earlier candidate, offset of the later one) is refused: zone +02:00 -> +01:00 at
    1635642000 (2021-10-31T01:00:00Z), wall clock 2021-10-31 02:30:00 *)
Definition ex_zone_fields (ts off : option Z) : parsed :=
  pput F_timestamp ts (pput F_offset off (pput F_second (Some 0) (pput F_minute (Some 30)
  (pput F_hour_mod_12 (Some 2) (pput F_hour_div_12 (Some 0)
  (pput F_year (Some 2021) (pput F_ordinal (Some 304) parsed_new))))))).
Definition res_off (r : R (res dtz)) : option Z :=
  match r with Val (Ok z) => Some (dz_off z) | _ => None end.
Lemma stepzone_examples :
  res_off (to_datetime_with_stepzone (ex_zone_fields None (Some 7200)) 1635642000 7200 3600) = Some 7200 /\
  res_off (to_datetime_with_stepzone (ex_zone_fields None (Some 3600)) 1635642000 7200 3600) = Some 3600 /\
  to_datetime_with_stepzone (ex_zone_fields None None) 1635642000 7200 3600 = Val (Err NotEnough) /\
  res_off (to_datetime_with_stepzone (ex_zone_fields (Some 1635640200) None) 1635642000 7200 3600) = Some 7200 /\
  res_off (to_datetime_with_stepzone (ex_zone_fields (Some 1635643800) None) 1635642000 7200 3600) = Some 3600 /\
  to_datetime_with_stepzone (ex_zone_fields (Some 1635640200) (Some 3600)) 1635642000 7200 3600 = Val (Err Impossible).
Proof. vm_compute. repeat split; reflexivity. Qed.

(** the unrepaired body (check of the offset field only) returned, for that last state, the later
    candidate: an instant 3600 s away from the supplied timestamp *)
Definition to_datetime_with_stepzone_unrepaired (p : parsed) (t a b : Z) : R (res dtz) :=
  let! guessed_offset :=
    (match p_timestamp p with
     | Some timestamp =>
       let nanosecond := unwrap_or (p_nanosecond p) 0 in
       let! dt := ok_or_r (dt_from_timestamp timestamp nanosecond) OutOfRange in
       let* o := sz_offset_utc t a b dt in Val (Ok o)
     | None => Val (Ok 0)
     end) in
  let check_offset (dt : dtz) : bool :=
    match p_offset p with Some offset => dz_off dt =? offset | None => true end in
  let! datetime := to_naive_datetime_with_offset p guessed_offset in
  let* m := sz_from_local t a b datetime in
  match m with
  | MNone => Val (Err Impossible)
  | MSingle x => if check_offset x then Val (Ok x) else Val (Err Impossible)
  | MAmbiguous mn mx =>
    match check_offset mn, check_offset mx with
    | false, false => Val (Err Impossible)
    | false, true => Val (Ok mx)
    | true, false => Val (Ok mn)
    | true, true => Val (Err NotEnough)
    end
  end.
Lemma stepzone_unrepaired_refuted :
  exists p z, to_datetime_with_stepzone_unrepaired p 1635642000 7200 3600 = Val (Ok z) /\
              p_timestamp p = Some 1635640200 /\
              (let* ts := dt_timestamp (dz_utc z) in Val ts) = Val 1635643800.
Proof.
  exists (ex_zone_fields (Some 1635640200) (Some 3600)).
  eexists. split; [vm_compute; reflexivity|]. split; vm_compute; reflexivity.
Qed.
