(** Proofs for C12, part 5: discharging [args_view] from the calendar theorems of C01/C08
    (Proofs/Date.v, Proofs/DateIso.v, Proofs/C08Date.v) and C07 (Proofs/Time.v), and the
    property at the level of cases: for every decodable value and every format string of the
    documented family the judge accepts the model's output of `sf.fmt`. *)
From Coq Require Import ZArith List Bool Lia ZifyBool String.
From V Require Import Base.Int Base.IO Base.IntLemmas Base.Lift Spec.Gregorian Spec.StrftimeDoc
  Model.Items Gen.Strftime Gen.Locales Model.Strftime Model.Format Model.C12 Judge.C12
  Proofs.C12 Proofs.C12Str Proofs.C12Tok Proofs.C12Fam.
From V Require Import Proofs.C08Sweeps Proofs.C08Date Proofs.C08Days Proofs.C08AddDays Proofs.Gregorian Proofs.Date Proofs.DateIso.
From V Require Model.Date Model.Time Model.DateTime Proofs.Time.
Import ListNotations.
Open Scope Z_scope.
Ltac Zify.zify_post_hook ::= Z.to_euclidean_division_equations.

(** * The calendar reading of every valid NaiveDate *)
Theorem date_view_of_repr y o d : repr y o d -> date_view d (dn_of_yo y o).
Proof.
  intros H. pose proof H as (Hy & Ho & Hd).
  pose proof (repr_acc y o d H) as A. destruct (md_of_ordinal (is_leap y) o) as [m dd] eqn:Emd.
  destruct A as (Ey & Eo & _ & _ & _ & _ & Em & Edd & Ewd & Hvm & _).
  pose proof (year_range_bounds y Hy) as Hyb.
  pose proof (yo_of_dn_of_yo y o Ho) as Hyo.
  pose proof (repr_dn_in_range y o d H) as Hr. unfold dn_in_range, DN_MIN, DN_MAX in Hr.
  assert (Hor : 1 <= o <= 366) by (rewrite valid_yo_iff in Ho; destruct (is_leap y); lia).
  constructor.
  - unfold in_i32, in_range, i32_min, i32_max. lia.
  - unfold year_of_dn. rewrite Hyo. cbn [fst]. split; [exact Ey|]. unfold in_i32, in_range, i32_min, i32_max. lia.
  - exists y, m, dd. unfold ymd_of_dn. rewrite Hyo, Emd.
    unfold valid_md in Hvm. pose proof (days_in_month_bounds (is_leap y) m).
    repeat split; auto; lia.
  - unfold ordinal_of_dn. rewrite Hyo. cbn [snd]. split; [exact Eo|exact Hor].
  - exact Ewd.
  - destruct (d_iso_week_spec y o d H) as (Hw & Hwy & Hww). cbv zeta in Hw, Hwy, Hww.
    eexists. split; [exact Hw|]. split; [exact Hwy|]. split; [exact Hww|].
    split; [apply iso_of_dn_bounds|].
    rewrite iso_of_dn_yo by exact Ho. cbv zeta.
    destruct (_ <? 1); [|destruct (_ <? _)]; cbn [fst]; unfold in_i32, in_range, i32_min, i32_max; lia.
  - apply num_days_from_ce_spec. exact H.
Qed.

Theorem date_view_of_dn n : dn_in_range n = true -> date_view (date_of_dn n) n.
Proof.
  intros Hn. pose proof (date_of_dn_repr n Hn) as H.
  destruct (yo_of_dn_valid n) as [_ Hd]. rewrite <- Hd at 2. apply date_view_of_repr. exact H.
Qed.

(** * The formatter's arguments for each kind of value *)
Lemma dec_date_repr y o : date_ok y o = true ->
  DateTime.dec_date (VTup [VInt y; VInt o]) = Some (mkdate y o) /\ repr y o (mkdate y o).
Proof.
  intros H. unfold date_ok in H. apply andb_prop in H. destruct H as [Hy Ho].
  pose proof (year_range_bounds y Hy) as Hyb.
  assert (Hor : 1 <= o <= 366) by (rewrite valid_yo_iff in Ho; destruct (is_leap y); lia).
  assert (Hi : in_i32 y = true) by (unfold in_i32, in_range, i32_min, i32_max; lia).
  assert (Hu : in_u32 o = true) by (unfold in_u32, in_range, u32_max; lia).
  split.
  - unfold DateTime.dec_date. rewrite Hi, Hu. cbn [andb]. rewrite from_yo_opt_spec by assumption.
    rewrite Hy, Ho. reflexivity.
  - repeat split; assumption.
Qed.

Lemma time_view_of s f : time_ok s f = true ->
  Time.dec_time (VTup [VInt s; VInt f]) = Some (Time.mk_time s f) /\
  time_view (Time.mk_time s f) s (f mod G9) (G9 <=? f).
Proof.
  intros H. unfold time_ok, G9 in *. split.
  - unfold Time.dec_time. replace ((0 <=? s) && (s <? 86400) && (0 <=? f) && (f <? 2000000000)) with true by lia. reflexivity.
  - unfold time_view. cbn [Time.tsecs Time.tfrac]. destruct (1000000000 <=? f) eqn:E; repeat split; lia.
Qed.

Theorem args_view_date y o sv : sval_of 0 (VTup [VInt y; VInt o]) = Some sv ->
  exists d, DateTime.dec_date (VTup [VInt y; VInt o]) = Some d /\ args_view (fa_of_date d) sv.
Proof.
  cbn [sval_of]. destruct (date_ok y o) eqn:E; [|discriminate]. intros H. injection H as <-.
  destruct (dec_date_repr y o E) as [Hd Hr]. exists (mkdate y o). split; [exact Hd|].
  constructor; cbn [fa_of_date fa_date fa_time fa_off sv_dn sv_sod sv_off sv_unix]; auto.
  apply date_view_of_repr. exact Hr.
Qed.

Theorem args_view_time s f sv : sval_of 1 (VTup [VInt s; VInt f]) = Some sv ->
  exists t, Time.dec_time (VTup [VInt s; VInt f]) = Some t /\ args_view (fa_of_time t) sv.
Proof.
  cbn [sval_of]. destruct (time_ok s f) eqn:E; [|discriminate]. intros H. injection H as <-.
  destruct (time_view_of s f E) as [Hd Hv]. eexists. split; [exact Hd|].
  constructor; cbn [fa_of_time fa_date fa_time fa_off sv_dn sv_sod sv_nano sv_leap sv_off sv_unix]; auto.
Qed.

Theorem args_view_ndt y o s f sv : sval_of 2 (VTup [VInt y; VInt o; VInt s; VInt f]) = Some sv ->
  exists n, DateTime.dec_ndt (VTup [VInt y; VInt o; VInt s; VInt f]) = Some n /\ args_view (fa_of_ndt n) sv.
Proof.
  cbn [sval_of]. destruct (date_ok y o) eqn:E1; [|discriminate]. destruct (time_ok s f) eqn:E2; [|discriminate].
  cbn [andb]. intros H. injection H as <-.
  destruct (dec_date_repr y o E1) as [Hd Hr]. destruct (time_view_of s f E2) as [Ht Hv].
  eexists. split.
  - unfold DateTime.dec_ndt. rewrite Hd, Ht. reflexivity.
  - constructor; cbn [fa_of_ndt DateTime.nd_date DateTime.nd_time fa_date fa_time fa_off
                       sv_dn sv_sod sv_nano sv_leap sv_off sv_unix]; auto.
    + apply date_view_of_repr. exact Hr.
    + eexists _, _. repeat split. lia.
Qed.

Lemma fixed_offset_display_total off : -86400 < off < 86400 -> exists name, fixed_offset_display off = Val name.
Proof.
  intros Ho. unfold fixed_offset_display.
  assert (E : (if off <? 0 then let* n := neg_i32 off in Val (45, n) else Val (43, off))
              = Val (off_sign off, Z.abs off)).
  { unfold off_sign. destruct (off <? 0) eqn:E.
    - unfold neg_i32. rewrite chk_i32 by lia. cbv [bind]. rewrite Z.abs_neq by lia. reflexivity.
    - rewrite Z.abs_eq by lia. reflexivity. }
  rewrite E. cbv [bind]. set (a := Z.abs off). assert (Ha : 0 <= a < 86400) by (unfold a; lia).
  rewrite rem_euclid_pos by lia.
  replace (in_i32 (a / 60)) with true by (symmetry; unfold in_i32, in_range, i32_min, i32_max; lia).
  rewrite div_euclid_pos by lia. rewrite chk_i32 by lia.
  rewrite rem_euclid_pos by lia.
  replace (in_i32 (a / 60 / 60)) with true by (symmetry; unfold in_i32, in_range, i32_min, i32_max; lia).
  rewrite div_euclid_pos by lia. rewrite chk_i32 by lia.
  destruct (a mod 60 =? 0); eexists; reflexivity.
Qed.

(* the wall-clock date handed to the formatter, when the local day is inside the date range *)
Lemma shift_date_view y o q : repr y o (mkdate y o) -> -1 <= q <= 1 ->
  dn_in_range (dn_of_yo y o + q) = true ->
  exists d', DateTime.shift_date_overflowing (mkdate y o) q = Val d' /\ date_view d' (dn_of_yo y o + q).
Proof.
  intros Hr Hq Hin. unfold DateTime.shift_date_overflowing.
  destruct (q =? -1) eqn:E1.
  - assert (q = -1) by lia. subst q. rewrite (pred_opt_spec y o _ Hr).
    replace (dn_of_yo y o + -1) with (dn_of_yo y o - 1) in * by lia. rewrite Hin. cbn [bind date_if].
    eexists. split; [reflexivity|]. apply date_view_of_dn. exact Hin.
  - destruct (q =? 1) eqn:E2.
    + assert (q = 1) by lia. subst q. rewrite (succ_opt_spec y o _ Hr). rewrite Hin. cbn [bind date_if].
      eexists. split; [reflexivity|]. apply date_view_of_dn. exact Hin.
    + assert (q = 0) by lia. subst q. rewrite Z.add_0_r. eexists. split; [reflexivity|].
      apply date_view_of_repr. exact Hr.
Qed.

(* ... and when it is one day outside: the two sentinel dates of [shift_date_overflowing]
   (NaiveDate::BEFORE_MIN / AFTER_MAX), whose calendar reading is computed on the closed words *)
Lemma date_view_BEFORE_MIN : date_view Date.D_BEFORE_MIN (DN_MIN - 1).
Proof.
  constructor.
  - vm_compute. reflexivity.
  - split; vm_compute; reflexivity.
  - eexists _, _, _. split; [vm_compute; reflexivity|]. split; [vm_compute; reflexivity|].
    split; [vm_compute; reflexivity|]. lia.
  - split; [vm_compute; reflexivity|]. vm_compute. split; discriminate.
  - vm_compute. reflexivity.
  - eexists. split; [vm_compute; reflexivity|]. split; [vm_compute; reflexivity|]. split; [vm_compute; reflexivity|].
    split; [vm_compute; split; discriminate|vm_compute; reflexivity].
  - vm_compute. reflexivity.
Qed.
Lemma date_view_AFTER_MAX : date_view Date.D_AFTER_MAX (DN_MAX + 1).
Proof.
  constructor.
  - vm_compute. reflexivity.
  - split; vm_compute; reflexivity.
  - eexists _, _, _. split; [vm_compute; reflexivity|]. split; [vm_compute; reflexivity|].
    split; [vm_compute; reflexivity|]. lia.
  - split; [vm_compute; reflexivity|]. vm_compute. split; discriminate.
  - vm_compute. reflexivity.
  - eexists. split; [vm_compute; reflexivity|]. split; [vm_compute; reflexivity|]. split; [vm_compute; reflexivity|].
    split; [vm_compute; split; discriminate|vm_compute; reflexivity].
  - vm_compute. reflexivity.
Qed.

Lemma shift_date_view_wide y o q : repr y o (mkdate y o) -> -1 <= q <= 1 ->
  exists d', DateTime.shift_date_overflowing (mkdate y o) q = Val d' /\ date_view d' (dn_of_yo y o + q).
Proof.
  intros Hr Hq. destruct (dn_in_range (dn_of_yo y o + q)) eqn:Hin; [apply shift_date_view; assumption|].
  pose proof (repr_dn_in_range y o _ Hr) as Hd. unfold dn_in_range in Hin, Hd.
  unfold DateTime.shift_date_overflowing.
  destruct (q =? -1) eqn:E1.
  - assert (q = -1) by lia. subst q. rewrite (pred_opt_spec y o _ Hr).
    replace (dn_of_yo y o + -1) with (dn_of_yo y o - 1) in * by lia.
    unfold dn_in_range. rewrite Hin. cbn [bind date_if].
    eexists. split; [reflexivity|]. replace (dn_of_yo y o - 1) with (DN_MIN - 1) by lia. exact date_view_BEFORE_MIN.
  - destruct (q =? 1) eqn:E2.
    + assert (q = 1) by lia. subst q. rewrite (succ_opt_spec y o _ Hr).
      unfold dn_in_range. rewrite Hin. cbn [bind date_if].
      eexists. split; [reflexivity|]. replace (dn_of_yo y o + 1) with (DN_MAX + 1) by lia. exact date_view_AFTER_MAX.
    + assert (q = 0) by lia. subst q. rewrite Z.add_0_r in Hin. lia.
Qed.

Theorem args_view_dtz y o s f off sv :
  sval_of 3 (VTup [VInt y; VInt o; VInt s; VInt f; VInt off]) = Some sv ->
  (forall n, sv_dn sv = Some n -> dn_in_range n = true) ->
  exists z a, DateTime.dec_dtz (VTup [VInt y; VInt o; VInt s; VInt f; VInt off]) = Some z /\
              fa_of_dtz z = Val a /\ args_view a sv.
Proof.
  cbn [sval_of]. destruct (date_ok y o) eqn:E1; [|discriminate]. destruct (time_ok s f) eqn:E2; [|discriminate].
  destruct (off_ok off) eqn:E3; [|discriminate]. cbn [andb]. intros H Hrange. injection H as <-.
  cbn [sv_dn] in Hrange. specialize (Hrange _ eq_refl).
  destruct (dec_date_repr y o E1) as [Hd Hr]. destruct (time_view_of s f E2) as [Ht Hv].
  unfold off_ok in E3. assert (Ho : -86400 < off < 86400) by lia.
  assert (Hts : 0 <= s < 86400 /\ 0 <= f < 2000000000) by (unfold time_ok, G9 in E2; lia).
  destruct (Proofs.Time.offset_shift_range s off (proj1 Hts) Ho) as (Hm & Hq & Hsum).
  destruct (shift_date_view y o ((s + off) / 86400) Hr Hq Hrange) as (d' & Hsd & Hdv).
  destruct (fixed_offset_display_total off Ho) as (name & Hname).
  eexists (DateTime.mk_dtz (DateTime.mk_ndt (mkdate y o) (Time.mk_time s f)) off), _.
  split; [|split].
  - unfold DateTime.dec_dtz, DateTime.dec_ndt. rewrite Hd, Ht.
    unfold DateTime.east_opt, Gen.DateTimeConsts.FO_EAST_LO, Gen.DateTimeConsts.FO_EAST_HI.
    replace ((-86400 <? off) && (off <? 86400)) with true by lia. reflexivity.
  - unfold fa_of_dtz, DateTime.overflowing_naive_local, DateTime.ndt_overflowing_add_offset.
    cbn [DateTime.dz_utc DateTime.dz_off DateTime.nd_time DateTime.nd_date].
    rewrite (Proofs.Time.add_offset_spec (Time.mk_time s f) off) by (unfold Proofs.Time.tvalid; cbn; lia).
    cbn [bind Time.tsecs Time.tfrac]. rewrite Hsd. cbn [bind]. rewrite Hname. cbn [bind].
    cbn [DateTime.nd_date DateTime.nd_time]. reflexivity.
  - constructor; cbn [fa_date fa_time fa_off sv_dn sv_sod sv_nano sv_leap sv_off sv_utc sv_unix].
    + exact Hdv.
    + unfold time_view in *. cbn [Time.tsecs Time.tfrac] in *. destruct Hv as (_ & _ & Hn & Hf). repeat split; auto; lia.
    + repeat split; auto; lia.
    + eexists _, _. split; [reflexivity|]. split; [reflexivity|]. unfold unix_secs. lia.
Qed.

Theorem args_view_utc y o s f sv : sval_of 4 (VTup [VInt y; VInt o; VInt s; VInt f]) = Some sv ->
  exists n a, DateTime.dec_ndt (VTup [VInt y; VInt o; VInt s; VInt f]) = Some n /\
              fa_of_utc n = Val a /\ args_view a sv.
Proof.
  cbn [sval_of]. destruct (date_ok y o) eqn:E1; [|discriminate]. destruct (time_ok s f) eqn:E2; [|discriminate].
  cbn [andb]. intros H. injection H as <-.
  destruct (dec_date_repr y o E1) as [Hd Hr]. destruct (time_view_of s f E2) as [Ht Hv].
  assert (Hts : 0 <= s < 86400 /\ 0 <= f < 2000000000) by (unfold time_ok, G9 in E2; lia).
  eexists (DateTime.mk_ndt (mkdate y o) (Time.mk_time s f)), _. split; [|split].
  - unfold DateTime.dec_ndt. rewrite Hd, Ht. reflexivity.
  - unfold fa_of_utc, DateTime.overflowing_naive_local, DateTime.ndt_overflowing_add_offset.
    cbn [DateTime.dz_utc DateTime.dz_off DateTime.nd_time DateTime.nd_date].
    rewrite (Proofs.Time.add_offset_spec (Time.mk_time s f) 0) by (unfold Proofs.Time.tvalid; cbn; lia).
    cbn [bind Time.tsecs Time.tfrac]. replace ((s + 0) / 86400) with 0 by lia.
    replace ((s + 0) mod 86400) with s by lia.
    unfold DateTime.shift_date_overflowing. cbn [Z.eqb bind]. reflexivity.
  - constructor; cbn [DateTime.nd_date DateTime.nd_time fa_date fa_time fa_off
                       sv_dn sv_sod sv_nano sv_leap sv_off sv_utc sv_unix].
    + apply date_view_of_repr. exact Hr.
    + exact Hv.
    + repeat split; auto; lia.
    + eexists _, _. repeat split. lia.
Qed.

(** * The property over cases: the judge accepts the model's output of `sf.fmt` *)
(* the judge's and the model's UTF-8 checks are the same function (convertible) *)
Lemma utf8_ok_valid s : utf8_ok s = utf8_valid s.
Proof. reflexivity. Qed.

Lemma bytes_eqb_refl s : bytes_eqb s s = true.
Proof. induction s as [|c s IH]; [reflexivity|]. cbn. rewrite Z.eqb_refl. exact IH. Qed.

Definition accepted (v : verdict) : Prop := match v with JBad _ => False | _ => True end.

Lemma run_fmt_of_view kind v fmt a sv :
  dec_value kind v = Some (Val a) -> args_view a sv -> documented_family fmt ->
  sval_of kind v = Some sv ->
  accepted (judge_fmt false kind v fmt (run_fmt false kind v fmt)).
Proof.
  intros Hd Hv Hf Hs. unfold judge_fmt, run_fmt. rewrite Hs, Hd. cbn [andb bind].
  pose proof (format_spec_family a sv fmt Hv Hf) as C. unfold sf_new in C.
  destruct (doc_format sv fmt) as [s| |]; cbn [claim] in C; [| |exact I].
  - rewrite C. unfold fok, judge_eq. cbn [val_eqb]. rewrite bytes_eqb_refl. exact I.
  - rewrite C. unfold ferr, judge_eq. cbn [val_eqb]. rewrite bytes_eqb_refl. exact I.
Qed.

Ltac inv1 v Es := destruct v; cbn [sval_of] in Es; try discriminate Es.
Ltac invl l Es := let a := fresh "a" in destruct l as [|a l]; try discriminate Es; [idtac].
Lemma sval_of_inv0 v sv : sval_of 0 v = Some sv -> exists y o, v = VTup [VInt y; VInt o].
Proof.
  intros Es. inv1 v Es. destruct l as [|a l]; try discriminate Es. inv1 a Es.
  destruct l as [|a l]; try discriminate Es. inv1 a Es. destruct l; try discriminate Es. eauto.
Qed.
Lemma sval_of_inv1 v sv : sval_of 1 v = Some sv -> exists s f, v = VTup [VInt s; VInt f].
Proof.
  intros Es. inv1 v Es. destruct l as [|a l]; try discriminate Es. inv1 a Es.
  destruct l as [|a l]; try discriminate Es. inv1 a Es. destruct l; try discriminate Es. eauto.
Qed.
Lemma sval_of_inv2 v sv : sval_of 2 v = Some sv -> exists y o s f, v = VTup [VInt y; VInt o; VInt s; VInt f].
Proof.
  intros Es. inv1 v Es. destruct l as [|a l]; try discriminate Es. inv1 a Es.
  destruct l as [|a l]; try discriminate Es. inv1 a Es. destruct l as [|a l]; try discriminate Es. inv1 a Es.
  destruct l as [|a l]; try discriminate Es. inv1 a Es. destruct l; try discriminate Es. eauto.
Qed.
Lemma sval_of_inv3 v sv : sval_of 3 v = Some sv ->
  exists y o s f off, v = VTup [VInt y; VInt o; VInt s; VInt f; VInt off].
Proof.
  intros Es. inv1 v Es. destruct l as [|a l]; try discriminate Es. inv1 a Es.
  destruct l as [|a l]; try discriminate Es. inv1 a Es. destruct l as [|a l]; try discriminate Es. inv1 a Es.
  destruct l as [|a l]; try discriminate Es. inv1 a Es. destruct l as [|a l]; try discriminate Es. inv1 a Es.
  destruct l; try discriminate Es. eexists _, _, _, _, _. reflexivity.
Qed.
Lemma sval_of_inv4 v sv : sval_of 4 v = Some sv -> exists y o s f, v = VTup [VInt y; VInt o; VInt s; VInt f].
Proof.
  intros Es. inv1 v Es. destruct l as [|a l]; try discriminate Es. inv1 a Es.
  destruct l as [|a l]; try discriminate Es. inv1 a Es. destruct l as [|a l]; try discriminate Es. inv1 a Es.
  destruct l as [|a l]; try discriminate Es. inv1 a Es. destruct l; try discriminate Es. eauto.
Qed.
Lemma sval_of_kind kind v sv : sval_of kind v = Some sv -> kind = 0 \/ kind = 1 \/ kind = 2 \/ kind = 3 \/ kind = 4.
Proof.
  intros Es. assert (0 <= kind <= 4); [|lia].
  destruct kind as [|p|p]; [lia| |discriminate Es].
  destruct p as [p|p|]; [destruct p as [p|p|]|destruct p as [p|p|]|]; try lia; try discriminate Es.
  destruct p as [p|p|]; try lia; discriminate Es.
Qed.

(** C12 holds of the model on `sf.fmt`: every kind of value (NaiveDate, NaiveTime, NaiveDateTime,
    DateTime<FixedOffset>, DateTime<Utc>) x every format string of the documented family.
    For a DateTime<FixedOffset> the local calendar day must lie inside the NaiveDate range (the
    two out-of-range sentinel dates of [overflowing_naive_local] are not covered). *)
Theorem C12_holds_fmt : forall kind v fmt,
  documented_family fmt ->
  (forall sv n, sval_of kind v = Some sv -> sv_dn sv = Some n -> dn_in_range n = true) ->
  accepted (judge (bytes_of_string "sf.fmt") [VInt kind; v; VStr fmt]
                  (run (bytes_of_string "sf.fmt") [VInt kind; v; VStr fmt])).
Proof.
  intros kind v fmt Hf Hrange.
  change (judge (bytes_of_string "sf.fmt") [VInt kind; v; VStr fmt])
    with (fun out => if utf8_ok fmt then judge_fmt false kind v fmt out else JSkip).
  change (run (bytes_of_string "sf.fmt") [VInt kind; v; VStr fmt])
    with (if utf8_valid fmt then run_fmt false kind v fmt else VBad).
  cbv beta. rewrite (utf8_ok_valid fmt). destruct Hf as [Hv Hw]. rewrite Hv.
  destruct (sval_of kind v) as [sv|] eqn:Es; [|unfold judge_fmt; rewrite Es; exact I].
  assert (Hfam : documented_family fmt) by (split; assumption).
  destruct (sval_of_kind _ _ _ Es) as [-> | [-> | [-> | [-> | ->]]]].
  - destruct (sval_of_inv0 _ _ Es) as (y & o & ->).
    destruct (args_view_date y o sv Es) as (d & Hd & Hav).
    apply (run_fmt_of_view 0 _ fmt (fa_of_date d) sv); auto.
    unfold dec_value. cbn [Z.eqb]. rewrite Hd. reflexivity.
  - destruct (sval_of_inv1 _ _ Es) as (s & f & ->).
    destruct (args_view_time s f sv Es) as (t & Hd & Hav).
    apply (run_fmt_of_view 1 _ fmt (fa_of_time t) sv); auto.
    unfold dec_value. cbn [Z.eqb Pos.eqb]. rewrite Hd. reflexivity.
  - destruct (sval_of_inv2 _ _ Es) as (y & o & s & f & ->).
    destruct (args_view_ndt y o s f sv Es) as (n & Hd & Hav).
    apply (run_fmt_of_view 2 _ fmt (fa_of_ndt n) sv); auto.
    unfold dec_value. cbn [Z.eqb Pos.eqb]. rewrite Hd. reflexivity.
  - destruct (sval_of_inv3 _ _ Es) as (y & o & s & f & off & ->).
    destruct (args_view_dtz y o s f off sv Es (fun n Hn => Hrange sv n eq_refl Hn)) as (z & a & Hd & Ha & Hav).
    apply (run_fmt_of_view 3 _ fmt a sv); auto.
    unfold dec_value. cbn [Z.eqb Pos.eqb]. rewrite Hd. cbn [option_map]. rewrite Ha. reflexivity.
  - destruct (sval_of_inv4 _ _ Es) as (y & o & s & f & ->).
    destruct (args_view_utc y o s f sv Es) as (n & a & Hd & Ha & Hav).
    apply (run_fmt_of_view 4 _ fmt a sv); auto.
    unfold dec_value. cbn [Z.eqb Pos.eqb]. rewrite Hd. cbn [option_map]. rewrite Ha. reflexivity.
Qed.

(** * The same without the restriction on the local day: a DateTime<FixedOffset> whose local
      calendar day is one of the two sentinel dates (one day before NaiveDate::MIN / after MAX) *)
Theorem args_view_dtz_all y o s f off sv :
  sval_of 3 (VTup [VInt y; VInt o; VInt s; VInt f; VInt off]) = Some sv ->
  exists z a, DateTime.dec_dtz (VTup [VInt y; VInt o; VInt s; VInt f; VInt off]) = Some z /\
              fa_of_dtz z = Val a /\ args_view a sv.
Proof.
  cbn [sval_of]. destruct (date_ok y o) eqn:E1; [|discriminate]. destruct (time_ok s f) eqn:E2; [|discriminate].
  destruct (off_ok off) eqn:E3; [|discriminate]. cbn [andb]. intros H. injection H as <-.
  destruct (dec_date_repr y o E1) as [Hd Hr]. destruct (time_view_of s f E2) as [Ht Hv].
  unfold off_ok in E3. assert (Ho : -86400 < off < 86400) by lia.
  assert (Hts : 0 <= s < 86400 /\ 0 <= f < 2000000000) by (unfold time_ok, G9 in E2; lia).
  destruct (Proofs.Time.offset_shift_range s off (proj1 Hts) Ho) as (Hm & Hq & Hsum).
  destruct (shift_date_view_wide y o ((s + off) / 86400) Hr Hq) as (d' & Hsd & Hdv).
  destruct (fixed_offset_display_total off Ho) as (name & Hname).
  eexists (DateTime.mk_dtz (DateTime.mk_ndt (mkdate y o) (Time.mk_time s f)) off), _.
  split; [|split].
  - unfold DateTime.dec_dtz, DateTime.dec_ndt. rewrite Hd, Ht.
    unfold DateTime.east_opt, Gen.DateTimeConsts.FO_EAST_LO, Gen.DateTimeConsts.FO_EAST_HI.
    replace ((-86400 <? off) && (off <? 86400)) with true by lia. reflexivity.
  - unfold fa_of_dtz, DateTime.overflowing_naive_local, DateTime.ndt_overflowing_add_offset.
    cbn [DateTime.dz_utc DateTime.dz_off DateTime.nd_time DateTime.nd_date].
    rewrite (Proofs.Time.add_offset_spec (Time.mk_time s f) off) by (unfold Proofs.Time.tvalid; cbn; lia).
    cbn [bind Time.tsecs Time.tfrac]. rewrite Hsd. cbn [bind]. rewrite Hname. cbn [bind].
    cbn [DateTime.nd_date DateTime.nd_time]. reflexivity.
  - constructor; cbn [fa_date fa_time fa_off sv_dn sv_sod sv_nano sv_leap sv_off sv_utc sv_unix].
    + exact Hdv.
    + unfold time_view in *. cbn [Time.tsecs Time.tfrac] in *. destruct Hv as (_ & _ & Hn & Hf). repeat split; auto; lia.
    + repeat split; auto; lia.
    + eexists _, _. split; [reflexivity|]. split; [reflexivity|]. unfold unix_secs. lia.
Qed.

(** C12 holds of the model on `sf.fmt` for EVERY decodable value of the five kinds and every
    format string of the documented family (no restriction on the local day) *)
Theorem holds_fmt_all : forall kind v fmt,
  documented_family fmt ->
  accepted (judge (bytes_of_string "sf.fmt") [VInt kind; v; VStr fmt]
                  (run (bytes_of_string "sf.fmt") [VInt kind; v; VStr fmt])).
Proof.
  intros kind v fmt Hf.
  destruct (sval_of kind v) as [sv|] eqn:Es.
  2:{ apply C12_holds_fmt; [exact Hf|]. intros sv n E. rewrite Es in E. discriminate. }
  destruct (Z.eq_dec kind 3) as [->|Hk].
  2:{ apply C12_holds_fmt; [exact Hf|]. intros sv' n E Hn. rewrite Es in E. injection E as <-.
      (* for the other kinds the date is a NaiveDate of the range *)
      destruct (sval_of_kind _ _ _ Es) as [-> | [-> | [-> | [-> | ->]]]]; try congruence.
      - destruct (sval_of_inv0 _ _ Es) as (y & o & ->). destruct (args_view_date y o sv Es) as (d & _ & Hav).
        cbn [sval_of] in Es. destruct (date_ok y o) eqn:E; [|discriminate]. injection Es as <-. cbn [sv_dn] in Hn.
        injection Hn as <-. destruct (dec_date_repr y o E) as [_ Hr]. exact (repr_dn_in_range _ _ _ Hr).
      - destruct (sval_of_inv1 _ _ Es) as (s & f & ->). cbn [sval_of] in Es.
        destruct (time_ok s f); [|discriminate]. injection Es as <-. discriminate Hn.
      - destruct (sval_of_inv2 _ _ Es) as (y & o & s & f & ->). cbn [sval_of] in Es.
        destruct (date_ok y o) eqn:E; [|discriminate]. destruct (time_ok s f); [|discriminate]. cbn [andb] in Es.
        injection Es as <-. cbn [sv_dn] in Hn. injection Hn as <-.
        destruct (dec_date_repr y o E) as [_ Hr]. exact (repr_dn_in_range _ _ _ Hr).
      - destruct (sval_of_inv4 _ _ Es) as (y & o & s & f & ->). cbn [sval_of] in Es.
        destruct (date_ok y o) eqn:E; [|discriminate]. destruct (time_ok s f); [|discriminate]. cbn [andb] in Es.
        injection Es as <-. cbn [sv_dn] in Hn. injection Hn as <-.
        destruct (dec_date_repr y o E) as [_ Hr]. exact (repr_dn_in_range _ _ _ Hr). }
  change (judge (bytes_of_string "sf.fmt") [VInt 3; v; VStr fmt])
    with (fun out => if utf8_ok fmt then judge_fmt false 3 v fmt out else JSkip).
  change (run (bytes_of_string "sf.fmt") [VInt 3; v; VStr fmt])
    with (if utf8_valid fmt then run_fmt false 3 v fmt else VBad).
  cbv beta. rewrite (utf8_ok_valid fmt). destruct Hf as [Hv Hw]. rewrite Hv.
  assert (Hfam : documented_family fmt) by (split; assumption).
  destruct (sval_of_inv3 _ _ Es) as (y & o & s & f & off & ->).
  destruct (args_view_dtz_all y o s f off sv Es) as (z & a & Hd & Ha & Hav).
  apply (run_fmt_of_view 3 _ fmt a sv); auto.
  unfold dec_value. cbn [Z.eqb Pos.eqb]. rewrite Hd. cbn [option_map]. rewrite Ha. reflexivity.
Qed.
