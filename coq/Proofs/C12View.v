(** Proofs for C12, part 5: discharging [args_view] from the calendar theorems of C01/C08
    (Proofs/Date.v, Proofs/DateIso.v, Proofs/C08Date.v) and C07 (Proofs/Time.v), and the
    property at the level of cases: for every decodable value and every format string of the
    documented family the judge accepts the model's output of `sf.fmt`. *)
From Coq Require Import ZArith List Bool Lia ZifyBool String.
From V Require Import Base.Int Base.IO Base.IntLemmas Base.Lift Spec.Gregorian Spec.StrftimeDoc
  Model.Items Gen.Strftime Gen.Locales Model.Strftime Model.Format Model.C12 Judge.C12
  Proofs.C12 Proofs.C12Str Proofs.C12Tok Proofs.C12Fam.
From V Require Import Proofs.C08Sweeps Proofs.C08Date Proofs.C08Days Proofs.C08AddDays Proofs.Gregorian Proofs.Date Proofs.DateIso.
From V Require Model.Date Model.Time Model.DateTime Proofs.Time.
Import ListNotations.
Open Scope Z_scope.
Ltac Zify.zify_post_hook ::= Z.to_euclidean_division_equations.

(** * The calendar reading of every valid NaiveDate *)
Theorem date_view_of_repr y o d : repr y o d -> date_view d (dn_of_yo y o).
Proof.
  intros H. pose proof H as (Hy & Ho & Hd).
  pose proof (repr_acc y o d H) as A. destruct (md_of_ordinal (is_leap y) o) as [m dd] eqn:Emd.
  destruct A as (Ey & Eo & _ & _ & _ & _ & Em & Edd & Ewd & Hvm & _).
  pose proof (year_range_bounds y Hy) as Hyb.
  pose proof (yo_of_dn_of_yo y o Ho) as Hyo.
  pose proof (repr_dn_in_range y o d H) as Hr. unfold dn_in_range, DN_MIN, DN_MAX in Hr.
  assert (Hor : 1 <= o <= 366) by (rewrite valid_yo_iff in Ho; destruct (is_leap y); lia).
  constructor.
  - unfold in_i32, in_range, i32_min, i32_max. lia.
  - unfold year_of_dn. rewrite Hyo. cbn [fst]. split; [exact Ey|]. unfold in_i32, in_range, i32_min, i32_max. lia.
  - exists y, m, dd. unfold ymd_of_dn. rewrite Hyo, Emd.
    unfold valid_md in Hvm. pose proof (days_in_month_bounds (is_leap y) m).
    repeat split; auto; lia.
  - unfold ordinal_of_dn. rewrite Hyo. cbn [snd]. split; [exact Eo|exact Hor].
  - exact Ewd.
  - destruct (d_iso_week_spec y o d H) as (Hw & Hwy & Hww). cbv zeta in Hw, Hwy, Hww.
    eexists. split; [exact Hw|]. split; [exact Hwy|]. split; [exact Hww|].
    split; [apply iso_of_dn_bounds|].
    rewrite iso_of_dn_yo by exact Ho. cbv zeta.
    destruct (_ <? 1); [|destruct (_ <? _)]; cbn [fst]; unfold in_i32, in_range, i32_min, i32_max; lia.
  - apply num_days_from_ce_spec. exact H.
Qed.

Theorem date_view_of_dn n : dn_in_range n = true -> date_view (date_of_dn n) n.
Proof.
  intros Hn. pose proof (date_of_dn_repr n Hn) as H.
  destruct (yo_of_dn_valid n) as [_ Hd]. rewrite <- Hd at 2. apply date_view_of_repr. exact H.
Qed.

(** * The formatter's arguments for each kind of value *)
Lemma dec_date_repr y o : date_ok y o = true ->
  DateTime.dec_date (VTup [VInt y; VInt o]) = Some (mkdate y o) /\ repr y o (mkdate y o).
Proof.
  intros H. unfold date_ok in H. apply andb_prop in H. destruct H as [Hy Ho].
  pose proof (year_range_bounds y Hy) as Hyb.
  assert (Hor : 1 <= o <= 366) by (rewrite valid_yo_iff in Ho; destruct (is_leap y); lia).
  assert (Hi : in_i32 y = true) by (unfold in_i32, in_range, i32_min, i32_max; lia).
  assert (Hu : in_u32 o = true) by (unfold in_u32, in_range, u32_max; lia).
  split.
  - unfold DateTime.dec_date. rewrite Hi, Hu. cbn [andb]. rewrite from_yo_opt_spec by assumption.
    rewrite Hy, Ho. reflexivity.
  - repeat split; assumption.
Qed.

Lemma time_view_of s f : time_ok s f = true ->
  Time.dec_time (VTup [VInt s; VInt f]) = Some (Time.mk_time s f) /\
  time_view (Time.mk_time s f) s (f mod G9) (G9 <=? f).
Proof.
  intros H. unfold time_ok, G9 in *. split.
  - unfold Time.dec_time. replace ((0 <=? s) && (s <? 86400) && (0 <=? f) && (f <? 2000000000)) with true by lia. reflexivity.
  - unfold time_view. cbn [Time.tsecs Time.tfrac]. destruct (1000000000 <=? f) eqn:E; repeat split; lia.
Qed.

Theorem args_view_date y o sv : sval_of 0 (VTup [VInt y; VInt o]) = Some sv ->
  exists d, DateTime.dec_date (VTup [VInt y; VInt o]) = Some d /\ args_view (fa_of_date d) sv.
Proof.
  cbn [sval_of]. destruct (date_ok y o) eqn:E; [|discriminate]. intros H. injection H as <-.
  destruct (dec_date_repr y o E) as [Hd Hr]. exists (mkdate y o). split; [exact Hd|].
  constructor; cbn [fa_of_date fa_date fa_time fa_off sv_dn sv_sod sv_off sv_unix]; auto.
  apply date_view_of_repr. exact Hr.
Qed.

Theorem args_view_time s f sv : sval_of 1 (VTup [VInt s; VInt f]) = Some sv ->
  exists t, Time.dec_time (VTup [VInt s; VInt f]) = Some t /\ args_view (fa_of_time t) sv.
Proof.
  cbn [sval_of]. destruct (time_ok s f) eqn:E; [|discriminate]. intros H. injection H as <-.
  destruct (time_view_of s f E) as [Hd Hv]. eexists. split; [exact Hd|].
  constructor; cbn [fa_of_time fa_date fa_time fa_off sv_dn sv_sod sv_nano sv_leap sv_off sv_unix]; auto.
Qed.

Theorem args_view_ndt y o s f sv : sval_of 2 (VTup [VInt y; VInt o; VInt s; VInt f]) = Some sv ->
  exists n, DateTime.dec_ndt (VTup [VInt y; VInt o; VInt s; VInt f]) = Some n /\ args_view (fa_of_ndt n) sv.
Proof.
  cbn [sval_of]. destruct (date_ok y o) eqn:E1; [|discriminate]. destruct (time_ok s f) eqn:E2; [|discriminate].
  cbn [andb]. intros H. injection H as <-.
  destruct (dec_date_repr y o E1) as [Hd Hr]. destruct (time_view_of s f E2) as [Ht Hv].
  eexists. split.
  - unfold DateTime.dec_ndt. rewrite Hd, Ht. reflexivity.
  - constructor; cbn [fa_of_ndt DateTime.nd_date DateTime.nd_time fa_date fa_time fa_off
                       sv_dn sv_sod sv_nano sv_leap sv_off sv_unix]; auto.
    + apply date_view_of_repr. exact Hr.
    + eexists _, _. repeat split. lia.
Qed.
