(** NaiveDate::add_days and NaiveDate::diff_months for a date word given by its accessor readings
    only (year, ordinal / month, day), for every year of the packed representation's headroom
    (-262144..262143): the statements of Proofs/C08AddDays.v [add_days_spec] and Proofs/C08Date.v
    [diff_months_spec] with the hypothesis "valid date in range" ([repr]) replaced by the facts
    the proofs actually use, so that they apply to the two out-of-range words
    NaiveDate::BEFORE_MIN / AFTER_MAX (whose readings are computed).  Same proof steps. *)
From Coq Require Import ZArith List Bool Lia ZifyBool.
From V Require Import Base.Int Base.IntLemmas Base.Bits Base.Lift Base.Table Gen.DateTables
  Spec.Gregorian Model.Date Proofs.C08Sweeps Proofs.C08Date Proofs.C08Days Proofs.C08AddDays.
Import ListNotations.
Open Scope Z_scope.
Ltac Zify.zify_post_hook ::= Z.to_euclidean_division_equations.

Lemma dby_headroom : days_before_year (-262144) = -95746496 /\ days_before_year 262143 = 95745399.
Proof. split; vm_compute; reflexivity. Qed.

Lemma dn_bounds_wide y o : -262144 <= y <= 262143 -> valid_yo y o = true ->
  -95746495 <= dn_of_yo y o <= 95745765.
Proof.
  intros Hy Ho. destruct dby_headroom as [B1 B2].
  pose proof (dby_mono (-262144) y ltac:(lia)). pose proof (dby_mono y 262143 ltac:(lia)).
  rewrite valid_yo_iff in Ho. unfold dn_of_yo. destruct (is_leap y); lia.
Qed.

(** [add_days]: inside the year of the date the ordinal moves (whatever the year); otherwise the
    result goes through the 400-year cycle and the range check of [from_ordinal_and_flags] *)
Theorem add_days_gen y o d k :
  -262144 <= y <= 262143 -> valid_yo y o = true ->
  d_year d = y -> d_ordinal d = o -> Z.shiftr (Z.land d D_ORDINAL_MASK) 4 = o -> d_leap_year d = is_leap y ->
  (forall o', valid_yo y o' = true ->
     Z.lor (Z.land d (not_i32 D_ORDINAL_MASK)) (shl_i32 o' 4) = mkdate y o' /\ from_yof (mkdate y o') = Val (mkdate y o')) ->
  in_i32 k = true ->
  add_days d k = Val (if (0 <? o + k) && (o + k <=? days_in_year y) then Some (mkdate y (o + k))
                      else date_if (dn_in_range (dn_of_yo y o + k)) (date_of_dn (dn_of_yo y o + k))).
Proof.
  intros Hyb Ho Hyear Hord Hbits Hleap Hfast Hk.
  pose proof (lo_facts_of y o Ho) as [_ Fo _ _ _ _ _].
  unfold add_days, shr. rewrite Hbits, Hleap. unfold checked_add at 1. unfold chko.
  replace (365 + (if is_leap y then 1 else 0)) with (days_in_year y) by (unfold days_in_year; destruct (is_leap y); lia).
  destruct (in_i32 (o + k) && ((0 <? o + k) && (o + k <=? days_in_year y))) eqn:Efast.
  - (* same year *)
    apply andb_prop in Efast. destruct Efast as [Ei Eo]. rewrite Ei, Eo.
    assert (Hv : valid_yo y (o + k) = true) by (unfold valid_yo; lia).
    destruct (Hfast _ Hv) as [F1 F2]. rewrite F1, F2. reflexivity.
  - (* through the 400-year cycle *)
    replace (match (if in_i32 (o + k) then Some (o + k) else None) with
             | Some ordinal => if (0 <? ordinal) && (ordinal <=? days_in_year y)
                               then Some (Z.lor (Z.land d (not_i32 D_ORDINAL_MASK)) (shl_i32 ordinal 4)) else None
             | None => None end) with (@None Z).
    2:{ destruct (in_i32 (o + k)); [|reflexivity]. cbn [andb] in Efast. rewrite Efast. reflexivity. }
    replace ((0 <? o + k) && (o + k <=? days_in_year y)) with false.
    2:{ destruct (in_i32 (o + k)) eqn:Ei; [cbn [andb] in Efast; rewrite Efast; reflexivity|].
        unfold days_in_year. destruct (is_leap y); solve_in. }
    rewrite Hyear, Hord. unfold div_mod_floor. rewrite div_euclid_pos, rem_euclid_pos by lia.
    unfold chk. replace (in_i32 (y / 400)) with true by solve_in. cbn [bind].
    rewrite as_u32_id by solve_in.
    set (r := y mod 400). set (q := y / 400).
    assert (Hr : 0 <= r < 400) by (unfold r; lia).
    assert (Hvr : valid_yo r o = true).
    { unfold r. replace (y mod 400) with (y + 400 * (- (y / 400))) by lia. rewrite valid_yo_period. assumption. }
    rewrite yo_to_cycle_spec by lia. cbn [bind].
    pose proof (cyc_bounds r o Hr Hvr) as Hcb. set (cyc := dn_of_yo r o + 365) in *.
    assert (Hn : dn_of_yo y o = cyc - 365 + 146097 * q).
    { unfold cyc, r, q. replace y with (y mod 400 + 400 * (y / 400)) at 1 by lia. rewrite dn_of_yo_period. lia. }
    pose proof (dn_bounds_wide y o Hyb Ho) as Hnb.
    rewrite as_i32_id by solve_in. unfold checked_add, chko.
    destruct (in_i32 (cyc + k)) eqn:Ec.
    2:{ replace (dn_in_range (dn_of_yo y o + k)) with false; [reflexivity|].
        unfold dn_in_range, DN_MIN, DN_MAX. solve_in. }
    unfold D_DAYS_PER_400Y. rewrite div_euclid_pos, rem_euclid_pos by lia. unfold chk.
    replace (in_i32 ((cyc + k) / 146097)) with true by solve_in. cbn [bind].
    set (cq := (cyc + k) / 146097). set (c' := (cyc + k) mod 146097).
    unfold add_i32, chk. replace (in_i32 (q + cq)) with true by (unfold q, cq; solve_in). cbn [bind].
    rewrite as_u32_id by (unfold c'; solve_in).
    destruct (cyc_facts c' ltac:(unfold c'; lia)) as (Hr' & Hv' & Hd' & Hcy).
    rewrite Hcy. cbn [bind].
    set (r' := fst (yo_of_dn (c' - 365))) in *. set (o' := snd (yo_of_dn (c' - 365))) in *.
    rewrite as_i32_id by solve_in.
    unfold yf_from_year_mod_400, tget. rewrite as_u64_id by solve_in.
    destruct (yflags_facts r') as (Etab & _). replace (r' mod 400) with r' in Etab by lia. rewrite Etab. cbn [bind].
    unfold mul_i32, chk. replace (in_i32 ((q + cq) * 400)) with true by (unfold q, cq; solve_in). cbn [bind].
    replace (in_i32 ((q + cq) * 400 + r')) with true by (unfold q, cq; solve_in). cbn [bind].
    set (y'' := (q + cq) * 400 + r').
    replace (yflags r') with (yflags y'') by (rewrite (yflags_mod y''); f_equal; unfold y''; lia).
    pose proof (lo_facts_of r' o' Hv') as [_ Fo' _ _ _ _ _].
    rewrite foaf_spec by (unfold y'', q, cq; solve_in).
    assert (Hsum : dn_of_yo y o + k = (c' - 365) + 146097 * (q + cq)) by (unfold c', cq; lia).
    assert (Hyo : yo_of_dn (dn_of_yo y o + k) = (y'', o')).
    { rewrite Hsum, yo_of_dn_period. fold r' o'. f_equal. unfold y''. lia. }
    assert (Hv'' : valid_yo y'' o' = true).
    { unfold y''. replace ((q + cq) * 400 + r') with (r' + 400 * (q + cq)) by lia. rewrite valid_yo_period. assumption. }
    assert (Hdn : dn_of_yo y'' o' = dn_of_yo y o + k).
    { unfold y''. replace ((q + cq) * 400 + r') with (r' + 400 * (q + cq)) by lia. rewrite dn_of_yo_period. lia. }
    rewrite Hv'', andb_true_r. rewrite <- Hdn at 1. rewrite dn_in_range_iff by assumption.
    unfold date_of_dn. rewrite Hyo. reflexivity.
Qed.

(** [diff_months]: calendar month arithmetic on (year, month), day clamped, range-checked *)
Definition shift_ymd (y m0 d0 k : Z) : option Z :=
  let t := 12 * y + (m0 - 1) + k in
  let y' := t / 12 in
  let m' := t mod 12 + 1 in
  let d' := Z.min d0 (days_in_month (is_leap y') m') in
  date_if (year_in_range y') (mk_ymd y' m' d').

Theorem diff_months_gen y m0 d0 d k :
  -262144 <= y <= 262143 -> d_year d = y -> d_month d = Val m0 -> d_day d = Val d0 ->
  1 <= m0 <= 12 -> 1 <= d0 <= 31 -> in_i32 k = true ->
  diff_months d k = Val (shift_ymd y m0 d0 k).
Proof.
  intros Hyb Hy Hm Hd Hm0 Hd0 Hk. unfold shift_ymd. cbv zeta.
  unfold diff_months. rewrite Hm, Hd, Hy. cbn [bind].
  unfold mul_i32, chk. replace (in_i32 (y * 12)) with true by solve_in. cbn [bind].
  rewrite as_i32_id by solve_in.
  unfold add_i32, chk. replace (in_i32 (y * 12 + m0)) with true by solve_in. cbn [bind].
  unfold sub_i32, chk. replace (in_i32 (y * 12 + m0 - 1)) with true by solve_in. cbn [bind].
  replace (12 * y + (m0 - 1) + k) with (y * 12 + m0 - 1 + k) by lia.
  set (t := y * 12 + m0 - 1 + k).
  unfold checked_add, chko. fold t. destruct (in_i32 t) eqn:Et.
  2:{ replace (year_in_range (t / 12)) with false; [reflexivity|].
      unfold year_in_range, MIN_YEAR, MAX_YEAR. solve_in. }
  rewrite div_euclid_pos, rem_euclid_pos by lia.
  unfold chk. replace (in_i32 (t / 12)) with true by solve_in. cbn [bind].
  rewrite as_u32_id by solve_in.
  unfold add_u32, chk. replace (in_u32 (t mod 12 + 1)) with true by solve_in. cbn [bind].
  rewrite yf_from_year_spec by solve_in. cbn [bind].
  unfold yf_ndays, NDAYS_BASE, NDAYS_SHIFT, shr. rewrite flags_shr3.
  unfold sub_u32, chk.
  replace (in_u32 (366 - (if is_leap (t / 12) then 0 else 1))) with true by (destruct (is_leap (t / 12)); solve_in).
  cbn [bind]. replace (in_u32 (t mod 12 + 1 - 1)) with true by solve_in. cbn [bind].
  rewrite as_u64_id by solve_in.
  destruct (month_days_table (is_leap (t / 12)) (t mod 12 + 1 - 1) ltac:(lia)) as (dm0 & Ht & Hmax).
  rewrite Ht. cbn [bind].
  replace (366 - (if is_leap (t / 12) then 0 else 1) =? DM_LEAP_NDAYS) with (is_leap (t / 12))
    by (unfold DM_LEAP_NDAYS; destruct (is_leap (t / 12)); reflexivity).
  rewrite Hmax. replace (t mod 12 + 1 - 1 + 1) with (t mod 12 + 1) by lia.
  set (y' := t / 12). set (m' := t mod 12 + 1). set (dim := days_in_month (is_leap y') m').
  pose proof (days_in_month_bounds (is_leap y') m') as Hdim'. fold dim in Hdim'.
  replace (if dim <? d0 then dim else d0) with (Z.min d0 dim) by (destruct (dim <? d0) eqn:Eq; lia).
  rewrite from_ymd_opt_spec by solve_in.
  replace (valid_ymd y' m' (Z.min d0 dim)) with true; [rewrite andb_true_r; reflexivity|].
  unfold valid_ymd. fold dim. unfold m'. lia.
Qed.
