From Coq Require Import ZArith List Bool Lia ZifyBool.
From V Require Import Base.Int Base.IO Base.IntLemmas Model.DateTime Model.C02.
Open Scope Z_scope.
Lemma naive_timestamp_eq a : naive_timestamp a = dt_timestamp a.
Proof. reflexivity. Qed.
