(** C02 — proofs.  The instant of a date-time value of the model is read through the calendar
    specification Spec/Gregorian.v: [secs_of a] = unix_secs (day number of the date) (second of day),
    [instant a] = secs_of a * 10^9 + nanosecond field.

    The three facts about Model/Date.v that the timestamp functions rest on (day number -> date,
    date -> day number, and their composition) belong to property C01 and are proved in Proofs/Date.v;
    until that file is on main they are the hypotheses of [Section ModuloDate]; every theorem of the
    section is therefore proved *relative to them* and is exported with the suffix [_modulo_date]. *)
From Coq Require Import ZArith List Bool Lia ZifyBool.
From V Require Import Base.Int Base.IO Base.IntLemmas Spec.Gregorian.
From V Require Import Gen.DateTimeConsts Gen.TsConsts Gen.TimeDelta Model.TimeDelta.
From V Require Model.Date Model.Time.
From V Require Import Model.DateTime Model.C02.
Import ListNotations.
Open Scope Z_scope.
Ltac Zify.zify_post_hook ::= Z.to_euclidean_division_equations.

Definition G := 1000000000.
Definition SEC_MIN := Eval compute in unix_secs DN_MIN 0.
Definition SEC_MAX := Eval compute in unix_secs DN_MAX 86399.

(** A packed date of the model is valid when the checked constructor produces it. *)
Definition valid_date (d : Z) : Prop :=
  exists y o, in_i32 y = true /\ in_u32 o = true /\ Date.from_yo_opt y o = Val (Some d).
(** its day number according to the calendar specification *)
Definition date_dn (d : Z) : Z := dn_of_yo (Date.d_year d) (Date.d_ordinal d).

Definition dsecs (a : ndt) : Z := Time.tsecs (nd_time a).
Definition dfrac (a : ndt) : Z := Time.tfrac (nd_time a).
Definition valid_ndt (a : ndt) : Prop :=
  valid_date (nd_date a) /\ 0 <= dsecs a < 86400 /\ 0 <= dfrac a < 2 * G.
Definition nonleap (a : ndt) : Prop := dfrac a < G.
Definition secs_of (a : ndt) : Z := unix_secs (date_dn (nd_date a)) (dsecs a).
Definition instant (a : ndt) : Z := unix_nanos (date_dn (nd_date a)) (dsecs a) (dfrac a).

Lemma instant_secs a : instant a = secs_of a * G + dfrac a.
Proof. reflexivity. Qed.

(** the literals of the Rust functions, as re-read from the source on every run, are the ones the
    model uses *)
Lemma ts_literals :
  [TS_DAY_SECS; TS_MS_MUL; TS_US_MUL; TS_NS_BORROW; TS_NS_MUL; TS_SUB_MS_DIV; TS_SUB_US_DIV;
   TS_FROM_MS_DIV; TS_FROM_MS_REM; TS_FROM_MS_MUL; TS_FROM_US_DIV; TS_FROM_US_REM; TS_FROM_US_MUL;
   TS_FROM_NS_DIV; TS_FROM_NS_REM; TS_SYS_NS; TS_NAIVE_US_DIV; TS_NAIVE_US_REM; TS_NAIVE_US_MUL;
   UNIX_EPOCH_DAY; DT_SECS_PER_DAY; TD_NANOS_PER_SEC]
  = [86400; 1000; 1000000; 1000000000; 1000000000; 1000000; 1000;
     1000; 1000; 1000000; 1000000; 1000000; 1000;
     1000000000; 1000000000; 1000000000; 1000000; 1000000; 1000;
     EPOCH_DN; 86400; 1000000000].
Proof. reflexivity. Qed.

Ltac ranges := unfold in_i64, in_i32, in_u32, in_u64, in_range, i64_min, i64_max, i32_min, i32_max, u32_max, u64_max in *.
Ltac consts := unfold G, SEC_MIN, SEC_MAX, NS_MIN, NS_MAX, DN_MIN, DN_MAX, EPOCH_DN, UNIX_EPOCH_DAY, DT_SECS_PER_DAY in *.

Lemma chk_val inr z : inr z = true -> chk inr z = Val z.
Proof. apply chk_in. Qed.

(** The facts about Model/Date.v (property C01, Proofs/Date.v) on which this file rests. *)
(* [from_num_days_from_ce_opt] yields the valid date with that day number, exactly on the supported
   range of day numbers *)
Definition C01_from_days : Prop := forall n, in_i32 n = true ->
  exists r, Date.from_num_days_from_ce_opt n = Val r /\
    match r with
    | Some d => valid_date d /\ date_dn d = n
    | None => ~ (DN_MIN <= n <= DN_MAX)
    end.
(* [num_days_from_ce] of a valid date is its day number, which lies in the supported range *)
Definition C01_num_days : Prop := forall d, valid_date d ->
  Date.num_days_from_ce d = Val (date_dn d) /\ DN_MIN <= date_dn d <= DN_MAX.
(* the two are mutually inverse *)
Definition C01_days_back : Prop := forall d, valid_date d ->
  Date.from_num_days_from_ce_opt (date_dn d) = Val (Some d).
Definition date_facts : Prop := C01_from_days /\ C01_num_days /\ C01_days_back.

Section ModuloDate.
  Hypothesis DF : date_facts.
  Lemma from_days_spec : C01_from_days. Proof. exact (proj1 DF). Qed.
  Lemma num_days_spec : C01_num_days. Proof. exact (proj1 (proj2 DF)). Qed.
  Lemma from_days_back : C01_days_back. Proof. exact (proj2 (proj2 DF)). Qed.

  Lemma date_dn_inj d d' : valid_date d -> valid_date d' -> date_dn d = date_dn d' -> d = d'.
  Proof.
    intros H H' E. pose proof (from_days_back d H) as A. pose proof (from_days_back d' H') as B.
    rewrite E in A. rewrite A in B. congruence.
  Qed.

  (** ** from_timestamp *)
  Lemma from_timestamp_spec secs nsecs : in_i64 secs = true -> in_u32 nsecs = true ->
    exists r, dt_from_timestamp secs nsecs = Val r /\
      match r with
      | Some a => valid_ndt a /\ secs_of a = secs /\ dfrac a = nsecs /\ (nsecs < G \/ (nsecs < 2 * G /\ secs mod 60 = 59))
      | None => ~ (SEC_MIN <= secs <= SEC_MAX /\ (nsecs < G \/ (nsecs < 2 * G /\ secs mod 60 = 59)))
      end.
  Proof.
    intros Hs Hn. unfold dt_from_timestamp.
    rewrite div_euclid_pos by (unfold DT_SECS_PER_DAY; lia).
    rewrite rem_euclid_pos by (unfold DT_SECS_PER_DAY; lia).
    assert (Hq : in_i64 (secs / DT_SECS_PER_DAY) = true) by (ranges; consts; lia).
    rewrite (chk_val _ _ Hq). cbv [bind]. unfold add_i64.
    assert (Hd : in_i64 (secs / DT_SECS_PER_DAY + UNIX_EPOCH_DAY) = true) by (ranges; consts; lia).
    rewrite (chk_val _ _ Hd). rewrite Hq.
    set (days := secs / DT_SECS_PER_DAY + UNIX_EPOCH_DAY) in *.
    set (sod := secs mod DT_SECS_PER_DAY) in *.
    assert (Hsod : 0 <= sod < 86400) by (subst sod; consts; lia).
    assert (Hsplit : secs = (days - EPOCH_DN) * 86400 + sod) by (subst days sod; consts; lia).
    assert (Hm60 : sod mod 60 = secs mod 60) by (subst sod; consts; lia).
    destruct ((days <? i32_min) || (i32_max <? days)) eqn:Erange.
    - eexists. split; [reflexivity|]. cbv beta iota. ranges; consts. lia.
    - assert (Hi : in_i32 days = true) by (ranges; lia).
      rewrite (as_i32_id _ Hi).
      destruct (from_days_spec days Hi) as [r [Hr Hspec]]. unfold obind. rewrite Hr. cbv [bind].
      destruct r as [d|].
      + destruct Hspec as [Hvd Hdn].
        rewrite as_u32_id by (ranges; lia).
        unfold Time.from_num_seconds_from_midnight_opt, Time.urem.
        assert (Hrem : Z.rem sod 60 = sod mod 60) by (apply Z.rem_mod_nonneg; lia).
        rewrite Hrem.
        destruct ((sod >=? 86400) || (nsecs >=? 2000000000) || ((nsecs >=? 1000000000) && negb (sod mod 60 =? 59))) eqn:Et.
        * eexists. split; [reflexivity|]. cbv beta iota. unfold G. lia.
        * eexists. split; [reflexivity|]. cbv beta iota.
          unfold valid_ndt, secs_of, dsecs, dfrac, unix_secs. cbn [nd_date nd_time Time.tsecs Time.tfrac].
          rewrite Hdn. ranges. unfold G. repeat split; try assumption; try lia.
      + eexists. split; [reflexivity|]. cbv beta iota. consts. lia.
  Qed.

  (** ** timestamp accessors *)
  Lemma timestamp_spec a : valid_ndt a -> dt_timestamp a = Val (secs_of a).
  Proof.
    intros [Hd [Hs Hf]]. unfold dt_timestamp.
    destruct (num_days_spec _ Hd) as [Hn Hr]. rewrite Hn. cbv [bind].
    unfold sub_i64, mul_i64, add_i64, Time.num_seconds_from_midnight.
    fold (dsecs a). set (n := date_dn (nd_date a)) in *.
    rewrite chk_val by (ranges; consts; lia). cbv [bind].
    rewrite chk_val by (ranges; consts; lia). cbv [bind].
    rewrite chk_val by (ranges; consts; lia).
    unfold secs_of, unix_secs. fold n. unfold UNIX_EPOCH_DAY, EPOCH_DN. reflexivity.
  Qed.

  Lemma secs_of_range a : valid_ndt a -> SEC_MIN <= secs_of a <= SEC_MAX.
  Proof.
    intros [Hd [Hs Hf]]. destruct (num_days_spec _ Hd) as [_ Hr].
    unfold secs_of, unix_secs. consts. lia.
  Qed.

  (** no overflow in timestamp_millis / timestamp_micros on the whole range, leap-second values included *)
  Lemma timestamp_millis_val a : valid_ndt a ->
    dt_timestamp_millis a = Val (secs_of a * 1000 + dfrac a / 1000000).
  Proof.
    intros Hv. pose proof (secs_of_range a Hv) as Hr.
    unfold dt_timestamp_millis. rewrite timestamp_spec by exact Hv. cbv [bind]. destruct Hv as [Hd [Hs Hf]].
    unfold mul_i64, add_i64, dt_subsec_millis, dt_subsec_nanos, Time.nanosecond. fold (dfrac a).
    rewrite Z.quot_div_nonneg by lia.
    rewrite chk_val by (ranges; consts; lia). cbv [bind].
    rewrite chk_val by (ranges; consts; lia). reflexivity.
  Qed.
  Lemma timestamp_micros_val a : valid_ndt a ->
    dt_timestamp_micros a = Val (secs_of a * 1000000 + dfrac a / 1000).
  Proof.
    intros Hv. pose proof (secs_of_range a Hv) as Hr.
    unfold dt_timestamp_micros. rewrite timestamp_spec by exact Hv. cbv [bind]. destruct Hv as [Hd [Hs Hf]].
    unfold mul_i64, add_i64, dt_subsec_micros, dt_subsec_nanos, Time.nanosecond. fold (dfrac a).
    rewrite Z.quot_div_nonneg by lia.
    rewrite chk_val by (ranges; consts; lia). cbv [bind].
    rewrite chk_val by (ranges; consts; lia). reflexivity.
  Qed.

  (** on non-leap values all accessors are the floor of the instant in the unit *)
  Lemma timestamp_floor a : valid_ndt a -> nonleap a -> dt_timestamp a = Val (instant a / G).
  Proof.
    intros Hv Hl. rewrite timestamp_spec by assumption. f_equal. rewrite instant_secs.
    destruct Hv as [_ [_ Hf]]. unfold nonleap in Hl. unfold G in *. lia.
  Qed.
  Lemma timestamp_millis_floor a : valid_ndt a -> nonleap a -> dt_timestamp_millis a = Val (instant a / 1000000).
  Proof.
    intros Hv Hl. rewrite timestamp_millis_val by assumption. f_equal. rewrite instant_secs.
    destruct Hv as [_ [_ Hf]]. unfold nonleap in Hl. unfold G in *. lia.
  Qed.
  Lemma timestamp_micros_floor a : valid_ndt a -> nonleap a -> dt_timestamp_micros a = Val (instant a / 1000).
  Proof.
    intros Hv Hl. rewrite timestamp_micros_val by assumption. f_equal. rewrite instant_secs.
    destruct Hv as [_ [_ Hf]]. unfold nonleap in Hl. unfold G in *. lia.
  Qed.
  Lemma subsec_spec a : valid_ndt a ->
    dt_subsec_nanos a = dfrac a /\ dt_subsec_micros a = dfrac a / 1000 /\ dt_subsec_millis a = dfrac a / 1000000.
  Proof.
    intros [_ [_ Hf]]. unfold dt_subsec_millis, dt_subsec_micros, dt_subsec_nanos, Time.nanosecond. fold (dfrac a).
    rewrite !Z.quot_div_nonneg by lia. auto.
  Qed.

  (** timestamp_nanos_opt: the exact count, absent exactly when it does not fit i64 (the negative
      branch's re-association included) *)
  Lemma nanos_opt_arith S f : SEC_MIN <= S <= SEC_MAX -> 0 <= f < 2 * G -> (f < G \/ S mod 60 = 59) ->
    (let* '(ts, sn) := (if S <? 0 then let* s' := sub_i64 f 1000000000 in let* t' := add_i64 S 1 in Val (t', s')
                        else Val (S, f)) in
     match checked_mul in_i64 ts 1000000000 with
     | None => Val None
     | Some m => Val (checked_add in_i64 m sn)
     end) = Val (if in_i64 (S * G + f) then Some (S * G + f) else None).
  Proof.
    intros Hr Hf Hl. destruct (S <? 0) eqn:Eneg.
    - unfold sub_i64, add_i64.
      rewrite chk_val by (ranges; consts; lia). cbv [bind].
      rewrite chk_val by (ranges; consts; lia). cbv [bind].
      unfold checked_mul, checked_add, chko.
      destruct (in_i64 ((S + 1) * 1000000000)) eqn:E1.
      + destruct (in_i64 ((S + 1) * 1000000000 + (f - 1000000000))) eqn:E2;
        destruct (in_i64 (S * G + f)) eqn:E3; try reflexivity; ranges; unfold G in *; try lia.
        do 2 f_equal. lia.
      + destruct (in_i64 (S * G + f)) eqn:E3; try reflexivity. ranges; unfold G in *; lia.
    - cbv [bind]. unfold checked_mul, checked_add, chko.
      destruct (in_i64 (S * 1000000000)) eqn:E1.
      + destruct (in_i64 (S * 1000000000 + f)) eqn:E2;
        destruct (in_i64 (S * G + f)) eqn:E3; try reflexivity; ranges; unfold G in *; lia.
      + destruct (in_i64 (S * G + f)) eqn:E3; try reflexivity. ranges; unfold G in *; lia.
  Qed.
  Lemma bind_val {X Y} (x : X) (k : X -> R Y) : bind (Val x) k = k x.
  Proof. reflexivity. Qed.
  Lemma timestamp_nanos_opt_spec a : valid_ndt a -> nonleap a ->
    dt_timestamp_nanos_opt a = Val (if in_i64 (instant a) then Some (instant a) else None).
  Proof.
    intros Hv Hl. pose proof (secs_of_range a Hv) as Hr.
    unfold dt_timestamp_nanos_opt. rewrite timestamp_spec by assumption. rewrite bind_val.
    destruct Hv as [Hd [Hs Hf]]. unfold nonleap in Hl.
    exact (nanos_opt_arith (secs_of a) (dfrac a) Hr Hf (or_introl Hl)).
  Qed.
  (* the same for the leap-second values [from_timestamp] can produce (second 59): with the reading
     count = timestamp * 10^9 + subsec_nanos used by timestamp_millis/_micros *)
  Lemma timestamp_nanos_opt_leap59 a : valid_ndt a -> dsecs a mod 60 = 59 ->
    dt_timestamp_nanos_opt a = Val (if in_i64 (instant a) then Some (instant a) else None).
  Proof.
    intros Hv Hl. pose proof (secs_of_range a Hv) as Hr.
    unfold dt_timestamp_nanos_opt. rewrite timestamp_spec by assumption. rewrite bind_val.
    destruct Hv as [Hd [Hs Hf]].
    assert (Hm : secs_of a mod 60 = 59) by (unfold secs_of, unix_secs; lia).
    exact (nanos_opt_arith (secs_of a) (dfrac a) Hr Hf (or_intror Hm)).
  Qed.
  Lemma timestamp_nanos_spec a : valid_ndt a -> nonleap a ->
    dt_timestamp_nanos a = if in_i64 (instant a) then Val (instant a) else Panic.
  Proof.
    intros Hv Hl. unfold dt_timestamp_nanos, unwrap_r. rewrite timestamp_nanos_opt_spec by assumption.
    cbv [bind]. destruct (in_i64 (instant a)); reflexivity.
  Qed.

  (** ** unit constructors *)
  Lemma nonleap_instant_range a : valid_ndt a -> nonleap a -> NS_MIN <= instant a <= NS_MAX.
  Proof.
    intros Hv Hl. pose proof (secs_of_range a Hv) as Hr. rewrite instant_secs.
    destruct Hv as [_ [_ Hf]]. unfold nonleap in Hl. consts. lia.
  Qed.

  (* [from_timestamp] on a split count: secs = floor(t / G), nsecs = t mod G *)
  Lemma from_timestamp_split t : in_i64 (t / G) = true ->
    exists r, dt_from_timestamp (t / G) (t mod G) = Val r /\
      match r with
      | Some a => valid_ndt a /\ nonleap a /\ instant a = t
      | None => ~ (NS_MIN <= t <= NS_MAX)
      end.
  Proof.
    intros Hi.
    assert (Hm : 0 <= t mod G < G) by (unfold G; lia).
    destruct (from_timestamp_spec (t / G) (t mod G) Hi ltac:(ranges; unfold G in *; lia)) as [r [Hr Hs]].
    exists r. split; [exact Hr|]. destruct r as [a|].
    - destruct Hs as [Hv [Hsec [Hf _]]]. split; [exact Hv|]. split; [unfold nonleap; lia|].
      rewrite instant_secs, Hsec, Hf. unfold G. lia.
    - intros Hrange. apply Hs. split; [|left; lia]. consts. lia.
  Qed.

  Lemma from_timestamp_millis_spec ms : in_i64 ms = true ->
    exists r, dt_from_timestamp_millis ms = Val r /\
      match r with
      | Some a => valid_ndt a /\ nonleap a /\ instant a = ms * 1000000
      | None => ~ (NS_MIN <= ms * 1000000 <= NS_MAX)
      end.
  Proof.
    intros Hi. unfold dt_from_timestamp_millis.
    rewrite div_euclid_pos, rem_euclid_pos by lia.
    assert (Hq : in_i64 (ms / 1000) = true) by (ranges; lia).
    rewrite (chk_val _ _ Hq), Hq. cbv [bind].
    rewrite as_u32_id by (ranges; lia). unfold mul_u32.
    rewrite chk_val by (ranges; lia). cbv [bind].
    replace (ms / 1000) with ((ms * 1000000) / G) by (unfold G; lia).
    replace (ms mod 1000 * 1000000) with ((ms * 1000000) mod G) by (unfold G; lia).
    apply from_timestamp_split. replace ((ms * 1000000) / G) with (ms / 1000) by (unfold G; lia). exact Hq.
  Qed.
  Lemma from_timestamp_micros_spec us : in_i64 us = true ->
    exists r, dt_from_timestamp_micros us = Val r /\
      match r with
      | Some a => valid_ndt a /\ nonleap a /\ instant a = us * 1000
      | None => ~ (NS_MIN <= us * 1000 <= NS_MAX)
      end.
  Proof.
    intros Hi. unfold dt_from_timestamp_micros.
    rewrite div_euclid_pos, rem_euclid_pos by lia.
    assert (Hq : in_i64 (us / 1000000) = true) by (ranges; lia).
    rewrite (chk_val _ _ Hq), Hq. cbv [bind].
    rewrite as_u32_id by (ranges; lia). unfold mul_u32.
    rewrite chk_val by (ranges; lia). cbv [bind].
    replace (us / 1000000) with ((us * 1000) / G) by (unfold G; lia).
    replace (us mod 1000000 * 1000) with ((us * 1000) mod G) by (unfold G; lia).
    apply from_timestamp_split. replace ((us * 1000) / G) with (us / 1000000) by (unfold G; lia). exact Hq.
  Qed.
  (** from_timestamp_nanos never panics: every i64 nanosecond count is a representable instant *)
  Lemma from_timestamp_nanos_spec ns : in_i64 ns = true ->
    exists a, dt_from_timestamp_nanos ns = Val a /\ valid_ndt a /\ nonleap a /\ instant a = ns.
  Proof.
    intros Hi. unfold dt_from_timestamp_nanos.
    rewrite div_euclid_pos, rem_euclid_pos by lia.
    assert (Hq : in_i64 (ns / 1000000000) = true) by (ranges; lia).
    rewrite (chk_val _ _ Hq), Hq. cbv [bind].
    rewrite as_u32_id by (ranges; lia).
    destruct (from_timestamp_split ns Hq) as [r [Hr Hs]]. unfold G in Hr.
    unfold unwrap_r. rewrite Hr. cbv [bind]. destruct r as [a|].
    - exists a. split; [reflexivity|exact Hs].
    - exfalso. apply Hs. ranges. consts. lia.
  Qed.

  (** ** round trips *)
  (* count -> date-time -> count *)
  Lemma roundtrip_secs secs nsecs a : in_i64 secs = true -> in_u32 nsecs = true ->
    dt_from_timestamp secs nsecs = Val (Some a) ->
    dt_timestamp a = Val secs /\ dt_subsec_nanos a = nsecs.
  Proof.
    intros Hs Hn H. destruct (from_timestamp_spec secs nsecs Hs Hn) as [r [Hr Hspec]].
    rewrite H in Hr. injection Hr as <-. destruct Hspec as [Hv [Hsec [Hf _]]].
    rewrite timestamp_spec by exact Hv. rewrite Hsec. split; [reflexivity|exact Hf].
  Qed.
  Lemma roundtrip_millis ms a : in_i64 ms = true ->
    dt_from_timestamp_millis ms = Val (Some a) -> dt_timestamp_millis a = Val ms.
  Proof.
    intros Hi H. destruct (from_timestamp_millis_spec ms Hi) as [r [Hr Hspec]].
    rewrite H in Hr. injection Hr as <-. destruct Hspec as [Hv [Hl Hinst]].
    rewrite timestamp_millis_floor by assumption. rewrite Hinst. f_equal. lia.
  Qed.
  Lemma roundtrip_micros us a : in_i64 us = true ->
    dt_from_timestamp_micros us = Val (Some a) -> dt_timestamp_micros a = Val us.
  Proof.
    intros Hi H. destruct (from_timestamp_micros_spec us Hi) as [r [Hr Hspec]].
    rewrite H in Hr. injection Hr as <-. destruct Hspec as [Hv [Hl Hinst]].
    rewrite timestamp_micros_floor by assumption. rewrite Hinst. f_equal. lia.
  Qed.
  Lemma roundtrip_nanos ns : in_i64 ns = true ->
    exists a, dt_from_timestamp_nanos ns = Val a /\ dt_timestamp_nanos_opt a = Val (Some ns).
  Proof.
    intros Hi. destruct (from_timestamp_nanos_spec ns Hi) as [a [Ha [Hv [Hl Hinst]]]].
    exists a. split; [exact Ha|]. rewrite timestamp_nanos_opt_spec by assumption. rewrite Hinst, Hi. reflexivity.
  Qed.

  (* date-time -> count -> date-time *)
  Lemma instant_arith na sa fa nb sb fb : 0 <= sa < 86400 -> 0 <= sb < 86400 -> 0 <= fa < G -> 0 <= fb < G ->
    unix_nanos na sa fa = unix_nanos nb sb fb -> na = nb /\ sa = sb /\ fa = fb.
  Proof. unfold unix_nanos, unix_secs, G. lia. Qed.
  Lemma instant_inj a b : valid_ndt a -> valid_ndt b -> nonleap a -> nonleap b -> instant a = instant b -> a = b.
  Proof.
    intros [Hda [Hsa Hfa]] [Hdb [Hsb Hfb]] Hla Hlb E.
    unfold nonleap in *.
    assert (Hfa' : 0 <= dfrac a < G) by lia. assert (Hfb' : 0 <= dfrac b < G) by lia.
    destruct (instant_arith _ _ _ _ _ _ Hsa Hsb Hfa' Hfb' E) as [E1 [E2 E3]].
    apply date_dn_inj in E1; try assumption.
    destruct a as [da [sa fa]], b as [db [sb fb]]. unfold dsecs, dfrac in *.
    cbn [nd_date nd_time Time.tsecs Time.tfrac] in *. subst. reflexivity.
  Qed.

  Lemma back_secs a : valid_ndt a -> (nonleap a \/ dsecs a mod 60 = 59) ->
    exists s, dt_timestamp a = Val s /\ dt_from_timestamp s (dt_subsec_nanos a) = Val (Some a).
  Proof.
    intros Hv Hl. exists (secs_of a). split; [apply timestamp_spec; exact Hv|].
    pose proof (secs_of_range a Hv) as Hrng.
    destruct (subsec_spec a Hv) as [Hsn _]. rewrite Hsn.
    assert (Hi : in_i64 (secs_of a) = true) by (ranges; consts; lia).
    destruct Hv as [Hd [Hs Hf]].
    assert (Hn : in_u32 (dfrac a) = true) by (ranges; unfold G in *; lia).
    destruct (from_timestamp_spec _ _ Hi Hn) as [r [Hr Hspec]]. rewrite Hr.
    assert (Hm60 : secs_of a mod 60 = dsecs a mod 60) by (unfold secs_of, unix_secs; lia).
    destruct r as [b|].
    - destruct Hspec as [[Hdb [Hsb Hfb]] [Hsec [Hfrac _]]]. do 2 f_equal.
      unfold secs_of, unix_secs in Hsec.
      assert (E : date_dn (nd_date b) = date_dn (nd_date a) /\ dsecs b = dsecs a) by lia.
      destruct E as [E1 E2]. apply date_dn_inj in E1; try assumption.
      destruct a as [da [sa fa]], b as [db [sb fb]]. unfold dsecs, dfrac in *.
      cbn [nd_date nd_time Time.tsecs Time.tfrac] in *. subst. reflexivity.
    - exfalso. apply Hspec. split; [exact Hrng|]. unfold nonleap in Hl. unfold G in *. lia.
  Qed.

  Definition with_frac (a : ndt) (f : Z) : ndt := mk_ndt (nd_date a) (Time.mk_time (dsecs a) f).
  Lemma with_frac_valid a f : valid_ndt a -> 0 <= f < G -> valid_ndt (with_frac a f) /\ nonleap (with_frac a f).
  Proof.
    intros [Hd [Hs Hf]] Hf'. unfold valid_ndt, nonleap, with_frac, dsecs, dfrac in *. cbn. unfold G in *. repeat split; try assumption; lia.
  Qed.
  Lemma back_millis a : valid_ndt a -> nonleap a ->
    exists ms, dt_timestamp_millis a = Val ms /\
      dt_from_timestamp_millis ms = Val (Some (with_frac a (dfrac a - dfrac a mod 1000000))).
  Proof.
    intros Hv Hl. eexists. split; [apply timestamp_millis_floor; assumption|].
    pose proof (nonleap_instant_range a Hv Hl) as Hr.
    assert (Hi : in_i64 (instant a / 1000000) = true) by (ranges; consts; lia).
    destruct (from_timestamp_millis_spec _ Hi) as [r [Hr' Hspec]]. rewrite Hr'.
    assert (Hf : 0 <= dfrac a < G) by (destruct Hv as [_ [_ Hf]]; unfold nonleap in Hl; lia).
    destruct (with_frac_valid a (dfrac a - dfrac a mod 1000000) Hv ltac:(unfold G in *; lia)) as [Hv2 Hl2].
    destruct r as [b|].
    - destruct Hspec as [Hvb [Hlb Hib]]. do 2 f_equal. apply instant_inj; try assumption.
      rewrite Hib. rewrite !instant_secs. unfold with_frac, secs_of, dsecs, dfrac. cbn.
      fold (dsecs a). fold (dfrac a). unfold G in *. lia.
    - exfalso. apply Hspec. consts. lia.
  Qed.
  Lemma back_micros a : valid_ndt a -> nonleap a ->
    exists us, dt_timestamp_micros a = Val us /\
      dt_from_timestamp_micros us = Val (Some (with_frac a (dfrac a - dfrac a mod 1000))).
  Proof.
    intros Hv Hl. eexists. split; [apply timestamp_micros_floor; assumption|].
    pose proof (nonleap_instant_range a Hv Hl) as Hr.
    assert (Hi : in_i64 (instant a / 1000) = true) by (ranges; consts; lia).
    destruct (from_timestamp_micros_spec _ Hi) as [r [Hr' Hspec]]. rewrite Hr'.
    assert (Hf : 0 <= dfrac a < G) by (destruct Hv as [_ [_ Hf]]; unfold nonleap in Hl; lia).
    destruct (with_frac_valid a (dfrac a - dfrac a mod 1000) Hv ltac:(unfold G in *; lia)) as [Hv2 Hl2].
    destruct r as [b|].
    - destruct Hspec as [Hvb [Hlb Hib]]. do 2 f_equal. apply instant_inj; try assumption.
      rewrite Hib. rewrite !instant_secs. unfold with_frac, secs_of, dsecs, dfrac. cbn.
      fold (dsecs a). fold (dfrac a). unfold G in *. lia.
    - exfalso. apply Hspec. consts. lia.
  Qed.
  Lemma back_nanos a ns : valid_ndt a -> nonleap a ->
    dt_timestamp_nanos_opt a = Val (Some ns) -> dt_from_timestamp_nanos ns = Val a.
  Proof.
    intros Hv Hl H. rewrite timestamp_nanos_opt_spec in H by assumption.
    destruct (in_i64 (instant a)) eqn:Ei; [|discriminate]. injection H as <-.
    destruct (from_timestamp_nanos_spec _ Ei) as [b [Hb [Hvb [Hlb Hib]]]]. rewrite Hb. f_equal.
    apply instant_inj; assumption.
  Qed.

  (** ** SystemTime *)
  Definition sys_ns (before : bool) (ds dn : Z) : Z := if before then - (ds * G + dn) else ds * G + dn.
  Lemma from_systime_spec before ds dn : 0 <= ds <= i64_max -> 0 <= dn < G ->
    let t := sys_ns before ds dn in
    (NS_MIN <= t <= NS_MAX ->
       exists a, dt_from_systime before ds dn = Val (mk_dtz a 0) /\ valid_ndt a /\ nonleap a /\ instant a = t) /\
    (~ (NS_MIN <= t <= NS_MAX) -> dt_from_systime before ds dn = Panic).
  Proof.
    intros Hds Hdn t.
    assert (Hpair : exists sec nsec, sec = t / G /\ nsec = t mod G /\
      dt_from_systime before ds dn = (let* m := tz_timestamp_opt 0 sec nsec in mlt_unwrap m)).
    { unfold dt_from_systime. subst t. unfold sys_ns.
      rewrite as_i64_id by (ranges; lia).
      destruct before; cbn [negb].
      - destruct (dn =? 0) eqn:E0.
        + unfold neg_i64. rewrite chk_val by (ranges; lia). cbv [bind].
          exists (- ds), 0. repeat split; unfold G in *; lia.
        + unfold neg_i64, sub_i64, sub_u32, TS_SYS_NS. rewrite chk_val by (ranges; lia). cbv [bind].
          rewrite chk_val by (ranges; lia). cbv [bind]. rewrite chk_val by (ranges; unfold G in *; lia). cbv [bind].
          exists (- ds - 1), (1000000000 - dn). repeat split; unfold G in *; lia.
      - cbv [bind]. exists ds, dn. repeat split; unfold G in *; lia. }
    destruct Hpair as [sec [nsec [Hsec [Hnsec Heq]]]]. rewrite Heq. subst sec nsec.
    assert (Hi : in_i64 (t / G) = true) by (subst t; unfold sys_ns; destruct before; ranges; unfold G in *; lia).
    destruct (from_timestamp_split t Hi) as [r [Hr Hspec]].
    unfold tz_timestamp_opt. rewrite Hr. cbv [bind]. destruct r as [a|]; cbn [mlt_unwrap].
    - destruct Hspec as [Hv [Hl Hinst]]. pose proof (nonleap_instant_range a Hv Hl) as Hrange. split.
      + intros _. exists a. unfold from_utc_datetime. auto.
      + intros Hn. exfalso. apply Hn. rewrite <- Hinst. exact Hrange.
    - split; [intros Hin; exfalso; exact (Hspec Hin)|reflexivity].
  Qed.

  Lemma systime_from_dt_spec z : valid_ndt (dz_utc z) ->
    exists s n, systime_from_dt z = Val (s, n) /\ 0 <= n < G /\ s * G + n = instant (dz_utc z).
  Proof.
    intros Hv. pose proof (secs_of_range _ Hv) as Hr. unfold systime_from_dt.
    rewrite timestamp_spec by exact Hv. cbv [bind]. rewrite instant_secs.
    destruct Hv as [Hd [Hs Hf]]. unfold dt_subsec_nanos, Time.nanosecond. fold (dfrac (dz_utc z)).
    set (S := secs_of (dz_utc z)) in *. set (f := dfrac (dz_utc z)) in *.
    assert (Hq : Z.quot f 1000000000 = f / 1000000000) by (apply Z.quot_div_nonneg; lia).
    assert (Hm : Z.rem f 1000000000 = f mod 1000000000) by (apply Z.rem_mod_nonneg; lia).
    destruct (S <? 0) eqn:Eneg.
    - unfold neg_i64. rewrite chk_val by (ranges; consts; lia). cbv [bind].
      rewrite as_u64_id by (ranges; consts; lia).
      unfold dur_new, add_u64. change (Z.quot 0 1000000000) with 0. change (Z.rem 0 1000000000) with 0.
      rewrite chk_val by (ranges; consts; lia). cbv [bind].
      unfold st_sub, st_epoch. rewrite chk_val by (ranges; consts; lia). cbv [bind].
      change (0 - 0 <? 0) with false. cbv iota.
      rewrite Hq, Hm. rewrite chk_val by (ranges; unfold G in *; lia). cbv [bind].
      unfold st_add. rewrite chk_val by (ranges; consts; lia). cbv [bind].
      destruct (0 - 0 + f mod 1000000000 >=? 1000000000) eqn:E; [lia|].
      eexists _, _. split; [reflexivity|]. unfold G in *. lia.
    - rewrite as_u64_id by (ranges; consts; lia).
      unfold dur_new, add_u64. rewrite Hq, Hm. rewrite chk_val by (ranges; consts; lia). cbv [bind].
      unfold st_add, st_epoch. rewrite chk_val by (ranges; consts; lia). cbv [bind].
      destruct (0 + f mod 1000000000 >=? 1000000000) eqn:E; [lia|].
      eexists _, _. split; [reflexivity|]. unfold G in *. lia.
  Qed.
End ModuloDate.

(** what [duration_since(UNIX_EPOCH)] reports for a timespec: sign and magnitude of the same instant *)
Lemma st_since_epoch_spec s n : 0 <= n < G ->
  let '(b, ds, dn) := st_since_epoch (s, n) in
  0 <= ds /\ 0 <= dn < G /\ sys_ns b ds dn = s * G + n /\ (b = true -> 0 < ds * G + dn).
Proof.
  intros Hn. unfold st_since_epoch, sys_ns. destruct (0 <=? s) eqn:E.
  - unfold G in *. repeat split; try lia; try discriminate.
  - destruct (n =? 0) eqn:E0; unfold G in *; repeat split; lia.
Qed.

(** ** wrappers: NaiveDateTime (deprecated) and TimeZone provided methods *)
Lemma obind_some_id {A} (x : R (option A)) : (let? a := x in Val (Some a)) = x.
Proof. destruct x as [[a|]| |]; reflexivity. Qed.
Lemma naive_opt_eq secs nsecs : naive_from_timestamp_opt secs nsecs = dt_from_timestamp secs nsecs.
Proof. apply obind_some_id. Qed.
Lemma naive_millis_eq ms : naive_from_timestamp_millis ms = dt_from_timestamp_millis ms.
Proof. apply obind_some_id. Qed.
Lemma naive_micros_eq us : naive_from_timestamp_micros us = dt_from_timestamp_micros us.
Proof.
  unfold naive_from_timestamp_micros, dt_from_timestamp_micros, TS_NAIVE_US_DIV, TS_NAIVE_US_REM, TS_NAIVE_US_MUL.
  destruct (div_euclid in_i64 us 1000000) as [q| |]; cbv [bind]; try reflexivity.
  destruct (rem_euclid in_i64 us 1000000) as [r| |]; cbv [bind]; try reflexivity.
  destruct (mul_u32 (as_u32 r) 1000) as [m| |]; cbv [bind]; try reflexivity.
  apply obind_some_id.
Qed.
Lemma naive_nanos_eq ns : naive_from_timestamp_nanos ns = rmap Some (dt_from_timestamp_nanos ns) \/
  (exists s n, dt_from_timestamp s n = Val None /\ naive_from_timestamp_nanos ns = Val None /\ dt_from_timestamp_nanos ns = Panic).
Proof.
  unfold naive_from_timestamp_nanos, dt_from_timestamp_nanos, rmap.
  change (as_i64 TD_NANOS_PER_SEC) with 1000000000.
  destruct (div_euclid in_i64 ns 1000000000) as [q| |]; cbv [bind]; try (left; reflexivity).
  destruct (rem_euclid in_i64 ns 1000000000) as [r| |]; cbv [bind]; try (left; reflexivity).
  unfold unwrap_r, obind, bind.
  destruct (dt_from_timestamp q (as_u32 r)) as [[a|]| |] eqn:E; try (left; reflexivity).
  right. exists q, (as_u32 r). auto.
Qed.
Lemma naive_from_eq secs nsecs : naive_from_timestamp secs nsecs = unwrap_r (dt_from_timestamp secs nsecs).
Proof. reflexivity. Qed.
Lemma naive_acc_eq a : naive_acc a = ts_acc a.
Proof. reflexivity. Qed.

Definition lift_off (off : Z) (o : option ndt) : mlt dtz :=
  match o with Some u => MSingle (mk_dtz u off) | None => MNone end.
Lemma tz_opt_eq off secs nsecs : tz_timestamp_opt off secs nsecs = rmap (lift_off off) (dt_from_timestamp secs nsecs).
Proof. reflexivity. Qed.
Lemma tz_millis_eq off ms : tz_timestamp_millis_opt off ms = rmap (lift_off off) (dt_from_timestamp_millis ms).
Proof. reflexivity. Qed.
Lemma tz_micros_eq off us : tz_timestamp_micros off us = rmap (lift_off off) (dt_from_timestamp_micros us).
Proof. reflexivity. Qed.
Lemma tz_nanos_eq off ns : tz_timestamp_nanos off ns = rmap (fun u => mk_dtz u off) (dt_from_timestamp_nanos ns).
Proof. reflexivity. Qed.
Lemma tz_timestamp_eq off secs nsecs :
  tz_timestamp off secs nsecs = rmap (fun u => mk_dtz u off) (unwrap_r (dt_from_timestamp secs nsecs)).
Proof.
  unfold tz_timestamp, tz_timestamp_opt, rmap, unwrap_r.
  destruct (dt_from_timestamp secs nsecs) as [[a|]| |]; reflexivity.
Qed.
Lemma tz_timestamp_millis_eq off ms :
  tz_timestamp_millis off ms = rmap (fun u => mk_dtz u off) (unwrap_r (dt_from_timestamp_millis ms)).
Proof.
  unfold tz_timestamp_millis, tz_timestamp_millis_opt, rmap, unwrap_r.
  destruct (dt_from_timestamp_millis ms) as [[a|]| |]; reflexivity.
Qed.

(** Why the second-59 condition: a leap-second fraction on another second (a state reachable through
    with_second / with_nanosecond, never through from_timestamp) just below the i64 window:
    1677-09-21T00:12:42 with fraction 1_999_999_999 has timestamp * 10^9 + subsec_nanos =
    -9223372036000000001, inside i64, but the accessor's negative branch overflows and reports None. *)
Lemma nanos_opt_leap_gap :
  let a := mk_ndt 13742219 (Time.mk_time 762 1999999999) in
  Date.from_yo_opt 1677 264 = Val (Some 13742219) /\ dt_timestamp a = Val (-9223372038) /\
  in_i64 (-9223372038 * G + 1999999999) = true /\ dt_timestamp_nanos_opt a = Val None /\
  dt_timestamp_micros a = Val (-9223372036000001).
Proof. vm_compute. repeat split; reflexivity. Qed.

(** the definitions are inhabited (no dependence on the C01 facts): the doc example
    from_timestamp(1431648000, 0) = 2015-05-15T00:00:00 *)
Lemma example_valid : exists a, dt_from_timestamp 1431648000 0 = Val (Some a) /\
  valid_ndt a /\ nonleap a /\ instant a = 1431648000 * G /\ dt_timestamp_nanos_opt a = Val (Some (1431648000 * G)).
Proof.
  eexists. split; [vm_compute; reflexivity|]. split.
  - split; [exists 2015, 135; repeat split; vm_compute; reflexivity|]. vm_compute. repeat split; discriminate.
  - repeat split; vm_compute; reflexivity.
Qed.
