(** C09 -- the texts the Debug / Display writers of Model/Show.v produce, as explicit
    concatenations of fixed-width decimal tokens ([low_digits], Proofs/Decimal.v). *)
From Coq Require Import ZArith List Bool Lia ZifyBool String.
From V Require Import Base.Int Base.IntLemmas Base.IO Base.Utf8 Gen.TextForms Model.Rfc3339 Model.DateTime Model.Show
  Proofs.Utf8 Proofs.Decimal.
From V Require Model.Date Model.Time.
Import ListNotations.
Open Scope Z_scope.
Ltac Zify.zify_post_hook ::= Z.to_euclidean_division_equations.

Lemma low_digits_2 n : low_digits 2 n = [48 + (n / 10) mod 10; 48 + n mod 10].
Proof. reflexivity. Qed.
Lemma write_hundreds_two w n : 0 <= n < 100 -> write_hundreds w n = Some (w ++ low_digits 2 n).
Proof.
  intros H. unfold write_hundreds. destruct (n >=? 100) eqn:E; [lia|].
  rewrite Z.quot_div_nonneg, Z.rem_mod_nonneg by lia. rewrite low_digits_2.
  replace ((n / 10) mod 10) with (n / 10) by lia. reflexivity.
Qed.
Lemma as_u8_small n : 0 <= n < 256 -> as_u8 n = n.
Proof. intros H. unfold as_u8, wrap_u. change (2 ^ 8) with 256. apply Z.mod_small. lia. Qed.
Lemma fmt_zero_pad_low w n : 0 <= w -> 0 <= n < 10 ^ w -> fmt_zero_pad w n = low_digits (Z.to_nat w) n.
Proof. intros Hw Hn. unfold fmt_zero_pad. replace (n <? 10 ^ w) with true by lia. reflexivity. Qed.

(** * NaiveTime *)
Definition frac_part (sub : Z) : bytes :=
  if sub =? 0 then []
  else if sub mod 1000000 =? 0 then 46 :: low_digits 3 (sub / 1000000)
  else if sub mod 1000 =? 0 then 46 :: low_digits 6 (sub / 1000)
  else 46 :: low_digits 9 sub.
Definition time_txt (s f : Z) : bytes :=
  let leap := 1000000000 <=? f in
  let sub := if leap then f - 1000000000 else f in
  low_digits 2 (s / 3600) ++ [58] ++ low_digits 2 (s / 60 mod 60) ++ [58]
  ++ low_digits 2 (s mod 60 + (if leap then 1 else 0)) ++ frac_part sub.

Definition tvalid (t : Time.ntime) : Prop := 0 <= Time.tsecs t < 86400 /\ 0 <= Time.tfrac t < 2000000000.

Lemma time_debug_text w t : tvalid t -> time_debug w t = wok (w ++ time_txt (Time.tsecs t) (Time.tfrac t)).
Proof.
  intros [Hs Hf]. unfold time_debug, time_txt, Time.hms, Time.udiv, Time.urem.
  set (s := Time.tsecs t) in *. set (f := Time.tfrac t) in *.
  change SH_LEAP_FRAC with 1000000000. change SH_LEAP_SEC_ADD with 1. change SH_LEAP_FRAC_SUB with 1000000000.
  change SH_TIME_SEP1 with 58. change SH_TIME_SEP2 with 58. change SH_FRAC_NONE with 0.
  change SH_FRAC1_MOD with 1000000. change SH_FRAC1_WIDTH with 3. change SH_FRAC1_DIV with 1000000.
  change SH_FRAC2_MOD with 1000. change SH_FRAC2_WIDTH with 6. change SH_FRAC2_DIV with 1000.
  change SH_FRAC3_WIDTH with 9.
  rewrite !Z.quot_div_nonneg, !Z.rem_mod_nonneg by lia.
  replace (s / 60 / 60) with (s / 3600) by lia.
  assert (Hh : 0 <= s / 3600 < 24) by lia.
  assert (Hm : 0 <= s / 60 mod 60 < 60) by lia.
  assert (Hsec : 0 <= s mod 60 < 60) by lia.
  replace (f >=? 1000000000) with (1000000000 <=? f) by lia.
  destruct (1000000000 <=? f) eqn:El.
  - unfold add_u32, sub_u32. rewrite !chk_in by (unfold in_u32, in_range, u32_max; lia). cbn [bind].
    set (sub := f - 1000000000). assert (Hsub : 0 <= sub < 1000000000) by lia.
    unfold wseq. rewrite !as_u8_small by lia.
    rewrite write_hundreds_two by lia. cbn [bind]. unfold write_char. cbn [bind].
    rewrite write_hundreds_two by lia. cbn [bind].
    rewrite write_hundreds_two by lia. cbn [bind].
    unfold frac_part, write_frac, wok.
    rewrite !Z.rem_mod_nonneg by lia. rewrite !Z.quot_div_nonneg by lia.
    destruct (sub =? 0); [rewrite app_nil_r, <- !app_assoc; reflexivity|].
    destruct (sub mod 1000000 =? 0) eqn:E1.
    { rewrite fmt_zero_pad_low by lia. rewrite <- !app_assoc. reflexivity. }
    destruct (sub mod 1000 =? 0) eqn:E2.
    { rewrite fmt_zero_pad_low by lia. rewrite <- !app_assoc. reflexivity. }
    rewrite fmt_zero_pad_low by lia. rewrite <- !app_assoc. reflexivity.
  - cbn [bind]. assert (Hsub : 0 <= f < 1000000000) by lia.
    unfold wseq. rewrite !as_u8_small by lia.
    rewrite write_hundreds_two by lia. cbn [bind]. unfold write_char. cbn [bind].
    rewrite write_hundreds_two by lia. cbn [bind].
    rewrite write_hundreds_two by lia. cbn [bind].
    unfold frac_part, write_frac, wok. rewrite Z.add_0_r.
    rewrite !Z.rem_mod_nonneg by lia. rewrite !Z.quot_div_nonneg by lia.
    destruct (f =? 0); [rewrite app_nil_r, <- !app_assoc; reflexivity|].
    destruct (f mod 1000000 =? 0) eqn:E1.
    { rewrite fmt_zero_pad_low by lia. rewrite <- !app_assoc. reflexivity. }
    destruct (f mod 1000 =? 0) eqn:E2.
    { rewrite fmt_zero_pad_low by lia. rewrite <- !app_assoc. reflexivity. }
    rewrite fmt_zero_pad_low by lia. rewrite <- !app_assoc. reflexivity.
Qed.

(** * NaiveDate *)
From V Require Import Spec.Gregorian.
From V Require Proofs.C08 Proofs.C14.
From V Require Import Proofs.Date.
Definition year_txt (y : Z) : bytes :=
  if (0 <=? y) && (y <=? 9999) then low_digits 4 y
  else (if y <? 0 then 45 else 43) :: fmt_zero_pad 4 (Z.abs y).
Definition date_txt (y m dd : Z) : bytes := year_txt y ++ 45 :: low_digits 2 m ++ 45 :: low_digits 2 dd.

Lemma low_digits_4_split y : 0 <= y <= 9999 -> low_digits 2 (y / 100) ++ low_digits 2 (y mod 100) = low_digits 4 y.
Proof.
  intros H. cbn [low_digits app]. f_equal; [lia|]. f_equal; [lia|]. f_equal; [lia|]. f_equal; lia.
Qed.

Lemma date_debug_text w y o d : repr y o d ->
  date_debug w d = wok (w ++ date_txt y (C08.month_of y o) (C08.day_of y o)).
Proof.
  intros H. pose proof (C08.repr_md y o d H) as (E1 & _ & E3 & E4 & _ & _ & Hm & Hd & _).
  pose proof H as (Hy & _). pose proof (year_range_bounds y Hy) as Hyb.
  assert (Hdd : 1 <= C08.day_of y o <= 31).
  { pose proof (days_in_month_bounds (is_leap y) (C08.month_of y o)). lia. }
  unfold date_debug. rewrite E1.
  unfold Date.d_month in E3. unfold Date.d_day in E4.
  destruct (Date.d_mdf d) as [mdf| |]; try discriminate. cbn [bind] in *.
  injection E3 as E3. injection E4 as E4. rewrite E3, E4.
  change SH_YEAR_LO with 0. change SH_YEAR_HI with 9999. change SH_DATE_SEP1 with 45. change SH_DATE_SEP2 with 45.
  unfold date_txt, year_txt, wseq, wok, write_char.
  destruct ((0 <=? y) && (y <=? 9999)) eqn:E.
  - rewrite C14.div_i32_100, C14.rem_i32_100 by (unfold in_i32, in_range, i32_min, i32_max; lia). cbn [bind].
    rewrite Z.quot_div_nonneg, Z.rem_mod_nonneg by lia.
    rewrite !as_u8_small by lia.
    rewrite write_hundreds_two by lia. rewrite write_hundreds_two by lia. cbn [bind].
    rewrite write_hundreds_two by lia. cbn [bind]. rewrite write_hundreds_two by lia.
    rewrite <- low_digits_4_split by lia. rewrite <- !app_assoc. reflexivity.
  - cbn [bind]. rewrite !as_u8_small by lia.
    rewrite write_hundreds_two by lia. cbn [bind]. rewrite write_hundreds_two by lia.
    unfold fmt_plus_05. rewrite <- !app_assoc. reflexivity.
Qed.
