(** Round trip of the TZif reader against the complete layout of the specification writer
    (Spec/TzWriter.v, second half): leap-second records, standard/wall and UT/local indicator
    arrays, and the version 2 / 3 footer carrying the rule.
    [parse (write_tzif_v1_full z std ut) = Val (Ok z)] and
    [parse (write_tzif_v23_full ver z32 std32 ut32 z std ut) = Val (Ok z)]. *)
From Coq Require Import ZArith List Bool Lia ZifyBool.
From V Require Import Base.Int Base.IO Base.IntLemmas Gen.TzInfo.
From V Require Import Model.TzParser Model.TzRule Spec.TzWriter.
From V Require Import Proofs.TzCommon Proofs.TzRoundtrip Proofs.TzWriterRoundtrip.
Import ListNotations.
Open Scope Z_scope.
Ltac Zify.zify_post_hook ::= Z.to_euclidean_division_equations.

(** ** Header with indicator counts *)
Lemma header_new_full_exact ver uc sc lc tc yc cc rest rc :
  (ver = 0 \/ ver = 50 \/ ver = 51) ->
  (uc = 0 \/ uc = yc) -> (sc = 0 \/ sc = yc) ->
  0 <= lc <= u32_max -> 0 <= tc <= u32_max -> 1 <= yc <= u32_max -> 1 <= cc <= u32_max ->
  fits rc (tzif_header_full ver uc sc lc tc yc cc ++ rest) ->
  header_new (mk_cur (tzif_header_full ver uc sc lc tc yc cc ++ rest) rc)
  = ok (mk_hdr (ver_of ver) uc sc lc tc yc cc, mk_cur rest (rc + 44)).
Proof.
  intros Hver Huc Hsc Hlc Htc Hyc Hcc Hfit. unfold header_new, tzif_header_full in *.
  rewrite <- ?app_assoc in *.
  change ([84; 90; 105; 102; ver] ++ ?x) with ([84; 90; 105; 102] ++ [ver] ++ x) in *.
  rewrite (read_exact_app' [84; 90; 105; 102] _ rc 4) by (try reflexivity; exact Hfit).
  rewrite rbind_ok. cbv beta iota. apply fits_app in Hfit. change (zlen [84; 90; 105; 102]) with 4 in Hfit.
  change (bytes_eqb [84; 90; 105; 102] _) with true. cbn [negb].
  rewrite (read_exact_app' [ver] _ (rc + 4) 1) by (try reflexivity; exact Hfit).
  rewrite rbind_ok. cbv beta iota. apply fits_app in Hfit. change (zlen [ver]) with 1 in Hfit.
  assert (Hv : match [ver] with [0] => ok V1 | [50] => ok V2 | [51] => ok V3 | _ => fail EUnsupportedTzFile end = ok (ver_of ver)).
  { destruct Hver as [-> | [-> | ->]]; reflexivity. }
  rewrite Hv, rbind_ok.
  rewrite (read_exact_app' (repeat 0 15%nat) _ (rc + 4 + 1) 15) by (try reflexivity; exact Hfit).
  rewrite rbind_ok. cbv beta iota. apply fits_app in Hfit. change (zlen (repeat 0 15%nat)) with 15 in Hfit.
  assert (Hu32 : 0 <= uc <= u32_max /\ 0 <= sc <= u32_max) by (unfold u32_max in *; lia).
  rewrite read_be_u32_exact by (try exact Hfit; lia). rewrite rbind_ok. cbv beta iota.
  apply fits_app in Hfit. rewrite zlen_be32 in Hfit.
  rewrite read_be_u32_exact by (try exact Hfit; lia). rewrite rbind_ok. cbv beta iota.
  apply fits_app in Hfit. rewrite zlen_be32 in Hfit.
  rewrite read_be_u32_exact by (try exact Hfit; lia). rewrite rbind_ok. cbv beta iota.
  apply fits_app in Hfit. rewrite zlen_be32 in Hfit.
  rewrite read_be_u32_exact by (try exact Hfit; lia). rewrite rbind_ok. cbv beta iota.
  apply fits_app in Hfit. rewrite zlen_be32 in Hfit.
  rewrite read_be_u32_exact by (try exact Hfit; lia). rewrite rbind_ok. cbv beta iota.
  apply fits_app in Hfit. rewrite zlen_be32 in Hfit.
  rewrite read_be_u32_exact by (try exact Hfit; lia). rewrite rbind_ok. cbv beta iota.
  replace (negb (negb (yc =? 0) && negb (cc =? 0) && ((uc =? 0) || (uc =? yc)) && ((sc =? 0) || (sc =? yc)))) with false by lia.
  rewrite !as_usize_id' by (unfold u32_max in *; lia).
  replace (rc + 4 + 1 + 15 + 4 + 4 + 4 + 4 + 4 + 4) with (rc + 44) by lia. reflexivity.
Qed.

(** ** Data block with leap records and indicator arrays *)
Lemma zlen_enc_leap ts l : (ts = 4 \/ ts = 8) -> zlen (enc_leap ts l) = ts + 4.
Proof. intros [-> | ->]; reflexivity. Qed.

Definition block_hdr_full (ver : Z) (z : timezone) (std ut : list bool) : header :=
  mk_hdr (ver_of ver) (zlen ut) (zlen std) (zlen (leap_seconds z)) (zlen (transitions z))
         (zlen (local_time_types z)) (zlen (desig_table (local_time_types z))).
Definition block_state_full (ver ts : Z) (z : timezone) (std ut : list bool) : state :=
  mk_state (block_hdr_full ver z std ut) ts
    (flat_map (fun t => be_time ts (tr_time t)) (transitions z))
    (map tr_idx (transitions z))
    (flat_map enc_type (combine (local_time_types z) (desig_indices (local_time_types z) 0)))
    (desig_table (local_time_types z))
    (flat_map (enc_leap ts) (leap_seconds z)) (map enc_flag std) (map enc_flag ut).

Lemma zlen_block_full ver ts z std ut : (ts = 4 \/ ts = 8) ->
  zlen (tzif_block_full ver ts z std ut)
  = 44 + zlen (transitions z) * ts + zlen (transitions z) + zlen (local_time_types z) * 6
    + zlen (desig_table (local_time_types z)) + zlen (leap_seconds z) * (ts + 4) + zlen std + zlen ut.
Proof.
  intros Hts. unfold tzif_block_full. rewrite !zlen_app. change (zlen (tzif_header_full _ _ _ _ _ _ _)) with 44.
  rewrite (zlen_flat_map _ ts) by (intros; apply zlen_be_time; exact Hts).
  rewrite !zlen_map. rewrite (zlen_flat_map _ 6) by apply zlen_enc_type. rewrite zlen_combine_idx.
  rewrite (zlen_flat_map _ (ts + 4)) by (intros; apply zlen_enc_leap; exact Hts). lia.
Qed.

Lemma state_new_full_exact ver (first : bool) z std ut rest rc :
  (ver = 0 \/ ver = 50 \/ ver = 51) ->
  block_layout (if first then 4 else 8) z std ut ->
  fits rc (tzif_block_full ver (if first then 4 else 8) z std ut ++ rest) ->
  state_new (mk_cur (tzif_block_full ver (if first then 4 else 8) z std ut ++ rest) rc) first
  = ok (block_state_full ver (if first then 4 else 8) z std ut,
        mk_cur rest (rc + zlen (tzif_block_full ver (if first then 4 else 8) z std ut))).
Proof.
  intros Hver (Hne & Hcc & Htc & Hlc & Hsc & Huc) Hfit. set (ts := if first then 4 else 8) in *.
  assert (Hts : ts = 4 \/ ts = 8) by (subst ts; destruct first; auto).
  pose proof (types_le_table (local_time_types z)) as Hyc.
  assert (Hy1 : 1 <= zlen (local_time_types z)).
  { destruct (local_time_types z) as [|l0 r0]; [congruence|]. rewrite zlen_cons. pose proof (zlen_nonneg r0). lia. }
  pose proof (zlen_nonneg (transitions z)) as Ht0. pose proof (zlen_nonneg (leap_seconds z)) as Hl0.
  rewrite (zlen_block_full ver ts z std ut Hts).
  unfold state_new, tzif_block_full in *.
  set (T := flat_map (fun t => be_time ts (tr_time t)) (transitions z)) in *.
  set (I := map tr_idx (transitions z)) in *.
  set (Y := flat_map enc_type (combine (local_time_types z) (desig_indices (local_time_types z) 0))) in *.
  set (N := desig_table (local_time_types z)) in *.
  set (L := flat_map (enc_leap ts) (leap_seconds z)) in *.
  set (S := map enc_flag std) in *. set (U := map enc_flag ut) in *.
  assert (HT : zlen T = zlen (transitions z) * ts).
  { subst T. rewrite (zlen_flat_map _ ts); [lia|]. intros x. apply zlen_be_time. exact Hts. }
  assert (HI : zlen I = zlen (transitions z)) by (subst I; apply zlen_map).
  assert (HY : zlen Y = zlen (local_time_types z) * 6).
  { subst Y. rewrite (zlen_flat_map _ 6) by apply zlen_enc_type. rewrite zlen_combine_idx. lia. }
  assert (HL : zlen L = zlen (leap_seconds z) * (ts + 4)).
  { subst L. rewrite (zlen_flat_map _ (ts + 4)); [lia|]. intros x. apply zlen_enc_leap. exact Hts. }
  assert (HS : zlen S = zlen std) by (subst S; apply zlen_map).
  assert (HU : zlen U = zlen ut) by (subst U; apply zlen_map).
  rewrite <- ?app_assoc in *.
  rewrite header_new_full_exact; [|exact Hver|destruct Huc as [-> | ->]; [left; reflexivity|right; reflexivity]
                                  |destruct Hsc as [-> | ->]; [left; reflexivity|right; reflexivity]
                                  |unfold u32_max; lia|unfold u32_max; lia|unfold u32_max; lia|unfold u32_max; lia|exact Hfit].
  rewrite rbind_ok. cbv beta iota. cbn [transition_count type_count char_count leap_count std_wall_count ut_local_count].
  apply fits_app in Hfit. change (zlen (tzif_header_full _ _ _ _ _ _ _)) with 44 in Hfit.
  unfold mul_usize, add_usize.
  replace (if first then 4 else 8) with ts by reflexivity.
  rewrite chk_in by (destruct Hts as [-> | ->]; range_solver). cbv [bind].
  rewrite (read_exact_app' T _ _ (zlen (transitions z) * ts)) by (try exact HT; exact Hfit).
  rewrite rbind_ok. cbv beta iota. apply fits_app in Hfit. rewrite HT in Hfit.
  rewrite (read_exact_app' I _ _ (zlen (transitions z))) by (try exact HI; exact Hfit).
  rewrite rbind_ok. cbv beta iota. apply fits_app in Hfit. rewrite HI in Hfit.
  rewrite chk_in by range_solver. cbv beta iota.
  rewrite (read_exact_app' Y _ _ (zlen (local_time_types z) * 6)) by (try exact HY; exact Hfit).
  rewrite rbind_ok. cbv beta iota. apply fits_app in Hfit. rewrite HY in Hfit.
  rewrite (read_exact_app' N _ _ (zlen N)) by (try reflexivity; exact Hfit).
  rewrite rbind_ok. cbv beta iota. apply fits_app in Hfit.
  rewrite chk_in by (destruct Hts as [-> | ->]; range_solver). cbv beta iota.
  rewrite chk_in by (destruct Hts as [-> | ->]; range_solver). cbv beta iota.
  rewrite (read_exact_app' L _ _ (zlen (leap_seconds z) * (ts + 4))) by (try exact HL; exact Hfit).
  rewrite rbind_ok. cbv beta iota. apply fits_app in Hfit. rewrite HL in Hfit.
  rewrite (read_exact_app' S _ _ (zlen std)) by (try exact HS; exact Hfit).
  rewrite rbind_ok. cbv beta iota. apply fits_app in Hfit. rewrite HS in Hfit.
  rewrite (read_exact_app' U _ _ (zlen ut)) by (try exact HU; exact Hfit).
  rewrite rbind_ok. cbv beta iota.
  unfold block_state_full, block_hdr_full. fold T I Y N L S U.
  match goal with |- ok (_, mk_cur _ ?x) = ok (_, mk_cur _ ?y) => replace y with x by (subst N; lia) end.
  reflexivity.
Qed.

(** ** Leap-second records *)
Lemma parse_leap_exact ts ver l :
  ((ts = 4 /\ ver = V1 /\ in_i32 (lp_time l) = true) \/ (ts = 8 /\ ver <> V1 /\ in_i64 (lp_time l) = true)) ->
  in_i32 (lp_corr l) = true ->
  parse_leap ts ver (enc_leap ts l) = ok l.
Proof.
  intros Ht Hc. assert (Hts : ts = 4 \/ ts = 8) by (destruct Ht as [(-> & _) | (-> & _)]; auto).
  unfold parse_leap, enc_leap.
  assert (H1 : slice (be_time ts (lp_time l) ++ be32 (lp_corr l)) 0 ts = Val (be_time ts (lp_time l))).
  { pose proof (slice_mid [] (be_time ts (lp_time l)) (be32 (lp_corr l))) as H. cbn [app] in H.
    change (zlen (@nil Z)) with 0 in H. rewrite zlen_be_time in H by exact Hts. exact H. }
  rewrite H1, bind_val. rewrite parse_time_be by exact Ht. rewrite rbind_ok.
  unfold add_usize. rewrite chk_in by (destruct Hts as [-> | ->]; range_solver). rewrite bind_val.
  assert (H2 : slice (be_time ts (lp_time l) ++ be32 (lp_corr l)) ts (ts + 4) = Val (be32 (lp_corr l))).
  { pose proof (slice_mid (be_time ts (lp_time l)) (be32 (lp_corr l)) []) as H. rewrite app_nil_r in H.
    rewrite zlen_be_time, zlen_be32 in H by exact Hts. exact H. }
  rewrite H2, bind_val.
  unfold read_be_i32, copy_from_slice. rewrite zlen_be32. cbn [Z.eqb Pos.eqb negb]. rewrite bind_val.
  rewrite as_i32_be32 by exact Hc. rewrite rbind_ok. destruct l; reflexivity.
Qed.

Lemma decode_leaps ts ver leaps :
  Forall (fun l => ((ts = 4 /\ ver = V1 /\ in_i32 (lp_time l) = true) \/ (ts = 8 /\ ver <> V1 /\ in_i64 (lp_time l) = true))
                   /\ in_i32 (lp_corr l) = true) leaps ->
  map_res (parse_leap ts ver) (map (enc_leap ts) leaps) = ok leaps.
Proof.
  intros HF. induction HF as [|l r [Ht Hc] HF IH]; [reflexivity|].
  cbn [map map_res]. rewrite parse_leap_exact by assumption. rewrite rbind_ok, IH, rbind_ok. reflexivity.
Qed.

(** ** Indicator arrays: UT implies standard *)
Lemma indicators_good : forall n std ut,
  (forall i, nth i ut false = true -> nth i std false = true) ->
  indicators_bad n (map enc_flag std) (map enc_flag ut) = false.
Proof.
  induction n as [|n IH]; intros std ut H; [reflexivity|].
  cbn [indicators_bad].
  assert (Hhd : forall s u, (u = true -> s = true) -> (enc_flag s =? 0) && (enc_flag u =? 1) = false)
    by (intros [|] [|] Hi; try reflexivity; discriminate (Hi eq_refl)).
  assert (Hnil : forall i, nth i (@nil bool) false = false) by (intros [|i]; reflexivity).
  destruct std as [|s std']; destruct ut as [|u ut']; cbn [map].
  - apply (IH [] []). intros i. rewrite Hnil. discriminate.
  - assert (Hu : u = false) by (destruct u; [specialize (H 0%nat eq_refl); discriminate H|reflexivity]).
    subst u. cbn [enc_flag]. change (0 =? 1) with false. rewrite andb_false_r. cbn [orb].
    apply (IH [] ut'). intros i Hi. rewrite Hnil. specialize (H (S i) Hi). cbn [nth] in H. destruct i; discriminate H.
  - change (0 =? 1) with false. rewrite andb_false_r. cbn [orb].
    apply (IH std' []). intros i. rewrite Hnil. discriminate.
  - rewrite (Hhd s u (H 0%nat)). cbn [orb]. apply (IH std' ut'). intros i Hi. exact (H (S i) Hi).
Qed.

(** ** Construction: leap table and footer consistency *)
Lemma validate_leaps_ok : forall leaps, leaps_spaced leaps -> validate_leaps leaps = Ok tt.
Proof.
  induction leaps as [|x0 r IH]; intros H; [reflexivity|].
  destruct r as [|x1 r']; [reflexivity|].
  cbn [leaps_spaced] in H. destruct H as (Ht & Hc & Hr).
  cbn [validate_leaps].
  assert (E1 : (sat_i64 (lp_time x1 - lp_time x0) >=? TZ_SECONDS_PER_28_DAYS - 1) = true).
  { unfold sat_i64, clamp, i64_min, i64_max, TZ_SECONDS_PER_28_DAYS.
    destruct (lp_time x1 - lp_time x0 <? -9223372036854775808) eqn:Ea; [lia|].
    destruct (9223372036854775807 <? lp_time x1 - lp_time x0) eqn:Eb; lia. }
  assert (E2 : (sat_i32 (Z.abs (sat_i32 (lp_corr x1 - lp_corr x0))) =? 1) = true).
  { destruct Hc as [Hc | Hc].
    - replace (lp_corr x1 - lp_corr x0) with 1 by lia. reflexivity.
    - replace (lp_corr x1 - lp_corr x0) with (-1) by lia. reflexivity. }
  rewrite E1, E2. cbn [andb negb]. apply IH. exact Hr.
Qed.

(** what [TimeZoneRef::validate] demands of a footer rule: evaluated (by the reader's own rule
    evaluation, after the leap-second correction) at the last transition it must give the
    last transition's local time type -- offset, DST flag and designation *)
Definition footer_consistent (z : timezone) : bool :=
  match extra_rule z, last_of (transitions z) with
  | Some rule, Some last =>
      match index (local_time_types z) (tr_idx last),
            unix_leap_time_to_unix_time (leap_seconds z) (tr_time last) with
      | Val last_ltt, Val (Ok unix_time) =>
          match rule_find_local_time_type rule unix_time with
          | Val (Ok rule_ltt) =>
              (ut_offset last_ltt =? ut_offset rule_ltt)
              && Bool.eqb (is_dst last_ltt) (is_dst rule_ltt)
              && opt_bytes_eqb (name last_ltt) (name rule_ltt)
          | _ => false
          end
      | _, _ => false
      end
  | _, _ => true
  end.

Lemma tz_new_full_exact trs types leaps rule : types <> [] ->
  Forall (fun t => tr_idx t < zlen types) trs -> strictly_increasing (map tr_time trs) ->
  match leaps with [] => True | a :: _ => 0 <= lp_time a /\ (lp_corr a = 1 \/ lp_corr a = -1) end ->
  leaps_spaced leaps ->
  footer_consistent (mk_tz trs types leaps rule) = true ->
  tz_new trs types leaps rule = ok (mk_tz trs types leaps rule).
Proof.
  intros Hne HF Hinc Hfirst Hsp Hfc. unfold tz_new, validate. cbn [local_time_types transitions leap_seconds extra_rule].
  assert (Hn : (zlen types =? 0) = false).
  { destruct types as [|l r]; [congruence|]. rewrite zlen_cons. pose proof (zlen_nonneg r). lia. }
  rewrite Hn. rewrite validate_transitions_ok by assumption.
  change (Val (Ok tt)) with (ok tt). rewrite !rbind_ok.
  assert (Hf : match leaps with
               | [] => ok tt
               | l0 :: _ => if negb ((lp_time l0 >=? 0) && (sat_i32 (Z.abs (lp_corr l0)) =? 1)) then fail ETimeZone else ok tt
               end = ok tt).
  { destruct leaps as [|l0 r]; [reflexivity|]. destruct Hfirst as [H0 Hc].
    replace (lp_time l0 >=? 0) with true by lia.
    replace (sat_i32 (Z.abs (lp_corr l0)) =? 1) with true by (destruct Hc as [-> | ->]; reflexivity).
    reflexivity. }
  rewrite Hf, rbind_ok. rewrite validate_leaps_ok by exact Hsp.
  change (Val (Ok tt)) with (ok tt). rewrite !rbind_ok.
  unfold footer_consistent in Hfc. cbn [local_time_types transitions leap_seconds extra_rule] in Hfc.
  destruct rule as [rule|]; [|reflexivity].
  destruct (last_of trs) as [last|]; [|reflexivity].
  destruct (index types (tr_idx last)) as [last_ltt| |]; try discriminate Hfc.
  destruct (unix_leap_time_to_unix_time leaps (tr_time last)) as [[ut|e]| |]; try discriminate Hfc.
  cbn [bind oor_to rbind].
  destruct (rule_find_local_time_type rule ut) as [[rl|e]| |]; try discriminate Hfc.
  cbn [bind oor_to rbind]. rewrite Hfc. reflexivity.
Qed.

(** ** Sizes *)
Lemma ind_len (l : list bool) n : (l = [] \/ zlen l = n) -> 0 <= n -> 0 <= zlen l <= n.
Proof. intros [-> | ->] Hn; [change (zlen (@nil bool)) with 0|]; lia. Qed.

Lemma writable_layout ts z std ut : zone_writable_full ts z std ut -> block_layout ts z std ut.
Proof.
  intros (Hne & Hty & Hcc & Htr & Hinc & Htc & Hlp & Hlc & (Hsc & Huc & Himp)).
  repeat split; assumption.
Qed.

Lemma block_full_bound ver ts z std ut : (ts = 4 \/ ts = 8) -> block_layout ts z std ut ->
  0 <= zlen (tzif_block_full ver ts z std ut) <= 100000000000.
Proof.
  intros Hts (Hne & Hcc & Htc & Hlc & Hsc & Huc). rewrite zlen_block_full by exact Hts.
  pose proof (types_le_table (local_time_types z)) as Hyc.
  pose proof (zlen_nonneg (local_time_types z)) as Hy0.
  pose proof (zlen_nonneg (transitions z)) as Ht0. pose proof (zlen_nonneg (leap_seconds z)) as Hl0.
  pose proof (ind_len std _ Hsc Hy0). pose proof (ind_len ut _ Huc Hy0).
  destruct Hts as [-> | ->]; lia.
Qed.

(** ** The footer: printable text between two newlines *)
Definition txt (b : Z) : Prop := 33 <= b <= 126.
Lemma digits_txt l : Forall (fun x => is_ascii_digit x = true) l -> Forall txt l.
Proof. intros H. eapply Forall_impl; [|exact H]. intros b Hb. unfold is_ascii_digit in Hb. unfold txt. lia. Qed.
Lemma print_hms_txt (three : bool) v :
  - (if three then 604799 else 89999) <= v <= (if three then 604799 else 89999) -> Forall txt (print_hms three v).
Proof.
  intros H. rewrite print_hms_shape.
  destruct (hour_digits_ok three (Z.abs v) ltac:(destruct three; lia)) as (_ & Hd & _).
  destruct (print2_digits ((Z.abs v / 60) mod 60) ltac:(lia)) as (D1 & _).
  destruct (print2_digits (Z.abs v mod 60) ltac:(lia)) as (D2 & _).
  apply Forall_app; split; [destruct (v <? 0); repeat constructor; unfold txt; lia|].
  apply Forall_app; split; [apply digits_txt; exact Hd|].
  constructor; [unfold txt; lia|]. apply Forall_app; split; [apply digits_txt; exact D1|].
  constructor; [unfold txt; lia|]. apply digits_txt; exact D2.
Qed.
Lemma print_ltt_txt dst l : ltt_printable dst l -> Forall txt (print_ltt l).
Proof.
  intros (_ & Ho & Hn). unfold print_ltt, print_name, name_of. destruct (name l) as [n|]; [|contradiction].
  destruct Hn as [_ Hc]. apply Forall_app; split.
  - apply Forall_app; split; [repeat constructor; unfold txt; lia|].
    apply Forall_app; split; [|repeat constructor; unfold txt; lia].
    eapply Forall_impl; [|exact Hc]. intros b Hb. unfold is_name_char in Hb. unfold txt. lia.
  - apply (print_hms_txt false). lia.
Qed.
Lemma print_day_txt d : day_printable d -> Forall txt (print_day d).
Proof.
  destruct d as [n|n|m w wd]; cbn [day_printable print_day]; intros H.
  - destruct (print3_digits n ltac:(lia)) as (D & _).
    apply Forall_app; split; [repeat constructor; unfold txt; lia|apply digits_txt; exact D].
  - destruct (print3_digits n ltac:(lia)) as (D & _). apply digits_txt; exact D.
  - destruct (print2_digits m ltac:(lia)) as (D1 & _). destruct (print1_digits w ltac:(lia)) as (D2 & _).
    destruct (print1_digits wd ltac:(lia)) as (D3 & _).
    apply Forall_app; split; [repeat constructor; unfold txt; lia|].
    apply Forall_app; split; [apply digits_txt; exact D1|].
    apply Forall_app; split; [repeat constructor; unfold txt; lia|].
    apply Forall_app; split; [apply digits_txt; exact D2|].
    apply Forall_app; split; [repeat constructor; unfold txt; lia|apply digits_txt; exact D3].
Qed.
Lemma print_time_txt (ext : bool) t : time_printable ext t -> Forall txt (print_hms ext t).
Proof. intros H. apply print_hms_txt. destruct ext; cbn in H; lia. Qed.
Lemma print_rule_txt r ext : rule_printable r ext -> Forall txt (print_rule r ext).
Proof.
  destruct r as [l|a]; cbn [rule_printable print_rule].
  - apply print_ltt_txt.
  - intros (Hs & Hd & Hds & Hde & Hts & Hte).
    apply Forall_app; split; [exact (print_ltt_txt _ _ Hs)|].
    apply Forall_app; split; [exact (print_ltt_txt _ _ Hd)|].
    apply Forall_app; split; [repeat constructor; unfold txt; lia|].
    apply Forall_app; split; [exact (print_day_txt _ Hds)|].
    apply Forall_app; split; [repeat constructor; unfold txt; lia|].
    apply Forall_app; split; [exact (print_time_txt _ _ Hts)|].
    apply Forall_app; split; [repeat constructor; unfold txt; lia|].
    apply Forall_app; split; [exact (print_day_txt _ Hde)|].
    apply Forall_app; split; [repeat constructor; unfold txt; lia|exact (print_time_txt _ _ Hte)].
Qed.
Lemma print_rule_head r ext : exists s', print_rule r ext = 60 :: s'.
Proof.
  destruct r as [l|a]; unfold print_rule, print_ltt, print_name; cbn [app]; eexists; reflexivity.
Qed.
Lemma zlen_print_rule r ext : rule_printable r ext -> 0 <= zlen (print_rule r ext) <= 100.
Proof.
  destruct r as [l|a]; cbn [rule_printable print_rule].
  - intros (_ & _ & Hn). pose proof (zlen_print_ltt l Hn). lia.
  - intros ((_ & _ & Hn1) & (_ & _ & Hn2) & _).
    pose proof (zlen_print_ltt _ Hn1). pose proof (zlen_print_ltt _ Hn2).
    pose proof (zlen_print_day (dst_start a)). pose proof (zlen_print_day (dst_end a)).
    pose proof (zlen_print_hms ext (dst_start_time a)). pose proof (zlen_print_hms ext (dst_end_time a)).
    repeat (rewrite zlen_app || rewrite zlen_cons). change (zlen (@nil Z)) with 0. lia.
Qed.

Lemma utf8_valid_ascii l : Forall (fun b => b <= 127) l -> utf8_valid l = true.
Proof.
  induction 1 as [|b r Hb _ IH]; [reflexivity|]. cbn [utf8_valid].
  replace (b <=? 127) with true by lia. exact IH.
Qed.
Lemma drop_ws_txt l : Forall txt l -> drop_while is_ascii_whitespace l = l.
Proof.
  destruct 1 as [|b r Hb _]; [reflexivity|]. cbn [drop_while].
  replace (is_ascii_whitespace b) with false; [reflexivity|]. unfold is_ascii_whitespace, txt in *. lia.
Qed.
Lemma trim_footer S : Forall txt S -> trim_ascii_ws (10 :: S ++ [10]) = S.
Proof.
  intros H. unfold trim_ascii_ws.
  change (drop_while is_ascii_whitespace (10 :: S ++ [10])) with (drop_while is_ascii_whitespace (S ++ [10])).
  destruct S as [|x S']; [reflexivity|].
  inversion H as [|? ? Hx HS']; subst.
  cbn [app drop_while]. replace (is_ascii_whitespace x) with false by (unfold is_ascii_whitespace, txt in *; lia).
  change (x :: S' ++ [10]) with ((x :: S') ++ [10]). rewrite rev_app_distr.
  change (rev [10] ++ rev (x :: S')) with (10 :: rev (x :: S')).
  cbn [drop_while]. change (is_ascii_whitespace 10) with true. cbv iota.
  rewrite drop_ws_txt by (apply Forall_rev; exact H). apply rev_involutive.
Qed.
Lemma last_byte_footer S : last_byte (10 :: S ++ [10]) = Some 10.
Proof. unfold last_byte. change (10 :: S ++ [10]) with ((10 :: S) ++ [10]). rewrite rev_app_distr. reflexivity. Qed.
Lemma no_zero_txt S : Forall txt S -> existsb (fun x => x =? 0) S = false.
Proof.
  induction 1 as [|b r Hb _ IH]; [reflexivity|]. cbn [existsb]. rewrite IH.
  replace (b =? 0) with false by (unfold txt in Hb; lia). reflexivity.
Qed.

(** what the footer rule must satisfy: printable in the TZ-string grammar of the file version, and
    consistent with the last transition as [TimeZone::new] demands *)
Definition footer_writable (ver : Z) (z : timezone) : Prop :=
  match extra_rule z with
  | None => True
  | Some r => rule_printable r (footer_ext ver) /\ footer_consistent z = true
  end.
Lemma footer_body_txt ver z : footer_writable ver z -> Forall txt (footer_body ver z).
Proof.
  unfold footer_writable, footer_body. destruct (extra_rule z) as [r|]; [|constructor].
  intros [Hp _]. apply print_rule_txt. exact Hp.
Qed.
Lemma zlen_footer ver z : footer_writable ver z -> 0 <= zlen (tzif_footer ver z) <= 102.
Proof.
  unfold footer_writable, tzif_footer, footer_body. destruct (extra_rule z) as [r|].
  - intros [Hp _]. pose proof (zlen_print_rule _ _ Hp). rewrite !zlen_app. change (zlen [10]) with 1. lia.
  - intros _. cbn [app]. change (zlen [10; 10]) with 2. lia.
Qed.

(** ** The whole reader *)
Ltac open_state :=
  cbv zeta; unfold block_state_full, block_hdr_full;
  cbn [st_header time_size st_transition_times st_transition_types st_local_time_types st_names
       st_leap_seconds st_std_walls st_ut_locals h_version transition_count type_count char_count].

Theorem writer_roundtrip_v1_full z std ut : zone_writable_full 4 z std ut -> extra_rule z = None ->
  parse (write_tzif_v1_full z std ut) = Val (Ok z).
Proof.
  intros Hw Hrule. unfold parse, write_tzif_v1_full, cur_new.
  pose proof (writable_layout _ _ _ _ Hw) as Hlay.
  pose proof Hw as (Hne & Hty & Hcc & Htr & Hinc & Htc & (Hlp & Hlp0 & Hlsp) & Hlc & (Hsc & Huc & Himp)).
  assert (Hfit : fits 0 (tzif_block_full 0 4 z std ut ++ [])).
  { unfold fits, u64_max. split; [lia|]. rewrite app_nil_r.
    pose proof (block_full_bound 0 4 z std ut ltac:(auto) Hlay). lia. }
  pose proof (state_new_full_exact 0 true z std ut [] 0 ltac:(auto) Hlay Hfit) as Hs.
  rewrite app_nil_r in Hs. rewrite Hs, rbind_ok. cbv beta iota.
  unfold block_state_full at 1, block_hdr_full at 1. cbn [st_header h_version]. change (ver_of 0) with V1. cbv iota.
  cbn [cur_is_empty remaining]. rewrite rbind_ok. cbv beta iota.
  open_state. change (ver_of 0) with V1.
  rewrite chunks_exact_flat_map by (try lia; intros; reflexivity). rewrite bind_val.
  rewrite decode_transitions; [|auto|].
  2:{ eapply Forall_impl; [|exact Htr]. intros t [Ht Hi]. unfold time_fits in Ht. cbn [Z.eqb Pos.eqb] in Ht.
      pose proof (types_le_table (local_time_types z)). split; [left; auto|unfold u32_max; lia]. }
  rewrite rbind_ok.
  rewrite chunks_exact_flat_map by (try lia; apply zlen_enc_type). rewrite bind_val.
  rewrite decode_types by (try assumption; reflexivity). rewrite rbind_ok.
  unfold add_usize. rewrite chk_in by range_solver. rewrite bind_val.
  rewrite chunks_exact_flat_map by (try lia; intros; reflexivity). rewrite bind_val.
  rewrite decode_leaps.
  2:{ eapply Forall_impl; [|exact Hlp]. intros l [Ht Hc]. unfold time_fits in Ht. cbn [Z.eqb Pos.eqb] in Ht.
      split; [left; auto|exact Hc]. }
  rewrite rbind_ok. rewrite indicators_good by exact Himp. rewrite rbind_ok.
  destruct z as [trs tys lps rl]. cbn [transitions local_time_types leap_seconds extra_rule] in *. subst rl.
  apply tz_new_full_exact; try assumption; [|reflexivity].
  eapply Forall_impl; [|exact Htr]. intros t [_ Hi]. lia.
Qed.

Theorem writer_roundtrip_v23_full ver z32 std32 ut32 z std ut :
  (ver = 50 \/ ver = 51) -> block_layout 4 z32 std32 ut32 ->
  zone_writable_full 8 z std ut -> footer_writable ver z ->
  parse (write_tzif_v23_full ver z32 std32 ut32 z std ut) = Val (Ok z).
Proof.
  intros Hver Hlay1 Hw Hfw. unfold parse, write_tzif_v23_full, cur_new.
  pose proof (writable_layout _ _ _ _ Hw) as Hlay.
  pose proof Hw as (Hne & Hty & Hcc & Htr & Hinc & Htc & (Hlp & Hlp0 & Hlsp) & Hlc & (Hsc & Huc & Himp)).
  pose proof (block_full_bound ver 4 z32 std32 ut32 ltac:(auto) Hlay1) as Hb1.
  pose proof (block_full_bound ver 8 z std ut ltac:(auto) Hlay) as Hb2.
  pose proof (zlen_footer ver z Hfw) as Hb3.
  assert (Hfit : fits 0 (tzif_block_full ver 4 z32 std32 ut32 ++ (tzif_block_full ver 8 z std ut ++ tzif_footer ver z))).
  { unfold fits, u64_max. split; [lia|]. rewrite !zlen_app. lia. }
  pose proof (state_new_full_exact ver true z32 std32 ut32 _ 0 ltac:(tauto) Hlay1 Hfit) as Hs1.
  rewrite Hs1, rbind_ok. cbv beta iota.
  unfold block_state_full at 1, block_hdr_full at 1. cbn [st_header h_version].
  assert (Hv1 : forall (X : Type) (a b c : X), match ver_of ver with V1 => a | V2 => b | V3 => c end = (if ver =? 50 then b else c))
    by (intros; destruct Hver as [-> | ->]; reflexivity).
  assert (Hb : forall (X : Type) (b : X), (if ver =? 50 then b else b) = b) by (intros; destruct (ver =? 50); reflexivity).
  rewrite Hv1, Hb.
  apply fits_app in Hfit.
  pose proof (state_new_full_exact ver false z std ut _ _ ltac:(tauto) Hlay Hfit) as Hs2.
  rewrite Hs2, rbind_ok. cbv beta iota.
  unfold block_state_full at 1, block_hdr_full at 1. cbn [st_header h_version]. rewrite Hv1, Hb.
  cbn [remaining]. rewrite rbind_ok. cbv beta iota.
  open_state.
  assert (Hnv1 : ver_of ver <> V1) by (destruct Hver as [-> | ->]; discriminate).
  rewrite chunks_exact_flat_map by (try lia; intros; reflexivity). rewrite bind_val.
  rewrite decode_transitions; [|auto|].
  2:{ eapply Forall_impl; [|exact Htr]. intros t [Ht Hi]. unfold time_fits in Ht. cbn [Z.eqb Pos.eqb] in Ht.
      pose proof (types_le_table (local_time_types z)). split; [right; auto|unfold u32_max; lia]. }
  rewrite rbind_ok.
  rewrite chunks_exact_flat_map by (try lia; apply zlen_enc_type). rewrite bind_val.
  rewrite decode_types by (try assumption; reflexivity). rewrite rbind_ok.
  unfold add_usize. rewrite chk_in by range_solver. rewrite bind_val.
  rewrite chunks_exact_flat_map by (try lia; intros; reflexivity). rewrite bind_val.
  rewrite decode_leaps.
  2:{ eapply Forall_impl; [|exact Hlp]. intros l [Ht Hc]. unfold time_fits in Ht. cbn [Z.eqb Pos.eqb] in Ht.
      split; [right; auto|exact Hc]. }
  rewrite rbind_ok. rewrite indicators_good by exact Himp.
  (* the footer *)
  pose proof (footer_body_txt ver z Hfw) as Htxt.
  change (tzif_footer ver z) with (10 :: footer_body ver z ++ [10]).
  rewrite utf8_valid_ascii.
  2:{ constructor; [lia|]. apply Forall_app; split; [|repeat constructor; lia].
      eapply Forall_impl; [|exact Htxt]. unfold txt. intros; lia. }
  rewrite last_byte_footer, trim_footer by exact Htxt. cbv iota. cbn [negb andb].
  rewrite no_zero_txt by exact Htxt.
  assert (Hext : match ver_of ver with V3 => true | _ => false end = footer_ext ver)
    by (destruct Hver as [-> | ->]; reflexivity).
  rewrite Hext.
  unfold footer_writable in Hfw. unfold footer_body.
  destruct z as [trs tys lps rl]. cbn [transitions local_time_types leap_seconds extra_rule] in *.
  destruct rl as [r|].
  - destruct Hfw as [Hpr Hfc]. destruct (print_rule_head r (footer_ext ver)) as [s' Hhd].
    rewrite Hhd. cbv iota. cbn [orb]. rewrite <- Hhd.
    rewrite rule_roundtrip by exact Hpr. change (Val (Ok r)) with (ok r). rewrite !rbind_ok.
    apply tz_new_full_exact; try assumption.
    eapply Forall_impl; [|exact Htr]. intros t [_ Hi]. lia.
  - cbv iota. cbn [orb existsb]. rewrite rbind_ok.
    apply tz_new_full_exact; try assumption; [|reflexivity].
    eapply Forall_impl; [|exact Htr]. intros t [_ Hi]. lia.
Qed.

(** ** The complete layout extends the partial one *)
Lemma write_v1_full_extends z : write_tzif_v1_full z [] [] = write_tzif_v1 z.
Proof.
  unfold write_tzif_v1_full, write_tzif_v1, tzif_block_full, tzif_block, tzif_header_full, tzif_header.
  cbn [map]. change (zlen (@nil bool)) with 0. rewrite !app_nil_r. reflexivity.
Qed.
Lemma write_v23_full_extends ver z : extra_rule z = None ->
  write_tzif_v23_full ver slim_zone [] [] z [] [] = write_tzif_v23 ver z.
Proof.
  intros H. unfold write_tzif_v23_full, write_tzif_v23, tzif_footer, footer_body. rewrite H.
  unfold tzif_block_full, tzif_block, tzif_header_full, tzif_header.
  cbn [map]. change (zlen (@nil bool)) with 0. rewrite !app_nil_r. reflexivity.
Qed.
(* the minimal first block is one of the admissible first blocks *)
Lemma slim_layout : block_layout 4 slim_zone [] [].
Proof.
  unfold block_layout, slim_zone. cbn [local_time_types transitions leap_seconds].
  repeat split; try (left; reflexivity); try discriminate; vm_compute; discriminate.
Qed.

(** ** Footer consistency without reference to the rule evaluation, for the rules without
    daylight saving time and zones without leap seconds: the last transition must lead to the
    local time type of the rule *)
Lemma bytes_eqb_refl (b : bytes) : bytes_eqb b b = true.
Proof. induction b as [|x r IH]; [reflexivity|]. cbn [bytes_eqb]. rewrite IH. replace (x =? x) with true by lia. reflexivity. Qed.
Lemma footer_consistent_fixed z l : extra_rule z = Some (Fixed l) -> leap_seconds z = [] ->
  (forall last, last_of (transitions z) = Some last ->
     -9223372036854775808 < tr_time last <= 9223372036854775807 /\
     index (local_time_types z) (tr_idx last) = Val l) ->
  footer_consistent z = true.
Proof.
  intros Hr Hl Hlast. unfold footer_consistent. rewrite Hr, Hl.
  destruct (last_of (transitions z)) as [last|]; [|reflexivity].
  destruct (Hlast last eq_refl) as [Ht Hi]. rewrite Hi.
  unfold unix_leap_time_to_unix_time. replace (tr_time last =? i64_min) with false by (unfold i64_min; lia).
  unfold sub_i64. rewrite chk_in by range_solver. rewrite bind_val.
  cbn [map]. unfold search_next, binary_search. cbn [count_below Z.to_nat nth_z_aux]. rewrite bind_val.
  cbn [Z.gtb Z.compare]. rewrite bind_val.
  unfold checked_sub. rewrite chko_in by range_solver.
  cbn [rule_find_local_time_type]. unfold ok.
  replace (ut_offset l =? ut_offset l) with true by lia. rewrite eqb_reflx.
  destruct (name l) as [n|]; [|reflexivity]. cbn [opt_bytes_eqb andb]. apply bytes_eqb_refl.
Qed.

(** ** The hypotheses are inhabited *)
(* version 1 with 32-bit leap records and a standard/wall array but no UT/local array *)
Definition example_full_v1 : timezone :=
  mk_tz [mk_tr (-1230749160) 1; mk_tr 5 0; mk_tr 2147483647 2]
        [mk_ltt (-18840) false (Some [81; 77; 84]); mk_ltt (-18000) true (Some [69; 67; 84]); mk_ltt 0 false None]
        [mk_leap 78796800 1; mk_leap 94694401 2; mk_leap 97113600 1] None.
Definition example_full_v1_std : list bool := [false; true; false].
(* a Berlin-like zone counted in leap-second time: LMT, CEST, CET; leap records; both indicator
   arrays; the footer <CET>-01:00:00<CEST>-02:00:00,M03.5.0/02:00:00,M10.5.0/03:00:00, which gives
   CET at the last transition (27 October 1996, 01:00:00 UTC, two leap seconds later) *)
Definition example_berlin_rule : trule :=
  Alternate (mk_alt (mk_ltt 3600 false (Some [67; 69; 84])) (mk_ltt 7200 true (Some [67; 69; 83; 84]))
                    (MonthWeekday 3 5 0) 7200 (MonthWeekday 10 5 0) 10800).
Definition example_berlin : timezone :=
  mk_tz [mk_tr (-2422054408) 2; mk_tr 828234002 1; mk_tr 846378002 2]
        [mk_ltt 3208 false (Some [76; 77; 84]); mk_ltt 7200 true (Some [67; 69; 83; 84]); mk_ltt 3600 false (Some [67; 69; 84])]
        [mk_leap 78796800 1; mk_leap 94694401 2]
        (Some example_berlin_rule).
Definition example_berlin_std : list bool := [false; true; true].
Definition example_berlin_ut : list bool := [false; false; true].
Lemma example_full_zones_writable :
  (zone_writable_full 4 example_full_v1 example_full_v1_std [] /\ extra_rule example_full_v1 = None) /\
  (zone_writable_full 8 example_berlin example_berlin_std example_berlin_ut /\
   footer_writable 50 example_berlin /\ footer_writable 51 example_berlin) /\
  block_layout 4 slim_zone [] [] /\ block_layout 4 example_full_v1 example_full_v1_std [].
Proof.
  assert (Hty : forall l n, name l = Some n -> -2147483648 < ut_offset l <= 2147483647 ->
                 3 <= zlen n <= 7 -> forallb is_name_char n = true -> type_writable l).
  { intros l n Hn Ho Hl Hc. unfold type_writable. rewrite Hn. split; [exact Ho|]. split; [exact Hl|].
    apply Forall_forall. intros b Hb. rewrite forallb_forall in Hc. exact (Hc b Hb). }
  assert (Hind : forall (std ut : list bool), (List.length ut <= 3)%nat ->
            (forall i, (i < 3)%nat -> nth i ut false = true -> nth i std false = true) ->
            forall i, nth i ut false = true -> nth i std false = true).
  { intros std ut Hl H i Hi. destruct (Nat.lt_ge_cases i 3) as [Hlt|Hge]; [exact (H i Hlt Hi)|].
    rewrite nth_overflow in Hi by lia. discriminate. }
  split; [|split; [|split]].
  - split; [|reflexivity]. unfold zone_writable_full, example_full_v1, example_full_v1_std.
    cbn [local_time_types transitions leap_seconds extra_rule].
    split; [discriminate|]. split.
    { repeat constructor; cbn; try lia; try (unfold zlen; cbn [List.length]; lia). }
    split; [vm_compute; discriminate|]. split; [repeat constructor; vm_compute; congruence|].
    split; [cbn; lia|]. split; [vm_compute; discriminate|]. split.
    { unfold leaps_writable. split; [repeat constructor; vm_compute; reflexivity|]. cbn. lia. }
    split; [vm_compute; discriminate|].
    split; [right; reflexivity|]. split; [left; reflexivity|]. intros [|i]; discriminate.
  - split; [|split].
    + unfold zone_writable_full, example_berlin, example_berlin_std, example_berlin_ut.
      cbn [local_time_types transitions leap_seconds extra_rule].
      split; [discriminate|]. split.
      { repeat constructor; cbn; try lia; try (unfold zlen; cbn [List.length]; lia). }
      split; [vm_compute; discriminate|]. split; [repeat constructor; vm_compute; congruence|].
      split; [cbn; lia|]. split; [vm_compute; discriminate|]. split.
      { unfold leaps_writable. split; [repeat constructor; vm_compute; reflexivity|]. cbn. lia. }
      split; [vm_compute; discriminate|].
      split; [right; reflexivity|]. split; [right; reflexivity|].
      apply Hind; [cbn; lia|]. intros i Hi. do 3 (destruct i as [|i]; [cbn; auto; try discriminate|]). lia.
    + unfold footer_writable. cbn [extra_rule example_berlin]. split; [|vm_compute; reflexivity].
      unfold rule_printable, example_berlin_rule. cbn [a_std a_dst dst_start dst_end dst_start_time dst_end_time].
      repeat split; cbn; try lia; try (unfold zlen; cbn [List.length]; lia); repeat constructor.
    + unfold footer_writable. cbn [extra_rule example_berlin]. split; [|vm_compute; reflexivity].
      unfold rule_printable, example_berlin_rule. cbn [a_std a_dst dst_start dst_end dst_start_time dst_end_time].
      repeat split; cbn; try lia; try (unfold zlen; cbn [List.length]; lia); repeat constructor.
  - exact slim_layout.
  - unfold block_layout, example_full_v1, example_full_v1_std. cbn [local_time_types transitions leap_seconds].
    repeat split; try discriminate; try (left; reflexivity); try (right; reflexivity); vm_compute; discriminate.
Qed.
(* ... and the reader does return the Berlin-like zone from the bytes of the version-3 writer *)
Lemma example_berlin_read_back :
  parse (write_tzif_v23_full 51 example_full_v1 example_full_v1_std [] example_berlin example_berlin_std example_berlin_ut)
  = Val (Ok example_berlin).
Proof. vm_compute. reflexivity. Qed.
