(** Totality and range facts for the rule evaluation of Model/TzRule.v:
    [days_since_unix_epoch], [RuleDay::transition_date], [RuleDay::unix_time],
    [UtcDateTime::from_timespec] and the two rule lookups never trap on well-formed rules. *)
From Coq Require Import ZArith List Bool Lia ZifyBool.
From V Require Import Base.Int Base.IO Base.IntLemmas Base.Lift Gen.TzInfo.
From V Require Import Model.TzParser Model.TzRule.
From V Require Import Proofs.TzCommon.
Import ListNotations.
Open Scope Z_scope.
Ltac Zify.zify_post_hook ::= Z.to_euclidean_division_equations.

Lemma in12 (m : Z) : 1 <= m <= 12 ->
  m = 1 \/ m = 2 \/ m = 3 \/ m = 4 \/ m = 5 \/ m = 6 \/ m = 7 \/ m = 8 \/ m = 9 \/ m = 10 \/ m = 11 \/ m = 12.
Proof. lia. Qed.

Lemma cumul_index m : 1 <= m <= 12 ->
  post (index TZ_CUMUL_DAY_IN_MONTHS_NORMAL_YEAR (m - 1)) (fun v => 0 <= v <= 334).
Proof.
  intros H. apply in12 in H.
  repeat (destruct H as [->|H]); try subst m; apply post_val; lia.
Qed.
Lemma dim_index m : 1 <= m <= 12 ->
  post (index TZ_DAY_IN_MONTHS_NORMAL_YEAR (m - 1)) (fun v => 28 <= v <= 31).
Proof.
  intros H. apply in12 in H.
  repeat (destruct H as [->|H]); try subst m; apply post_val; lia.
Qed.

Lemma dse_spec year month md :
  -2147483650 <= year <= 2147483650 -> 1 <= month <= 12 -> -100 <= md <= 100 ->
  post (days_since_unix_epoch year month md) (fun r => -800000000000 <= r <= 800000000000).
Proof.
  intros Hy Hm Hd. unfold days_since_unix_epoch. unfold_ops.
  destruct (cumul_index month Hm) as (cum & Hcum & Hc).
  replace (chk in_usize (month - 1)) with (Val (month - 1)) by (symmetry; apply chk_in; range_solver).
  destruct (year >=? 1970) eqn:Ey.
  - repeat chk_next. cbv [bind].
    destruct (is_leap_year year && (month <? 3)).
    + repeat chk_next. rewrite Hcum. cbv beta iota. repeat chk_next. apply post_val. lia.
    + cbv beta iota. rewrite Hcum. cbv beta iota. repeat chk_next. apply post_val. lia.
  - repeat chk_next. cbv [bind].
    destruct (is_leap_year year && (month >=? 3)).
    + repeat chk_next. rewrite Hcum. cbv beta iota. repeat chk_next. apply post_val. lia.
    + cbv beta iota. rewrite Hcum. cbv beta iota. repeat chk_next. apply post_val. lia.
Qed.

(** [transition_date]: the month is 1..12 and the day 1..32 (day 32 only as "1 January of the next
    year" for the zero-based day 365 of a common year) *)
Definition td_check (r : R (Z * Z)) : bool :=
  match r with
  | Val (m, md) => (1 <=? m) && (m <=? 12) && (1 <=? md) && (md <=? 32)
  | _ => false
  end.
Lemma td_check_post r : td_check r = true -> post r (fun '(m, md) => 1 <= m <= 12 /\ 1 <= md <= 32).
Proof.
  destruct r as [[m md]| |]; cbn [td_check]; intros H; try discriminate.
  apply post_val. lia.
Qed.
Lemma td_j1_sweep :
  forall_range (fun n => td_check (transition_date (Julian1WithoutLeap n) 0)) 1 365 = true.
Proof. vm_compute. reflexivity. Qed.
Lemma td_j0_sweep_leap :
  forall_range (fun n => td_check (transition_date (Julian0WithLeap n) 2000)) 0 366 = true.
Proof. vm_compute. reflexivity. Qed.
Lemma td_j0_sweep_common :
  forall_range (fun n => td_check (transition_date (Julian0WithLeap n) 2001)) 0 366 = true.
Proof. vm_compute. reflexivity. Qed.
Lemma td_j0_leap_only n year :
  transition_date (Julian0WithLeap n) year
  = transition_date (Julian0WithLeap n) (if is_leap_year year then 2000 else 2001).
Proof. unfold transition_date. destruct (is_leap_year year); reflexivity. Qed.

Lemma transition_date_spec d year : day_ok d -> -2147483650 <= year <= 2147483650 ->
  post (transition_date d year) (fun '(m, md) => 1 <= m <= 12 /\ 1 <= md <= 32).
Proof.
  intros Hd Hy. destruct d as [n|n|m w wd]; cbn [day_ok] in Hd.
  - apply td_check_post.
    change (transition_date (Julian1WithoutLeap n) year) with (transition_date (Julian1WithoutLeap n) 0).
    apply (forall_range_spec _ _ _ td_j1_sweep n). lia.
  - apply td_check_post. rewrite td_j0_leap_only.
    destruct (is_leap_year year).
    + apply (forall_range_spec _ _ _ td_j0_sweep_leap n). lia.
    + apply (forall_range_spec _ _ _ td_j0_sweep_common n). lia.
  - destruct Hd as (Hm & Hw & Hwd). unfold transition_date.
    destruct (dim_index m Hm) as (dim & Hdim & Hdb).
    destruct (dse_spec year m 1 Hy Hm ltac:(lia)) as (d1 & Hd1 & Hd1b).
    unfold TZ_DAYS_PER_WEEK. unfold_ops.
    replace (chk in_usize (m - 1)) with (Val (m - 1)) by (symmetry; apply chk_in; range_solver).
    cbv [bind]. rewrite Hdim. cbv beta iota.
    assert (Hleap : 0 <= b2z (is_leap_year year) <= 1) by (destruct (is_leap_year year); cbn; lia).
    set (lp := b2z (is_leap_year year)) in *. clearbody lp.
    destruct (m =? 2).
    + repeat chk_next'. rewrite Hd1. cbv beta iota. repeat chk_next'.
      match goal with |- context [if ?c then _ else _] => destruct c eqn:E end.
      * repeat chk_next'. apply post_val. lia.
      * apply post_val. lia.
    + rewrite Hd1. cbv beta iota. repeat chk_next'.
      match goal with |- context [if ?c then _ else _] => destruct c eqn:E end.
      * repeat chk_next'. apply post_val. lia.
      * apply post_val. lia.
Qed.

Lemma rule_unix_time_spec d year tt : day_ok d -> -2147483650 <= year <= 2147483650 ->
  -10000000000 <= tt <= 10000000000 ->
  post (rule_unix_time d year tt) (fun r => -70000000000000000 <= r <= 70000000000000000).
Proof.
  intros Hd Hy Ht. unfold rule_unix_time.
  eapply post_bind; [apply transition_date_spec; assumption|].
  intros [m md] (Hm & Hmd).
  eapply post_bind; [apply dse_spec; [assumption|assumption|lia]|].
  intros days Hdays. unfold TZ_SECONDS_PER_DAY. unfold_ops.
  repeat chk_next'. cbv [bind]. repeat chk_next'. apply post_val. lia.
Qed.

(** [from_timespec] never traps; the year it returns is an i32 *)
Lemma month_loop_spec : forall tbl m rd,
  Forall (fun d => 0 <= d <= 31) tbl -> 0 <= m -> m + zlen tbl <= 1000 -> 0 <= rd <= 1000000 ->
  post (month_loop tbl m rd) (fun '(m', rd') => m <= m' <= m + zlen tbl /\ 0 <= rd' <= rd).
Proof.
  induction tbl as [|d r IH]; intros m rd HF Hm Hl Hrd; cbn [month_loop].
  - apply post_val. change (zlen (@nil Z)) with 0. lia.
  - inversion HF as [|? ? Hd HF']; subst. rewrite zlen_cons in *. pose proof (zlen_nonneg r).
    destruct (rd <? d) eqn:E; [apply post_val; lia|].
    unfold_ops. repeat chk_next'. cbv [bind].
    eapply post_weaken.
    + apply IH; [exact HF'|lia|lia|lia].
    + intros [m' rd'] H0. lia.
Qed.

Lemma from_timespec_spec t : in_i64 t = true ->
  postr (from_timespec t) (fun '(y, _, _, _, _, _) => in_i32 y = true).
Proof.
  intros Ht. unfold from_timespec, checked_sub, chko.
  unfold TZR_UNIX_OFFSET_SECS, TZ_SECONDS_PER_DAY, TZR_DAYS_PER_400_YEARS, TZR_DAYS_PER_100_YEARS,
    TZR_DAYS_PER_4_YEARS, TZR_DAYS_PER_NORMAL_YEAR, TZR_OFFSET_YEAR, TZR_MONTHS_PER_YEAR,
    TZR_SECONDS_PER_HOUR, TZR_SECONDS_PER_MINUTE, TZR_MINUTES_PER_HOUR.
  destruct (in_i64 (t - 951868800)) eqn:Es; [|apply postr_fail].
  set (seconds := t - 951868800) in *.
  assert (Hs : -9223372036854775808 <= seconds <= 9223372036854775807) by range_solver.
  clearbody seconds. clear Ht Es t.
  unfold_ops. repeat chk_next'. cbv [bind].
  set (q0 := Z.quot seconds 86400) in *. set (r0 := Z.rem seconds 86400) in *.
  assert (Hq0 : -106751991167301 <= q0 <= 106751991167301 /\ -86400 < r0 < 86400) by (subst q0 r0; lia).
  clearbody q0 r0.
  (* normalised seconds and days *)
  assert (Hnorm : exists rs rd,
    (if r0 <? 0 then bind (chk in_i64 (r0 + 86400)) (fun rs => bind (chk in_i64 (q0 - 1)) (fun rd => Val (rs, rd)))
     else Val (r0, q0)) = Val (rs, rd) /\ 0 <= rs < 86400 /\ -106751991167302 <= rd <= 106751991167301).
  { destruct (r0 <? 0) eqn:E.
    - repeat chk_next'. cbv [bind]. repeat chk_next'. eexists _, _. split; [reflexivity|lia].
    - eexists _, _. split; [reflexivity|lia]. }
  destruct Hnorm as (rs & rd & Heq & Hrs & Hrd). cbv [bind] in Heq. rewrite Heq. clear Heq. cbv beta iota.
  repeat chk_next'.
  set (c4 := Z.quot rd 146097) in *. set (d4 := Z.rem rd 146097) in *.
  assert (Hc4 : -730693000 <= c4 <= 730693000 /\ -146097 < d4 < 146097) by (subst c4 d4; lia).
  clearbody c4 d4.
  assert (Hn2 : exists rd2 cy,
    (if d4 <? 0 then Val (d4 + 146097, c4 - 1) else Val (d4, c4)) = Val (rd2, cy)
    /\ 0 <= rd2 < 146097 /\ -730693001 <= cy <= 730693000).
  { destruct (d4 <? 0) eqn:E; eexists _, _; (split; [reflexivity|lia]). }
  destruct Hn2 as (rd2 & cy & Heq & Hrd2 & Hcy). rewrite Heq. clear Heq. cbv beta iota.
  repeat chk_next'.
  set (c100 := Z.min (Z.quot rd2 36524) 3) in *.
  assert (Hc100 : 0 <= c100 <= 3 /\ 0 <= rd2 - c100 * 36524 <= 36524) by (subst c100; lia).
  clearbody c100. repeat chk_next'.
  set (rd3 := rd2 - c100 * 36524) in *. clearbody rd3.
  set (c4y := Z.min (Z.quot rd3 1461) 24) in *.
  assert (Hc4y : 0 <= c4y <= 24 /\ 0 <= rd3 - c4y * 1461 <= 1460) by (subst c4y; lia).
  clearbody c4y. repeat chk_next'.
  set (rd4 := rd3 - c4y * 1461) in *. clearbody rd4.
  set (ry := Z.min (Z.quot rd4 365) 3) in *.
  assert (Hry : 0 <= ry <= 3 /\ 0 <= rd4 - ry * 365 <= 365) by (subst ry; lia).
  clearbody ry. repeat chk_next'.
  set (rd5 := rd4 - ry * 365) in *. clearbody rd5.
  set (year := 2000 + ry + c4y * 4 + c100 * 100 + cy * 400) in *.
  assert (Hyear : -300000000000 <= year <= 300000000000) by (subst year; lia).
  clearbody year.
  destruct (month_loop_spec TZR_DAY_IN_MONTHS_LEAP_YEAR_FROM_MARCH 0 rd5) as ([mo rd6] & -> & Hmo & Hrd6).
  { repeat constructor; lia. } { lia. } { change (zlen TZR_DAY_IN_MONTHS_LEAP_YEAR_FROM_MARCH) with 12. lia. } { lia. }
  change (zlen TZR_DAY_IN_MONTHS_LEAP_YEAR_FROM_MARCH) with 12 in Hmo.
  cbv beta iota. change (as_usize 12) with 12. chk_next'.
  destruct (mo + 2 >=? 12) eqn:Emo; repeat chk_next';
    (match goal with |- context [if ?c then _ else _] => destruct c eqn:E end; [|apply postr_fail]);
    apply postr_ok; rewrite as_i32_id by range_solver; range_solver.
Qed.

(** The rule lookups never trap on a well-formed rule *)
Lemma ltt_ok_off l : ltt_ok l -> -2147483648 <= ut_offset l <= 2147483647.
Proof. intros (H & _). range_solver. Qed.

Ltac rut_val d y tt :=
  let v := fresh "v" in let Hv := fresh "Hv" in let Hb := fresh "Hb" in
  destruct (rule_unix_time_spec d y tt) as (v & Hv & Hb);
  [assumption | lia | lia | rewrite Hv; cbv beta iota].

Lemma alt_find_local_time_type_total a t : alt_ok a -> in_i64 t = true ->
  postr (alt_find_local_time_type a t) (fun l => l = a_std a \/ l = a_dst a).
Proof.
  intros (Hs & Hd & Hds & Hde & Hst & Het) Ht. unfold alt_find_local_time_type.
  pose proof (ltt_ok_off _ Hs) as Hso. pose proof (ltt_ok_off _ Hd) as Hdo.
  unfold_ops. repeat chk_next'. cbv [bind rbind].
  destruct (from_timespec_spec t Ht) as (r & -> & Hr).
  destruct r as [[[[[[y mo] md] hh] mi] ss]|e]; [|eexists; split; [reflexivity|exact I]].
  destruct (negb ((i32_min + 2 <=? y) && (y <=? i32_max - 2))) eqn:Ey; [apply postr_fail|].
  assert (Hy : -2147483646 <= y <= 2147483645) by range_solver.
  set (su := dst_start_time a - ut_offset (a_std a)) in *.
  set (eu := dst_end_time a - ut_offset (a_dst a)) in *.
  assert (Hsu : -10000000000 <= su <= 10000000000) by (subst su; lia).
  assert (Heu : -10000000000 <= eu <= 10000000000) by (subst eu; lia).
  clearbody su eu.
  rut_val (dst_start a) y su. rut_val (dst_end a) y eu.
  repeat chk_next'.
  rut_val (dst_end a) (y - 1) eu. rut_val (dst_start a) (y - 1) su.
  rut_val (dst_start a) (y + 1) su. rut_val (dst_end a) (y + 1) eu.
  repeat match goal with |- context [if ?c then _ else _] => destruct c end;
    apply postr_ok; auto.
Qed.

Lemma rule_find_local_time_type_total r t : rule_ok r -> in_i64 t = true ->
  postr (rule_find_local_time_type r t) (fun _ => True).
Proof.
  intros Hr Ht. destruct r as [l|a]; cbn [rule_find_local_time_type rule_ok] in *.
  - apply postr_ok. exact I.
  - eapply postr_weaken; [apply alt_find_local_time_type_total; assumption|]. auto.
Qed.

(* a wall-clock reading: any year chrono's NaiveDate can hold, any timestamp *)
Lemma alt_find_local_time_type_from_local_total a y lt : alt_ok a ->
  -2147483650 <= y <= 2147483650 ->
  postr (alt_find_local_time_type_from_local a y lt) (fun _ => True).
Proof.
  intros (Hs & Hd & Hds & Hde & Hst & Het) Hy. unfold alt_find_local_time_type_from_local.
  pose proof (ltt_ok_off _ Hs) as Hso. pose proof (ltt_ok_off _ Hd) as Hdo.
  cbv [bind].
  rut_val (dst_start a) y 0. rut_val (dst_end a) y 0.
  unfold_ops. repeat chk_next'.
  destruct (ut_offset (a_std a) ?= ut_offset (a_dst a)).
  - apply postr_ok. exact I.
  - (* robust to both forms of the hemisphere test (month comparison via transition_date, or the
       comparison of the two switch instants of fixes/C05-rule-same-month.diff) *)
    try (destruct (transition_date_spec (dst_start a) y Hds Hy) as ([ms ?] & -> & _);
         destruct (transition_date_spec (dst_end a) y Hde Hy) as ([me ?] & -> & _); cbv beta iota).
    repeat match goal with |- context [if ?c then _ else _] => destruct c end; apply postr_ok; exact I.
  - (* robust to both forms of the hemisphere test (month comparison via transition_date, or the
       comparison of the two switch instants of fixes/C05-rule-same-month.diff) *)
    try (destruct (transition_date_spec (dst_start a) y Hds Hy) as ([ms ?] & -> & _);
         destruct (transition_date_spec (dst_end a) y Hde Hy) as ([me ?] & -> & _); cbv beta iota).
    repeat match goal with |- context [if ?c then _ else _] => destruct c end; apply postr_ok; exact I.
Qed.

Lemma rule_find_local_time_type_from_local_total r y lt : rule_ok r ->
  -2147483650 <= y <= 2147483650 ->
  postr (rule_find_local_time_type_from_local r y lt) (fun _ => True).
Proof.
  intros Hr Hy. destruct r as [l|a]; cbn [rule_find_local_time_type_from_local rule_ok] in *.
  - apply postr_ok. exact I.
  - apply alt_find_local_time_type_from_local_total; assumption.
Qed.
