(** Model-vs-spec lemmas for the calendar core (Model/Date.v against Spec/Gregorian.v), shared by
    every property that uses dates.  Builds on the C08 library (Proofs/C08Sweeps.v: bit lemmas,
    year flags, sweeps over the low 13 bits; Proofs/C08Date.v: [repr], accessors, from_yo_opt /
    from_ymd_opt; Proofs/C08Days.v: day numbers; Proofs/C08AddDays.v: [date_of_dn], add_days).
    A date word [d] represents (year [y], ordinal [o]) when [repr y o d]. *)
From Coq Require Import ZArith List Bool Lia ZifyBool.
From V Require Import Base.Int Base.IntLemmas Base.Bits Base.Table Base.Lift Gen.DateTables Model.TimeDelta Model.Date
  Spec.Gregorian.
From V Require Export Proofs.C08Sweeps Proofs.C08Date Proofs.C08Days Proofs.C08AddDays.
Import ListNotations.
Open Scope Z_scope.
Ltac Zify.zify_post_hook ::= Z.to_euclidean_division_equations.

(** resolve one trapping operation whose result is in range *)
Ltac chk_ok := unfold add_i32, sub_i32, mul_i32, neg_i32, add_u32, sub_u32, mul_u32, add_i64, sub_i64, mul_i64, chk;
  match goal with |- context [if ?c then Val ?z else Panic] =>
    replace c with true by solve_in; cbn [bind] end.

(** * Day number of a date: [num_days_from_ce] *)
Lemma shr_div a k : 0 <= k -> shr a k = a / 2 ^ k.
Proof. intros H. unfold shr. apply Z.shiftr_div_pow2. exact H. Qed.

(** the arithmetic of the body, shared by the inherent method and the [Datelike] provided method *)
Lemma ndce_pos p : 0 <= p -> (p * 1461) / 4 - p / 100 + (p / 100) / 4 = 365 * p + p / 4 - p / 100 + p / 400.
Proof. intros H. lia. Qed.
Lemma dby_shift p e : days_before_year (p + 1 + 400 * e) = days_before_year (p + 1) + 146097 * e.
Proof. unfold days_before_year. lia. Qed.

Theorem num_days_from_ce_spec y o d : repr y o d -> num_days_from_ce d = Val (dn_of_yo y o).
Proof.
  intros H. pose proof (repr_acc y o d H) as A. destruct (md_of_ordinal (is_leap y) o) as [m0 d0].
  destruct A as (Hyear & Hord & _).
  pose proof (year_range_bounds y (proj1 H)) as Hyb.
  pose proof (lo_facts_of y o (proj1 (proj2 H))) as [_ Fo _ _ _ _ _].
  unfold num_days_from_ce. rewrite Hyear, Hord.
  unfold NDCE_A, NDCE_B, NDCE_C, NDCE_D, NDCE_E, NDCE_F, NDCE_G.
  chk_ok.
  destruct (y - 1 <? 0) eqn:Eneg.
  - chk_ok. unfold div_i32. rewrite div_t_nz by lia.
    set (q := Z.quot (- (y - 1)) 400).
    assert (Hq : - (y - 1) = 400 * q + Z.rem (- (y - 1)) 400 /\ 0 <= Z.rem (- (y - 1)) 400 < 400 /\ 0 <= q <= 656).
    { unfold q. lia. }
    clearbody q. set (r := Z.rem (- (y - 1)) 400) in *. clearbody r.
    do 6 chk_ok. cbn [bind].
    set (p := y - 1 + (1 + q) * 400).
    assert (Hp : 0 <= p <= 400) by (unfold p; lia).
    rewrite div_t_nz by lia. rewrite Z.quot_div_nonneg by lia.
    chk_ok. chk_ok. rewrite !shr_div by lia. change (2 ^ 2) with 4.
    chk_ok. chk_ok. chk_ok. rewrite as_i32_id by solve_in. chk_ok.
    f_equal. unfold dn_of_yo. rewrite ndce_pos by lia.
    replace (days_before_year y) with (days_before_year (p + 1 + 400 * (- (1 + q)))) by (f_equal; unfold p; lia).
    rewrite dby_shift. unfold days_before_year. replace (p + 1 - 1) with p by lia. lia.
  - cbn [bind]. unfold div_i32. rewrite div_t_nz by lia. rewrite Z.quot_div_nonneg by lia.
    chk_ok. chk_ok. rewrite !shr_div by lia. change (2 ^ 2) with 4.
    chk_ok. chk_ok. chk_ok. rewrite as_i32_id by solve_in. chk_ok.
    f_equal. unfold dn_of_yo, days_before_year. rewrite ndce_pos by lia. lia.
Qed.

(** * Day number -> date: [from_num_days_from_ce_opt], for every [i32] argument *)
Lemma date_of_dn_repr n : dn_in_range n = true ->
  repr (fst (yo_of_dn n)) (snd (yo_of_dn n)) (date_of_dn n).
Proof.
  intros Hn. destruct (yo_of_dn_valid n) as [Hv Hd].
  split; [|split; [assumption|reflexivity]].
  rewrite <- (dn_in_range_iff _ _ Hv), Hd. exact Hn.
Qed.

Theorem from_num_days_from_ce_opt_spec n : in_i32 n = true ->
  from_num_days_from_ce_opt n = Val (date_if (dn_in_range n) (date_of_dn n)).
Proof.
  intros Hn. unfold from_num_days_from_ce_opt, D_CE_SHIFT, D_DAYS_PER_400Y, checked_add, chko.
  destruct (in_i32 (n + 365)) eqn:Ec.
  2:{ replace (dn_in_range n) with false; [reflexivity|]. unfold dn_in_range, DN_MIN, DN_MAX. solve_in. }
  rewrite div_euclid_pos, rem_euclid_pos by lia. unfold chk.
  replace (in_i32 ((n + 365) / 146097)) with true by solve_in. cbn [bind].
  set (q := (n + 365) / 146097). set (c := (n + 365) mod 146097).
  rewrite as_u32_id by (unfold c; solve_in).
  destruct (cyc_facts c ltac:(unfold c; lia)) as (Hr & Hv & Hd & Hcy).
  rewrite Hcy. cbn [bind].
  set (r := fst (yo_of_dn (c - 365))) in *. set (o := snd (yo_of_dn (c - 365))) in *.
  rewrite as_i32_id by solve_in.
  unfold yf_from_year_mod_400, tget. rewrite as_u64_id by solve_in.
  destruct (yflags_facts r) as (Etab & _). replace (r mod 400) with r in Etab by lia. rewrite Etab. cbn [bind].
  unfold mul_i32, chk. replace (in_i32 (q * 400)) with true by (unfold q; solve_in). cbn [bind].
  unfold add_i32, chk. replace (in_i32 (q * 400 + r)) with true by (unfold q; solve_in). cbn [bind].
  set (y := q * 400 + r).
  replace (yflags r) with (yflags y) by (rewrite (yflags_mod y); f_equal; unfold y; lia).
  pose proof (lo_facts_of r o Hv) as [_ Fo _ _ _ _ _].
  rewrite foaf_spec by (unfold y, q; solve_in).
  assert (Hsum : n = (c - 365) + 146097 * q) by (unfold c, q; lia).
  assert (Hyo : yo_of_dn n = (y, o)).
  { rewrite Hsum, yo_of_dn_period. fold r o. f_equal. unfold y. lia. }
  assert (Hvy : valid_yo y o = true).
  { unfold y. replace (q * 400 + r) with (r + 400 * q) by lia. rewrite valid_yo_period. assumption. }
  assert (Hdn : dn_of_yo y o = n).
  { unfold y. replace (q * 400 + r) with (r + 400 * q) by lia. rewrite dn_of_yo_period. lia. }
  rewrite Hvy, andb_true_r. rewrite <- Hdn at 1. rewrite dn_in_range_iff by assumption.
  unfold date_of_dn. rewrite Hyo. reflexivity.
Qed.

(** the day number of a represented date, and the round trips *)
Lemma date_of_dn_of_repr y o d : repr y o d -> date_of_dn (dn_of_yo y o) = d.
Proof. intros (Hy & Ho & ->). unfold date_of_dn. rewrite yo_of_dn_of_yo by assumption. reflexivity. Qed.
Lemma repr_dn_in_range y o d : repr y o d -> dn_in_range (dn_of_yo y o) = true.
Proof. intros (Hy & Ho & _). rewrite dn_in_range_iff by assumption. exact Hy. Qed.
Lemma repr_inj y o d y' o' : repr y o d -> repr y' o' d -> y = y' /\ o = o'.
Proof.
  intros H1 H2. pose proof (repr_acc y o d H1) as A1. pose proof (repr_acc y' o' d H2) as A2.
  destruct (md_of_ordinal (is_leap y) o). destruct (md_of_ordinal (is_leap y') o').
  destruct A1 as (E1 & E2 & _). destruct A2 as (E3 & E4 & _). split; congruence.
Qed.
Theorem from_num_days_from_ce_opt_dn y o d : repr y o d ->
  from_num_days_from_ce_opt (dn_of_yo y o) = Val (Some d).
Proof.
  intros H. pose proof (dn_bounds y o (proj1 H) (proj1 (proj2 H))) as B.
  rewrite from_num_days_from_ce_opt_spec by solve_in.
  rewrite (repr_dn_in_range y o d H), (date_of_dn_of_repr y o d H). reflexivity.
Qed.

(** * Successor and predecessor *)
Definition step_lo_ok (lo : Z) : bool :=
  (Z.land lo 8176 =? lo / 16 * 16) && (Z.land lo 7 =? lo mod 8) && (Z.land lo 15 =? lo mod 16)
  && (if lo + 16 <? 8192 then Z.lor (Z.land lo 7) (Z.land lo 8184 + 16) =? lo + 16 else true)
  && (if 16 <=? lo then Z.lor (Z.land lo 15) (Z.land lo 8176 - 16) =? lo - 16 else true).
Lemma step_lo_sweep : forall_range step_lo_ok 0 8192 = true.
Proof. vm_cast_no_check (eq_refl true). Qed.

Lemma dn_next_same_year y o : dn_of_yo y (o + 1) = dn_of_yo y o + 1.
Proof. unfold dn_of_yo. lia. Qed.
Lemma dn_next_year y : dn_of_yo (y + 1) 1 = dn_of_yo y (days_in_year y) + 1.
Proof. unfold dn_of_yo. rewrite dby_succ. lia. Qed.
Lemma date_of_dn_mk y o : valid_yo y o = true -> date_of_dn (dn_of_yo y o) = mkdate y o.
Proof. intros H. unfold date_of_dn. rewrite yo_of_dn_of_yo by assumption. reflexivity. Qed.

Theorem succ_opt_spec y o d : repr y o d ->
  succ_opt d = Val (date_if (dn_in_range (dn_of_yo y o + 1)) (date_of_dn (dn_of_yo y o + 1))).
Proof.
  intros H. pose proof H as (Hy & Ho & Hd).
  pose proof (repr_acc y o d H) as A. destruct (md_of_ordinal (is_leap y) o) as [m0 d0].
  destruct A as (Hyear & _).
  pose proof (year_range_bounds y Hy) as Hyb.
  pose proof (lo_facts_of y o Ho) as [Ff Fo _ _ Frng Fleap _].
  pose proof (forall_range_spec _ _ _ step_lo_sweep (o * 16 + yflags y) ltac:(lia)) as S. unfold step_lo_ok in S.
  repeat (apply andb_prop in S; destruct S as [S ?]).
  unfold succ_opt, D_OL_MASK, D_MAX_OL, not_i32.
  replace (shl_i32 1 4) with 16 by reflexivity.
  rewrite Hd. unfold mkdate. rewrite land_ol by lia. rewrite land_lnot_lo by lia. change (8191 - 8184) with 7.
  rewrite land8_leap by lia. rewrite Fleap.
  rewrite valid_yo_iff in Ho.
  set (l8 := if is_leap y then 0 else 8). assert (Hl8 : l8 = 0 \/ l8 = 8) by (unfold l8; destruct (is_leap y); lia).
  chk_ok.
  destruct (o * 16 + l8 + 16 <=? 5856) eqn:E.
  - (* same year *)
    assert (Hv : valid_yo y (o + 1) = true) by (rewrite valid_yo_iff; unfold l8 in *; destruct (is_leap y); lia).
    rewrite lor_lo by lia.
    replace (o * 16 + l8 + 16) with (Z.land (o * 16 + yflags y) 8184 + 16).
    2:{ pose proof (land_ol 0 o (yflags y) ltac:(lia) ltac:(lia)) as L. rewrite land8_leap, Fleap in L by lia.
        cbn [Z.mul Z.add] in L. rewrite L. reflexivity. }
    replace (o * 16 + yflags y + 16 <? 8192) with true in * by lia.
    replace (Z.lor (Z.land (o * 16 + yflags y) 7) (Z.land (o * 16 + yflags y) 8184 + 16))
      with ((o + 1) * 16 + yflags y) by lia.
    fold (mkdate y (o + 1)). rewrite from_yof_mk by assumption. cbn [bind].
    rewrite <- dn_next_same_year. rewrite dn_in_range_iff, Hy, date_of_dn_mk by assumption. reflexivity.
  - (* first day of the next year *)
    assert (Ho' : o = days_in_year y) by (unfold days_in_year; unfold l8 in *; destruct (is_leap y); lia).
    fold (mkdate y o). rewrite <- Hd, Hyear. chk_ok.
    rewrite from_yo_opt_spec by solve_in.
    assert (Hv : valid_yo (y + 1) 1 = true) by (rewrite valid_yo_iff; destruct (is_leap (y + 1)); lia).
    rewrite Hv, andb_true_r. subst o. rewrite <- dn_next_year.
    rewrite dn_in_range_iff, date_of_dn_mk by assumption. reflexivity.
Qed.

Lemma dn_prev_year y : dn_of_yo (y - 1) (days_in_year (y - 1)) = dn_of_yo y 1 - 1.
Proof. unfold dn_of_yo. pose proof (dby_succ (y - 1)) as E. replace (y - 1 + 1) with y in E by lia. lia. Qed.
Lemma ordinal_dec31 l : ordinal_of_md l 12 31 = if l then 366 else 365.
Proof. destruct l; reflexivity. Qed.

Theorem pred_opt_spec y o d : repr y o d ->
  pred_opt d = Val (date_if (dn_in_range (dn_of_yo y o - 1)) (date_of_dn (dn_of_yo y o - 1))).
Proof.
  intros H. pose proof H as (Hy & Ho & Hd).
  pose proof (repr_acc y o d H) as A. destruct (md_of_ordinal (is_leap y) o) as [m0 d0].
  destruct A as (Hyear & _).
  pose proof (year_range_bounds y Hy) as Hyb.
  pose proof (lo_facts_of y o Ho) as [Ff Fo _ _ Frng Fleap _].
  pose proof (forall_range_spec _ _ _ step_lo_sweep (o * 16 + yflags y) ltac:(lia)) as S. unfold step_lo_ok in S.
  repeat (apply andb_prop in S; destruct S as [S ?]).
  unfold pred_opt, D_ORDINAL_MASK, not_i32.
  replace (shl_i32 1 4) with 16 by reflexivity.
  rewrite Hd. unfold mkdate. rewrite land_lo by lia. rewrite land_lnot_lo by lia. change (8191 - 8176) with 15.
  replace (Z.land (o * 16 + yflags y) 8176) with (o * 16) in * by lia.
  chk_ok.
  destruct (0 <? o * 16 - 16) eqn:E.
  - assert (Hv : valid_yo y (o - 1) = true) by (rewrite valid_yo_iff in *; destruct (is_leap y); lia).
    rewrite lor_lo by lia.
    replace (16 <=? o * 16 + yflags y) with true in * by lia.
    replace (Z.lor (Z.land (o * 16 + yflags y) 15) (o * 16 - 16)) with ((o - 1) * 16 + yflags y) by lia.
    fold (mkdate y (o - 1)). rewrite from_yof_mk by assumption. cbn [bind].
    replace (dn_of_yo y o - 1) with (dn_of_yo y (o - 1)) by (unfold dn_of_yo; lia).
    rewrite dn_in_range_iff, Hy, date_of_dn_mk by assumption. reflexivity.
  - assert (Ho' : o = 1) by lia. subst o.
    fold (mkdate y 1). rewrite <- Hd, Hyear. chk_ok.
    rewrite from_ymd_opt_spec by solve_in.
    replace (valid_ymd (y - 1) 12 31) with true by (unfold valid_ymd, days_in_month; reflexivity).
    rewrite andb_true_r. unfold mk_ymd. rewrite ordinal_dec31. fold (days_in_year (y - 1)).
    assert (Hv : valid_yo (y - 1) (days_in_year (y - 1)) = true) by (unfold valid_yo, days_in_year; destruct (is_leap (y - 1)); lia).
    rewrite <- dn_prev_year. rewrite dn_in_range_iff, date_of_dn_mk by assumption. reflexivity.
Qed.

(** * Weekday *)
Theorem d_weekday_spec y o d : repr y o d -> d_weekday d = Val (weekday_of_dn (dn_of_yo y o)).
Proof.
  intros H. pose proof (repr_acc y o d H) as A. destruct (md_of_ordinal (is_leap y) o). tauto.
Qed.
Lemma weekday_succ n : weekday_of_dn (n + 1) = (weekday_of_dn n + 1) mod 7.
Proof. unfold weekday_of_dn. lia. Qed.

(** * Order: the derived [Ord] on the packed word is the order of day numbers *)
Lemma cmpZ_lt a b : a < b -> cmpZ a b = -1.
Proof. intros H. unfold cmpZ. rewrite (proj2 (Z.compare_lt_iff a b) H). reflexivity. Qed.
Lemma cmpZ_gt a b : b < a -> cmpZ a b = 1.
Proof. intros H. unfold cmpZ. rewrite (proj2 (Z.compare_gt_iff a b) H). reflexivity. Qed.
Lemma cmpZ_eq a : cmpZ a a = 0.
Proof. unfold cmpZ. rewrite Z.compare_refl. reflexivity. Qed.

Theorem order_spec y1 o1 d1 y2 o2 d2 : repr y1 o1 d1 -> repr y2 o2 d2 ->
  d_cmp d1 d2 = cmpZ (dn_of_yo y1 o1) (dn_of_yo y2 o2).
Proof.
  intros (Hy1 & Ho1 & ->) (Hy2 & Ho2 & ->). unfold d_cmp, mkdate.
  pose proof (lo_facts_of y1 o1 Ho1) as [F1 _ _ _ R1 _ _].
  pose proof (lo_facts_of y2 o2 Ho2) as [F2 _ _ _ R2 _ _].
  destruct (Z_lt_dec y1 y2) as [L|L].
  { pose proof (dn_le_iff _ _ _ _ Ho1 Ho2 L). rewrite !cmpZ_lt by lia. reflexivity. }
  destruct (Z_lt_dec y2 y1) as [L2|L2].
  { pose proof (dn_le_iff _ _ _ _ Ho2 Ho1 L2). rewrite !cmpZ_gt by lia. reflexivity. }
  assert (y1 = y2) by lia. subst y2. unfold dn_of_yo.
  destruct (Z_lt_dec o1 o2); [rewrite !cmpZ_lt by lia; reflexivity|].
  destruct (Z_lt_dec o2 o1); [rewrite !cmpZ_gt by lia; reflexivity|].
  assert (o1 = o2) by lia. subst o2. rewrite !cmpZ_eq. reflexivity.
Qed.
Corollary order_lt_iff y1 o1 d1 y2 o2 d2 : repr y1 o1 d1 -> repr y2 o2 d2 ->
  (d1 < d2 <-> dn_of_yo y1 o1 < dn_of_yo y2 o2).
Proof.
  intros H1 H2. pose proof (order_spec _ _ _ _ _ _ H1 H2) as E. unfold d_cmp, cmpZ in E.
  destruct (d1 ?= d2) eqn:C1; destruct (dn_of_yo y1 o1 ?= dn_of_yo y2 o2) eqn:C2; try discriminate;
  rewrite ?Z.compare_eq_iff, ?Z.compare_lt_iff, ?Z.compare_gt_iff in *; lia.
Qed.
Corollary date_word_inj y1 o1 d1 y2 o2 d2 : repr y1 o1 d1 -> repr y2 o2 d2 ->
  dn_of_yo y1 o1 = dn_of_yo y2 o2 -> d1 = d2.
Proof.
  intros H1 H2 E. destruct (dn_inj _ _ _ _ (proj1 (proj2 H1)) (proj1 (proj2 H2)) E) as [-> ->].
  destruct H1 as (_ & _ & ->). destruct H2 as (_ & _ & ->). reflexivity.
Qed.

(** * Difference of two dates in days *)
Lemma try_days_small k : -4294967296 <= k <= 4294967296 -> try_days k = Some (mk_td (k * 86400) 0).
Proof.
  intros H. unfold try_days, try_unit, checked_mul, chko, Gen.TimeDelta.TD_SECS_PER_DAY.
  replace (in_i64 (k * 86400)) with true by solve_in.
  unfold try_seconds, td_new, Gen.TimeDelta.TD_MIN_secs, Gen.TimeDelta.TD_MAX_secs, Gen.TimeDelta.TD_NEW_NANOS_BOUND.
  replace ((k * 86400 <? -9223372036854776) || (k * 86400 >? 9223372036854775) || (0 >=? 1000000000)
           || (k * 86400 =? 9223372036854775) && (0 >? as_u32 Gen.TimeDelta.TD_MAX_nanos)
           || (k * 86400 =? -9223372036854776) && (0 <? as_u32 Gen.TimeDelta.TD_MIN_nanos)) with false by lia.
  reflexivity.
Qed.

Theorem signed_duration_since_spec y1 o1 d1 y2 o2 d2 : repr y1 o1 d1 -> repr y2 o2 d2 ->
  signed_duration_since d1 d2 = Val (mk_td ((dn_of_yo y1 o1 - dn_of_yo y2 o2) * 86400) 0).
Proof.
  intros H1 H2.
  pose proof (repr_acc y1 o1 d1 H1) as A1. destruct (md_of_ordinal (is_leap y1) o1).
  pose proof (repr_acc y2 o2 d2 H2) as A2. destruct (md_of_ordinal (is_leap y2) o2).
  destruct A1 as (Ey1 & Eo1 & _). destruct A2 as (Ey2 & Eo2 & _).
  destruct H1 as (Hy1 & Ho1 & _). destruct H2 as (Hy2 & Ho2 & _).
  pose proof (year_range_bounds y1 Hy1) as B1. pose proof (year_range_bounds y2 Hy2) as B2.
  pose proof (lo_facts_of y1 o1 Ho1) as [_ Fo1 _ _ _ _ _]. pose proof (lo_facts_of y2 o2 Ho2) as [_ Fo2 _ _ _ _ _].
  unfold signed_duration_since, div_mod_floor. rewrite Ey1, Ey2, Eo1, Eo2.
  rewrite !div_euclid_pos, !rem_euclid_pos by lia. unfold chk.
  replace (in_i32 (y1 / 400)) with true by solve_in. replace (in_i32 (y2 / 400)) with true by solve_in. cbn [bind].
  rewrite !as_u32_id by solve_in.
  rewrite !yo_to_cycle_spec by lia. cbn [bind].
  assert (V1 : valid_yo (y1 mod 400) o1 = true).
  { replace (y1 mod 400) with (y1 + 400 * (- (y1 / 400))) by lia. rewrite valid_yo_period. assumption. }
  assert (V2 : valid_yo (y2 mod 400) o2 = true).
  { replace (y2 mod 400) with (y2 + 400 * (- (y2 / 400))) by lia. rewrite valid_yo_period. assumption. }
  pose proof (cyc_bounds (y1 mod 400) o1 ltac:(lia) V1) as C1. pose proof (cyc_bounds (y2 mod 400) o2 ltac:(lia) V2) as C2.
  assert (N1 : dn_of_yo y1 o1 = dn_of_yo (y1 mod 400) o1 + 146097 * (y1 / 400)).
  { replace y1 with (y1 mod 400 + 400 * (y1 / 400)) at 1 by lia. apply dn_of_yo_period. }
  assert (N2 : dn_of_yo y2 o2 = dn_of_yo (y2 mod 400) o2 + 146097 * (y2 / 400)).
  { replace y2 with (y2 mod 400 + 400 * (y2 / 400)) at 1 by lia. apply dn_of_yo_period. }
  set (c1 := dn_of_yo (y1 mod 400) o1 + 365) in *. set (c2 := dn_of_yo (y2 mod 400) o2 + 365) in *.
  set (q1 := y1 / 400) in *. set (q2 := y2 / 400) in *.
  assert (Hq : -656 <= q1 <= 655 /\ -656 <= q2 <= 655) by (unfold q1, q2; lia).
  chk_ok. chk_ok. chk_ok. chk_ok.
  rewrite try_days_small by lia. cbn [unwrap]. f_equal. f_equal. lia.
Qed.
