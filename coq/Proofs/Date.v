(** Model-vs-spec lemmas for the calendar core (Model/Date.v against Spec/Gregorian.v), shared by
    every property that uses dates.  Part 1: characterisation of the generated tables by complete
    enumeration ([vm_compute] sweeps lifted by Base/Lift.v); a changed table cell breaks exactly the
    sweep of that table. *)
From Coq Require Import ZArith List Bool Lia ZifyBool.
From V Require Import Base.Int Base.IntLemmas Base.Bits Base.Table Base.Lift Gen.DateTables Model.Date Spec.Gregorian.
Import ListNotations.
Open Scope Z_scope.
Ltac Zify.zify_post_hook ::= Z.to_euclidean_division_equations.

(** ** YEAR_TO_FLAGS: leap bit and weekday of 31 December of the previous year *)
Definition yf_cell_ok (r : Z) : bool :=
  match tfind YEAR_TO_FLAGS r with
  | Some f => (0 <? f) && (f <? 16) && negb (f mod 8 =? 0)
              && Bool.eqb (f / 8 =? 0) (is_leap r)
              && ((f mod 8) mod 7 =? (days_before_year r - 1) mod 7)
  | None => false
  end.
Lemma yf_table_sweep : forall_range yf_cell_ok 0 400 = true.
Proof. vm_cast_no_check (eq_refl true). Qed.
Lemma yf_table_spec r : 0 <= r < 400 ->
  exists f, tfind YEAR_TO_FLAGS r = Some f /\ 0 < f < 16 /\ f mod 8 <> 0 /\
            (f / 8 = 0 <-> is_leap r = true) /\ (f mod 8) mod 7 = (days_before_year r - 1) mod 7.
Proof.
  intros Hr. pose proof (forall_range_spec _ _ _ yf_table_sweep r ltac:(lia)) as H.
  unfold yf_cell_ok in H. destruct (tfind YEAR_TO_FLAGS r) as [f|]; [|discriminate].
  exists f. split; [reflexivity|].
  apply andb_prop in H; destruct H as [H H5]. apply andb_prop in H; destruct H as [H H4].
  apply andb_prop in H; destruct H as [H H3]. apply andb_prop in H; destruct H as [H1 H2].
  apply Bool.eqb_prop in H4.
  repeat split; try lia.
  - intros E. rewrite <- H4. lia.
  - intros E. rewrite <- H4 in E. lia.
Qed.

(** ** YEAR_DELTAS: leap days from 1 January of year 0 to 1 January of year r *)
Definition yd_cell_ok (r : Z) : bool :=
  match tfind YEAR_DELTAS r with
  | Some v => v =? days_before_year r + 366 - 365 * r
  | None => false
  end.
Lemma yd_table_sweep : forall_range yd_cell_ok 0 401 = true.
Proof. vm_cast_no_check (eq_refl true). Qed.
Lemma yd_table_spec r : 0 <= r <= 400 ->
  tfind YEAR_DELTAS r = Some (days_before_year r + 366 - 365 * r).
Proof.
  intros Hr. pose proof (forall_range_spec _ _ _ yd_table_sweep r ltac:(lia)) as H.
  unfold yd_cell_ok in H. destruct (tfind YEAR_DELTAS r) as [v|]; [|discriminate].
  f_equal. lia.
Qed.

(** ** MDL_TO_OL: month-day-leap index -> ordinal-leap index, 0 for dates that do not exist.
    mdl = month * 64 + day * 2 + c with c = 1 for a common year, 0 for a leap year. *)
Definition mdl_cell_ok (mdl : Z) : bool :=
  let m := mdl / 64 in let d := (mdl / 2) mod 32 in let c := mdl mod 2 in
  let leap := c =? 0 in
  match tfind MDL_TO_OL mdl with
  | Some v =>
      if (1 <=? m) && (m <=? 12) && (1 <=? d) && (d <=? days_in_month leap m)
      then (0 <? v) && (v <? 128) && (mdl - v =? 2 * ordinal_of_md leap m d + c)
      else v =? 0
  | None => false
  end.
Lemma mdl_table_sweep : forall_range mdl_cell_ok 0 832 = true.
Proof. vm_cast_no_check (eq_refl true). Qed.

(** ** OL_TO_MDL: the inverse offsets.  ol = ordinal * 2 + c *)
Definition ol_cell_ok (ol : Z) : bool :=
  let o := ol / 2 in let c := ol mod 2 in let leap := c =? 0 in
  match tfind OL_TO_MDL ol with
  | Some v =>
      if (1 <=? o) && (o <=? (if leap then 366 else 365))
      then let '(m, d) := md_of_ordinal leap o in (0 <=? v) && (v <? 256) && (ol + v =? m * 64 + d * 2 + c)
      else true
  | None => false
  end.
Lemma ol_table_sweep : forall_range ol_cell_ok 0 733 = true.
Proof. vm_cast_no_check (eq_refl true). Qed.

(** ** cycle_to_yo on a whole 400-year cycle (cycle 0 = 1 January of year 0) *)
Definition cyc_ok (c : Z) : bool :=
  match cycle_to_yo c with
  | Val (ym, o) => (0 <=? ym) && (ym <? 400) && (1 <=? o) && (o <=? days_in_year ym)
                   && (days_before_year ym + o =? c - 365)
  | _ => false end.
Lemma cycle_sweep : forall_range cyc_ok 0 146097 = true.
Proof. vm_cast_no_check (eq_refl true). Qed.
Lemma cycle_to_yo_spec c : 0 <= c < 146097 ->
  exists ym o, cycle_to_yo c = Val (ym, o) /\ 0 <= ym < 400 /\ 1 <= o <= days_in_year ym /\
               dn_of_yo ym o = c - 365.
Proof.
  intros Hc. pose proof (forall_range_spec _ _ _ cycle_sweep c ltac:(lia)) as H.
  unfold cyc_ok in H. destruct (cycle_to_yo c) as [[ym o]| |]; try discriminate.
  exists ym, o. split; [reflexivity|]. unfold dn_of_yo. lia.
Qed.
