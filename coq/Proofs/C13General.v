(** C13 — the GENERAL composition: for every item list over the supported item kinds, if the
    documented renderings of the items for a value (Spec/StrftimeDoc.v [render_num] / [render_fix],
    which C12 proves the formatter prints) are accepted by the decision procedure [unambiguous_b],
    then the recognised writes are fields of the value ([item_value]: the link through C12), the real
    setters succeed on them ([run_view]) and -- when the field set the reader builds contains a
    documented sufficient combination (decidable: [date_comb_b] / [time_comb_b]) -- Parsed resolution
    returns the value (C14 completeness), truncated to the fields that were printed. *)
From Coq Require Import ZArith List Bool Lia ZifyBool.
From V Require Import Base.Int Base.IntLemmas Base.IO Base.Utf8 Model.Scan Model.Items Gen.ParseTable Gen.Strftime
  Proofs.Utf8 Proofs.Scan Model.Parse Proofs.C13 Proofs.C13Reads Proofs.C13Fmt Proofs.C13Digits Proofs.C13Time
  Proofs.C13Date Proofs.C13View Proofs.C13DateTime Proofs.C13TimeForms Proofs.C13Zoned Spec.StrftimeDoc Spec.Gregorian.
From V Require Model.Parsed Model.Format Model.Date Model.Time Model.DateTime Model.Strftime Proofs.C12 Proofs.C12View
  Proofs.C14 Proofs.C14Date Proofs.C14Iso Proofs.C08Sweeps Proofs.C08 Proofs.C08Days Proofs.DateIso.
Import ListNotations.
Open Scope Z_scope.
Ltac Zify.zify_post_hook ::= Z.to_euclidean_division_equations.

(** * A. whatever the follow condition, a numeric item reads the documented rendering of a number
    back as that number (and an unsigned item only accepts a non-negative one) *)
Lemma reads_pad_num_value spec width (signed : bool) code p w force x rest wr :
  numeric_entry spec = Some (width, signed, code) ->
  reads_numeric spec (pad_num p w force x) rest = Some wr ->
  wr = W_code code x /\ (signed = false -> 0 <= x).
Proof.
  intros He H.
  destruct (dec_nonneg_digits (Z.abs x) (Z.abs_nonneg x)) as (Hd & Hl & Hval & Hub & Hlb).
  set (D := dec_nonneg (Z.abs x)) in *.
  assert (Hv0 : digits_value D 0 = Z.abs x) by (rewrite Hval; lia).
  pose proof (digit_string_head D (Z.abs x) (conj Hd (conj Hl (conj Hval (conj Hub Hlb))))) as HheadD.
  set (sign := if x <? 0 then [45] else if (force : bool) then [43] else []).
  (* the three paddings have the shape  spaces ++ sign ++ digits  *)
  assert (Hshape : exists sp ZD, pad_num p w force x = rep 32 sp ++ sign ++ ZD /\
            forallb is_ascii_digit ZD = true /\ 1 <= blen ZD /\ digits_value ZD 0 = Z.abs x).
  { unfold pad_num. change (digits (Z.abs x)) with (dec_nonneg (Z.abs x)). fold D. fold sign. destruct p.
    - exists 0, D. split; [reflexivity|]. repeat split; assumption.
    - eexists 0, (rep 48 _ ++ D). split; [reflexivity|].
      rewrite forallb_app_digits, zeros_digits, Hd, zeros_value', blen_app.
      split; [reflexivity|]. split; [|exact Hv0].
      pose proof (blen_nonneg (rep 48 (if force then w - dlen D else w - dlen D - dlen sign))). lia.
    - eexists _, D. split; [reflexivity|]. repeat split; assumption. }
  destruct Hshape as (sp & ZD & Hpn & HZD & HlZ & HvZ). rewrite Hpn in H. clear Hpn.
  assert (HheadZ : match ZD with c :: _ => ws_byte c = false /\ (c =? 45) = false /\ (c =? 43) = false | [] => True end).
  { destruct ZD as [|c r]; [exact I|]. cbn [forallb] in HZD. apply andb_prop in HZD. destruct HZD as [Hc _].
    pose proof (digit_range c Hc). split; [apply digit_not_ws; exact Hc|lia]. }
  unfold reads_numeric in H. rewrite He in H.
  assert (Hws : match sign ++ ZD with c :: _ => ws_byte c = false | [] => True end).
  { unfold sign. destruct (x <? 0); [reflexivity|]. destruct force; [reflexivity|].
    cbn [app]. destruct ZD; [exact I|exact (proj1 HheadZ)]. }
  rewrite split_ws_spaces in H by exact Hws.
  unfold sign in H. destruct (x <? 0) eqn:Ex.
  - cbn [app] in H. change (45 =? 45) with true in H. cbv iota in H.
    destruct signed; [|discriminate]. unfold reads_sign in H.
    destruct (all_dig ZD && (1 <=? blen ZD) && (blen ZD <=? u64_max) && not_digit_start rest
              && utf8_valid rest && (digits_value ZD 0 <=? i64_max)); [|discriminate].
    apply Some_inj in H. subst wr. split; [f_equal; lia|discriminate].
  - destruct force.
    + cbn [app] in H. change (43 =? 45) with false in H. change (43 =? 43) with true in H. cbv iota in H.
      destruct signed; [|discriminate]. unfold reads_sign in H.
      destruct (all_dig ZD && (1 <=? blen ZD) && (blen ZD <=? u64_max) && not_digit_start rest
                && utf8_valid rest && (digits_value ZD 0 <=? i64_max)); [|discriminate].
      apply Some_inj in H. subst wr. split; [f_equal; lia|discriminate].
    + cbn [app] in H. destruct ZD as [|c r]; [discriminate|].
      destruct HheadZ as (_ & E45 & E43). rewrite E45, E43 in H. unfold reads_nosign in H.
      destruct (all_dig (c :: r) && (1 <=? blen (c :: r)) && (blen (c :: r) <=? width)
                && ((blen (c :: r) =? width) || not_digit_start rest) && utf8_valid rest
                && (digits_value (c :: r) 0 <=? i64_max)); [|discriminate].
      apply Some_inj in H. subst wr. split; [f_equal; lia|intros _; lia].
Qed.

(** * B. the field view of a specification-level value *)
Import Model.Parsed.

Definition dn_month (dn : Z) : Z := snd (fst (ymd_of_dn dn)).
Definition dn_day (dn : Z) : Z := snd (ymd_of_dn dn).
Definition nonneg_opt (y v : Z) : option Z := if y <? 0 then None else Some v.

(* [on]: the nanosecond field, when a fraction item prints one *)
Definition gview (sv : sval) (on : option Z) : parsed :=
  let D (g : Z -> option Z) := match sv_dn sv with Some dn => g dn | None => None end in
  let T (g : Z -> option Z) := match sv_sod sv with Some s => g s | None => None end in
  mk_parsed
    (D (fun dn => Some (year_of_dn dn)))
    (D (fun dn => nonneg_opt (year_of_dn dn) (year_of_dn dn / 100)))
    (D (fun dn => nonneg_opt (year_of_dn dn) (year_of_dn dn mod 100)))
    (D (fun dn => Some (fst (iso_of_dn dn))))
    None
    (D (fun dn => nonneg_opt (fst (iso_of_dn dn)) (fst (iso_of_dn dn) mod 100)))
    (D (fun dn => Some ((dn_month dn - 1) / 3 + 1)))
    (D (fun dn => Some (dn_month dn)))
    (D (fun dn => Some (weeks_on_or_before (ordinal_of_dn dn) ((weekday_of_dn dn + 1) mod 7))))
    (D (fun dn => Some (weeks_on_or_before (ordinal_of_dn dn) (weekday_of_dn dn))))
    (D (fun dn => Some (snd (iso_of_dn dn))))
    (D (fun dn => Some (weekday_of_dn dn)))
    (D (fun dn => Some (ordinal_of_dn dn)))
    (D (fun dn => Some (dn_day dn)))
    (T (fun s => Some (s / 3600 / 12)))
    (T (fun s => Some (s / 3600 mod 12)))
    (T (fun s => Some (s / 60 mod 60)))
    (T (fun s => Some (s mod 60 + (if sv_leap sv then 1 else 0))))
    (T (fun _ => on))
    None
    (match sv_off sv with Some o => if o mod 60 =? 0 then Some o else None | None => None end).

(* the bounds of the value's fields: all consequences of [args_view] *)
Record sv_bounds (sv : sval) : Prop := mk_svb {
  svb_date : forall dn, sv_dn sv = Some dn ->
    in_i32 (year_of_dn dn) = true /\ in_i32 (fst (iso_of_dn dn)) = true /\
    1 <= dn_month dn <= 12 /\ 1 <= dn_day dn <= 31 /\ 1 <= ordinal_of_dn dn <= 366 /\
    1 <= snd (iso_of_dn dn) <= 53;
  svb_time : forall s, sv_sod sv = Some s -> 0 <= s < 86400;
  svb_nano : 0 <= sv_nano sv < 1000000000;
  svb_off : forall o, sv_off sv = Some o -> -86400 < o < 86400
}.

Lemma weekday_of_dn_bounds n : 0 <= weekday_of_dn n <= 6.
Proof. unfold weekday_of_dn. lia. Qed.
Lemma weeks_bounds o s : 1 <= o <= 366 -> 0 <= s <= 6 -> 0 <= weeks_on_or_before o s <= 53.
Proof. intros Ho Hs. unfold weeks_on_or_before. destruct (o - s <? 1); lia. Qed.

Lemma args_view_bounds a sv : Proofs.C12.args_view a sv -> sv_nano sv = sv_nano sv ->
  (sv_sod sv <> None \/ 0 <= sv_nano sv < 1000000000) -> sv_bounds sv.
Proof.
  intros [Hd Ht Ho _] _ Hn. constructor.
  - intros dn E. rewrite E in Hd. destruct (Model.Format.fa_date a) as [d|]; [|contradiction].
    destruct Hd as [_ [_ Hyr] (yy & m & dd & Hymd & _ & _ & Hmr & Hddr) [_ Hor] _ (w & _ & _ & _ & Hwr & Hwyr) _].
    unfold dn_month, dn_day. rewrite Hymd. cbn [fst snd]. repeat split; try assumption; lia.
  - intros s E. rewrite E in Ht. destruct (Model.Format.fa_time a) as [t|]; [|contradiction].
    destruct Ht as (_ & H & _). exact H.
  - destruct (sv_sod sv) as [s|] eqn:E.
    + destruct (Model.Format.fa_time a) as [t|]; [|contradiction]. destruct Ht as (_ & _ & H & _). exact H.
    + destruct Hn as [Hc|H]; [contradiction|exact H].
  - intros o E. rewrite E in Ho. destruct (Model.Format.fa_off a) as [[name off]|]; [|contradiction].
    destruct Ho as (_ & H & _). exact H.
Qed.

Lemma gview_typed sv on : sv_bounds sv -> (forall n, on = Some n -> 0 <= n <= 999999999) ->
  Proofs.C14.typed (gview sv on).
Proof.
  intros [Bd Bt Bn Bo] Hon f v Hf.
  assert (HD : forall g : Z -> option Z, match sv_dn sv with Some dn => g dn | None => None end = Some v ->
            exists dn, sv_dn sv = Some dn /\ g dn = Some v).
  { intros g Hg. destruct (sv_dn sv) as [dn|]; [|discriminate Hg]. exists dn. split; [reflexivity|exact Hg]. }
  assert (HT : forall g : Z -> option Z, match sv_sod sv with Some s => g s | None => None end = Some v ->
            exists s, sv_sod sv = Some s /\ g s = Some v).
  { intros g Hg. destruct (sv_sod sv) as [s|]; [|discriminate Hg]. exists s. split; [reflexivity|exact Hg]. }
  assert (HN : forall y x, nonneg_opt y x = Some v -> 0 <= y /\ v = x).
  { intros y x Hx. unfold nonneg_opt in Hx. destruct (y <? 0) eqn:E; [discriminate Hx|]. apply Some_inj in Hx. lia. }
  destruct f; cbn [Proofs.C14.ftype]; unfold gview in Hf;
    cbn [pget p_year p_year_div_100 p_year_mod_100 p_isoyear p_isoyear_div_100 p_isoyear_mod_100
      p_quarter p_month p_week_from_sun p_week_from_mon p_isoweek p_weekday p_ordinal p_day p_hour_div_12
      p_hour_mod_12 p_minute p_second p_nanosecond p_timestamp p_offset] in Hf; try discriminate Hf;
    try (apply HD in Hf; destruct Hf as (dn & Ed & Hf); destruct (Bd dn Ed) as (B1 & B2 & B3 & B4 & B5 & B6);
         pose proof (weekday_of_dn_bounds dn) as Bw);
    try (apply HT in Hf; destruct Hf as (s & Es & Hf); pose proof (Bt s Es) as B7).
  - apply Some_inj in Hf. subst v. exact B1.
  - apply HN in Hf. destruct Hf as [H0 ->]. unfold in_i32, in_range, i32_min, i32_max in *. clear - B1 H0. lia.
  - apply HN in Hf. destruct Hf as [H0 ->]. unfold in_i32, in_range, i32_min, i32_max in *. clear - B1 H0. lia.
  - apply Some_inj in Hf. subst v. exact B2.
  - apply HN in Hf. destruct Hf as [H0 ->]. unfold in_i32, in_range, i32_min, i32_max in *. clear - B2 H0. lia.
  - apply Some_inj in Hf. subst v. unfold u32_max. clear - B3. lia.
  - apply Some_inj in Hf. subst v. unfold u32_max. clear - B3. lia.
  - apply Some_inj in Hf. subst v.
    pose proof (weeks_bounds (ordinal_of_dn dn) ((weekday_of_dn dn + 1) mod 7) B5 ltac:(clear - Bw; lia)) as Bs.
    unfold u32_max. clear - Bs. lia.
  - apply Some_inj in Hf. subst v. pose proof (weeks_bounds (ordinal_of_dn dn) (weekday_of_dn dn) B5 Bw) as Bs.
    unfold u32_max. clear - Bs. lia.
  - apply Some_inj in Hf. subst v. unfold u32_max. clear - B6. lia.
  - apply Some_inj in Hf. subst v. exact Bw.
  - apply Some_inj in Hf. subst v. unfold u32_max. clear - B5. lia.
  - apply Some_inj in Hf. subst v. unfold u32_max. clear - B4. lia.
  - apply Some_inj in Hf. subst v. unfold u32_max. clear - B7. lia.
  - apply Some_inj in Hf. subst v. unfold u32_max. clear - B7. lia.
  - apply Some_inj in Hf. subst v. unfold u32_max. clear - B7. lia.
  - apply Some_inj in Hf. subst v. unfold u32_max. clear - B7. destruct (sv_leap sv); lia.
  - pose proof (Hon v Hf) as Hn. unfold u32_max. clear - Hn. lia.
  - destruct (sv_off sv) as [o|] eqn:Eo; [|discriminate Hf]. destruct (o mod 60 =? 0); [|discriminate Hf].
    apply Some_inj in Hf. subst v. pose proof (Bo o eq_refl) as Hb. unfold in_i32, in_range, i32_min, i32_max. clear - Hb. lia.
Qed.

Lemma gview_date_sound sv on d dn : sv_dn sv = Some dn -> Proofs.C12.date_view d dn ->
  Proofs.C14.date_sound (gview sv on) d.
Proof.
  intros Ed V.
  pose proof V as [_ [Hy Hyr] (yy & m & dd & Hymd & Hm & Hdd & Hmr & Hddr) [Hord Hor] Hwd (w & Hw & Hwy & Hww & Hwr & Hwyr) _].
  pose proof (weekday_of_dn_bounds dn) as Bw.
  assert (Em : dn_month dn = m) by (unfold dn_month; rewrite Hymd; reflexivity).
  assert (Edd : dn_day dn = dd) by (unfold dn_day; rewrite Hymd; reflexivity).
  unfold Proofs.C14.date_sound, Proofs.C14.iso_sound, Proofs.C14.year_parts_sound, gview. rewrite Ed.
  cbn [p_year p_year_div_100 p_year_mod_100 p_isoyear p_isoyear_div_100 p_isoyear_mod_100
      p_quarter p_month p_week_from_sun p_week_from_mon p_isoweek p_weekday p_ordinal p_day].
  unfold nonneg_opt. rewrite Em, Edd.
  split.
  { split; [intros v Hv; apply Some_inj in Hv; subst v; exact Hy|].
    split; intros v Hv; destruct (year_of_dn dn <? 0) eqn:E; try discriminate Hv; apply Some_inj in Hv; subst v; rewrite Hy; lia. }
  split.
  { exists w. split; [exact Hw|]. rewrite Hwy, Hww. split.
    - split; [intros v Hv; apply Some_inj in Hv; subst v; reflexivity|].
      split; intros v Hv; [discriminate Hv|].
      destruct (fst (iso_of_dn dn) <? 0) eqn:E; try discriminate Hv. apply Some_inj in Hv. subst v. lia.
    - intros v Hv. apply Some_inj in Hv. subst v. reflexivity. }
  split.
  { intros v Hv. apply Some_inj in Hv. subst v. unfold Model.Date.d_quarter. rewrite Hm. cbn [bind].
    unfold sub_u32. rewrite Proofs.C12.chk_u32 by lia. cbn [bind]. rewrite div_euclid_pos by lia.
    rewrite Proofs.C12.chk_u32 by lia. cbn [bind]. unfold add_u32. rewrite Proofs.C12.chk_u32 by lia. reflexivity. }
  split; [intros v Hv; apply Some_inj in Hv; subst v; exact Hm|].
  split.
  { intros v Hv. apply Some_inj in Hv. subst v.
    change (Model.Date.weeks_from d WD_SUN) with (Model.Format.weeks_from d 6).
    rewrite (Proofs.C12.weeks_from_spec d dn 6 V) by lia.
    replace ((weekday_of_dn dn - 6) mod 7) with ((weekday_of_dn dn + 1) mod 7) by lia.
    rewrite Proofs.C14.as_i32_small; [reflexivity|].
    pose proof (weeks_bounds (ordinal_of_dn dn) ((weekday_of_dn dn + 1) mod 7) Hor ltac:(lia)). unfold i32_max. lia. }
  split.
  { intros v Hv. apply Some_inj in Hv. subst v.
    change (Model.Date.weeks_from d WD_MON) with (Model.Format.weeks_from d 0).
    rewrite (Proofs.C12.weeks_from_spec d dn 0 V) by lia.
    replace ((weekday_of_dn dn - 0) mod 7) with (weekday_of_dn dn) by lia.
    rewrite Proofs.C14.as_i32_small; [reflexivity|].
    pose proof (weeks_bounds (ordinal_of_dn dn) (weekday_of_dn dn) Hor Bw). unfold i32_max. lia. }
  split; [intros v Hv; apply Some_inj in Hv; subst v; exact Hwd|].
  split; [intros v Hv; apply Some_inj in Hv; subst v; exact Hord|].
  intros v Hv. apply Some_inj in Hv. subst v. exact Hdd.
Qed.

(** * C. the recognised write of a numeric item is a field of the value *)
Lemma FV_inj a b : FV a = FV b -> a = b.
Proof. intros H. injection H as ->. reflexivity. Qed.
Lemma ROk_inj a b : ROk a = ROk b -> a = b.
Proof. intros H. injection H as ->. reflexivity. Qed.

Definition nfield_supported (f : nfield) : bool := match f with NTimestamp => false | _ => true end.

Ltac date_field Hnv dn Ed :=
  unfold num_value in Hnv; destruct (sv_dn _) as [dn|] eqn:Ed; [|discriminate Hnv].
Ltac time_field Hnv s Es :=
  unfold num_value in Hnv; destruct (sv_sod _) as [s|] eqn:Es; [|discriminate Hnv].
Ltac gv Ed := unfold gview; rewrite Ed;
  cbn [pget p_year p_year_div_100 p_year_mod_100 p_isoyear p_isoyear_div_100 p_isoyear_mod_100
      p_quarter p_month p_week_from_sun p_week_from_mon p_isoweek p_weekday p_ordinal p_day p_hour_div_12
      p_hour_mod_12 p_minute p_second p_nanosecond p_timestamp p_offset].

Lemma num_w_ok sv on f p t rest wr : sv_bounds sv -> nfield_supported f = true ->
  render_num sv f p = ROk t -> reads_numeric (Proofs.C12.numeric_of f) t rest = Some wr ->
  (f = NNanos -> on = Some (sv_nano sv)) ->
  w_ok (gview sv on) wr.
Proof.
  intros [Bd Bt Bn Bo] Hsup Hr Hread Hnano. unfold render_num in Hr.
  destruct (negb (width_documented f p)); [discriminate Hr|].
  destruct (num_value sv f) as [x| |] eqn:Hnv; try discriminate Hr. apply ROk_inj in Hr. subst t.
  pose proof (numeric_table (Proofs.C12.numeric_of f)) as He.
  destruct f; cbn [Proofs.C12.numeric_of numeric_table_expected] in He, Hread; try discriminate Hsup;
    destruct (reads_pad_num_value _ _ _ _ _ _ _ _ _ _ He Hread) as [-> Hs];
    cbn [w_ok simple_code Z.eqb Pos.eqb].
  - (* Year *) date_field Hnv dn Ed. apply FV_inj in Hnv. subst x. destruct (Bd dn eq_refl) as (B1 & _).
    split; [unfold in_i32, in_range in B1; lia|]. gv Ed. reflexivity.
  - (* Century *) date_field Hnv dn Ed. apply FV_inj in Hnv. subst x. destruct (Bd dn eq_refl) as (B1 & _).
    specialize (Hs eq_refl). assert (Hy : (year_of_dn dn <? 0) = false) by lia.
    split; [unfold in_i32, in_range, i32_min, i32_max in *; lia|]. gv Ed. unfold nonneg_opt. rewrite Hy. reflexivity.
  - (* YearMod100 *) date_field Hnv dn Ed. cbv zeta in Hnv. destruct (year_of_dn dn <? 0) eqn:Hy; [discriminate Hnv|].
    apply FV_inj in Hnv. subst x. split; [lia|]. gv Ed. unfold nonneg_opt. rewrite Hy. reflexivity.
  - (* IsoYear *) date_field Hnv dn Ed. apply FV_inj in Hnv. subst x. destruct (Bd dn eq_refl) as (_ & B2 & _).
    split; [unfold in_i32, in_range in B2; lia|]. gv Ed. reflexivity.
  - (* IsoYearMod100 *) date_field Hnv dn Ed. cbv zeta in Hnv. destruct (fst (iso_of_dn dn) <? 0) eqn:Hy; [discriminate Hnv|].
    apply FV_inj in Hnv. subst x. split; [lia|]. gv Ed. unfold nonneg_opt. rewrite Hy. reflexivity.
  - (* Quarter *) date_field Hnv dn Ed. destruct (Bd dn eq_refl) as (_ & _ & B3 & _). unfold dn_month in B3.
    destruct (ymd_of_dn dn) as [[yy m] dd] eqn:Eymd. cbn [fst snd] in B3. apply FV_inj in Hnv. subst x.
    split; [lia|]. gv Ed. unfold dn_month. rewrite Eymd. reflexivity.
  - (* Month *) date_field Hnv dn Ed. destruct (Bd dn eq_refl) as (_ & _ & B3 & _). unfold dn_month in B3.
    destruct (ymd_of_dn dn) as [[yy m] dd] eqn:Eymd. cbn [fst snd] in B3. apply FV_inj in Hnv. subst x.
    split; [lia|]. gv Ed. unfold dn_month. rewrite Eymd. reflexivity.
  - (* Day *) date_field Hnv dn Ed. destruct (Bd dn eq_refl) as (_ & _ & _ & B4 & _). unfold dn_day in B4.
    destruct (ymd_of_dn dn) as [[yy m] dd] eqn:Eymd. cbn [fst snd] in B4. apply FV_inj in Hnv. subst x.
    split; [lia|]. gv Ed. unfold dn_day. rewrite Eymd. reflexivity.
  - (* WeekSun *) date_field Hnv dn Ed. apply FV_inj in Hnv. subst x. destruct (Bd dn eq_refl) as (_ & _ & _ & _ & B5 & _).
    pose proof (weekday_of_dn_bounds dn) as Bw.
    pose proof (weeks_bounds (ordinal_of_dn dn) ((weekday_of_dn dn + 1) mod 7) B5 ltac:(lia)) as Bs.
    split; [lia|]. gv Ed. reflexivity.
  - (* WeekMon *) date_field Hnv dn Ed. apply FV_inj in Hnv. subst x. destruct (Bd dn eq_refl) as (_ & _ & _ & _ & B5 & _).
    pose proof (weekday_of_dn_bounds dn) as Bw.
    pose proof (weeks_bounds (ordinal_of_dn dn) (weekday_of_dn dn) B5 Bw) as Bs.
    split; [lia|]. gv Ed. reflexivity.
  - (* IsoWeek *) date_field Hnv dn Ed. apply FV_inj in Hnv. subst x. destruct (Bd dn eq_refl) as (_ & _ & _ & _ & _ & B6).
    split; [lia|]. gv Ed. reflexivity.
  - (* WdaySun0 *) date_field Hnv dn Ed. apply FV_inj in Hnv. subst x. pose proof (weekday_of_dn_bounds dn) as Bw.
    split; [lia|]. gv Ed. f_equal. lia.
  - (* WdayMon1 *) date_field Hnv dn Ed. apply FV_inj in Hnv. subst x. pose proof (weekday_of_dn_bounds dn) as Bw.
    split; [lia|]. gv Ed. f_equal. lia.
  - (* Ordinal *) date_field Hnv dn Ed. apply FV_inj in Hnv. subst x. destruct (Bd dn eq_refl) as (_ & _ & _ & _ & B5 & _).
    split; [lia|]. gv Ed. reflexivity.
  - (* Hour *) time_field Hnv s Es. apply FV_inj in Hnv. subst x. pose proof (Bt s eq_refl) as B7.
    split; [lia|]. unfold gview. rewrite Es. split; reflexivity.
  - (* Hour12 *) time_field Hnv s Es. cbv zeta in Hnv. apply FV_inj in Hnv. subst x. pose proof (Bt s eq_refl) as B7.
    split; [destruct (s / 3600 mod 12 =? 0) eqn:E; lia|]. unfold gview. rewrite Es. cbn [pget p_hour_mod_12]. f_equal.
    destruct (s / 3600 mod 12 =? 0) eqn:E; lia.
  - (* Minute *) time_field Hnv s Es. apply FV_inj in Hnv. subst x. pose proof (Bt s eq_refl) as B7.
    split; [lia|]. unfold gview. rewrite Es. reflexivity.
  - (* Second *) time_field Hnv s Es. apply FV_inj in Hnv. subst x. pose proof (Bt s eq_refl) as B7.
    split; [destruct (sv_leap sv); lia|]. unfold gview. rewrite Es. reflexivity.
  - (* Nanos *) time_field Hnv s Es. apply FV_inj in Hnv. subst x.
    split; [lia|]. unfold gview. rewrite Es. cbn [pget p_nanosecond]. exact (Hnano eq_refl).
Qed.

(** * D. the recognised write of a fixed item is a field of the value *)
(* the nanosecond field a fraction item writes for this value ([None]: it writes no field) *)
Definition frac_of (sv : sval) (f : tfield) : option Z :=
  match f with
  | TFracAuto => if sv_nano sv =? 0 then None else Some (sv_nano sv)
  | TFrac k _ => Some (sv_nano sv / 10 ^ (9 - k) * 10 ^ (9 - k))
  | _ => None
  end.
Definition tfield_supported (f : tfield) : bool :=
  match f with
  | TMonthAbbr | TMonthFull | TWdayAbbr | TWdayFull | TAmPmLower | TAmPmUpper | TFracAuto | TOff | TOffColon => true
  | TFrac k _ => (k =? 3) || (k =? 6) || (k =? 9)
  | _ => false
  end.

Lemma frac_digits_pad n k : frac_digits n k = pad_num DZero k false (n / 10 ^ (9 - k)).
Proof. reflexivity. Qed.

Lemma dotfrac_value spec k x rest wr : dot_frac_spec spec -> 1 <= k <= 9 -> 0 <= x < 10 ^ k ->
  reads_fixed spec (46 :: pad_num DZero k false x) rest = Some wr -> wr = W_code 19 (x * 10 ^ (9 - k)).
Proof.
  intros Hs Hk Hx H.
  assert (E : reads_fixed spec (46 :: pad_num DZero k false x) rest =
              (if (46 =? 46) && all_dig (pad_num DZero k false x) && (1 <=? blen (pad_num DZero k false x))
                  && not_digit_start rest && utf8_valid rest
               then Some (W_code 19 (nano_value (pad_num DZero k false x))) else None)).
  { destruct Hs as [->|[->|[->| ->]]]; reflexivity. }
  rewrite E in H. revert H. destruct (_ && _ && _ && _ && _); intros H; [|discriminate H]. apply Some_inj in H. subst wr.
  rewrite nano_value_pad by assumption. reflexivity.
Qed.

Lemma pow_split k : 0 <= k <= 9 -> 10 ^ k * 10 ^ (9 - k) = 1000000000.
Proof. intros H. rewrite <- Z.pow_add_r by lia. replace (k + (9 - k)) with 9 by lia. reflexivity. Qed.
Lemma frac_x_bounds n k : 0 <= n < 1000000000 -> 0 <= k <= 9 -> 0 <= n / 10 ^ (9 - k) < 10 ^ k.
Proof.
  intros Hn Hk. pose proof (pow_split k Hk) as Hp.
  assert (Hpos : 0 < 10 ^ (9 - k)) by (apply Z.pow_pos_nonneg; lia).
  split; [apply Z.div_pos; lia|]. apply Z.div_lt_upper_bound; [exact Hpos|]. rewrite Z.mul_comm. lia.
Qed.

Ltac norm_text H :=
  match type of H with reads_fixed ?sp ?t ?rest = _ => let t' := eval vm_compute in t in change t with t' in H end.

Lemma fix_w_ok sv on f t rest wr : sv_bounds sv -> (forall o, sv_off sv = Some o -> o mod 60 = 0) ->
  tfield_supported f = true ->
  render_fix sv f = ROk t -> reads_fixed (Proofs.C12.fixed_of f) t rest = Some wr ->
  (frac_of sv f = None \/ frac_of sv f = on) ->
  w_ok (gview sv on) wr.
Proof.
  intros [Bd Bt Bn Bo] Hmin Hsup Hr Hread Hnano. unfold render_fix in Hr.
  destruct f; try discriminate Hsup; cbn [Proofs.C12.fixed_of] in Hread.
  - (* MonthAbbr *)
    destruct (sv_dn sv) as [dn|] eqn:Ed; [|discriminate Hr]. destruct (Bd dn eq_refl) as (_ & _ & B3 & _). unfold dn_month in B3.
    destruct (ymd_of_dn dn) as [[yy m] dd] eqn:Eymd. cbn [fst snd] in B3. apply ROk_inj in Hr. subst t.
    assert (Hw : wr = W_code 7 m).
    { assert (Hc : m = 1 \/ m = 2 \/ m = 3 \/ m = 4 \/ m = 5 \/ m = 6 \/ m = 7 \/ m = 8 \/ m = 9 \/ m = 10 \/ m = 11 \/ m = 12) by lia.
      destruct Hc as [->|[->|[->|[->|[->|[->|[->|[->|[->|[->|[->| ->]]]]]]]]]]]; norm_text Hread; cbn in Hread;
        (revert Hread; destruct (starts_ok rest); intros Hread; [|discriminate Hread]); apply Some_inj in Hread; subst wr; reflexivity. }
    subst wr. cbn [w_ok simple_code Z.eqb Pos.eqb]. split; [lia|]. gv Ed. unfold dn_month. rewrite Eymd. reflexivity.
  - (* MonthFull *)
    destruct (sv_dn sv) as [dn|] eqn:Ed; [|discriminate Hr]. destruct (Bd dn eq_refl) as (_ & _ & B3 & _). unfold dn_month in B3.
    destruct (ymd_of_dn dn) as [[yy m] dd] eqn:Eymd. cbn [fst snd] in B3. apply ROk_inj in Hr. subst t.
    assert (Hw : wr = W_code 7 m).
    { assert (Hc : m = 1 \/ m = 2 \/ m = 3 \/ m = 4 \/ m = 5 \/ m = 6 \/ m = 7 \/ m = 8 \/ m = 9 \/ m = 10 \/ m = 11 \/ m = 12) by lia.
      destruct Hc as [->|[->|[->|[->|[->|[->|[->|[->|[->|[->|[->| ->]]]]]]]]]]]; norm_text Hread; cbn in Hread;
        (revert Hread; destruct (starts_ok rest); intros Hread; [|discriminate Hread]); apply Some_inj in Hread; subst wr; reflexivity. }
    subst wr. cbn [w_ok simple_code Z.eqb Pos.eqb]. split; [lia|]. gv Ed. unfold dn_month. rewrite Eymd. reflexivity.
  - (* WdayAbbr *)
    destruct (sv_dn sv) as [dn|] eqn:Ed; [|discriminate Hr]. pose proof (weekday_of_dn_bounds dn) as Bw.
    apply ROk_inj in Hr. subst t. set (wd := weekday_of_dn dn) in *.
    assert (Hw : wr = W_weekday wd).
    { assert (Hc : wd = 0 \/ wd = 1 \/ wd = 2 \/ wd = 3 \/ wd = 4 \/ wd = 5 \/ wd = 6) by lia. clearbody wd.
      destruct Hc as [->|[->|[->|[->|[->|[->| ->]]]]]]; norm_text Hread; cbn in Hread;
        (revert Hread; destruct (starts_ok rest); intros Hread; [|discriminate Hread]); apply Some_inj in Hread; subst wr; reflexivity. }
    subst wr. cbn [w_ok]. gv Ed. reflexivity.
  - (* WdayFull *)
    destruct (sv_dn sv) as [dn|] eqn:Ed; [|discriminate Hr]. pose proof (weekday_of_dn_bounds dn) as Bw.
    apply ROk_inj in Hr. subst t. set (wd := weekday_of_dn dn) in *.
    assert (Hw : wr = W_weekday wd).
    { assert (Hc : wd = 0 \/ wd = 1 \/ wd = 2 \/ wd = 3 \/ wd = 4 \/ wd = 5 \/ wd = 6) by lia. clearbody wd.
      destruct Hc as [->|[->|[->|[->|[->|[->| ->]]]]]]; norm_text Hread; cbn in Hread;
        (revert Hread; destruct (starts_ok rest); intros Hread; [|discriminate Hread]); apply Some_inj in Hread; subst wr; reflexivity. }
    subst wr. cbn [w_ok]. gv Ed. reflexivity.
  - (* AmPmLower *)
    destruct (sv_sod sv) as [s|] eqn:Es; [|discriminate Hr]. pose proof (Bt s eq_refl) as B7. apply ROk_inj in Hr. subst t.
    destruct (s <? 43200) eqn:E; cbn in Hread; (revert Hread; destruct (starts_ok rest); intros Hread; [|discriminate Hread]);
      apply Some_inj in Hread; subst wr; cbn [w_ok]; unfold gview; rewrite Es; cbn [pget p_hour_div_12]; f_equal; lia.
  - (* AmPmUpper *)
    destruct (sv_sod sv) as [s|] eqn:Es; [|discriminate Hr]. pose proof (Bt s eq_refl) as B7. apply ROk_inj in Hr. subst t.
    destruct (s <? 43200) eqn:E; cbn in Hread; (revert Hread; destruct (starts_ok rest); intros Hread; [|discriminate Hread]);
      apply Some_inj in Hread; subst wr; cbn [w_ok]; unfold gview; rewrite Es; cbn [pget p_hour_div_12]; f_equal; lia.
  - (* FracAuto *)
    destruct (sv_sod sv) as [s|] eqn:Es; [|discriminate Hr]. apply ROk_inj in Hr. subst t.
    cbn [frac_of] in Hnano. set (n := sv_nano sv) in *.
    destruct (n =? 0) eqn:E0.
    { cbn [reads_fixed] in Hread. revert Hread; destruct (starts_with_byte rest 46); intros Hread; [discriminate Hread|].
      apply Some_inj in Hread. subst wr. exact I. }
    assert (Hon : on = Some n) by (destruct Hnano as [Hc|Hc]; [discriminate Hc|symmetry; exact Hc]).
    assert (Hgo : forall k, 1 <= k <= 9 -> n mod 10 ^ (9 - k) = 0 ->
              reads_fixed F_Nanosecond (46 :: frac_digits n k) rest = Some wr -> w_ok (gview sv on) wr).
    { intros k Hk Hdiv H. rewrite frac_digits_pad in H.
      apply (dotfrac_value F_Nanosecond k _ rest wr (or_introl eq_refl) Hk (frac_x_bounds n k Bn ltac:(lia))) in H.
      subst wr. cbn [w_ok simple_code Z.eqb Pos.eqb].
      assert (Hpos : 0 < 10 ^ (9 - k)) by (apply Z.pow_pos_nonneg; lia).
      assert (Hv : n / 10 ^ (9 - k) * 10 ^ (9 - k) = n).
      { pose proof (Z.div_mod n (10 ^ (9 - k)) ltac:(lia)) as Hdm. rewrite Hdiv in Hdm. lia. }
      rewrite Hv. split; [lia|]. unfold gview. rewrite Es. cbn [pget p_nanosecond]. exact Hon. }
    destruct (n mod 1000000 =? 0) eqn:E1; [|destruct (n mod 1000 =? 0) eqn:E2].
    + apply (Hgo 3); [lia|change (10 ^ (9 - 3)) with 1000000; lia|exact Hread].
    + apply (Hgo 6); [lia|change (10 ^ (9 - 6)) with 1000; lia|exact Hread].
    + apply (Hgo 9); [lia|change (10 ^ (9 - 9)) with 1; lia|exact Hread].
  - (* Frac k dot *)
    destruct (sv_sod sv) as [s|] eqn:Es; [|discriminate Hr]. apply ROk_inj in Hr. subst t.
    cbn [frac_of] in Hnano. cbn [tfield_supported] in Hsup. set (n := sv_nano sv) in *.
    assert (Hk : digits = 3 \/ digits = 6 \/ digits = 9) by lia.
    assert (Hon : on = Some (n / 10 ^ (9 - digits) * 10 ^ (9 - digits)))
      by (destruct Hnano as [Hc|Hc]; [discriminate Hc|symmetry; exact Hc]).
    pose proof (frac_x_bounds n digits Bn ltac:(lia)) as Hx.
    pose proof (pow_split digits ltac:(lia)) as Hp.
    assert (Hpos : 0 < 10 ^ (9 - digits)) by (apply Z.pow_pos_nonneg; lia).
    assert (Hrange : 0 <= n / 10 ^ (9 - digits) * 10 ^ (9 - digits) <= 999999999).
    { split; [apply Z.mul_nonneg_nonneg; lia|].
      pose proof (Z.mul_div_le n (10 ^ (9 - digits)) Hpos). lia. }
    assert (Hw : wr = W_code 19 (n / 10 ^ (9 - digits) * 10 ^ (9 - digits))).
    { destruct dot.
      - cbn [app] in Hread. rewrite frac_digits_pad in Hread.
        apply (dotfrac_value _ digits _ rest wr) in Hread; [exact Hread| |lia|exact Hx].
        destruct Hk as [->|[->| ->]]; unfold dot_frac_spec; cbn [Z.eqb Pos.eqb]; auto.
      - cbn [app] in Hread. rewrite frac_digits_pad in Hread.
        destruct (pad0_digits digits _ ltac:(lia) Hx) as (Hd & Hl & Hv).
        destruct Hk as [->|[->| ->]]; cbn [Z.eqb Pos.eqb reads_fixed fixed_idx internal_idx zassoc P_NODOT] in Hread;
          unfold all_dig in Hread; rewrite Hd, Hl, Hv in Hread; cbn [Z.eqb Pos.eqb Z.leb Z.compare Pos.compare Pos.compare_cont andb] in Hread;
          (revert Hread; destruct (utf8_valid rest); intros Hread; [|discriminate Hread]); apply Some_inj in Hread; subst wr; reflexivity. }
    subst wr. cbn [w_ok simple_code Z.eqb Pos.eqb]. split; [exact Hrange|].
    unfold gview. rewrite Es. cbn [pget p_nanosecond]. exact Hon.
  - (* Off *)
    destruct (sv_off sv) as [o|] eqn:Eo; [|discriminate Hr]. apply ROk_inj in Hr. subst t.
    pose proof (Bo o eq_refl) as Hb. pose proof (Hmin o eq_refl) as Hm.
    change F_TimezoneOffset with (off_item false) in Hread. rewrite (offset_reads_eq false o rest Hb Hm) in Hread.
    revert Hread. destruct (utf8_valid rest); intros Hread; [|discriminate Hread]. apply Some_inj in Hread. subst wr.
    cbn [w_ok simple_code Z.eqb Pos.eqb]. split; [unfold i32_min, i32_max; lia|].
    unfold gview. rewrite Eo. cbn [pget p_offset]. replace (o mod 60 =? 0) with true by lia. reflexivity.
  - (* OffColon *)
    destruct (sv_off sv) as [o|] eqn:Eo; [|discriminate Hr]. apply ROk_inj in Hr. subst t.
    pose proof (Bo o eq_refl) as Hb. pose proof (Hmin o eq_refl) as Hm.
    change F_TimezoneOffsetColon with (off_item true) in Hread. rewrite (offset_reads_eq true o rest Hb Hm) in Hread.
    revert Hread. destruct (utf8_valid rest); intros Hread; [|discriminate Hread]. apply Some_inj in Hread. subst wr.
    cbn [w_ok simple_code Z.eqb Pos.eqb]. split; [unfold i32_min, i32_max; lia|].
    unfold gview. rewrite Eo. cbn [pget p_offset]. replace (o mod 60 =? 0) with true by lia. reflexivity.
Qed.

(** * E. items, their documented renderings, and the value lemma for every supported item *)
Definition nfield_of (spec : Numeric) : option nfield :=
  match spec with
  | N_Year => Some NYear | N_YearDiv100 => Some NCentury | N_YearMod100 => Some NYearMod100
  | N_IsoYear => Some NIsoYear | N_IsoYearDiv100 => None | N_IsoYearMod100 => Some NIsoYearMod100
  | N_Quarter => Some NQuarter | N_Month => Some NMonth | N_Day => Some NDay
  | N_WeekFromSun => Some NWeekSun | N_WeekFromMon => Some NWeekMon | N_IsoWeek => Some NIsoWeek
  | N_NumDaysFromSun => Some NWdaySun0 | N_WeekdayFromMon => Some NWdayMon1 | N_Ordinal => Some NOrdinal
  | N_Hour => Some NHour | N_Hour12 => Some NHour12 | N_Minute => Some NMinute | N_Second => Some NSecond
  | N_Nanosecond => Some NNanos | N_Timestamp => None
  end.
Definition dpad_of (p : Pad) : dpad := match p with PadNone => DNone | PadZero => DZero | PadSpace => DSpace end.
Definition tfield_of (spec : Fixed) : option tfield :=
  match spec with
  | F_ShortMonthName => Some TMonthAbbr | F_LongMonthName => Some TMonthFull
  | F_ShortWeekdayName => Some TWdayAbbr | F_LongWeekdayName => Some TWdayFull
  | F_LowerAmPm => Some TAmPmLower | F_UpperAmPm => Some TAmPmUpper
  | F_Nanosecond => Some TFracAuto
  | F_Nanosecond3 => Some (TFrac 3 true) | F_Nanosecond6 => Some (TFrac 6 true) | F_Nanosecond9 => Some (TFrac 9 true)
  | F_Internal I_Nanosecond3NoDot => Some (TFrac 3 false) | F_Internal I_Nanosecond6NoDot => Some (TFrac 6 false)
  | F_Internal I_Nanosecond9NoDot => Some (TFrac 9 false)
  | F_TimezoneOffset => Some TOff | F_TimezoneOffsetColon => Some TOffColon
  | _ => None
  end.

(* the documented rendering of an item for the value; [None]: unsupported item kind, a field the
   value does not have, or no documented claim (two-digit year of a negative year) *)
Definition doc_render (sv : sval) (it : Item) : option bytes :=
  match it with
  | Literal s | Space s => Some s
  | INumeric spec pad =>
      match nfield_of spec with
      | Some f => match render_num sv f (dpad_of pad) with ROk t => Some t | _ => None end
      | None => None
      end
  | IFixed spec =>
      match tfield_of spec with
      | Some f => match render_fix sv f with ROk t => Some t | _ => None end
      | None => None
      end
  | IError => None
  end.
(* the nanosecond field the item writes for this value, if any *)
Definition item_frac (sv : sval) (it : Item) : option Z :=
  match it with
  | INumeric N_Nanosecond _ => Some (sv_nano sv)
  | IFixed spec => match tfield_of spec with Some f => frac_of sv f | None => None end
  | _ => None
  end.
Definition doc_item (sv : sval) (on : option Z) (it : Item) (t : bytes) : Prop :=
  doc_render sv it = Some t /\ (item_frac sv it = None \/ item_frac sv it = on).

Lemma doc_render_renders a sv it t : Proofs.C12.args_view a sv -> doc_render sv it = Some t -> renders a it t.
Proof.
  intros V H. unfold renders. destruct it as [l|l|spec pad|spec|]; cbn [doc_render Model.Format.format_item] in *.
  - apply Some_inj in H. subst t. reflexivity.
  - apply Some_inj in H. subst t. reflexivity.
  - destruct (nfield_of spec) as [f|] eqn:Ef; [|discriminate H].
    destruct (render_num sv f (dpad_of pad)) as [s| |] eqn:Er; try discriminate H. apply Some_inj in H. subst s.
    pose proof (Proofs.C12.render_numeric_spec a sv f (dpad_of pad) V) as C. rewrite Er in C. cbn [Proofs.C12.claim] in C.
    assert (E1 : Proofs.C12.numeric_of f = spec) by (destruct spec; try discriminate Ef; apply Some_inj in Ef; subst f; reflexivity).
    assert (E2 : Proofs.C12.pad_of (dpad_of pad) = pad) by (destruct pad; reflexivity).
    rewrite E1, E2 in C. exact C.
  - destruct (tfield_of spec) as [f|] eqn:Ef; [|discriminate H].
    destruct (render_fix sv f) as [s| |] eqn:Er; try discriminate H. apply Some_inj in H. subst s.
    assert (Hdoc : Proofs.C12.tfield_documented f).
    { destruct spec as [ | | | | | | | | | | | | | | | | | | | i]; try discriminate Ef; try (apply Some_inj in Ef; subst f; cbn; auto; fail).
      destruct i; try discriminate Ef; apply Some_inj in Ef; subst f; cbn; auto. }
    pose proof (Proofs.C12.render_fixed_spec a sv f V Hdoc) as C. rewrite Er in C. cbn [Proofs.C12.claim] in C.
    assert (E1 : Proofs.C12.fixed_of f = spec).
    { destruct spec as [ | | | | | | | | | | | | | | | | | | | i]; try discriminate Ef; try (apply Some_inj in Ef; subst f; reflexivity).
      destruct i; try discriminate Ef; apply Some_inj in Ef; subst f; reflexivity. }
    rewrite E1 in C. exact C.
  - discriminate H.
Qed.

Theorem item_value sv on it t rest w : sv_bounds sv -> (forall o, sv_off sv = Some o -> o mod 60 = 0) ->
  doc_item sv on it t -> reads_b it t rest = Some w -> w_ok (gview sv on) w.
Proof.
  intros Bsv Hmin [H Hfr] Hread. destruct it as [l|l|spec pad|spec|]; cbn [doc_render reads_b item_frac] in *.
  - revert Hread. destruct (bytes_eqb t l && starts_ok rest); intros Hread; [|discriminate Hread].
    apply Some_inj in Hread. subst w. exact I.
  - revert Hread. destruct (forallb ws_byte t && negb (starts_ws rest)); intros Hread; [|discriminate Hread].
    apply Some_inj in Hread. subst w. exact I.
  - destruct (nfield_of spec) as [f|] eqn:Ef; [|discriminate H].
    destruct (render_num sv f (dpad_of pad)) as [s| |] eqn:Er; try discriminate H. apply Some_inj in H. subst s.
    assert (E1 : Proofs.C12.numeric_of f = spec) by (destruct spec; try discriminate Ef; apply Some_inj in Ef; subst f; reflexivity).
    rewrite <- E1 in Hread.
    apply (num_w_ok sv on f (dpad_of pad) t rest w Bsv); try assumption.
    + destruct spec; try discriminate Ef; apply Some_inj in Ef; subst f; reflexivity.
    + intros ->. destruct spec; try discriminate Ef. cbn [item_frac] in Hfr.
      destruct Hfr as [Hc|Hc]; [discriminate Hc|symmetry; exact Hc].
  - destruct (tfield_of spec) as [f|] eqn:Ef; [|discriminate H].
    destruct (render_fix sv f) as [s| |] eqn:Er; try discriminate H. apply Some_inj in H. subst s.
    assert (E1 : Proofs.C12.fixed_of f = spec).
    { destruct spec as [ | | | | | | | | | | | | | | | | | | | i]; try discriminate Ef; try (apply Some_inj in Ef; subst f; reflexivity).
      destruct i; try discriminate Ef; apply Some_inj in Ef; subst f; reflexivity. }
    rewrite <- E1 in Hread.
    apply (fix_w_ok sv on f t rest w Bsv Hmin); try assumption.
    destruct spec as [ | | | | | | | | | | | | | | | | | | | i]; try discriminate Ef; try (apply Some_inj in Ef; subst f; reflexivity).
    destruct i; try discriminate Ef; apply Some_inj in Ef; subst f; reflexivity.
  - discriminate H.
Qed.

(* over an item list *)
Theorem ws_value sv on : sv_bounds sv -> (forall o, sv_off sv = Some o -> o mod 60 = 0) -> forall items texts tail ws,
  Forall2 (doc_item sv on) items texts -> unambiguous_b (combine items texts) tail = Some ws ->
  Forall (w_ok (gview sv on)) ws.
Proof.
  intros Bsv Hmin. induction items as [|it r IH]; intros texts tail ws HF HU; inversion HF as [|? t ? ts Hd Hr]; subst.
  - cbn in HU. apply Some_inj in HU. subst ws. constructor.
  - cbn [combine unambiguous_b] in HU.
    destruct (reads_b it t (text_of (combine r ts) ++ tail)) as [w|] eqn:Ew; [|discriminate HU].
    destruct (unambiguous_b (combine r ts) tail) as [ws'|] eqn:Er; [|discriminate HU].
    apply Some_inj in HU. subst ws. constructor.
    + exact (item_value sv on it t _ w Bsv Hmin Hd Ew).
    + exact (IH ts tail ws' Hr Er).
Qed.

(** ** white space in the format may take the space padding of the next field with it
    ([unambiguous_ws_b] = [unambiguous_b] after [absorb]): the re-attributed pairs are still safe *)
Lemma split_ws_app_ws pre t : ascii_ws pre -> split_ws (pre ++ t) = (pre ++ fst (split_ws t), snd (split_ws t)).
Proof.
  intros H. induction H as [|c r [Hc Hw] _ IH]; cbn [app]; [destruct (split_ws t); reflexivity|].
  cbn [split_ws]. assert (E : ws_byte c = true) by (unfold ws_byte; rewrite Hw; lia). rewrite E, IH. reflexivity.
Qed.
Lemma reads_numeric_strip spec pre t rest : ascii_ws pre -> reads_numeric spec (pre ++ t) rest = reads_numeric spec t rest.
Proof.
  intros H. unfold reads_numeric. rewrite (split_ws_app_ws pre t H). destruct (split_ws t) as [a b]. reflexivity.
Qed.

(* whatever the reader recognises in the text of the pair is a field of the value *)
Definition safe_pair (sv : sval) (on : option Z) (x : Item * bytes) : Prop :=
  forall rest w, reads_b (fst x) (snd x) rest = Some w -> w_ok (gview sv on) w.
Lemma safe_list sv on : forall l tail ws, Forall (safe_pair sv on) l -> unambiguous_b l tail = Some ws ->
  Forall (w_ok (gview sv on)) ws.
Proof.
  induction l as [|[it t] r IH]; intros tail ws HS HU; inversion HS as [|? ? Hx Hr]; subst.
  - cbn in HU. apply Some_inj in HU. subst ws. constructor.
  - cbn [unambiguous_b] in HU. destruct (reads_b it t (text_of r ++ tail)) as [w|] eqn:Ew; [|discriminate HU].
    destruct (unambiguous_b r tail) as [ws'|] eqn:Er; [|discriminate HU]. apply Some_inj in HU. subst ws.
    constructor; [exact (Hx _ w Ew)|exact (IH tail ws' Hr Er)].
Qed.

(* a pair of the absorbed list: a white-space item, or an item with its documented rendering minus
   leading ASCII white space *)
Definition doc_pair (sv : sval) (on : option Z) (x : Item * bytes) : Prop :=
  (exists s, fst x = Space s) \/ (exists pre t0, doc_item sv on (fst x) t0 /\ t0 = pre ++ snd x /\ ascii_ws pre).

Lemma ascii_ws_app a b : ascii_ws a -> ascii_ws b -> ascii_ws (a ++ b).
Proof. intros Ha Hb. apply Forall_app. split; assumption. Qed.

Lemma absorb_doc sv on : forall l, Forall (doc_pair sv on) l -> Forall (doc_pair sv on) (absorb l).
Proof.
  induction l as [|[it t] r IH]; intros H; inversion H as [|? ? Hx Hr]; subst; [constructor|].
  specialize (IH Hr). cbn [absorb].
  destruct it as [l0|s|spec pad|spec|]; try (constructor; assumption).
  destruct (absorb r) as [|[it2 t2] r'] eqn:Ea; [constructor; [exact Hx|constructor]|].
  inversion IH as [|? ? Hx2 Hr2]; subst.
  destruct (split_ws_spec t2) as [Ht2 Hpre]. destruct (split_ws t2) as [wsp body]. cbn [fst snd] in Ht2, Hpre.
  constructor; [left; eexists; reflexivity|]. constructor; [|exact Hr2].
  destruct Hx2 as [[s2 E2]|(pre & t0 & Hd & Et & Hp)]; [left; exists s2; exact E2|].
  right. cbn [fst snd] in *. exists (pre ++ wsp), t0. split; [exact Hd|]. split; [|apply ascii_ws_app; assumption].
  rewrite Et, Ht2, app_assoc. reflexivity.
Qed.

(* the first byte of the documented rendering of a fixed item is never white space *)
Lemma fix_text_nows sv f t pre t' : sv_bounds sv -> tfield_supported f = true -> render_fix sv f = ROk t ->
  t = pre ++ t' -> ascii_ws pre -> pre = [].
Proof.
  intros [Bd Bt Bn Bo] Hsup Hr Et Hp. destruct pre as [|c pre']; [reflexivity|exfalso].
  pose proof (Forall_inv Hp) as [Hc Hw]. cbn [app] in Et. unfold render_fix in Hr.
  assert (Hhead : forall x r, t = x :: r -> is_whitespace x = false -> False).
  { intros x r E Hx. rewrite E in Et. injection Et as -> _. congruence. }
  destruct f; try discriminate Hsup.
  - destruct (sv_dn sv) as [dn|] eqn:Ed; [|discriminate Hr]. destruct (Bd dn eq_refl) as (_ & _ & B3 & _). unfold dn_month in B3.
    destruct (ymd_of_dn dn) as [[yy m] dd] eqn:Eymd. cbn [fst snd] in B3. apply ROk_inj in Hr.
    assert (Hc12 : m = 1 \/ m = 2 \/ m = 3 \/ m = 4 \/ m = 5 \/ m = 6 \/ m = 7 \/ m = 8 \/ m = 9 \/ m = 10 \/ m = 11 \/ m = 12) by lia.
    destruct Hc12 as [->|[->|[->|[->|[->|[->|[->|[->|[->|[->|[->| ->]]]]]]]]]]]; vm_compute in Hr; eapply Hhead; try (symmetry; exact Hr); reflexivity.
  - destruct (sv_dn sv) as [dn|] eqn:Ed; [|discriminate Hr]. destruct (Bd dn eq_refl) as (_ & _ & B3 & _). unfold dn_month in B3.
    destruct (ymd_of_dn dn) as [[yy m] dd] eqn:Eymd. cbn [fst snd] in B3. apply ROk_inj in Hr.
    assert (Hc12 : m = 1 \/ m = 2 \/ m = 3 \/ m = 4 \/ m = 5 \/ m = 6 \/ m = 7 \/ m = 8 \/ m = 9 \/ m = 10 \/ m = 11 \/ m = 12) by lia.
    destruct Hc12 as [->|[->|[->|[->|[->|[->|[->|[->|[->|[->|[->| ->]]]]]]]]]]]; vm_compute in Hr; eapply Hhead; try (symmetry; exact Hr); reflexivity.
  - destruct (sv_dn sv) as [dn|] eqn:Ed; [|discriminate Hr]. pose proof (weekday_of_dn_bounds dn) as Bw.
    apply ROk_inj in Hr. set (wd := weekday_of_dn dn) in *.
    assert (Hc7 : wd = 0 \/ wd = 1 \/ wd = 2 \/ wd = 3 \/ wd = 4 \/ wd = 5 \/ wd = 6) by lia. clearbody wd.
    destruct Hc7 as [->|[->|[->|[->|[->|[->| ->]]]]]]; vm_compute in Hr; eapply Hhead; try (symmetry; exact Hr); reflexivity.
  - destruct (sv_dn sv) as [dn|] eqn:Ed; [|discriminate Hr]. pose proof (weekday_of_dn_bounds dn) as Bw.
    apply ROk_inj in Hr. set (wd := weekday_of_dn dn) in *.
    assert (Hc7 : wd = 0 \/ wd = 1 \/ wd = 2 \/ wd = 3 \/ wd = 4 \/ wd = 5 \/ wd = 6) by lia. clearbody wd.
    destruct Hc7 as [->|[->|[->|[->|[->|[->| ->]]]]]]; vm_compute in Hr; eapply Hhead; try (symmetry; exact Hr); reflexivity.
  - destruct (sv_sod sv) as [s|]; [|discriminate Hr]. apply ROk_inj in Hr.
    destruct (s <? 43200); vm_compute in Hr; eapply Hhead; try (symmetry; exact Hr); reflexivity.
  - destruct (sv_sod sv) as [s|]; [|discriminate Hr]. apply ROk_inj in Hr.
    destruct (s <? 43200); vm_compute in Hr; eapply Hhead; try (symmetry; exact Hr); reflexivity.
  - destruct (sv_sod sv) as [s|]; [|discriminate Hr]. apply ROk_inj in Hr. rewrite Et in Hr.
    destruct (sv_nano sv =? 0); [discriminate Hr|].
    destruct (sv_nano sv mod 1000000 =? 0); [|destruct (sv_nano sv mod 1000 =? 0)]; injection Hr as Hx _; subst c; discriminate Hw.
  - destruct (sv_sod sv) as [s|]; [|discriminate Hr]. apply ROk_inj in Hr. rewrite Et in Hr.
    cbn [tfield_supported] in Hsup. destruct dot; cbn [app] in Hr.
    + injection Hr as Hx _. subst c. discriminate Hw.
    + rewrite frac_digits_pad in Hr.
      destruct (pad0_digits digits (sv_nano sv / 10 ^ (9 - digits)) ltac:(lia) (frac_x_bounds (sv_nano sv) digits Bn ltac:(lia))) as (Hd & _).
      rewrite Hr in Hd. cbn [forallb] in Hd. apply andb_prop in Hd. destruct Hd as [Hd _].
      pose proof (digit_range c Hd). unfold is_whitespace in Hw. lia.
  - destruct (sv_off sv) as [o|]; [|discriminate Hr]. apply ROk_inj in Hr. rewrite Et in Hr.
    rewrite Proofs.C12.offset_text_unfold in Hr. cbv zeta in Hr. cbn [app] in Hr. injection Hr as Hx _.
    unfold Proofs.C12.off_sign in Hx. destruct (o <? 0); subst c; discriminate Hw.
  - destruct (sv_off sv) as [o|]; [|discriminate Hr]. apply ROk_inj in Hr. rewrite Et in Hr.
    rewrite Proofs.C12.offset_text_unfold in Hr. cbv zeta in Hr. cbn [app] in Hr. injection Hr as Hx _.
    unfold Proofs.C12.off_sign in Hx. destruct (o <? 0); subst c; discriminate Hw.
Qed.

Lemma doc_pair_safe sv on x : sv_bounds sv -> (forall o, sv_off sv = Some o -> o mod 60 = 0) ->
  doc_pair sv on x -> safe_pair sv on x.
Proof.
  intros Bsv Hmin [[s E]|(pre & t0 & Hd & Et & Hp)] rest w Hread; destruct x as [it t]; cbn [fst snd] in *.
  - subst it. cbn [reads_b] in Hread. revert Hread. destruct (_ && _); intros Hread; [|discriminate Hread].
    apply Some_inj in Hread. subst w. exact I.
  - destruct it as [l|l|spec pad|spec|].
    + cbn [reads_b] in Hread. revert Hread. destruct (_ && _); intros Hread; [|discriminate Hread].
      apply Some_inj in Hread. subst w. exact I.
    + cbn [reads_b] in Hread. revert Hread. destruct (_ && _); intros Hread; [|discriminate Hread].
      apply Some_inj in Hread. subst w. exact I.
    + apply (item_value sv on (INumeric spec pad) t0 rest w Bsv Hmin Hd). cbn [reads_b] in *.
      rewrite Et, reads_numeric_strip by exact Hp. exact Hread.
    + assert (pre = []).
      { destruct Hd as [Hd _]. cbn [doc_render] in Hd. destruct (tfield_of spec) as [f|] eqn:Ef; [|discriminate Hd].
        destruct (render_fix sv f) as [x| |] eqn:Er; try discriminate Hd. apply Some_inj in Hd. subst x.
        assert (Hsup : tfield_supported f = true).
        { destruct spec as [ | | | | | | | | | | | | | | | | | | | i]; try discriminate Ef; try (apply Some_inj in Ef; subst f; reflexivity).
          destruct i; try discriminate Ef; apply Some_inj in Ef; subst f; reflexivity. }
        exact (fix_text_nows sv f t0 pre t Bsv Hsup Er Et Hp). }
      subst pre. cbn [app] in Et. subst t0. exact (item_value sv on (IFixed spec) t rest w Bsv Hmin Hd Hread).
    + destruct Hd as [Hd _]. discriminate Hd.
Qed.

Lemma doc_pairs_of sv on : forall items texts, Forall2 (doc_item sv on) items texts ->
  Forall (doc_pair sv on) (combine items texts).
Proof.
  induction 1 as [|it t r ts Hd _ IH]; [constructor|]. cbn [combine]. constructor; [|exact IH].
  right. exists [], t. split; [exact Hd|]. split; [reflexivity|constructor].
Qed.

(* the reader takes the text back, white space of the format absorbing padding or not *)
Definition reader_takes (l : list (Item * bytes)) (ws : list write) : Prop :=
  unambiguous_b l [] = Some ws \/ unambiguous_ws_b l [] = Some ws.
Lemma reader_takes_parse l ws p : reader_takes l ws -> parse p (text_of l) (map fst l) = run_writes ws p.
Proof. intros [H|H]; [exact (unambiguous_parse l ws p H)|exact (unambiguous_ws_parse l ws p H)]. Qed.
Theorem ws_value_any sv on : sv_bounds sv -> (forall o, sv_off sv = Some o -> o mod 60 = 0) -> forall items texts ws,
  Forall2 (doc_item sv on) items texts -> reader_takes (combine items texts) ws -> Forall (w_ok (gview sv on)) ws.
Proof.
  intros Bsv Hmin items texts ws HF [HU|HU]; [exact (ws_value sv on Bsv Hmin items texts [] ws HF HU)|].
  unfold unambiguous_ws_b in HU. apply (safe_list sv on (absorb (combine items texts)) [] ws); [|exact HU].
  pose proof (absorb_doc sv on _ (doc_pairs_of sv on items texts HF)) as HD.
  rewrite Forall_forall in *. intros x Hin. exact (doc_pair_safe sv on x Bsv Hmin (HD x Hin)).
Qed.

Lemma doc_items_render a sv on items texts : Proofs.C12.args_view a sv ->
  Forall2 (doc_item sv on) items texts -> Forall2 (renders a) items texts.
Proof.
  intros V H. induction H as [|it t r ts [Hd _] _ IH]; constructor; [|exact IH].
  exact (doc_render_renders a sv it t V Hd).
Qed.

(** * F. sufficient combinations, decided on the field record the reader builds *)
Definition some_b (o : option Z) : bool := match o with Some _ => true | None => false end.
(* a year group is determinate: the full year, or century and two-digit year, or the two-digit
   year alone when the actual year [Y] is in the pivot window 1970..=2069 *)
Definition det_b (Y : Z) (y q r : option Z) : bool :=
  some_b y || (some_b q && some_b r) || (negb (some_b q) && some_b r && (1970 <=? Y) && (Y <=? 2069)).
Definition grp_b (Y : Z) (y q r : option Z) : bool := (negb (some_b y) && negb (some_b q) && negb (some_b r)) || det_b Y y q r.
Definition date_comb_b (Y IY : Z) (p : parsed) : bool :=
  let yd := det_b Y (p_year p) (p_year_div_100 p) (p_year_mod_100 p) in
  let idt := det_b IY (p_isoyear p) (p_isoyear_div_100 p) (p_isoyear_mod_100 p) in
  grp_b Y (p_year p) (p_year_div_100 p) (p_year_mod_100 p) &&
  grp_b IY (p_isoyear p) (p_isoyear_div_100 p) (p_isoyear_mod_100 p) &&
  ((yd && some_b (p_month p) && some_b (p_day p)) || (yd && some_b (p_ordinal p))
   || (yd && some_b (p_week_from_sun p) && some_b (p_weekday p))
   || (yd && some_b (p_week_from_mon p) && some_b (p_weekday p))
   || (idt && some_b (p_isoweek p) && some_b (p_weekday p))).
Definition time_comb_b (p : parsed) : bool :=
  some_b (p_hour_div_12 p) && some_b (p_hour_mod_12 p) && some_b (p_minute p) &&
  (negb (some_b (p_nanosecond p)) || some_b (p_second p)).

Lemma some_b_true o : some_b o = true -> o <> None.
Proof. destruct o; [discriminate|discriminate]. Qed.
Lemma some_b_false o : some_b o = false -> o = None.
Proof. destruct o; [discriminate|reflexivity]. Qed.
Lemma det_b_sound Y y q r : det_b Y y q r = true -> Proofs.C14.determinate Y y q r.
Proof.
  unfold det_b. intros H. apply orb_prop in H. destruct H as [H|H]; [apply orb_prop in H; destruct H as [H|H]|].
  - left. apply some_b_true. exact H.
  - apply andb_prop in H. destruct H as [H1 H2]. right. left. split; apply some_b_true; assumption.
  - apply andb_prop in H. destruct H as [H H4]. apply andb_prop in H. destruct H as [H H3].
    apply andb_prop in H. destruct H as [H1 H2]. right. right.
    split; [apply some_b_false; destruct (some_b q); [discriminate H1|reflexivity]|]. split; [apply some_b_true; exact H2|lia].
Qed.
Lemma grp_b_sound Y y q r : grp_b Y y q r = true -> Proofs.C14Date.group_ok Y y q r.
Proof.
  unfold grp_b. intros H. apply orb_prop in H. destruct H as [H|H].
  - left. apply andb_prop in H. destruct H as [H H3]. apply andb_prop in H. destruct H as [H1 H2].
    repeat split; apply some_b_false; [destruct (some_b y)|destruct (some_b q)|destruct (some_b r)]; try reflexivity; discriminate.
  - right. apply det_b_sound. exact H.
Qed.
Lemma date_comb_sound Y IY p : date_comb_b Y IY p = true ->
  Proofs.C14Date.group_ok Y (p_year p) (p_year_div_100 p) (p_year_mod_100 p) /\
  Proofs.C14Date.group_ok IY (p_isoyear p) (p_isoyear_div_100 p) (p_isoyear_mod_100 p) /\
  Proofs.C14Date.combination_present Y IY p.
Proof.
  unfold date_comb_b. cbv zeta. intros H. apply andb_prop in H. destruct H as [H HC]. apply andb_prop in H. destruct H as [G1 G2].
  split; [exact (grp_b_sound Y _ _ _ G1)|]. split; [exact (grp_b_sound IY _ _ _ G2)|].
  unfold Proofs.C14Date.combination_present, Proofs.C14Date.year_determinate.
  repeat (apply orb_prop in HC; destruct HC as [HC|HC]).
  - apply andb_prop in HC. destruct HC as [HC H3]. apply andb_prop in HC. destruct HC as [H1 H2].
    left. split; [exact (det_b_sound Y _ _ _ H1)|split; apply some_b_true; assumption].
  - apply andb_prop in HC. destruct HC as [H1 H2].
    right. left. split; [exact (det_b_sound Y _ _ _ H1)|apply some_b_true; assumption].
  - apply andb_prop in HC. destruct HC as [HC H3]. apply andb_prop in HC. destruct HC as [H1 H2].
    right. right. left. split; [exact (det_b_sound Y _ _ _ H1)|split; apply some_b_true; assumption].
  - apply andb_prop in HC. destruct HC as [HC H3]. apply andb_prop in HC. destruct HC as [H1 H2].
    right. right. right. left. split; [exact (det_b_sound Y _ _ _ H1)|split; apply some_b_true; assumption].
  - apply andb_prop in HC. destruct HC as [HC H3]. apply andb_prop in HC. destruct HC as [H1 H2].
    right. right. right. right. split; [exact (det_b_sound IY _ _ _ H1)|split; apply some_b_true; assumption].
Qed.

(** * G. the general round trips *)
Definition sv_of_date (dn : Z) : sval := mk_sval (Some dn) None 0 false None false None.
Definition sv_of_time (t : Model.Time.ntime) : sval :=
  mk_sval None (Some (Model.Time.tsecs t)) (Model.Time.tfrac t mod 1000000000) (1000000000 <=? Model.Time.tfrac t) None false None.
Definition sv_of_ndt (dn : Z) (t : Model.Time.ntime) : sval :=
  mk_sval (Some dn) (Some (Model.Time.tsecs t)) (Model.Time.tfrac t mod 1000000000) (1000000000 <=? Model.Time.tfrac t)
          None false (Some (unix_secs dn (Model.Time.tsecs t))).

Lemma time_view_valid t : valid_time t ->
  Proofs.C12.time_view t (Model.Time.tsecs t) (Model.Time.tfrac t mod 1000000000) (1000000000 <=? Model.Time.tfrac t).
Proof.
  intros [Hs Hf]. unfold Proofs.C12.time_view. split; [reflexivity|]. split; [exact Hs|]. split; [lia|].
  destruct (1000000000 <=? Model.Time.tfrac t) eqn:E; lia.
Qed.
Lemma args_view_date y o d : Proofs.C08Sweeps.repr y o d ->
  Proofs.C12.args_view (Model.Format.fa_of_date d) (sv_of_date (dn_of_yo y o)).
Proof.
  intros H. constructor; cbn [Model.Format.fa_of_date Model.Format.fa_date Model.Format.fa_time Model.Format.fa_off
    sv_of_date sv_dn sv_sod sv_off sv_unix]; auto. apply Proofs.C12View.date_view_of_repr. exact H.
Qed.
Lemma args_view_time t : valid_time t -> Proofs.C12.args_view (Model.Format.fa_of_time t) (sv_of_time t).
Proof.
  intros H. constructor; cbn [Model.Format.fa_of_time Model.Format.fa_date Model.Format.fa_time Model.Format.fa_off
    sv_of_time sv_dn sv_sod sv_nano sv_leap sv_off sv_unix]; auto. apply time_view_valid. exact H.
Qed.
Lemma args_view_ndt y o d t : Proofs.C08Sweeps.repr y o d -> valid_time t ->
  Proofs.C12.args_view (Model.Format.fa_of_ndt (Model.DateTime.mk_ndt d t)) (sv_of_ndt (dn_of_yo y o) t).
Proof.
  intros H Ht. constructor; cbn [Model.Format.fa_of_ndt Model.Format.fa_date Model.Format.fa_time Model.Format.fa_off
    Model.DateTime.nd_date Model.DateTime.nd_time sv_of_ndt sv_dn sv_sod sv_nano sv_leap sv_off sv_unix]; auto.
  - apply Proofs.C12View.date_view_of_repr. exact H.
  - apply time_view_valid. exact Ht.
  - eexists; eexists. split; [reflexivity|]. split; [reflexivity|]. lia.
Qed.

Lemma args_bounds a sv : Proofs.C12.args_view a sv -> 0 <= sv_nano sv < 1000000000 -> sv_bounds sv.
Proof. intros V Hn. apply (args_view_bounds a sv V eq_refl). right. exact Hn. Qed.

(* formatter and reader up to the field record, with the record below the value's view *)
Theorem general_core a sv on items texts ws :
  Proofs.C12.args_view a sv -> 0 <= sv_nano sv < 1000000000 -> (forall o, sv_off sv = Some o -> o mod 60 = 0) ->
  (forall n, on = Some n -> 0 <= n <= 999999999) ->
  Forall2 (doc_item sv on) items texts -> reader_takes (combine items texts) ws ->
  Model.Format.write_items a items [] = Model.Format.fok (concat texts) /\
  (forall p0, parse p0 (concat texts) items = run_writes ws p0) /\
  run_writes ws parsed_new = pok (apply_ws ws parsed_new) /\
  Proofs.C14.extends (apply_ws ws parsed_new) (gview sv on) /\ Proofs.C14.typed (gview sv on).
Proof.
  intros V Hn Hmin Hon HF HU. pose proof (args_bounds a sv V Hn) as Bsv.
  pose proof (doc_items_render a sv on items texts V HF) as HR.
  split; [exact (write_items_texts a items texts [] HR)|]. split.
  - intros p0. pose proof (F2_length _ _ _ HR) as Hl.
    pose proof (reader_takes_parse (combine items texts) ws p0 HU) as H.
    rewrite text_of_combine, map_fst_combine in H by exact Hl. exact H.
  - destruct (run_view (gview sv on) ws parsed_new (extends_new _) (ws_value_any sv on Bsv Hmin items texts ws HF HU)) as [Hrun E].
    split; [exact Hrun|]. split; [exact E|]. apply gview_typed; assumption.
Qed.

(** ** NaiveDate: every item list over the supported items *)
Theorem general_date_roundtrip y o d items texts ws :
  Proofs.C08Sweeps.repr y o d ->
  Forall2 (doc_item (sv_of_date (dn_of_yo y o)) None) items texts ->
  reader_takes (combine items texts) ws ->
  date_comb_b y (fst (iso_of_dn (dn_of_yo y o))) (apply_ws ws parsed_new) = true ->
  Model.Format.write_items (Model.Format.fa_of_date d) items [] = Model.Format.fok (concat texts) /\
  (let+ p := parse parsed_new (concat texts) items in pr_of (to_naive_date p)) = pok d.
Proof.
  intros H HF HU HC. set (sv := sv_of_date (dn_of_yo y o)) in *.
  destruct (general_core (Model.Format.fa_of_date d) sv None items texts ws (args_view_date y o d H)
              ltac:(cbn; lia) ltac:(let Hq := fresh in intros ? Hq; discriminate Hq) ltac:(intros n Hc; discriminate Hc) HF HU) as (Hw & Hp & Hrun & E & T).
  split; [exact Hw|]. rewrite Hp, Hrun. cbn [pbind bind pok]. unfold pr_of.
  destruct (Proofs.DateIso.d_iso_week_spec y o d H) as (Hiw & Eiy & _). cbv zeta in Hiw, Eiy.
  set (iw := Proofs.DateIso.mkweek (fst (iso_of_dn (dn_of_yo y o))) (snd (iso_of_dn (dn_of_yo y o)))) in *.
  rewrite <- Eiy in HC.
  destruct (date_comb_sound y (Model.Date.iw_year iw) _ HC) as (G1 & G2 & C).
  rewrite (resolve_date_view y o d iw _ (gview sv None) H Hiw T
             (gview_date_sound sv None d (dn_of_yo y o) eq_refl (Proofs.C12View.date_view_of_repr y o d H)) E G1 G2 C).
  reflexivity.
Qed.

(** ** NaiveTime *)
(* the time of day the reader's fields denote: the printed fields of [t], the others zero *)
Definition time_kept (p : parsed) (t : Model.Time.ntime) : Model.Time.ntime :=
  Proofs.C14.time_of_fields (hh t / 12) (hh t mod 12) (mm t) (unwrap_or (p_second p) 0) (unwrap_or (p_nanosecond p) 0).

Lemma time_resolution sv on t p :
  sv_sod sv = Some (Model.Time.tsecs t) -> sv_leap sv = (1000000000 <=? Model.Time.tfrac t) -> valid_time t ->
  (forall n, on = Some n -> 0 <= n <= 999999999) ->
  Proofs.C14.extends p (gview sv on) -> time_comb_b p = true ->
  to_naive_time p = Val (Ok (time_kept p t)) /\
  (forall v, p_second p = Some v -> v = ss t) /\ (forall n, p_nanosecond p = Some n -> on = Some n) /\
  0 <= Model.Time.tsecs (time_kept p t) < 86400.
Proof.
  intros Es El Hvt Hon E HC. destruct (time_parts t Hvt) as (_ & _ & _ & Rh & Rm & Rs). pose proof Hvt as [Hsec Hfrac].
  unfold time_comb_b in HC. apply andb_prop in HC. destruct HC as [HC H4]. apply andb_prop in HC. destruct HC as [HC H3].
  apply andb_prop in HC. destruct HC as [H1 H2].
  assert (V1 : forall v, p_hour_div_12 p = Some v -> v = hh t / 12).
  { intros v Hv. pose proof (E F_hour_div_12 v Hv) as Hg. unfold gview in Hg. rewrite Es in Hg. cbn [pget p_hour_div_12] in Hg.
    apply Some_inj in Hg. subst v. reflexivity. }
  assert (V2 : forall v, p_hour_mod_12 p = Some v -> v = hh t mod 12).
  { intros v Hv. pose proof (E F_hour_mod_12 v Hv) as Hg. unfold gview in Hg. rewrite Es in Hg. cbn [pget p_hour_mod_12] in Hg.
    apply Some_inj in Hg. subst v. reflexivity. }
  assert (V3 : forall v, p_minute p = Some v -> v = mm t).
  { intros v Hv. pose proof (E F_minute v Hv) as Hg. unfold gview in Hg. rewrite Es in Hg. cbn [pget p_minute] in Hg.
    apply Some_inj in Hg. subst v. reflexivity. }
  assert (V4 : forall v, p_second p = Some v -> v = ss t).
  { intros v Hv. pose proof (E F_second v Hv) as Hg. unfold gview in Hg. rewrite Es, El in Hg. cbn [pget p_second] in Hg.
    apply Some_inj in Hg. subst v. unfold ss.
    destruct (1000000000 <=? Model.Time.tfrac t) eqn:E9; destruct Hfrac as [Hf|[_ Hf]]; lia. }
  assert (V5 : forall n, p_nanosecond p = Some n -> on = Some n).
  { intros n Hv. pose proof (E F_nanosecond n Hv) as Hg. unfold gview in Hg. rewrite Es in Hg. cbn [pget p_nanosecond] in Hg. exact Hg. }
  destruct (p_hour_div_12 p) as [hd|] eqn:Ehd; [|discriminate H1]. pose proof (V1 hd eq_refl) as ->.
  destruct (p_hour_mod_12 p) as [hm|] eqn:Ehm; [|discriminate H2]. pose proof (V2 hm eq_refl) as ->.
  destruct (p_minute p) as [mi|] eqn:Emi; [|discriminate H3]. pose proof (V3 mi eq_refl) as ->.
  assert (Hsb : 0 <= unwrap_or (p_second p) 0 <= 60).
  { destruct (p_second p) as [v|]; cbn [unwrap_or]; [rewrite (V4 v eq_refl)|]; lia. }
  assert (Hnb : 0 <= unwrap_or (p_nanosecond p) 0 <= 999999999).
  { destruct (p_nanosecond p) as [n|]; cbn [unwrap_or]; [exact (Hon n (V5 n eq_refl))|lia]. }
  assert (Hok : Proofs.C14.time_fields_ok p (hh t / 12) (hh t mod 12) (mm t)).
  { unfold Proofs.C14.time_fields_ok. rewrite Ehd, Ehm, Emi. repeat split; try lia.
    intros Hne. destruct (p_nanosecond p); [|contradiction]. cbn [some_b negb orb] in H4. apply some_b_true. exact H4. }
  split; [exact (Proofs.C14.to_naive_time_complete p _ _ _ Hok)|]. split; [exact V4|]. split; [exact V5|].
  unfold time_kept, Proofs.C14.time_of_fields. cbn [Model.Time.tsecs].
  destruct (unwrap_or (p_second p) 0 =? 60) eqn:E60; lia.
Qed.

Theorem general_time_roundtrip t on items texts ws :
  valid_time t -> (forall n, on = Some n -> 0 <= n <= 999999999) ->
  Forall2 (doc_item (sv_of_time t) on) items texts ->
  reader_takes (combine items texts) ws ->
  time_comb_b (apply_ws ws parsed_new) = true ->
  Model.Format.write_items (Model.Format.fa_of_time t) items [] = Model.Format.fok (concat texts) /\
  (let+ p := parse parsed_new (concat texts) items in pr_of (to_naive_time p)) = pok (time_kept (apply_ws ws parsed_new) t) /\
  (forall v, p_second (apply_ws ws parsed_new) = Some v -> v = ss t) /\
  (forall n, p_nanosecond (apply_ws ws parsed_new) = Some n -> on = Some n).
Proof.
  intros Hvt Hon HF HU HC. set (sv := sv_of_time t) in *.
  destruct (general_core (Model.Format.fa_of_time t) sv on items texts ws (args_view_time t Hvt)
              ltac:(cbn; lia) ltac:(let Hq := fresh in intros ? Hq; discriminate Hq) Hon HF HU) as (Hw & Hp & Hrun & E & T).
  destruct (time_resolution sv on t _ eq_refl eq_refl Hvt Hon E HC) as (Ht & V4 & V5 & _).
  split; [exact Hw|]. split; [|split; assumption].
  rewrite Hp, Hrun. cbn [pbind bind pok]. unfold pr_of. rewrite Ht. reflexivity.
Qed.

(* with the seconds printed, the result is the value with its fraction cut to the printed digits *)
Lemma time_kept_seconds p t : valid_time t -> p_second p = Some (ss t) ->
  time_kept p t = Model.Time.mk_time (Model.Time.tsecs t) (leap_part t + unwrap_or (p_nanosecond p) 0).
Proof. intros Hvt Hs. unfold time_kept. rewrite Hs. cbn [unwrap_or]. apply time_of_fields_frac. exact Hvt. Qed.

(** ** NaiveDateTime *)
Theorem general_ndt_roundtrip y o d t on items texts ws :
  Proofs.C08Sweeps.repr y o d -> valid_time t -> (forall n, on = Some n -> 0 <= n <= 999999999) ->
  Forall2 (doc_item (sv_of_ndt (dn_of_yo y o) t) on) items texts ->
  reader_takes (combine items texts) ws ->
  date_comb_b y (fst (iso_of_dn (dn_of_yo y o))) (apply_ws ws parsed_new) = true -> time_comb_b (apply_ws ws parsed_new) = true ->
  Model.Format.write_items (Model.Format.fa_of_ndt (Model.DateTime.mk_ndt d t)) items [] = Model.Format.fok (concat texts) /\
  (let+ p := parse parsed_new (concat texts) items in pr_of (to_naive_datetime_with_offset p 0)) =
    pok (Model.DateTime.mk_ndt d (time_kept (apply_ws ws parsed_new) t)) /\
  (forall v, p_second (apply_ws ws parsed_new) = Some v -> v = ss t) /\
  (forall n, p_nanosecond (apply_ws ws parsed_new) = Some n -> on = Some n).
Proof.
  intros H Hvt Hon HF HU HCd HCt. set (sv := sv_of_ndt (dn_of_yo y o) t) in *.
  destruct (general_core _ sv on items texts ws (args_view_ndt y o d t H Hvt)
              ltac:(cbn; lia) ltac:(let Hq := fresh in intros ? Hq; discriminate Hq) Hon HF HU) as (Hw & Hp & Hrun & E & T).
  set (p := apply_ws ws parsed_new) in *.
  destruct (time_resolution sv on t p eq_refl eq_refl Hvt Hon E HCt) as (Ht & V4 & V5 & Hsec).
  split; [exact Hw|]. split; [|split; assumption].
  rewrite Hp, Hrun. cbn [pbind bind pok]. unfold pr_of.
  destruct (Proofs.DateIso.d_iso_week_spec y o d H) as (Hiw & Eiy & _). cbv zeta in Hiw, Eiy.
  set (iw := Proofs.DateIso.mkweek (fst (iso_of_dn (dn_of_yo y o))) (snd (iso_of_dn (dn_of_yo y o)))) in *.
  rewrite <- Eiy in HCd.
  destruct (date_comb_sound y (Model.Date.iw_year iw) _ HCd) as (G1 & G2 & C).
  pose proof (resolve_date_view y o d iw p (gview sv on) H Hiw T
             (gview_date_sound sv on d (dn_of_yo y o) eq_refl (Proofs.C12View.date_view_of_repr y o d H)) E G1 G2 C) as Ed.
  assert (Ets : p_timestamp p = None).
  { destruct (p_timestamp p) as [v|] eqn:Ev; [|reflexivity]. pose proof (E F_timestamp v Ev) as Hc. discriminate Hc. }
  rewrite (resolve_ndt y o d (time_kept p t) p 0 H Hsec ltac:(lia) Ed Ht Ets). reflexivity.
Qed.

(** * H. membership by computation: the hypotheses of the general theorems are decidable for a
    given value and item list *)
Definition frac_cond_b (sv : sval) (on : option Z) (it : Item) : bool :=
  match item_frac sv it with None => true | Some n => match on with Some m => n =? m | None => false end end.
Fixpoint doc_texts (sv : sval) (on : option Z) (items : list Item) : option (list bytes) :=
  match items with
  | [] => Some []
  | it :: r =>
      match doc_render sv it, doc_texts sv on r with
      | Some t, Some ts => if frac_cond_b sv on it then Some (t :: ts) else None
      | _, _ => None
      end
  end.
Lemma doc_texts_sound sv on : forall items texts, doc_texts sv on items = Some texts ->
  Forall2 (doc_item sv on) items texts.
Proof.
  induction items as [|it r IH]; intros texts H; cbn [doc_texts] in H.
  - apply Some_inj in H. subst texts. constructor.
  - destruct (doc_render sv it) as [t|] eqn:Ed; [|discriminate H].
    destruct (doc_texts sv on r) as [ts|] eqn:Er; [|discriminate H].
    destruct (frac_cond_b sv on it) eqn:Ef; [|discriminate H]. apply Some_inj in H. subst texts.
    constructor; [|exact (IH ts eq_refl)]. split; [exact Ed|].
    unfold frac_cond_b in Ef. destruct (item_frac sv it) as [n|]; [|left; reflexivity].
    destruct on as [m|]; [|discriminate Ef]. right. f_equal. lia.
Qed.

Definition on_ok (on : option Z) : bool := match on with Some n => (0 <=? n) && (n <=? 999999999) | None => true end.
Lemma on_ok_sound on : on_ok on = true -> forall n, on = Some n -> 0 <= n <= 999999999.
Proof. intros H n ->. cbn in H. lia. Qed.

(* all premises of [general_ndt_roundtrip] as one computable test *)
Definition general_ndt_check (dn : Z) (t : Model.Time.ntime) (on : option Z) (items : list Item) : bool :=
  let Y := year_of_dn dn in let IY := fst (iso_of_dn dn) in
  on_ok on &&
  match doc_texts (sv_of_ndt dn t) on items with
  | Some texts =>
      match unambiguous_b (combine items texts) [] with
      | Some ws => date_comb_b Y IY (apply_ws ws parsed_new) && time_comb_b (apply_ws ws parsed_new)
      | None => false
      end
  | None => false
  end.
Theorem general_ndt_check_sound y o d t on items :
  Proofs.C08Sweeps.repr y o d -> valid_time t -> general_ndt_check (dn_of_yo y o) t on items = true ->
  exists text t',
    Model.Format.write_items (Model.Format.fa_of_ndt (Model.DateTime.mk_ndt d t)) items [] = Model.Format.fok text /\
    (let+ p := parse parsed_new text items in pr_of (to_naive_datetime_with_offset p 0)) = pok (Model.DateTime.mk_ndt d t').
Proof.
  intros H Hvt HC. unfold general_ndt_check in HC. apply andb_prop in HC. destruct HC as [Ho HC].
  destruct (doc_texts (sv_of_ndt (dn_of_yo y o) t) on items) as [texts|] eqn:Ed; [|discriminate HC].
  destruct (unambiguous_b (combine items texts) []) as [ws|] eqn:Eu; [|discriminate HC].
  apply andb_prop in HC. destruct HC as [C1 C2].
  assert (EY : year_of_dn (dn_of_yo y o) = y).
  { unfold year_of_dn. rewrite (Proofs.C08Days.yo_of_dn_of_yo y o (proj1 (proj2 H))). reflexivity. }
  rewrite EY in C1.
  destruct (general_ndt_roundtrip y o d t on items texts ws H Hvt (on_ok_sound on Ho) (doc_texts_sound _ _ _ _ Ed) (or_introl Eu) C1 C2)
    as (Hw & Hp & _).
  eexists; eexists. split; [exact Hw|exact Hp].
Qed.

(* "%A, %d %B %Y %I:%M:%S%.3f %p" on Thursday 31 December 2015, 23:59:59.987654321 *)
Definition ex_general_items : list Item :=
  [IFixed F_LongWeekdayName; Literal [44]; Space [32]; num0 N_Day; Space [32]; IFixed F_LongMonthName; Space [32];
   num0 N_Year; Space [32]; num0 N_Hour12; Literal [58]; num0 N_Minute; Literal [58]; num0 N_Second;
   IFixed F_Nanosecond3; Space [32]; IFixed F_UpperAmPm].
Example ex_general_member :
  general_ndt_check (dn_of_yo 2015 365) (Model.Time.mk_time 86399 987654321) (Some 987000000) ex_general_items = true /\
  general_ndt_check (dn_of_yo 2015 365) (Model.Time.mk_time 86399 987654321) None
    [num0 N_Year; Literal [45]; num0 N_Month; Literal [45]; num0 N_Day; Space [32]; num0 N_Hour; Literal [58]; num0 N_Minute] = true /\
  (* fields adjacent without a separator are still unambiguous when they fill their widths; a month
     printed without padding in front of the day is not *)
  general_ndt_check (dn_of_yo 2015 365) (Model.Time.mk_time 0 0) None
    [num0 N_Year; num0 N_Month; num0 N_Day; num0 N_Hour; num0 N_Minute] = true /\
  general_ndt_check (dn_of_yo 2015 36) (Model.Time.mk_time 0 0) None
    [num0 N_Year; Literal [45]; num N_Month; num0 N_Day; Space [32]; num0 N_Hour; Literal [58]; num0 N_Minute] = false /\
  (* the two-digit year alone is sufficient inside the pivot window 1970..=2069 only *)
  general_ndt_check (dn_of_yo 2015 36) (Model.Time.mk_time 0 0) None
    [num0 N_YearMod100; Literal [45]; num0 N_Month; Literal [45]; num0 N_Day; Space [32]; num0 N_Hour; Literal [58]; num0 N_Minute] = true /\
  general_ndt_check (dn_of_yo 1969 36) (Model.Time.mk_time 0 0) None
    [num0 N_YearMod100; Literal [45]; num0 N_Month; Literal [45]; num0 N_Day; Space [32]; num0 N_Hour; Literal [58]; num0 N_Minute] = false.
Proof. vm_compute. repeat split. Qed.
