(** C13 -- the century / two-digit-year pair "%C%y" END TO END, for the years 0..=9999:
        NaiveDate::parse_from_str(&d.format(f).to_string(), f) = Ok(d)
    for f = "%C%y-%m-%d", "%C%y-%j", "%C%y-W%W-%u", "%C%y-U%U-%w" through the formatter
    (Model/Format.v: %C = year.div_euclid(100) with write_n width 2, %y = year.rem_euclid(100)
    with write_two), the reader (Model/Parse.v: both fields unsigned, at most 2 digits) and the
    resolution Parsed::to_naive_date (century * 100 + two-digit year; C14 completeness).
    The proofs instantiate the GENERAL theorem (Proofs/C13General.v [general_date_roundtrip]):
    the documented renderings of the items are given explicitly, the reader takes each of them
    back because every zero padded field fills the reader's width (no follow condition), and the
    sufficiency of the field combination is computed on the record the reader builds.
    Also NaiveDateTime with "%C%y-%m-%dT%H:%M:%S" ([ndt_century_roundtrip], through
    [general_ndt_roundtrip]; the value comes back truncated to whole seconds).
    The exact boundary: for EVERY negative year the formatter prints the century with a minus sign
    (div_euclid) and the unsigned reader refuses the text with Invalid
    ([date_century_negative_refused]); from year 10000 on the century has at least 3 digits
    ([date_century_wide_partial]) and the reader (2 digits) leaves the third in front of the
    two-digit year, so the parse fails ([century_boundary_refuted], by computation on 10000-01-01
    and on -0001-01-01). *)
From Coq Require Import ZArith List Bool Lia ZifyBool.
From V Require Import Base.Int Base.IntLemmas Base.IO Base.Utf8 Model.Scan Model.Items Gen.ParseTable Gen.Strftime
  Proofs.Utf8 Proofs.Scan Model.Parse Proofs.C13 Proofs.C13Reads Proofs.C13Fmt Proofs.C13Digits Proofs.C13Time
  Proofs.C13Date Proofs.C13View Proofs.C13DateTime Proofs.C13General Spec.StrftimeDoc Spec.Gregorian.
From V Require Model.Parsed Model.Format Model.Date Model.Time Model.DateTime Model.Strftime Proofs.C12 Proofs.C12View
  Proofs.C14 Proofs.C14Date Proofs.C14Iso Proofs.C08Sweeps Proofs.C08 Proofs.C08Days Proofs.DateIso Proofs.C09Parse.
Import ListNotations.
Open Scope Z_scope.
Ltac Zify.zify_post_hook ::= Z.to_euclidean_division_equations.
Import Model.Parsed.

(** * 1. Documented segments: formatter, reader and the documented rendering together *)
Definition dseg (a : Model.Format.fmt_args) (sv : sval) (on : option Z) (items : list Item) (texts : list bytes)
    (ws : list write) (tail : bytes) : Prop :=
  seg_ok a items texts ws tail /\ Forall2 (doc_item sv on) items texts.

Lemma dseg_nil a sv on tail : utf8_valid tail = true -> dseg a sv on [] [] [] tail.
Proof. intros H. split; [exact (seg_nil a tail H)|constructor]. Qed.

Lemma dseg_lit a sv on l items texts ws tail : ascii_b l ->
  dseg a sv on items texts ws tail -> dseg a sv on (Literal l :: items) (l :: texts) (W_none :: ws) tail.
Proof.
  intros Hl [S D]. split.
  - apply (seg_cons _ _ _ _ _ _ _ _ S). apply item_lit; [exact Hl|exact (seg_valid _ _ _ _ _ S)].
  - constructor; [|exact D]. split; [reflexivity|left; reflexivity].
Qed.

(* an unsigned numeric field whose documented rendering fills the reader's width: zero padded to
   the width, or of width 1 *)
Lemma dseg_num a sv on spec f pad code w v items texts ws tail :
  Proofs.C12.args_view a sv -> nfield_of spec = Some f ->
  render_num sv f (dpad_of pad) = ROk (pad_num (dpad_of pad) w false v) ->
  numeric_entry spec = Some (w, false, code) -> 1 <= w <= 18 -> 0 <= v < 10 ^ w ->
  pad = PadZero \/ w = 1 -> item_frac sv (INumeric spec pad) = None ->
  dseg a sv on items texts ws tail ->
  dseg a sv on (INumeric spec pad :: items) (pad_num (dpad_of pad) w false v :: texts) (W_code code v :: ws) tail.
Proof.
  intros V Ef Er He Hw Hv Hp Hfr [S D].
  assert (Hd : doc_render sv (INumeric spec pad) = Some (pad_num (dpad_of pad) w false v)).
  { cbn [doc_render]. rewrite Ef, Er. reflexivity. }
  split.
  - apply (seg_cons _ _ _ _ _ _ _ _ S). pose proof (seg_valid _ _ _ _ _ S) as Hr. split; [|split].
    + exact (doc_render_renders a sv _ _ V Hd).
    + cbn [reads_b]. apply (pad_num_unsigned_reads spec w false code (dpad_of pad) w v _ He); try lia; try assumption.
      * assert (10 ^ w <= 10 ^ 18) by (apply Z.pow_le_mono_r; lia). change (10 ^ 18) with 1000000000000000000 in *.
        unfold i64_max. lia.
      * right. destruct (dec_nonneg_digits v ltac:(lia)) as (_ & Hl & _ & Hub & Hlb).
        assert (blen (dec_nonneg v) <= w).
        { destruct Hlb as [H1|Hlb]; [lia|].
          destruct (Z_le_gt_dec (blen (dec_nonneg v)) w) as [H|H]; [exact H|exfalso].
          assert (10 ^ w <= 10 ^ (blen (dec_nonneg v) - 1)) by (apply Z.pow_le_mono_r; lia). lia. }
        destruct Hp as [-> | ->]; [cbn [dpad_of]; lia|destruct pad; cbn [dpad_of]; lia].
    + rewrite utf8_valid_app_ascii by apply pad_num_ascii. exact Hr.
  - constructor; [|exact D]. split; [exact Hd|left; exact Hfr].
Qed.

(** * 2. The documented renderings of the date fields *)
Lemma rn_century sv dn p : sv_dn sv = Some dn ->
  render_num sv NCentury p = ROk (pad_num p 2 false (year_of_dn dn / 100)).
Proof. intros E. unfold render_num, num_value. rewrite E. reflexivity. Qed.
Lemma rn_y2 sv dn p : sv_dn sv = Some dn -> 0 <= year_of_dn dn ->
  render_num sv NYearMod100 p = ROk (pad_num p 2 false (year_of_dn dn mod 100)).
Proof.
  intros E Hy. unfold render_num, num_value. rewrite E. cbv zeta.
  replace (year_of_dn dn <? 0) with false by lia. reflexivity.
Qed.
Lemma rn_month sv dn p : sv_dn sv = Some dn -> render_num sv NMonth p = ROk (pad_num p 2 false (dn_month dn)).
Proof. intros E. unfold render_num, num_value, dn_month. rewrite E. destruct (ymd_of_dn dn) as [[yy m] dd]. reflexivity. Qed.
Lemma rn_day sv dn p : sv_dn sv = Some dn -> render_num sv NDay p = ROk (pad_num p 2 false (dn_day dn)).
Proof. intros E. unfold render_num, num_value, dn_day. rewrite E. destruct (ymd_of_dn dn) as [[yy m] dd]. reflexivity. Qed.
Lemma rn_ordinal sv dn p : sv_dn sv = Some dn -> render_num sv NOrdinal p = ROk (pad_num p 3 false (ordinal_of_dn dn)).
Proof. intros E. unfold render_num, num_value. rewrite E. reflexivity. Qed.
Lemma rn_wmon sv dn p : sv_dn sv = Some dn ->
  render_num sv NWeekMon p = ROk (pad_num p 2 false (weeks_on_or_before (ordinal_of_dn dn) (weekday_of_dn dn))).
Proof. intros E. unfold render_num, num_value. rewrite E. reflexivity. Qed.
Lemma rn_wsun sv dn p : sv_dn sv = Some dn ->
  render_num sv NWeekSun p = ROk (pad_num p 2 false (weeks_on_or_before (ordinal_of_dn dn) ((weekday_of_dn dn + 1) mod 7))).
Proof. intros E. unfold render_num, num_value. rewrite E. reflexivity. Qed.
Lemma rn_wd_mon1 sv dn p : sv_dn sv = Some dn ->
  render_num sv NWdayMon1 p = ROk (pad_num p 1 false (weekday_of_dn dn + 1)).
Proof. intros E. unfold render_num, num_value. rewrite E. reflexivity. Qed.
Lemma rn_wd_sun0 sv dn p : sv_dn sv = Some dn ->
  render_num sv NWdaySun0 p = ROk (pad_num p 1 false ((weekday_of_dn dn + 1) mod 7)).
Proof. intros E. unfold render_num, num_value. rewrite E. reflexivity. Qed.

Lemma year_of_dn_of_yo y o : valid_yo y o = true -> year_of_dn (dn_of_yo y o) = y.
Proof. intros H. unfold year_of_dn. rewrite (Proofs.C08Days.yo_of_dn_of_yo y o H). reflexivity. Qed.

(** * 3. The segments *)
(* "%C%y" in front of any documented segment, for a year of 0..=9999 *)
Definition cy_texts (Y : Z) : list bytes := [pad_num DZero 2 false (Y / 100); pad_num DZero 2 false (Y mod 100)].
Definition cy_ws (Y : Z) : list write := [W_code 1 (Y / 100); W_code 2 (Y mod 100)].
Definition CY_ITEMS : list Item := [num0 N_YearDiv100; num0 N_YearMod100].

Lemma cy_seg a sv on dn items texts ws tail :
  Proofs.C12.args_view a sv -> sv_dn sv = Some dn -> 0 <= year_of_dn dn <= 9999 ->
  dseg a sv on items texts ws tail ->
  dseg a sv on (CY_ITEMS ++ items) (cy_texts (year_of_dn dn) ++ texts) (cy_ws (year_of_dn dn) ++ ws) tail.
Proof.
  intros V Ed Hy S. unfold CY_ITEMS, cy_texts, cy_ws, num0. cbn [app].
  apply (dseg_num a sv on N_YearDiv100 NCentury PadZero 1 2 (year_of_dn dn / 100)); try reflexivity; try assumption;
    [exact (rn_century sv dn _ Ed)|lia|change (10 ^ 2) with 100; lia|left; reflexivity|].
  apply (dseg_num a sv on N_YearMod100 NYearMod100 PadZero 2 2 (year_of_dn dn mod 100)); try reflexivity; try assumption;
    [exact (rn_y2 sv dn _ Ed ltac:(lia))|lia|change (10 ^ 2) with 100; lia|left; reflexivity].
Qed.

(* the tails: "-%m-%d", "-%j", "-W%W-%u", "-U%U-%w" in front of any documented segment *)
Definition MD_ITEMS : list Item := [Literal [45]; num0 N_Month; Literal [45]; num0 N_Day].
Definition md_texts (dn : Z) : list bytes := [[45]; pad_num DZero 2 false (dn_month dn); [45]; pad_num DZero 2 false (dn_day dn)].
Definition md_ws (dn : Z) : list write := [W_none; W_code 7 (dn_month dn); W_none; W_code 13 (dn_day dn)].
Lemma md_seg a sv on dn items texts ws tail :
  Proofs.C12.args_view a sv -> sv_dn sv = Some dn -> sv_bounds sv ->
  dseg a sv on items texts ws tail ->
  dseg a sv on (MD_ITEMS ++ items) (md_texts dn ++ texts) (md_ws dn ++ ws) tail.
Proof.
  intros V Ed Bsv S. destruct (svb_date sv Bsv dn Ed) as (_ & _ & Hm & Hd & _ & _).
  unfold MD_ITEMS, md_texts, md_ws, num0. cbn [app].
  apply dseg_lit; [apply ascii1; lia|].
  apply (dseg_num a sv on N_Month NMonth PadZero 7 2 (dn_month dn)); try reflexivity; try assumption;
    [exact (rn_month sv dn _ Ed)|lia|change (10 ^ 2) with 100; lia|left; reflexivity|].
  apply dseg_lit; [apply ascii1; lia|].
  apply (dseg_num a sv on N_Day NDay PadZero 13 2 (dn_day dn)); try reflexivity; try assumption;
    [exact (rn_day sv dn _ Ed)|lia|change (10 ^ 2) with 100; lia|left; reflexivity].
Qed.

Definition J_ITEMS : list Item := [Literal [45]; num0 N_Ordinal].
Definition j_texts (dn : Z) : list bytes := [[45]; pad_num DZero 3 false (ordinal_of_dn dn)].
Definition j_ws (dn : Z) : list write := [W_none; W_code 12 (ordinal_of_dn dn)].
Lemma j_seg a sv on dn items texts ws tail :
  Proofs.C12.args_view a sv -> sv_dn sv = Some dn -> sv_bounds sv ->
  dseg a sv on items texts ws tail ->
  dseg a sv on (J_ITEMS ++ items) (j_texts dn ++ texts) (j_ws dn ++ ws) tail.
Proof.
  intros V Ed Bsv S. destruct (svb_date sv Bsv dn Ed) as (_ & _ & _ & _ & Ho & _).
  unfold J_ITEMS, j_texts, j_ws, num0. cbn [app].
  apply dseg_lit; [apply ascii1; lia|].
  apply (dseg_num a sv on N_Ordinal NOrdinal PadZero 12 3 (ordinal_of_dn dn)); try reflexivity; try assumption;
    [exact (rn_ordinal sv dn _ Ed)|lia|change (10 ^ 3) with 1000; lia|left; reflexivity].
Qed.

Definition wmon_of (dn : Z) : Z := weeks_on_or_before (ordinal_of_dn dn) (weekday_of_dn dn).
Definition wsun_of (dn : Z) : Z := weeks_on_or_before (ordinal_of_dn dn) ((weekday_of_dn dn + 1) mod 7).
Definition WMON_ITEMS : list Item := [Literal [45; 87]; num0 N_WeekFromMon; Literal [45]; num N_WeekdayFromMon].
Definition wmon_texts (dn : Z) : list bytes :=
  [[45; 87]; pad_num DZero 2 false (wmon_of dn); [45]; pad_num DNone 1 false (weekday_of_dn dn + 1)].
Definition wmon_ws (dn : Z) : list write := [W_none; W_code 9 (wmon_of dn); W_none; W_code 101 (weekday_of_dn dn + 1)].
Lemma wmon_seg a sv on dn items texts ws tail :
  Proofs.C12.args_view a sv -> sv_dn sv = Some dn -> sv_bounds sv ->
  dseg a sv on items texts ws tail ->
  dseg a sv on (WMON_ITEMS ++ items) (wmon_texts dn ++ texts) (wmon_ws dn ++ ws) tail.
Proof.
  intros V Ed Bsv S. destruct (svb_date sv Bsv dn Ed) as (_ & _ & _ & _ & Ho & _).
  pose proof (weekday_of_dn_bounds dn) as Bw.
  pose proof (weeks_bounds (ordinal_of_dn dn) (weekday_of_dn dn) Ho Bw) as Bk.
  unfold WMON_ITEMS, wmon_texts, wmon_ws, wmon_of, num0, num. cbn [app].
  apply dseg_lit; [repeat constructor; lia|].
  apply (dseg_num a sv on N_WeekFromMon NWeekMon PadZero 9 2 _); try reflexivity; try assumption;
    [exact (rn_wmon sv dn _ Ed)|lia|change (10 ^ 2) with 100; lia|left; reflexivity|].
  apply dseg_lit; [apply ascii1; lia|].
  apply (dseg_num a sv on N_WeekdayFromMon NWdayMon1 PadNone 101 1 (weekday_of_dn dn + 1)); try reflexivity; try assumption;
    [exact (rn_wd_mon1 sv dn _ Ed)|lia|change (10 ^ 1) with 10; lia|right; reflexivity].
Qed.

Definition WSUN_ITEMS : list Item := [Literal [45; 85]; num0 N_WeekFromSun; Literal [45]; num N_NumDaysFromSun].
Definition wsun_texts (dn : Z) : list bytes :=
  [[45; 85]; pad_num DZero 2 false (wsun_of dn); [45]; pad_num DNone 1 false ((weekday_of_dn dn + 1) mod 7)].
Definition wsun_ws (dn : Z) : list write :=
  [W_none; W_code 8 (wsun_of dn); W_none; W_code 100 ((weekday_of_dn dn + 1) mod 7)].
Lemma wsun_seg a sv on dn items texts ws tail :
  Proofs.C12.args_view a sv -> sv_dn sv = Some dn -> sv_bounds sv ->
  dseg a sv on items texts ws tail ->
  dseg a sv on (WSUN_ITEMS ++ items) (wsun_texts dn ++ texts) (wsun_ws dn ++ ws) tail.
Proof.
  intros V Ed Bsv S. destruct (svb_date sv Bsv dn Ed) as (_ & _ & _ & _ & Ho & _).
  pose proof (weekday_of_dn_bounds dn) as Bw.
  pose proof (weeks_bounds (ordinal_of_dn dn) ((weekday_of_dn dn + 1) mod 7) Ho ltac:(lia)) as Bk.
  unfold WSUN_ITEMS, wsun_texts, wsun_ws, wsun_of, num0, num. cbn [app].
  apply dseg_lit; [repeat constructor; lia|].
  apply (dseg_num a sv on N_WeekFromSun NWeekSun PadZero 8 2 _); try reflexivity; try assumption;
    [exact (rn_wsun sv dn _ Ed)|lia|change (10 ^ 2) with 100; lia|left; reflexivity|].
  apply dseg_lit; [apply ascii1; lia|].
  apply (dseg_num a sv on N_NumDaysFromSun NWdaySun0 PadNone 100 1 ((weekday_of_dn dn + 1) mod 7)); try reflexivity; try assumption;
    [exact (rn_wd_sun0 sv dn _ Ed)|lia|change (10 ^ 1) with 10; lia|right; reflexivity].
Qed.

(** * 4. NaiveDate: the four forms, for every date of the years 0..=9999 *)
Definition CYMD_ITEMS : list Item := CY_ITEMS ++ MD_ITEMS.
Definition CYJ_ITEMS : list Item := CY_ITEMS ++ J_ITEMS.
Definition CYW_ITEMS : list Item := CY_ITEMS ++ WMON_ITEMS.
Definition CYU_ITEMS : list Item := CY_ITEMS ++ WSUN_ITEMS.
Definition century_items : list (list Item) := [CYMD_ITEMS; CYJ_ITEMS; CYW_ITEMS; CYU_ITEMS].

Theorem date_century_roundtrip y o d items : Proofs.C08Sweeps.repr y o d -> 0 <= y <= 9999 -> In items century_items ->
  exists text,
    Model.Format.write_items (Model.Format.fa_of_date d) items [] = Model.Format.fok text /\
    (let+ p := parse parsed_new text items in pr_of (to_naive_date p)) = pok d.
Proof.
  intros H Hy Hin. set (dn := dn_of_yo y o).
  pose proof (args_view_date y o d H) as V. fold dn in V.
  pose proof (args_bounds _ _ V ltac:(cbn; lia)) as Bsv.
  assert (EY : year_of_dn dn = y) by exact (year_of_dn_of_yo y o (proj1 (proj2 H))).
  assert (HY : 0 <= year_of_dn dn <= 9999) by (rewrite EY; exact Hy).
  pose proof (dseg_nil (Model.Format.fa_of_date d) (sv_of_date dn) None [] eq_refl) as S0.
  cbn in Hin. destruct Hin as [<-|[<-|[<-|[<-|[]]]]].
  - destruct (cy_seg _ _ None dn _ _ _ [] V eq_refl HY (md_seg _ _ None dn _ _ _ [] V eq_refl Bsv S0)) as [S D].
    eexists. apply (general_date_roundtrip y o d _ _ _ H D (or_introl (proj1 (proj2 S)))). reflexivity.
  - destruct (cy_seg _ _ None dn _ _ _ [] V eq_refl HY (j_seg _ _ None dn _ _ _ [] V eq_refl Bsv S0)) as [S D].
    eexists. apply (general_date_roundtrip y o d _ _ _ H D (or_introl (proj1 (proj2 S)))). reflexivity.
  - destruct (cy_seg _ _ None dn _ _ _ [] V eq_refl HY (wmon_seg _ _ None dn _ _ _ [] V eq_refl Bsv S0)) as [S D].
    eexists. apply (general_date_roundtrip y o d _ _ _ H D (or_introl (proj1 (proj2 S)))). reflexivity.
  - destruct (cy_seg _ _ None dn _ _ _ [] V eq_refl HY (wsun_seg _ _ None dn _ _ _ [] V eq_refl Bsv S0)) as [S D].
    eexists. apply (general_date_roundtrip y o d _ _ _ H D (or_introl (proj1 (proj2 S)))). reflexivity.
Qed.

Example date_century_roundtrip_inhabited :
  (Proofs.C08Sweeps.repr 0 1 (Proofs.C08Sweeps.mkdate 0 1) /\ 0 <= 0 <= 9999) /\
  (Proofs.C08Sweeps.repr 9999 365 (Proofs.C08Sweeps.mkdate 9999 365) /\ 0 <= 9999 <= 9999) /\
  (Proofs.C08Sweeps.repr 2000 366 (Proofs.C08Sweeps.mkdate 2000 366) /\ 0 <= 2000 <= 9999) /\
  In CYW_ITEMS century_items.
Proof. repeat split; try reflexivity; try lia. right. right. left. reflexivity. Qed.

(** NaiveDate::parse_from_str(&d.format(f).to_string(), f) = Ok(d) for the format strings
    "%C%y-%m-%d", "%C%y-%j", "%C%y-W%W-%u", "%C%y-U%U-%w" *)
Definition cymd_format : bytes := [37; 67; 37; 121; 45; 37; 109; 45; 37; 100].
Definition cyj_format : bytes := [37; 67; 37; 121; 45; 37; 106].
Definition cyw_format : bytes := [37; 67; 37; 121; 45; 87; 37; 87; 45; 37; 117].
Definition cyu_format : bytes := [37; 67; 37; 121; 45; 85; 37; 85; 45; 37; 119].
Definition century_formats : list bytes := [cymd_format; cyj_format; cyw_format; cyu_format].

Theorem date_century_parse_from_str y o d fmt : Proofs.C08Sweeps.repr y o d -> 0 <= y <= 9999 -> In fmt century_formats ->
  exists text,
    Model.Format.delayed_display (Model.Format.fa_of_date d) (Model.Strftime.sf_new fmt) = Model.Format.fok text /\
    date_parse_from_str text fmt = pok d.
Proof.
  intros H Hy Hin.
  assert (Hit : exists items, In items century_items /\
            Model.Strftime.sf_take (S (Model.Strftime.sf_bound fmt)) (Model.Strftime.sf_new fmt) [] = Val (Some items) /\
            (List.length items < S (Model.Strftime.sf_bound fmt))%nat).
  { cbn in Hin. destruct Hin as [<-|[<-|[<-|[<-|[]]]]].
    - exists CYMD_ITEMS. split; [left; reflexivity|]. split; [vm_compute; reflexivity|cbn; lia].
    - exists CYJ_ITEMS. split; [right; left; reflexivity|]. split; [vm_compute; reflexivity|cbn; lia].
    - exists CYW_ITEMS. split; [right; right; left; reflexivity|]. split; [vm_compute; reflexivity|cbn; lia].
    - exists CYU_ITEMS. split; [right; right; right; left; reflexivity|]. split; [vm_compute; reflexivity|cbn; lia]. }
  destruct Hit as (items & Hi & Htake & Hlen).
  destruct (date_century_roundtrip y o d items H Hy Hi) as (text & Hw & Hp).
  destruct (sf_lift fmt items _ text Htake Hlen Hw) as [Hd Hps].
  exists text. split; [exact Hd|]. unfold date_parse_from_str. rewrite Hps. exact Hp.
Qed.

(** * 5. The exact boundary of the pair, by computation on the real format strings.
    Year 10000: the century "100" has three digits; the reader takes "10" as the century and "00" as
    the two-digit year and then finds a digit where the format has '-'.  Year -1: the century is
    div_euclid(-1, 100) = -1, printed "-1" (the sign counts in the width 2), the two-digit year is
    rem_euclid(-1, 100) = 99; the reader's century field is unsigned and refuses the sign.  So the
    formatter never refuses, and outside 0..=9999 the text is not parsed back. *)
Definition century_text (y o : Z) (fmt : bytes) : Model.Format.fres :=
  Model.Format.delayed_display (Model.Format.fa_of_date (Proofs.C08Sweeps.mkdate y o)) (Model.Strftime.sf_new fmt).
Definition text_10000 : bytes := [49; 48; 48; 48; 48; 45; 48; 49; 45; 48; 49].
Definition text_m1 : bytes := [45; 49; 57; 57; 45; 48; 49; 45; 48; 49].
Definition text_10000_j : bytes := [49; 48; 48; 48; 48; 45; 48; 48; 49].
Definition text_m1_j : bytes := [45; 49; 57; 57; 45; 48; 48; 49].
Example century_boundary_refuted :
  Proofs.C08Sweeps.repr 10000 1 (Proofs.C08Sweeps.mkdate 10000 1) /\
  century_text 10000 1 cymd_format = Model.Format.fok text_10000 /\
  date_parse_from_str text_10000 cymd_format = Val (PErr Model.Scan.Invalid) /\
  century_text 10000 1 cyj_format = Model.Format.fok text_10000_j /\
  date_parse_from_str text_10000_j cyj_format = Val (PErr Model.Scan.Invalid) /\
  Proofs.C08Sweeps.repr (-1) 1 (Proofs.C08Sweeps.mkdate (-1) 1) /\
  century_text (-1) 1 cymd_format = Model.Format.fok text_m1 /\
  date_parse_from_str text_m1 cymd_format = Val (PErr Model.Scan.Invalid) /\
  century_text (-1) 1 cyj_format = Model.Format.fok text_m1_j /\
  date_parse_from_str text_m1_j cyj_format = Val (PErr Model.Scan.Invalid).
Proof. repeat split; vm_compute; reflexivity. Qed.
(* inside the range, the two ends, by computation *)
Definition century_rt (y o : Z) (fmt : bytes) : option (PR Z) :=
  match century_text y o fmt with Val (Some t) => Some (date_parse_from_str t fmt) | _ => None end.
Example century_ends_compute :
  century_rt 0 1 cymd_format = Some (pok (Proofs.C08Sweeps.mkdate 0 1)) /\
  century_rt 9999 365 cyw_format = Some (pok (Proofs.C08Sweeps.mkdate 9999 365)) /\
  century_rt 9999 365 cyu_format = Some (pok (Proofs.C08Sweeps.mkdate 9999 365)) /\
  century_rt 10000 1 cyw_format = Some (Val (PErr Model.Scan.Invalid)) /\
  century_rt (-1) 365 cyu_format = Some (Val (PErr Model.Scan.Invalid)).
Proof. repeat split; vm_compute; reflexivity. Qed.

(** * 6. NaiveDateTime: "%C%y-%m-%dT%H:%M:%S" *)
Lemma rn_hour sv s p : sv_sod sv = Some s -> render_num sv NHour p = ROk (pad_num p 2 false (s / 3600)).
Proof. intros E. unfold render_num, num_value. rewrite E. reflexivity. Qed.
Lemma rn_minute sv s p : sv_sod sv = Some s -> render_num sv NMinute p = ROk (pad_num p 2 false (s / 60 mod 60)).
Proof. intros E. unfold render_num, num_value. rewrite E. reflexivity. Qed.
Lemma rn_second sv s p : sv_sod sv = Some s ->
  render_num sv NSecond p = ROk (pad_num p 2 false (s mod 60 + (if sv_leap sv then 1 else 0))).
Proof. intros E. unfold render_num, num_value. rewrite E. reflexivity. Qed.

Definition sec_of (sv : sval) (s : Z) : Z := s mod 60 + (if sv_leap sv then 1 else 0).
Definition THMS_ITEMS : list Item := Literal [84] :: SF_T_FMT.
Definition thms_texts (sv : sval) (s : Z) : list bytes :=
  [[84]; pad_num DZero 2 false (s / 3600); [58]; pad_num DZero 2 false (s / 60 mod 60); [58]; pad_num DZero 2 false (sec_of sv s)].
Definition thms_ws (sv : sval) (s : Z) : list write :=
  [W_none; W_code 16 (s / 3600); W_none; W_code 17 (s / 60 mod 60); W_none; W_code 18 (sec_of sv s)].
Lemma thms_seg a sv on s items texts ws tail :
  Proofs.C12.args_view a sv -> sv_sod sv = Some s -> sv_bounds sv ->
  dseg a sv on items texts ws tail ->
  dseg a sv on (THMS_ITEMS ++ items) (thms_texts sv s ++ texts) (thms_ws sv s ++ ws) tail.
Proof.
  intros V Es Bsv S. pose proof (svb_time sv Bsv s Es) as Hs.
  assert (Hl : 0 <= (if sv_leap sv then 1 else 0) <= 1) by (destruct (sv_leap sv); lia).
  unfold THMS_ITEMS, SF_T_FMT, thms_texts, thms_ws, sec_of, num0. cbn [app].
  apply dseg_lit; [apply ascii1; lia|].
  apply (dseg_num a sv on N_Hour NHour PadZero 16 2 (s / 3600)); try reflexivity; try assumption;
    [exact (rn_hour sv s _ Es)|lia|change (10 ^ 2) with 100; lia|left; reflexivity|].
  apply dseg_lit; [apply ascii1; lia|].
  apply (dseg_num a sv on N_Minute NMinute PadZero 17 2 (s / 60 mod 60)); try reflexivity; try assumption;
    [exact (rn_minute sv s _ Es)|lia|change (10 ^ 2) with 100; lia|left; reflexivity|].
  apply dseg_lit; [apply ascii1; lia|].
  apply (dseg_num a sv on N_Second NSecond PadZero 18 2 _); try reflexivity; try assumption;
    [exact (rn_second sv s _ Es)|lia|change (10 ^ 2) with 100; lia|left; reflexivity].
Qed.

Definition CNDT_ITEMS : list Item := CY_ITEMS ++ MD_ITEMS ++ THMS_ITEMS.

Theorem ndt_century_roundtrip y o v :
  Proofs.C08Sweeps.repr y o (Model.DateTime.nd_date v) -> 0 <= y <= 9999 -> valid_time (Model.DateTime.nd_time v) ->
  exists text,
    Model.Format.write_items (Model.Format.fa_of_ndt v) CNDT_ITEMS [] = Model.Format.fok text /\
    (let+ p := parse parsed_new text CNDT_ITEMS in pr_of (to_naive_datetime_with_offset p 0)) = pok (trunc_ndt v).
Proof.
  intros H Hy Hvt. destruct v as [d t]. cbn [Model.DateTime.nd_date Model.DateTime.nd_time] in *.
  set (dn := dn_of_yo y o). set (s := Model.Time.tsecs t).
  pose proof (args_view_ndt y o d t H Hvt) as V. fold dn in V.
  set (sv := sv_of_ndt dn t) in *.
  pose proof (args_bounds _ _ V ltac:(cbn; lia)) as Bsv.
  assert (EY : year_of_dn dn = y) by exact (year_of_dn_of_yo y o (proj1 (proj2 H))).
  assert (HY : 0 <= year_of_dn dn <= 9999) by (rewrite EY; exact Hy).
  pose proof (dseg_nil (Model.Format.fa_of_ndt (Model.DateTime.mk_ndt d t)) sv None [] eq_refl) as S0.
  destruct (cy_seg _ _ None dn _ _ _ [] V eq_refl HY
              (md_seg _ _ None dn _ _ _ [] V eq_refl Bsv (thms_seg _ _ None s _ _ _ [] V eq_refl Bsv S0))) as [S D].
  match type of D with Forall2 _ _ ?tx => set (texts := tx) in * end.
  match type of S with seg_ok _ _ _ ?w _ => set (ws := w) in * end.
  destruct (general_ndt_roundtrip y o d t None _ texts ws H Hvt ltac:(intros n Hc; discriminate Hc) D
              (or_introl (proj1 (proj2 S))) eq_refl eq_refl) as (Hw & Hp & _).
  exists (concat texts). split; [exact Hw|]. refine (eq_trans Hp _). unfold trunc_ndt.
  cbn [Model.DateTime.nd_date Model.DateTime.nd_time]. do 2 f_equal.
  assert (Eps : p_second (apply_ws ws parsed_new) = Some (sec_of sv s)) by reflexivity.
  assert (Epn : p_nanosecond (apply_ws ws parsed_new) = None) by reflexivity.
  unfold time_kept. rewrite Eps, Epn. cbn [unwrap_or].
  assert (Ess : sec_of sv s = ss t).
  { unfold sec_of, ss, sv, s. cbn [sv_leap sv_of_ndt]. destruct Hvt as [_ Hf].
    destruct (1000000000 <=? Model.Time.tfrac t) eqn:E; lia. }
  rewrite Ess. apply time_of_fields_trunc. exact Hvt.
Qed.

Example ndt_century_roundtrip_inhabited :
  Proofs.C08Sweeps.repr 0 1 (Proofs.C08Sweeps.mkdate 0 1) /\ 0 <= 0 <= 9999 /\
  valid_time (Model.Time.mk_time 86399 1999999999).
Proof. split; [repeat split; reflexivity|]. split; [lia|]. split; [cbn; lia|right; cbn; lia]. Qed.

Definition cndt_format : bytes := [37; 67; 37; 121; 45; 37; 109; 45; 37; 100; 84; 37; 72; 58; 37; 77; 58; 37; 83].
Theorem ndt_century_parse_from_str y o v :
  Proofs.C08Sweeps.repr y o (Model.DateTime.nd_date v) -> 0 <= y <= 9999 -> valid_time (Model.DateTime.nd_time v) ->
  exists text,
    Model.Format.delayed_display (Model.Format.fa_of_ndt v) (Model.Strftime.sf_new cndt_format) = Model.Format.fok text /\
    ndt_parse_from_str text cndt_format = pok (trunc_ndt v).
Proof.
  intros H Hy Hvt. destruct (ndt_century_roundtrip y o v H Hy Hvt) as (text & Hw & Hp).
  destruct (sf_lift cndt_format CNDT_ITEMS _ text ltac:(vm_compute; reflexivity) ltac:(cbn; lia) Hw) as [Hd Hps].
  exists text. split; [exact Hd|]. unfold ndt_parse_from_str. rewrite Hps. exact Hp.
Qed.

(** * 7. Below the range: for EVERY date of a negative year the formatter prints the four forms
    (the century with its minus sign) and the reader refuses the text at the sign. *)
Lemma parse_century_minus p r items :
  parse p (45 :: r) (num0 N_YearDiv100 :: items) = Val (PErr Model.Scan.Invalid).
Proof.
  unfold parse, parse_internal, num0. cbn [parse_items parse_item]. unfold parse_numeric.
  change (zassoc (numeric_idx N_YearDiv100) PN_TABLE) with (Some (2, false, 1)). cbv iota beta.
  rewrite (Proofs.C09Parse.trim_start_id (45 :: r)) by (split; [lia|reflexivity]).
  unfold number. change (PN_MIN_DIGITS <=? 2) with true. cbn [rassert bind].
  rewrite blen_cons. pose proof (blen_nonneg r) as Hb. unfold PN_MIN_DIGITS.
  replace (1 + blen r <? 1) with false by lia.
  reflexivity.
Qed.

(* what the formatter prints for %C and %y, whatever the year *)
Lemma cy_renders y o d : Proofs.C08Sweeps.repr y o d ->
  Forall2 (renders (Model.Format.fa_of_date d)) CY_ITEMS (cy_texts y).
Proof.
  intros H. destruct (Proofs.C08.repr_md y o d H) as (Ey & _).
  destruct (Proofs.C14Date.repr_year_i32 y o d H) as [Hyi Hyb].
  unfold CY_ITEMS, cy_texts, num0. constructor; [|constructor; [|constructor]]; unfold renders, Model.Format.fa_of_date;
    cbn [Model.Format.format_item Model.Format.format_numeric Model.Format.fa_date Model.Format.fa_time]; rewrite Ey.
  - rewrite (Proofs.C12.div_euclid_100 y Hyi). cbn [bind].
    exact (Proofs.C12.write_n_spec 2 (y / 100) DZero false ltac:(lia)).
  - rewrite (Proofs.C12.rem_euclid_100 y Hyi). cbn [bind].
    rewrite Proofs.C12.as_u8_small by lia. exact (Proofs.C12.write_two_spec (y mod 100) DZero ltac:(lia)).
Qed.

Lemma pad_num_minus p w v : v < 0 -> p <> DSpace -> exists r, pad_num p w false v = 45 :: r.
Proof.
  intros Hv Hp. unfold pad_num. replace (v <? 0) with true by lia.
  destruct p; [eexists; reflexivity|eexists; reflexivity|contradiction].
Qed.

Theorem date_century_negative_refused y o d items : Proofs.C08Sweeps.repr y o d -> y < 0 -> In items century_items ->
  exists text,
    Model.Format.write_items (Model.Format.fa_of_date d) items [] = Model.Format.fok text /\
    (let+ p := parse parsed_new text items in pr_of (to_naive_date p)) = Val (PErr Model.Scan.Invalid).
Proof.
  intros H Hy Hin. set (dn := dn_of_yo y o).
  pose proof (args_view_date y o d H) as V. fold dn in V.
  pose proof (args_bounds _ _ V ltac:(cbn; lia)) as Bsv.
  pose proof (dseg_nil (Model.Format.fa_of_date d) (sv_of_date dn) None [] eq_refl) as S0.
  pose proof (cy_renders y o d H) as R1.
  assert (Ht : exists tail ttexts, items = CY_ITEMS ++ tail /\ Forall2 (renders (Model.Format.fa_of_date d)) tail ttexts).
  { cbn in Hin. destruct Hin as [<-|[<-|[<-|[<-|[]]]]].
    - destruct (md_seg _ _ None dn _ _ _ [] V eq_refl Bsv S0) as [(R & _) _]. rewrite app_nil_r in R.
      eexists; eexists; split; [reflexivity|exact R].
    - destruct (j_seg _ _ None dn _ _ _ [] V eq_refl Bsv S0) as [(R & _) _]. rewrite app_nil_r in R.
      eexists; eexists; split; [reflexivity|exact R].
    - destruct (wmon_seg _ _ None dn _ _ _ [] V eq_refl Bsv S0) as [(R & _) _]. rewrite app_nil_r in R.
      eexists; eexists; split; [reflexivity|exact R].
    - destruct (wsun_seg _ _ None dn _ _ _ [] V eq_refl Bsv S0) as [(R & _) _]. rewrite app_nil_r in R.
      eexists; eexists; split; [reflexivity|exact R]. }
  destruct Ht as (tail & ttexts & -> & R2).
  pose proof (write_items_texts _ _ _ [] (Forall2_app R1 R2)) as Hw. cbn [app] in Hw.
  eexists. split; [exact Hw|].
  destruct (pad_num_minus DZero 2 (y / 100) ltac:(lia) ltac:(discriminate)) as (r & Er).
  unfold cy_texts. cbn [app concat]. rewrite Er. cbn [app].
  unfold CY_ITEMS. cbn [app]. rewrite parse_century_minus. reflexivity.
Qed.

Example date_century_negative_refused_inhabited :
  Proofs.C08Sweeps.repr (-1) 365 (Proofs.C08Sweeps.mkdate (-1) 365) /\ -1 < 0 /\
  Proofs.C08Sweeps.repr (-262143) 1 (Proofs.C08Sweeps.mkdate (-262143) 1) /\ -262143 < 0.
Proof. repeat split; try reflexivity; lia. Qed.

(** * 8. Above the range: from year 10000 on the formatter prints a century of at least three
    digits (no sign, no padding), one more than the reader's century field takes (width 2 in the
    reader's table); the parse then fails on the shifted text ([century_boundary_refuted] shows
    it on 10000-01-01).  [date_century_wide_partial]: the general statement covers the formatter's
    side and the reader's width; the failure of the whole parse for EVERY year >= 10000 is shown
    on the example only (missing: the reader's run over the shifted digits for a symbolic year). *)
Theorem date_century_wide_partial y o d : Proofs.C08Sweeps.repr y o d -> 10000 <= y ->
  exists t, renders (Model.Format.fa_of_date d) (num0 N_YearDiv100) t /\
    forallb is_ascii_digit t = true /\ 3 <= blen t /\ digits_value t 0 = y / 100 /\
    numeric_entry N_YearDiv100 = Some (2, false, 1).
Proof.
  intros H Hy. pose proof (cy_renders y o d H) as R. unfold CY_ITEMS, cy_texts in R.
  assert (R1 : renders (Model.Format.fa_of_date d) (num0 N_YearDiv100) (pad_num DZero 2 false (y / 100)))
    by (inversion R; assumption).
  clear R. eexists. split; [exact R1|]. clear R1.
  unfold pad_num. replace (y / 100 <? 0) with false by lia. cbv beta iota zeta.
  change (digits (Z.abs (y / 100))) with (dec_nonneg (Z.abs (y / 100))).
  rewrite Z.abs_eq by lia.
  destruct (dec_nonneg_digits (y / 100) ltac:(lia)) as (Hd & Hl & Hval & Hub & Hlb).
  assert (H3 : 3 <= blen (dec_nonneg (y / 100))).
  { destruct (Z_le_gt_dec 3 (blen (dec_nonneg (y / 100)))) as [Hc|Hc]; [exact Hc|exfalso].
    assert (10 ^ blen (dec_nonneg (y / 100)) <= 10 ^ 2) by (apply Z.pow_le_mono_r; lia).
    change (10 ^ 2) with 100 in *. lia. }
  assert (Er : rep 48 (2 - dlen (dec_nonneg (y / 100)) - dlen []) = []).
  { unfold rep, dlen. unfold blen in H3. cbn [List.length].
    replace (Z.to_nat (2 - Z.of_nat (List.length (dec_nonneg (y / 100))) - Z.of_nat 0)) with 0%nat by lia. reflexivity. }
  rewrite Er. change ([] ++ [] ++ dec_nonneg (y / 100)) with (dec_nonneg (y / 100)). split; [exact Hd|]. split; [exact H3|]. split; [|reflexivity].
  rewrite Hval. lia.
Qed.
Example date_century_wide_partial_inhabited :
  Proofs.C08Sweeps.repr 10000 1 (Proofs.C08Sweeps.mkdate 10000 1) /\ 10000 <= 10000 /\
  Proofs.C08Sweeps.repr 262142 365 (Proofs.C08Sweeps.mkdate 262142 365) /\ 10000 <= 262142.
Proof. repeat split; try reflexivity; lia. Qed.
