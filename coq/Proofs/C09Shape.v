(** C09 -- show_shape: the texts of the model writers are the documented shapes as the judge
    states them (Judge/C09.v: [pad_dec] over the decimal printer of Base/IO.v, the fewest of
    0/3/6/9 fraction digits found by search, sign exactly outside 0..9999, second 60 for a leap
    second).  The judge's definitions are independent of the writers' ([dec_of_Z] / [find] vs
    [low_digits] / nested tests), so these are not restatements. *)
From Coq Require Import ZArith List Bool Lia ZifyBool String.
From V Require Import Base.Int Base.IntLemmas Base.IO Base.Utf8 Gen.TextForms Model.Rfc3339 Model.DateTime Model.Show Spec.Gregorian
  Proofs.Utf8 Proofs.Decimal Proofs.C09Parse Proofs.C09Show Proofs.C09Time Proofs.C09Date Proofs.C09DateTime Proofs.C09Zoned.
From V Require Model.Date Model.Time Judge.C09 Proofs.Date Proofs.C08.
Import ListNotations.
Open Scope Z_scope.
Ltac Zify.zify_post_hook ::= Z.to_euclidean_division_equations.
Import Proofs.Date.

Lemma pad_dec_fmt w n : 1 <= w -> 0 <= n -> Judge.C09.pad_dec (Z.to_nat w) n = fmt_zero_pad w n.
Proof.
  intros Hw Hn. unfold Judge.C09.pad_dec, dec_of_Z, fmt_zero_pad. replace (n <? 0) with false by lia.
  destruct (dec_nonneg_low n Hn) as (k & Hk & -> & Hb & Hl). rewrite low_digits_length.
  assert (Hpw : 0 < 10 ^ w) by (apply Z.pow_pos_nonneg; lia).
  destruct (n <? 10 ^ w) eqn:E.
  - assert (Hkw : (k <= Z.to_nat w)%nat).
    { destruct Hl as [-> | Hl]; [lia|].
      destruct (le_lt_dec k (Z.to_nat w)) as [Hle|Hgt]; [exact Hle|exfalso].
      assert (10 ^ w <= 10 ^ (Z.of_nat k - 1)) by (apply Z.pow_le_mono_r; lia). lia. }
    replace (Z.to_nat w) with ((Z.to_nat w - k) + k)%nat at 2 by lia.
    rewrite low_digits_pad by lia. reflexivity.
  - assert (Hkw : (Z.to_nat w < k)%nat).
    { destruct (le_lt_dec k (Z.to_nat w)) as [Hle|Hgt]; [exfalso|exact Hgt].
      assert (10 ^ Z.of_nat k <= 10 ^ w) by (apply Z.pow_le_mono_r; lia). lia. }
    replace (Z.to_nat w - k)%nat with 0%nat by lia. reflexivity.
Qed.
Lemma pad_dec_low w n : (1 <= w)%nat -> 0 <= n < 10 ^ Z.of_nat w -> Judge.C09.pad_dec w n = low_digits w n.
Proof.
  intros Hw Hn. rewrite <- (Nat2Z.id w) at 1. rewrite pad_dec_fmt by lia.
  rewrite fmt_zero_pad_low by lia. rewrite Nat2Z.id. reflexivity.
Qed.

Lemma year_shape y : year_txt y = Judge.C09.year_text y.
Proof.
  unfold year_txt, Judge.C09.year_text. destruct ((0 <=? y) && (y <=? 9999)) eqn:E.
  - rewrite pad_dec_low by (change (10 ^ Z.of_nat 4) with 10000; lia). reflexivity.
  - change 4%nat with (Z.to_nat 4). rewrite pad_dec_fmt by lia. destruct (y <? 0); reflexivity.
Qed.
Lemma date_shape y o : 1 <= C08.month_of y o <= 12 -> 1 <= C08.day_of y o <= 31 ->
  date_txt y (C08.month_of y o) (C08.day_of y o) = Judge.C09.date_text y o.
Proof.
  intros Hm Hd. unfold date_txt, Judge.C09.date_text, C08.month_of, C08.day_of in *.
  destruct (md_of_ordinal (is_leap y) o) as [m dd]. cbn [fst snd] in *.
  rewrite year_shape, !pad_dec_low by (change (10 ^ Z.of_nat 2) with 100; lia). reflexivity.
Qed.

Lemma frac_shape sub : 0 <= sub < 1000000000 -> frac_part sub = Judge.C09.frac_text sub.
Proof.
  intros H. unfold frac_part, Judge.C09.frac_text, Judge.C09.frac_digits. cbn [find].
  change (10 ^ (9 - 0)) with 1000000000. change (10 ^ (9 - 3)) with 1000000. change (10 ^ (9 - 6)) with 1000.
  change (10 ^ (9 - 9)) with 1.
  replace (sub mod 1000000000 =? 0) with (sub =? 0) by lia.
  destruct (sub =? 0) eqn:E0; [reflexivity|].
  destruct (sub mod 1000000 =? 0) eqn:E1.
  { cbn [Z.eqb Z.to_nat Pos.to_nat Pos.iter_op Nat.add]. rewrite pad_dec_low by (change (10 ^ Z.of_nat 3) with 1000; lia). reflexivity. }
  destruct (sub mod 1000 =? 0) eqn:E2.
  { cbn [Z.eqb Z.to_nat Pos.to_nat Pos.iter_op Nat.add]. rewrite pad_dec_low by (change (10 ^ Z.of_nat 6) with 1000000; lia). reflexivity. }
  rewrite Z.mod_1_r. cbn [Z.eqb Z.to_nat Pos.to_nat Pos.iter_op Nat.add]. rewrite Z.div_1_r.
  rewrite pad_dec_low by (change (10 ^ Z.of_nat 9) with 1000000000; lia). reflexivity.
Qed.
Lemma time_shape s f : 0 <= s < 86400 -> 0 <= f < 2000000000 -> time_txt s f = Judge.C09.time_text s f.
Proof.
  intros Hs Hf. unfold time_txt, Judge.C09.time_text.
  set (leap := 1000000000 <=? f). set (sub := if leap then f - 1000000000 else f).
  assert (Hsub : 0 <= sub < 1000000000) by (unfold sub, leap; destruct (1000000000 <=? f) eqn:E; lia).
  rewrite frac_shape by exact Hsub.
  rewrite !pad_dec_low; try (change (10 ^ Z.of_nat 2) with 100); try lia.
  - reflexivity.
  - unfold leap. destruct (1000000000 <=? f); lia.
Qed.
Lemma off_shape off : -86400 < off < 86400 -> off_txt off = Judge.C09.offset_text off.
Proof.
  intros H. unfold off_txt, Judge.C09.offset_text.
  rewrite !pad_dec_low by (change (10 ^ Z.of_nat 2) with 100; lia). destruct (off <? 0); reflexivity.
Qed.

(** * the theorems: writer text = documented text *)
Theorem shape_date y o d : repr y o d ->
  to_text (date_debug [] d) = Val (Judge.C09.date_text y o) /\ to_text (date_display [] d) = Val (Judge.C09.date_text y o).
Proof.
  intros H. destruct (repr_ymd y o d H) as (Hm & Hd & _). unfold date_display.
  rewrite (date_debug_text [] y o d H). cbn [app]. rewrite date_shape by assumption. split; reflexivity.
Qed.
Theorem shape_time t : tvalid t ->
  to_text (time_debug [] t) = Val (Judge.C09.time_text (Time.tsecs t) (Time.tfrac t)) /\
  to_text (time_display [] t) = Val (Judge.C09.time_text (Time.tsecs t) (Time.tfrac t)).
Proof.
  intros H. unfold time_display. rewrite time_debug_text by exact H. cbn [app].
  rewrite time_shape by apply H. split; reflexivity.
Qed.
Theorem shape_ndt y o d t : repr y o d -> tvalid t ->
  to_text (ndt_debug [] (mk_ndt d t)) = Val (Judge.C09.date_text y o ++ B"T" ++ Judge.C09.time_text (Time.tsecs t) (Time.tfrac t)) /\
  to_text (ndt_display [] (mk_ndt d t)) = Val (Judge.C09.date_text y o ++ B" " ++ Judge.C09.time_text (Time.tsecs t) (Time.tfrac t)).
Proof.
  intros H Ht. destruct (repr_ymd y o d H) as (Hm & Hd & _).
  rewrite (ndt_debug_text [] y o d t H Ht), (ndt_display_text [] y o d t H Ht). cbn [app]. unfold ndt_txt.
  rewrite date_shape, time_shape by (assumption || apply Ht). split; reflexivity.
Qed.
Theorem shape_fixed_offset off : -86400 < off < 86400 -> off mod 60 = 0 ->
  to_text (fixed_debug [] off) = Val (Judge.C09.offset_text off) /\ to_text (fixed_display [] off) = Val (Judge.C09.offset_text off).
Proof.
  intros Hr Hm. unfold fixed_display. rewrite fixed_debug_text by assumption. cbn [app].
  rewrite off_shape by exact Hr. split; reflexivity.
Qed.

(* date-times: the judge's wall clock is the local reading the writer prints *)
Theorem shape_dtz yu ou du su fu off utc : repr yu ou du -> time_dom (Time.mk_time su fu) ->
  -86400 < off < 86400 -> off mod 60 = 0 ->
  dn_in_range (dn_of_yo yu ou + (su + off) / 86400) = true ->
  let a := mk_dtz (mk_ndt du (Time.mk_time su fu)) off in
  let '(ly, lo, ls) := Judge.C09.wall yu ou su off in
  to_text (dtz_debug utc [] a) =
    Val (Judge.C09.date_text ly lo ++ B"T" ++ Judge.C09.time_text ls fu ++ (if utc then B"Z" else Judge.C09.offset_text off)) /\
  to_text (dtz_display utc [] a) =
    Val (Judge.C09.date_text ly lo ++ B" " ++ Judge.C09.time_text ls fu ++ B" " ++ (if utc then B"UTC" else Judge.C09.offset_text off)).
Proof.
  intros Hr Ht Ho Hm Hw a. unfold Judge.C09.wall.
  replace ((dn_of_yo yu ou * 86400 + su + off) / 86400) with (dn_of_yo yu ou + (su + off) / 86400) by lia.
  replace ((dn_of_yo yu ou * 86400 + su + off) mod 86400) with ((su + off) mod 86400) by lia.
  set (n := dn_of_yo yu ou + (su + off) / 86400) in *.
  destruct (yo_of_dn n) as [ly lo] eqn:Eyo.
  pose proof (local_repr yu ou su off Hw) as Hl. fold n in Hl. rewrite Eyo in Hl. cbn [fst snd] in Hl.
  destruct (repr_ymd ly lo _ Hl) as (Hmm & Hdd & _).
  pose proof (local_time_dom yu ou su fu off Ht Hm) as Hlt.
  unfold a. rewrite (dtz_debug_text yu ou du su fu off Hr Ht Ho Hm Hw utc), (dtz_display_text yu ou du su fu off Hr Ht Ho Hm Hw utc).
  unfold zoned_txt, ndt_txt. fold n. rewrite Eyo. cbn [fst snd to_text unwrap_r bind unwrap wok].
  rewrite date_shape by assumption. rewrite time_shape by apply Hlt.
  rewrite off_shape by exact Ho.
  split; destruct utc; repeat (rewrite <- app_assoc; cbn [app]); reflexivity.
Qed.

(** * inhabitants *)
Lemma ex_dates : repr (-262143) 1 (mkdate (-262143) 1) /\ repr 10000 366 (mkdate 10000 366).
Proof. split; (split; [reflexivity|split; reflexivity]). Qed.
Lemma ex_times : time_dom (Time.mk_time 86399 1999999999) /\ time_dom (Time.mk_time 0 0).
Proof. split; (split; [split; cbn; lia|cbn; lia]). Qed.
Lemma ex_dtz : dtz_dom (mk_dtz (mk_ndt (mkdate 2016 366) (Time.mk_time 86399 1500000000)) (-34200)).
Proof.
  exists 2016, 366. cbn [dz_utc dz_off nd_date nd_time Time.tsecs].
  split; [split; [reflexivity|split; reflexivity]|]. split; [split; [split; cbn; lia|cbn; lia]|].
  split; [lia|]. split; reflexivity.
Qed.
