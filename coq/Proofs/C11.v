(** C11 -- proofs relating the RFC 2822 reader/writer model (Model/Rfc2822.v, Model/Scan.v) to the
    specification (Spec/Rfc2822.v). *)
From Coq Require Import ZArith List Bool Lia ZifyBool.
From V Require Import Base.Int Base.IO Base.Utf8 Gen.ScanTables Gen.Rfc2822Consts Model.Scan Model.DateTime
  Model.Rfc2822 Spec.Gregorian Spec.Rfc2822 Proofs.Utf8 Proofs.Scan.
Import ListNotations.
Open Scope Z_scope.

(** * The literals of the Rust source the hand-written parts of the model and the proofs rely on
    (a change of any of them in the source breaks this lemma, hence the check) *)
Lemma consts_tie :
  (C2_OPEN, C2_START_DEPTH, C2_CLOSE_DEPTH, C2_CLOSE, C2_ESCAPE, C2_NEST_OPEN, C2_NEST_CLOSE) = (40, 1, 1, 41, 92, 40, 41)
  /\ (R2_DAY_MIN, R2_DAY_MAX, R2_YEAR_MIN, R2_YEAR_MAX) = (1, 2, 2, 18446744073709551615)
  /\ (R2_HOUR_MIN, R2_HOUR_MAX, R2_MINUTE_MIN, R2_MINUTE_MAX, R2_SECOND_MIN, R2_SECOND_MAX) = (2, 2, 2, 2, 2, 2)
  /\ (R2_WEEKDAY_SEP, R2_TIME_SEP1, R2_TIME_SEP2, R2_MONTH_ADD) = (44, 58, 58, 1)
  /\ (W2_YEAR_LO, W2_YEAR_HI, W2_DAY_PAD_BELOW, W2_LEAP_DIV, W2_YEAR_DIV, W2_YEAR_MOD) = (0, 9999, 10, 1000000000, 100, 100)
  /\ (W2_OF_PRECISION, W2_OF_COLONS, W2_OF_ALLOW_ZULU, W2_OF_PADDING) = (1, 0, 0, 1).
Proof. repeat split; reflexivity. Qed.

(** * The year-length rule *)
Definition year_rule_spec (yearlen year : Z) : Z :=
  year_of (mk_fields None 1 1 yearlen year 0 0 None ZMil).
Lemma year_rule_ok yearlen year :
  2 <= yearlen -> 0 <= year < 10 ^ yearlen -> year <= i64_max - 2000 ->
  year_rule yearlen year = Val (year_rule_spec yearlen year).
Proof.
  intros Hl Hy Hm. unfold year_rule, year_rule_spec, year_of. cbn [f_ylen f_yval].
  unfold R2_YEAR_ARM1_LEN, R2_YEAR_ARM1_LO, R2_YEAR_ARM1_HI, R2_YEAR_ARM1_ADD,
    R2_YEAR_ARM2_LEN, R2_YEAR_ARM2_LO, R2_YEAR_ARM2_HI, R2_YEAR_ARM2_ADD, R2_YEAR_ARM3_LEN, R2_YEAR_ARM3_ADD.
  unfold add_i64, chk, in_i64, in_range, i64_min, i64_max in *.
  destruct (yearlen =? 2) eqn:E2.
  - assert (yearlen = 2) by lia. subst. change (10 ^ 2) with 100 in Hy.
    destruct (year <=? 49) eqn:E49.
    + replace ((true && (0 <=? year)) && true) with true by lia.
      replace ((-9223372036854775808 <=? year + 2000) && (year + 2000 <=? 9223372036854775807)) with true by lia.
      f_equal. lia.
    + replace ((true && (0 <=? year)) && false) with false by lia.
      replace ((true && (50 <=? year)) && (year <=? 99)) with true by lia.
      replace ((-9223372036854775808 <=? year + 1900) && (year + 1900 <=? 9223372036854775807)) with true by lia.
      f_equal. lia.
  - cbn [andb]. destruct (yearlen =? 3) eqn:E3; [|reflexivity].
    replace ((-9223372036854775808 <=? year + 1900) && (year + 1900 <=? 9223372036854775807)) with true by lia.
    f_equal. lia.
Qed.
