(** C11 -- proofs relating the RFC 2822 reader/writer model (Model/Rfc2822.v, Model/Scan.v) to the
    specification (Spec/Rfc2822.v). *)
From Coq Require Import ZArith List Bool Lia ZifyBool.
From V Require Model.Date Model.Time.
From V Require Import Base.Int Base.IO Base.Utf8 Gen.ScanTables Gen.Rfc2822Consts Model.Scan Model.DateTime
  Model.Rfc2822 Spec.Gregorian Spec.Rfc2822 Proofs.Utf8 Proofs.Scan.
Import ListNotations.
Open Scope Z_scope.

(** * The literals of the Rust source the hand-written parts of the model and the proofs rely on
    (a change of any of them in the source breaks this lemma, hence the check) *)
Lemma consts_tie :
  (C2_OPEN, C2_START_DEPTH, C2_CLOSE_DEPTH, C2_CLOSE, C2_ESCAPE, C2_NEST_OPEN, C2_NEST_CLOSE) = (40, 1, 1, 41, 92, 40, 41)
  /\ (R2_DAY_MIN, R2_DAY_MAX, R2_YEAR_MIN, R2_YEAR_MAX) = (1, 2, 2, 18446744073709551615)
  /\ (R2_HOUR_MIN, R2_HOUR_MAX, R2_MINUTE_MIN, R2_MINUTE_MAX, R2_SECOND_MIN, R2_SECOND_MAX) = (2, 2, 2, 2, 2, 2)
  /\ (R2_WEEKDAY_SEP, R2_TIME_SEP1, R2_TIME_SEP2, R2_MONTH_ADD) = (44, 58, 58, 1)
  /\ (W2_YEAR_LO, W2_YEAR_HI, W2_DAY_PAD_BELOW, W2_LEAP_DIV, W2_YEAR_DIV, W2_YEAR_MOD) = (0, 9999, 10, 1000000000, 100, 100)
  /\ (W2_OF_PRECISION, W2_OF_COLONS, W2_OF_ALLOW_ZULU, W2_OF_PADDING) = (1, 0, 0, 1)
  /\ R2_SECOND_TRIM = 1
  (* the military letters of RFC 2822 section 4.3: A-I and K-Z (Z is in the name table), either case *)
  /\ TZ2822_MILITARY = [(97, 105); (107, 121); (65, 73); (75, 89)]
  /\ map snd TZ2822_NAMES = [0; 0; 0; -4; -5; -5; -6; -6; -7; -7; -8].
Proof. repeat split; reflexivity. Qed.

(** * The year-length rule *)
Definition year_rule_spec (yearlen year : Z) : Z :=
  year_of (mk_fields None 1 1 yearlen year 0 0 None ZMil).
Lemma year_rule_ok yearlen year :
  2 <= yearlen -> 0 <= year < 10 ^ yearlen -> year <= i64_max - 2000 ->
  year_rule yearlen year = Val (year_rule_spec yearlen year).
Proof.
  intros Hl Hy Hm. unfold year_rule, year_rule_spec, year_of. cbn [f_ylen f_yval].
  unfold R2_YEAR_ARM1_LEN, R2_YEAR_ARM1_LO, R2_YEAR_ARM1_HI, R2_YEAR_ARM1_ADD,
    R2_YEAR_ARM2_LEN, R2_YEAR_ARM2_LO, R2_YEAR_ARM2_HI, R2_YEAR_ARM2_ADD, R2_YEAR_ARM3_LEN, R2_YEAR_ARM3_ADD.
  unfold add_i64, chk, in_i64, in_range, i64_min, i64_max in *.
  destruct (yearlen =? 2) eqn:E2.
  - assert (yearlen = 2) by lia. subst. change (10 ^ 2) with 100 in Hy.
    destruct (year <=? 49) eqn:E49.
    + replace ((true && (0 <=? year)) && true) with true by lia.
      replace ((-9223372036854775808 <=? year + 2000) && (year + 2000 <=? 9223372036854775807)) with true by lia.
      f_equal. lia.
    + replace ((true && (0 <=? year)) && false) with false by lia.
      replace ((true && (50 <=? year)) && (year <=? 99)) with true by lia.
      replace ((-9223372036854775808 <=? year + 1900) && (year + 1900 <=? 9223372036854775807)) with true by lia.
      f_equal. lia.
  - cbn [andb]. destruct (yearlen =? 3) eqn:E3; [|reflexivity].
    replace ((-9223372036854775808 <=? year + 1900) && (year + 1900 <=? 9223372036854775807)) with true by lia.
    f_equal. lia.
Qed.

(** * Comments *)
(** in well-formed UTF-8 the byte after an ASCII byte starts a scalar value *)
Lemma ascii_split_ok : forall n s, (List.length s <= n)%nat -> utf8_valid s = true ->
  forall pre c rest, s = pre ++ c :: rest -> 0 <= c <= 127 -> utf8_valid rest = true.
Proof.
  induction n as [|n IH]; intros s Hn Hv pre c rest Hs Hc.
  { destruct s; [destruct pre; discriminate|cbn in Hn; lia]. }
  destruct s as [|a r]; [destruct pre; discriminate|].
  cbn [utf8_valid] in Hv. cbn [List.length] in Hn.
  destruct ((0 <=? a) && (a <=? 127)) eqn:E1.
  { destruct pre as [|p pre].
    - cbn [app] in Hs. injection Hs as -> ->. exact Hv.
    - cbn [app] in Hs. injection Hs as -> ->. eapply (IH (pre ++ c :: rest)); [lia|exact Hv|reflexivity|exact Hc]. }
  destruct ((194 <=? a) && (a <=? 223)) eqn:E2.
  { destruct r as [|b r']; [discriminate|]. apply andb_prop in Hv. destruct Hv as [Hb Hv]. unfold cont in Hb.
    destruct pre as [|p [|p2 pre]]; cbn [app] in Hs.
    - injection Hs as -> _. lia.
    - injection Hs as _ -> _. lia.
    - injection Hs as _ _ ->. cbn [List.length] in Hn. eapply (IH (pre ++ c :: rest)); [lia|exact Hv|reflexivity|exact Hc]. }
  destruct ((224 <=? a) && (a <=? 239)) eqn:E3.
  { destruct r as [|b [|c2 r']]; try discriminate.
    apply andb_prop in Hv. destruct Hv as [Hv Hv']. apply andb_prop in Hv. destruct Hv as [Hb Hc2]. unfold cont in *.
    assert (128 <= b) by (destruct (a =? 224); [lia|destruct (a =? 237); lia]).
    destruct pre as [|p [|p2 [|p3 pre]]]; cbn [app] in Hs.
    - injection Hs as -> _. lia.
    - injection Hs as _ -> _. lia.
    - injection Hs as _ _ -> _. lia.
    - injection Hs as _ _ _ ->. cbn [List.length] in Hn. eapply (IH (pre ++ c :: rest)); [lia|exact Hv'|reflexivity|exact Hc]. }
  destruct ((240 <=? a) && (a <=? 244)) eqn:E4; [|discriminate].
  destruct r as [|b [|c2 [|d r']]]; try discriminate.
  apply andb_prop in Hv. destruct Hv as [Hv Hv']. apply andb_prop in Hv. destruct Hv as [Hv Hd].
  apply andb_prop in Hv. destruct Hv as [Hb Hc2]. unfold cont in *.
  assert (128 <= b) by (destruct (a =? 240); [lia|destruct (a =? 244); lia]).
  destruct pre as [|p [|p2 [|p3 [|p4 pre]]]]; cbn [app] in Hs.
  - injection Hs as -> _. lia.
  - injection Hs as _ -> _. lia.
  - injection Hs as _ _ -> _. lia.
  - injection Hs as _ _ _ -> _. lia.
  - injection Hs as _ _ _ _ ->. cbn [List.length] in Hn. eapply (IH (pre ++ c :: rest)); [lia|exact Hv'|reflexivity|exact Hc].
Qed.
Lemma after_ascii_valid pre c rest : utf8_valid (pre ++ c :: rest) = true -> 0 <= c <= 127 -> utf8_valid rest = true.
Proof. intros Hv Hc. eapply ascii_split_ok; [apply le_n|exact Hv|reflexivity|exact Hc]. Qed.
Lemma after_ascii_ok pre c rest : utf8_valid (pre ++ c :: rest) = true -> 0 <= c <= 127 -> starts_ok rest = true.
Proof. intros Hv Hc. apply utf8_valid_starts_ok. eapply after_ascii_valid; eassumption. Qed.

(** the state machine of [scan::comment_2822] without slicing and overflow checks *)
Fixpoint cpure (l : bytes) (state : comment_state) : presult bytes :=
  match l with
  | [] => PErr TooShort
  | c :: r =>
    match state with
    | CStart => if c =? 40 then cpure r (CNext 1) else PErr Invalid
    | CNext d =>
        if (d =? 1) && (c =? 41) then POk r
        else if c =? 92 then cpure r (CEscape d)
        else if c =? 40 then cpure r (CNext (d + 1))
        else if c =? 41 then cpure r (CNext (d - 1))
        else cpure r (CNext d)
    | CEscape d => cpure r (CNext d)
    end
  end.
Definition with_unit (r : presult bytes) : presult (bytes * unit) :=
  match r with POk x => POk (x, tt) | PErr e => PErr e end.
Definition state_ok (st : comment_state) (i : Z) : Prop :=
  match st with CStart => True | CNext d | CEscape d => 1 <= d <= i end.

Lemma comment_loop_ok : forall l pre st,
  utf8_valid (pre ++ l) = true -> blen (pre ++ l) <= u64_max -> state_ok st (blen pre) ->
  comment_loop (pre ++ l) l (blen pre) st = Val (with_unit (cpure l st)).
Proof.
  induction l as [|c r IH]; intros pre st Hv Hlen Hst; [reflexivity|].
  assert (Hsplit : pre ++ c :: r = (pre ++ [c]) ++ r) by (rewrite <- app_assoc; reflexivity).
  assert (Hb : blen (pre ++ [c]) = blen pre + 1) by (rewrite blen_app; reflexivity).
  assert (Hle : blen pre + 1 <= u64_max).
  { rewrite blen_app, blen_cons in Hlen. pose proof (blen_nonneg r). lia. }
  pose proof (blen_nonneg pre) as Hp0.
  cbn [comment_loop cpure]. destruct st as [|d|d]; cbn [state_ok] in Hst.
  - destruct (c =? 40) eqn:E; [|reflexivity].
    rewrite Hsplit, <- Hb. apply IH; [rewrite <- Hsplit; exact Hv|rewrite <- Hsplit; exact Hlen|].
    cbn [state_ok]. lia.
  - destruct ((d =? 1) && (c =? 41)) eqn:E1.
    { assert (c = 41) by lia. subst c.
      unfold add_usize, chk, in_usize, in_u64, in_range. unfold u64_max in *.
      replace ((0 <=? blen pre + 1) && (blen pre + 1 <=? 18446744073709551615)) with true by lia.
      cbn [bind]. rewrite Hsplit, <- Hb, str_from_app; [reflexivity|].
      eapply after_ascii_ok; [exact Hv|lia]. }
    destruct (c =? 92) eqn:E2.
    { rewrite Hsplit, <- Hb. apply IH; [rewrite <- Hsplit; exact Hv|rewrite <- Hsplit; exact Hlen|cbn [state_ok]; lia]. }
    destruct (c =? 40) eqn:E3.
    { unfold add_usize, chk, in_usize, in_u64, in_range. unfold u64_max in *.
      replace ((0 <=? d + 1) && (d + 1 <=? 18446744073709551615)) with true by lia. cbn [bind].
      rewrite Hsplit, <- Hb. apply IH; [rewrite <- Hsplit; exact Hv|rewrite <- Hsplit; exact Hlen|cbn [state_ok]; lia]. }
    destruct (c =? 41) eqn:E4.
    { unfold sub_usize, chk, in_usize, in_u64, in_range. unfold u64_max in *.
      replace ((0 <=? d - 1) && (d - 1 <=? 18446744073709551615)) with true by lia. cbn [bind].
      rewrite Hsplit, <- Hb. apply IH; [rewrite <- Hsplit; exact Hv|rewrite <- Hsplit; exact Hlen|cbn [state_ok]; lia]. }
    rewrite Hsplit, <- Hb. apply IH; [rewrite <- Hsplit; exact Hv|rewrite <- Hsplit; exact Hlen|cbn [state_ok]; lia].
  - rewrite Hsplit, <- Hb. apply IH; [rewrite <- Hsplit; exact Hv|rewrite <- Hsplit; exact Hlen|cbn [state_ok]; lia].
Qed.

(** trim_start keeps well-formedness and does not lengthen *)
Lemma trim_fuel_valid p : forall fuel s, utf8_valid s = true ->
  utf8_valid (trim_start_matches_fuel fuel p s) = true /\ blen (trim_start_matches_fuel fuel p s) <= blen s.
Proof.
  induction fuel as [|f IH]; intros s Hv; [cbn [trim_start_matches_fuel]; split; [exact Hv|lia]|].
  cbn [trim_start_matches_fuel].
  destruct s as [|a r]; [cbn; split; [reflexivity|lia]|].
  pose proof Hv as Hv0. cbn [utf8_valid] in Hv.
  cbn [next_code_point].
  destruct ((0 <=? a) && (a <=? 127)) eqn:E1.
  { replace (a <? 128) with true by lia. destruct (p a); [|split; [exact Hv0|lia]].
    destruct (IH r Hv) as [H1 H2]. split; [exact H1|rewrite blen_cons; lia]. }
  assert (Ha : 194 <= a).
  { destruct ((194 <=? a) && (a <=? 223)) eqn:X2; [lia|]. destruct ((224 <=? a) && (a <=? 239)) eqn:X3; [lia|].
    destruct ((240 <=? a) && (a <=? 244)) eqn:X4; [lia|discriminate]. }
  replace (a <? 128) with false by lia.
  destruct ((194 <=? a) && (a <=? 223)) eqn:E2.
  { destruct r as [|b r']; [discriminate|]. apply andb_prop in Hv. destruct Hv as [_ Hv].
    replace (a <? 224) with true by lia.
    match goal with |- context [if p ?x then _ else _] => destruct (p x) end; [|split; [exact Hv0|lia]].
    destruct (IH r' Hv) as [H1 H2]. split; [exact H1|rewrite !blen_cons; lia]. }
  replace (a <? 224) with false by lia.
  destruct ((224 <=? a) && (a <=? 239)) eqn:E3.
  { destruct r as [|b [|c r']]; try discriminate. apply andb_prop in Hv. destruct Hv as [_ Hv].
    replace (a <? 240) with true by lia.
    match goal with |- context [if p ?x then _ else _] => destruct (p x) end; [|split; [exact Hv0|lia]].
    destruct (IH r' Hv) as [H1 H2]. split; [exact H1|rewrite !blen_cons; lia]. }
  replace (a <? 240) with false by lia.
  destruct ((240 <=? a) && (a <=? 244)) eqn:E4; [|discriminate].
  destruct r as [|b [|c [|d r']]]; try discriminate. apply andb_prop in Hv. destruct Hv as [_ Hv].
  match goal with |- context [if p ?x then _ else _] => destruct (p x) end; [|split; [exact Hv0|lia]].
  destruct (IH r' Hv) as [H1 H2]. split; [exact H1|rewrite !blen_cons; lia].
Qed.
Lemma trim_start_valid s : utf8_valid s = true -> utf8_valid (trim_start s) = true /\ blen (trim_start s) <= blen s.
Proof. intros H. apply trim_fuel_valid; exact H. Qed.

(** [scan::comment_2822] never traps on a well-formed string and is its state machine *)
Definition comment_pure (s : bytes) : presult (bytes * unit) := with_unit (cpure (trim_start s) CStart).
Theorem comment_2822_ok s : utf8_valid s = true -> blen s <= u64_max ->
  comment_2822 s = Val (comment_pure s).
Proof.
  intros Hv Hl. unfold comment_2822, comment_pure.
  destruct (trim_start_valid s Hv) as [Hv' Hl'].
  apply (comment_loop_ok (trim_start s) [] CStart); [exact Hv'|cbn [app]; lia|exact I].
Qed.

(** ** the state machine accepts exactly balanced parenthesised text with escapes *)
Fixpoint closes (d : nat) (l rest : bytes) : Prop :=
  match d with
  | O => l = rest
  | S d' => exists a l', ccontent a /\ l = a ++ 41 :: l' /\ closes d' l' rest
  end.
Lemma closes_text d c l rest : c <> 40 -> c <> 41 -> c <> 92 -> closes (S d) l rest -> closes (S d) (c :: l) rest.
Proof.
  intros H1 H2 H3 (a & l' & Ha & -> & Hc). exists (c :: a), l'. split; [apply cc_text; assumption|]. split; [reflexivity|exact Hc].
Qed.
Lemma closes_quoted d c l rest : closes (S d) l rest -> closes (S d) (92 :: c :: l) rest.
Proof.
  intros (a & l' & Ha & -> & Hc). exists (92 :: c :: a), l'. split; [apply cc_quoted; exact Ha|]. split; [reflexivity|exact Hc].
Qed.
Lemma closes_nested d l rest : closes (S (S d)) l rest -> closes (S d) (40 :: l) rest.
Proof.
  intros (a & l' & Ha & -> & (a2 & l'' & Ha2 & -> & Hc)).
  exists (40 :: a ++ 41 :: a2), l''. split; [apply cc_nested; assumption|]. split; [|exact Hc].
  cbn [app]. rewrite <- app_assoc. reflexivity.
Qed.
Lemma closes_close d l rest : closes d l rest -> closes (S d) (41 :: l) rest.
Proof. intros H. exists [], l. split; [constructor|]. split; [reflexivity|exact H]. Qed.

Lemma cpure_sound rest : forall l,
  (forall d, (1 <= d)%nat -> cpure l (CNext (Z.of_nat d)) = POk rest -> closes d l rest) /\
  (forall d, (1 <= d)%nat -> cpure l (CEscape (Z.of_nat d)) = POk rest -> exists c l', l = c :: l' /\ closes d l' rest).
Proof.
  induction l as [|c r [IH1 IH2]]; [split; intros d Hd H; discriminate|].
  split; intros d Hd H; cbn [cpure] in H.
  - destruct ((Z.of_nat d =? 1) && (c =? 41)) eqn:E1.
    { injection H as <-. assert (d = 1%nat) by lia. assert (c = 41) by lia. subst. apply closes_close. reflexivity. }
    destruct d as [|d]; [lia|].
    destruct (c =? 92) eqn:E2.
    { assert (c = 92) by lia. subst c. destruct (IH2 (S d) Hd H) as (c' & l' & -> & Hc). apply closes_quoted. exact Hc. }
    destruct (c =? 40) eqn:E3.
    { assert (c = 40) by lia. subst c. apply closes_nested. apply IH1; [lia|].
      replace (Z.of_nat (S (S d))) with (Z.of_nat (S d) + 1) by lia. exact H. }
    destruct (c =? 41) eqn:E4.
    { assert (c = 41) by lia. subst c. destruct d as [|d]; [lia|]. apply closes_close. apply IH1; [lia|].
      replace (Z.of_nat (S d)) with (Z.of_nat (S (S d)) - 1) by lia. exact H. }
    apply closes_text; [lia|lia|lia|]. apply IH1; [lia|exact H].
  - exists c, r. split; [reflexivity|]. apply IH1; [exact Hd|exact H].
Qed.
Lemma cpure_content a : ccontent a -> forall r d, 1 <= d -> cpure (a ++ r) (CNext d) = cpure r (CNext d).
Proof.
  induction 1 as [|c a H1 H2 H3 Ha IH|c a Ha IH|a a2 Ha IHa Ha2 IHa2]; intros r d Hd.
  - reflexivity.
  - cbn [app cpure]. replace ((d =? 1) && (c =? 41)) with false by lia.
    replace (c =? 92) with false by lia. replace (c =? 40) with false by lia. replace (c =? 41) with false by lia.
    apply IH; exact Hd.
  - cbn [app cpure]. replace ((d =? 1) && (92 =? 41)) with false by lia. cbn [Z.eqb Pos.eqb]. apply IH; exact Hd.
  - cbn [app cpure]. replace ((d =? 1) && (40 =? 41)) with false by lia. cbn [Z.eqb Pos.eqb].
    rewrite <- app_assoc. rewrite IHa by lia. cbn [app cpure].
    replace ((d + 1 =? 1) && (41 =? 41)) with false by lia. cbn [Z.eqb Pos.eqb].
    replace (d + 1 - 1) with d by lia. apply IHa2; exact Hd.
Qed.
(** the scanner, after the opening parenthesis, accepts exactly [a ++ ")" ++ rest] with [a] the
    content of a comment, and returns [rest] *)
Theorem cpure_exact l rest :
  cpure l (CNext 1) = POk rest <-> exists a, ccontent a /\ l = a ++ 41 :: rest.
Proof.
  split.
  - intros H. destruct (proj1 (cpure_sound rest l) 1%nat (le_n _) H) as (a & l' & Ha & -> & Hc).
    cbn [closes] in Hc. subst l'. exists a. split; [exact Ha|reflexivity].
  - intros (a & Ha & ->). rewrite cpure_content by (exact Ha || lia). reflexivity.
Qed.
Theorem comment_exact s rest : utf8_valid s = true -> blen s <= u64_max ->
  (comment_2822 s = Val (POk (rest, tt)) <-> exists a, ccontent a /\ trim_start s = 40 :: a ++ 41 :: rest).
Proof.
  intros Hv Hl. rewrite comment_2822_ok by assumption. unfold comment_pure.
  destruct (trim_start s) as [|c r] eqn:E.
  { cbn. split; [discriminate|intros (a & _ & H); discriminate]. }
  cbn [cpure]. destruct (c =? 40) eqn:E40.
  - assert (c = 40) by lia. subst c. destruct (cpure r (CNext 1)) as [x|e] eqn:Ec; cbn [with_unit].
    + split.
      * intros H. injection H as ->. apply cpure_exact in Ec. destruct Ec as (a & Ha & ->). exists a. split; [exact Ha|reflexivity].
      * intros (a & Ha & H). injection H as ->. assert (Hx : cpure (a ++ 41 :: rest) (CNext 1) = POk rest) by (apply cpure_exact; exists a; split; [exact Ha|reflexivity]).
        rewrite Hx in Ec. injection Ec as ->. reflexivity.
    + split; [discriminate|]. intros (a & Ha & H). injection H as ->.
      assert (Hx : cpure (a ++ 41 :: rest) (CNext 1) = POk rest) by (apply cpure_exact; exists a; split; [exact Ha|reflexivity]).
      rewrite Hx in Ec. discriminate.
  - cbn [with_unit]. split; [discriminate|]. intros (a & _ & H). injection H as -> _. lia.
Qed.

(** the year guard of the writer: outside 0..9999 [write_rfc2822] reports [fmt::Error], which
    [to_rfc2822] turns into the documented panic *)
Lemma write_year_guard w dt off : ~ (0 <= Date.d_year (nd_date dt) <= 9999) -> write_rfc2822 w dt off = Val None.
Proof.
  intros H. unfold write_rfc2822, W2_YEAR_LO, W2_YEAR_HI.
  replace ((0 <=? Date.d_year (nd_date dt)) && (Date.d_year (nd_date dt) <=? 9999)) with false by lia. reflexivity.
Qed.
Lemma to_rfc2822_panics a naive : overflowing_naive_local a = Val naive ->
  ~ (0 <= Date.d_year (nd_date naive) <= 9999) -> to_rfc2822 a = Panic.
Proof.
  intros Hn Hy. unfold to_rfc2822. rewrite Hn. cbn [bind]. rewrite write_year_guard by exact Hy. reflexivity.
Qed.
