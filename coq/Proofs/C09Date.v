(** C09 -- NaiveDate: resolution of (year, month, day) by [Parsed::to_naive_date] (the verifier
    closures it always evaluates never trap on a represented date), the printed text, and the
    round trip for every represented date. *)
From Coq Require Import ZArith List Bool Lia ZifyBool String.
From V Require Import Base.Int Base.IntLemmas Base.IO Base.Utf8 Gen.DateTables Gen.TextForms Gen.ParseTable Model.Scan Model.Items
  Model.Rfc3339 Model.Parse Model.FromStr Model.Show Spec.Gregorian
  Proofs.Utf8 Proofs.Scan Proofs.Decimal Proofs.C09Parse Proofs.C09Show Proofs.C09Time.
From V Require Model.Parsed Model.Date Proofs.C14 Proofs.Date Proofs.C08.
Import ListNotations.
Open Scope Z_scope.
Ltac Zify.zify_post_hook ::= Z.to_euclidean_division_equations.

Import Model.Parsed.
Import Proofs.Date.

(** * i32 facts *)
Lemma in_i32_iff z : in_i32 z = true <-> -2147483648 <= z <= 2147483647.
Proof. unfold in_i32, in_range, i32_min, i32_max. lia. Qed.
Lemma in_i32_shiftr z : in_i32 z = true <-> (Z.shiftr z 31 = 0 \/ Z.shiftr z 31 = -1).
Proof. rewrite in_i32_iff, Z.shiftr_div_pow2 by lia. change (2 ^ 31) with 2147483648. lia. Qed.
Lemma lor_in_i32 a b : in_i32 a = true -> in_i32 b = true -> in_i32 (Z.lor a b) = true.
Proof.
  rewrite !in_i32_shiftr, Z.shiftr_lor. intros [-> | ->] [-> | ->]; cbn; auto.
Qed.
Lemma as_i32_in z : in_i32 (as_i32 z) = true.
Proof.
  unfold as_i32, wrap_s. change (2 ^ 32) with 4294967296. change (2 ^ (32 - 1)) with 2147483648.
  apply in_i32_iff. pose proof (Z.mod_pos_bound z 4294967296 ltac:(lia)).
  destruct (z mod 4294967296 <? 2147483648) eqn:E; lia.
Qed.

(** * the ISO week and the week-from counters of a represented date are computed without a trap *)
Lemma isoweek_delta_ok f : 1 <= f <= 15 -> exists delta, Date.yf_isoweek_delta f = Val delta /\ 1 <= delta <= 9.
Proof.
  intros H.
  assert (E : f = 1 \/ f = 2 \/ f = 3 \/ f = 4 \/ f = 5 \/ f = 6 \/ f = 7 \/ f = 8 \/ f = 9 \/ f = 10 \/ f = 11
              \/ f = 12 \/ f = 13 \/ f = 14 \/ f = 15) by lia.
  repeat (destruct E as [-> | E]); try subst f; vm_compute; eexists; (split; [reflexivity|split; discriminate]).
Qed.
Lemma nisoweeks_ok f : 1 <= f <= 15 -> exists n, Date.yf_nisoweeks f = Val n /\ 52 <= n <= 53.
Proof.
  intros H.
  assert (E : f = 1 \/ f = 2 \/ f = 3 \/ f = 4 \/ f = 5 \/ f = 6 \/ f = 7 \/ f = 8 \/ f = 9 \/ f = 10 \/ f = 11
              \/ f = 12 \/ f = 13 \/ f = 14 \/ f = 15) by lia.
  repeat (destruct E as [-> | E]); try subst f; vm_compute; eexists; (split; [reflexivity|split; discriminate]).
Qed.
Lemma yflags_range y : 1 <= yflags y <= 15.
Proof. destruct (yflags_facts y) as (_ & H & _). exact H. Qed.

Lemma iso_week_ok y o d : repr y o d -> exists w, Date.d_iso_week d = Val w /\ in_i32 w = true.
Proof.
  intros H. pose proof H as (Hy & Ho & Hd).
  pose proof (C08.repr_md y o d H) as (E1 & E2 & _).
  pose proof (repr_acc y o d H) as A. destruct (md_of_ordinal (is_leap y) o) as [m dd].
  destruct A as (_ & _ & E3 & _).
  unfold Date.d_iso_week. rewrite E1, E2, E3. unfold Date.isoweek_from_yof.
  pose proof (year_range_bounds y Hy) as Hyb.
  rewrite valid_yo_iff in Ho.
  assert (Hob : 1 <= o <= 366) by (destruct (is_leap y); lia).
  destruct (isoweek_delta_ok (yflags y) (yflags_range y)) as (delta & -> & Hdelta). cbn [bind].
  unfold add_u32. rewrite chk_in by (unfold in_u32, in_range, u32_max; lia). cbn [bind].
  unfold div_u32. rewrite div_t_nz by lia. rewrite Z.quot_div_nonneg by lia.
  rewrite chk_in by (unfold in_u32, in_range, u32_max; lia). cbn [bind].
  assert (Hfin : forall year week, -262144 <= year <= 262143 -> 0 <= week <= 53 ->
            exists w, (let* flags := Date.yf_from_year year in
                       Val (Z.lor (Z.lor (Date.shl_i32 year IW_YEAR_SHIFT) (as_i32 (Date.shl_u32 week IW_WEEK_SHIFT))) flags)) = Val w
                      /\ in_i32 w = true).
  { intros year week Hyr Hwk. rewrite yf_from_year_spec by (apply in_i32_iff; lia). cbn [bind].
    eexists. split; [reflexivity|]. apply lor_in_i32; [apply lor_in_i32|].
    - unfold Date.shl_i32. apply as_i32_in.
    - apply as_i32_in.
    - pose proof (yflags_range year). apply in_i32_iff. lia. }
  destruct ((o + delta) / 7 <? 1) eqn:Er.
  - unfold sub_i32. rewrite chk_in by (apply in_i32_iff; lia). cbn [bind].
    rewrite yf_from_year_spec by (apply in_i32_iff; lia). cbn [bind].
    destruct (nisoweeks_ok (yflags (y - 1)) (yflags_range (y - 1))) as (n & -> & Hn). cbn [bind].
    apply Hfin; lia.
  - destruct (nisoweeks_ok (yflags y) (yflags_range y)) as (n & -> & Hn). cbn [bind].
    destruct (n <? (o + delta) / 7) eqn:El.
    + unfold add_i32. rewrite chk_in by (apply in_i32_iff; lia). cbn [bind]. apply Hfin; lia.
    + cbn [bind]. apply Hfin; lia.
Qed.

Lemma weeks_from_ok y o d day : repr y o d -> 0 <= day <= 6 -> exists k, Date.weeks_from d day = Val k.
Proof.
  intros H Hday. pose proof H as (Hy & Ho & Hd).
  pose proof (C08.repr_md y o d H) as (E1 & E2 & _ & _ & E5 & _).
  unfold Date.weeks_from. rewrite E5, E2. cbn [bind].
  set (wd := weekday_of_dn (dn_of_yo y o)).
  assert (Hwd : 0 <= wd <= 6) by (unfold wd, weekday_of_dn; lia).
  rewrite valid_yo_iff in Ho.
  assert (Hob : 1 <= o <= 366) by (destruct (is_leap y); lia).
  assert (Hds : exists ds, Date.wd_days_since wd day = Val ds /\ 0 <= ds <= 6).
  { unfold Date.wd_days_since. destruct (wd <? day) eqn:E.
    - unfold add_u32, sub_u32. rewrite chk_in by (unfold in_u32, in_range, u32_max; lia). cbn [bind].
      rewrite chk_in by (unfold in_u32, in_range, u32_max; lia). eexists. split; [reflexivity|lia].
    - unfold sub_u32. rewrite chk_in by (unfold in_u32, in_range, u32_max; lia). eexists. split; [reflexivity|lia]. }
  destruct Hds as (ds & -> & Hds). cbn [bind].
  rewrite !as_i32_id by (apply in_i32_iff; lia).
  unfold sub_i32, add_i32. rewrite chk_in by (apply in_i32_iff; lia). cbn [bind].
  rewrite chk_in by (apply in_i32_iff; lia). cbn [bind].
  unfold div_i32. rewrite div_t_nz by lia. rewrite chk_in by (apply in_i32_iff; lia).
  eexists. reflexivity.
Qed.

(** * to_naive_date on exactly (year, month, day) *)
Definition date_only_ymd (p : parsed) : Prop :=
  p_year_div_100 p = None /\ p_year_mod_100 p = None /\ p_isoyear p = None /\ p_isoyear_div_100 p = None /\
  p_isoyear_mod_100 p = None /\ p_quarter p = None /\ p_week_from_sun p = None /\ p_week_from_mon p = None /\
  p_isoweek p = None /\ p_weekday p = None /\ p_ordinal p = None.

Lemma opt_eqb_refl o : opt_eqb o o = true.
Proof. destruct o; cbn; [apply Z.eqb_refl|reflexivity]. Qed.

Lemma to_naive_date_ymd p y m dd :
  p_year p = Some y -> p_month p = Some m -> p_day p = Some dd -> date_only_ymd p ->
  year_in_range y = true -> valid_ymd y m dd = true ->
  to_naive_date p = Val (Ok (mk_ymd y m dd)).
Proof.
  intros Py Pm Pd (N1 & N2 & N3 & N4 & N5 & N6 & N7 & N8 & N9 & N10 & N11) Hy Hv.
  pose proof (year_range_bounds y Hy) as Hyb.
  assert (Hvm : 1 <= m <= 12 /\ 1 <= dd <= 31).
  { unfold valid_ymd in Hv. pose proof (days_in_month_bounds (is_leap y) m). lia. }
  destruct (C08.mk_ymd_fields y m dd Hy Hv) as (Hrepr & _).
  set (o := ordinal_of_md (is_leap y) m dd) in *. set (d := mk_ymd y m dd) in *.
  unfold to_naive_date. rewrite Py, Pm, Pd, N1, N2, N3, N4, N5, N6.
  cbn [resolve_year ebind bind].
  rewrite from_ymd_opt_spec by (try apply in_i32_iff; unfold in_u32, in_range, u32_max; lia).
  rewrite Hy, Hv. cbn [andb date_if ok_or_r ok_or bind ebind]. fold d.
  assert (Hiso : verify_isoweekdate p d = Val true).
  { unfold verify_isoweekdate.
    destruct (iso_week_ok y o d Hrepr) as (w & -> & Hw). cbn [bind].
    pose proof (C08.repr_md y o d Hrepr) as (_ & _ & _ & _ & E5 & _). rewrite E5. cbn [bind].
    rewrite N3, N4, N5, N9, N10. cbn [unwrap_or opt_or].
    assert (Hiy : in_i32 (Date.iw_year w) = true).
    { unfold Date.iw_year, Date.shr. rewrite Z.shiftr_div_pow2 by (unfold IW_YEAR_GET_SHIFT; lia).
      apply in_i32_iff in Hw. apply in_i32_iff. change (2 ^ IW_YEAR_GET_SHIFT) with 1024. lia. }
    destruct (Date.iw_year w >=? 0).
    - rewrite C14.div_i32_100, C14.rem_i32_100 by exact Hiy. cbn [bind].
      rewrite !Z.eqb_refl, !opt_eqb_refl. reflexivity.
    - cbn [bind]. rewrite !Z.eqb_refl, !opt_eqb_refl. reflexivity. }
  assert (Hord : verify_ordinal p d = Val true).
  { unfold verify_ordinal.
    destruct (weeks_from_ok y o d WD_SUN Hrepr ltac:(unfold WD_SUN; lia)) as (k1 & ->).
    destruct (weeks_from_ok y o d WD_MON Hrepr ltac:(unfold WD_MON; lia)) as (k2 & ->). cbn [bind].
    rewrite N7, N8, N11. cbn [unwrap_or]. rewrite !Z.eqb_refl. reflexivity. }
  unfold andr. rewrite Hiso. cbn [bind]. rewrite Hord. cbn [bind negb]. reflexivity.
Qed.

(** * reading the printed date *)
Lemma ascii_year y : ascii (year_txt y).
Proof.
  unfold year_txt. destruct ((0 <=? y) && (y <=? 9999)); [apply ascii_low|].
  apply ascii_cons; [destruct (y <? 0); lia|].
  apply ascii_digits. apply (fmt_zero_pad_facts 4 (Z.abs y)); lia.
Qed.

Lemma set_year_code p y : pget F_year p = None -> in_i32 y = true -> set_by_code 0 p y = pok (pput F_year (Some y) p).
Proof.
  intros H1 Hr. unfold set_by_code. cbn [Z.eqb]. unfold set_year.
  rewrite set_checked_fresh; [reflexivity|exact H1|]. unfold in_i32, in_range in Hr. lia.
Qed.
Lemma set_month_code p m : pget F_month p = None -> 1 <= m <= 12 -> set_by_code 7 p m = pok (pput F_month (Some m) p).
Proof.
  intros H1 Hr. unfold set_by_code. cbn [Z.eqb Pos.eqb]. unfold set_month.
  rewrite set_checked_fresh by assumption. rewrite C14.as_u32_small by (unfold u32_max; lia). reflexivity.
Qed.
Lemma set_day_code p dd : pget F_day p = None -> 1 <= dd <= 31 -> set_by_code 13 p dd = pok (pput F_day (Some dd) p).
Proof.
  intros H1 Hr. unfold set_by_code. cbn [Z.eqb Pos.eqb]. unfold set_day.
  rewrite set_checked_fresh by assumption. rewrite C14.as_u32_small by (unfold u32_max; lia). reflexivity.
Qed.

Lemma step_year rel p y rest items pad : pget F_year p = None -> -999999 <= y <= 999999 ->
  utf8_valid rest = true -> not_digit_start rest = true ->
  parse_items rel p (year_txt y ++ rest) (INumeric N_Year pad :: items) =
  parse_items rel (pput F_year (Some y) p) rest items.
Proof.
  intros Hp Hy Hv Hnd. cbn [parse_items parse_item]. unfold year_txt.
  assert (Hi : in_i32 y = true) by (apply in_i32_iff; lia).
  destruct ((0 <=? y) && (y <=? 9999)) eqn:E.
  - rewrite (parse_numeric_nosign p (low_digits 4 y) rest N_Year 4 0 eq_refl); try assumption.
    + rewrite low_digits_value0 by (change (10 ^ Z.of_nat 4) with 10000; lia).
      rewrite set_year_code by assumption. reflexivity.
    + apply low_digits_digits.
    + discriminate.
    + rewrite low_digits_blen. lia.
    + rewrite low_digits_blen. lia.
    + rewrite low_digits_value0 by (change (10 ^ Z.of_nat 4) with 10000; lia). unfold i64_max. lia.
  - destruct (fmt_zero_pad_facts 4 (Z.abs y) ltac:(lia) ltac:(lia)) as (F1 & F2 & F3 & _).
    pose proof (fmt_zero_pad_blen_le 4 (Z.abs y) 6 ltac:(lia) ltac:(change (10 ^ 6) with 1000000; lia)) as F4.
    cbn [app].
    rewrite (parse_numeric_signed p _ (fmt_zero_pad 4 (Z.abs y)) rest N_Year 4 0 eq_refl); try assumption; try lia.
    + rewrite F2. replace (if (if y <? 0 then 45 else 43) =? 45 then - Z.abs y else Z.abs y) with y
        by (destruct (y <? 0) eqn:E2; cbn [Z.eqb Pos.eqb]; lia).
      rewrite set_year_code by assumption. reflexivity.
    + destruct (y <? 0); auto.
    + intros Hnil. rewrite Hnil, blen_nil in F3. lia.
    + rewrite F2. unfold i64_max. lia.
Qed.

Definition date_fresh (p : parsed) : Prop := pget F_year p = None /\ pget F_month p = None /\ pget F_day p = None.
Definition with_ymd (p : parsed) (y m dd : Z) : parsed :=
  pput F_day (Some dd) (pput F_month (Some m) (pput F_year (Some y) p)).

(* year '-' month '-' day: the common prefix of the three date-bearing item lists *)
Lemma run_date rel p y m dd rest items : date_fresh p -> -999999 <= y <= 999999 -> 1 <= m <= 12 -> 1 <= dd <= 31 ->
  ascii rest ->
  parse_items rel p (date_txt y m dd ++ rest)
    (INumeric N_Year PadZero :: Space [] :: Literal [45] :: INumeric N_Month PadZero :: Space [] :: Literal [45]
     :: INumeric N_Day PadZero :: items) =
  parse_items rel (with_ymd p y m dd) rest items.
Proof.
  intros (F1 & F2 & F3) Hy Hm Hd Hr. unfold date_txt.
  repeat (rewrite <- app_assoc; cbn [app]).
  rewrite step_year; [|exact F1|exact Hy| |reflexivity].
  2:{ apply utf8_ascii. ascii_tac. exact Hr. }
  rewrite step_space by (cbn; unfold is_whitespace; lia).
  rewrite step_lit by (apply utf8_ascii; ascii_tac; exact Hr).
  rewrite (step_num2 rel _ m _ _ N_Month PadZero 7 (pput F_month (Some m) (pput F_year (Some y) p)) eq_refl ltac:(lia)).
  2:{ apply utf8_ascii. ascii_tac. exact Hr. }
  2:{ apply set_month_code; [|lia]. rewrite C14.pget_pput_other by discriminate. exact F2. }
  rewrite step_space by (cbn; unfold is_whitespace; lia).
  rewrite step_lit by (apply utf8_ascii; ascii_tac; exact Hr).
  rewrite (step_num2 rel _ dd _ _ N_Day PadZero 13 (with_ymd p y m dd) eq_refl ltac:(lia)); [reflexivity|apply utf8_ascii; exact Hr|].
  apply set_day_code; [|lia]. rewrite !C14.pget_pput_other by discriminate. exact F3.
Qed.

(** * the round trip *)
Lemma repr_ymd y o d : repr y o d ->
  let m := C08.month_of y o in let dd := C08.day_of y o in
  1 <= m <= 12 /\ 1 <= dd <= 31 /\ valid_ymd y m dd = true /\ mk_ymd y m dd = d /\ -262143 <= y <= 262142.
Proof.
  intros H m dd. pose proof (C08.repr_md y o d H) as (_ & _ & _ & _ & _ & _ & Hm & Hd & Ho).
  pose proof H as (Hy & _ & Hdd). pose proof (year_range_bounds y Hy).
  pose proof (days_in_month_bounds (is_leap y) (C08.month_of y o)).
  fold m dd in Hm, Hd, Ho. fold m in H1.
  split; [lia|]. split; [lia|]. split; [unfold valid_ymd; lia|]. split; [|lia].
  unfold mk_ymd. rewrite Ho. symmetry. exact Hdd.
Qed.

Theorem date_roundtrip_text y o d : repr y o d ->
  naive_date_from_str (date_txt y (C08.month_of y o) (C08.day_of y o)) = Val (POk d).
Proof.
  intros H. destruct (repr_ymd y o d H) as (Hm & Hd & Hv & Hmk & Hy).
  set (m := C08.month_of y o) in *. set (dd := C08.day_of y o) in *.
  unfold naive_date_from_str, parse, parse_end, parse_internal, FS_NAIVE_DATE_ITEMS.
  rewrite <- (app_nil_r (date_txt y m dd)).
  rewrite run_date; try lia; [|repeat split|constructor].
  rewrite step_space by exact I. rewrite parse_items_nil. cbn [pbind bind pok is_empty]. unfold pr_of.
  rewrite (to_naive_date_ymd _ y m dd); try reflexivity; try assumption.
  - cbn [bind pres_of]. rewrite Hmk. reflexivity.
  - repeat split.
  - destruct H as (Hyr & _). exact Hyr.
Qed.

Theorem date_roundtrip y o d : repr y o d ->
  exists s, to_text (date_debug [] d) = Val s /\ to_text (date_display [] d) = Val s /\
            naive_date_from_str s = Val (POk d).
Proof.
  intros H. exists (date_txt y (C08.month_of y o) (C08.day_of y o)).
  unfold date_display. rewrite (date_debug_text [] y o d H). cbn [app].
  repeat split. apply date_roundtrip_text. exact H.
Qed.
