(** Shared proof infrastructure for the tz_info model: Hoare-style predicates on the trapping
    monads, list facts, the cursor of parser.rs and the small slice/integer readers. *)
From Coq Require Import ZArith List Bool Lia ZifyBool.
From V Require Import Base.Int Base.IO Base.IntLemmas Base.Lift Gen.TzInfo.
From V Require Import Model.TzParser Model.TzRule Model.TzLookup.
Import ListNotations.
Open Scope Z_scope.
Ltac Zify.zify_post_hook ::= Z.to_euclidean_division_equations.

(** ** Hoare-style predicates on the trapping monads *)
Definition post {A} (x : R A) (Q : A -> Prop) : Prop := exists a, x = Val a /\ Q a.
Definition postr {A} (x : R (res A)) (Q : A -> Prop) : Prop :=
  exists r, x = Val r /\ match r with Ok a => Q a | Err _ => True end.

Lemma post_val {A} (a : A) (Q : A -> Prop) : Q a -> post (Val a) Q.
Proof. intros H. exists a. auto. Qed.
Lemma post_bind {A T} (x : R A) (f : A -> R T) P Q :
  post x P -> (forall a, P a -> post (f a) Q) -> post (bind x f) Q.
Proof. intros (a & -> & Ha) H. exact (H a Ha). Qed.
Lemma postr_ok {A} (a : A) (Q : A -> Prop) : Q a -> postr (ok a) Q.
Proof. intros H. exists (Ok a). auto. Qed.
Lemma postr_fail {A} e (Q : A -> Prop) : postr (fail e) Q.
Proof. exists (Err e). auto. Qed.
Lemma postr_rbind {A T} (x : R (res A)) (f : A -> R (res T)) P Q :
  postr x P -> (forall a, P a -> postr (f a) Q) -> postr (rbind x f) Q.
Proof.
  intros (r & -> & Hr) H. destruct r as [a|e]; cbn.
  - exact (H a Hr).
  - exists (Err e). auto.
Qed.
Lemma postr_bind {A T} (x : R A) (f : A -> R (res T)) P Q :
  post x P -> (forall a, P a -> postr (f a) Q) -> postr (bind x f) Q.
Proof. intros (a & -> & Ha) H. exact (H a Ha). Qed.
Lemma postr_weaken {A} (x : R (res A)) (P Q : A -> Prop) :
  postr x P -> (forall a, P a -> Q a) -> postr x Q.
Proof. intros (r & -> & Hr) H. exists r. split; [reflexivity|]. destruct r; auto. Qed.
Lemma post_weaken {A} (x : R A) (P Q : A -> Prop) :
  post x P -> (forall a, P a -> Q a) -> post x Q.
Proof. intros (a & -> & Ha) H. exists a. auto. Qed.
Lemma postr_val_res {A} (r : res A) (Q : A -> Prop) :
  (forall a, r = Ok a -> Q a) -> postr (Val r) Q.
Proof. intros H. exists r. split; [reflexivity|]. destruct r; auto. Qed.

Lemma chk_post inr z : inr z = true -> post (chk inr z) (fun v => v = z).
Proof. intros H. unfold chk. rewrite H. apply post_val. reflexivity. Qed.

(** ** Lists *)
Lemma zlen_nonneg {A} (l : list A) : 0 <= zlen l.
Proof. unfold zlen. lia. Qed.
Lemma zlen_app {A} (a b : list A) : zlen (a ++ b) = zlen a + zlen b.
Proof. unfold zlen. rewrite app_length. lia. Qed.
Lemma zlen_cons {A} (x : A) l : zlen (x :: l) = 1 + zlen l.
Proof. unfold zlen. cbn [List.length]. lia. Qed.
Lemma zlen_firstn {A} (l : list A) n : 0 <= n <= zlen l -> zlen (firstn (Z.to_nat n) l) = n.
Proof. unfold zlen. intros H. rewrite firstn_length. lia. Qed.

(** ** Cursor: [read_exact] returns exactly the next [count] bytes and never traps while the
    bytes consumed so far plus the bytes remaining fit a [usize] *)
Definition byte (b : Z) : Prop := 0 <= b < 256.
Definition cur_ok (N : Z) (c : cursor) : Prop :=
  0 <= read_count c /\ read_count c + zlen (remaining c) = N /\ N <= u64_max /\ Forall byte (remaining c).

Lemma Forall_app_inv {A} (P : A -> Prop) a b : Forall P (a ++ b) -> Forall P a /\ Forall P b.
Proof. intros H. apply Forall_app in H. exact H. Qed.

Lemma read_exact_spec N c count : cur_ok N c ->
  postr (read_exact c count)
        (fun '(b, c') => cur_ok N c' /\ zlen b = count /\ Forall byte b /\
                         remaining c = b ++ remaining c' /\ read_count c' = read_count c + count).
Proof.
  intros (H0 & H1 & H2 & H3). unfold read_exact.
  destruct ((0 <=? count) && (count <=? zlen (remaining c))) eqn:E; [|apply postr_fail].
  assert (Hc : 0 <= count <= zlen (remaining c)) by lia.
  eapply postr_bind.
  - apply chk_post. pose proof (zlen_nonneg (remaining c)).
    unfold in_usize, in_u64, in_range, u64_max in *. lia.
  - intros rc ->. apply postr_ok. cbn [remaining read_count].
    rewrite <- (firstn_skipn (Z.to_nat count) (remaining c)) in H3.
    apply Forall_app_inv in H3. destruct H3 as [H3a H3b].
    split; [|split; [|split; [|split]]].
    + unfold cur_ok. cbn [remaining read_count]. split; [lia|]. split; [|split; [exact H2|exact H3b]].
      rewrite <- H1. rewrite <- (firstn_skipn (Z.to_nat count) (remaining c)) at 2.
      rewrite zlen_app, zlen_firstn by lia. lia.
    + apply zlen_firstn. lia.
    + exact H3a.
    + symmetry. apply firstn_skipn.
    + reflexivity.
Qed.


(** ** Indexing and slicing *)
Lemma index_post {A} (l : list A) i : 0 <= i < zlen l -> post (index l i) (fun a => In a l).
Proof.
  intros H. unfold index. destruct (i <? 0) eqn:E; [lia|].
  assert (Hn : (Z.to_nat i < List.length l)%nat) by (unfold zlen in H; lia).
  revert Hn. generalize (Z.to_nat i). clear. induction l as [|a l IH]; intros n Hn; cbn in *; [lia|].
  destruct n; [apply post_val; left; reflexivity|].
  eapply post_weaken; [apply IH; lia|]. intros x Hx. right. exact Hx.
Qed.
Lemma index_post_P {A} (P : A -> Prop) (l : list A) i : 0 <= i < zlen l -> Forall P l -> post (index l i) P.
Proof.
  intros H HF. eapply post_weaken; [apply index_post; exact H|].
  intros a Ha. rewrite Forall_forall in HF. apply HF. exact Ha.
Qed.

Lemma Forall_firstn {A} (P : A -> Prop) n l : Forall P l -> Forall P (firstn n l).
Proof.
  intros H. rewrite <- (firstn_skipn n l) in H. apply Forall_app_inv in H. apply H.
Qed.
Lemma Forall_skipn {A} (P : A -> Prop) n l : Forall P l -> Forall P (skipn n l).
Proof.
  intros H. rewrite <- (firstn_skipn n l) in H. apply Forall_app_inv in H. apply H.
Qed.
Lemma zlen_skipn {A} (l : list A) n : 0 <= n <= zlen l -> zlen (skipn (Z.to_nat n) l) = zlen l - n.
Proof. unfold zlen. intros H. rewrite skipn_length. lia. Qed.

Lemma slice_post (P : Z -> Prop) (s : bytes) lo hi : 0 <= lo <= hi -> hi <= zlen s -> Forall P s ->
  post (slice s lo hi) (fun r => zlen r = hi - lo /\ Forall P r /\
                                 r = firstn (Z.to_nat (hi - lo)) (skipn (Z.to_nat lo) s)).
Proof.
  intros H1 H2 HF. unfold slice.
  replace ((0 <=? lo) && (lo <=? hi) && (hi <=? zlen s)) with true by lia.
  apply post_val. split; [|split; [|reflexivity]].
  - rewrite zlen_firstn; [lia|]. rewrite zlen_skipn by lia. lia.
  - apply Forall_firstn, Forall_skipn, HF.
Qed.

(** ** Big-endian integers *)
Lemma zlen_nil_inv {A} (l : list A) : zlen l = 0 -> l = [].
Proof. destruct l; [reflexivity|]. rewrite zlen_cons. pose proof (zlen_nonneg l). intros H0. exfalso. lia. Qed.
Lemma zlen_S_inv {A} (l : list A) n : zlen l = 1 + n -> 0 <= n -> exists a r, l = a :: r /\ zlen r = n.
Proof.
  destruct l as [|a r]; intros H Hn; [change (zlen (@nil A)) with 0 in H; lia|].
  rewrite zlen_cons in H. exists a, r. split; [reflexivity|lia].
Qed.
Lemma len4_inv (l : bytes) : zlen l = 4 -> exists a b c d, l = [a; b; c; d].
Proof.
  intros H. apply (zlen_S_inv l 3) in H; [|lia]. destruct H as (a & r1 & -> & H).
  apply (zlen_S_inv r1 2) in H; [|lia]. destruct H as (b & r2 & -> & H).
  apply (zlen_S_inv r2 1) in H; [|lia]. destruct H as (c & r3 & -> & H).
  apply (zlen_S_inv r3 0) in H; [|lia]. destruct H as (d & r4 & -> & H).
  apply zlen_nil_inv in H. subst. eauto.
Qed.
Lemma len8_inv (l : bytes) : zlen l = 8 -> exists a b c d e f g h, l = [a; b; c; d; e; f; g; h].
Proof.
  intros H. apply (zlen_S_inv l 7) in H; [|lia]. destruct H as (a & r1 & -> & H).
  apply (zlen_S_inv r1 6) in H; [|lia]. destruct H as (b & r2 & -> & H).
  apply (zlen_S_inv r2 5) in H; [|lia]. destruct H as (c & r3 & -> & H).
  apply (zlen_S_inv r3 4) in H; [|lia]. destruct H as (d & r4 & -> & H).
  apply len4_inv in H. destruct H as (e & f & g & h & ->). eauto 10.
Qed.
Lemma be_uint4_bound (l : bytes) : zlen l = 4 -> Forall byte l -> 0 <= be_uint l <= u32_max.
Proof.
  intros H HF. destruct (len4_inv l H) as (a & b & c & d & ->).
  repeat match goal with H : Forall _ (_ :: _) |- _ => inversion H; clear H; subst end.
  unfold byte, u32_max in *. cbn [be_uint fold_left]. lia.
Qed.

Lemma as_i32_range z : in_i32 (as_i32 z) = true.
Proof.
  unfold as_i32, wrap_s. change (2 ^ 32) with 4294967296. change (2 ^ (32 - 1)) with 2147483648.
  pose proof (Z.mod_pos_bound z 4294967296 ltac:(lia)).
  unfold in_i32, in_range, i32_min, i32_max. destruct (z mod 4294967296 <? 2147483648) eqn:E; lia.
Qed.
Lemma as_i64_range z : in_i64 (as_i64 z) = true.
Proof.
  unfold as_i64, wrap_s. change (2 ^ 64) with 18446744073709551616. change (2 ^ (64 - 1)) with 9223372036854775808.
  pose proof (Z.mod_pos_bound z 18446744073709551616 ltac:(lia)).
  unfold in_i64, in_range, i64_min, i64_max. destruct (z mod 18446744073709551616 <? 9223372036854775808) eqn:E; lia.
Qed.

Lemma read_be_i32_spec (b : bytes) : postr (read_be_i32 b) (fun v => in_i32 v = true).
Proof.
  unfold read_be_i32. destruct (negb (zlen b =? 4)) eqn:E; [apply postr_fail|].
  unfold copy_from_slice. replace (zlen b =? 4) with true by lia. cbv [bind].
  apply postr_ok. apply as_i32_range.
Qed.
Lemma read_be_i64_spec (b : bytes) : postr (read_be_i64 b) (fun v => in_i64 v = true).
Proof.
  unfold read_be_i64. destruct (negb (zlen b =? 8)) eqn:E; [apply postr_fail|].
  unfold copy_from_slice. replace (zlen b =? 8) with true by lia. cbv [bind].
  apply postr_ok. apply as_i64_range.
Qed.

Lemma read_be_u32_spec N c : cur_ok N c ->
  postr (read_be_u32 c) (fun '(v, c') => cur_ok N c' /\ 0 <= v <= u32_max /\ read_count c' = read_count c + 4 /\
                                         exists b, remaining c = b ++ remaining c' /\ zlen b = 4 /\ v = be_uint b).
Proof.
  intros Hc. unfold read_be_u32.
  eapply postr_rbind; [apply read_exact_spec; exact Hc|].
  intros [b c'] (Hc' & Hl & Hb & Heq & Hrc). unfold copy_from_slice.
  replace (zlen b =? 4) with true by lia. cbv [bind]. apply postr_ok.
  split; [exact Hc'|]. split; [apply be_uint4_bound; assumption|]. split; [exact Hrc|].
  exists b. auto.
Qed.

(** ** Scanning *)
Lemma prefix_len_bounds f (s : bytes) : 0 <= prefix_len f s <= zlen s.
Proof.
  induction s as [|x r IH]; cbn [prefix_len]; [unfold zlen; cbn; lia|].
  rewrite zlen_cons. destruct (f x); lia.
Qed.
Lemma prefix_len_all f (s : bytes) :
  Forall (fun x => f x = true) (firstn (Z.to_nat (prefix_len f s)) s).
Proof.
  induction s as [|x r IH]; cbn [prefix_len]; [constructor|].
  destruct (f x) eqn:E; [|cbn; constructor].
  pose proof (prefix_len_bounds f r).
  replace (Z.to_nat (1 + prefix_len f r)) with (S (Z.to_nat (prefix_len f r))) by lia.
  cbn [firstn]. constructor; assumption.
Qed.

Lemma read_while_spec N c f : cur_ok N c ->
  postr (read_while c f) (fun '(b, c') => cur_ok N c' /\ Forall (fun x => f x = true) b /\ Forall byte b).
Proof.
  intros Hc. unfold read_while.
  pose proof (prefix_len_bounds f (remaining c)) as Hb.
  pose proof (prefix_len_all f (remaining c)) as Ha.
  unfold read_exact.
  replace ((0 <=? prefix_len f (remaining c)) && (prefix_len f (remaining c) <=? zlen (remaining c))) with true by lia.
  destruct Hc as (H0 & H1 & H2 & H3).
  eapply postr_bind.
  - apply chk_post. unfold in_usize, in_u64, in_range, u64_max in *. lia.
  - intros rc ->. apply postr_ok. split; [|split].
    + unfold cur_ok. cbn [remaining read_count]. split; [lia|]. split; [|split; [exact H2|apply Forall_skipn; exact H3]].
      rewrite zlen_skipn by lia. lia.
    + exact Ha.
    + apply Forall_firstn. exact H3.
Qed.
Lemma read_until_spec N c f : cur_ok N c ->
  postr (read_until c f) (fun '(b, c') => cur_ok N c' /\ Forall byte b).
Proof.
  intros Hc. unfold read_until.
  eapply postr_weaken; [apply (read_while_spec N c (fun x => negb (f x))); exact Hc|].
  intros [b c'] (H1 & _ & H3). auto.
Qed.
Lemma read_tag_spec N c tag : cur_ok N c -> postr (read_tag c tag) (fun c' => cur_ok N c').
Proof.
  intros Hc. unfold read_tag. eapply postr_rbind; [apply read_exact_spec; exact Hc|].
  intros [b c'] (Hc' & _). destruct (bytes_eqb b tag); [apply postr_ok; exact Hc'|apply postr_fail].
Qed.
Lemma read_optional_tag_spec N c tag : cur_ok N c ->
  postr (read_optional_tag c tag) (fun '(_, c') => cur_ok N c').
Proof.
  intros Hc. unfold read_optional_tag. destruct (starts_with (remaining c) tag).
  - eapply postr_rbind; [apply read_exact_spec; exact Hc|].
    intros [b c'] (Hc' & _). apply postr_ok. exact Hc'.
  - apply postr_ok. exact Hc.
Qed.

Lemma digits_value_nonneg_acc (l : bytes) : forall acc, 0 <= acc ->
  Forall (fun x => is_ascii_digit x = true) l ->
  0 <= fold_left (fun acc b => acc * 10 + (b - 48)) l acc.
Proof.
  induction l as [|x r IH]; intros acc Ha HF; cbn [fold_left]; [exact Ha|].
  inversion HF; subst. apply IH; [|assumption]. unfold is_ascii_digit in *. lia.
Qed.
Lemma read_int_spec N c tmax : cur_ok N c ->
  postr (read_int c tmax) (fun '(v, c') => cur_ok N c' /\ 0 <= v <= tmax).
Proof.
  intros Hc. unfold read_int. eapply postr_rbind; [apply read_while_spec; exact Hc|].
  intros [b c'] (Hc' & Hd & _). destruct b as [|x r]; [apply postr_fail|].
  destruct (digits_value (x :: r) <=? tmax) eqn:E; [|apply postr_fail].
  apply postr_ok. split; [exact Hc'|]. split; [|lia].
  unfold digits_value. apply digits_value_nonneg_acc; [lia|exact Hd].
Qed.

(** ** Sequential map *)
Lemma map_res_spec {A T} (f : A -> R (res T)) (P : A -> Prop) (Q : T -> Prop) (l : list A) :
  Forall P l -> (forall a, P a -> postr (f a) Q) -> postr (map_res f l) (Forall Q).
Proof.
  intros HF Hf. induction HF as [|a r Ha HF IH]; cbn [map_res]; [apply postr_ok; constructor|].
  eapply postr_rbind; [apply Hf; exact Ha|]. intros b Hb.
  eapply postr_rbind; [exact IH|]. intros bs Hbs. apply postr_ok. constructor; assumption.
Qed.

(** ** Well-formedness of zone data (what an accepted zone satisfies) *)
Definition day_ok (d : rule_day) : Prop :=
  match d with
  | Julian1WithoutLeap n => 1 <= n <= 365
  | Julian0WithLeap n => 0 <= n <= 365
  | MonthWeekday m w wd => 1 <= m <= 12 /\ 1 <= w <= 5 /\ 0 <= wd <= 6
  end.
Definition name_ok (n : option bytes) : Prop :=
  match n with
  | Some n => 3 <= zlen n <= 7 /\ Forall (fun b => is_name_char b = true) n
  | None => True
  end.
Definition ltt_ok (l : ltt) : Prop :=
  in_i32 (ut_offset l) = true /\ ut_offset l <> i32_min /\ name_ok (name l).
Definition alt_ok (a : alt_time) : Prop :=
  ltt_ok (a_std a) /\ ltt_ok (a_dst a) /\ day_ok (dst_start a) /\ day_ok (dst_end a) /\
  Z.abs (dst_start_time a) < 604800 /\ Z.abs (dst_end_time a) < 604800.
Definition rule_ok (r : trule) : Prop :=
  match r with Fixed l => ltt_ok l | Alternate a => alt_ok a end.

(** ** Stepping through trapping arithmetic: discharge the range test of the next operation *)
Ltac range_solver :=
  unfold in_i64, in_i32, in_usize, in_u64, in_u32, in_range, i64_min, i64_max, i32_min, i32_max, u64_max, u32_max in *; lia.
Ltac unfold_ops :=
  unfold add_i64, sub_i64, mul_i64, neg_i64, add_i32, sub_i32, mul_i32, neg_i32,
         add_usize, sub_usize, mul_usize, div_i64, rem_i64 in *.
Ltac chk_next :=
  first
  [ rewrite chk_in by range_solver
  | rewrite div_t_nz by lia
  | rewrite rem_t_nz by lia ];
  cbv beta iota.
Ltac chk_true :=
  match goal with
  | |- context [if ?c then Val _ else Panic] => replace c with true by (symmetry; range_solver)
  end.
Ltac chk_next' :=
  first
  [ rewrite chk_in by range_solver
  | rewrite div_t_nz by lia
  | rewrite rem_t_nz by lia; chk_true
  | rewrite rem_euclid_pos by lia; chk_true ];
  cbv beta iota.
