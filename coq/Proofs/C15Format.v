(** C15 -- DelayedFormat never traps: for EVERY item (every Numeric with every Pad, every Fixed incl. the internal
    ones, the RFC 2822 and RFC 3339 items, literals, the Error item) and every value handed to the formatter,
    [format_item] returns -- the text, or fmt::Error by value (an item the value has no field for, a year outside
    0..=9999 under the RFC 2822 item, the Error item) -- hence so do DelayedFormat::write_to / Display over
    arbitrary item lists and over StrftimeItems::new(fmt) for every format string.
    The value enters through C12's [args_view a sv] (the formatter's arguments denote a specification-level value:
    calendar reading of the date by C01/C08's theorems, time-of-day fields, offset strictly inside +-24 h), which
    C12 discharges for every value of the five kinds (C12_args_view_date/_time/_ndt/_utc/_dtz_all), the wall-clock
    day one day outside the date range included.
    Where C12's documented-text theorems (C12_render_numeric_spec, C12_render_fixed_spec, C12_render_iso_spec) make a
    claim they are reused; the items / paddings / values they make no claim about (%y %g of a negative year, %G-century,
    %s with padding, %Z of an offset with seconds, %#z, the Z-variants of the offset items, RFC 2822) are done here. *)
From Coq Require Import ZArith List Bool Lia ZifyBool.
From V Require Import Base.Int Base.IO Base.IntLemmas Base.Lift Spec.Gregorian Spec.StrftimeDoc
  Model.Items Gen.Strftime Gen.Locales Model.Strftime Model.Format Proofs.C12.
From V Require Model.Date Model.Time Model.DateTime.
Import ListNotations.
Open Scope Z_scope.
Ltac Zify.zify_post_hook ::= Z.to_euclidean_division_equations.

(** a formatter step that returns: a text or fmt::Error, by value *)
Definition fret (x : fres) : Prop := exists o, x = Val o.
Lemma fret_fok s : fret (fok s). Proof. eexists; reflexivity. Qed.
Lemma fret_ferr : fret ferr. Proof. eexists; reflexivity. Qed.
Lemma fret_eq x s : x = fok s -> fret x. Proof. intros ->. apply fret_fok. Qed.
Lemma claim_fret r out : claim r out -> r <> RSkip -> fret out.
Proof. destruct r; cbn [claim]; intros C N; [rewrite C; apply fret_fok|rewrite C; apply fret_ferr|congruence]. Qed.
Lemma pad_of_surj pad : exists p, pad = pad_of p.
Proof. destruct pad; [exists DNone|exists DZero|exists DSpace]; reflexivity. Qed.
Lemma fret_fseq (x : fres) (k : bytes -> fres) : fret x -> (forall s, fret (k s)) -> fret (fseq x k).
Proof. intros [[s|] ->] Hk; cbn [fseq bind]; [apply Hk|apply fret_ferr]. Qed.

(** * numeric items *)
Lemma format_numeric_total a sv spec pad : args_view a sv -> fret (format_numeric a spec pad).
Proof.
  intros Hv. destruct (pad_of_surj pad) as [p ->].
  assert (Hc : forall f, render_num sv f p <> RSkip -> fret (format_numeric a (numeric_of f) (pad_of p))).
  { intros f Hn. exact (claim_fret _ _ (render_numeric_spec a sv f p Hv) Hn). }
  destruct a as [ad at_ ao]. destruct sv as [dn sod nano leap off utc unix]. pose proof Hv as [Hd Ht Ho Hu].
  cbn [fa_date fa_time fa_off sv_dn sv_sod sv_nano sv_leap sv_off sv_utc sv_unix] in Hd, Ht, Ho, Hu.
  Ltac no_skip := unfold render_num, num_value; cbn [width_documented negb sv_dn sv_sod sv_nano sv_leap sv_off sv_utc sv_unix];
    repeat match goal with
    | |- context [match ?x with Some _ => _ | None => _ end] => destruct x
    | |- context [ymd_of_dn ?x] => destruct (ymd_of_dn x) as [[? ?] ?]
    end; discriminate.
  destruct spec.
  - apply (Hc NYear). destruct p; no_skip.
  - apply (Hc NCentury). destruct p; no_skip.
  - (* %y, every year *)
    unfold format_numeric. cbn [fa_date fa_time].
    destruct ad as [d|], dn as [dn|]; try contradiction; [|apply fret_ferr].
    destruct Hd as [_ [Hy Hyr] _ _ _ _ _]. rewrite Hy, rem_euclid_100 by exact Hyr. cbv [bind].
    rewrite as_u8_small by lia. eapply fret_eq; apply (write_two_spec _ p); lia.
  - apply (Hc NIsoYear). destruct p; no_skip.
  - (* the ISO century *)
    unfold format_numeric. cbn [fa_date fa_time].
    destruct ad as [d|], dn as [dn|]; try contradiction; [|apply fret_ferr].
    destruct Hd as [_ _ _ _ _ (w & Hw & Hwy & _ & _ & Hwyr) _]. rewrite Hw. cbv [bind].
    rewrite Hwy, div_euclid_100 by exact Hwyr. cbv [bind]. eapply fret_eq; apply (write_n_spec 2 _ p false); lia.
  - (* %g, every ISO year *)
    unfold format_numeric. cbn [fa_date fa_time].
    destruct ad as [d|], dn as [dn|]; try contradiction; [|apply fret_ferr].
    destruct Hd as [_ _ _ _ _ (w & Hw & Hwy & _ & _ & Hwyr) _]. rewrite Hw. cbv [bind].
    rewrite Hwy, rem_euclid_100 by exact Hwyr. cbv [bind].
    rewrite as_u8_small by lia. eapply fret_eq; apply (write_two_spec _ p); lia.
  - apply (Hc NQuarter). destruct p; no_skip.
  - apply (Hc NMonth). destruct p; no_skip.
  - apply (Hc NDay). destruct p; no_skip.
  - apply (Hc NWeekSun). destruct p; no_skip.
  - apply (Hc NWeekMon). destruct p; no_skip.
  - apply (Hc NIsoWeek). destruct p; no_skip.
  - apply (Hc NWdaySun0). destruct p; no_skip.
  - apply (Hc NWdayMon1). destruct p; no_skip.
  - apply (Hc NOrdinal). destruct p; no_skip.
  - apply (Hc NHour). destruct p; no_skip.
  - apply (Hc NHour12). destruct p; no_skip.
  - apply (Hc NMinute). destruct p; no_skip.
  - apply (Hc NSecond). destruct p; no_skip.
  - apply (Hc NNanos). destruct p; no_skip.
  - (* %s with every padding *)
    unfold format_numeric. cbn [fa_date fa_time fa_off].
    destruct ad as [d|], dn as [dn|]; try contradiction; [|destruct at_; apply fret_ferr].
    destruct at_ as [t|], sod as [s|]; try contradiction; [|apply fret_ferr].
    destruct Hd as [Hdn _ _ _ _ _ Hnd]. destruct Ht as (Hs & Hsr & _).
    unfold naive_timestamp, DateTime.dt_timestamp. cbn [DateTime.nd_date DateTime.nd_time].
    rewrite Hnd. cbv [bind]. unfold Time.num_seconds_from_midnight. rewrite Hs.
    apply in_i32_bounds in Hdn.
    unfold sub_i64, mul_i64, add_i64, Gen.DateTimeConsts.UNIX_EPOCH_DAY.
    rewrite chk_i64 by lia. cbv [bind]. rewrite chk_i64 by lia. cbv [bind]. rewrite chk_i64 by lia. cbv [bind].
    assert (Hor : -86400 < (match ao with Some (_, o) => o | None => 0 end) < 86400).
    { destruct ao as [[nm o]|], off as [o'|]; try contradiction; [|lia]. destruct Ho as (-> & Hr & _). lia. }
    rewrite chk_i64 by lia. cbv [bind]. eapply fret_eq; apply (write_n_spec 9 _ p false); lia.
Qed.

(** * the offset items with allow_zulu *)
Lemma offset_format_zulu prec colons pad off :
  offset_format (mk_of prec colons true pad) off =
  if off =? 0 then fok [90] else offset_format (mk_of prec colons false pad) off.
Proof. unfold offset_format. cbn [of_allow_zulu andb]. destruct (off =? 0); reflexivity. Qed.

(** * the RFC 2822 item *)
Lemma write_rfc2822_total d dn t s nano leap off : date_view d dn -> time_view t s nano leap -> -86400 < off < 86400 ->
  fret (write_rfc2822 (DateTime.mk_ndt d t) off).
Proof.
  intros Hd Ht Ho. unfold write_rfc2822. cbn [DateTime.nd_date DateTime.nd_time].
  destruct Hd as [_ [Hy Hyr] (yy & m & dd & Hymd & Hm & Hdd & Hmr & Hddr) _ Hwd _ _].
  rewrite Hy. set (y := year_of_dn dn) in *.
  destruct ((0 <=? y) && (y <=? 9999)) eqn:Ey; cbn [negb]; [|apply fret_ferr].
  rewrite Hwd. cbn [bind].
  assert (Hwdr : 0 <= weekday_of_dn dn <= 6) by (unfold weekday_of_dn; lia).
  unfold wd_num_days_from_sunday, WD_SUN. rewrite wd_days_since_spec by lia. cbn [bind].
  replace ((weekday_of_dn dn - 6) mod 7) with ((weekday_of_dn dn + 1) mod 7) by lia.
  pose proof (forall_range_spec _ _ _ weekday_names_sweep (weekday_of_dn dn) ltac:(lia)) as Hs.
  unfold weekday_names_ok in Hs. apply andb_prop in Hs. rewrite (fres_eqb_eq _ _ (proj1 Hs)). cbn [fseq fok bind].
  rewrite Hdd. cbn [bind].
  assert (Hday : fret (if dd <? 10 then let* c := add_u8 48 (as_u8 dd) in fok [c] else write_hundreds (as_u8 dd))).
  { rewrite as_u8_small by lia. destruct (dd <? 10) eqn:E.
    - unfold add_u8. rewrite chk_in by (unfold in_u8, in_range, u8_max; lia). apply fret_fok.
    - eapply fret_eq; apply write_hundreds_spec; lia. }
  destruct Hday as [[ds|] Eday]; rewrite Eday; cbn [fseq bind]; [|apply fret_ferr].
  unfold d_month0. rewrite Hm. cbn [bind]. unfold sub_u32. rewrite chk_u32 by lia. cbn [bind].
  pose proof (forall_range_spec _ _ _ month_names_sweep m ltac:(lia)) as Hms.
  unfold month_names_ok in Hms. apply andb_prop in Hms. rewrite (fres_eqb_eq _ _ (proj1 Hms)). cbn [fseq fok bind].
  rewrite !as_u8_small by lia. rewrite !write_hundreds_spec by lia. cbn [fseq fok bind].
  destruct (time_fields _ _ _ _ Ht) as (Hh & Hmi & Hse & Hq & Hrm). pose proof Ht as (Hts & Hsr & Hnr & Hf).
  unfold Time.hour, Time.minute, Time.second in Hh, Hmi, Hse.
  destruct (Time.hms t) as [[hour mi] sec]. subst hour mi sec.
  rewrite !as_u8_small by lia. rewrite !write_hundreds_spec by lia. cbn [fseq fok bind].
  rewrite Hq. unfold add_u32. rewrite chk_u32 by (destruct leap; lia). cbn [bind].
  rewrite as_u8_small by (destruct leap; lia). rewrite write_hundreds_spec by (destruct leap; lia). cbn [fseq fok bind].
  rewrite offset_format_sign by (try exact Ho; reflexivity).
  rewrite offset_format_abs_minutes by lia. cbn [fseq fok bind]. eexists. reflexivity.
Qed.

(** * fixed items *)
Lemma format_fixed_total a sv spec : args_view a sv -> fret (format_fixed a spec).
Proof.
  intros Hv.
  assert (Hc : forall f, tfield_documented f -> render_fix sv f <> RSkip -> fret (format_fixed a (fixed_of f))).
  { intros f Hdoc Hn. exact (claim_fret _ _ (render_fixed_spec a sv f Hv Hdoc) Hn). }
  pose proof (render_iso_spec a sv Hv) as Hiso.
  destruct a as [ad at_ ao]. destruct sv as [dn sod nano leap off utc unix]. pose proof Hv as [Hd Ht Ho Hu].
  cbn [fa_date fa_time fa_off sv_dn sv_sod sv_nano sv_leap sv_off sv_utc sv_unix] in Hd, Ht, Ho, Hu.
  Ltac no_skip_fix := unfold render_fix; cbn [sv_dn sv_sod sv_nano sv_leap sv_off sv_utc sv_unix];
    repeat match goal with
    | |- context [match ?x with Some _ => _ | None => _ end] => destruct x
    | |- context [ymd_of_dn ?x] => destruct (ymd_of_dn x) as [[? ?] ?]
    end; discriminate.
  assert (Hoff : forall f, fret (match ao with Some (_, o) => offset_format (mk_of OP_Minutes f true PadZero) o | None => ferr end)
                           \/ True) by (intros; right; exact I).
  clear Hoff.
  assert (Hz : forall colons o, -86400 < o < 86400 -> (colons = C_Maybe \/ colons = C_Colon) ->
               fret (offset_format (mk_of OP_Minutes colons true PadZero) o)).
  { intros colons o Hor Hcol. rewrite offset_format_zulu. destruct (o =? 0); [apply fret_fok|].
    destruct (offset_items_spec o Hor) as (H1 & H2 & _). destruct Hcol as [-> | ->]; [exact (fret_eq _ _ H1)|exact (fret_eq _ _ H2)]. }
  destruct spec as [ | | | | | | | | | | | | | | | | | | | i]; [..|destruct i].
  - exact (Hc TMonthAbbr I ltac:(no_skip_fix)).
  - exact (Hc TMonthFull I ltac:(no_skip_fix)).
  - exact (Hc TWdayAbbr I ltac:(no_skip_fix)).
  - exact (Hc TWdayFull I ltac:(no_skip_fix)).
  - exact (Hc TAmPmLower I ltac:(no_skip_fix)).
  - exact (Hc TAmPmUpper I ltac:(no_skip_fix)).
  - exact (Hc TFracAuto I ltac:(no_skip_fix)).
  - exact (Hc (TFrac 3 true) (or_introl eq_refl) ltac:(no_skip_fix)).
  - exact (Hc (TFrac 6 true) (or_intror (or_introl eq_refl)) ltac:(no_skip_fix)).
  - exact (Hc (TFrac 9 true) (or_intror (or_intror eq_refl)) ltac:(no_skip_fix)).
  - (* %Z: the name handed over by the caller *)
    unfold format_fixed. cbn [fa_date fa_time fa_off]. destruct ad, at_, ao as [[name o]|]; try apply fret_ferr; apply fret_fok.
  - exact (Hc TOffColon I ltac:(no_skip_fix)).
  - exact (Hc TOffColonSec I ltac:(no_skip_fix)).
  - exact (Hc TOffHours I ltac:(no_skip_fix)).
  - (* %:z with Z *)
    unfold format_fixed. cbn [fa_date fa_time fa_off].
    destruct ao as [[name o]|], off as [o'|]; try contradiction; [|destruct ad, at_; apply fret_ferr].
    destruct Ho as (-> & Hor & _). destruct ad, at_; exact (Hz C_Colon o' Hor (or_intror eq_refl)).
  - exact (Hc TOff I ltac:(no_skip_fix)).
  - (* %z with Z *)
    unfold format_fixed. cbn [fa_date fa_time fa_off].
    destruct ao as [[name o]|], off as [o'|]; try contradiction; [|destruct ad, at_; apply fret_ferr].
    destruct Ho as (-> & Hor & _). destruct ad, at_; exact (Hz C_Maybe o' Hor (or_introl eq_refl)).
  - (* RFC 2822 *)
    unfold format_fixed. cbn [fa_date fa_time fa_off].
    destruct ad as [d|], dn as [dn|]; try contradiction; [|destruct at_, ao; apply fret_ferr].
    destruct at_ as [t|], sod as [s|]; try contradiction; [|destruct ao; apply fret_ferr].
    destruct ao as [[name o]|], off as [o'|]; try contradiction; [|apply fret_ferr].
    destruct Ho as (-> & Hor & _). exact (write_rfc2822_total d dn t s nano leap o' Hd Ht Hor).
  - (* RFC 3339: its documented expansion *)
    apply (claim_fret _ _ Hiso).
    change (tokens iso_expansion) with
      [KNum NYear DZero; KText [45]; KNum NMonth DZero; KText [45]; KNum NDay DZero; KText [84];
       KNum NHour DZero; KText [58]; KNum NMinute DZero; KText [58]; KNum NSecond DZero;
       KFix TFracAuto; KFix TOffColon].
    cbn [render_all render_tok render_num render_fix width_documented negb num_value num_width
         sv_dn sv_sod sv_nano sv_leap sv_off sv_utc sv_unix].
    destruct dn as [dn|]; [|discriminate]. destruct (ymd_of_dn dn) as [[yy m] dd]. cbv beta iota.
    destruct sod as [s|]; [|discriminate]. cbv beta iota. destruct off as [o|]; discriminate.
  - (* %#z: read-only *)
    unfold format_fixed. cbn [fa_date fa_time fa_off]. destruct ad, at_, ao as [[name o]|]; apply fret_ferr.
  - exact (Hc (TFrac 3 false) (or_introl eq_refl) ltac:(no_skip_fix)).
  - exact (Hc (TFrac 6 false) (or_intror (or_introl eq_refl)) ltac:(no_skip_fix)).
  - exact (Hc (TFrac 9 false) (or_intror (or_intror eq_refl)) ltac:(no_skip_fix)).
Qed.

(** * one item, an item list, the lazily driven iterator *)
Theorem format_item_total a sv it : args_view a sv -> fret (format_item a it).
Proof.
  intros Hv. destruct it as [s|s|spec pad|spec|]; cbn [format_item].
  - apply fret_fok.
  - apply fret_fok.
  - exact (format_numeric_total a sv spec pad Hv).
  - exact (format_fixed_total a sv spec Hv).
  - apply fret_ferr.
Qed.
Theorem write_items_total a sv : args_view a sv -> forall items acc, fret (write_items a items acc).
Proof.
  intros Hv. induction items as [|it r IH]; intros acc; cbn [write_items]; [apply fret_fok|].
  apply fret_fseq; [exact (format_item_total a sv it Hv)|]. intros s. apply IH.
Qed.

(** * DelayedFormat over StrftimeItems (strict: StrftimeItems::new, or lenient), every format string *)
From V Require Proofs.C12View Proofs.C13Time Proofs.C15Owners Proofs.C15Utf8 Proofs.C04 Proofs.C04Date Proofs.C08Sweeps Proofs.Time Model.C15 Base.Utf8.
Theorem delayed_format_total a sv fmt lenient : args_view a sv ->
  Base.Utf8.utf8_valid fmt = true -> Base.Utf8.blen fmt <= u64_max -> SF_ERROR_CONSUMES = true \/ lenient = true ->
  fret (delayed_display a (mk_sfi fmt [] lenient)).
Proof.
  intros Hv Hf Hl Hc. rewrite <- Proofs.C15Utf8.utf8_valid_eq in Hf.
  destruct (Proofs.C15Owners.strftime_items_total fmt lenient Hf Hl Hc) as (l & E & Hb).
  unfold Model.C15.sf_items in E. destruct (Proofs.C13Time.sf_take_yields _ _ [] l E) as (l' & El & Hy). cbn [rev app] in El. subst l'.
  unfold delayed_display. cbn [sf_remainder sf_queue List.length]. rewrite Nat.add_0_r.
  rewrite (Proofs.C13Time.write_to_items l _ a _ [] Hy) by (unfold sf_bound; lia).
  exact (write_items_total a sv Hv l []).
Qed.

(** * every value of the five kinds has a view: NaiveDate, NaiveTime, NaiveDateTime, DateTime<FixedOffset> (any offset, the
      wall-clock day one day outside the date range included), DateTime<Utc> *)
Lemma date_ok_of_repr y o d : Proofs.C08Sweeps.repr y o d -> date_ok y o = true /\ d = Proofs.C08Sweeps.mkdate y o.
Proof. intros (Hy & Ho & Hd). split; [unfold date_ok; rewrite Hy, Ho; reflexivity|exact Hd]. Qed.
Lemma time_ok_of_tvalid t : Proofs.Time.tvalid t -> time_ok (Time.tsecs t) (Time.tfrac t) = true.
Proof. unfold Proofs.Time.tvalid, time_ok, G9. lia. Qed.
Theorem date_has_view y o d : Proofs.C08Sweeps.repr y o d -> exists sv, args_view (fa_of_date d) sv.
Proof.
  intros H. destruct (date_ok_of_repr y o d H) as [Hok ->].
  destruct (Proofs.C12View.args_view_date y o _ ltac:(cbn [sval_of]; rewrite Hok; reflexivity)) as (d' & Hd & Hv).
  destruct (Proofs.C12View.dec_date_repr y o Hok) as [Hd' _]. rewrite Hd' in Hd. injection Hd as <-. eexists. exact Hv.
Qed.
Theorem time_has_view t : Proofs.Time.tvalid t -> exists sv, args_view (fa_of_time t) sv.
Proof.
  intros H. pose proof (time_ok_of_tvalid t H) as Hok. destruct t as [s f]. cbn [Time.tsecs Time.tfrac] in Hok.
  destruct (Proofs.C12View.args_view_time s f _ ltac:(cbn [sval_of]; rewrite Hok; reflexivity)) as (t' & Ht & Hv).
  destruct (Proofs.C12View.time_view_of s f Hok) as [Ht' _]. rewrite Ht' in Ht. injection Ht as <-. eexists. exact Hv.
Qed.
Theorem ndt_has_view n : Proofs.C04.ndt_ok n -> exists sv, args_view (fa_of_ndt n) sv.
Proof.
  intros [Hd Ht]. destruct (Proofs.C04Date.repr_of_nominal _ Hd) as (y & o & H). destruct n as [d t]. cbn [DateTime.nd_date DateTime.nd_time] in *.
  destruct (date_ok_of_repr y o d H) as [Hok ->]. pose proof (time_ok_of_tvalid t Ht) as Hok2. destruct t as [s f]. cbn [Time.tsecs Time.tfrac] in Hok2.
  destruct (Proofs.C12View.args_view_ndt y o s f _ ltac:(cbn [sval_of]; rewrite Hok, Hok2; reflexivity)) as (n' & Hn & Hv).
  destruct (Proofs.C12View.dec_date_repr y o Hok) as [Hd' _]. destruct (Proofs.C12View.time_view_of s f Hok2) as [Ht' _].
  unfold DateTime.dec_ndt in Hn. rewrite Hd', Ht' in Hn. injection Hn as <-. eexists. exact Hv.
Qed.
Theorem utc_has_view n : Proofs.C04.ndt_ok n -> exists a sv, fa_of_utc n = Val a /\ args_view a sv.
Proof.
  intros [Hd Ht]. destruct (Proofs.C04Date.repr_of_nominal _ Hd) as (y & o & H). destruct n as [d t]. cbn [DateTime.nd_date DateTime.nd_time] in *.
  destruct (date_ok_of_repr y o d H) as [Hok ->]. pose proof (time_ok_of_tvalid t Ht) as Hok2. destruct t as [s f]. cbn [Time.tsecs Time.tfrac] in Hok2.
  destruct (Proofs.C12View.args_view_utc y o s f _ ltac:(cbn [sval_of]; rewrite Hok, Hok2; reflexivity)) as (n' & a & Hn & Ha & Hv).
  destruct (Proofs.C12View.dec_date_repr y o Hok) as [Hd' _]. destruct (Proofs.C12View.time_view_of s f Hok2) as [Ht' _].
  unfold DateTime.dec_ndt in Hn. rewrite Hd', Ht' in Hn. injection Hn as <-. eexists _, _. split; [exact Ha|exact Hv].
Qed.
Theorem dtz_has_view z : Proofs.C04.dtz_ok z -> exists a sv, fa_of_dtz z = Val a /\ args_view a sv.
Proof.
  intros [[Hd Ht] Ho]. destruct (Proofs.C04Date.repr_of_nominal _ Hd) as (y & o & H). destruct z as [[d t] off].
  cbn [DateTime.dz_utc DateTime.dz_off DateTime.nd_date DateTime.nd_time] in *.
  destruct (date_ok_of_repr y o d H) as [Hok ->]. pose proof (time_ok_of_tvalid t Ht) as Hok2. destruct t as [s f]. cbn [Time.tsecs Time.tfrac] in Hok2.
  assert (Hok3 : off_ok off = true) by (unfold Proofs.C04.off_ok in Ho; unfold off_ok; lia).
  destruct (Proofs.C12View.args_view_dtz_all y o s f off _ ltac:(cbn [sval_of]; rewrite Hok, Hok2, Hok3; reflexivity)) as (z' & a & Hz & Ha & Hv).
  destruct (Proofs.C12View.dec_date_repr y o Hok) as [Hd' _]. destruct (Proofs.C12View.time_view_of s f Hok2) as [Ht' _].
  unfold DateTime.dec_dtz, DateTime.dec_ndt in Hz. rewrite Hd', Ht' in Hz.
  unfold DateTime.east_opt, Gen.DateTimeConsts.FO_EAST_LO, Gen.DateTimeConsts.FO_EAST_HI in Hz.
  replace ((-86400 <? off) && (off <? 86400)) with true in Hz by (unfold Proofs.C04.off_ok in Ho; lia).
  injection Hz as <-. eexists _, _. split; [exact Ha|exact Hv].
Qed.

(** * in the vocabulary of C15: DelayedFormat::write_to / Display for every value, every item list, every format string *)
From V Require Import Proofs.C15.
Lemma fret_returns x : fret x -> returns x.
Proof. intros [o ->]. split; discriminate. Qed.
Lemma delayed_format_items_total items :
  (forall d, date_valid d -> returns (Model.Format.write_items (Model.Format.fa_of_date d) items [])) /\
  (forall t, time_valid t -> returns (Model.Format.write_items (Model.Format.fa_of_time t) items [])) /\
  (forall n, Proofs.C04.ndt_ok n -> returns (Model.Format.write_items (Model.Format.fa_of_ndt n) items [])) /\
  (forall z, Proofs.C04.dtz_ok z -> exists a, Model.Format.fa_of_dtz z = Val a /\ returns (Model.Format.write_items a items [])) /\
  (forall n, Proofs.C04.ndt_ok n -> exists a, Model.Format.fa_of_utc n = Val a /\ returns (Model.Format.write_items a items [])).
Proof.
  split; [|split; [|split; [|split]]].
  - intros d (y & o & H). destruct (date_has_view y o d H) as (sv & Hv). exact (fret_returns _ (write_items_total _ sv Hv items [])).
  - intros t H. destruct (time_has_view t H) as (sv & Hv). exact (fret_returns _ (write_items_total _ sv Hv items [])).
  - intros n H. destruct (ndt_has_view n H) as (sv & Hv). exact (fret_returns _ (write_items_total _ sv Hv items [])).
  - intros z H. destruct (dtz_has_view z H) as (a & sv & Ha & Hv). exists a. split; [exact Ha|]. exact (fret_returns _ (write_items_total _ sv Hv items [])).
  - intros n H. destruct (utc_has_view n H) as (a & sv & Ha & Hv). exists a. split; [exact Ha|]. exact (fret_returns _ (write_items_total _ sv Hv items [])).
Qed.
Lemma delayed_format_strftime_total fmt lenient :
  Base.Utf8.utf8_valid fmt = true -> Base.Utf8.blen fmt <= u64_max -> Gen.Strftime.SF_ERROR_CONSUMES = true \/ lenient = true ->
  (forall d, date_valid d -> returns (Model.Format.delayed_display (Model.Format.fa_of_date d) (Model.Strftime.mk_sfi fmt [] lenient))) /\
  (forall t, time_valid t -> returns (Model.Format.delayed_display (Model.Format.fa_of_time t) (Model.Strftime.mk_sfi fmt [] lenient))) /\
  (forall n, Proofs.C04.ndt_ok n -> returns (Model.Format.delayed_display (Model.Format.fa_of_ndt n) (Model.Strftime.mk_sfi fmt [] lenient))) /\
  (forall z, Proofs.C04.dtz_ok z -> exists a, Model.Format.fa_of_dtz z = Val a /\ returns (Model.Format.delayed_display a (Model.Strftime.mk_sfi fmt [] lenient))) /\
  (forall n, Proofs.C04.ndt_ok n -> exists a, Model.Format.fa_of_utc n = Val a /\ returns (Model.Format.delayed_display a (Model.Strftime.mk_sfi fmt [] lenient))).
Proof.
  intros Hf Hl Hc. split; [|split; [|split; [|split]]].
  - intros d (y & o & H). destruct (date_has_view y o d H) as (sv & Hv). exact (fret_returns _ (delayed_format_total _ sv fmt lenient Hv Hf Hl Hc)).
  - intros t H. destruct (time_has_view t H) as (sv & Hv). exact (fret_returns _ (delayed_format_total _ sv fmt lenient Hv Hf Hl Hc)).
  - intros n H. destruct (ndt_has_view n H) as (sv & Hv). exact (fret_returns _ (delayed_format_total _ sv fmt lenient Hv Hf Hl Hc)).
  - intros z H. destruct (dtz_has_view z H) as (a & sv & Ha & Hv). exists a. split; [exact Ha|]. exact (fret_returns _ (delayed_format_total _ sv fmt lenient Hv Hf Hl Hc)).
  - intros n H. destruct (utc_has_view n H) as (a & sv & Ha & Hv). exists a. split; [exact Ha|]. exact (fret_returns _ (delayed_format_total _ sv fmt lenient Hv Hf Hl Hc)).
Qed.
(* the core, item by item: the view premise is C12's (every value has one: the five lemmas *_has_view above) *)
Lemma format_item_never_traps a sv it : Proofs.C12.args_view a sv -> returns (Model.Format.format_item a it).
Proof. intros Hv. exact (fret_returns _ (format_item_total a sv it Hv)). Qed.
