(** C11 -- reader completeness and weekday contradiction: scanning (Proofs/C11Scan.v) composed with
    resolution (Proofs/C11Resolve.v), stated on the dispatcher output [r2_parse] against the
    specification's denotation, in the very form the judge (Judge/C11.v) demands. *)
From Coq Require Import ZArith List Bool Lia ZifyBool String.
From V Require Model.Date Model.Time Model.Parsed.
From V Require Import Base.Int Base.IntLemmas Base.IO Base.Utf8 Model.Scan Model.DateTime Model.C11
  Spec.Gregorian Spec.Rfc2822 Judge.C11 Proofs.Utf8 Proofs.Scan Proofs.C11 Proofs.C11Scan Proofs.C11Resolve.
Import ListNotations.
Open Scope Z_scope.

Lemma parsed_of_resolve f : parsed_of f = resolve_fields f.
Proof. reflexivity. Qed.

(** the fields the recogniser returns are non-negative numbers *)
Lemma take2_nonneg s v r : take2 s = Some (v, r) -> 0 <= v <= 99.
Proof.
  rewrite take2_two. destruct (two_digits s) as [[r' v']|] eqn:E; [|discriminate].
  intros H. apply some_pair_inj in H. destruct H as [<- _]. eapply two_digits_range; exact E.
Qed.
Lemma recognise_nonneg s f : recognise s = Some f -> fields_nonneg f.
Proof.
  unfold recognise. destruct (rec_dow (ws0 s)) as [wd s1]. unfold Spec.Rfc2822.obind.
  destruct (rec_day (ws0 s1)) as [[d s2]|]; [|discriminate].
  destruct (ws1 s2) as [s3|]; [|discriminate].
  destruct (month_name s3) as [[mo s4]|]; [|discriminate].
  destruct (ws1 s4) as [s5|]; [|discriminate].
  destruct (rec_year s5) as [[[yl yv] s6]|] eqn:Eyear; [|discriminate].
  destruct (ws1 s6) as [s7|]; [|discriminate].
  destruct (take2 s7) as [[h s8]|] eqn:Eh; [|discriminate].
  destruct (expect 58 (ws0 s8)) as [s9|]; [|discriminate].
  destruct (take2 (ws0 s9)) as [[mi s10]|] eqn:Emi; [|discriminate].
  destruct (rec_second s10) as [[sec s11]|] eqn:Esec; [|discriminate].
  destruct (ws1 s11) as [s12|]; [|discriminate].
  destruct (rec_zone s12) as [[z s13]|]; [|discriminate].
  destruct (comments_to_end (S (List.length s13)) s13); [|discriminate].
  intros H. injection H as <-. unfold fields_nonneg, second_of. cbn [f_hour f_minute f_second f_yval].
  pose proof (take2_nonneg _ _ _ Eh). pose proof (take2_nonneg _ _ _ Emi).
  repeat split; try lia.
  - unfold rec_second, Spec.Rfc2822.obind in Esec. destruct (ws0 s10) as [|c t].
    + injection Esec as <- _. lia.
    + destruct (c =? 58).
      * destruct (take2 (ws0 t)) as [[v r']|] eqn:Et; [|discriminate]. injection Esec as <- _.
        pose proof (take2_nonneg _ _ _ Et). lia.
      * injection Esec as <- _. lia.
  - unfold rec_year in Eyear. destruct (take_digits_spec s5) as (ds & _ & Hd & Hf & _).
    destruct (take_digits s5) as [dv r']. cbn [fst snd] in *.
    destruct (2 <=? Z.of_nat (List.length dv)); [|discriminate].
    assert (yv = value_of dv 0) by congruence. subst yv dv. rewrite value_of_digits.
    apply digits_value_mono; [exact Hd|lia].
Qed.

Lemma representable_year f : representable f = true -> year_in_range (year_of f) = true.
Proof.
  unfold representable. intros H. apply andb_prop in H. destruct H as [H _]. apply andb_prop in H. exact (proj2 H).
Qed.

(** reader_complete: every string of the generator grammar with valid fields, a consistent day of
    week (if any) and a representable value is read as exactly the value it denotes *)
Theorem reader_complete s f : utf8_valid s = true -> blen s <= u64_max ->
  recognise s = Some f -> valid f = true -> weekday_ok f = true -> representable f = true ->
  r2_parse s = enc5 (denote f).
Proof.
  intros Hv Hl Hr Hval Hw Hrep. unfold r2_parse, parse_from_rfc2822.
  rewrite (scan_complete s f Hv Hl Hr Hval (representable_year f Hrep)). cbv [pbind bind].
  rewrite parsed_of_resolve.
  destruct (to_datetime_fields f Hval Hrep (recognise_nonneg s f Hr) Hw) as (z & Hz & He).
  rewrite Hz. cbv [bind of_res val_of_R val_of_presult]. rewrite He.
  unfold enc5. destruct (denote f) as [[[[y o] sd] fr] of_]. reflexivity.
Qed.

(** weekday_contradiction_rejected: a day of week that is not the date's is refused (IMPOSSIBLE) *)
Theorem weekday_contradiction_rejected s f : utf8_valid s = true -> blen s <= u64_max ->
  recognise s = Some f -> valid f = true -> weekday_ok f = false -> representable f = true ->
  r2_parse s = VErr (perr_name Impossible).
Proof.
  intros Hv Hl Hr Hval Hw Hrep. unfold r2_parse, parse_from_rfc2822.
  rewrite (scan_complete s f Hv Hl Hr Hval (representable_year f Hrep)). cbv [pbind bind].
  rewrite parsed_of_resolve.
  rewrite (to_datetime_weekday_contradiction f Hval Hrep (recognise_nonneg s f Hr) Hw). reflexivity.
Qed.

(** the judge accepts the model's output on every such string (the judge and the theorem say the same) *)
Corollary judge_accepts_reader s f : utf8_valid s = true -> blen s <= u64_max ->
  recognise s = Some f -> valid f = true -> representable f = true ->
  judge_parse s (r2_parse s) = JOk.
Proof.
  intros Hv Hl Hr Hval Hrep. unfold judge_parse. rewrite Hv, Hr, Hval, Hrep. cbn [negb].
  destruct (weekday_ok f) eqn:Hw; cbn [negb].
  - rewrite (reader_complete s f Hv Hl Hr Hval Hw Hrep). unfold judge_eq.
    assert (E : forall v, val_eqb v v = true).
    { fix IH 1. intros [z|b| |v|l|b| | |]; cbn [val_eqb]; try reflexivity.
      - apply Z.eqb_refl.
      - induction b as [|x b IHb]; cbn [bytes_eqb]; [reflexivity|]. rewrite Z.eqb_refl, IHb. reflexivity.
      - apply IH.
      - induction l as [|a l IHl]; [reflexivity|]. rewrite IH, IHl. reflexivity.
      - induction b as [|x b IHb]; cbn [bytes_eqb]; [reflexivity|]. rewrite Z.eqb_refl, IHb. reflexivity. }
    rewrite E. reflexivity.
  - rewrite (weekday_contradiction_rejected s f Hv Hl Hr Hval Hw Hrep). reflexivity.
Qed.

(** never a trap on the generator grammar (valid, representable fields; any day of week) *)
Theorem reader_total_on_grammar s f : utf8_valid s = true -> blen s <= u64_max ->
  recognise s = Some f -> valid f = true -> representable f = true ->
  exists r, parse_from_rfc2822 s = Val r.
Proof.
  intros Hv Hl Hr Hval Hrep. unfold parse_from_rfc2822.
  rewrite (scan_complete s f Hv Hl Hr Hval (representable_year f Hrep)). cbv [pbind bind].
  rewrite parsed_of_resolve. destruct (weekday_ok f) eqn:Hw.
  - destruct (to_datetime_fields f Hval Hrep (recognise_nonneg s f Hr) Hw) as (z & Hz & _). rewrite Hz. eexists; reflexivity.
  - rewrite (to_datetime_weekday_contradiction f Hval Hrep (recognise_nonneg s f Hr) Hw). eexists; reflexivity.
Qed.
