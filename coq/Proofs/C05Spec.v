(** C05: facts about the oracle Spec/Zone.v itself ([instants_of_wall] really is the set
    S(l) = { t | t + off(t) = l }, ascending). *)
From Coq Require Import ZArith List Bool Lia ZifyBool.
From V Require Import Spec.Zone.
Import ListNotations.
Open Scope Z_scope.

Lemma existsb_eqb_In a l : existsb (Z.eqb a) l = true <-> In a l.
Proof.
  rewrite existsb_exists. split.
  - intros (x & Hin & Heq). apply Z.eqb_eq in Heq. subst. exact Hin.
  - intros H. exists a. split; [exact H|apply Z.eqb_refl].
Qed.
Lemma In_dedup x l : In x (dedup l) <-> In x l.
Proof.
  induction l as [|a r IH]; cbn [dedup]; [tauto|].
  destruct (existsb (Z.eqb a) r) eqn:E.
  - rewrite IH. split; [intros H; right; exact H|]. intros [<-|H]; [apply existsb_eqb_In; exact E|exact H].
  - cbn [In]. rewrite IH. tauto.
Qed.
Lemma NoDup_dedup l : NoDup (dedup l).
Proof.
  induction l as [|a r IH]; cbn [dedup]; [constructor|].
  destruct (existsb (Z.eqb a) r) eqn:E; [exact IH|].
  constructor; [|exact IH]. rewrite In_dedup. intros H. apply existsb_eqb_In in H. congruence.
Qed.
Lemma In_insert x y l : In x (insert_z y l) <-> x = y \/ In x l.
Proof.
  induction l as [|a r IH]; cbn [insert_z]; [cbn; intuition|].
  destruct (y <=? a); cbn [In]; [intuition|]. rewrite IH. intuition.
Qed.
Lemma In_sort x l : In x (sort_z l) <-> In x l.
Proof.
  induction l as [|a r IH]; cbn [sort_z fold_right]; [tauto|].
  fold (sort_z r). rewrite In_insert, IH. cbn [In]. intuition.
Qed.

(* ascending *)
Fixpoint asc (l : list Z) : Prop :=
  match l with a :: ((b :: _) as r) => a <= b /\ asc r | _ => True end.
Lemma asc_insert y l : asc l -> asc (insert_z y l).
Proof.
  induction l as [|a r IH]; intros H; cbn [insert_z]; [exact I|].
  destruct (y <=? a) eqn:E; [cbn [asc]; split; [lia|exact H]|].
  destruct r as [|b r']; cbn [insert_z asc] in *; [split; [lia|exact I]|].
  destruct H as [Hab Hr]. specialize (IH Hr). cbn [insert_z] in IH.
  destruct (y <=? b) eqn:E2; cbn [asc] in *; split; try lia; tauto.
Qed.
Lemma asc_sort l : asc (sort_z l).
Proof. induction l as [|a r IH]; cbn [sort_z fold_right]; [exact I|]. apply asc_insert. exact IH. Qed.

(** S(l): t is listed exactly when the zone is at offset l - t at instant t (and that offset is
    one the zone uses, which is automatic: see [table_off_in_offsets]) *)
Theorem instants_of_wall_spec z l t :
  In t (instants_of_wall z l) <-> zone_off z t = Some (l - t) /\ In (l - t) (zone_offsets z).
Proof.
  unfold instants_of_wall, instants_of_wall_among. rewrite In_sort, In_dedup, in_flat_map. split.
  - intros (o & Hin & Ht). destruct (zone_off z (l - o)) as [o'|] eqn:E; [|contradiction].
    destruct (o' =? o) eqn:E2; [|contradiction]. destruct Ht as [<-|[]].
    replace (l - (l - o)) with o by lia. split; [rewrite E; f_equal; lia|exact Hin].
  - intros [Hz Hin]. exists (l - t). split; [exact Hin|]. replace (l - (l - t)) with t by lia.
    rewrite Hz, Z.eqb_refl. left. reflexivity.
Qed.
Theorem instants_of_wall_asc z l : asc (instants_of_wall z l).
Proof. apply asc_sort. Qed.

(* the offsets a table can be at are all listed *)
Lemma table_off_in : forall tr cur t, In (table_off tr cur t) (cur :: map snd tr).
Proof.
  induction tr as [|[ti o] rest IH]; intros cur t; cbn [table_off map snd]; [left; reflexivity|].
  destruct (ti <=? t); [|left; reflexivity]. destruct (IH o t) as [H|H]; [right; left; exact H|right; right; exact H].
Qed.
Lemma zone_off_table first tr t : zone_off (mk_szone first tr None) t = Some (table_off tr first t).
Proof.
  unfold zone_off. cbn [z_trans z_rule z_first]. destruct (last_trans tr) eqn:E; [reflexivity|].
  unfold last_trans in E. destruct (rev tr) as [|[ti o] r] eqn:Er; [|discriminate].
  rewrite <- (rev_involutive tr), Er. reflexivity.
Qed.
Lemma table_off_in_offsets first tr t : In (table_off tr first t) (zone_offsets (mk_szone first tr None)).
Proof.
  unfold zone_offsets. cbn [z_trans z_rule z_first]. rewrite In_dedup, app_nil_r. apply table_off_in.
Qed.
(* for a zone without footer rule: S(l) in one line *)
Corollary instants_of_wall_table first tr l t :
  In t (instants_of_wall (mk_szone first tr None) l) <-> t + table_off tr first t = l.
Proof.
  rewrite instants_of_wall_spec, zone_off_table. split.
  - intros [H _]. injection H as H. lia.
  - intros H. split; [f_equal; lia|]. replace (l - t) with (table_off tr first t) by lia. apply table_off_in_offsets.
Qed.
