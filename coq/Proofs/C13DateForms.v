(** C13 — format_parse_roundtrip END TO END for the two other date forms of NaiveDate:
    the ordinal form "%Y-%j" and the ISO week form "%G-W%V-%u".  For EVERY NaiveDate d
        NaiveDate::parse_from_str(&d.format(f).to_string(), f) = Ok(d)
    through the formatter, the reader and Parsed::to_naive_date; the resolution step is C14's
    completeness theorem on the (year, ordinal) and (ISO year, ISO week, weekday) combinations. *)
From Coq Require Import ZArith List Bool Lia ZifyBool.
From V Require Import Base.Int Base.IntLemmas Base.IO Base.Utf8 Model.Scan Model.Items Gen.ParseTable Gen.Strftime
  Proofs.Utf8 Proofs.Scan Model.Parse Proofs.C13 Proofs.C13Reads Proofs.C13Fmt Proofs.C13Digits Proofs.C13Time
  Proofs.C13Date Proofs.C13View Proofs.C13DateTime Spec.StrftimeDoc.
From V Require Model.Parsed Model.Format Model.Date Model.Strftime Proofs.C12 Proofs.C14 Proofs.C14Date Proofs.C14Iso
  Proofs.C08Sweeps Proofs.C08 Proofs.DateIso.
Import ListNotations.
Open Scope Z_scope.
Ltac Zify.zify_post_hook ::= Z.to_euclidean_division_equations.
Import Model.Parsed.

(** * "%Y-%j" *)
Definition YJ_FMT : list Item := [num0 N_Year; Literal [45]; num0 N_Ordinal].

Theorem date_yj_roundtrip y o d : Proofs.C08Sweeps.repr y o d ->
  exists text,
    Model.Format.write_items (Model.Format.fa_of_date d) YJ_FMT [] = Model.Format.fok text /\
    (let+ p := parse parsed_new text YJ_FMT in pr_of (to_naive_date p)) = pok d.
Proof.
  intros H. destruct (Proofs.C08.repr_md y o d H) as (Ey & Eo & _).
  destruct (Proofs.C14Date.repr_year_i32 y o d H) as [Hyi Hyb].
  pose proof (Proofs.C14Date.repr_ordinal_bounds y o d H) as Hob.
  set (a := Model.Format.fa_of_date d).
  (* the segment *)
  pose proof (seg_nil a [] eq_refl) as S3.
  assert (S2 : seg_ok a [num0 N_Ordinal] [pad_num DZero 3 false o] [W_code 12 o] []).
  { seg_step S3. apply (item_num_full a N_Ordinal 12 3 o (pad_num DZero 3 false o));
      [|reflexivity|reflexivity|lia|change (10 ^ 3) with 1000; lia|exact V].
    unfold a, Model.Format.fa_of_date. cbn [Model.Format.format_numeric Model.Format.fa_date Model.Format.fa_time].
    rewrite Eo. exact (Proofs.C12.write_n_spec 3 o DZero false ltac:(lia)). }
  assert (S1 : seg_ok a [Literal [45]; num0 N_Ordinal] [[45]; pad_num DZero 3 false o] [W_none; W_code 12 o] []).
  { seg_step S2. apply (item_lit _ [45]); [apply ascii1; lia|exact V]. }
  assert (S0 : seg_ok a YJ_FMT [pad_num DZero 4 ((y <? 0) || (9999 <? y)) y; [45]; pad_num DZero 3 false o]
                      [W_code 0 y; W_none; W_code 12 o] []).
  { unfold YJ_FMT. seg_step S1. apply (item_year a N_Year 0 y); [|reflexivity|exact Hyi|reflexivity|exact V].
    unfold a, Model.Format.fa_of_date. cbn [Model.Format.format_numeric Model.Format.fa_date Model.Format.fa_time].
    rewrite Ey. reflexivity. }
  destruct (seg_parse _ _ _ _ S0) as [Hw Hp]. eexists. split; [exact Hw|]. rewrite Hp.
  (* the writes and the resolution *)
  destruct (date_F_sound y o d H) as (iw & Hiw & Hiy & Hiwb & TF & DS). cbv zeta in TF, DS.
  set (F := date_F y o (Model.Date.iw_year iw) (Model.Date.iw_week iw)
              (Spec.Gregorian.weekday_of_dn (Spec.Gregorian.dn_of_yo y o))) in *.
  destruct (run_view F [W_code 0 y; W_none; W_code 12 o] parsed_new (extends_new F)) as [Hrun E].
  { unfold F, date_F. unfold in_i32, in_range in Hyi.
    repeat constructor; cbn [w_ok simple_code Z.eqb Pos.eqb]; try lia; reflexivity. }
  rewrite Hrun. cbn [pbind bind pok]. unfold pr_of.
  rewrite (resolve_date_view y o d iw _ F H Hiw TF DS E).
  - reflexivity.
  - right. left. cbn. discriminate.
  - left. cbn. auto.
  - right. left. split; [left; cbn; discriminate|cbn; discriminate].
Qed.

(** * "%G-W%V-%u" *)
Definition ISOW_FMT : list Item :=
  [num0 N_IsoYear; Literal [45; 87]; num0 N_IsoWeek; Literal [45]; num N_WeekdayFromMon].

Theorem date_isow_roundtrip y o d : Proofs.C08Sweeps.repr y o d ->
  exists text,
    Model.Format.write_items (Model.Format.fa_of_date d) ISOW_FMT [] = Model.Format.fok text /\
    (let+ p := parse parsed_new text ISOW_FMT in pr_of (to_naive_date p)) = pok d.
Proof.
  intros H. destruct (Proofs.C08.repr_md y o d H) as (_ & _ & _ & _ & Ew & _).
  pose proof (Proofs.C14Date.weekday_bounds (Spec.Gregorian.dn_of_yo y o)) as Hwb.
  destruct (date_F_sound y o d H) as (iw & Hiw & Hiy & Hiwb & TF & DS). cbv zeta in TF, DS.
  set (wd := Spec.Gregorian.weekday_of_dn (Spec.Gregorian.dn_of_yo y o)) in *.
  set (iy := Model.Date.iw_year iw) in *. set (wk := Model.Date.iw_week iw) in *.
  set (F := date_F y o iy wk wd) in *.
  set (a := Model.Format.fa_of_date d).
  (* the segment *)
  pose proof (seg_nil a [] eq_refl) as S5.
  assert (S4 : seg_ok a [num N_WeekdayFromMon] [pad_num DNone 1 false (wd + 1)] [W_code 101 (wd + 1)] []).
  { seg_step S5. apply (item_num1 a N_WeekdayFromMon PadNone 101 DNone (wd + 1)); [|reflexivity|lia|exact V].
    unfold a, Model.Format.fa_of_date. cbn [Model.Format.format_numeric Model.Format.fa_date Model.Format.fa_time].
    rewrite Ew. cbn [bind]. unfold Model.Format.wd_number_from_monday.
    change Model.Format.WD_MON with 0. rewrite Proofs.C12.wd_days_since_spec by lia. cbn [bind].
    replace ((wd - 0) mod 7) with wd by lia. unfold add_u32. rewrite Proofs.C12.chk_u32 by lia. cbn [bind].
    rewrite Proofs.C12.as_u8_small by lia. reflexivity. }
  assert (S3 : seg_ok a [Literal [45]; num N_WeekdayFromMon] [[45]; pad_num DNone 1 false (wd + 1)]
                      [W_none; W_code 101 (wd + 1)] []).
  { seg_step S4. apply (item_lit _ [45]); [apply ascii1; lia|exact V]. }
  assert (S2 : seg_ok a [num0 N_IsoWeek; Literal [45]; num N_WeekdayFromMon]
                      [pad_num DZero 2 false wk; [45]; pad_num DNone 1 false (wd + 1)]
                      [W_code 10 wk; W_none; W_code 101 (wd + 1)] []).
  { seg_step S3. apply (item_two a N_IsoWeek 10 wk); [|reflexivity|lia|exact V].
    unfold a, Model.Format.fa_of_date. cbn [Model.Format.format_numeric Model.Format.fa_date Model.Format.fa_time].
    rewrite Hiw. cbn [bind]. fold wk. rewrite Proofs.C12.as_u8_small by lia. reflexivity. }
  assert (S1 : seg_ok a [Literal [45; 87]; num0 N_IsoWeek; Literal [45]; num N_WeekdayFromMon]
                      [[45; 87]; pad_num DZero 2 false wk; [45]; pad_num DNone 1 false (wd + 1)]
                      [W_none; W_code 10 wk; W_none; W_code 101 (wd + 1)] []).
  { seg_step S2. apply (item_lit _ [45; 87]); [repeat constructor; lia|exact V]. }
  assert (S0 : seg_ok a ISOW_FMT
                      [pad_num DZero 4 ((iy <? 0) || (9999 <? iy)) iy; [45; 87]; pad_num DZero 2 false wk; [45];
                       pad_num DNone 1 false (wd + 1)]
                      [W_code 3 iy; W_none; W_code 10 wk; W_none; W_code 101 (wd + 1)] []).
  { unfold ISOW_FMT. seg_step S1. apply (item_year a N_IsoYear 3 iy); [|reflexivity|exact Hiy|reflexivity|exact V].
    unfold a, Model.Format.fa_of_date. cbn [Model.Format.format_numeric Model.Format.fa_date Model.Format.fa_time].
    rewrite Hiw. reflexivity. }
  destruct (seg_parse _ _ _ _ S0) as [Hw Hp]. eexists. split; [exact Hw|]. rewrite Hp.
  (* the writes and the resolution *)
  destruct (run_view F [W_code 3 iy; W_none; W_code 10 wk; W_none; W_code 101 (wd + 1)] parsed_new (extends_new F)) as [Hrun E].
  { unfold F, date_F. unfold in_i32, in_range in Hiy.
    repeat constructor; cbn [w_ok simple_code Z.eqb Pos.eqb pget p_weekday]; try lia; try reflexivity.
    f_equal. lia. }
  rewrite Hrun. cbn [pbind bind pok]. unfold pr_of.
  rewrite (resolve_date_view y o d iw _ F H Hiw TF DS E).
  - reflexivity.
  - left. cbn. auto.
  - right. left. cbn. discriminate.
  - right. right. right. right. split; [left; cbn; discriminate|split; cbn; discriminate].
Qed.

Example date_forms_roundtrip_inhabited :
  Proofs.C08Sweeps.repr 2014 365 (Proofs.C08Sweeps.mkdate 2014 365) /\
  Proofs.C08Sweeps.repr (-262143) 1 (Proofs.C08Sweeps.mkdate (-262143) 1).
Proof. repeat split; reflexivity. Qed.

(** NaiveDate::parse_from_str(&d.format(f).to_string(), f) = Ok(d) for f = "%Y-%j" and "%G-W%V-%u" *)
Definition yj_format : bytes := [37; 89; 45; 37; 106].
Definition isow_format : bytes := [37; 71; 45; 87; 37; 86; 45; 37; 117].

Theorem date_yj_parse_from_str y o d : Proofs.C08Sweeps.repr y o d ->
  exists text,
    Model.Format.delayed_display (Model.Format.fa_of_date d) (Model.Strftime.sf_new yj_format) = Model.Format.fok text /\
    date_parse_from_str text yj_format = pok d.
Proof.
  intros H. destruct (date_yj_roundtrip y o d H) as (text & Hw & Hp).
  destruct (sf_lift yj_format YJ_FMT _ text ltac:(vm_compute; reflexivity) ltac:(cbn; lia) Hw) as [Hd Hps].
  exists text. split; [exact Hd|]. unfold date_parse_from_str. rewrite Hps. exact Hp.
Qed.
Theorem date_isow_parse_from_str y o d : Proofs.C08Sweeps.repr y o d ->
  exists text,
    Model.Format.delayed_display (Model.Format.fa_of_date d) (Model.Strftime.sf_new isow_format) = Model.Format.fok text /\
    date_parse_from_str text isow_format = pok d.
Proof.
  intros H. destruct (date_isow_roundtrip y o d H) as (text & Hw & Hp).
  destruct (sf_lift isow_format ISOW_FMT _ text ltac:(vm_compute; reflexivity) ltac:(cbn; lia) Hw) as [Hd Hps].
  exists text. split; [exact Hd|]. unfold date_parse_from_str. rewrite Hps. exact Hp.
Qed.
