(** C04 — z.show: the Display / Debug text of a zone-aware date-time is the documented text
    (Judge/C09.v: [date_text], [time_text], [offset_text]) of its WALL-CLOCK reading, for every
    well-formed value: wall clock nominal or in the one-day headroom, any fraction (leap fraction on
    any second), any offset (an offset with a seconds part prints ":ss" after the minutes).
    Built from C09's writer lemmas (Proofs/C09Show.v [time_debug_text], the proof pattern of
    [date_debug_text] / [fixed_debug_text], Proofs/C09Shape.v [time_shape] / [year_shape] /
    [pad_dec_low] / [off_shape]) and C04's reading of the wall clock ([overflowing_naive_local_u],
    [fields_ok] for nominal dates and for the two headroom dates). *)
From Coq Require Import ZArith List Bool Lia ZifyBool String.
From V Require Import Base.Int Base.IntLemmas Base.IO Base.Utf8 Gen.TextForms Model.Rfc3339 Model.DateTime Model.Show Spec.Gregorian
  Proofs.Decimal Proofs.C09Show.
From V Require Model.Date Model.Time Model.C04 Judge.C09 Proofs.C14 Proofs.C09Date Proofs.C09Zoned Proofs.C09Shape.
From V Require Import Proofs.C04 Proofs.C04Date.
Import ListNotations.
Open Scope Z_scope.
Ltac Zify.zify_post_hook ::= Z.to_euclidean_division_equations.

(** * the date writer on any date word whose accessors read (y, m, dd) — C09's [date_debug_text]
      with the premise on the representation replaced by what its proof uses *)
Lemma date_debug_fields w d y m dd :
  Date.d_year d = y -> Date.d_month d = Val m -> Date.d_day d = Val dd ->
  in_i32 y = true -> 0 <= m < 100 -> 0 <= dd < 100 ->
  date_debug w d = wok (w ++ date_txt y m dd).
Proof.
  intros E1 E3 E4 Hy Hm Hdd. unfold date_debug. rewrite E1.
  unfold Date.d_month in E3. unfold Date.d_day in E4.
  destruct (Date.d_mdf d) as [mdf| |]; try discriminate. cbn [bind] in *.
  injection E3 as E3. injection E4 as E4. rewrite E3, E4.
  change SH_YEAR_LO with 0. change SH_YEAR_HI with 9999. change SH_DATE_SEP1 with 45. change SH_DATE_SEP2 with 45.
  unfold date_txt, year_txt, wseq, wok, write_char.
  destruct ((0 <=? y) && (y <=? 9999)) eqn:E.
  - rewrite C14.div_i32_100, C14.rem_i32_100 by exact Hy. cbn [bind].
    rewrite Z.quot_div_nonneg, Z.rem_mod_nonneg by lia.
    rewrite !as_u8_small by lia.
    rewrite write_hundreds_two by lia. rewrite write_hundreds_two by lia. cbn [bind].
    rewrite write_hundreds_two by lia. cbn [bind]. rewrite write_hundreds_two by lia.
    rewrite <- low_digits_4_split by lia. rewrite <- !app_assoc. reflexivity.
  - cbn [bind]. rewrite !as_u8_small by lia.
    rewrite write_hundreds_two by lia. cbn [bind]. rewrite write_hundreds_two by lia.
    unfold fmt_plus_05. rewrite <- !app_assoc. reflexivity.
Qed.

Lemma dateok_year_i32 d : dateok d -> in_i32 (Date.d_year d) = true.
Proof.
  intros [H|[->| ->]]; [|vm_compute; reflexivity|vm_compute; reflexivity].
  destruct (repr_of_nominal d H) as [y [o Hr]].
  pose proof (C08Date.repr_acc y o d Hr) as A. destruct (md_of_ordinal (is_leap y) o). destruct A as (A1 & _).
  rewrite A1. pose proof (C08Date.year_range_bounds y (proj1 Hr)). unfold in_i32, in_range, i32_min, i32_max. lia.
Qed.

(** ... hence on every wall-clock date: the documented text of (year, ordinal) of its day number *)
Lemma date_debug_dateok w d : dateok d ->
  date_debug w d = wok (w ++ Judge.C09.date_text (fst (yo_of_dn (dn d))) (snd (yo_of_dn (dn d)))).
Proof.
  intros Hd. pose proof (dateok_fields HD _ Hd) as F. unfold fields_ok in F.
  pose proof (ymd_bounds (dn d)) as Bd. pose proof (dateok_range HD _ Hd) as Rn.
  unfold ymd_of_dn in F, Bd. unfold Judge.C09.date_text.
  pose proof (dateok_year_i32 d Hd) as Yb.
  destruct (yo_of_dn (dn d)) as [y o]. cbn [fst snd] in *.
  destruct (md_of_ordinal (is_leap y) o) as [m dd].
  destruct F as (F1 & F2 & F3 & _).
  rewrite (date_debug_fields w d y m dd F1 F2 F3); try lia.
  - unfold date_txt. rewrite C09Shape.year_shape.
    rewrite !C09Shape.pad_dec_low by (try (change (10 ^ Z.of_nat 2) with 100); lia).
    reflexivity.
  - rewrite <- F1. exact Yb.
Qed.

(** * the offset writer on EVERY offset (C09's [fixed_debug_text] covers the whole-minute ones) *)
Definition off_txt_full (off : Z) : bytes :=
  let a := Z.abs off in
  (if off <? 0 then 45 else 43) :: low_digits 2 (a / 3600) ++ 58 :: low_digits 2 (a / 60 mod 60)
  ++ (if a mod 60 =? 0 then [] else 58 :: low_digits 2 (a mod 60)).
Lemma fixed_debug_text_full w off : -86400 < off < 86400 ->
  fixed_debug w off = wok (w ++ off_txt_full off).
Proof.
  intros Hr. unfold fixed_debug, off_txt_full.
  assert (Hgen : forall sign a, 0 <= a < 86400 ->
    (let* sec := rem_euclid in_i32 a 60 in
     let* mins := div_euclid in_i32 a 60 in
     let* min := rem_euclid in_i32 mins 60 in
     let* hour := div_euclid in_i32 mins 60 in
     if sec =? 0 then wok (w ++ [sign] ++ fmt_i32_02 hour ++ [58] ++ fmt_i32_02 min)
     else wok (w ++ [sign] ++ fmt_i32_02 hour ++ [58] ++ fmt_i32_02 min ++ [58] ++ fmt_i32_02 sec)) =
    wok (w ++ sign :: low_digits 2 (a / 3600) ++ 58 :: low_digits 2 (a / 60 mod 60)
           ++ (if a mod 60 =? 0 then [] else 58 :: low_digits 2 (a mod 60)))).
  { intros sign a Ha.
    rewrite !rem_euclid_pos, !div_euclid_pos by lia.
    replace (in_i32 (a / 60)) with true by (symmetry; apply C09Date.in_i32_iff; lia). cbn [bind].
    rewrite chk_in by (apply C09Date.in_i32_iff; lia). cbn [bind].
    rewrite rem_euclid_pos, div_euclid_pos by lia.
    replace (in_i32 (a / 60 / 60)) with true by (symmetry; apply C09Date.in_i32_iff; lia). cbn [bind].
    rewrite chk_in by (apply C09Date.in_i32_iff; lia). cbn [bind].
    unfold fmt_i32_02. replace (a / 60 / 60 <? 0) with false by lia. replace ((a / 60) mod 60 <? 0) with false by lia.
    replace (a mod 60 <? 0) with false by lia.
    rewrite !fmt_zero_pad_low by (change (10 ^ 2) with 100; lia).
    replace (a / 60 / 60) with (a / 3600) by lia.
    destruct (a mod 60 =? 0).
    - rewrite app_nil_r. reflexivity.
    - cbn [app]. rewrite <- ?app_assoc. reflexivity. }
  destruct (off <? 0) eqn:E.
  - unfold neg_i32. rewrite chk_in by (apply C09Date.in_i32_iff; lia). cbn [bind].
    replace (Z.abs off) with (- off) by lia. apply Hgen; lia.
  - cbn [bind]. replace (Z.abs off) with off by lia. apply Hgen; lia.
Qed.

(** the documented zone text: the judge's [offset_text] (sign, hours, minutes), followed by ":ss" when
    the offset has a seconds part *)
Definition zone_text (off : Z) : bytes :=
  Judge.C09.offset_text off ++
  (if Z.abs off mod 60 =? 0 then [] else B":" ++ Judge.C09.pad_dec 2 (Z.abs off mod 60)).
Lemma zone_text_whole_minute off : off mod 60 = 0 -> zone_text off = Judge.C09.offset_text off.
Proof.
  intros H. unfold zone_text. replace (Z.abs off mod 60 =? 0) with true by lia. apply app_nil_r.
Qed.
Lemma off_full_shape off : -86400 < off < 86400 -> off_txt_full off = zone_text off.
Proof.
  intros H. unfold zone_text. rewrite <- (C09Shape.off_shape off H). unfold off_txt_full, C09Zoned.off_txt.
  cbv zeta. destruct (Z.abs off mod 60 =? 0).
  - reflexivity.
  - rewrite C09Shape.pad_dec_low by (try (change (10 ^ Z.of_nat 2) with 100); lia).
    cbn [app]. rewrite <- app_assoc. reflexivity.
Qed.

(** * z.show: Display and Debug of a zone-aware date-time ([utc] = true: the zone type is Utc) *)
Theorem show_wallclock a utc : dtz_ok a ->
  let n := wall a / 86400 in let sod := wall a mod 86400 in let f := frac (dz_utc a) in
  let y := fst (yo_of_dn n) in let o := snd (yo_of_dn n) in
  to_text (dtz_display utc [] a) =
    Val (Judge.C09.date_text y o ++ B" " ++ Judge.C09.time_text sod f ++ B" " ++
         (if utc then B"UTC" else zone_text (dz_off a))) /\
  to_text (dtz_debug utc [] a) =
    Val (Judge.C09.date_text y o ++ B"T" ++ Judge.C09.time_text sod f ++
         (if utc then B"Z" else zone_text (dz_off a))).
Proof.
  intros Ha. destruct (overflowing_naive_local_u a Ha) as [l [Hl [[Hd Ht] [Hu Hf]]]].
  assert (Hn : dn (nd_date l) = wall a / 86400 /\ Time.tsecs (nd_time l) = wall a mod 86400).
  { unfold usecs in Hu. destruct Ht as [Hs _]. lia. }
  destruct Hn as [Hn Hsod]. destruct Ha as [_ Ho]. unfold off_ok in Ho.
  cbv zeta. rewrite <- Hn, <- Hsod, <- Hf. unfold frac.
  unfold dtz_display, dtz_debug. rewrite Hl. cbn [bind].
  unfold ndt_display, ndt_debug, date_display, time_display, wseq.
  rewrite (date_debug_dateok [] _ Hd). unfold wok. cbn [bind app]. unfold write_char. cbn [bind].
  rewrite !(time_debug_text _ (nd_time l) Ht). unfold wok. cbn [bind].
  change SH_NDT_DISPLAY_SEP with 32. change SH_NDT_DEBUG_SEP with 84. change SH_DT_DISPLAY_SEP with 32.
  rewrite (C09Shape.time_shape _ _ (proj1 Ht) (proj2 Ht)).
  split; destruct utc.
  - unfold utc_display, wok, to_text, unwrap_r. cbn [bind unwrap].
    repeat (rewrite <- app_assoc; cbn [app]). reflexivity.
  - unfold fixed_display. rewrite (fixed_debug_text_full _ _ Ho), (off_full_shape _ Ho).
    unfold wok, to_text, unwrap_r. cbn [bind unwrap].
    repeat (rewrite <- app_assoc; cbn [app]). reflexivity.
  - unfold utc_debug, wok, to_text, unwrap_r. cbn [bind unwrap].
    repeat (rewrite <- app_assoc; cbn [app]). reflexivity.
  - rewrite (fixed_debug_text_full _ _ Ho), (off_full_shape _ Ho).
    unfold wok, to_text, unwrap_r. cbn [bind unwrap].
    repeat (rewrite <- app_assoc; cbn [app]). reflexivity.
Qed.
