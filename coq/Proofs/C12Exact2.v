(** Proofs for C12, part 10: one call of parse_next_item on an invalid specifier, both modes
    ([parse_step]); the text step with maximal runs; and the main theorem [items_exact]. *)
From Coq Require Import ZArith List Bool Lia ZifyBool.
From V Require Import Base.Int Base.IO Base.IntLemmas Base.Lift Spec.Gregorian Spec.StrftimeDoc
  Model.Items Gen.Strftime Gen.Locales Model.Strftime Model.Format
  Proofs.C12 Proofs.C12Str Proofs.C12Tok Proofs.C12Fam Proofs.C12All Proofs.C12Exact.
Import ListNotations.
Open Scope Z_scope.
Ltac Zify.zify_post_hook ::= Z.to_euclidean_division_equations.

Lemma lookup_complete t : forall name e rest, In (name, e) t -> lookup t (name ++ rest) <> None.
Proof.
  induction t as [|[n0 e0] t IH]; intros name e rest Hin; [destruct Hin|].
  cbn [lookup]. destruct (strip_prefix n0 (name ++ rest)) eqn:E; [discriminate|].
  destruct Hin as [Heq|Hin]; [|exact (IH _ _ _ Hin)].
  injection Heq as -> ->. exfalso. clear - E. induction name as [|x name IH]; cbn [strip_prefix app] in E.
  - discriminate.
  - rewrite Z.eqb_refl in E. exact (IH E).
Qed.
Arguments sf_next_char : simpl never.
Local Arguments strip_prefix : simpl never.
Local Arguments exact_simple : simpl never.
Arguments single_row : simpl never.

Definition resume_of (r : bytes) : bool := match r with c :: _ => c =? 58 | [] => false end.
Definition bad_spec (l : bool) (r : bytes) : option (bytes * Item) * list Item :=
  let n := bad_len r in
  if l then (Some (skipn n r, Literal (37 :: firstn n r)), [])
  else (Some (if resume_of r then skipn n r else [], IError), []).

Lemma pct_spec_none l r pad r1 : split_mod r = (pad, r1) -> lookup doc_table r1 = None ->
  pct_spec l r = bad_spec l r.
Proof. intros Hs Hl. unfold pct_spec, classify. rewrite Hs, Hl. reflexivity. Qed.

Lemma single_row_none c tl : lookup doc_table (c :: tl) = None -> single_row c = false.
Proof.
  intros Hl. destruct (single_row c) eqn:E; [|reflexivity]. exfalso.
  unfold single_row in E. apply existsb_exists in E. destruct E as ([name e] & Hin & Hx).
  cbn [fst] in Hx. destruct name as [|x [|y name]]; try discriminate. apply Z.eqb_eq in Hx. subst x.
  exact (lookup_complete doc_table [c] e tl Hin Hl).
Qed.

Ltac fin_g :=
  repeat first
    [ progress cbn
    | rewrite str_from_1 by hd3 | rewrite str_from_2 by hd3 | rewrite str_from_3 by hd3
    | rewrite str_from_4 by hd3 | rewrite str_from_5 by hd3
    | rewrite str_to_1 by hd3 | rewrite str_to_2 by hd3 | rewrite str_to_3 by hd3
    | rewrite str_to_4 by hd3 | rewrite str_to_5 by hd3 ].

(** a character that starts no arm of `match spec` (and is neither a modifier nor '#') *)
Lemma scan_len_nonkey c tl : assoc c SF_ARMS = None -> single_row c = false -> scan_len (c :: tl) = 0%nat.
Proof.
  intros Hn Hsr.
  assert (c <> 58) by (intros ->; vm_compute in Hn; discriminate).
  assert (c <> 46) by (intros ->; vm_compute in Hn; discriminate).
  assert (c <> 51) by (intros ->; vm_compute in Hn; discriminate).
  assert (c <> 54) by (intros ->; vm_compute in Hn; discriminate).
  assert (c <> 57) by (intros ->; vm_compute in Hn; discriminate).
  unfold scan_len, is369. rewrite Hsr.
  replace (c =? 58) with false by lia. replace (c =? 46) with false by lia.
  replace (c =? 51) with false by lia. replace (c =? 54) with false by lia.
  replace (c =? 57) with false by lia. reflexivity.
Qed.

Lemma len_utf8_ascii c : 0 <= c < 128 -> len_utf8 c = 1.
Proof. intros H. unfold len_utf8. replace (c <? 128) with true by lia. reflexivity. Qed.
Ltac se_h :=
  repeat first
    [ progress unfold is369
    | match goal with
      | |- context [len_utf8 ?c] => rewrite (len_utf8_ascii c) by lia
      end
    | progress se_g ].

Lemma after_mod_bad l m c tl :
  In m modifiers -> 0 <= c < 128 -> utf8_valid tl = true ->
  (m = [] -> modifier c = None /\ c <> 35) ->
  lookup doc_table (c :: tl) = None ->
  parse_next_item l [] (37 :: m ++ c :: tl) = Val (bad_spec l (m ++ c :: tl)).
Proof.
  intros Hm Hc Hv Hm0 Hl.
  assert (Hh : head_ok tl = true) by (apply valid_head_ok; exact Hv).
  assert (Hhc : head_ok (c :: tl) = true) by (apply head_ok_ascii; lia).
  pose proof (single_row_none c tl Hl) as Hsr.
  destruct (assoc_cases SF_ARMS c) as [Hn|Hk].
  - (* no arm at all *)
    pose proof (scan_len_nonkey c tl Hn Hsr) as Hsl.
    assert (Hlu : len_utf8 c = 1) by (unfold len_utf8; replace (c <? 128) with true by lia; reflexivity).
    unfold modifiers in Hm. cbn [In] in Hm.
    destruct Hm as [<-|[<-|[<-|[<-|[]]]]]; cbn [app]; rewrite pni_percent; unfold parse_spec, bad_spec;
      rewrite str_from_1 by hd3; cbv beta iota delta [bind].
    + destruct (Hm0 eq_refl) as [Hmod Hne]. unfold bad_len. rewrite Hmod, Hsl.
      replace (c =? 35) with false by lia. unfold modifier in Hmod.
      destruct (c =? 45) eqn:E1; [discriminate|]. destruct (c =? 95) eqn:E2; [discriminate|].
      destruct (c =? 48) eqn:E3; [discriminate|].
      assert (c <> 58) by (intros ->; vm_compute in Hn; discriminate).
      destruct l; cbv iota; try change (add_usize 0 1) with (Val 1); cbv beta iota delta [bind];
      rewrite (snc_ascii_g _ _ c tl) by (first [lia | exact Hh]); cbv beta iota delta [bind];
      unfold SF_PAD_OVERRIDE, SF_ALT_CHAR; cbn [assoc]; rewrite E1, E2, E3;
      replace (c =? 35) with false by lia; cbn [is_some orb andb]; cbv beta iota delta [bind]; rewrite Hn;
      unfold sf_error; rewrite ?Hlu; fin_g; replace (c =? 58) with false by lia; reflexivity.
    + unfold bad_len. change (45 =? 35) with false. change (modifier 45) with (Some DNone). cbv iota. rewrite Hsl.
      destruct l; cbv iota; try change (add_usize 0 1) with (Val 1); cbv beta iota delta [bind];
      rewrite (snc_ascii_g _ _ 45 (c :: tl)) by (first [lia | hd3]); cbv beta iota delta [bind];
      cbn [assoc SF_PAD_OVERRIDE Z.eqb Pos.eqb is_some orb]; cbv beta iota delta [bind];
      rewrite (snc_ascii_g _ _ c tl) by (first [lia | exact Hh]); cbv beta iota delta [bind];
      cbn [SF_ALT_CHAR Z.eqb Pos.eqb andb]; cbv beta iota delta [bind]; rewrite Hn;
      unfold sf_error; rewrite ?Hlu; fin_g; reflexivity.
    + unfold bad_len. change (95 =? 35) with false. change (modifier 95) with (Some DSpace). cbv iota. rewrite Hsl.
      destruct l; cbv iota; try change (add_usize 0 1) with (Val 1); cbv beta iota delta [bind];
      rewrite (snc_ascii_g _ _ 95 (c :: tl)) by (first [lia | hd3]); cbv beta iota delta [bind];
      cbn [assoc SF_PAD_OVERRIDE Z.eqb Pos.eqb is_some orb]; cbv beta iota delta [bind];
      rewrite (snc_ascii_g _ _ c tl) by (first [lia | exact Hh]); cbv beta iota delta [bind];
      cbn [SF_ALT_CHAR Z.eqb Pos.eqb andb]; cbv beta iota delta [bind]; rewrite Hn;
      unfold sf_error; rewrite ?Hlu; fin_g; reflexivity.
    + unfold bad_len. change (48 =? 35) with false. change (modifier 48) with (Some DZero). cbv iota. rewrite Hsl.
      destruct l; cbv iota; try change (add_usize 0 1) with (Val 1); cbv beta iota delta [bind];
      rewrite (snc_ascii_g _ _ 48 (c :: tl)) by (first [lia | hd3]); cbv beta iota delta [bind];
      cbn [assoc SF_PAD_OVERRIDE Z.eqb Pos.eqb is_some orb]; cbv beta iota delta [bind];
      rewrite (snc_ascii_g _ _ c tl) by (first [lia | exact Hh]); cbv beta iota delta [bind];
      cbn [SF_ALT_CHAR Z.eqb Pos.eqb andb]; cbv beta iota delta [bind]; rewrite Hn;
      unfold sf_error; rewrite ?Hlu; fin_g; reflexivity.
  - unfold SF_ARMS in Hk. cbn [map fst In] in Hk. unfold modifiers in Hm. cbn [In] in Hm.
    Time repeat (destruct Hk as [<-|Hk]; [
      first [ (exfalso; vm_compute in Hl; discriminate Hl)
            | (try colon_prep Hl;
               destruct Hm as [<-|[<-|[<-|[<-|[]]]]]; destruct l; cbn [app]; rewrite pni_percent;
               unfold parse_spec, bad_spec; se_h; leaf Hl) ] | ]).
    destruct Hk.
Qed.
