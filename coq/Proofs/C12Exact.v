(** Proofs for C12, part 9: the EXACT item list of every format string, strict and lenient.

    [exact_items lenient fmt] is a closed description (no iterator state, no slicing, no traps)
    of everything `StrftimeItems::new(fmt)` / `new_lenient(fmt)` yields when drained:
    - text between specifiers is cut into MAXIMAL runs: a [Space] item is the longest run of
      white-space characters ([run is_whitespace]), a [Literal] item the longest run of characters
      that are neither white space nor '%' ([run lit_char]); runs alternate, nothing is merged across
      a specifier;
    - `%%` is its own item [Literal "%"], `%n` / `%t` their own items [Space "\n"] / [Space "\t"]:
      they are never merged with neighbouring text;
    - a documented specifier is the item of its table row ([row_items]), a padding modifier replaces
      the padding of a numeric item; a composite is the exact item list of its documented expansion
      ([exact_simple], e.g. `%D` = items of "%m/%d/%y"), not merged with neighbouring literals;
    - anything else after '%' is an invalid specifier ([PBad n leak resume]): in strict mode it
      yields [Error] and the rest of the input is dropped - except after an incomplete `%:`
      (without modifier), where the code ignores the remainder returned by `error()` and goes on
      parsing after the "%:" ([resume]; invisible to the formatter, which stops at the first
      [Error]); in lenient mode it yields [Literal] of the
      first [1 + n] bytes of its source text and parsing resumes right after them;
      [n = bad_len r] is spelled out below.  When the invalid specifier is a padding modifier on a
      composite (`%-D`), the queued tail of the composite [leak]s out after the [Error] / [Literal]
      (the faithful behaviour of the code).

    [parse_step]: one call of parse_next_item on "%..." is [pct_spec]; [items_exact]: draining
    the iterator gives [exact_items], for every valid UTF-8 string and both modes. *)
From Coq Require Import ZArith List Bool Lia ZifyBool.
From V Require Import Base.Int Base.IO Base.IntLemmas Base.Lift Spec.Gregorian Spec.StrftimeDoc
  Model.Items Gen.Strftime Gen.Locales Model.Strftime Model.Format
  Proofs.C12 Proofs.C12Str Proofs.C12Tok Proofs.C12Fam Proofs.C12All.
Import ListNotations.
Open Scope Z_scope.
Ltac Zify.zify_post_hook ::= Z.to_euclidean_division_equations.

(** * The closed description *)

(** [run p s]: number of bytes of the longest prefix of [s] all of whose characters satisfy [p] *)
Fixpoint run_len (p : Z -> bool) (fuel : nat) (s : bytes) : nat :=
  match fuel with
  | O => O
  | S f => match next_char s with
           | Some c => if p c then let n := Z.to_nat (len_utf8 c) in (n + run_len p f (skipn n s))%nat else O
           | None => O
           end
  end.
Definition run (p : Z -> bool) (s : bytes) : nat := run_len p (List.length s) s.
Definition lit_char (c : Z) : bool := negb (is_whitespace c) && negb (c =? 37).

(* the item of the text of a `%%` `%n` `%t` row *)
Definition lit_item (t : bytes) : Item :=
  match next_char t with
  | Some c => if is_whitespace c then Space t else Literal t
  | None => Literal t
  end.
Definition row_items (comp : bytes -> list Item) (e : entry) (pad : option dpad) : list Item :=
  match e, pad with
  | ENum f p, None => [INumeric (numeric_of f) (pad_of p)]
  | ENum f _, Some p => [INumeric (numeric_of f) (pad_of p)]
  | EText f, _ => [IFixed (fixed_of f)]
  | ELit t, _ => [lit_item t]
  | EComposite x, _ => comp x
  end.
Definition row_bad (e : entry) (pad : option dpad) : bool :=
  match e, pad with ENum _ _, _ => false | _, None => false | _, Some _ => true end.

(** an invalid specifier "%" ++ r: the number of bytes of [r] that lenient mode puts into the
    [Literal] together with the '%'.  A character that cannot start a specifier is NOT part of it
    (it is parsed again as text); the modifier and the complete part of a `%:` `%.` `%.3` `%3`
    sequence are. *)
Definition is369 (c : Z) : bool := (c =? 51) || (c =? 54) || (c =? 57).
Definition single_row (c : Z) : bool :=
  existsb (fun ne => match fst ne with [x] => x =? c | _ => false end) doc_table.
Definition scan_len (r1 : bytes) : nat :=
  match r1 with
  | [] => 0%nat
  | c :: r2 =>
     if c =? 58 then 1%nat
     else if c =? 46 then
       match r2 with
       | d :: r3 => if d =? 102 then 2%nat
                    else if is369 d then match r3 with f :: _ => if f =? 102 then 3%nat else 2%nat | [] => 2%nat end
                    else 1%nat
       | [] => 1%nat
       end
     else if is369 c then match r2 with f :: _ => if f =? 102 then 2%nat else 1%nat | [] => 1%nat end
     else if single_row c then 1%nat else 0%nat
  end.
Definition bad_len (r : bytes) : nat :=
  match r with
  | [] => 0%nat
  | c :: r' => if c =? 35 then 1%nat
               else match modifier c with Some _ => S (scan_len r') | None => scan_len r end
  end.

Inductive pct :=
| POk (rest : bytes) (its : list Item)     (* a specifier: its items, the input after it *)
| PBad (n : nat) (leak : list Item) (resume : bool).
    (* invalid: [1 + n] bytes of source text, leaked queue; [resume]: strict mode goes on after the
       [Error] instead of dropping the rest of the input *)
(* [r]: the input after a '%' *)
Definition classify (comp : bytes -> list Item) (r : bytes) : pct :=
  let '(pad, r1) := split_mod r in
  match lookup doc_table r1 with
  | Some (e, rest) =>
      if row_bad e pad then PBad (bad_len r) (match e with EComposite x => tl (comp x) | _ => [] end) false
      else POk rest (row_items comp e pad)
  | None => PBad (bad_len r) [] (match r with c :: _ => c =? 58 | [] => false end)
  end.

Fixpoint items_gen (comp : bytes -> list Item) (l : bool) (fuel : nat) (s : bytes) : list Item :=
  match fuel with
  | O => []
  | S f =>
    match s with
    | [] => []
    | b :: r =>
      if b =? 37 then
        match classify comp r with
        | POk rest its => its ++ items_gen comp l f rest
        | PBad n leak resume =>
            if l then Literal (37 :: firstn n r) :: leak ++ items_gen comp l f (skipn n r)
            else IError :: leak ++ (if resume then items_gen comp l f (skipn n r) else [])
        end
      else
        match next_char s with
        | Some c =>
            if is_whitespace c
            then let k := run is_whitespace s in Space (firstn k s) :: items_gen comp l f (skipn k s)
            else let k := run lit_char s in Literal (firstn k s) :: items_gen comp l f (skipn k s)
        | None => []
        end
    end
  end.
(* the documented expansions contain simple specifiers only *)
Definition exact_simple (s : bytes) : list Item := items_gen (fun _ => [IError]) false (S (List.length s)) s.
Definition exact_items (l : bool) (s : bytes) : list Item := items_gen exact_simple l (S (List.length s)) s.

(* one call of parse_next_item on "%" ++ r: (Some (remainder, item), queue) *)
Definition pct_spec (l : bool) (r : bytes) : option (bytes * Item) * list Item :=
  match classify exact_simple r with
  | POk rest (i :: q) => (Some (rest, i), q)
  | POk rest [] => (None, [])
  | PBad n leak resume =>
      if l then (Some (skipn n r, Literal (37 :: firstn n r)), leak)
      else (Some (if resume then skipn n r else [], IError), leak)
  end.

(** * Reading one character, both modes *)
Lemma snc_ascii_g l o c tl el : 0 <= c < 128 -> head_ok tl = true -> 0 <= el < 1000 ->
  sf_next_char l o (c :: tl) el = Val (inr (c, tl, if l then el + 1 else el)).
Proof.
  intros Hc Hh Hel. unfold sf_next_char. cbn [next_char]. replace (c <? 128) with true by lia.
  unfold len_utf8. replace (c <? 128) with true by lia. rewrite str_from_1 by exact Hh.
  destruct l; [|reflexivity]. unfold add_usize, chk, in_usize, in_u64, u64_max, in_range.
  replace ((0 <=? el + 1) && (el + 1 <=? 18446744073709551615)) with true by lia. reflexivity.
Qed.
Lemma snc_nil_g l o el : sf_next_char l o [] el = (let* '(_, res) := sf_error l o el None in Val (inl res)).
Proof. reflexivity. Qed.

Lemma char_cases_g r : utf8_valid r = true ->
  r = [] \/
  (exists c tl, r = c :: tl /\ 0 <= c < 128 /\ utf8_valid tl = true) \/
  (exists x tl n, 128 <= x /\ utf8_valid tl = true /\ (exists b r', r = b :: r' /\ 128 <= b) /\
      len_utf8 x = n /\ (n = 2 \/ n = 3 \/ n = 4) /\
      forall l o el, 0 <= el < 1000 -> sf_next_char l o r el = Val (inr (x, tl, if l then el + n else el))).
Proof.
  intros Hv. destruct r as [|b0 r']; [left; reflexivity|right].
  destruct (valid_char b0 r' Hv) as (n & rest & x & Hn & Hlen & Hskip & Hvr & Hnc & Hlu & Hlo & Hhi).
  destruct (Z_lt_ge_dec b0 128) as [Hlt|Hge].
  - left. destruct (Hlo Hlt) as [-> ->]. cbn [skipn] in Hskip. subst rest. exists b0, r'.
    repeat split; auto. apply (valid_nonneg _ _ Hv).
  - right. exists x, rest, (Z.of_nat n). destruct (Hhi ltac:(lia)) as [Hx _]. split; [exact Hx|]. split; [exact Hvr|].
    split; [exists b0, r'; split; [reflexivity|lia]|]. split; [exact Hlu|].
    split.
    { unfold len_utf8 in Hlu. destruct (x <? 128) eqn:E1; [lia|].
      destruct (x <? 2048); [lia|]. destruct (x <? 65536); lia. }
    intros l o el Hel. unfold sf_next_char. rewrite Hnc, Hlu.
    rewrite str_from_at by (try lia; rewrite Hskip; apply valid_head_ok; exact Hvr).
    rewrite Hskip. destruct l; [|reflexivity]. unfold add_usize, chk, in_usize, in_u64, u64_max, in_range.
    replace ((0 <=? el + Z.of_nat n) && (el + Z.of_nat n <=? 18446744073709551615)) with true by lia. reflexivity.
Qed.

(** slicing after a short concrete prefix *)
Lemma str_from_pre (p s : bytes) : head_ok s = true -> str_from (p ++ s) (blen p) = Val s.
Proof.
  intros H. unfold blen. rewrite str_from_at.
  - rewrite skipn_app, skipn_all, Nat.sub_diag. reflexivity.
  - rewrite app_length. lia.
  - rewrite skipn_app, skipn_all, Nat.sub_diag. exact H.
Qed.
Lemma str_to_pre (p s : bytes) : head_ok s = true -> str_to (p ++ s) (blen p) = Val p.
Proof.
  intros H. unfold blen. rewrite str_to_at.
  - rewrite firstn_app, firstn_all, Nat.sub_diag. cbn [firstn]. rewrite app_nil_r. reflexivity.
  - rewrite app_length. lia.
  - rewrite skipn_app, skipn_all, Nat.sub_diag. exact H.
Qed.
Lemma str_from_4 a b c d s : head_ok s = true -> str_from (a :: b :: c :: d :: s) 4 = Val s.
Proof. exact (str_from_pre [a; b; c; d] s). Qed.
Lemma str_from_5 a b c d e s : head_ok s = true -> str_from (a :: b :: c :: d :: e :: s) 5 = Val s.
Proof. exact (str_from_pre [a; b; c; d; e] s). Qed.
Lemma str_to_1 a s : head_ok s = true -> str_to (a :: s) 1 = Val [a].
Proof. exact (str_to_pre [a] s). Qed.
Lemma str_to_2 a b s : head_ok s = true -> str_to (a :: b :: s) 2 = Val [a; b].
Proof. exact (str_to_pre [a; b] s). Qed.
Lemma str_to_3 a b c s : head_ok s = true -> str_to (a :: b :: c :: s) 3 = Val [a; b; c].
Proof. exact (str_to_pre [a; b; c] s). Qed.
Lemma str_to_4 a b c d s : head_ok s = true -> str_to (a :: b :: c :: d :: s) 4 = Val [a; b; c; d].
Proof. exact (str_to_pre [a; b; c; d] s). Qed.
Lemma str_to_5 a b c d e s : head_ok s = true -> str_to (a :: b :: c :: d :: e :: s) 5 = Val [a; b; c; d; e].
Proof. exact (str_to_pre [a; b; c; d; e] s). Qed.

(** * One call of parse_next_item on a '%' *)
Arguments sf_next_char : simpl never.
Local Arguments strip_prefix : simpl never.
Local Arguments exact_simple : simpl never.

Ltac hd3 := first [assumption | reflexivity | (apply head_ok_ascii; lia) | (apply valid_head_ok; assumption)].
Ltac split_tail_g :=
  match goal with
  | Hv : utf8_valid ?t = true |- context [sf_next_char ?l ?o ?t ?el] =>
      is_var t;
      let c := fresh "c" in let t' := fresh "t" in let Hc := fresh "Hc" in let Hv' := fresh "Hv" in
      let x := fresh "x" in let Hx := fresh "Hx" in let Hs := fresh "Hs" in let Hb := fresh "Hb" in
      let n := fresh "n" in let Hlu := fresh "Hlu" in let Hn := fresh "Hn" in
      let b := fresh "b" in let r' := fresh "r" in let Hhd := fresh "Hhd" in
      destruct (char_cases_g t Hv) as [-> | [(c & t' & -> & Hc & Hv') | (x & t' & n & Hx & Hv' & (b & r' & -> & Hb) & Hlu & Hn & Hs)]];
      [ rewrite snc_nil_g
      | rewrite snc_ascii_g by (first [lia | (apply valid_head_ok; assumption)])
      | assert (Hhd : head_ok (b :: r') = true) by (apply valid_head_ok; assumption);
        rewrite Hs by lia; try (rewrite (assoc_arms_big x) by exact Hx);
        destruct Hn as [-> | [-> | ->]] ]
  end.
Ltac split_eqb_g :=
  match goal with
  | |- context [?x =? ?k] =>
      is_var x;
      first [ replace (x =? k) with false by lia
            | replace (x =? k) with true by lia
            | let E := fresh "E" in destruct (x =? k) eqn:E; [apply Z.eqb_eq in E; subst x|] ]
  | |- context [?k =? ?x] =>
      is_var x;
      first [ replace (k =? x) with false by lia
            | replace (k =? x) with true by lia
            | let E := fresh "E" in destruct (k =? x) eqn:E; [apply Z.eqb_eq in E; subst x|] ]
  end.
Ltac se_g :=
  repeat first
    [ progress cbn
    | rewrite str_from_1 by hd3 | rewrite str_from_2 by hd3 | rewrite str_from_3 by hd3
    | rewrite str_from_4 by hd3 | rewrite str_from_5 by hd3
    | rewrite str_to_1 by hd3 | rewrite str_to_2 by hd3 | rewrite str_to_3 by hd3
    | rewrite str_to_4 by hd3 | rewrite str_to_5 by hd3
    | match goal with
      | |- context [sf_next_char ?l ?o (?c :: ?t) ?el] =>
          rewrite (snc_ascii_g l o c t el) by (first [lia | hd3])
      end
    | match goal with
      | H : len_utf8 ?x = _ |- context [len_utf8 ?x] => rewrite H
      end
    | match goal with
      | H : strip_prefix ?p ?t = _ |- context [strip_prefix ?p ?t] => rewrite H
      end
    | split_tail_g
    | split_eqb_g ].

(** ** the rows of the table (valid, or a modifier on a non-numeric / composite row) *)
Definition row_exact_ok (name : bytes) (e : entry) (m : bytes) : Prop :=
  forall l tl, head_ok tl = true ->
  parse_next_item l [] (37 :: m ++ name ++ tl) = Val (pct_spec l (m ++ name ++ tl)).
Ltac sf_step_g :=
  repeat (progress (unfold parse_spec, sf_next_char, sf_error; cbn;
                    repeat (first [ rewrite str_from_1 by hd_solve | rewrite str_from_2 by hd_solve
                                  | rewrite str_from_3 by hd_solve | rewrite str_from_4 by hd_solve
                                  | rewrite str_from_5 by hd_solve
                                  | rewrite str_to_1 by hd_solve | rewrite str_to_2 by hd_solve
                                  | rewrite str_to_3 by hd_solve | rewrite str_to_4 by hd_solve
                                  | rewrite str_to_5 by hd_solve ]; cbn))).
Ltac row_exact_tac :=
  intros l tl Htl;
  match goal with
  | |- _ = Val ?rhs => let v := eval vm_compute in rhs in change rhs with v
  end;
  destruct l; sf_step_g; reflexivity.
Lemma rows_exact : Forall (fun ne => Forall (row_exact_ok (fst ne) (snd ne)) modifiers) doc_table.
Proof.
  unfold doc_table, modifiers.
  Time repeat (apply Forall_cons; [repeat (apply Forall_cons; [cbn [fst snd]; row_exact_tac|]); apply Forall_nil|]).
  apply Forall_nil.
Qed.
