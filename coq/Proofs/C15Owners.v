(** C15 -- more corollaries of the owners' theorems (assembled in Props/C15.v). *)
From Coq Require Import ZArith List Bool Lia ZifyBool String.
From V Require Import Base.Int Base.IO Spec.Gregorian Spec.TimeOfDay.
From V Require Model.Date Model.Time Model.DateTime Model.TimeDelta Model.DateExtra Model.Parsed Model.C15.
From V Require Proofs.C08Sweeps Proofs.C08Date Proofs.C08AddDays Proofs.Time Proofs.C06 Proofs.C02 Proofs.C03 Proofs.C04 Proofs.C04Date Proofs.C14 Proofs.C14Date
               Proofs.C11Resolve Proofs.Date Proofs.C08Days.
From V Require Props.C01 Props.C02 Props.C03 Props.C04 Props.C06 Props.C07 Props.C08 Props.C14 Props.C19 Props.C13 Props.C11 Props.C10.
From V Require Model.C19 Proofs.C19 Model.Parse Model.Scan Proofs.C13Safe Model.Rfc2822 Model.Items Base.Utf8.
From V Require Import Proofs.C15.
Import ListNotations.
Open Scope Z_scope.

(** * generic shapes of the owners' statements *)
Lemma ex_opt_returns {A} (f : R (option A)) (P : A -> Prop) (Q : Prop) :
  (exists r, f = Val r /\ match r with Some b => P b | None => Q end) ->
  returns f /\ forall b, f = Val (Some b) -> P b.
Proof. intros (r & -> & H). split; [split; discriminate|]. intros b [= ->]. exact H. Qed.
Lemma ex_returns {A} (f : R A) (P : A -> Prop) : (exists r, f = Val r /\ P r) -> returns f /\ forall b, f = Val b -> P b.
Proof. intros (r & -> & H). split; [split; discriminate|]. intros b [= <-]. exact H. Qed.
Lemma if_ex_returns {A C} (c : bool) (f : R A) (g : C -> A) (P : C -> Prop) (v : A) :
  (if c then exists z, f = Val (g z) /\ P z else f = Val v) -> returns f.
Proof. destruct c; [intros (z & -> & _)|intros ->]; split; discriminate. Qed.

(** * TimeDelta (C06) *)
Lemma weaken_opt {A} (f : R (option A)) (P P' : A -> Prop) (Q : Prop) : (forall b, P b -> P' b) ->
  (exists r, f = Val r /\ match r with Some b => P b | None => Q end) ->
  returns f /\ forall b, f = Val (Some b) -> P' b.
Proof. intros W H. destruct (ex_opt_returns f P Q H) as [H1 H2]. split; [exact H1|]. intros b E. apply W, H2, E. Qed.
Lemma td_add_total a b : Proofs.C06.valid a -> Proofs.C06.valid b ->
  returns (Model.TimeDelta.td_checked_add a b) /\ forall d, Model.TimeDelta.td_checked_add a b = Val (Some d) -> Proofs.C06.valid d.
Proof. intros Ha Hb. eapply weaken_opt; [|exact (Props.C06.C06_checked_add a b Ha Hb)]. cbv beta. tauto. Qed.
Lemma td_sub_total a b : Proofs.C06.valid a -> Proofs.C06.valid b ->
  returns (Model.TimeDelta.td_checked_sub a b) /\ forall d, Model.TimeDelta.td_checked_sub a b = Val (Some d) -> Proofs.C06.valid d.
Proof. intros Ha Hb. eapply weaken_opt; [|exact (Props.C06.C06_checked_sub a b Ha Hb)]. cbv beta. tauto. Qed.
Lemma td_mul_total a k : Proofs.C06.valid a -> in_i32 k = true ->
  returns (Model.TimeDelta.td_checked_mul a k) /\ forall d, Model.TimeDelta.td_checked_mul a k = Val (Some d) -> Proofs.C06.valid d.
Proof. intros Ha Hk. eapply weaken_opt; [|exact (Props.C06.C06_checked_mul a k Ha Hk)]. cbv beta. tauto. Qed.
(* division by zero is refused by value in the model as in the code ([if rhs == 0 { return None }]) *)
Lemma td_div_total a k : Proofs.C06.valid a -> in_i32 k = true -> k <> 0 ->
  returns (Model.TimeDelta.td_checked_div a k) /\ forall d, Model.TimeDelta.td_checked_div a k = Val (Some d) -> Proofs.C06.valid d.
Proof.
  intros Ha Hk H0. destruct (Props.C06.C06_checked_div a k Ha Hk H0) as (d' & E & Hv & _). rewrite E.
  split; [split; discriminate|]. intros d [= <-]. exact Hv.
Qed.
Lemma td_millis_total n : in_i64 n = true ->
  returns (Model.TimeDelta.try_milliseconds n) /\ forall d, Model.TimeDelta.try_milliseconds n = Val (Some d) -> Proofs.C06.valid d.
Proof. intros Hn. eapply weaken_opt; [|exact (Props.C06.C06_try_milliseconds n Hn)]. cbv beta. tauto. Qed.
Lemma td_micros_nanos_total n : in_i64 n = true ->
  (returns (Model.TimeDelta.microseconds n) /\ forall d, Model.TimeDelta.microseconds n = Val d -> Proofs.C06.valid d) /\
  (returns (Model.TimeDelta.nanoseconds n) /\ forall d, Model.TimeDelta.nanoseconds n = Val d -> Proofs.C06.valid d).
Proof.
  intros Hn. split.
  - destruct (Props.C06.C06_microseconds n Hn) as (d & E & _ & Hv). rewrite E. split; [split; discriminate|]. intros x [= <-]. exact Hv.
  - destruct (Props.C06.C06_nanoseconds n Hn) as (d & E & _ & Hv). rewrite E. split; [split; discriminate|]. intros x [= <-]. exact Hv.
Qed.
(* the Option-returning constructors and conversions are plain functions in the model (no trapping step):
   their results are valid *)
Lemma td_ctor_valid s n : in_i64 s = true -> in_u32 n = true ->
  (forall d, Model.TimeDelta.td_new s n = Some d -> Proofs.C06.valid d) /\
  (forall d, Model.TimeDelta.try_weeks s = Some d -> Proofs.C06.valid d) /\
  (forall d, Model.TimeDelta.try_days s = Some d -> Proofs.C06.valid d) /\
  (forall d, Model.TimeDelta.try_hours s = Some d -> Proofs.C06.valid d) /\
  (forall d, Model.TimeDelta.try_minutes s = Some d -> Proofs.C06.valid d) /\
  (forall d, Model.TimeDelta.try_seconds s = Some d -> Proofs.C06.valid d).
Proof.
  intros Hs Hn.
  pose proof (Props.C06.C06_new s n Hs Hn) as H0. pose proof (Props.C06.C06_try_weeks s Hs) as H1.
  pose proof (Props.C06.C06_try_days s Hs) as H2. pose proof (Props.C06.C06_try_hours s Hs) as H3.
  pose proof (Props.C06.C06_try_minutes s Hs) as H4. pose proof (Props.C06.C06_try_seconds s Hs) as H5.
  repeat match goal with |- _ /\ _ => split end; intros d E.
  - rewrite E in H0. tauto.
  - rewrite E in H1. tauto.
  - rewrite E in H2. tauto.
  - rewrite E in H3. tauto.
  - rewrite E in H4. tauto.
  - rewrite E in H5. tauto.
Qed.
Lemma td_display_total a : Proofs.C06.valid a -> returns (Model.TimeDelta.td_display a).
Proof. intros H. apply returns_ex. exact (Props.C06.C06_display_total_partial a H). Qed.

(** * Unix timestamps (C02): every i64 count, every u32 nanosecond field *)
Lemma from_timestamp_total secs nsecs : in_i64 secs = true -> in_u32 nsecs = true ->
  returns (Model.DateTime.dt_from_timestamp secs nsecs) /\
  forall a, Model.DateTime.dt_from_timestamp secs nsecs = Val (Some a) -> Proofs.C02.valid_ndt a.
Proof. intros H1 H2. eapply weaken_opt; [|exact (Props.C02.C02_from_timestamp_spec secs nsecs H1 H2)]. cbv beta. tauto. Qed.
Lemma from_timestamp_millis_total ms : in_i64 ms = true ->
  returns (Model.DateTime.dt_from_timestamp_millis ms) /\
  forall a, Model.DateTime.dt_from_timestamp_millis ms = Val (Some a) -> Proofs.C02.valid_ndt a.
Proof. intros H1. eapply weaken_opt; [|exact (Props.C02.C02_from_timestamp_millis_spec ms H1)]. cbv beta. tauto. Qed.
Lemma from_timestamp_micros_total us : in_i64 us = true ->
  returns (Model.DateTime.dt_from_timestamp_micros us) /\
  forall a, Model.DateTime.dt_from_timestamp_micros us = Val (Some a) -> Proofs.C02.valid_ndt a.
Proof. intros H1. eapply weaken_opt; [|exact (Props.C02.C02_from_timestamp_micros_spec us H1)]. cbv beta. tauto. Qed.
Lemma from_timestamp_nanos_total ns : in_i64 ns = true ->
  returns (Model.DateTime.dt_from_timestamp_nanos ns) /\
  forall a, Model.DateTime.dt_from_timestamp_nanos ns = Val a -> Proofs.C02.valid_ndt a.
Proof.
  intros H1. destruct (Props.C02.C02_from_timestamp_nanos_total ns H1) as (a & E & Hv & _). rewrite E.
  split; [split; discriminate|]. intros x [= <-]. exact Hv.
Qed.
Lemma returns_rmap {A C} (f : A -> C) (r : R A) : returns r -> returns (rmap f r).
Proof. destruct r; intros [H1 H2]; try congruence. split; discriminate. Qed.
(* TimeZone::timestamp_opt / timestamp_millis_opt / timestamp_micros for a fixed offset or Utc *)
Lemma tz_timestamp_total off secs nsecs : in_i64 secs = true -> in_u32 nsecs = true ->
  returns (Model.DateTime.tz_timestamp_opt off secs nsecs) /\
  returns (Model.C02.tz_timestamp_millis_opt off secs) /\ returns (Model.C02.tz_timestamp_micros off secs).
Proof.
  intros H1 H2. rewrite Props.C02.C02_tz_timestamp_opt, Props.C02.C02_tz_timestamp_millis_opt, Props.C02.C02_tz_timestamp_micros.
  repeat match goal with |- _ /\ _ => split end; apply returns_rmap.
  - apply from_timestamp_total; assumption.
  - apply from_timestamp_millis_total; assumption.
  - apply from_timestamp_micros_total; assumption.
Qed.
Lemma timestamp_nanos_opt_total a : Proofs.C02.valid_ndt a -> Proofs.C02.nonleap a ->
  returns (Model.DateTime.dt_timestamp_nanos_opt a).
Proof. intros H1 H2. exact (returns_val _ _ (Props.C02.C02_timestamp_nanos_opt_spec a H1 H2)). Qed.

(** * elapsed-time arithmetic (C03): non-leap date-times, every duration, every u64 day count *)
Lemma ndt_signed_total a d : Proofs.C03.nvalid a -> Proofs.C06.valid d ->
  (returns (Model.DateTime.ndt_checked_add_signed a d) /\ forall b, Model.DateTime.ndt_checked_add_signed a d = Val (Some b) -> Proofs.C03.nvalid b) /\
  (returns (Model.DateTime.ndt_checked_sub_signed a d) /\ forall b, Model.DateTime.ndt_checked_sub_signed a d = Val (Some b) -> Proofs.C03.nvalid b).
Proof.
  intros Ha Hd. split.
  - eapply weaken_opt; [|exact (Props.C03.C03_ndt_add_exact a d Ha Hd)]. cbv beta. tauto.
  - eapply weaken_opt; [|exact (Props.C03.C03_ndt_sub_exact a d Ha Hd)]. cbv beta. tauto.
Qed.
Lemma date_days_total d n : Proofs.C03.vdate d -> in_u64 n = true ->
  (returns (Model.Date.checked_add_days d n) /\ forall x, Model.Date.checked_add_days d n = Val (Some x) -> Proofs.C03.vdate x) /\
  (returns (Model.Date.checked_sub_days d n) /\ forall x, Model.Date.checked_sub_days d n = Val (Some x) -> Proofs.C03.vdate x).
Proof.
  intros Hd Hn. split.
  - eapply weaken_opt; [|exact (Props.C03.C03_date_add_days_exact d n Hd Hn)]. cbv beta. tauto.
  - eapply weaken_opt; [|exact (Props.C03.C03_date_sub_days_exact d n Hd Hn)]. cbv beta. tauto.
Qed.
Lemma date_signed_total d x : Proofs.C03.vdate d -> Proofs.C06.valid x ->
  (returns (Model.Date.checked_add_signed d x) /\ forall y, Model.Date.checked_add_signed d x = Val (Some y) -> Proofs.C03.vdate y) /\
  (returns (Model.Date.checked_sub_signed d x) /\ forall y, Model.Date.checked_sub_signed d x = Val (Some y) -> Proofs.C03.vdate y).
Proof.
  intros Hd Hx. split.
  - eapply weaken_opt; [|exact (Props.C03.C03_date_add_signed_trunc d x Hd Hx)]. cbv beta. tauto.
  - eapply weaken_opt; [|exact (Props.C03.C03_date_sub_signed_trunc d x Hd Hx)]. cbv beta. tauto.
Qed.
Lemma ndt_days_total a n : Proofs.C03.nvalid a -> in_u64 n = true ->
  (returns (Model.DateTime.ndt_checked_add_days a n) /\ forall b, Model.DateTime.ndt_checked_add_days a n = Val (Some b) -> Proofs.C03.nvalid b) /\
  (returns (Model.DateTime.ndt_checked_sub_days a n) /\ forall b, Model.DateTime.ndt_checked_sub_days a n = Val (Some b) -> Proofs.C03.nvalid b).
Proof.
  intros Ha Hn. destruct (Props.C03.C03_ndt_days_exact a n Ha Hn) as [H1 H2]. split.
  - eapply weaken_opt; [|exact H1]. cbv beta. tauto.
  - eapply weaken_opt; [|exact H2]. cbv beta. tauto.
Qed.
Lemma dtz_signed_total u off d : Proofs.C03.nvalid u -> Proofs.C06.valid d ->
  (returns (Model.DateTime.dz_checked_add_signed (Model.DateTime.mk_dtz u off) d) /\
   forall z, Model.DateTime.dz_checked_add_signed (Model.DateTime.mk_dtz u off) d = Val (Some z) ->
             Model.DateTime.dz_off z = off /\ Proofs.C03.nvalid (Model.DateTime.dz_utc z)) /\
  (returns (Model.DateTime.dz_checked_sub_signed (Model.DateTime.mk_dtz u off) d) /\
   forall z, Model.DateTime.dz_checked_sub_signed (Model.DateTime.mk_dtz u off) d = Val (Some z) ->
             Model.DateTime.dz_off z = off /\ Proofs.C03.nvalid (Model.DateTime.dz_utc z)).
Proof.
  intros Hu Hd. split.
  - eapply weaken_opt; [|exact (Props.C03.C03_zone_add_exact u off d Hu Hd)]. cbv beta. tauto.
  - eapply weaken_opt; [|exact (Props.C03.C03_zone_sub_exact u off d Hu Hd)]. cbv beta. tauto.
Qed.

(** * zone-aware date-times (C04) *)
Lemma if_ex_opt {A} (c : bool) (f : R (option A)) (P : A -> Prop) :
  (if c then exists z, f = Val (Some z) /\ P z else f = Val None) -> returns f /\ forall z, f = Val (Some z) -> P z.
Proof.
  destruct c; [intros (z & -> & H)|intros ->]; (split; [split; discriminate|]); intros x E; [injection E as <-; exact H|discriminate].
Qed.
Lemma if_ex_mlt {A} (c : bool) (f : R (Model.DateTime.mlt A)) (P : A -> Prop) :
  (if c then exists z, f = Val (Model.DateTime.MSingle z) /\ P z else f = Val (@Model.DateTime.MNone A)) ->
  returns f /\ (forall z, f = Val (Model.DateTime.MSingle z) -> P z) /\ (forall x y, f <> Val (Model.DateTime.MAmbiguous x y)).
Proof.
  destruct c; [intros (z & -> & H)|intros ->]; (split; [split; discriminate|]); (split; [|intros; discriminate]); intros x E;
    [injection E as <-; exact H|discriminate].
Qed.
Lemma fixed_offset_ctor_total s : in_i32 s = true ->
  (forall off, Model.DateTime.east_opt s = Some off -> Proofs.C04.off_ok off) /\
  returns (Model.DateTime.west_opt s) /\ (forall off, Model.DateTime.west_opt s = Val (Some off) -> Proofs.C04.off_ok off).
Proof.
  intros Hs. split; [intros off E; apply Props.C04.C04_east_opt in E; destruct E as [-> H]; exact H|].
  pose proof (Props.C04.C04_west_opt s Hs) as E. rewrite E. split; [split; discriminate|].
  intros off [= H]. destruct ((-86400 <? s) && (s <? 86400)) eqn:C; [|discriminate]. injection H as <-.
  unfold Proofs.C04.off_ok. lia.
Qed.
Lemma from_local_datetime_total off l : Proofs.C04.ndt_ok l -> Proofs.C04.off_ok off ->
  returns (Model.DateTime.from_local_datetime off l) /\
  (forall z, Model.DateTime.from_local_datetime off l = Val (Model.DateTime.MSingle z) -> Proofs.C04.dtz_ok z) /\
  (forall x y, Model.DateTime.from_local_datetime off l <> Val (Model.DateTime.MAmbiguous x y)).
Proof.
  intros Hl Ho. pose proof (Props.C04.C04_from_local_fails_iff off l Hl Ho) as H.
  destruct (Proofs.C04.in_rng (Proofs.C04.usecs l - off)).
  - apply (if_ex_mlt true _ (fun z => Proofs.C04.dtz_ok z)). destruct H as (z & E & Hz & _). exists z. tauto.
  - apply (if_ex_mlt false _ (fun z => Proofs.C04.dtz_ok z)). exact H.
Qed.
Lemma overflowing_naive_local_total a : Proofs.C04.dtz_ok a -> returns (Model.DateTime.overflowing_naive_local a).
Proof. intros H. destruct (Props.C04.C04_overflowing_naive_local a H) as (l & E & _). exact (returns_val _ _ E). Qed.
Lemma with_time_total a t : Proofs.C04.dtz_ok a -> Proofs.C04.time_ok t ->
  returns (Model.DateTime.dz_with_time a t) /\
  (forall z, Model.DateTime.dz_with_time a t = Val (Model.DateTime.MSingle z) -> Proofs.C04.dtz_ok z) /\
  (forall x y, Model.DateTime.dz_with_time a t <> Val (Model.DateTime.MAmbiguous x y)).
Proof.
  intros Ha Ht. pose proof (Props.C04.C04_with_time a t Ha Ht) as H. cbv zeta in H.
  match type of H with (if ?c then _ else _) => destruct c end.
  - apply (if_ex_mlt true _ (fun z => Proofs.C04.dtz_ok z)). destruct H as (z & E & Hz & _). exists z. tauto.
  - apply (if_ex_mlt false _ (fun z => Proofs.C04.dtz_ok z)). exact H.
Qed.
Lemma dtz_with_time_field_total field a x : Proofs.C04.dtz_ok a -> 7 <= field <= 10 -> in_u32 x = true ->
  returns (Model.DateTime.dz_with field a x) /\ forall z, Model.DateTime.dz_with field a x = Val (Some z) -> Proofs.C04.dtz_ok z.
Proof.
  intros Ha Hf Hx. pose proof (Props.C04.C04_replace_time_field field a x Ha Hf Hx) as H.
  destruct (Proofs.C04.new_time field _ _ x) as [[s' f']|].
  - cbv zeta in H. match type of H with (if ?c then _ else _) => destruct c end.
    + apply (if_ex_opt true _ (fun z => Proofs.C04.dtz_ok z)). destruct H as (z & E & Hz & _). exists z. tauto.
    + apply (if_ex_opt false _ (fun z => Proofs.C04.dtz_ok z)). exact H.
  - rewrite H. split; [split; discriminate|]. intros z E; discriminate.
Qed.

(* TimeZone::with_ymd_and_hms for a fixed offset / Utc: EVERY i32 year and u32 month, day, hour, minute,
   second -- assembled from the date constructor (C01), the time constructor (C07) and the wall-clock
   resolution (C04) *)
Lemma with_ymd_and_hms_total off y m d h mi s : Proofs.C04.off_ok off ->
  in_i32 y = true -> in_u32 m = true -> in_u32 d = true -> in_u32 h = true -> in_u32 mi = true -> in_u32 s = true ->
  returns (Model.DateTime.with_ymd_and_hms off y m d h mi s) /\
  (forall z, Model.DateTime.with_ymd_and_hms off y m d h mi s = Val (Model.DateTime.MSingle z) -> Proofs.C04.dtz_ok z) /\
  (forall a b, Model.DateTime.with_ymd_and_hms off y m d h mi s <> Val (Model.DateTime.MAmbiguous a b)).
Proof.
  intros Ho Hy Hm Hd Hh Hmi Hs.
  assert (Hnone : Model.DateTime.with_ymd_and_hms off y m d h mi s = Val (@Model.DateTime.MNone Model.DateTime.dtz) ->
    returns (Model.DateTime.with_ymd_and_hms off y m d h mi s) /\
    (forall z, Model.DateTime.with_ymd_and_hms off y m d h mi s = Val (Model.DateTime.MSingle z) -> Proofs.C04.dtz_ok z) /\
    (forall a b, Model.DateTime.with_ymd_and_hms off y m d h mi s <> Val (Model.DateTime.MAmbiguous a b))).
  { intros ->. split; [split; discriminate|]. split; intros; discriminate. }
  destruct (from_ymd_opt_total y m d Hy Hm Hd) as [_ Hdv].
  pose proof (Props.C01.C01_from_ymd_opt y m d Hy Hm Hd) as Ed.
  destruct (from_hms_opt_total h mi s Hh Hmi Hs) as [_ Htv].
  pose proof (Props.C07.C07_ctor_accept_iff_hms h mi s Hh Hmi Hs) as Et.
  destruct (Proofs.C08Date.date_if _ _) as [dd|] eqn:Edd.
  2:{ apply Hnone. apply Props.C04.C04_with_ymd_and_hms_invalid. left. exact Ed. }
  destruct (hms_ok h mi s) eqn:Eh.
  2:{ apply Hnone. apply Props.C04.C04_with_ymd_and_hms_invalid. right. exists dd. split; assumption. }
  destruct (Hdv dd Ed) as (y' & o' & Rd).
  pose proof (Htv _ Et) as Tv.
  pose proof (Props.C04.C04_with_ymd_and_hms off y m d h mi s dd _ Ho Ed (Proofs.C04Date.nominal_of_repr _ _ _ Rd) Et Tv) as H.
  cbv zeta in H. match type of H with (if ?c then _ else _) => destruct c end.
  - apply (if_ex_mlt true _ (fun z => Proofs.C04.dtz_ok z)). destruct H as (z & E & Hz & _). exists z. tauto.
  - apply (if_ex_mlt false _ (fun z => Proofs.C04.dtz_ok z)). exact H.
Qed.

(* PARTIAL (C04_replace_date_field_partial, C04_add_days_partial, C04_sub_days_partial, C04_months_partial): wall clock
   inside the NaiveDateTime range; for the two headroom dates the NaiveDate step is covered by the correspondence
   run only *)
Lemma dtz_with_date_field_partial field a x : Proofs.C04.dtz_ok a -> Proofs.C04.in_rng (Proofs.C04.wall a) = true ->
  0 <= field <= 6 -> (if field =? 0 then in_i32 x else in_u32 x) = true ->
  returns (Model.DateTime.dz_with field a x) /\ forall z, Model.DateTime.dz_with field a x = Val (Some z) -> Proofs.C04.dtz_ok z.
Proof.
  intros Ha Hw Hf Hx. pose proof (Props.C04.C04_replace_date_field_partial field a x Ha Hw Hf Hx) as H.
  destruct (Proofs.C04Date.new_dn field _ x) as [n'|].
  - cbv zeta in H. match type of H with (if ?c then _ else _) => destruct c end.
    + apply (if_ex_opt true _ (fun z => Proofs.C04.dtz_ok z)). destruct H as (z & E & Hz & _). exists z. tauto.
    + apply (if_ex_opt false _ (fun z => Proofs.C04.dtz_ok z)). exact H.
  - rewrite H. split; [split; discriminate|]. intros z E; discriminate.
Qed.
Lemma dtz_days_partial a n : Proofs.C04.dtz_ok a -> Proofs.C04.in_rng (Proofs.C04.wall a) = true -> in_u64 n = true ->
  (returns (Model.DateTime.dz_checked_add_days a n) /\ forall z, Model.DateTime.dz_checked_add_days a n = Val (Some z) -> Proofs.C04.dtz_ok z) /\
  (returns (Model.DateTime.dz_checked_sub_days a n) /\ forall z, Model.DateTime.dz_checked_sub_days a n = Val (Some z) -> Proofs.C04.dtz_ok z).
Proof.
  intros Ha Hw Hn. split.
  - destruct (Z.eq_dec n 0) as [->|Hnz].
    + rewrite Props.C04.C04_add_days_zero. split; [split; discriminate|]. intros z [= <-]. exact Ha.
    + pose proof (Props.C04.C04_add_days_partial a n Ha Hw Hn Hnz) as H. cbv zeta in H.
      match type of H with (if ?c then _ else _) => destruct c end.
      * apply (if_ex_opt true _ (fun z => Proofs.C04.dtz_ok z)). destruct H as (z & E & Hz & _). exists z. tauto.
      * apply (if_ex_opt false _ (fun z => Proofs.C04.dtz_ok z)). exact H.
  - pose proof (Props.C04.C04_sub_days_partial a n Ha Hw Hn) as H. cbv zeta in H.
    match type of H with (if ?c then _ else _) => destruct c end.
    + apply (if_ex_opt true _ (fun z => Proofs.C04.dtz_ok z)). destruct H as (z & E & Hz & _). exists z. tauto.
    + apply (if_ex_opt false _ (fun z => Proofs.C04.dtz_ok z)). exact H.
Qed.
Lemma dtz_months_partial (add : bool) a m : Proofs.C04.dtz_ok a -> Proofs.C04.in_rng (Proofs.C04.wall a) = true -> in_u32 m = true ->
  let step := if add then Model.DateTime.dz_checked_add_months a m else Model.DateTime.dz_checked_sub_months a m in
  returns step /\ forall z, step = Val (Some z) -> Proofs.C04.dtz_ok z.
Proof.
  intros Ha Hw Hm step. pose proof (Props.C04.C04_months_partial add a m Ha Hw Hm) as H. cbv zeta in H. fold step in H.
  destruct (Proofs.C04Date.month_target _ _) as [n'|].
  - match type of H with (if ?c then _ else _) => destruct c end.
    + apply (if_ex_opt true _ (fun z => Proofs.C04.dtz_ok z)). destruct H as (z & E & Hz & _). exists z. tauto.
    + apply (if_ex_opt false _ (fun z => Proofs.C04.dtz_ok z)). exact H.
  - rewrite H. split; [split; discriminate|]. intros z E; discriminate.
Qed.

(** * month stepping, field replacement, week helpers (C08): every date, every u32 / i32 argument *)
Lemma date_months_total d n : date_valid d -> in_u32 n = true ->
  returns (Model.Date.checked_add_months d n) /\ returns (Model.Date.checked_sub_months d n).
Proof.
  intros (y & o & R) Hn. split.
  - exact (returns_val _ _ (Props.C08.C08_add_months y o d n R Hn)).
  - exact (returns_val _ _ (Props.C08.C08_sub_months y o d n R Hn)).
Qed.
Lemma date_with_total d x : date_valid d ->
  (in_i32 x = true -> returns (Model.Date.with_year d x)) /\
  (in_u32 x = true -> returns (Model.Date.with_month d x) /\ returns (Model.Date.with_month0 d x) /\
                      returns (Model.Date.with_day d x) /\ returns (Model.Date.with_day0 d x) /\
                      returns (Model.Date.with_ordinal d x) /\ returns (Model.Date.with_ordinal0 d x)).
Proof.
  intros (y & o & R). split; intros Hx.
  - exact (returns_val _ _ (Props.C08.C08_with_year y o d R x Hx)).
  - repeat match goal with |- _ /\ _ => split end.
    + exact (returns_val _ _ (Props.C08.C08_with_month y o d R x Hx)).
    + exact (returns_val _ _ (Props.C08.C08_with_month0 y o d R x Hx)).
    + exact (returns_val _ _ (Props.C08.C08_with_day y o d R x Hx)).
    + exact (returns_val _ _ (Props.C08.C08_with_day0 y o d R x Hx)).
    + exact (returns_val _ _ (Props.C08.C08_with_ordinal y o d R x Hx)).
    + exact (returns_val _ _ (Props.C08.C08_with_ordinal0 y o d R x Hx)).
Qed.
Lemma week_total d w : date_valid d -> 0 <= w <= 6 ->
  returns (Model.DateExtra.week_checked_first_day (Model.DateExtra.d_week d w)) /\
  returns (Model.DateExtra.week_checked_last_day (Model.DateExtra.d_week d w)) /\
  returns (Model.DateExtra.week_checked_days (Model.DateExtra.d_week d w)).
Proof.
  intros (y & o & R) Hw. repeat match goal with |- _ /\ _ => split end.
  - exact (returns_val _ _ (Props.C08.C08_week_first y o d w R Hw)).
  - exact (returns_val _ _ (Props.C08.C08_week_last y o d w R Hw)).
  - pose proof (Props.C08.C08_week_days y o d w R Hw) as E. cbv zeta in E. exact (returns_val _ _ E).
Qed.
Lemma from_weekday_of_month_opt_total y m w n : in_i32 y = true -> in_u32 m = true -> 0 <= w <= 6 -> in_u8 n = true ->
  returns (Model.DateExtra.from_weekday_of_month_opt y m w n).
Proof. intros Hy Hm Hw Hn. exact (returns_val _ _ (Props.C08.C08_nth_weekday y m w n Hy Hm Hw Hn)). Qed.
Lemma years_since_total d1 d0 : date_valid d1 -> date_valid d0 -> returns (Model.Date.years_since d1 d0).
Proof. intros (y1 & o1 & R1) (y0 & o0 & R0). exact (returns_val _ _ (Props.C08.C08_years_since y1 o1 d1 y0 o0 d0 R1 R0)). Qed.
Lemma month_num_days_total m y : 1 <= m <= 12 -> in_i32 y = true -> returns (Model.DateExtra.month_num_days m y).
Proof. intros Hm Hy. exact (returns_val _ _ (Props.C08.C08_month_num_days m y Hm Hy)). Qed.
Lemma ndt_months_total a n : date_valid (Model.DateTime.nd_date a) -> in_u32 n = true ->
  returns (Model.DateTime.ndt_checked_add_months a n) /\ returns (Model.DateTime.ndt_checked_sub_months a n).
Proof.
  intros (y & o & R) Hn. destruct (Props.C08.C08_ndt_months a y o n R Hn) as [E1 E2].
  split; [exact (returns_val _ _ E1)|exact (returns_val _ _ E2)].
Qed.

(** * the ISO-week facts Props/C14.v leaves as premises, discharged from C01's theorems: with them C14's
      "never panics modulo iso" theorems become unconditional *)
Lemma fact_iso_week_total : Proofs.C14Date.Fact_iso_week_total.
Proof.
  intros y o d R. pose proof (Props.C01.C01_iso_week y o d R) as H. cbv zeta in H. destruct H as (E & Ey & _).
  eexists. split; [exact E|]. rewrite Ey. apply Proofs.C11Resolve.iso_year_i32. exact (Proofs.Date.repr_dn_in_range y o d R).
Qed.
Lemma fact_isoywd_total : Proofs.C14Date.Fact_isoywd_total.
Proof.
  intros y w wd Hy Hw Hwd. assert (Hw' : in_u32 w = true) by (unfold in_u32, in_range, u32_max in *; lia).
  destruct (from_isoywd_opt_total y w wd Hy Hw' Hwd) as [_ Hv].
  pose proof (Props.C01.C01_from_isoywd_opt y w wd Hy Hw' Hwd) as E. eexists. split; [exact E|].
  intros d Hd. rewrite Hd in E. exact (Hv d E).
Qed.
Lemma fact_isoywd_roundtrip : Proofs.C14Date.Fact_isoywd_roundtrip.
Proof.
  intros y o d iw R Eiw. pose proof (Props.C01.C01_iso_week y o d R) as H. cbv zeta in H. destruct H as (E & Ey & Ew).
  assert (Hiw : iw = Proofs.DateIso.mkweek (fst (iso_of_dn (dn_of_yo y o))) (snd (iso_of_dn (dn_of_yo y o)))) by congruence.
  rewrite Hiw, Ey, Ew. clear Hiw Eiw E Ey Ew.
  set (n := dn_of_yo y o).
  pose proof (Proofs.Date.repr_dn_in_range y o d R) as Hr. fold n in Hr.
  destruct (Props.C01.C01_iso_form n) as [Hv Hn].
  pose proof (Proofs.DateIso.iso_of_dn_bounds n) as Hb.
  assert (Hwd : 0 <= weekday_of_dn n <= 6) by (unfold weekday_of_dn; pose proof (Z.mod_pos_bound (n - 1) 7); lia).
  rewrite (Props.C01.C01_from_isoywd_opt _ _ _ (Proofs.C11Resolve.iso_year_i32 n Hr)); [| |exact Hwd].
  2:{ unfold in_u32, in_range, u32_max. lia. }
  rewrite Hv, Hn, Hr. cbn [andb Proofs.C08Date.date_if]. unfold n. rewrite (Proofs.Date.date_of_dn_of_repr y o d R). reflexivity.
Qed.

(** * field resolution (C14), unconditional *)
Lemma parsed_setters_total k p v r : Model.Parsed.apply_setter k p v = Some r -> r <> Panic /\ r <> OutOfFuel.
Proof. exact (Props.C14.C14_setters_never_panic k p v r). Qed.
Lemma to_naive_date_total p : Proofs.C14.typed p ->
  returns (Model.Parsed.to_naive_date p) /\ forall d, Model.Parsed.to_naive_date p = Val (Model.Parsed.Ok d) -> date_valid d.
Proof.
  intros Hp. destruct (Props.C14.C14_to_naive_date_never_panics_modulo_iso fact_iso_week_total fact_isoywd_total fact_isoywd_roundtrip p Hp)
    as (r & E & Hr). rewrite E. split; [split; discriminate|]. intros d [= ->]. exact (Hr d eq_refl).
Qed.
Lemma to_naive_datetime_with_offset_total p off : Proofs.C14.typed p -> in_i32 off = true ->
  returns (Model.Parsed.to_naive_datetime_with_offset p off).
Proof.
  intros Hp Ho. apply returns_ex.
  exact (Props.C14.C14_to_naive_datetime_never_panics_modulo_iso fact_iso_week_total fact_isoywd_total fact_isoywd_roundtrip p off Hp Ho).
Qed.
Lemma to_naive_time_total p :
  Proofs.C14.u32v (Model.Parsed.p_hour_div_12 p) -> Proofs.C14.u32v (Model.Parsed.p_hour_mod_12 p) -> Proofs.C14.u32v (Model.Parsed.p_minute p) ->
  Proofs.C14.u32v (Model.Parsed.p_second p) -> Proofs.C14.u32v (Model.Parsed.p_nanosecond p) ->
  returns (Model.Parsed.to_naive_time p).
Proof.
  intros H1 H2 H3 H4 H5. destruct (Props.C14.C14_to_naive_time_spec p H1 H2 H3 H4 H5) as (r & E & _). exact (returns_val _ _ E).
Qed.

(** * the c15 compositions *)
Ltac Zify.zify_post_hook ::= Z.to_euclidean_division_equations.
(* NaiveDateTime::checked_add_offset / checked_sub_offset: every valid date-time, every offset *)
Lemma ndt_offset_total a off : Proofs.C04.ndt_ok a -> Proofs.C04.off_ok off ->
  (returns (Model.DateTime.ndt_checked_add_offset a off) /\
   forall b, Model.DateTime.ndt_checked_add_offset a off = Val (Some b) -> Proofs.C04.ndt_ok b) /\
  (returns (Model.DateTime.ndt_checked_sub_offset a off) /\
   forall b, Model.DateTime.ndt_checked_sub_offset a off = Val (Some b) -> Proofs.C04.ndt_ok b).
Proof.
  intros [Hd Ht] Ho.
  assert (Hmod : forall x, 0 <= x mod 86400 < 86400) by (intros x; apply Z.mod_pos_bound; lia).
  assert (core : forall s', 0 <= Model.Time.tsecs (Model.DateTime.nd_time a) < 86400 -> -86400 < s' - Model.Time.tsecs (Model.DateTime.nd_time a) < 86400 ->
    let r := (let? date := Model.DateTime.shift_date_checked (Model.DateTime.nd_date a) (s' / 86400) in
              Val (Some (Model.DateTime.mk_ndt date (Model.Time.mk_time (s' mod 86400) (Model.Time.tfrac (Model.DateTime.nd_time a)))))) in
    returns r /\ forall b, r = Val (Some b) -> Proofs.C04.ndt_ok b).
  { intros s' Hs Hs' r. assert (Hk : -1 <= s' / 86400 <= 1) by (clear - Hs Hs'; lia).
    pose proof (Proofs.C04.shift_checked_spec Proofs.C04Date.HD _ _ Hd Hk) as H. unfold r.
    destruct ((DN_MIN <=? _) && (_ <=? DN_MAX)).
    - destruct H as (d' & -> & Hn & _). cbn. split; [split; discriminate|]. intros b [= <-]. split; [exact Hn|].
      destruct Ht as [_ Hf]. split; cbn [Model.DateTime.nd_time Model.Time.tsecs Model.Time.tfrac]; [apply Hmod|exact Hf].
    - rewrite H. cbn. split; [split; discriminate|]. intros b E; discriminate. }
  destruct Ht as [Hs Hf]. unfold Proofs.C04.off_ok in Ho. split.
  - unfold Model.DateTime.ndt_checked_add_offset. rewrite (Props.C04.C04_time_add_offset _ off (conj Hs Hf) Ho). cbn [bind].
    apply core; [exact Hs|lia].
  - unfold Model.DateTime.ndt_checked_sub_offset. rewrite (Props.C04.C04_time_sub_offset _ off (conj Hs Hf) Ho). cbn [bind].
    apply core; [exact Hs|lia].
Qed.
(* impl Timelike for NaiveDateTime: with_hour .. with_nanosecond, every u32 argument *)
Lemma ndt_with_time_total field a x : Proofs.Time.tvalid (Model.DateTime.nd_time a) -> 7 <= field <= 10 -> in_u32 x = true ->
  returns (Model.C15.ndt_with_time_field field a x).
Proof.
  intros Ht Hf Hx. unfold Model.C15.ndt_with_time_field, Model.DateTime.ndt_with, Model.DateTime.ndt_map_time.
  replace ((7 <=? field) && (field <=? 10)) with true by lia.
  assert (field = 7 \/ field = 8 \/ field = 9 \/ field = 10) as [->|[->|[->| ->]]] by lia; cbn [Z.eqb Pos.eqb].
  - rewrite (Props.C07.C07_replace_exact_hour _ x Ht Hx). destruct (x <? 24); split; discriminate.
  - rewrite (Props.C07.C07_replace_exact_minute _ x Ht Hx). destruct (x <? 60); split; discriminate.
  - rewrite (Props.C07.C07_replace_exact_second _ x Ht Hx). destruct (x <? 60); split; discriminate.
  - rewrite (Props.C07.C07_replace_exact_nanosecond _ x Hx). destruct (x <? 2000000000); split; discriminate.
Qed.

(** * Weekday / Month conversions and FromStr (C19): every integer, every string *)
Lemma weekday_month_conversions n :
  (forall r, In r (Proofs.C19.wd_from_all n) -> match r with Some w => Proofs.C19.wd w | None => True end) /\
  (forall r, In r (Proofs.C19.mo_from_all n) -> match r with Some m => Proofs.C19.mo m | None => True end).
Proof.
  split; intros r Hr.
  - pose proof (Props.C19.C19_wd_from_int_exact n r Hr) as H. destruct r; tauto.
  - pose proof (Props.C19.C19_mo_from_int_exact n r Hr) as H. destruct r; tauto.
Qed.
Lemma weekday_month_from_str_total s : Forall Proofs.C19.byte s -> Model.ScanNames.utf8_valid s = true ->
  returns (Model.C19.wd_from_str s) /\ returns (Model.C19.mo_from_str s).
Proof.
  intros Hb Hu. split; apply returns_ex.
  - destruct (Props.C19.C19_wd_parse_exact s Hb Hu) as (r & E & _). eauto.
  - destruct (Props.C19.C19_mo_parse_exact s Hb Hu) as (r & E & _). eauto.
Qed.

(** * the item-driven reader (C13): every well-formed text, every item list without the RFC 2822 item *)
Lemma parse_items_total items p s : forallb Proofs.C13Safe.item_ok items = true -> Base.Utf8.utf8_valid s = true ->
  returns (Model.Parse.parse p s items) /\ returns (Model.Parse.parse_and_remainder p s items).
Proof. intros Hi Hs. destruct (Props.C13.C13_parse_never_panics_partial items p s Hi Hs) as (H1 & H2 & H3 & H4). repeat split; assumption. Qed.

(** * the format-string iterator: ends AND never traps (C12's termination + the slice-safety theorem of
      Proofs/C15Strftime.v), for every well-formed format string *)
From V Require Proofs.C15Strftime Props.C12 Model.Strftime Gen.Strftime.
Lemma strftime_items_total s lenient : Model.Strftime.utf8_valid s = true -> Z.of_nat (List.length s) <= u64_max ->
  Gen.Strftime.SF_ERROR_CONSUMES = true \/ lenient = true ->
  exists l, Model.C15.sf_items s lenient = Val (Some l) /\ Z.of_nat (List.length l) <= 13 * Z.of_nat (List.length s).
Proof.
  intros Hv Hl Hc. destruct (strftime_items_bounded s lenient Hc) as (H1 & H2 & H3).
  pose proof (Proofs.C15Strftime.strftime_never_panics s lenient (S (Model.Strftime.sf_bound s)) Hv Hl) as Hp.
  unfold Model.C15.sf_items in *. destruct (Model.Strftime.sf_take _ _ _) as [[l|]| |]; try congruence.
  exists l. split; [reflexivity|]. apply H3. reflexivity.
Qed.
(* StrftimeItems::parse / parse_to_owned (ops c15.sfparse, c15.sfowned) and the item count (c15.itemcount): a value *)
Lemma strftime_parse_total s lenient : Model.Strftime.utf8_valid s = true -> Z.of_nat (List.length s) <= u64_max ->
  Gen.Strftime.SF_ERROR_CONSUMES = true \/ lenient = true ->
  Model.C15.sf_parse s lenient <> VPanic /\ Model.C15.sf_parse s lenient <> VFuel /\
  exists n, Model.C15.item_count s lenient = VInt n /\ 0 <= n <= 13 * Z.of_nat (List.length s).
Proof.
  intros Hv Hl Hc. destruct (strftime_items_total s lenient Hv Hl Hc) as (l & E & Hb).
  unfold Model.C15.sf_parse, Model.C15.item_count. rewrite E. split; [|split].
  - destruct (existsb _ l); [discriminate|]. unfold Model.Items.enc_items. discriminate.
  - destruct (existsb _ l); [discriminate|]. unfold Model.Items.enc_items. discriminate.
  - eexists. split; [reflexivity|]. lia.
Qed.

(** * the RFC 3339 renderers (C10).  PARTIAL: whole-minute offsets, wall-clock year 0..9999, a leap-second
      field only on second 59 (C10's writer domain); outside it -- in particular at both ends of the date
      range seen through a non-zero offset, where the unrepaired to_rfc3339_opts panicked -- the model
      (repaired: overflowing_naive_local) is compared with the code by the correspondence run and the judge *)
From V Require Proofs.C10Main Spec.Rfc3339 Model.Rfc3339.
Lemma to_rfc3339_opts_total_partial y o secs frac off sf uz a :
  Model.DateTime.dec_dtz (Proofs.C10Main.value y o secs frac off) = Some a -> Proofs.C10Main.writer_domain y o secs frac off sf ->
  returns (Model.Rfc3339.to_rfc3339_opts a sf uz).
Proof.
  intros Hd Hw. pose proof (Props.C10.C10_writer_in_grammar y o secs frac off sf uz a Hd Hw) as H. cbv zeta in H.
  destruct H as [E _]. exact (returns_val _ _ E).
Qed.

(** * rounding (C17): DurationRound for NaiveDateTime.  C17 proves its theorems modulo the exactness of
      checked_add_signed / checked_sub_signed and of timestamp_nanos_opt ([ndt_links]); the premise is
      discharged here from C02 and C03 for non-leap date-times, which makes "failure is reported by value"
      unconditional there: every span (TimeDelta::MIN, MAX, zero included) *)
From V Require Proofs.C17 Props.C17 Model.Round Proofs.C02Date.
Lemma nvalid_valid_ndt a : Proofs.C03.nvalid a -> Proofs.C02.valid_ndt a /\ Proofs.C02.nonleap a.
Proof.
  intros [Hd Ht]. pose proof (proj1 (Proofs.C03.vdate_repr (Model.DateTime.nd_date a)) Hd) as Hr.
  destruct (Proofs.C02Date.repr_valid _ _ _ Hr) as [Hv _]. clear Hd Hr.
  destruct Ht as [Hs Hf].
  change (0 <= Model.Time.tfrac (Model.DateTime.nd_time a) < 1000000000) in Hf.
  split; [split; [exact Hv|split; [exact Hs|]]|].
  - change (0 <= Model.Time.tfrac (Model.DateTime.nd_time a) < 2 * 1000000000). clear - Hf. lia.
  - change (Model.Time.tfrac (Model.DateTime.nd_time a) < 1000000000). clear - Hf. lia.
Qed.
Lemma ndt_links_nonleap : Proofs.C17.ndt_links Proofs.C03.inst Proofs.C03.nvalid.
Proof.
  unfold Proofs.C17.ndt_links. repeat match goal with |- _ /\ _ => split end.
  - intros a Ha. destruct (nvalid_valid_ndt a Ha) as [Hv Hn].
    rewrite (Props.C02.C02_timestamp_nanos_opt_spec a Hv Hn). reflexivity.
  - intros a d Ha Hd Hw. destruct (Props.C03.C03_ndt_add_exact a d Ha Hd) as (r & E & Hr). destruct r as [b|].
    + exists b. tauto.
    + exfalso. apply Hr. clear - Hw. unfold Proofs.C17.W_LO, Proofs.C17.W_HI in Hw. unfold NS_MIN, NS_MAX. lia.
  - intros a d Ha Hd Hw. destruct (Props.C03.C03_ndt_sub_exact a d Ha Hd) as (r & E & Hr). destruct r as [b|].
    + exists b. tauto.
    + exfalso. apply Hr. clear - Hw. unfold Proofs.C17.W_LO, Proofs.C17.W_HI in Hw. unfold NS_MIN, NS_MAX. lia.
Qed.
Lemma ndt_round_total_partial a d : Proofs.C03.nvalid a -> Proofs.C06.valid d ->
  forall m, returns (Proofs.C17.ndt_op m a d) /\ forall r, Proofs.C17.ndt_op m a d = Val (inl r) -> Proofs.C03.nvalid r.
Proof.
  intros Ha Hd m.
  destruct (Props.C17.C17_naive_error_iff_modulo_add_exact _ _ ndt_links_nonleap m a d Ha Hd) as (out & E & Herr).
  split; [exact (returns_val _ _ E)|]. intros r Er. rewrite E in Er. injection Er as ->.
  assert (H1 : 0 < Proofs.C06.ns d <= i64_max).
  { destruct (Z_lt_dec 0 (Proofs.C06.ns d)) as [Hp|Hnp]; [destruct (Z_le_dec (Proofs.C06.ns d) i64_max) as [Hq|Hnq]; [lia|]|].
    - assert (X : @inl Model.DateTime.ndt Model.Round.rerr r = inr Model.Round.DurationExceedsLimit) by (apply Herr; left; split; [reflexivity|lia]). discriminate.
    - assert (X : @inl Model.DateTime.ndt Model.Round.rerr r = inr Model.Round.DurationExceedsLimit) by (apply Herr; left; split; [reflexivity|lia]). discriminate. }
  assert (H2 : in_i64 (Proofs.C03.inst a) = true).
  { destruct (in_i64 (Proofs.C03.inst a)) eqn:Ei; [reflexivity|].
    assert (X : @inl Model.DateTime.ndt Model.Round.rerr r = inr Model.Round.TimestampExceedsLimit) by (apply Herr; right; split; [reflexivity|split; [exact H1|reflexivity]]). discriminate. }
  destruct (Props.C17.C17_naive_value_modulo_add_exact _ _ ndt_links_nonleap m a d Ha Hd H1 H2) as (r' & E' & Hg & _).
  rewrite E in E'. injection E' as ->. exact Hg.
Qed.
