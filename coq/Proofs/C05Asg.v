(** C05, op lz.asg: DateTime<Local> += / -= TimeDelta and core::time::Duration.
    Function level: the naive UTC reading moves exactly by the duration and the result is
    Local.from_utc_datetime at the NEW reading - the old offset is not kept; Panic exactly when the checked
    addition of the naive value is None (or the Duration does not fit a TimeDelta).
    Dispatcher level: under the contract [lookup_ok] of Proofs/C05Ops.v the judge accepts the model's output
    on every batch and every delta. *)
From Coq Require Import ZArith List Bool Lia ZifyBool String.
From V Require Import Base.Int Base.IO Spec.Gregorian Spec.Zone.
From V Require Import Model.TzParser Model.TzRule Model.TzLookup Model.C05.
From V Require Model.Date Model.Time Model.DateTime Model.C16 Model.TimeDelta.
From V Require Import Proofs.TzCommon Proofs.C05 Proofs.C05Composite Proofs.C05Glue Proofs.C05Judge Proofs.C05Holds
  Proofs.HoldsLib Proofs.C05Ops Proofs.C05Conv.
From V Require Proofs.C03 Proofs.C06 Proofs.C04Date.
Import ListNotations.
Open Scope Z_scope.
Ltac Zify.zify_post_hook ::= Z.to_euclidean_division_equations.
Module P3 := V.Proofs.C03.
Module P6 := V.Proofs.C06.

(** * Function level *)
(* the result is Local.from_utc_datetime of the moved naive value, whatever offset the operand carried *)
Theorem add_assign_at zone a rhs n' v :
  P3.nvalid (DateTime.dz_utc a) -> P6.valid rhs -> P3.nvalid n' ->
  P3.inst n' = P3.inst (DateTime.dz_utc a) + P6.ns rhs ->
  from_utc_datetime zone n' = v -> local_add_assign zone a rhs = v.
Proof.
  intros Ha Hd Hn' Hi Hv. destruct (P3.ndt_add_exact_u _ _ Ha Hd) as [r [E R]].
  unfold local_add_assign, unwrap_r. rewrite E. destruct r as [b|]; cbn [P3.ndt_res] in R.
  - destruct R as [Vb Eb]. rewrite (P3.inst_inj b n' Vb Hn' (eq_trans Eb (eq_sym Hi))). cbn [bind unwrap]. exact Hv.
  - exfalso. apply R. rewrite <- Hi. apply P3.nvalid_inst_range. exact Hn'.
Qed.
Theorem sub_assign_at zone a rhs n' v :
  P3.nvalid (DateTime.dz_utc a) -> P6.valid rhs -> P3.nvalid n' ->
  P3.inst n' = P3.inst (DateTime.dz_utc a) - P6.ns rhs ->
  from_utc_datetime zone n' = v -> local_sub_assign zone a rhs = v.
Proof.
  intros Ha Hd Hn' Hi Hv. destruct (P3.ndt_sub_exact_u _ _ Ha Hd) as [r [E R]].
  unfold local_sub_assign, unwrap_r. rewrite E. destruct r as [b|]; cbn [P3.ndt_res] in R.
  - destruct R as [Vb Eb]. rewrite (P3.inst_inj b n' Vb Hn' (eq_trans Eb (eq_sym Hi))). cbn [bind unwrap]. exact Hv.
  - exfalso. apply R. rewrite <- Hi. apply P3.nvalid_inst_range. exact Hn'.
Qed.
(* Panic exactly when the checked form of the naive addition is None; a value otherwise goes to the lookup *)
Theorem assign_panics zone a rhs :
  (DateTime.ndt_checked_add_signed (DateTime.dz_utc a) rhs = Val None -> local_add_assign zone a rhs = Panic) /\
  (DateTime.ndt_checked_sub_signed (DateTime.dz_utc a) rhs = Val None -> local_sub_assign zone a rhs = Panic) /\
  (forall b, DateTime.ndt_checked_add_signed (DateTime.dz_utc a) rhs = Val (Some b) ->
     local_add_assign zone a rhs = from_utc_datetime zone b) /\
  (forall b, DateTime.ndt_checked_sub_signed (DateTime.dz_utc a) rhs = Val (Some b) ->
     local_sub_assign zone a rhs = from_utc_datetime zone b).
Proof.
  unfold local_add_assign, local_sub_assign, unwrap_r.
  split; [intros ->; reflexivity|]. split; [intros ->; reflexivity|].
  split; intros b ->; reflexivity.
Qed.
(* the core::time::Duration forms: conversion first (Panic when it does not fit), then the TimeDelta form *)
Theorem assign_std zone a ds dn :
  match TimeDelta.from_std ds dn with
  | Some rhs => local_add_assign_std zone a ds dn = local_add_assign zone a rhs /\
                local_sub_assign_std zone a ds dn = local_sub_assign zone a rhs
  | None => local_add_assign_std zone a ds dn = Panic /\ local_sub_assign_std zone a ds dn = Panic
  end.
Proof. unfold local_add_assign_std, local_sub_assign_std. destruct (TimeDelta.from_std ds dn); split; reflexivity. Qed.

(** * Arguments *)
Definition GN := 1000000000.
Lemma arg_nvalid x n : arg_secs (VInt x) = Some n -> P3.nvalid n /\ P3.inst n = x * GN.
Proof.
  intros Ha. destruct (arg_secs_full x n Ha) as ((Hd & Hs & Hf) & Hsec & Hfr & _ & _).
  destruct (Proofs.C04Date.repr_of_nominal _ Hd) as (y & o & Hr). destruct (P3.repr_vdate _ _ _ Hr) as [Hvd _].
  unfold P2.dsecs, P2.dfrac in *. split.
  - split; [exact Hvd|]. unfold P3.tvalid. rewrite Hfr. unfold P6.G. lia.
  - unfold P3.inst, unix_nanos. unfold P2.secs_of, P2.date_dn, P2.dsecs in Hsec. unfold P3.dn. rewrite Hsec, Hfr.
    unfold GN. lia.
Qed.
(* an instant of the judge's domain is an argument the dispatcher decodes *)
Lemma ts_ok_arg t : J.ts_ok t = true -> exists n, arg_secs (VInt t) = Some n.
Proof.
  intros Hts. unfold arg_secs.
  assert (Hi : in_i64 t = true).
  { unfold J.ts_ok, J.TS_MIN, J.TS_MAX in Hts. unfold in_i64, in_range, i64_min, i64_max. lia. }
  rewrite Hi. destruct (P2D.u_from_timestamp_spec t 0 Hi eq_refl) as (r & Hr & Hs). rewrite Hr.
  destruct r as [a|]; [exists a; reflexivity|]. exfalso. apply Hs.
  unfold J.ts_ok, J.TS_MIN, J.TS_MAX in Hts. unfold P2.SEC_MIN, P2.SEC_MAX, P2.G. lia.
Qed.
Lemma td_secs_valid d : - ASG_MAX <= d <= ASG_MAX -> P6.valid (TimeDelta.mk_td d 0) /\ P6.ns (TimeDelta.mk_td d 0) = d * GN.
Proof.
  unfold ASG_MAX, P6.valid, P6.ns, P6.in_rng, P6.RMIN, P6.RMAX, P6.G, GN. cbn [TimeDelta.secs TimeDelta.nanos]. lia.
Qed.
Lemma std_secs_valid d : - ASG_MAX <= d <= ASG_MAX ->
  exists rhs, TimeDelta.from_std (Z.abs d) 0 = Some rhs /\ P6.valid rhs /\ P6.ns rhs = Z.abs d * GN.
Proof.
  intros Hd. assert (Hu : in_u64 (Z.abs d) = true) by (unfold ASG_MAX in Hd; unfold in_u64, in_range, u64_max; lia).
  pose proof (P6.from_std_spec (Z.abs d) 0 Hu ltac:(unfold P6.G; lia)) as S.
  destruct (TimeDelta.from_std (Z.abs d) 0) as [rhs|].
  - destruct S as [S1 S2]. exists rhs. split; [reflexivity|]. split; [exact S2|]. rewrite S1. unfold P6.G, GN. lia.
  - exfalso. apply S. unfold ASG_MAX in Hd. unfold P6.in_rng, P6.RMIN, P6.RMAX, P6.G. lia.
Qed.

(** * One result of the element against the judge's expectation *)
Lemma asg_component zone sz (L : lookup_ok zone sz) t' (r : R DateTime.dtz) :
  (forall n' o', arg_secs (VInt t') = Some n' -> from_utc_datetime zone n' = Val (DateTime.mk_dtz n' o') ->
     r = Val (DateTime.mk_dtz n' o')) ->
  J.asg_chk (J.asg_exp sz t') (asg_out r) = true.
Proof.
  intros H. unfold J.asg_exp.
  destruct (J.in_dom sz t' && J.regular_at sz t') eqn:E; cbn [negb]; [|reflexivity].
  apply andb_prop in E. destruct E as [Hd Hreg].
  destruct (zone_off sz t') as [o'|] eqn:Ho; [|reflexivity].
  destruct (J.fo_ok o') eqn:Hf; [|reflexivity]. cbn [J.asg_chk].
  destruct (ts_ok_arg t' (in_dom_ts _ _ Hd)) as (n' & Ha'). destruct (arg_secs_spec t' n' Ha') as [Hn' Hw'].
  destruct (lk_at zone sz L t' o' Hreg Hd Ho) as (lt & Hlt & Ho'). rewrite <- Hw' in Hlt.
  apply fo_ok_off in Hf. rewrite <- Ho' in Hf.
  destruct (proj1 (from_utc_values zone n' lt Hn' Hlt) Hf) as [Hv _]. rewrite Ho' in Hv.
  rewrite (H n' o' Ha' Hv). unfold asg_out. cbn [bind]. rewrite (pair_of_val n' o' Hn'), Hw'. cbn [val_of_R].
  apply hl_val_eqb_refl.
Qed.

Lemma el_asg zone sz d x n : lookup_ok zone sz -> - ASG_MAX <= d <= ASG_MAX -> arg_secs (VInt x) = Some n ->
  ev_fine (J.j_asg sz d x (op_asg d zone n)).
Proof.
  intros L Hdr Ha. destruct (arg_secs_spec x n Ha) as [Hn Hw]. destruct (arg_nvalid x n Ha) as [Hnv Hin].
  unfold J.j_asg. destruct (J.in_dom sz x && J.regular_at sz x) eqn:E; cbn [negb]; [|exact I].
  apply andb_prop in E. destruct E as [Hd Hreg].
  destruct (zone_off sz x) as [o|] eqn:Ho; [|exact I].
  destruct (J.fo_ok o) eqn:Hf; cbn [negb]; [|exact I].
  destruct (lk_at zone sz L x o Hreg Hd Ho) as (lt & Hlt & Ho'). rewrite <- Hw in Hlt.
  apply fo_ok_off in Hf. rewrite <- Ho' in Hf.
  destruct (proj1 (from_utc_values zone n lt Hn Hlt) Hf) as [Hv _]. rewrite Ho' in Hv.
  unfold op_asg. rewrite Hv.
  destruct (td_secs_valid d Hdr) as [Vtd Ntd]. destruct (std_secs_valid d Hdr) as (rhs & Estd & Vstd & Nstd).
  pose proof (assign_std zone (DateTime.mk_dtz n o) (Z.abs d) 0) as Hstd. rewrite Estd in Hstd. destruct Hstd as [Hs1 Hs2].
  assert (C1 : J.asg_chk (J.asg_exp sz (x + d)) (asg_out (local_add_assign zone (DateTime.mk_dtz n o) (TimeDelta.mk_td d 0))) = true).
  { apply (asg_component zone sz L). intros n' o' Ha' Hv'. destruct (arg_nvalid _ _ Ha') as [Hnv' Hin'].
    apply (add_assign_at zone _ _ n'); try assumption. cbn [DateTime.dz_utc]. rewrite Hin', Hin, Ntd. unfold GN. lia. }
  assert (C2 : J.asg_chk (J.asg_exp sz (x - d)) (asg_out (local_sub_assign zone (DateTime.mk_dtz n o) (TimeDelta.mk_td d 0))) = true).
  { apply (asg_component zone sz L). intros n' o' Ha' Hv'. destruct (arg_nvalid _ _ Ha') as [Hnv' Hin'].
    apply (sub_assign_at zone _ _ n'); try assumption. cbn [DateTime.dz_utc]. rewrite Hin', Hin, Ntd. unfold GN. lia. }
  assert (C3 : J.asg_chk (J.asg_exp sz (x + Z.abs d)) (asg_out (local_add_assign_std zone (DateTime.mk_dtz n o) (Z.abs d) 0)) = true).
  { apply (asg_component zone sz L). intros n' o' Ha' Hv'. destruct (arg_nvalid _ _ Ha') as [Hnv' Hin'].
    rewrite Hs1. apply (add_assign_at zone _ _ n'); try assumption. cbn [DateTime.dz_utc]. rewrite Hin', Hin, Nstd. unfold GN. lia. }
  assert (C4 : J.asg_chk (J.asg_exp sz (x - Z.abs d)) (asg_out (local_sub_assign_std zone (DateTime.mk_dtz n o) (Z.abs d) 0)) = true).
  { apply (asg_component zone sz L). intros n' o' Ha' Hv'. destruct (arg_nvalid _ _ Ha') as [Hnv' Hin'].
    rewrite Hs2. apply (sub_assign_at zone _ _ n'); try assumption. cbn [DateTime.dz_utc]. rewrite Hin', Hin, Nstd. unfold GN. lia. }
  cbv zeta. rewrite C1, C2, C3, C4. cbn [andb].
  destruct (J.asg_exp sz (x + d)), (J.asg_exp sz (x - d)), (J.asg_exp sz (x + Z.abs d)), (J.asg_exp sz (x - Z.abs d)); exact I.
Qed.

(** * The dispatcher *)
Lemma run_asg b zm d xs : - ASG_MAX <= d <= ASG_MAX ->
  run B"lz.asg" [VStr b; zm; VInt d; xs] = batch (VStr b) xs (op_asg d).
Proof.
  intros Hd. unfold run. opis. replace ((- ASG_MAX <=? d) && (d <=? ASG_MAX)) with true by lia. reflexivity.
Qed.
Lemma judge_asg src zm d xs sz out : J.dec_zone src zm = Some sz -> - ASG_MAX <= d <= ASG_MAX ->
  J.judge B"lz.asg" [src; zm; VInt d; xs] out = J.batch (J.j_asg sz d) xs out.
Proof.
  intros H Hd. unfold J.judge. rewrite H. opis.
  change J.ASG_MAX with ASG_MAX. replace ((- ASG_MAX <=? d) && (d <=? ASG_MAX)) with true by lia. reflexivity.
Qed.

Theorem holds_asg b zm d xs zone sz :
  lookup_ok zone sz -> parse b = Val (Ok zone) -> J.dec_zone (VStr b) zm = Some sz ->
  J.judge B"lz.asg" [VStr b; zm; VInt d; xs] (run B"lz.asg" [VStr b; zm; VInt d; xs]) <> JSkip ->
  J.judge B"lz.asg" [VStr b; zm; VInt d; xs] (run B"lz.asg" [VStr b; zm; VInt d; xs]) = JOk.
Proof.
  intros L Hz Hd.
  assert (Hb : zone_of_src (VStr b) = Some (Val (Ok zone))) by (cbn [zone_of_src]; rewrite Hz; reflexivity).
  destruct ((- ASG_MAX <=? d) && (d <=? ASG_MAX)) eqn:Er.
  - assert (Hr : - ASG_MAX <= d <= ASG_MAX) by lia.
    rewrite (run_asg b zm d xs Hr), (judge_asg _ _ _ _ sz _ Hd Hr).
    apply (batch_holds _ _ zone); [exact Hb|]. intros x n Hx Ha. apply (el_asg zone sz d x n L Hr Ha).
  - intros K. exfalso. apply K. unfold J.judge. rewrite Hd. opis. change J.ASG_MAX with ASG_MAX. rewrite Er. reflexivity.
Qed.
