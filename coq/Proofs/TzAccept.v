(** Acceptance completeness of the TZif reader: [parse] accepts exactly the files of the grammar
    Proofs/TzAcceptSpec.v, and the zone it returns is the one the grammar cuts out of the bytes.
    Part 1: the decoder of one data block (everything [parse] does after it has selected the block). *)
From Coq Require Import ZArith List Bool Lia ZifyBool.
From V Require Import Base.Int Base.IO Base.IntLemmas Base.Lift Gen.TzInfo.
From V Require Import Model.TzParser Model.TzRule Model.TzLookup.
From V Require Import Proofs.TzCommon Proofs.TzEval Proofs.TzGrammar Proofs.TzRoundtrip Proofs.TzWriterRoundtrip
                      Proofs.TzWriterFull Proofs.C16 Proofs.TzAcceptSpec.
Import ListNotations.
Open Scope Z_scope.
Ltac Zify.zify_post_hook ::= Z.to_euclidean_division_equations.

(** ** [parse] = select the block, then [finish] *)
Definition footer_step (v : version) (footer : option bytes) : R (res (option trule)) :=
  match footer with
  | Some footer =>
      if negb (utf8_valid footer) then fail EUtf8 else
      if negb (match footer with 10 :: _ => true | _ => false end
               && match last_byte footer with Some 10 => true | _ => false end)
      then fail EInvalidTzFile else
      let tz_string := trim_ascii_ws footer in
      if (match tz_string with 58 :: _ => true | _ => false end) || existsb (fun x => x =? 0) tz_string
      then fail EInvalidTzFile else
      match tz_string with
      | [] => ok None
      | _ => let+ r := from_tz_string tz_string (match v with V3 => true | _ => false end) in
             ok (Some r)
      end
  | None => ok None
  end.
Definition decode_tr (ts : Z) (v : version) (p : bytes * Z) : R (res transition) :=
  let '(arr_time, ty) := p in
  let* a := slice arr_time 0 ts in
  let+ t := parse_time a v in
  ok (mk_tr t (as_usize ty)).
Definition finish (st : state) (footer : option bytes) : R (res timezone) :=
  let h := st_header st in
  let ts := time_size st in
  let* tchunks := chunks_exact ts (st_transition_times st) in
  let+ transitions := map_res (decode_tr ts (h_version h)) (zip tchunks (st_transition_types st)) in
  let* lchunks := chunks_exact 6 (st_local_time_types st) in
  let+ ltts := map_res (parse_ltt (st_names st) (char_count h)) lchunks in
  let* rec := add_usize ts 4 in
  let* pchunks := chunks_exact rec (st_leap_seconds st) in
  let+ leaps := map_res (parse_leap ts (h_version h)) pchunks in
  if indicators_bad (Z.to_nat (type_count h)) (st_std_walls st) (st_ut_locals st)
  then fail EInvalidTzFile else
  let+ extra_rule := footer_step (h_version h) footer in
  tz_new transitions ltts leaps extra_rule.
Definition select (data : bytes) : R (res (state * option bytes)) :=
  let+ '(st, c) := state_new (cur_new data) true in
  match h_version (st_header st) with
  | V1 => if cur_is_empty c then ok (st, None) else fail EInvalidTzFile
  | _ => let+ '(st2, c2) := state_new c false in
         match h_version (st_header st2) with
         | V1 => fail EInvalidTzFile
         | _ => ok (st2, Some (remaining c2))
         end
  end.
Lemma parse_select data : parse data = let+ '(st, footer) := select data in finish st footer.
Proof.
  unfold parse, select. destruct (state_new (cur_new data) true) as [[[st c]|e]| |]; reflexivity.
Qed.

(** ** groups *)
Lemma chunks_aux_groups n : (1 <= n)%nat -> forall k l, List.length l = (k * n)%nat ->
  chunks_aux n (pred n) [] l = groups k n l.
Proof.
  intros Hn. induction k as [|k IH]; intros l Hl.
  - destruct l; [reflexivity|cbn in Hl; lia].
  - cbn [groups]. rewrite <- (firstn_skipn n l) at 1.
    rewrite chunks_aux_app by (rewrite firstn_length; lia).
    cbn [rev app]. f_equal. apply IH. rewrite skipn_length. lia.
Qed.
Lemma chunks_exact_groups n k (l : bytes) : 1 <= n -> 0 <= k -> zlen l = k * n ->
  chunks_exact n l = Val (groups (Z.to_nat k) (Z.to_nat n) l).
Proof.
  intros Hn Hk Hl. unfold chunks_exact. replace (n <=? 0) with false by lia.
  rewrite (chunks_aux_groups (Z.to_nat n) ltac:(lia) (Z.to_nat k)); [reflexivity|].
  unfold zlen in Hl. nia.
Qed.
Lemma groups_Forall n : forall k l, List.length l = (k * n)%nat -> Forall byte l ->
  Forall (fun g => List.length g = n /\ Forall byte g) (groups k n l).
Proof.
  induction k as [|k IH]; intros l Hl Hb; cbn [groups]; [constructor|].
  constructor.
  - split; [rewrite firstn_length; lia|apply Forall_firstn; exact Hb].
  - apply IH; [rewrite skipn_length; lia|apply Forall_skipn; exact Hb].
Qed.
Lemma groups_length n : forall k l, List.length (groups k n l) = k.
Proof. induction k as [|k IH]; intros l; cbn [groups List.length]; [reflexivity|]. rewrite IH. reflexivity. Qed.
Lemma zip_combine {X Y} : forall (a : list X) (b : list Y), zip a b = combine a b.
Proof. induction a as [|x a IH]; intros [|y b]; cbn [zip combine]; try reflexivity. rewrite IH. reflexivity. Qed.

(** ** pure form of a sequential map *)
Lemma map_res_pure {A T} (f : A -> R (res T)) (g : A -> res T) (l : list A) :
  (forall a, In a l -> f a = Val (g a)) -> map_res f l = Val (mapr g l).
Proof.
  induction l as [|a r IH]; intros H; [reflexivity|].
  cbn [map_res mapr]. rewrite H by (left; reflexivity).
  destruct (g a) as [b|e]; cbn [rbind]; [|reflexivity].
  rewrite IH by (intros x Hx; apply H; right; exact Hx).
  destruct (mapr g r); reflexivity.
Qed.
Lemma mapr_total {A T} (g : A -> T) (l : list A) : mapr (fun a => Ok (g a)) l = Ok (map g l).
Proof. induction l as [|a r IH]; [reflexivity|]. cbn [mapr map]. rewrite IH. reflexivity. Qed.
Lemma mapr_ext {A T} (f g : A -> res T) (l : list A) : (forall a, In a l -> f a = g a) -> mapr f l = mapr g l.
Proof.
  induction l as [|a r IH]; intros H; [reflexivity|]. cbn [mapr]. rewrite H by (left; reflexivity).
  rewrite IH by (intros x Hx; apply H; right; exact Hx). reflexivity.
Qed.
Lemma mapr_ok_iff {A T} (g : A -> res T) (okb : A -> bool) (h : A -> T) (l : list A) :
  (forall a b, g a = Ok b <-> okb a = true /\ b = h a) ->
  forall bs, mapr g l = Ok bs <-> forallb okb l = true /\ bs = map h l.
Proof.
  intros Hg. induction l as [|a r IH]; intros bs; cbn [mapr forallb map].
  - split; [intros H; injection H as <-; auto|intros [_ ->]; reflexivity].
  - destruct (g a) as [b|e] eqn:Ea.
    + apply Hg in Ea. destruct Ea as [Ea ->]. rewrite Ea. cbn [andb].
      destruct (mapr g r) as [bs'|e].
      * destruct (proj1 (IH bs') eq_refl) as [Er ->]. rewrite Er.
        split; [intros H; injection H as <-; auto|intros [_ ->]; reflexivity].
      * split; [discriminate|]. intros [Hf ->].
        assert (Hx : @Err (list T) e = Ok (map h r)) by (apply IH; auto). discriminate.
    + split; [discriminate|]. intros [Hf ->]. apply andb_prop in Hf. destruct Hf as [Hf _].
      assert (Hx : g a = Ok (h a)) by (apply Hg; auto). rewrite Ea in Hx. discriminate.
Qed.
(* the first failing record decides the error *)
Lemma mapr_first_err {A T} (g : A -> res T) (pre : list A) a post e :
  (forall x, In x pre -> exists b, g x = Ok b) -> g a = Err e -> mapr g (pre ++ a :: post) = Err e.
Proof.
  induction pre as [|x pre IH]; intros Hp Ha; cbn [app mapr]; [rewrite Ha; reflexivity|].
  destruct (Hp x (or_introl eq_refl)) as (b & ->).
  rewrite IH; [reflexivity| |exact Ha]. intros y Hy. apply Hp. right. exact Hy.
Qed.
Lemma mapr_err_in {A T} (g : A -> res T) (l : list A) e : mapr g l = Err e -> exists a, In a l /\ g a = Err e.
Proof.
  induction l as [|a r IH]; cbn [mapr]; [discriminate|].
  destruct (g a) as [b|e'] eqn:Ea.
  - destruct (mapr g r) as [bs|e'']; [discriminate|]. intros H. injection H as ->.
    destruct (IH eq_refl) as (x & Hx & Hgx). exists x. split; [right; exact Hx|exact Hgx].
  - intros H. injection H as ->. exists a. split; [left; reflexivity|exact Ea].
Qed.

(** ** times *)
Definition ver_ts (ts : Z) (v : version) : Prop := (ts = 4 /\ v = V1) \/ (ts = 8 /\ v <> V1).
Lemma read_be_i32_val (a : bytes) : zlen a = 4 -> read_be_i32 a = ok (as_i32 (be_uint a)).
Proof.
  intros H. unfold read_be_i32, copy_from_slice. rewrite H. reflexivity.
Qed.
Lemma read_be_i64_val (a : bytes) : zlen a = 8 -> read_be_i64 a = ok (as_i64 (be_uint a)).
Proof.
  intros H. unfold read_be_i64, copy_from_slice. rewrite H. reflexivity.
Qed.
Lemma parse_time_val ts v (a : bytes) : ver_ts ts v -> zlen a = ts -> parse_time a v = ok (time_val ts a).
Proof.
  intros [[-> ->] | [-> Hv]] Ha; unfold parse_time, time_val.
  - unfold slice_to. rewrite slice_full by exact Ha. rewrite bind_val. apply read_be_i32_val. exact Ha.
  - change (8 =? 4) with false. cbv iota. destruct v; [congruence| |]; apply read_be_i64_val; exact Ha.
Qed.
Lemma decode_tr_val ts v (g : bytes) ty : ver_ts ts v -> zlen g = ts -> byte ty ->
  decode_tr ts v (g, ty) = Val (Ok (mk_tr (time_val ts g) ty)).
Proof.
  intros Hv Hg Hty. unfold decode_tr. rewrite slice_full by exact Hg. rewrite bind_val.
  rewrite (parse_time_val ts v g Hv Hg). rewrite rbind_ok.
  rewrite as_usize_id by (unfold byte, u32_max in *; lia). reflexivity.
Qed.

(** ** local time type records *)
Lemma len6_inv (r : bytes) : List.length r = 6%nat -> exists a b c d e f, r = [a; b; c; d; e; f].
Proof.
  intros H. destruct r as [|a [|b [|c [|d [|e [|f [|g r]]]]]]]; try discriminate H. eauto 10.
Qed.
Lemma dst_match (e : Z) :
  match e with 0 => ok false | 1 => ok true | _ => @fail bool EInvalidTzFile end
  = if e =? 0 then ok false else if e =? 1 then ok true else fail EInvalidTzFile.
Proof.
  destruct e as [|p|p]; try reflexivity. destruct p; reflexivity.
Qed.
Lemma prefix_len_until (l : bytes) :
  firstn (Z.to_nat (prefix_len (fun x => negb (x =? 0)) l)) l = until_nul l /\
  (prefix_len (fun x => negb (x =? 0)) l >=? zlen l) = negb (has_nul l).
Proof.
  induction l as [|x r [IH1 IH2]]; [split; reflexivity|].
  cbn [prefix_len until_nul has_nul existsb]. destruct (x =? 0) eqn:E; cbn [negb orb].
  - split; [reflexivity|]. rewrite zlen_cons. pose proof (zlen_nonneg r). lia.
  - pose proof (prefix_len_bounds (fun x => negb (x =? 0)) r) as Hb.
    replace (Z.to_nat (1 + prefix_len (fun x0 => negb (x0 =? 0)) r))
      with (S (Z.to_nat (prefix_len (fun x0 => negb (x0 =? 0)) r))) by lia.
    cbn [firstn]. rewrite IH1. split; [reflexivity|].
    unfold has_nul in IH2. rewrite <- IH2. rewrite zlen_cons. lia.
Qed.
Lemma name_loop_val (n : bytes) : forall i, 0 <= i -> i + zlen n <= 7 ->
  name_loop n i = if forallb is_name_char n then ok tt else fail ELocalTimeType.
Proof.
  induction n as [|b r IH]; intros i Hi Hl; [reflexivity|].
  cbn [name_loop forallb]. rewrite zlen_cons in Hl. pose proof (zlen_nonneg r).
  destruct (is_name_char b); cbn [andb]; [|reflexivity].
  unfold rassert. replace (i + 1 <? 8) with true by lia. rewrite bind_val. apply IH; lia.
Qed.
Lemma until_nul_sub (l : bytes) : zlen (until_nul l) <= zlen l.
Proof.
  induction l as [|x r IH]; cbn [until_nul]; [lia|]. destruct (x =? 0).
  - rewrite zlen_cons. pose proof (zlen_nonneg r). change (zlen (@nil Z)) with 0. lia.
  - rewrite !zlen_cons. lia.
Qed.

Lemma parse_ltt_val (names r : bytes) : List.length r = 6%nat -> Forall byte r -> zlen names <= u32_max ->
  parse_ltt names (zlen names) r = Val (ltt_res names r).
Proof.
  intros Hr Hb Hn. destruct (len6_inv r Hr) as (a & b & c & d & e & f & ->).
  assert (Hf : 0 <= f < 256).
  { rewrite Forall_forall in Hb. apply (Hb f). cbn. tauto. }
  unfold parse_ltt, ltt_res.
  change (slice_to [a; b; c; d; e; f] 4) with (Val [a; b; c; d]). rewrite bind_val.
  rewrite read_be_i32_val by reflexivity. rewrite rbind_ok.
  change (index [a; b; c; d; e; f] 4) with (Val e). rewrite bind_val.
  change (index [a; b; c; d; e; f] 5) with (Val f).
  change (rec_dst [a; b; c; d; e; f]) with e. change (rec_idx [a; b; c; d; e; f]) with f.
  change (rec_utoff [a; b; c; d; e; f]) with (as_i32 (be_uint [a; b; c; d])).
  rewrite dst_match.
  assert (Hdst : forall (K : bool -> R (res ltt)),
            rbind (if e =? 0 then ok false else if e =? 1 then ok true else fail EInvalidTzFile) K
            = if negb ((e =? 0) || (e =? 1)) then fail EInvalidTzFile else K (e =? 1)).
  { intros K. destruct (e =? 0) eqn:E0; [replace (e =? 1) with false by lia; reflexivity|].
    destruct (e =? 1); reflexivity. }
  rewrite Hdst. destruct (negb ((e =? 0) || (e =? 1))); [reflexivity|].
  rewrite bind_val. destruct (f >=? zlen names) eqn:Ef; [reflexivity|].
  unfold slice_from, slice. pose proof (zlen_nonneg names).
  replace ((0 <=? f) && (f <=? zlen names) && (zlen names <=? zlen names)) with true by lia.
  rewrite bind_val.
  set (tail := skipn (Z.to_nat f) names).
  assert (Htail : firstn (Z.to_nat (zlen names - f)) tail = tail).
  { apply firstn_all2. subst tail. rewrite skipn_length. unfold zlen in *. lia. }
  rewrite Htail.
  destruct (prefix_len_until tail) as [Hu Hh]. rewrite Hh.
  destruct (negb (has_nul tail)) eqn:Enul; [reflexivity|].
  pose proof (prefix_len_bounds (fun x => negb (x =? 0)) tail) as Hp.
  assert (Htl : zlen tail = zlen names - f) by (subst tail; apply zlen_skipn; lia).
  unfold add_usize. rewrite chk_in by (unfold u32_max in *; range_solver). rewrite bind_val.
  replace ((0 <=? f) && (f <=? f + prefix_len (fun x => negb (x =? 0)) tail)
           && (f + prefix_len (fun x => negb (x =? 0)) tail <=? zlen names)) with true by lia.
  rewrite bind_val.
  replace (f + prefix_len (fun x => negb (x =? 0)) tail - f) with (prefix_len (fun x => negb (x =? 0)) tail) by lia.
  fold tail. rewrite Hu.
  change (rec_desig names [a; b; c; d; e; f]) with (until_nul tail).
  unfold ltt_of_rec.
  change (rec_desig names [a; b; c; d; e; f]) with (until_nul tail).
  change (rec_dst [a; b; c; d; e; f]) with e.
  change (rec_utoff [a; b; c; d; e; f]) with (as_i32 (be_uint [a; b; c; d])).
  unfold ltt_new. change i32_min with (-2147483648).
  destruct (as_i32 (be_uint [a; b; c; d]) =? -2147483648); [reflexivity|].
  destruct (until_nul tail) as [|n0 nr] eqn:En; [reflexivity|].
  unfold tz_name_new, desig_ok. unfold TZ_NAME_MIN, TZ_NAME_MAX.
  destruct ((3 <=? zlen (n0 :: nr)) && (zlen (n0 :: nr) <=? 7)) eqn:El; cbn [negb andb]; [|reflexivity].
  rewrite name_loop_val by lia.
  destruct (forallb is_name_char (n0 :: nr)); reflexivity.
Qed.

Lemma ltt_res_ok names r l : ltt_res names r = Ok l <-> ltt_rec_ok names r = true /\ l = ltt_of_rec names r.
Proof.
  unfold ltt_res, ltt_rec_ok.
  destruct ((rec_dst r =? 0) || (rec_dst r =? 1)); cbn [negb andb];
    [|rewrite andb_false_r; cbn [andb]; split; [discriminate|intros [H _]; discriminate]].
  rewrite andb_true_r.
  destruct (rec_idx r >=? zlen names) eqn:Ei.
  - replace (rec_idx r <? zlen names) with false by lia. rewrite andb_false_r. cbn [andb].
    split; [discriminate|intros [H _]; discriminate].
  - replace (rec_idx r <? zlen names) with true by lia. rewrite andb_true_r.
    destruct (has_nul (skipn (Z.to_nat (rec_idx r)) names)); cbn [negb andb];
      [|rewrite andb_false_r; cbn [andb]; split; [discriminate|intros [H _]; discriminate]].
    rewrite andb_true_r.
    destruct (rec_utoff r =? -2147483648); cbn [negb andb]; [split; [discriminate|intros [H _]; discriminate]|].
    destruct (desig_ok (rec_desig names r)).
    + split; [intros H; injection H as <-; auto|intros [_ ->]; reflexivity].
    + split; [discriminate|intros [H _]; discriminate].
Qed.
(* a record is refused with one of two errors *)
Lemma ltt_res_errors names r e : ltt_res names r = Err e -> e = EInvalidTzFile \/ e = ELocalTimeType.
Proof.
  unfold ltt_res.
  repeat match goal with |- context [if ?c then _ else _] => destruct c end;
    intros H; try discriminate H; injection H as <-; auto.
Qed.

(** ** leap-second records *)
Lemma parse_leap_val ts v (g : bytes) : ver_ts ts v -> zlen g = ts + 4 ->
  parse_leap ts v g = Val (Ok (leap_of_rec ts g)).
Proof.
  intros Hv Hg. assert (Hts : ts = 4 \/ ts = 8) by (destruct Hv as [[-> _] | [-> _]]; auto).
  unfold parse_leap, leap_of_rec. unfold slice.
  replace ((0 <=? 0) && (0 <=? ts) && (ts <=? zlen g)) with true by lia. rewrite bind_val.
  change (Z.to_nat 0) with 0%nat. cbn [skipn]. replace (ts - 0) with ts by lia.
  rewrite (parse_time_val ts v) by (try exact Hv; rewrite zlen_firstn; lia). rewrite rbind_ok.
  unfold add_usize. rewrite chk_in by (destruct Hts as [-> | ->]; range_solver). rewrite bind_val.
  replace ((0 <=? ts) && (ts <=? ts + 4) && (ts + 4 <=? zlen g)) with true by lia. rewrite bind_val.
  assert (Hs : firstn (Z.to_nat (ts + 4 - ts)) (skipn (Z.to_nat ts) g) = skipn (Z.to_nat ts) g).
  { apply firstn_all2. rewrite skipn_length. unfold zlen in Hg. lia. }
  rewrite Hs. rewrite read_be_i32_val by (rewrite zlen_skipn; lia). rewrite rbind_ok. reflexivity.
Qed.

(** ** indicators *)
Lemma indicators_bad_spec : forall n sw ul, (List.length ul <= n)%nat ->
  indicators_bad n sw ul = negb (ut_implies_std sw ul).
Proof.
  induction n as [|n IH]; intros sw ul Hl.
  - destruct ul; [reflexivity|cbn in Hl; lia].
  - cbn [indicators_bad]. destruct ul as [|u ul'].
    + assert (Hnil : forall m s, indicators_bad m s [] = false).
      { clear. induction m as [|m IHm]; intros s; [reflexivity|]. cbn [indicators_bad].
        destruct s as [|x s']; change (0 =? 1) with false; rewrite andb_false_r; cbn [orb]; apply IHm. }
      destruct sw as [|s sw']; change (0 =? 1) with false; rewrite andb_false_r; cbn [orb ut_implies_std negb];
        apply Hnil.
    + cbn [ut_implies_std]. cbn [List.length] in Hl.
      destruct sw as [|s sw']; cbn [hd tl]; rewrite IH by lia;
        rewrite negb_andb, negb_involutive; reflexivity.
Qed.

(** ** construction: [validate] accepts exactly when the tables are fine and the footer rule agrees *)
Lemma validate_transitions_iff n l :
  validate_transitions n l = Ok tt <-> forallb (fun t => tr_idx t <? n) l && strict_incr (map tr_time l) = true.
Proof.
  induction l as [|t r IH]; [split; reflexivity|].
  cbn [validate_transitions forallb map]. destruct (tr_idx t >=? n) eqn:E1.
  - replace (tr_idx t <? n) with false by lia. cbn [andb]. split; discriminate.
  - replace (tr_idx t <? n) with true by lia. cbn [andb].
    destruct r as [|t2 r'].
    + cbn [map strict_incr forallb andb]. split; reflexivity.
    + cbn [map strict_incr]. destruct (tr_time t >=? tr_time t2) eqn:E2.
      * replace (tr_time t <? tr_time t2) with false by lia. cbn [andb]. rewrite andb_false_r. split; discriminate.
      * replace (tr_time t <? tr_time t2) with true by lia. cbn [andb]. rewrite IH. cbn [map strict_incr]. reflexivity.
Qed.
Ltac destruct_ifs :=
  repeat match goal with
         | |- context [if ?c then _ else _] =>
             lazymatch c with
             | context [if _ then _ else _] => fail
             | _ => destruct c eqn:?
             end
         end.
Lemma validate_leaps_iff l : Forall leap_ok l -> validate_leaps l = Ok tt <-> leaps_spaced_b l = true.
Proof.
  induction l as [|x0 r IH]; intros HF; [split; reflexivity|].
  destruct r as [|x1 r']; [split; reflexivity|].
  rewrite validate_leaps_cons2. cbn [leaps_spaced_b].
  inversion HF as [|? ? [Ht0 Hc0] HF']; subst. inversion HF' as [|? ? [Ht1 Hc1] _]; subst.
  assert (E : (sat_i64 (lp_time x1 - lp_time x0) >=? TZ_SECONDS_PER_28_DAYS - 1)
              && (sat_i32 (Z.abs (sat_i32 (lp_corr x1 - lp_corr x0))) =? 1)
              = (lp_time x0 + 2419199 <=? lp_time x1)
                && ((lp_corr x1 =? lp_corr x0 + 1) || (lp_corr x1 =? lp_corr x0 - 1))).
  { unfold sat_i64, sat_i32, clamp, TZ_SECONDS_PER_28_DAYS, i64_min, i64_max, i32_min, i32_max,
           in_i64, in_i32, in_range in *.
    destruct_ifs; lia. }
  rewrite E.
  destruct ((lp_time x0 + 2419199 <=? lp_time x1) && ((lp_corr x1 =? lp_corr x0 + 1) || (lp_corr x1 =? lp_corr x0 - 1)));
    cbn [negb andb]; [apply IH; exact HF'|split; discriminate].
Qed.
Lemma leap_first_iff (l : list leap) : Forall leap_ok l ->
  match l with
  | [] => ok tt
  | l0 :: _ => if negb ((lp_time l0 >=? 0) && (sat_i32 (Z.abs (lp_corr l0)) =? 1)) then fail ETimeZone else ok tt
  end = if leap_first_ok l then ok tt else fail ETimeZone.
Proof.
  intros HF. destruct l as [|l0 r]; [reflexivity|]. inversion HF as [|? ? [_ Hc] _]; subst.
  unfold leap_first_ok.
  assert (E : (lp_time l0 >=? 0) && (sat_i32 (Z.abs (lp_corr l0)) =? 1)
              = (0 <=? lp_time l0) && ((lp_corr l0 =? 1) || (lp_corr l0 =? -1))).
  { unfold sat_i32, clamp, i32_min, i32_max, in_i32, in_range in *.
    destruct_ifs; lia. }
  rewrite E. destruct ((0 <=? lp_time l0) && ((lp_corr l0 =? 1) || (lp_corr l0 =? -1))); reflexivity.
Qed.
Lemma footer_check_iff z :
  match extra_rule z, last_of (transitions z) with
  | Some rule, Some last =>
      let* last_ltt := index (local_time_types z) (tr_idx last) in
      let+ unix_time := oor_to ETimeZone (unix_leap_time_to_unix_time (leap_seconds z) (tr_time last)) in
      let+ rule_ltt := oor_to ETimeZone (rule_find_local_time_type rule unix_time) in
      let check := (ut_offset last_ltt =? ut_offset rule_ltt)
                   && Bool.eqb (is_dst last_ltt) (is_dst rule_ltt)
                   && opt_bytes_eqb (name last_ltt) (name rule_ltt) in
      if negb check then fail ETimeZone else ok tt
  | _, _ => ok tt
  end = Val (Ok tt) <-> footer_consistent z = true.
Proof.
  unfold footer_consistent.
  destruct (extra_rule z) as [rule|]; [|split; reflexivity].
  destruct (last_of (transitions z)) as [last|]; [|split; reflexivity].
  destruct (index (local_time_types z) (tr_idx last)) as [last_ltt| |]; cbn [bind]; try (split; discriminate).
  destruct (unix_leap_time_to_unix_time (leap_seconds z) (tr_time last)) as [[ut|e]| |];
    cbn [oor_to rbind]; try (split; discriminate).
  2: { destruct e; cbn [rbind]; split; discriminate. }
  destruct (rule_find_local_time_type rule ut) as [[rl|e]| |]; cbn [oor_to rbind]; try (split; discriminate).
  2: { destruct e; cbn [rbind]; split; discriminate. }
  cbv zeta.
  destruct ((ut_offset last_ltt =? ut_offset rl) && Bool.eqb (is_dst last_ltt) (is_dst rl)
            && opt_bytes_eqb (name last_ltt) (name rl)); cbn [negb]; split; try reflexivity; discriminate.
Qed.

Lemma tz_new_iff trs tys lps rule z : Forall leap_ok lps ->
  tz_new trs tys lps rule = Val (Ok z) <->
  tys <> [] /\ tables_ok (zlen tys) trs lps = true /\
  footer_consistent (mk_tz trs tys lps rule) = true /\ z = mk_tz trs tys lps rule.
Proof.
  intros Hlp. unfold tz_new, validate, tables_ok. cbn [local_time_types transitions leap_seconds extra_rule].
  assert (Hne : (zlen tys =? 0) = true <-> tys = []).
  { destruct tys as [|t r]; [split; reflexivity|]. rewrite zlen_cons. pose proof (zlen_nonneg r). split; [lia|discriminate]. }
  destruct (zlen tys =? 0) eqn:E0.
  - split; [discriminate|]. intros (Hn & _). exfalso. apply Hn. apply Hne. reflexivity.
  - assert (Hn : tys <> []) by (intros Hx; apply Hne in Hx; discriminate).
    pose proof (validate_transitions_iff (zlen tys) trs) as Hvt.
    destruct (validate_transitions (zlen tys) trs) as [[]|e] eqn:Evt; cbn [rbind].
    + rewrite (proj1 Hvt eq_refl). cbn [andb].
      rewrite (leap_first_iff lps Hlp).
      destruct (leap_first_ok lps); cbn [rbind andb];
        [|split; [discriminate|intros (_ & H & _); discriminate]].
      pose proof (validate_leaps_iff lps Hlp) as Hvl.
      destruct (validate_leaps lps) as [[]|e] eqn:Evl; cbn [rbind].
      * rewrite (proj1 Hvl eq_refl).
        pose proof (footer_check_iff (mk_tz trs tys lps rule)) as Hfc.
        cbn [local_time_types transitions leap_seconds extra_rule] in Hfc.
        match goal with |- rbind ?X _ = _ <-> _ => destruct X as [[[]|e]| |] eqn:EX end; cbn [rbind].
        -- rewrite (proj1 Hfc EX). split; [intros H; injection H as <-; auto|intros (_ & _ & _ & ->); reflexivity].
        -- split; [discriminate|]. intros (_ & _ & H & _).
           pose proof (eq_trans (eq_sym EX) (proj2 Hfc H)) as Hx. discriminate Hx.
        -- split; [discriminate|]. intros (_ & _ & H & _).
           pose proof (eq_trans (eq_sym EX) (proj2 Hfc H)) as Hx. discriminate Hx.
        -- split; [discriminate|]. intros (_ & _ & H & _).
           pose proof (eq_trans (eq_sym EX) (proj2 Hfc H)) as Hx. discriminate Hx.
      * split; [discriminate|]. intros (_ & H & _). apply Hvl in H. discriminate.
    + split; [discriminate|]. intros (_ & H & _).
      apply andb_prop in H. destruct H as [H _]. apply andb_prop in H. destruct H as [H _].
      apply Hvt in H. discriminate.
Qed.

(** ** the block decoder in closed form *)
Lemma time_val_range ts g : in_i64 (time_val ts g) = true.
Proof.
  unfold time_val. destruct (ts =? 4); [|apply as_i64_range].
  pose proof (as_i32_range (be_uint g)). range_solver.
Qed.
Lemma st_leaps_ok st : Forall leap_ok (st_leaps st).
Proof.
  unfold st_leaps, blk_leaps. apply Forall_forall. intros l Hl. apply in_map_iff in Hl.
  destruct Hl as (g & <- & _). split; [apply time_val_range|apply as_i32_range].
Qed.
Lemma zlen_to_nat {A} (l : list A) k : zlen l = k -> List.length l = Z.to_nat k.
Proof. unfold zlen. lia. Qed.

Record blk_hyps (st : state) (ts : Z) : Prop := mk_blk_hyps {
  bh_st : st_ok st ts;
  bh_ver : ver_ts ts (h_version (st_header st));
  bh_ut : zlen (st_ut_locals st) <= type_count (st_header st) }.

Lemma finish_eq st ts footer : blk_hyps st ts ->
  finish st footer =
  match mapr (ltt_res (st_names st)) (blk_ltt_recs (st_local_time_types st)) with
  | Err e => Val (Err e)
  | Ok ltts =>
      if negb (ut_implies_std (st_std_walls st) (st_ut_locals st)) then fail EInvalidTzFile else
      let+ rule := footer_step (h_version (st_header st)) footer in
      tz_new (st_transitions st) ltts (st_leaps st) rule
  end.
Proof.
  intros [Hst Hver Hut].
  destruct Hst as [Hh Htsz [Ht1 Ht2] [Hy1 Hy2] [Hl1 Hl2] [Hn1 Hn2] [Hp1 Hp2] Hsw Hul].
  assert (Hts : ts = 4 \/ ts = 8) by (destruct Hver as [[-> _] | [-> _]]; auto).
  destruct Hh as (G1 & G2 & G3 & G4 & G5 & G6). unfold u32_max in *.
  unfold finish, st_transitions, st_leaps. cbv zeta. rewrite Htsz.
  (* transitions *)
  rewrite (chunks_exact_groups ts (transition_count (st_header st))) by lia. rewrite bind_val.
  rewrite zip_combine.
  rewrite (map_res_pure _ (fun p => Ok (mk_tr (time_val ts (fst p)) (snd p)))).
  2: { intros [g ty] Hin. cbn [fst snd].
       pose proof (in_combine_l _ _ _ _ Hin) as Hg. pose proof (in_combine_r _ _ _ _ Hin) as Hty.
       pose proof (groups_Forall (Z.to_nat ts) (Z.to_nat (transition_count (st_header st))) (st_transition_times st)
                     ltac:(unfold zlen in Ht1; nia) Ht2) as HF.
       rewrite Forall_forall in HF. destruct (HF g Hg) as [Hgl _].
       apply decode_tr_val; [exact Hver|unfold zlen; lia|].
       rewrite Forall_forall in Hy2. apply Hy2. exact Hty. }
  rewrite mapr_total. change (Val (Ok ?x)) with (ok x). rewrite rbind_ok.
  (* local time types *)
  rewrite (chunks_exact_groups 6 (type_count (st_header st))) by lia. rewrite bind_val.
  assert (Hrecs : groups (Z.to_nat (type_count (st_header st))) (Z.to_nat 6) (st_local_time_types st)
                  = blk_ltt_recs (st_local_time_types st)).
  { unfold blk_ltt_recs. rewrite Hl1. rewrite Z.div_mul by lia. reflexivity. }
  rewrite Hrecs. rewrite <- Hn1.
  rewrite (map_res_pure _ (ltt_res (st_names st))).
  2: { intros r Hin. rewrite <- Hrecs in Hin.
       pose proof (groups_Forall (Z.to_nat 6) (Z.to_nat (type_count (st_header st))) (st_local_time_types st)
                     ltac:(unfold zlen in Hl1; lia) Hl2) as HF.
       rewrite Forall_forall in HF. destruct (HF r Hin) as [Hrl Hrb].
       apply parse_ltt_val; [exact Hrl|exact Hrb|unfold u32_max; lia]. }
  destruct (mapr (ltt_res (st_names st)) (blk_ltt_recs (st_local_time_types st))) as [ltts|e]; [|reflexivity].
  change (Val (Ok ltts)) with (ok ltts). rewrite rbind_ok.
  (* leap records *)
  unfold add_usize. rewrite chk_in by (destruct Hts as [-> | ->]; range_solver). rewrite bind_val.
  rewrite (chunks_exact_groups (ts + 4) (leap_count (st_header st))) by lia. rewrite bind_val.
  rewrite (map_res_pure _ (fun g => Ok (leap_of_rec ts g))).
  2: { intros g Hin.
       pose proof (groups_Forall (Z.to_nat (ts + 4)) (Z.to_nat (leap_count (st_header st))) (st_leap_seconds st)
                     ltac:(unfold zlen in Hp1; nia) Hp2) as HF.
       rewrite Forall_forall in HF. destruct (HF g Hin) as [Hgl _].
       apply parse_leap_val; [exact Hver|unfold zlen; lia]. }
  rewrite mapr_total. change (Val (Ok ?x)) with (ok x). rewrite rbind_ok.
  (* indicators *)
  rewrite indicators_bad_spec by (unfold zlen in Hut; lia).
  unfold blk_transitions, blk_leaps.
  replace (List.length (st_transition_types st)) with (Z.to_nat (transition_count (st_header st)))
    by (symmetry; apply zlen_to_nat; exact Hy1).
  rewrite Hp1. rewrite Z.div_mul by lia. reflexivity.
Qed.

(** ** acceptance of a block: exactly [block_ok], an accepted footer text and a consistent rule;
    the zone is the one cut out of the sections *)
Lemma st_types_len st ts : st_ok st ts -> zlen (st_types st) = type_count (st_header st) /\ st_types st <> [].
Proof.
  intros Hst. destruct Hst as [Hh _ _ _ [Hl1 _] _ _ _ _]. destruct Hh as (_ & _ & _ & _ & G5 & _).
  assert (E : zlen (st_types st) = type_count (st_header st)).
  { unfold st_types, blk_types, blk_ltt_recs. rewrite Hl1. rewrite Z.div_mul by lia.
    unfold zlen. rewrite map_length, groups_length. lia. }
  split; [exact E|]. intros Hx. rewrite Hx in E. change (zlen (@nil ltt)) with 0 in E. lia.
Qed.
Theorem finish_accepts st ts footer z : blk_hyps st ts ->
  finish st footer = Val (Ok z) <->
  block_ok st = true /\
  exists rule, footer_step (h_version (st_header st)) footer = Val (Ok rule) /\
               footer_consistent (st_zone st rule) = true /\ z = st_zone st rule.
Proof.
  intros Hb. rewrite (finish_eq st ts footer Hb). destruct Hb as [Hst Hver Hut].
  destruct (st_types_len st ts Hst) as [Hlen Hne].
  unfold block_ok.
  pose proof (mapr_ok_iff (ltt_res (st_names st)) (ltt_rec_ok (st_names st)) (ltt_of_rec (st_names st))
                (blk_ltt_recs (st_local_time_types st)) (ltt_res_ok (st_names st))) as Hm.
  destruct (mapr (ltt_res (st_names st)) (blk_ltt_recs (st_local_time_types st))) as [ltts|e].
  - destruct (proj1 (Hm ltts) eq_refl) as [Hok ->]. rewrite Hok. cbn [andb].
    fold (blk_types (st_names st) (st_local_time_types st)). fold (st_types st).
    destruct (ut_implies_std (st_std_walls st) (st_ut_locals st)); cbn [negb andb].
    2: { split; [discriminate|intros [H _]; discriminate]. }
    destruct (footer_step (h_version (st_header st)) footer) as [[rule|e]| |]; cbn [rbind].
    + rewrite (tz_new_iff _ _ _ rule z (st_leaps_ok st)). rewrite Hlen. unfold st_zone. split.
      * intros (_ & Ht & Hc & ->). split; [exact Ht|]. exists rule. auto.
      * intros (Ht & rule' & Hr & Hc & ->). injection Hr as <-. auto.
    + split; [discriminate|]. intros (_ & rule' & Hr & _). discriminate.
    + split; [discriminate|]. intros (_ & rule' & Hr & _). discriminate.
    + split; [discriminate|]. intros (_ & rule' & Hr & _). discriminate.
  - split; [discriminate|]. intros [H _].
    apply andb_prop in H. destruct H as [H _]. apply andb_prop in H. destruct H as [H _].
    assert (Hx : @Err (list ltt) e = Ok (map (ltt_of_rec (st_names st)) (blk_ltt_recs (st_local_time_types st))))
      by (apply Hm; auto).
    discriminate.
Qed.

(** ** the two rejections at the level of a block.  The local time type records are decoded before
    anything else of the block can fail, in file order, so the first refused record decides:
    a record whose offset is i32::MIN gives LocalTimeType (unless its isdst byte, its index or the
    missing NUL already gave InvalidTzFile); an index whose designation is not NUL-terminated inside
    the table gives InvalidTzFile (unless the isdst byte is not 0 / 1). *)
Theorem finish_ltt_error st ts footer e : blk_hyps st ts ->
  mapr (ltt_res (st_names st)) (blk_ltt_recs (st_local_time_types st)) = Err e ->
  finish st footer = Val (Err e) /\ (e = EInvalidTzFile \/ e = ELocalTimeType).
Proof.
  intros Hb He. rewrite (finish_eq st ts footer Hb), He. split; [reflexivity|].
  destruct (mapr_err_in _ _ _ He) as (r & _ & Hr). eapply ltt_res_errors. exact Hr.
Qed.
Lemma ltt_res_min names r : rec_utoff r = -2147483648 -> exists e, ltt_res names r = Err e.
Proof.
  intros H. unfold ltt_res. rewrite H. change (-2147483648 =? -2147483648) with true.
  repeat match goal with |- context [if ?c then _ else _] => destruct c end; eexists; reflexivity.
Qed.
Lemma ltt_res_min_exact names r : rec_utoff r = -2147483648 ->
  (rec_dst r =? 0) || (rec_dst r =? 1) = true -> rec_idx r < zlen names ->
  has_nul (skipn (Z.to_nat (rec_idx r)) names) = true -> ltt_res names r = Err ELocalTimeType.
Proof.
  intros H Hd Hi Hn. unfold ltt_res. rewrite H, Hd, Hn. replace (rec_idx r >=? zlen names) with false by lia.
  reflexivity.
Qed.
Lemma ltt_res_no_nul names r : has_nul (skipn (Z.to_nat (rec_idx r)) names) = false ->
  ltt_res names r = Err EInvalidTzFile.
Proof.
  intros Hn. unfold ltt_res. rewrite Hn. cbn [negb].
  repeat match goal with |- context [if ?c then _ else _] => destruct c end; reflexivity.
Qed.
Lemma mapr_some_err {A T} (g : A -> res T) (l : list A) a : In a l -> (exists e, g a = Err e) -> exists e, mapr g l = Err e.
Proof.
  intros Hin [e He]. destruct (mapr g l) as [bs|e'] eqn:Em; [|eauto]. exfalso.
  revert bs Em. induction l as [|x r IH]; intros bs Em; [destruct Hin|].
  cbn [mapr] in Em. destruct (g x) as [b|ex] eqn:Ex; [|discriminate].
  destruct (mapr g r) as [bs'|e''] eqn:Er; [|discriminate].
  destruct Hin as [-> | Hin]; [rewrite He in Ex; discriminate|]. exact (IH Hin bs' eq_refl).
Qed.
(* some record with offset i32::MIN: the block is refused, with one of the two errors *)
Theorem finish_rejects_min_offset st ts footer r : blk_hyps st ts ->
  In r (blk_ltt_recs (st_local_time_types st)) -> rec_utoff r = -2147483648 ->
  exists e, finish st footer = Val (Err e) /\ (e = EInvalidTzFile \/ e = ELocalTimeType).
Proof.
  intros Hb Hin Hr.
  destruct (mapr_some_err (ltt_res (st_names st)) _ r Hin (ltt_res_min _ r Hr)) as (e & He).
  exists e. apply (finish_ltt_error st ts footer e Hb He).
Qed.
(* some record whose designation has no NUL after its index: refused with InvalidTzFile or, when an
   earlier record has offset i32::MIN or a bad designation, LocalTimeType *)
Theorem finish_rejects_unterminated st ts footer r : blk_hyps st ts ->
  In r (blk_ltt_recs (st_local_time_types st)) ->
  has_nul (skipn (Z.to_nat (rec_idx r)) (st_names st)) = false ->
  exists e, finish st footer = Val (Err e) /\ (e = EInvalidTzFile \/ e = ELocalTimeType).
Proof.
  intros Hb Hin Hr.
  destruct (mapr_some_err (ltt_res (st_names st)) _ r Hin (ex_intro _ _ (ltt_res_no_nul _ r Hr))) as (e & He).
  exists e. apply (finish_ltt_error st ts footer e Hb He).
Qed.
(* the exact error: the records before the offending one are fine *)
Theorem finish_first_bad_record st ts footer pre r post e : blk_hyps st ts ->
  blk_ltt_recs (st_local_time_types st) = pre ++ r :: post ->
  forallb (ltt_rec_ok (st_names st)) pre = true -> ltt_res (st_names st) r = Err e ->
  finish st footer = Val (Err e).
Proof.
  intros Hb Hsplit Hpre Hr. apply (finish_ltt_error st ts footer e Hb).
  rewrite Hsplit. apply mapr_first_err; [|exact Hr].
  intros x Hx. rewrite forallb_forall in Hpre. exists (ltt_of_rec (st_names st) x).
  apply ltt_res_ok. split; [apply Hpre; exact Hx|reflexivity].
Qed.
